(* ConcProofs.v — the generic theorems of C12 over the machine of Conc.v, and the soundness of the
   skeleton checkers.  Stdlib only, no axioms.

   (a) invariant_all_interleavings   (b) lock_order_no_deadlock
   (c) lockset_no_adjacent_conflict  (d) commutative_totals
   instance: skeleton_no_deadlock, skeleton_lockset_consistent, skeleton_atomic_only *)
From Coq Require Import List Arith Lia ZArith Bool.
From Arsenal Require Import Conc.
Import ListNotations.

(* ------------------------------------------------------------------------------------------ *)
(** * Basics *)

Lemma upd_same : forall A (f : nat -> A) k v, upd f k v k = v.
Proof. intros A f k v. unfold upd. destruct (Nat.eq_dec k k) as [_|Hn]; [reflexivity|contradiction]. Qed.

Lemma upd_other : forall A (f : nat -> A) k v k', k' <> k -> upd f k v k' = f k'.
Proof. intros A f k v k' Hne. unfold upd. destruct (Nat.eq_dec k' k) as [He|_]; [contradiction|reflexivity]. Qed.

Lemma memb_In : forall l xs, memb l xs = true <-> In l xs.
Proof.
  intros l xs. unfold memb. rewrite existsb_exists. split.
  - intros [y [Hin Heq]]. apply Nat.eqb_eq in Heq. subst y. exact Hin.
  - intros Hin. exists l. split; [exact Hin | apply Nat.eqb_refl].
Qed.

Lemma hW_app : forall p q w, hW w (p ++ q) = hW (hW w p) q.
Proof. induction p as [|a p IH]; intros q w; simpl; [reflexivity | apply IH]. Qed.
Lemma hR_app : forall p q r, hR r (p ++ q) = hR (hR r p) q.
Proof. induction p as [|a p IH]; intros q r; simpl; [reflexivity | apply IH]. Qed.

Lemma heldW_snoc : forall d a, heldW (d ++ [a]) = updW a (heldW d).
Proof. intros d a. unfold heldW. rewrite hW_app. reflexivity. Qed.
Lemma heldR_snoc : forall d a, heldR (d ++ [a]) = updR a (heldR d).
Proof. intros d a. unfold heldR. rewrite hR_app. reflexivity. Qed.

Lemma in_remove_iff : forall (l x : nat) xs, In x (remove Nat.eq_dec l xs) <-> In x xs /\ x <> l.
Proof.
  intros l x xs. split.
  - intros H. apply in_remove in H. exact H.
  - intros [H1 H2]. apply in_in_remove; assumption.
Qed.

Lemma seq_exec_app : forall p q m, seq_exec (p ++ q) m = seq_exec q (seq_exec p m).
Proof. induction p as [|a p IH]; intros q m; simpl; [reflexivity | apply IH]. Qed.

(* ------------------------------------------------------------------------------------------ *)
(** * What a step does *)

Definition lock_effect (t : tid) (a : action) (s s' : state) : Prop :=
  match a with
  | Acq l => lw (locks s l) = None /\ lr (locks s l) = [] /\
             locks s' = upd (locks s) l (mkL (Some t) []) /\ mem s' = mem s
  | Rel l => lw (locks s l) = Some t /\
             locks s' = upd (locks s) l (mkL None (lr (locks s l))) /\ mem s' = mem s
  | RAcq l => lw (locks s l) = None /\
              locks s' = upd (locks s) l (mkL None (t :: lr (locks s l))) /\ mem s' = mem s
  | RRel l => In t (lr (locks s l)) /\
              locks s' = upd (locks s) l (mkL (lw (locks s l)) (remove Nat.eq_dec t (lr (locks s l)))) /\
              mem s' = mem s
  | Rd _ => locks s' = locks s /\ mem s' = mem s
  | Wr x f | AtomicOp x f => locks s' = locks s /\ mem s' = upd (mem s) x (f (mem s))
  end.

Lemma step_inv : forall t s a s', step t s = Some (a, s') ->
  exists rest, todo (thr s t) = a :: rest /\
    thr s' = upd (thr s) t (mkT (done (thr s t) ++ [a]) rest) /\
    lock_effect t a s s'.
Proof.
  intros t s a s' H. unfold step in H.
  destruct (todo (thr s t)) as [|a0 rest] eqn:Htodo; [discriminate|].
  destruct a0 as [l|l|l|l|x|x f|x f].
  - destruct (lw (locks s l)) eqn:Hw; [discriminate|].
    destruct (lr (locks s l)) eqn:Hr; [|discriminate].
    inversion H; subst; clear H. exists rest. split; [reflexivity|]. split; [reflexivity|].
    simpl. auto.
  - destruct (lw (locks s l)) as [t0|] eqn:Hw; [|discriminate].
    destruct (Nat.eq_dec t0 t) as [He|Hne]; [|discriminate].
    inversion H; subst; clear H. exists rest. split; [reflexivity|]. split; [reflexivity|].
    simpl. auto.
  - destruct (lw (locks s l)) eqn:Hw; [discriminate|].
    inversion H; subst; clear H. exists rest. split; [reflexivity|]. split; [reflexivity|].
    simpl. auto.
  - destruct (in_dec Nat.eq_dec t (lr (locks s l))) as [Hi|Hn]; [|discriminate].
    inversion H; subst; clear H. exists rest. split; [reflexivity|]. split; [reflexivity|].
    simpl. auto.
  - inversion H; subst; clear H. exists rest. split; [reflexivity|]. split; [reflexivity|]. simpl. auto.
  - inversion H; subst; clear H. exists rest. split; [reflexivity|]. split; [reflexivity|]. simpl. auto.
  - inversion H; subst; clear H. exists rest. split; [reflexivity|]. split; [reflexivity|]. simpl. auto.
Qed.

Lemma step_mem : forall t s a s', step t s = Some (a, s') -> mem s' = apply_action a (mem s).
Proof.
  intros t s a s' H. apply step_inv in H. destruct H as [rest [_ [_ He]]].
  destruct a; simpl in He; simpl; intuition.
Qed.

Lemma step_thr_other : forall t s a s' t', step t s = Some (a, s') -> t' <> t -> thr s' t' = thr s t'.
Proof.
  intros t s a s' t' H Hne. apply step_inv in H. destruct H as [rest [_ [Ht _]]].
  rewrite Ht. apply upd_other. exact Hne.
Qed.

Lemma step_done_self : forall t s a s', step t s = Some (a, s') -> done (thr s' t) = done (thr s t) ++ [a].
Proof.
  intros t s a s' H. apply step_inv in H. destruct H as [rest [_ [Ht _]]].
  rewrite Ht. rewrite upd_same. reflexivity.
Qed.

(* ------------------------------------------------------------------------------------------ *)
(** * Executions *)

Lemma exec_app : forall tr1 tr2 s s'',
  exec s (tr1 ++ tr2) s'' <-> exists s', exec s tr1 s' /\ exec s' tr2 s''.
Proof.
  induction tr1 as [|[t a] tr1 IH]; intros tr2 s s''; simpl.
  - split.
    + intros H. exists s. split; [constructor | exact H].
    + intros [s' [H1 H2]]. inversion H1; subst. exact H2.
  - split.
    + intros H. inversion H; subst. apply IH in H6. destruct H6 as [s1 [Ha Hb]].
      exists s1. split; [econstructor; eassumption | exact Hb].
    + intros [s1 [H1 H2]]. inversion H1; subst. econstructor; [eassumption|].
      apply IH. exists s1. split; assumption.
Qed.

Lemma exec_preserves : forall (Inv : state -> Prop),
  (forall t s a s', Inv s -> step t s = Some (a, s') -> Inv s') ->
  forall s tr s', exec s tr s' -> Inv s -> Inv s'.
Proof.
  intros Inv Hstep s tr s' H. induction H as [s|s t a s1 tr s2 Hs He IH]; intros Hi.
  - exact Hi.
  - apply IH. eapply Hstep; eassumption.
Qed.

Lemma exec_run : forall tr s s', exec s tr s' <-> run (schedule_of tr) s = Some (tr, s') .
Proof.
  induction tr as [|[t a] tr IH]; intros s s'; simpl.
  - split.
    + intros H. inversion H; subst. reflexivity.
    + intros H. inversion H; subst. constructor.
  - split.
    + intros H. inversion H; subst. rewrite H5. apply IH in H6. rewrite H6. reflexivity.
    + intros H. destruct (step t s) as [[a1 s1]|] eqn:Hs; [|discriminate].
      destruct (run (schedule_of tr) s1) as [[tr1 s2]|] eqn:Hr; [|discriminate].
      inversion H; subst. econstructor; [exact Hs|]. apply IH. exact Hr.
Qed.

(* a schedule determines trace and final state *)
Lemma schedule_determines : forall tr1 tr2 s s1 s2,
  exec s tr1 s1 -> exec s tr2 s2 -> schedule_of tr1 = schedule_of tr2 -> tr1 = tr2 /\ s1 = s2.
Proof.
  intros tr1 tr2 s s1 s2 H1 H2 He. apply exec_run in H1. apply exec_run in H2.
  rewrite He in H1. rewrite H1 in H2. inversion H2. auto.
Qed.

Definition proj (t : tid) (tr : list event) : list action :=
  map snd (filter (fun e => Nat.eqb (fst e) t) tr).

Lemma exec_done : forall s tr s', exec s tr s' ->
  forall t, done (thr s' t) = done (thr s t) ++ proj t tr.
Proof.
  intros s tr s' H. induction H as [s|s u a s1 tr s2 Hs He IH]; intros t.
  - unfold proj. simpl. rewrite app_nil_r. reflexivity.
  - rewrite IH. unfold proj. simpl. destruct (Nat.eqb u t) eqn:E.
    + apply Nat.eqb_eq in E. subst u. rewrite (step_done_self _ _ _ _ Hs).
      simpl. rewrite <- app_assoc. reflexivity.
    + apply Nat.eqb_neq in E. rewrite (step_thr_other _ _ _ _ t Hs); [reflexivity|].
      intro Hc. apply E. symmetry. exact Hc.
Qed.

Lemma in_proj : forall t tr a, In a (proj t tr) -> In (t, a) tr.
Proof.
  intros t tr a H. unfold proj in H. apply in_map_iff in H. destruct H as [[u b] [Hb Hin]].
  simpl in Hb. subst b. apply filter_In in Hin. destruct Hin as [Hin Hu]. simpl in Hu.
  apply Nat.eqb_eq in Hu. subst u. exact Hin.
Qed.

(* well-formedness: what is done plus what is left is the thread's program *)
Definition wf (P : program) (s : state) : Prop :=
  forall t, done (thr s t) ++ todo (thr s t) = nth t P [].

Lemma wf_init : forall P m0, wf P (init P m0).
Proof. intros P m0 t. reflexivity. Qed.

Lemma wf_step : forall P t s a s', wf P s -> step t s = Some (a, s') -> wf P s'.
Proof.
  intros P t s a s' Hwf Hs u. pose proof (step_inv _ _ _ _ Hs) as [rest [Htodo [Hthr _]]].
  rewrite Hthr. destruct (Nat.eq_dec u t) as [He|Hne].
  - subst u. rewrite upd_same. simpl. rewrite <- app_assoc. simpl. rewrite <- Htodo. apply Hwf.
  - rewrite upd_other by exact Hne. apply Hwf.
Qed.

Lemma wf_exec : forall P m0 tr s, exec (init P m0) tr s -> wf P s.
Proof.
  intros P m0 tr s H. eapply (exec_preserves (wf P)); [|exact H|apply wf_init].
  intros t s0 a s1 Hw Hs. eapply wf_step; eassumption.
Qed.

Lemma nth_program_In : forall (P : program) t a, In a (nth t P []) -> In (nth t P []) P.
Proof.
  intros P t a Hin. destruct (Nat.lt_ge_cases t (length P)) as [Hlt|Hge].
  - apply nth_In. exact Hlt.
  - rewrite nth_overflow in Hin by exact Hge. contradiction.
Qed.

Lemma Forall_nth_program : forall (Q : thread -> Prop) (P : program),
  Q [] -> Forall Q P -> forall t, Q (nth t P []).
Proof.
  intros Q P Hnil HP t. destruct (Nat.lt_ge_cases t (length P)) as [Hlt|Hge].
  - rewrite Forall_forall in HP. apply HP. apply nth_In. exact Hlt.
  - rewrite nth_overflow by exact Hge. exact Hnil.
Qed.

(* ------------------------------------------------------------------------------------------ *)
(** * Coherence of the lock table with the threads' own view; mutual exclusion *)

Definition coh (s : state) : Prop :=
  (forall l t, lw (locks s l) = Some t <-> In l (heldW (done (thr s t)))) /\
  (forall l t, In t (lr (locks s l)) <-> In l (heldR (done (thr s t)))) /\
  (forall l, lw (locks s l) <> None -> lr (locks s l) = []).

Lemma coh_init : forall P m0, coh (init P m0).
Proof.
  intros P m0. unfold coh, init; simpl. repeat split; intros; try discriminate; try contradiction.
Qed.

Lemma coh_step : forall t s a s', coh s -> step t s = Some (a, s') -> coh s'.
Proof.
  intros t s a s' [C1 [C2 C3]] Hs.
  pose proof (step_inv _ _ _ _ Hs) as [rest [Htodo [Hthr Heff]]].
  assert (Hd : forall u, done (thr s' u) = if Nat.eq_dec u t then done (thr s t) ++ [a] else done (thr s u)).
  { intros u. rewrite Hthr. unfold upd. destruct (Nat.eq_dec u t); reflexivity. }
  destruct a as [l|l|l|l|x|x f|x f]; simpl in Heff.
  - (* Acq *)
    destruct Heff as [Hw [Hr [Hl _]]].
    repeat split.
    + intros H. rewrite Hl in H. rewrite Hd. unfold upd in H.
      destruct (Nat.eq_dec l0 l) as [El|Nl]; simpl in H.
      * inversion H; subst. destruct (Nat.eq_dec t0 t0); [|contradiction]. rewrite heldW_snoc. simpl. left. reflexivity.
      * destruct (Nat.eq_dec t0 t) as [Et|Nt].
        -- subst. rewrite heldW_snoc. simpl. right. apply C1. exact H.
        -- apply C1. exact H.
    + intros H. rewrite Hl. rewrite Hd in H. unfold upd.
      destruct (Nat.eq_dec l0 l) as [El|Nl]; simpl.
      * subst l0. destruct (Nat.eq_dec t0 t) as [Et|Nt]; [subst; reflexivity|].
        apply C1 in H. rewrite Hw in H. discriminate.
      * destruct (Nat.eq_dec t0 t) as [Et|Nt].
        -- subst. rewrite heldW_snoc in H. simpl in H. destruct H as [H|H]; [subst; contradiction|]. apply C1. exact H.
        -- apply C1. exact H.
    + intros H. rewrite Hl in H. rewrite Hd. unfold upd in H.
      destruct (Nat.eq_dec l0 l) as [El|Nl]; simpl in H; [contradiction|].
      destruct (Nat.eq_dec t0 t) as [Et|Nt].
      * subst. rewrite heldR_snoc. simpl. apply C2. exact H.
      * apply C2. exact H.
    + intros H. rewrite Hl. rewrite Hd in H. unfold upd.
      destruct (Nat.eq_dec l0 l) as [El|Nl]; simpl.
      * subst l0. assert (Hx : In t0 (lr (locks s l))).
        { apply C2. destruct (Nat.eq_dec t0 t) as [Et|Nt]; [|exact H].
          subst. rewrite heldR_snoc in H. simpl in H. exact H. }
        rewrite Hr in Hx. contradiction.
      * apply C2. destruct (Nat.eq_dec t0 t) as [Et|Nt]; [|exact H].
        subst. rewrite heldR_snoc in H. simpl in H. exact H.
    + intros l0 H. rewrite Hl in *. unfold upd in *.
      destruct (Nat.eq_dec l0 l); simpl in *; [reflexivity | apply C3; exact H].
  - (* Rel *)
    destruct Heff as [Hw [Hl _]].
    repeat split.
    + intros H. rewrite Hl in H. rewrite Hd. unfold upd in H.
      destruct (Nat.eq_dec l0 l) as [El|Nl]; simpl in H; [discriminate|].
      destruct (Nat.eq_dec t0 t) as [Et|Nt].
      * subst. rewrite heldW_snoc. simpl. apply in_remove_iff. split; [apply C1; exact H | exact Nl].
      * apply C1. exact H.
    + intros H. rewrite Hl. rewrite Hd in H. unfold upd.
      destruct (Nat.eq_dec l0 l) as [El|Nl]; simpl.
      * subst l0. exfalso. destruct (Nat.eq_dec t0 t) as [Et|Nt].
        -- subst. rewrite heldW_snoc in H. simpl in H. apply in_remove_iff in H. destruct H as [_ H]. apply H. reflexivity.
        -- apply C1 in H. rewrite Hw in H. inversion H. apply Nt. symmetry. assumption.
      * apply C1. destruct (Nat.eq_dec t0 t) as [Et|Nt]; [|exact H].
        subst. rewrite heldW_snoc in H. simpl in H. apply in_remove_iff in H. apply H.
    + intros H. rewrite Hl in H. rewrite Hd. unfold upd in H.
      assert (Hx : In t0 (lr (locks s l0))) by (destruct (Nat.eq_dec l0 l); [subst; exact H | exact H]).
      destruct (Nat.eq_dec t0 t) as [Et|Nt].
      * subst. rewrite heldR_snoc. simpl. apply C2. exact Hx.
      * apply C2. exact Hx.
    + intros H. rewrite Hl. rewrite Hd in H. unfold upd.
      assert (Hx : In t0 (lr (locks s l0))).
      { apply C2. destruct (Nat.eq_dec t0 t) as [Et|Nt]; [|exact H].
        subst. rewrite heldR_snoc in H. simpl in H. exact H. }
      destruct (Nat.eq_dec l0 l); [subst; exact Hx | exact Hx].
    + intros l0 H. rewrite Hl in *. unfold upd in *.
      destruct (Nat.eq_dec l0 l); simpl in *; [exfalso; apply H; reflexivity | apply C3; exact H].
  - (* RAcq *)
    destruct Heff as [Hw [Hl _]].
    repeat split.
    + intros H. rewrite Hl in H. rewrite Hd. unfold upd in H.
      destruct (Nat.eq_dec l0 l) as [El|Nl]; simpl in H; [discriminate|].
      destruct (Nat.eq_dec t0 t) as [Et|Nt].
      * subst. rewrite heldW_snoc. simpl. apply C1. exact H.
      * apply C1. exact H.
    + intros H. rewrite Hl. rewrite Hd in H. unfold upd.
      assert (Hx : lw (locks s l0) = Some t0).
      { apply C1. destruct (Nat.eq_dec t0 t) as [Et|Nt]; [|exact H].
        subst. rewrite heldW_snoc in H. simpl in H. exact H. }
      destruct (Nat.eq_dec l0 l); simpl; [subst; rewrite Hw in Hx; discriminate | exact Hx].
    + intros H. rewrite Hl in H. rewrite Hd. unfold upd in H.
      destruct (Nat.eq_dec l0 l) as [El|Nl]; simpl in H.
      * subst l0. destruct (Nat.eq_dec t0 t) as [Et|Nt].
        -- subst. rewrite heldR_snoc. simpl. left. reflexivity.
        -- destruct H as [H|H]; [subst; contradiction|]. apply C2. exact H.
      * destruct (Nat.eq_dec t0 t) as [Et|Nt].
        -- subst. rewrite heldR_snoc. simpl. right. apply C2. exact H.
        -- apply C2. exact H.
    + intros H. rewrite Hl. rewrite Hd in H. unfold upd.
      destruct (Nat.eq_dec l0 l) as [El|Nl]; simpl.
      * subst l0. destruct (Nat.eq_dec t0 t) as [Et|Nt]; [left; symmetry; exact Et|].
        right. apply C2. exact H.
      * apply C2. destruct (Nat.eq_dec t0 t) as [Et|Nt]; [|exact H].
        subst. rewrite heldR_snoc in H. simpl in H. destruct H as [H|H]; [subst; contradiction | exact H].
    + intros l0 H. rewrite Hl in *. unfold upd in *.
      destruct (Nat.eq_dec l0 l); simpl in *; [exfalso; apply H; reflexivity | apply C3; exact H].
  - (* RRel *)
    destruct Heff as [Hin [Hl _]].
    repeat split.
    + intros H. rewrite Hl in H. rewrite Hd. unfold upd in H.
      assert (Hx : lw (locks s l0) = Some t0) by (destruct (Nat.eq_dec l0 l); [subst; exact H | exact H]).
      destruct (Nat.eq_dec t0 t) as [Et|Nt].
      * subst. rewrite heldW_snoc. simpl. apply C1. exact Hx.
      * apply C1. exact Hx.
    + intros H. rewrite Hl. rewrite Hd in H. unfold upd.
      assert (Hx : lw (locks s l0) = Some t0).
      { apply C1. destruct (Nat.eq_dec t0 t) as [Et|Nt]; [|exact H].
        subst. rewrite heldW_snoc in H. simpl in H. exact H. }
      destruct (Nat.eq_dec l0 l); [subst; exact Hx | exact Hx].
    + intros H. rewrite Hl in H. rewrite Hd. unfold upd in H.
      destruct (Nat.eq_dec l0 l) as [El|Nl]; simpl in H.
      * subst l0. apply in_remove_iff in H. destruct H as [H Hne].
        destruct (Nat.eq_dec t0 t) as [Et|Nt]; [contradiction|]. apply C2. exact H.
      * destruct (Nat.eq_dec t0 t) as [Et|Nt].
        -- subst. rewrite heldR_snoc. simpl. apply in_remove_iff. split; [apply C2; exact H | exact Nl].
        -- apply C2. exact H.
    + intros H. rewrite Hl. rewrite Hd in H. unfold upd.
      destruct (Nat.eq_dec l0 l) as [El|Nl]; simpl.
      * subst l0. destruct (Nat.eq_dec t0 t) as [Et|Nt].
        -- subst. rewrite heldR_snoc in H. simpl in H. apply in_remove_iff in H. exfalso. apply H. reflexivity.
        -- apply in_remove_iff. split; [apply C2; exact H | exact Nt].
      * apply C2. destruct (Nat.eq_dec t0 t) as [Et|Nt]; [|exact H].
        subst. rewrite heldR_snoc in H. simpl in H. apply in_remove_iff in H. apply H.
    + intros l0 H. rewrite Hl in *. unfold upd in *.
      destruct (Nat.eq_dec l0 l); simpl in *.
      * subst. rewrite (C3 l H) in Hin. contradiction.
      * apply C3. exact H.
  - (* Rd *)
    destruct Heff as [Hl _].
    assert (HW : forall u, heldW (done (thr s' u)) = heldW (done (thr s u))).
    { intros u. rewrite Hd. destruct (Nat.eq_dec u t); [subst; rewrite heldW_snoc; reflexivity | reflexivity]. }
    assert (HR : forall u, heldR (done (thr s' u)) = heldR (done (thr s u))).
    { intros u. rewrite Hd. destruct (Nat.eq_dec u t); [subst; rewrite heldR_snoc; reflexivity | reflexivity]. }
    unfold coh. rewrite Hl. repeat split; intros; try rewrite HW in *; try rewrite HR in *;
      try (apply C1; assumption); try (apply C2; assumption); try (apply C3; assumption).
  - destruct Heff as [Hl _].
    assert (HW : forall u, heldW (done (thr s' u)) = heldW (done (thr s u))).
    { intros u. rewrite Hd. destruct (Nat.eq_dec u t); [subst; rewrite heldW_snoc; reflexivity | reflexivity]. }
    assert (HR : forall u, heldR (done (thr s' u)) = heldR (done (thr s u))).
    { intros u. rewrite Hd. destruct (Nat.eq_dec u t); [subst; rewrite heldR_snoc; reflexivity | reflexivity]. }
    unfold coh. rewrite Hl. repeat split; intros; try rewrite HW in *; try rewrite HR in *;
      try (apply C1; assumption); try (apply C2; assumption); try (apply C3; assumption).
  - destruct Heff as [Hl _].
    assert (HW : forall u, heldW (done (thr s' u)) = heldW (done (thr s u))).
    { intros u. rewrite Hd. destruct (Nat.eq_dec u t); [subst; rewrite heldW_snoc; reflexivity | reflexivity]. }
    assert (HR : forall u, heldR (done (thr s' u)) = heldR (done (thr s u))).
    { intros u. rewrite Hd. destruct (Nat.eq_dec u t); [subst; rewrite heldR_snoc; reflexivity | reflexivity]. }
    unfold coh. rewrite Hl. repeat split; intros; try rewrite HW in *; try rewrite HR in *;
      try (apply C1; assumption); try (apply C2; assumption); try (apply C3; assumption).
Qed.

Lemma coh_exec : forall s tr s', exec s tr s' -> coh s -> coh s'.
Proof.
  intros s tr s' H. eapply (exec_preserves coh); [|exact H].
  intros t s0 a s1 Hc Hs. eapply coh_step; eassumption.
Qed.

(* mutual exclusion, in terms of what each thread believes it holds *)
Lemma coh_excl_W : forall s l t t', coh s -> t <> t' ->
  In l (heldW (done (thr s t))) ->
  ~ In l (heldW (done (thr s t'))) /\ ~ In l (heldR (done (thr s t'))).
Proof.
  intros s l t t' [C1 [C2 C3]] Hne Hin. apply C1 in Hin. split.
  - intros H. apply C1 in H. rewrite Hin in H. inversion H. contradiction.
  - intros H. apply C2 in H. rewrite C3 in H; [contradiction|]. rewrite Hin. discriminate.
Qed.

(* ------------------------------------------------------------------------------------------ *)
(** * (b) Lock order implies no deadlock *)

Lemma ord_ok_app : forall rank p q w r,
  ord_ok rank w r (p ++ q) = true -> ord_ok rank (hW w p) (hR r p) q = true.
Proof.
  intros rank. induction p as [|a p IH]; intros q w r H; simpl in *.
  - exact H.
  - apply andb_true_iff in H. destruct H as [_ H]. apply IH. exact H.
Qed.

Lemma ord_ok_nil : forall rank w r, ord_ok rank w r [] = true -> w = [] /\ r = [].
Proof. intros rank w r H. simpl in H. destruct w; destruct r; try discriminate. auto. Qed.

Lemma ord_ok_at : forall rank P s t,
  wf P s -> thread_ord_ok rank (nth t P []) = true ->
  ord_ok rank (heldW (done (thr s t))) (heldR (done (thr s t))) (todo (thr s t)) = true.
Proof.
  intros rank P s t Hwf Hok. unfold thread_ord_ok in Hok. rewrite <- (Hwf t) in Hok.
  apply ord_ok_app in Hok. exact Hok.
Qed.

Definition wanted_rank (rank : lock -> nat) (s : state) (t : tid) : nat :=
  match todo (thr s t) with
  | Acq l :: _ | RAcq l :: _ => rank l
  | _ => 0
  end.

Lemma argmax : forall (f : nat -> nat) (xs : list nat), xs <> [] ->
  exists x, In x xs /\ forall y, In y xs -> f y <= f x.
Proof.
  intros f. induction xs as [|x xs IH]; intros Hne; [contradiction|].
  destruct xs as [|x' xs'].
  - exists x. split; [left; reflexivity|]. intros y [Hy|[]]. subst. lia.
  - destruct IH as [m [Hm Hmax]]; [discriminate|].
    destruct (le_lt_dec (f x) (f m)) as [Hle|Hlt].
    + exists m. split; [right; exact Hm|]. intros y [Hy|Hy]; [subst; exact Hle | apply Hmax; exact Hy].
    + exists x. split; [left; reflexivity|]. intros y [Hy|Hy]; [subst; lia|].
      specialize (Hmax y Hy). lia.
Qed.

(* a blocked thread waits for a lock that some thread holds, and wants a lock of higher rank
   than everything it holds itself *)
Lemma blocked_thread : forall rank s t,
  coh s ->
  ord_ok rank (heldW (done (thr s t))) (heldR (done (thr s t))) (todo (thr s t)) = true ->
  todo (thr s t) <> [] -> step t s = None ->
  exists l h, wanted_rank rank s t = rank l /\
    (In l (heldW (done (thr s h))) \/ In l (heldR (done (thr s h)))) /\
    (forall l', In l' (heldW (done (thr s t))) \/ In l' (heldR (done (thr s t))) -> rank l' < rank l).
Proof.
  intros rank s t [C1 [C2 C3]] Hord Hne Hstep.
  unfold step in Hstep. unfold wanted_rank.
  destruct (todo (thr s t)) as [|a rest] eqn:Htodo; [contradiction|].
  simpl in Hord. apply andb_true_iff in Hord. destruct Hord as [Hhead _].
  assert (Hrk : forall l, forallb (fun h => rank h <? rank l) (heldW (done (thr s t)) ++ heldR (done (thr s t))) = true ->
                forall l', In l' (heldW (done (thr s t))) \/ In l' (heldR (done (thr s t))) -> rank l' < rank l).
  { intros l Hf l' Hin. rewrite forallb_forall in Hf. apply Nat.ltb_lt. apply Hf. apply in_or_app. exact Hin. }
  destruct a as [l|l|l|l|x|x f|x f]; try discriminate.
  - (* Acq *)
    destruct (lw (locks s l)) as [h|] eqn:Hw.
    + exists l, h. split; [reflexivity|]. split; [left; apply C1; exact Hw | apply Hrk; exact Hhead].
    + destruct (lr (locks s l)) as [|h hs] eqn:Hr; [discriminate|].
      exists l, h. split; [reflexivity|]. split; [right; apply C2; rewrite Hr; left; reflexivity | apply Hrk; exact Hhead].
  - (* Rel: always enabled *)
    exfalso. apply memb_In in Hhead. apply C1 in Hhead. rewrite Hhead in Hstep.
    destruct (Nat.eq_dec t t); [discriminate | contradiction].
  - (* RAcq *)
    destruct (lw (locks s l)) as [h|] eqn:Hw; [|discriminate].
    exists l, h. split; [reflexivity|]. split; [left; apply C1; exact Hw | apply Hrk; exact Hhead].
  - (* RRel: always enabled *)
    exfalso. apply memb_In in Hhead. apply C2 in Hhead.
    destruct (in_dec Nat.eq_dec t (lr (locks s l))); [discriminate | contradiction].
Qed.

Theorem lock_order_no_deadlock : forall (rank : lock -> nat) (P : program) (m0 : store) tr s,
  Forall (fun p => thread_ord_ok rank p = true) P ->
  exec (init P m0) tr s ->
  (exists t, todo (thr s t) <> []) ->
  exists t a s', step t s = Some (a, s').
Proof.
  intros rank P m0 tr s HP Hex [t0 Ht0].
  assert (Hwf : wf P s) by (eapply wf_exec; exact Hex).
  assert (Hcoh : coh s) by (eapply coh_exec; [exact Hex | apply coh_init]).
  assert (Hall : forall t, thread_ord_ok rank (nth t P []) = true).
  { apply (Forall_nth_program (fun p => thread_ord_ok rank p = true)); [reflexivity | exact HP]. }
  assert (Hord : forall t, ord_ok rank (heldW (done (thr s t))) (heldR (done (thr s t))) (todo (thr s t)) = true).
  { intros t. eapply ord_ok_at; [exact Hwf | apply Hall]. }
  (* either some thread can step, or all are blocked *)
  destruct (existsb (fun t => match step t s with Some _ => true | None => false end) (seq 0 (length P))) eqn:Hex1.
  - apply existsb_exists in Hex1. destruct Hex1 as [t [_ Ht]].
    destruct (step t s) as [[a s']|] eqn:Hs; [|discriminate]. exists t, a, s'. exact Hs.
  - exfalso.
    assert (Hsmall : forall t, todo (thr s t) <> [] -> t < length P).
    { intros t Hne. destruct (Nat.lt_ge_cases t (length P)) as [Hlt|Hge]; [exact Hlt|].
      exfalso. pose proof (Hwf t) as Hw. rewrite nth_overflow in Hw by exact Hge.
      apply app_eq_nil in Hw. apply Hne. apply Hw. }
    assert (Hblocked : forall t, todo (thr s t) <> [] -> step t s = None).
    { intros t Hne. destruct (step t s) eqn:Hs; [|reflexivity]. exfalso.
      assert (Hc : existsb (fun t => match step t s with Some _ => true | None => false end) (seq 0 (length P)) = true).
      { apply existsb_exists. exists t. split; [apply in_seq; split; [lia | simpl; apply Hsmall; exact Hne] | rewrite Hs; reflexivity]. }
      rewrite Hc in Hex1. discriminate. }
    set (B := filter (fun t => match todo (thr s t) with [] => false | _ => true end) (seq 0 (length P))).
    assert (HB : forall t, In t B <-> todo (thr s t) <> []).
    { intros t. unfold B. rewrite filter_In. split.
      - intros [_ H]. destruct (todo (thr s t)); [discriminate | discriminate].
      - intros Hne. split; [apply in_seq; split; [lia | simpl; apply Hsmall; exact Hne]|].
        destruct (todo (thr s t)); [contradiction | reflexivity]. }
    assert (HBne : B <> []).
    { intro Hn. assert (Hin : In t0 B) by (apply HB; exact Ht0). rewrite Hn in Hin. contradiction. }
    destruct (argmax (wanted_rank rank s) B HBne) as [t [HtB Hmax]].
    apply HB in HtB.
    destruct (blocked_thread rank s t Hcoh (Hord t) HtB (Hblocked t HtB)) as [l [h [Hwr [Hheld _]]]].
    (* the holder h is itself unfinished, hence blocked, wanting a lock of higher rank *)
    assert (Hhne : todo (thr s h) <> []).
    { intro Hn. pose proof (Hord h) as Ho. rewrite Hn in Ho. apply ord_ok_nil in Ho.
      destruct Ho as [Ho1 Ho2]. rewrite Ho1, Ho2 in Hheld. destruct Hheld as [[]|[]]. }
    destruct (blocked_thread rank s h Hcoh (Hord h) Hhne (Hblocked h Hhne)) as [l' [_ [Hwr' [_ Hlt]]]].
    specialize (Hlt l Hheld).
    assert (HhB : In h B) by (apply HB; exact Hhne).
    specialize (Hmax h HhB). lia.
Qed.

(* ------------------------------------------------------------------------------------------ *)
(** * (c) Locksets: conflicting accesses are ordered through the lock *)

Lemma ls_ok_app : forall prot p q w r,
  ls_ok prot w r (p ++ q) = true -> ls_ok prot (hW w p) (hR r p) q = true.
Proof.
  intros prot. induction p as [|a p IH]; intros q w r H; simpl in *.
  - exact H.
  - apply andb_true_iff in H. destruct H as [_ H]. apply IH. exact H.
Qed.

(* the lockset fact for the next action of a thread *)
Lemma ls_ok_next : forall prot P s t a rest,
  wf P s -> thread_ls_ok prot (nth t P []) = true -> todo (thr s t) = a :: rest ->
  match a with
  | Wr x _ => forall l, prot x = Some l -> In l (heldW (done (thr s t)))
  | Rd x => forall l, prot x = Some l -> In l (heldW (done (thr s t))) \/ In l (heldR (done (thr s t)))
  | AtomicOp x _ => prot x = None
  | _ => True
  end.
Proof.
  intros prot P s t a rest Hwf Hok Htodo. unfold thread_ls_ok in Hok.
  rewrite <- (Hwf t) in Hok. rewrite Htodo in Hok. apply ls_ok_app in Hok.
  simpl in Hok. apply andb_true_iff in Hok. destruct Hok as [Hh _].
  destruct a as [l|l|l|l|x|x f|x f]; try exact I.
  - intros l Hp. rewrite Hp in Hh. apply orb_true_iff in Hh.
    destruct Hh as [Hh|Hh]; [left|right]; apply memb_In; exact Hh.
  - intros l Hp. rewrite Hp in Hh. apply memb_In. exact Hh.
  - destruct (prot x); [discriminate | reflexivity].
Qed.

(* held sets only shrink by releases and only grow by acquisitions *)
Lemma hW_keep : forall l ext w, In l w -> (forall a, In a ext -> is_rel l a = false) -> In l (hW w ext).
Proof.
  intros l. induction ext as [|a ext IH]; intros w Hin Hno; simpl; [exact Hin|].
  apply IH; [|intros b Hb; apply Hno; right; exact Hb].
  assert (Ha : is_rel l a = false) by (apply Hno; left; reflexivity).
  destruct a as [l0|l0|l0|l0|x|x f|x f]; simpl; try exact Hin.
  - right. exact Hin.
  - simpl in Ha. apply Nat.eqb_neq in Ha. apply in_remove_iff. split; [exact Hin | exact Ha].
Qed.
Lemma hR_keep : forall l ext r, In l r -> (forall a, In a ext -> is_rel l a = false) -> In l (hR r ext).
Proof.
  intros l. induction ext as [|a ext IH]; intros r Hin Hno; simpl; [exact Hin|].
  apply IH; [|intros b Hb; apply Hno; right; exact Hb].
  assert (Ha : is_rel l a = false) by (apply Hno; left; reflexivity).
  destruct a as [l0|l0|l0|l0|x|x f|x f]; simpl; try exact Hin.
  - right. exact Hin.
  - simpl in Ha. apply Nat.eqb_neq in Ha. apply in_remove_iff. split; [exact Hin | exact Ha].
Qed.
Lemma hW_grow : forall l ext w, In l (hW w ext) -> In l w \/ In (Acq l) ext.
Proof.
  intros l. induction ext as [|a ext IH]; intros w H; simpl in H; [left; exact H|].
  apply IH in H. destruct H as [H|H]; [|right; right; exact H].
  destruct a as [l0|l0|l0|l0|x|x f|x f]; simpl in H; try (left; exact H).
  - destruct H as [H|H]; [subst; right; left; reflexivity | left; exact H].
  - apply in_remove_iff in H. left. apply H.
Qed.
Lemma hR_grow : forall l ext r, In l (hR r ext) -> In l r \/ In (RAcq l) ext.
Proof.
  intros l. induction ext as [|a ext IH]; intros r H; simpl in H; [left; exact H|].
  apply IH in H. destruct H as [H|H]; [|right; right; exact H].
  destruct a as [l0|l0|l0|l0|x|x f|x f]; simpl in H; try (left; exact H).
  - destruct H as [H|H]; [subst; right; left; reflexivity | left; exact H].
  - apply in_remove_iff in H. left. apply H.
Qed.

Lemma first_occurrence : forall A (p : A -> bool) (xs : list A),
  (forall x, In x xs -> p x = false) \/
  (exists m1 e m2, xs = m1 ++ e :: m2 /\ p e = true /\ forall x, In x m1 -> p x = false).
Proof.
  intros A p. induction xs as [|x xs IH].
  - left. intros x [].
  - destruct (p x) eqn:Hp.
    + right. exists [], x, xs. split; [reflexivity|]. split; [exact Hp | intros y []].
    + destruct IH as [IH|[m1 [e [m2 [He [Hpe Hm1]]]]]].
      * left. intros y [Hy|Hy]; [subst; exact Hp | apply IH; exact Hy].
      * right. exists (x :: m1), e, m2. split; [rewrite He; reflexivity|]. split; [exact Hpe|].
        intros y [Hy|Hy]; [subst; exact Hp | apply Hm1; exact Hy].
Qed.

Lemma proj_no_rel : forall t l tr,
  (forall e, In e tr -> Nat.eqb (fst e) t && is_rel l (snd e) = false) ->
  forall a, In a (proj t tr) -> is_rel l a = false.
Proof.
  intros t l tr H a Ha. apply in_proj in Ha. specialize (H (t, a) Ha). simpl in H.
  rewrite Nat.eqb_refl in H. exact H.
Qed.

(* the common core of the two cases: thread t has property HX (it holds l in some mode), which is
   stable as long as t does not release l; thread t' acquires property HY, which it can only get by
   acquiring l; HX for t excludes HY for t' in coherent states. *)
Lemma separation : forall (l : lock) (t t' : tid) (HX HY : list action -> Prop) s1 mid s2,
  t <> t' ->
  (forall d ext, HX d -> (forall a, In a ext -> is_rel l a = false) -> HX (d ++ ext)) ->
  (forall d ext, ~ HY d -> HY (d ++ ext) -> exists q, In q ext /\ is_acq l q = true) ->
  (forall s, coh s -> HX (done (thr s t)) -> ~ HY (done (thr s t'))) ->
  coh s1 -> exec s1 mid s2 ->
  HX (done (thr s1 t)) -> HY (done (thr s2 t')) ->
  exists m1 r m2 q m3,
    mid = m1 ++ (t, r) :: m2 ++ (t', q) :: m3 /\ is_rel l r = true /\ is_acq l q = true.
Proof.
  intros l t t' HX HY s1 mid s2 Hne HXstable HYgrow Hexcl Hcoh Hex Hx Hy.
  destruct (first_occurrence _ (fun e => Nat.eqb (fst e) t && is_rel l (snd e)) mid)
    as [Hnone|[m1 [[u r] [m2 [Hmid [Hpe Hm1]]]]]].
  - exfalso. apply (Hexcl s2).
    + eapply coh_exec; eassumption.
    + rewrite (exec_done _ _ _ Hex t). apply HXstable; [exact Hx|]. apply (proj_no_rel t l mid). exact Hnone.
    + exact Hy.
  - simpl in Hpe. apply andb_true_iff in Hpe. destruct Hpe as [Hu Hr]. apply Nat.eqb_eq in Hu. subst u.
    rewrite Hmid in Hex. apply exec_app in Hex. destruct Hex as [sk [Hex1 Hex2]].
    inversion Hex2 as [|? ? ? sk' ? ? Hstep Hex3]; subst.
    assert (Hcohk : coh sk) by (eapply coh_exec; eassumption).
    assert (Hxk : HX (done (thr sk t))).
    { rewrite (exec_done _ _ _ Hex1 t). apply HXstable; [exact Hx|]. apply (proj_no_rel t l m1). exact Hm1. }
    assert (Hnyk : ~ HY (done (thr sk t'))) by (apply Hexcl; assumption).
    assert (Hsame : done (thr sk' t') = done (thr sk t')).
    { rewrite (step_thr_other _ _ _ _ t' Hstep); [reflexivity|]. intro Hc. apply Hne. symmetry. exact Hc. }
    rewrite (exec_done _ _ _ Hex3 t') in Hy. rewrite Hsame in Hy.
    destruct (HYgrow _ _ Hnyk Hy) as [q [Hq Hacq]].
    apply in_proj in Hq. apply in_split in Hq. destruct Hq as [m2a [m3 Hm2]].
    exists m1, r, m2a, q, m3. split; [rewrite Hm2; reflexivity|]. split; assumption.
Qed.

Theorem lockset_no_adjacent_conflict :
  forall (prot : loc -> option lock) (P : program) (m0 : store)
         pre t a mid t' a' post s x l,
  Forall (fun p => thread_ls_ok prot p = true) P ->
  exec (init P m0) (pre ++ (t, a) :: mid ++ (t', a') :: post) s ->
  t <> t' -> prot x = Some l ->
  plain_access x a = true -> plain_access x a' = true ->
  is_write a || is_write a' = true ->
  exists m1 r m2 q m3,
    mid = m1 ++ (t, r) :: m2 ++ (t', q) :: m3 /\ is_rel l r = true /\ is_acq l q = true.
Proof.
  intros prot P m0 pre t a mid t' a' post s x l HP Hex Hne Hprot Ha Ha' Hw.
  assert (Hall : forall u, thread_ls_ok prot (nth u P []) = true).
  { apply (Forall_nth_program (fun p => thread_ls_ok prot p = true)); [reflexivity | exact HP]. }
  apply exec_app in Hex. destruct Hex as [s1 [Hex1 Hex]].
  inversion Hex as [|? ? ? s1' ? ? Hstep1 Hex2]; subst.
  change (mid ++ (t', a') :: post) with (mid ++ [(t', a')] ++ post) in Hex2.
  apply exec_app in Hex2. destruct Hex2 as [s2 [Hexm Hex3]].
  inversion Hex3 as [|? ? ? s2' ? ? Hstep2 Hex4]; subst.
  assert (Hwf1 : wf P s1) by (eapply wf_exec; exact Hex1).
  assert (Hcoh1 : coh s1) by (eapply coh_exec; [exact Hex1 | apply coh_init]).
  assert (Hcoh1' : coh s1') by (eapply coh_step; eassumption).
  assert (Hwf1' : wf P s1') by (eapply wf_step; eassumption).
  assert (Hwf2 : wf P s2).
  { eapply (exec_preserves (wf P)); [|exact Hexm|exact Hwf1'].
    intros u s0 b s3 Hw0 Hs0. eapply wf_step; eassumption. }
  pose proof (step_inv _ _ _ _ Hstep1) as [rest1 [Htodo1 _]].
  pose proof (step_inv _ _ _ _ Hstep2) as [rest2 [Htodo2 _]].
  pose proof (ls_ok_next prot P s1 t a rest1 Hwf1 (Hall t) Htodo1) as Hl1.
  pose proof (ls_ok_next prot P s2 t' a' rest2 Hwf2 (Hall t') Htodo2) as Hl2.
  pose proof (step_done_self _ _ _ _ Hstep1) as Hd1.
  (* what t' holds when it performs a' *)
  assert (Hany' : In l (heldW (done (thr s2 t'))) \/ In l (heldR (done (thr s2 t')))).
  { destruct a' as [l0|l0|l0|l0|y|y f|y f]; simpl in Ha'; try discriminate;
      apply Nat.eqb_eq in Ha'; subst y.
    - apply Hl2. exact Hprot.
    - left. apply Hl2. exact Hprot. }
  (* case analysis on what t holds when it performs a *)
  assert (Hcases : In l (heldW (done (thr s1' t))) \/
                   (In l (heldR (done (thr s1' t))) /\ In l (heldW (done (thr s2 t'))))).
  { destruct a as [l0|l0|l0|l0|y|y f|y f]; simpl in Ha; try discriminate;
      apply Nat.eqb_eq in Ha; subst y.
    - (* a = Rd: then a' is the write *)
      simpl in Hw. destruct a' as [l0|l0|l0|l0|y|y f|y f]; simpl in Hw; try discriminate.
      simpl in Ha'. apply Nat.eqb_eq in Ha'. subst y.
      rewrite Hd1, heldW_snoc, heldR_snoc. simpl.
      destruct (Hl1 l Hprot) as [H|H]; [left; exact H | right; split; [exact H | apply Hl2; exact Hprot]].
    - left. rewrite Hd1, heldW_snoc. simpl. apply Hl1. exact Hprot. }
  destruct Hcases as [HW | [HR HW']].
  - (* t holds l exclusively *)
    apply (separation l t t' (fun d => In l (heldW d)) (fun d => In l (heldW d) \/ In l (heldR d)) s1' mid s2); try assumption.
    + intros d ext Hd Hno. unfold heldW. rewrite hW_app. apply hW_keep; assumption.
    + intros d ext Hn Hy. unfold heldW, heldR in Hy. rewrite hW_app, hR_app in Hy.
      destruct Hy as [Hy|Hy].
      * apply hW_grow in Hy. destruct Hy as [Hy|Hy]; [exfalso; apply Hn; left; exact Hy|].
        exists (Acq l). split; [exact Hy | simpl; apply Nat.eqb_refl].
      * apply hR_grow in Hy. destruct Hy as [Hy|Hy]; [exfalso; apply Hn; right; exact Hy|].
        exists (RAcq l). split; [exact Hy | simpl; apply Nat.eqb_refl].
    + intros s0 Hc Hx [Hy|Hy]; destruct (coh_excl_W s0 l t t' Hc Hne Hx) as [N1 N2]; contradiction.
  - (* t holds l shared, t' holds it exclusively *)
    apply (separation l t t' (fun d => In l (heldR d)) (fun d => In l (heldW d)) s1' mid s2); try assumption.
    + intros d ext Hd Hno. unfold heldR. rewrite hR_app. apply hR_keep; assumption.
    + intros d ext Hn Hy. unfold heldW in Hy. rewrite hW_app in Hy.
      apply hW_grow in Hy. destruct Hy as [Hy|Hy]; [exfalso; apply Hn; exact Hy|].
      exists (Acq l). split; [exact Hy | simpl; apply Nat.eqb_refl].
    + intros s0 Hc Hx Hy. assert (Hne' : t' <> t) by (intro Hc'; apply Hne; symmetry; exact Hc').
      destruct (coh_excl_W s0 l t' t Hc Hne' Hy) as [_ N2]. contradiction.
Qed.

(* special case: two conflicting plain accesses are never adjacent in a trace (no data race in
   the interleaving sense) *)
Corollary no_adjacent_race :
  forall prot P m0 pre t a t' a' post s x l,
  Forall (fun p => thread_ls_ok prot p = true) P ->
  exec (init P m0) (pre ++ (t, a) :: (t', a') :: post) s ->
  t <> t' -> prot x = Some l ->
  plain_access x a = true -> plain_access x a' = true ->
  is_write a || is_write a' = true -> False.
Proof.
  intros prot P m0 pre t a t' a' post s x l HP Hex Hne Hp Ha Ha' Hw.
  destruct (lockset_no_adjacent_conflict prot P m0 pre t a [] t' a' post s x l HP Hex Hne Hp Ha Ha' Hw)
    as [m1 [r [m2 [q [m3 [Hmid _]]]]]].
  destruct m1; discriminate.
Qed.

(* locations that are only touched by sync/atomic operations never see a plain access *)
Theorem atomic_only_no_plain_access : forall (at_ : loc -> bool) P m0 tr s t a x,
  Forall (fun p => atomic_only at_ p = true) P ->
  exec (init P m0) tr s -> In (t, a) tr -> at_ x = true -> plain_access x a = false.
Proof.
  intros at_ P m0 tr s t a x HP Hex Hin Hat.
  assert (Hwf : wf P s) by (eapply wf_exec; exact Hex).
  assert (Hdone : In a (done (thr s t))).
  { rewrite (exec_done _ _ _ Hex t). simpl. unfold proj. apply in_map_iff. exists (t, a).
    split; [reflexivity|]. apply filter_In. split; [exact Hin | simpl; apply Nat.eqb_refl]. }
  assert (Hprog : In a (nth t P [])) by (rewrite <- (Hwf t); apply in_or_app; left; exact Hdone).
  pose proof (nth_program_In P t a Hprog) as HinP.
  rewrite Forall_forall in HP. specialize (HP _ HinP). unfold atomic_only in HP.
  rewrite forallb_forall in HP. specialize (HP a Hprog).
  destruct a as [l0|l0|l0|l0|y|y f|y f]; simpl; try reflexivity.
  - destruct (Nat.eqb x y) eqn:E; [|reflexivity]. apply Nat.eqb_eq in E. subst y. rewrite Hat in HP. discriminate.
  - destruct (Nat.eqb x y) eqn:E; [|reflexivity]. apply Nat.eqb_eq in E. subst y. rewrite Hat in HP. discriminate.
Qed.

(* ------------------------------------------------------------------------------------------ *)
(** * (d) Commutative totals *)

Local Open Scope Z_scope.

Fixpoint sumZ (xs : list Z) : Z := match xs with [] => 0 | x :: r => x + sumZ r end.

Lemma sumZ_app : forall xs ys, sumZ (xs ++ ys) = sumZ xs + sumZ ys.
Proof. induction xs as [|x xs IH]; intros ys; simpl; [reflexivity | rewrite IH; lia]. Qed.

(* at every point of every execution the counter is its initial value plus the contributions of
   the actions performed so far *)
Theorem totals_at_any_point : forall (P : program) (x : loc) (delta : action -> Z) (m0 : store),
  (forall p a, In p P -> In a p -> forall m, apply_action a m x = m x + delta a) ->
  forall tr s, exec (init P m0) tr s ->
  mem s x = m0 x + sumZ (map (fun e => delta (snd e)) tr).
Proof.
  intros P x delta m0 Hadd.
  assert (Hgen : forall s tr s', exec s tr s' -> wf P s ->
            mem s' x = mem s x + sumZ (map (fun e => delta (snd e)) tr)).
  { intros s tr s' H. induction H as [s|s t a s1 tr s2 Hs He IH]; intros Hwf.
    - simpl. lia.
    - rewrite IH by (eapply wf_step; eassumption). simpl.
      rewrite (step_mem _ _ _ _ Hs).
      pose proof (step_inv _ _ _ _ Hs) as [rest [Htodo _]].
      assert (Hin : In a (nth t P [])).
      { rewrite <- (Hwf t). apply in_or_app. right. rewrite Htodo. left. reflexivity. }
      rewrite (Hadd (nth t P []) a (nth_program_In P t a Hin) Hin). lia. }
  intros tr s Hex. rewrite (Hgen _ _ _ Hex (wf_init P m0)). reflexivity.
Qed.

Lemma map_nth_seq : forall (P : program), map (fun t => nth t P []) (seq 0 (length P)) = P.
Proof.
  induction P as [|p P IH]; simpl; [reflexivity|].
  f_equal. rewrite <- seq_shift. rewrite map_map. exact IH.
Qed.

Lemma sum_upd : forall (g : nat -> Z) n t v, (t < n)%nat ->
  sumZ (map (upd g t v) (seq 0 n)) = sumZ (map g (seq 0 n)) - g t + v.
Proof.
  intros g. induction n as [|n IH]; intros t v Hlt; [lia|].
  rewrite seq_S. simpl. rewrite !map_app, !sumZ_app. simpl.
  destruct (Nat.eq_dec t n) as [He|Hne].
  - subst t. rewrite upd_same.
    assert (Hsame : map (upd g n v) (seq 0 n) = map g (seq 0 n)).
    { apply map_ext_in. intros k Hk. apply in_seq in Hk. apply upd_other. lia. }
    rewrite Hsame. lia.
  - rewrite IH by lia. rewrite upd_other by (intro Hc; apply Hne; symmetry; exact Hc). lia.
Qed.

(* ... hence, when all threads have finished, the value does not depend on the schedule: it is the
   initial value plus the sum of all contributions, which is what any sequential execution of the
   same operations produces *)
Theorem commutative_totals : forall (P : program) (x : loc) (delta : action -> Z) (m0 : store),
  (forall p a, In p P -> In a p -> forall m, apply_action a m x = m x + delta a) ->
  forall tr s, exec (init P m0) tr s -> finished s ->
  mem s x = m0 x + sumZ (map (fun p => sumZ (map delta p)) P).
Proof.
  intros P x delta m0 Hadd tr s Hex Hfin.
  set (contrib := fun (s : state) => sumZ (map (fun t => sumZ (map delta (done (thr s t)))) (seq 0 (length P)))).
  assert (Hinv : forall s tr s', exec s tr s' -> wf P s ->
            mem s' x - contrib s' = mem s x - contrib s).
  { intros s0 tr0 s1 H. induction H as [s0|s0 t a s1 tr0 s2 Hs He IH]; intros Hwf; [reflexivity|].
    rewrite IH by (eapply wf_step; eassumption).
    rewrite (step_mem _ _ _ _ Hs).
    pose proof (step_inv _ _ _ _ Hs) as [rest [Htodo [Hthr _]]].
    assert (Hin : In a (nth t P [])).
    { rewrite <- (Hwf t). apply in_or_app. right. rewrite Htodo. left. reflexivity. }
    rewrite (Hadd (nth t P []) a (nth_program_In P t a Hin) Hin).
    assert (Hlt : (t < length P)%nat).
    { destruct (Nat.lt_ge_cases t (length P)) as [Hl|Hg]; [exact Hl|].
      rewrite nth_overflow in Hin by exact Hg. contradiction. }
    unfold contrib.
    assert (Hmap : map (fun u => sumZ (map delta (done (thr s1 u)))) (seq 0 (length P)) =
                   map (upd (fun u => sumZ (map delta (done (thr s0 u)))) t
                            (sumZ (map delta (done (thr s0 t))) + delta a)) (seq 0 (length P))).
    { apply map_ext. intros u. rewrite Hthr. unfold upd. destruct (Nat.eq_dec u t) as [E|N].
      - subst u. simpl. rewrite map_app, sumZ_app. simpl. lia.
      - reflexivity. }
    rewrite Hmap. rewrite sum_upd by exact Hlt. cbv beta. unfold tid in *. lia. }
  pose proof (Hinv _ _ _ Hex (wf_init P m0)) as H.
  assert (Hc0 : contrib (init P m0) = 0).
  { unfold contrib. simpl. clear. induction (seq 0 (length P)) as [|k ks IH]; simpl; [reflexivity | rewrite IH; reflexivity]. }
  assert (Hc1 : contrib s = sumZ (map (fun p => sumZ (map delta p)) P)).
  { unfold contrib. pose proof (wf_exec _ _ _ _ Hex) as Hwf.
    assert (Hd : forall t, done (thr s t) = nth t P []).
    { intros t. rewrite <- (Hwf t). rewrite (Hfin t). rewrite app_nil_r. reflexivity. }
    rewrite <- (map_nth_seq P) at 2. rewrite map_map.
    f_equal. apply map_ext. intros t. rewrite Hd. reflexivity. }
  rewrite Hc0, Hc1 in H. simpl in H. lia.
Qed.

(* two complete executions of the same program agree on such a counter *)
Corollary totals_schedule_independent : forall P x delta m0,
  (forall p a, In p P -> In a p -> forall m, apply_action a m x = m x + delta a) ->
  forall tr1 s1 tr2 s2,
  exec (init P m0) tr1 s1 -> finished s1 -> exec (init P m0) tr2 s2 -> finished s2 ->
  mem s1 x = mem s2 x.
Proof.
  intros P x delta m0 Hadd tr1 s1 tr2 s2 H1 F1 H2 F2.
  rewrite (commutative_totals P x delta m0 Hadd tr1 s1 H1 F1).
  rewrite (commutative_totals P x delta m0 Hadd tr2 s2 H2 F2). reflexivity.
Qed.

Local Close Scope Z_scope.

(* ------------------------------------------------------------------------------------------ *)
(** * (a) Invariants of lock-protected data hold whenever the lock is not held *)

Definition agree_on (prot : loc -> option lock) (l : lock) (m m' : store) : Prop :=
  forall x, prot x = Some l -> m x = m' x.

Section Invariant.
  Variable P : program.
  Variable prot : loc -> option lock.
  Variable l : lock.
  Variable I : store -> Prop.

  Hypothesis HP : Forall (fun p => thread_ls_ok prot p = true) P.
  (* I only looks at the locations protected by l *)
  Hypothesis Hresp : forall m m', agree_on prot l m m' -> I m -> I m'.
  (* a value written to a location protected by l is computed from locations protected by l *)
  Hypothesis Hdep : forall p pre x f post, In p P -> p = pre ++ Wr x f :: post -> prot x = Some l ->
      forall m m', agree_on prot l m m' -> f m = f m'.
  (* every maximal section Acq l ... Rel l of every thread, run atomically, preserves I *)
  Hypothesis Hsec : forall p pre body post, In p P -> p = pre ++ Acq l :: body ++ Rel l :: post ->
      ~ In (Rel l) body -> forall m, I m -> I (seq_exec body m).

  Definition Jinv (s : state) : Prop :=
    match lw (locks s l) with
    | None => I (mem s)
    | Some t => exists pre mid m1,
        done (thr s t) = pre ++ Acq l :: mid /\ ~ In (Rel l) mid /\ I m1 /\
        agree_on prot l (mem s) (seq_exec mid m1)
    end.

  Lemma Hall_ls : forall u, thread_ls_ok prot (nth u P []) = true.
  Proof. apply (Forall_nth_program (fun p => thread_ls_ok prot p = true)); [reflexivity | exact HP]. Qed.

  (* a write by thread u to a location protected by l means u holds l exclusively *)
  Lemma write_needs_lock : forall s u a rest x,
    wf P s -> coh s -> todo (thr s u) = a :: rest ->
    (exists f, a = Wr x f \/ a = AtomicOp x f) -> prot x = Some l -> lw (locks s l) = Some u.
  Proof.
    intros s u a rest x Hwf [C1 _] Htodo [f [Ha|Ha]] Hp; subst a.
    - pose proof (ls_ok_next prot P s u _ rest Hwf (Hall_ls u) Htodo) as Hn. simpl in Hn.
      apply C1. apply Hn. exact Hp.
    - pose proof (ls_ok_next prot P s u _ rest Hwf (Hall_ls u) Htodo) as Hn. simpl in Hn.
      rewrite Hn in Hp. discriminate.
  Qed.

  Lemma agree_upd_outside : forall m y v, prot y <> Some l -> agree_on prot l (upd m y v) m.
  Proof.
    intros m y v Hn x Hx. unfold upd. destruct (Nat.eq_dec x y) as [E|N]; [subst; contradiction | reflexivity].
  Qed.

  Lemma agree_sym : forall m m', agree_on prot l m m' -> agree_on prot l m' m.
  Proof. intros m m' H x Hx. symmetry. apply H. exact Hx. Qed.
  Lemma agree_trans : forall m1 m2 m3, agree_on prot l m1 m2 -> agree_on prot l m2 m3 -> agree_on prot l m1 m3.
  Proof. intros m1 m2 m3 H1 H2 x Hx. rewrite (H1 x Hx). apply H2. exact Hx. Qed.

  Lemma Jinv_step : forall u s a s',
    wf P s -> coh s -> Jinv s -> step u s = Some (a, s') -> Jinv s'.
  Proof.
    intros u s a s' Hwf Hcoh HJ Hs.
    pose proof (step_inv _ _ _ _ Hs) as [rest [Htodo [Hthr Heff]]].
    pose proof (step_mem _ _ _ _ Hs) as Hmem.
    assert (Hprog : done (thr s u) ++ a :: rest = nth u P []) by (rewrite <- Htodo; apply Hwf).
    assert (HinP : In (nth u P []) P).
    { apply (nth_program_In P u a). rewrite <- Hprog. apply in_or_app. right. left. reflexivity. }
    (* memory outside the footprint of l, when the stepping thread does not hold l *)
    assert (Hmem_other : lw (locks s l) <> Some u -> agree_on prot l (mem s') (mem s)).
    { intros Hnot. rewrite Hmem. destruct a as [l0|l0|l0|l0|y|y f|y f]; simpl; try (intros x Hx; reflexivity).
      - apply agree_upd_outside. intro Hp. apply Hnot.
        eapply write_needs_lock; [exact Hwf|exact Hcoh|exact Htodo| |exact Hp]. exists f. left. reflexivity.
      - apply agree_upd_outside. intro Hp. apply Hnot.
        eapply write_needs_lock; [exact Hwf|exact Hcoh|exact Htodo| |exact Hp]. exists f. right. reflexivity. }
    (* the writer field of l after the step *)
    assert (Hlw : lw (locks s' l) =
                  match a with
                  | Acq l0 => if Nat.eq_dec l l0 then Some u else lw (locks s l)
                  | Rel l0 => if Nat.eq_dec l l0 then None else lw (locks s l)
                  | _ => lw (locks s l)
                  end).
    { destruct a as [l0|l0|l0|l0|y|y f|y f]; simpl in Heff.
      - destruct Heff as [_ [_ [Hl _]]]. rewrite Hl. unfold upd. destruct (Nat.eq_dec l l0); reflexivity.
      - destruct Heff as [_ [Hl _]]. rewrite Hl. unfold upd. destruct (Nat.eq_dec l l0); reflexivity.
      - destruct Heff as [Hw [Hl _]]. rewrite Hl. unfold upd. destruct (Nat.eq_dec l l0); [subst; simpl; symmetry; exact Hw | reflexivity].
      - destruct Heff as [_ [Hl _]]. rewrite Hl. unfold upd. destruct (Nat.eq_dec l l0); [subst; reflexivity | reflexivity].
      - destruct Heff as [Hl _]. rewrite Hl. reflexivity.
      - destruct Heff as [Hl _]. rewrite Hl. reflexivity.
      - destruct Heff as [Hl _]. rewrite Hl. reflexivity. }
    unfold Jinv in *.
    destruct (lw (locks s l)) as [t|] eqn:Hcur.
    - (* l is held by t *)
      destruct HJ as [pre [mid [m1 [Hdone [Hnorel [HI Hag]]]]]].
      destruct (Nat.eq_dec u t) as [Eut|Nut].
      + subst u.
        (* the holder moves *)
        destruct a as [l0|l0|l0|l0|y|y f|y f].
        * (* Acq: cannot be l *)
          simpl in Heff. destruct Heff as [Hw _]. rewrite Hlw.
          destruct (Nat.eq_dec l l0) as [E|N]; [subst; rewrite Hcur in Hw; discriminate|].
          exists pre, (mid ++ [Acq l0]), m1. rewrite Hthr, upd_same. simpl.
          split; [rewrite Hdone, <- app_assoc; reflexivity|].
          split; [intro Hc; apply in_app_or in Hc; destruct Hc as [Hc|[Hc|[]]]; [contradiction | discriminate]|].
          split; [exact HI|]. rewrite seq_exec_app. simpl. rewrite Hmem. simpl. exact Hag.
        * (* Rel *)
          rewrite Hlw. destruct (Nat.eq_dec l l0) as [E|N].
          -- subst l0. rewrite Hmem. simpl.
             apply (Hresp (seq_exec mid m1)); [apply agree_sym; exact Hag|].
             apply (Hsec (nth t P []) pre mid rest HinP); [|exact Hnorel|exact HI].
             rewrite <- Hprog, Hdone, <- app_assoc. reflexivity.
          -- exists pre, (mid ++ [Rel l0]), m1. rewrite Hthr, upd_same. simpl.
             split; [rewrite Hdone, <- app_assoc; reflexivity|].
             split; [intro Hc; apply in_app_or in Hc; destruct Hc as [Hc|[Hc|[]]]; [contradiction | inversion Hc; apply N; symmetry; assumption]|].
             split; [exact HI|]. rewrite seq_exec_app. simpl. rewrite Hmem. simpl. exact Hag.
        * rewrite Hlw. exists pre, (mid ++ [RAcq l0]), m1. rewrite Hthr, upd_same. simpl.
          split; [rewrite Hdone, <- app_assoc; reflexivity|].
          split; [intro Hc; apply in_app_or in Hc; destruct Hc as [Hc|[Hc|[]]]; [contradiction | discriminate]|].
          split; [exact HI|]. rewrite seq_exec_app. simpl. rewrite Hmem. simpl. exact Hag.
        * rewrite Hlw. exists pre, (mid ++ [RRel l0]), m1. rewrite Hthr, upd_same. simpl.
          split; [rewrite Hdone, <- app_assoc; reflexivity|].
          split; [intro Hc; apply in_app_or in Hc; destruct Hc as [Hc|[Hc|[]]]; [contradiction | discriminate]|].
          split; [exact HI|]. rewrite seq_exec_app. simpl. rewrite Hmem. simpl. exact Hag.
        * rewrite Hlw. exists pre, (mid ++ [Rd y]), m1. rewrite Hthr, upd_same. simpl.
          split; [rewrite Hdone, <- app_assoc; reflexivity|].
          split; [intro Hc; apply in_app_or in Hc; destruct Hc as [Hc|[Hc|[]]]; [contradiction | discriminate]|].
          split; [exact HI|]. rewrite seq_exec_app. simpl. rewrite Hmem. simpl. exact Hag.
        * (* Wr by the holder *)
          rewrite Hlw. exists pre, (mid ++ [Wr y f]), m1. rewrite Hthr, upd_same. simpl.
          split; [rewrite Hdone, <- app_assoc; reflexivity|].
          split; [intro Hc; apply in_app_or in Hc; destruct Hc as [Hc|[Hc|[]]]; [contradiction | discriminate]|].
          split; [exact HI|]. rewrite seq_exec_app. simpl. rewrite Hmem. simpl.
          intros x Hx. unfold upd. destruct (Nat.eq_dec x y) as [E|N].
          -- subst y. apply (Hdep (nth t P []) (done (thr s t)) x f rest HinP); [symmetry; exact Hprog | exact Hx | exact Hag].
          -- apply Hag. exact Hx.
        * (* AtomicOp by the holder: not on a protected location *)
          rewrite Hlw. exists pre, (mid ++ [AtomicOp y f]), m1. rewrite Hthr, upd_same. simpl.
          split; [rewrite Hdone, <- app_assoc; reflexivity|].
          split; [intro Hc; apply in_app_or in Hc; destruct Hc as [Hc|[Hc|[]]]; [contradiction | discriminate]|].
          split; [exact HI|]. rewrite seq_exec_app. simpl. rewrite Hmem. simpl.
          pose proof (ls_ok_next prot P s t _ rest Hwf (Hall_ls t) Htodo) as Hn. simpl in Hn.
          intros x Hx. unfold upd. destruct (Nat.eq_dec x y) as [E|N].
          -- subst y. rewrite Hn in Hx. discriminate.
          -- apply Hag. exact Hx.
      + (* another thread moves: it cannot touch l's writer field nor the footprint *)
        assert (Hkeep : lw (locks s' l) = Some t).
        { rewrite Hlw. destruct a as [l0|l0|l0|l0|y|y f|y f]; try reflexivity.
          - destruct (Nat.eq_dec l l0) as [E|N]; [|reflexivity]. subst l0.
            simpl in Heff. destruct Heff as [Hw _]. rewrite Hcur in Hw. discriminate.
          - destruct (Nat.eq_dec l l0) as [E|N]; [|reflexivity]. subst l0.
            simpl in Heff. destruct Heff as [Hw _]. rewrite Hcur in Hw. exfalso. apply Nut. inversion Hw. reflexivity. }
        rewrite Hkeep. exists pre, mid, m1.
        rewrite Hthr. rewrite upd_other by (intro Hc; apply Nut; symmetry; exact Hc).
        split; [exact Hdone|]. split; [exact Hnorel|]. split; [exact HI|].
        apply (agree_trans _ (mem s)); [|exact Hag]. apply Hmem_other.
        intro Hc. inversion Hc. apply Nut. symmetry. assumption.
    - (* nobody holds l exclusively *)
      assert (Hmo : agree_on prot l (mem s') (mem s)) by (apply Hmem_other; discriminate).
      destruct a as [l0|l0|l0|l0|y|y f|y f]; rewrite Hlw.
      + destruct (Nat.eq_dec l l0) as [E|N].
        * subst l0. exists (done (thr s u)), [], (mem s). rewrite Hthr, upd_same. simpl.
          split; [reflexivity|]. split; [intros []|]. split; [exact HJ | exact Hmo].
        * apply (Hresp (mem s)); [apply agree_sym; exact Hmo | exact HJ].
      + destruct (Nat.eq_dec l l0) as [E|N]; apply (Hresp (mem s)); try (apply agree_sym; exact Hmo); exact HJ.
      + apply (Hresp (mem s)); [apply agree_sym; exact Hmo | exact HJ].
      + apply (Hresp (mem s)); [apply agree_sym; exact Hmo | exact HJ].
      + apply (Hresp (mem s)); [apply agree_sym; exact Hmo | exact HJ].
      + apply (Hresp (mem s)); [apply agree_sym; exact Hmo | exact HJ].
      + apply (Hresp (mem s)); [apply agree_sym; exact Hmo | exact HJ].
  Qed.

  Theorem invariant_all_interleavings_sec : forall m0 tr s,
    I m0 -> exec (init P m0) tr s -> lw (locks s l) = None -> I (mem s).
  Proof.
    intros m0 tr s HI0 Hex Hfree.
    assert (Hall3 : wf P s /\ coh s /\ Jinv s).
    { eapply (exec_preserves (fun s => wf P s /\ coh s /\ Jinv s)); [|exact Hex|].
      - intros t s0 a s1 [Hw [Hc Hj]] Hs. split; [eapply wf_step; eassumption|].
        split; [eapply coh_step; eassumption|]. eapply Jinv_step; eassumption.
      - split; [apply wf_init|]. split; [apply coh_init|]. unfold Jinv. simpl. exact HI0. }
    destruct Hall3 as [_ [_ HJ]]. unfold Jinv in HJ. rewrite Hfree in HJ. exact HJ.
  Qed.
End Invariant.

Theorem invariant_all_interleavings :
  forall (P : program) (prot : loc -> option lock) (l : lock) (I : store -> Prop) (m0 : store),
  Forall (fun p => thread_ls_ok prot p = true) P ->
  (forall m m', agree_on prot l m m' -> I m -> I m') ->
  (forall p pre x f post, In p P -> p = pre ++ Wr x f :: post -> prot x = Some l ->
      forall m m', agree_on prot l m m' -> f m = f m') ->
  (forall p pre body post, In p P -> p = pre ++ Acq l :: body ++ Rel l :: post ->
      ~ In (Rel l) body -> forall m, I m -> I (seq_exec body m)) ->
  I m0 ->
  forall tr s, exec (init P m0) tr s -> lw (locks s l) = None -> I (mem s).
Proof.
  intros P prot l I m0 HP Hresp Hdep Hsec HI0 tr s Hex Hfree.
  eapply invariant_all_interleavings_sec; eassumption.
Qed.

(* ------------------------------------------------------------------------------------------ *)
(** * Soundness of the skeleton checkers: from [check_* sk = true] to the hypotheses of (b), (c) *)

Lemma ord_ok_append : forall rank p w r q,
  ord_ok rank w r p = true -> ord_ok rank [] [] q = true -> ord_ok rank w r (p ++ q) = true.
Proof.
  intros rank. induction p as [|a p IH]; intros w r q Hp Hq.
  - apply ord_ok_nil in Hp. destruct Hp as [Hw Hr]. subst. exact Hq.
  - simpl in *. apply andb_true_iff in Hp. destruct Hp as [Hh Hp].
    apply andb_true_iff. split; [exact Hh | apply IH; assumption].
Qed.

Lemma ls_ok_append : forall prot rank p w r q,
  ls_ok prot w r p = true -> ord_ok rank w r p = true -> ls_ok prot [] [] q = true ->
  ls_ok prot w r (p ++ q) = true.
Proof.
  intros prot rank. induction p as [|a p IH]; intros w r q Hl Hp Hq.
  - apply ord_ok_nil in Hp. destruct Hp as [Hw Hr]. subst. exact Hq.
  - simpl in *. apply andb_true_iff in Hp. destruct Hp as [_ Hp].
    apply andb_true_iff in Hl. destruct Hl as [Hh Hl].
    apply andb_true_iff. split; [exact Hh | apply IH; assumption].
Qed.

Lemma api_thread_ok : forall sk p,
  check_lock_order sk && check_locksets sk = true -> api_thread sk p ->
  thread_ord_ok (sk_rank sk) p = true /\ thread_ls_ok (sk_prot sk) p = true /\
  atomic_only (sk_atomic sk) p = true.
Proof.
  intros sk p Hck [es [Hes Hp]]. subst p.
  apply andb_true_iff in Hck. destruct Hck as [Hord Hls].
  unfold check_lock_order in Hord. rewrite forallb_forall in Hord.
  unfold check_locksets in Hls. apply andb_true_iff in Hls. destruct Hls as [_ Hls].
  rewrite forallb_forall in Hls.
  induction Hes as [|e es He Hes IH]; simpl.
  - repeat split; reflexivity.
  - destruct IH as [IH1 [IH2 IH3]].
    pose proof (Hord e He) as Ho. pose proof (Hls e He) as Hl.
    apply andb_true_iff in Hl. destruct Hl as [Hl Ha].
    split; [apply ord_ok_append; assumption|].
    split; [eapply ls_ok_append; eassumption|].
    unfold atomic_only in *. rewrite forallb_app. rewrite Ha, IH3. reflexivity.
Qed.

Lemma api_program_ok : forall sk P,
  check_lock_order sk && check_locksets sk = true -> api_program sk P ->
  Forall (fun p => thread_ord_ok (sk_rank sk) p = true) P /\
  Forall (fun p => thread_ls_ok (sk_prot sk) p = true) P /\
  Forall (fun p => atomic_only (sk_atomic sk) p = true) P.
Proof.
  intros sk P Hck HP. unfold api_program in HP.
  repeat split; rewrite Forall_forall in *; intros p Hp;
    destruct (api_thread_ok sk p Hck (HP p Hp)) as [H1 [H2 H3]]; assumption.
Qed.

Theorem skeleton_no_deadlock : forall sk,
  check_lock_order sk && check_locksets sk = true ->
  forall P m0 tr s, api_program sk P ->
  exec (init P m0) tr s ->
  (exists t, todo (thr s t) <> []) ->
  exists t a s', step t s = Some (a, s').
Proof.
  intros sk Hck P m0 tr s HP. destruct (api_program_ok sk P Hck HP) as [H1 _].
  apply (lock_order_no_deadlock (sk_rank sk)). exact H1.
Qed.

Theorem skeleton_lockset_consistent : forall sk,
  check_lock_order sk && check_locksets sk = true ->
  forall P m0 pre t a mid t' a' post s x l, api_program sk P ->
  exec (init P m0) (pre ++ (t, a) :: mid ++ (t', a') :: post) s ->
  t <> t' -> sk_prot sk x = Some l ->
  plain_access x a = true -> plain_access x a' = true ->
  is_write a || is_write a' = true ->
  exists m1 r m2 q m3,
    mid = m1 ++ (t, r) :: m2 ++ (t', q) :: m3 /\ is_rel l r = true /\ is_acq l q = true.
Proof.
  intros sk Hck P m0 pre t a mid t' a' post s x l HP. destruct (api_program_ok sk P Hck HP) as [_ [H2 _]].
  apply (lockset_no_adjacent_conflict (sk_prot sk)). exact H2.
Qed.

Theorem skeleton_atomic_only : forall sk,
  check_lock_order sk && check_locksets sk = true ->
  forall P m0 tr s t a x, api_program sk P ->
  exec (init P m0) tr s -> In (t, a) tr -> sk_atomic sk x = true -> plain_access x a = false.
Proof.
  intros sk Hck P m0 tr s t a x HP. destruct (api_program_ok sk P Hck HP) as [_ [_ H3]].
  apply (atomic_only_no_plain_access (sk_atomic sk)). exact H3.
Qed.
