(* GoSem.v — the semantics of Go's fixed-width integer operators over Z, used by the GENERATED
   file GenLeaf.v (tools/go2coq).  Hand-written, small, trusted as the reading of the Go
   specification ("Arithmetic operators", "Integer overflow", "Conversions"):

   - a value of type intN is an integer in [-2^(N-1), 2^(N-1)), of type uintN one in [0, 2^N);
     int and uint are 64 bits wide (linux/amd64, the only platform of the harness);
   - + - * wrap around (two's complement), conversions between integer types wrap;
   - / truncates toward zero, % has the sign of the dividend (Z.quot / Z.rem); the translator
     emits a panic guard for a divisor that is not a non-zero constant;
   - & | ^ &^ act on the infinite two's complement representation (Z.land ...), which maps
     every fixed-width range into itself, so their results need no wrap; unary ^ on an unsigned
     operand is the complement within the width;
   - x << c: c >= width gives 0, otherwise the low N bits of x * 2^c; x >> c: logical for
     unsigned, arithmetic (sign fill) for signed operands; c >= width gives 0 / -1.  A negative
     shift count panics in Go: the translator emits the guard, the functions here are only
     applied to counts >= 0;
   - bits.LeadingZeros64 x = 64 for x = 0 and 63 - floor(log2 x) otherwise.

   The second half are the "no overflow in range" lemmas used by GenLeafProofs.v. *)
From Coq Require Import ZArith Lia Bool List.
From Coq Require Import ZifyBool.
Open Scope Z_scope.

(* ------------------------------------------------------------------ outcome of a call *)

(* Ret a: the function returned a (results, then the assigned receiver fields).
   Panic s: a Go panic (explicit panic(...), negative shift count, division by zero, slice index
   out of range); s holds the values of the assigned receiver fields / @out locations at that
   moment (tt if the function assigns none).
   Diverge: the fuel of a translated loop ran out.  Never a normal-looking value; the translator
   only emits loops whose fuel exceeds the number of iterations, and the equivalence theorems
   prove (not assume) that Diverge does not occur. *)
Inductive outcome (A S : Type) : Type :=
| Ret (a : A)
| Panic (s : S)
| Diverge.
Arguments Ret {A S} a.
Arguments Panic {A S} s.
Arguments Diverge {A S}.

(* ------------------------------------------------------------------ wrap-around *)

Definition wrap_u8 (x : Z) : Z := x mod 256.
Definition wrap_u16 (x : Z) : Z := x mod 65536.
Definition wrap_u32 (x : Z) : Z := x mod 4294967296.
Definition wrap_u64 (x : Z) : Z := x mod 18446744073709551616.
Definition wrap_i8 (x : Z) : Z := (x + 128) mod 256 - 128.
Definition wrap_i16 (x : Z) : Z := (x + 32768) mod 65536 - 32768.
Definition wrap_i32 (x : Z) : Z := (x + 2147483648) mod 4294967296 - 2147483648.
Definition wrap_i64 (x : Z) : Z := (x + 9223372036854775808) mod 18446744073709551616 - 9223372036854775808.

(* ------------------------------------------------------------------ division, bit operators *)

Definition go_quot (a b : Z) : Z := Z.quot a b.
Definition go_rem (a b : Z) : Z := Z.rem a b.
Definition go_and (a b : Z) : Z := Z.land a b.
Definition go_or (a b : Z) : Z := Z.lor a b.
Definition go_xor (a b : Z) : Z := Z.lxor a b.
Definition go_andnot (a b : Z) : Z := Z.ldiff a b.

Definition go_not_u8 (x : Z) : Z := wrap_u8 (Z.lnot x).
Definition go_not_u16 (x : Z) : Z := wrap_u16 (Z.lnot x).
Definition go_not_u32 (x : Z) : Z := wrap_u32 (Z.lnot x).
Definition go_not_u64 (x : Z) : Z := wrap_u64 (Z.lnot x).
Definition go_not_i8 (x : Z) : Z := Z.lnot x.
Definition go_not_i16 (x : Z) : Z := Z.lnot x.
Definition go_not_i32 (x : Z) : Z := Z.lnot x.
Definition go_not_i64 (x : Z) : Z := Z.lnot x.

(* ------------------------------------------------------------------ shifts (count c >= 0) *)

Definition go_shl_u8 (x c : Z) : Z := if 8 <=? c then 0 else wrap_u8 (Z.shiftl x c).
Definition go_shl_u16 (x c : Z) : Z := if 16 <=? c then 0 else wrap_u16 (Z.shiftl x c).
Definition go_shl_u32 (x c : Z) : Z := if 32 <=? c then 0 else wrap_u32 (Z.shiftl x c).
Definition go_shl_u64 (x c : Z) : Z := if 64 <=? c then 0 else wrap_u64 (Z.shiftl x c).
Definition go_shl_i8 (x c : Z) : Z := if 8 <=? c then 0 else wrap_i8 (Z.shiftl x c).
Definition go_shl_i16 (x c : Z) : Z := if 16 <=? c then 0 else wrap_i16 (Z.shiftl x c).
Definition go_shl_i32 (x c : Z) : Z := if 32 <=? c then 0 else wrap_i32 (Z.shiftl x c).
Definition go_shl_i64 (x c : Z) : Z := if 64 <=? c then 0 else wrap_i64 (Z.shiftl x c).

Definition go_shr_u8 (x c : Z) : Z := if 8 <=? c then 0 else Z.shiftr x c.
Definition go_shr_u16 (x c : Z) : Z := if 16 <=? c then 0 else Z.shiftr x c.
Definition go_shr_u32 (x c : Z) : Z := if 32 <=? c then 0 else Z.shiftr x c.
Definition go_shr_u64 (x c : Z) : Z := if 64 <=? c then 0 else Z.shiftr x c.
Definition sign_fill (x : Z) : Z := if x <? 0 then -1 else 0.
Definition go_shr_i8 (x c : Z) : Z := if 8 <=? c then sign_fill x else Z.shiftr x c.
Definition go_shr_i16 (x c : Z) : Z := if 16 <=? c then sign_fill x else Z.shiftr x c.
Definition go_shr_i32 (x c : Z) : Z := if 32 <=? c then sign_fill x else Z.shiftr x c.
Definition go_shr_i64 (x c : Z) : Z := if 64 <=? c then sign_fill x else Z.shiftr x c.

(* ------------------------------------------------------------------ math/bits (argument >= 0) *)

Definition go_len (x : Z) : Z := if x <=? 0 then 0 else Z.log2 x + 1.
Definition go_tz (w x : Z) : Z := if x <=? 0 then w else Z.log2 (Z.land x (- x)).
Definition len8 := go_len.
Definition len16 := go_len.
Definition len32 := go_len.
Definition len64 := go_len.
Definition lzcnt8 (x : Z) : Z := 8 - go_len x.
Definition lzcnt16 (x : Z) : Z := 16 - go_len x.
Definition lzcnt32 (x : Z) : Z := 32 - go_len x.
Definition lzcnt64 (x : Z) : Z := 64 - go_len x.
Definition tzcnt8 := go_tz 8.
Definition tzcnt16 := go_tz 16.
Definition tzcnt32 := go_tz 32.
Definition tzcnt64 := go_tz 64.

(* bits.OnesCountN (argument >= 0) *)
Fixpoint pos_popcount (p : positive) : nat :=
  match p with
  | xH => 1%nat
  | xO q => pos_popcount q
  | xI q => S (pos_popcount q)
  end.
Definition go_popcount (x : Z) : Z :=
  match x with Zpos p => Z.of_nat (pos_popcount p) | _ => 0 end.
Definition popcnt8 := go_popcount.
Definition popcnt16 := go_popcount.
Definition popcnt32 := go_popcount.
Definition popcnt64 := go_popcount.

(* ------------------------------------------------------------------ slices of integers, loops *)

(* s[i] for a slice modelled as a list; the translator guards the index (0 <= i < len) *)
Definition go_nth (l : list Z) (i : Z) : Z := nth (Z.to_nat i) l 0.

(* for cond { body }.  st: the variables the loop assigns.  body st next brk: the loop body in
   continuation-passing style: next st' = end of the iteration (after the post statement;
   also `continue`), brk st' = `break`; a `return` inside the body yields the function result
   directly.  exit st: the statements after the loop.  diverge: fuel exhausted. *)
Fixpoint go_loop {St R : Type} (fuel : nat) (cond : St -> bool)
         (body : St -> (St -> R) -> (St -> R) -> R) (exit : St -> R) (diverge : R) (st : St) : R :=
  match fuel with
  | O => diverge
  | S f => if cond st then body st (fun st' => go_loop f cond body exit diverge st') exit
           else exit st
  end.

(* ================================================================== lemmas *)

Ltac Zify.zify_post_hook ::= Z.to_euclidean_division_equations.

Lemma wrap_u8_id x : 0 <= x < 256 -> wrap_u8 x = x.
Proof. intros H. unfold wrap_u8. apply Z.mod_small. exact H. Qed.
Lemma wrap_u16_id x : 0 <= x < 65536 -> wrap_u16 x = x.
Proof. intros H. unfold wrap_u16. apply Z.mod_small. exact H. Qed.
Lemma wrap_u32_id x : 0 <= x < 4294967296 -> wrap_u32 x = x.
Proof. intros H. unfold wrap_u32. apply Z.mod_small. exact H. Qed.
Lemma wrap_u64_id x : 0 <= x < 18446744073709551616 -> wrap_u64 x = x.
Proof. intros H. unfold wrap_u64. apply Z.mod_small. exact H. Qed.
Lemma wrap_i64_id x : -9223372036854775808 <= x < 9223372036854775808 -> wrap_i64 x = x.
Proof. intros H. unfold wrap_i64. rewrite Z.mod_small; lia. Qed.
Lemma wrap_i32_id x : -2147483648 <= x < 2147483648 -> wrap_i32 x = x.
Proof. intros H. unfold wrap_i32. rewrite Z.mod_small; lia. Qed.

Lemma wrap_u8_range x : 0 <= wrap_u8 x < 256.
Proof. unfold wrap_u8. apply Z.mod_pos_bound. lia. Qed.
Lemma wrap_u16_range x : 0 <= wrap_u16 x < 65536.
Proof. unfold wrap_u16. apply Z.mod_pos_bound. lia. Qed.
Lemma wrap_u32_range x : 0 <= wrap_u32 x < 4294967296.
Proof. unfold wrap_u32. apply Z.mod_pos_bound. lia. Qed.
Lemma wrap_u64_range x : 0 <= wrap_u64 x < 18446744073709551616.
Proof. unfold wrap_u64. apply Z.mod_pos_bound. lia. Qed.
Lemma wrap_i64_range x : -9223372036854775808 <= wrap_i64 x < 9223372036854775808.
Proof. unfold wrap_i64. pose proof (Z.mod_pos_bound (x + 9223372036854775808) 18446744073709551616 ltac:(lia)). lia. Qed.

(* int(^(a - 1)) for an unsigned a: the complement computed at uint64 and reinterpreted as int64
   is the complement on Z, for every a in [1, 2^63] (and a = 0 as well, see below) *)
Lemma int_of_not_u64 x : 0 <= x < 9223372036854775808 ->
  wrap_i64 (go_not_u64 (wrap_u64 x)) = Z.lnot x.
Proof.
  intros H. rewrite (wrap_u64_id x) by lia. unfold go_not_u64, wrap_i64, wrap_u64, Z.lnot. lia.
Qed.

(* uint 0 - 1 = 2^64 - 1, whose complement is 0 = Z.lnot (-1) *)
Lemma int_of_not_u64_m1 : wrap_i64 (go_not_u64 (wrap_u64 (0 - 1))) = Z.lnot (0 - 1).
Proof. reflexivity. Qed.

Lemma lzcnt64_log2 x : 0 < x -> lzcnt64 x = 63 - Z.log2 x.
Proof. intros H. unfold lzcnt64, go_len. destruct (Z.leb_spec x 0); lia. Qed.

Lemma lzcnt64_0 : lzcnt64 0 = 64.
Proof. reflexivity. Qed.

Lemma log2_lt_64 x : 0 < x < 18446744073709551616 -> 0 <= Z.log2 x < 64.
Proof.
  intros H. split; [apply Z.log2_nonneg|].
  apply Z.log2_lt_pow2; [lia|]. change (2 ^ 64) with 18446744073709551616. lia.
Qed.

Lemma log2_lt_63 x : 0 < x < 9223372036854775808 -> 0 <= Z.log2 x < 63.
Proof.
  intros H. split; [apply Z.log2_nonneg|].
  apply Z.log2_lt_pow2; [lia|]. change (2 ^ 63) with 9223372036854775808. lia.
Qed.

Lemma go_shr_u64_spec x c : 0 <= c -> 0 <= x < 18446744073709551616 -> go_shr_u64 x c = Z.shiftr x c.
Proof.
  intros Hc Hx. unfold go_shr_u64. destruct (Z.leb_spec 64 c) as [Hge|Hlt]; [|reflexivity].
  rewrite Z.shiftr_div_pow2 by lia. symmetry. apply Z.div_small.
  split; [lia|]. apply Z.lt_le_trans with (2 ^ 64); [change (2 ^ 64) with 18446744073709551616; lia|].
  apply Z.pow_le_mono_r; lia.
Qed.

Lemma go_shr_i64_spec x c : 0 <= c < 64 -> go_shr_i64 x c = Z.shiftr x c.
Proof. intros Hc. unfold go_shr_i64. destruct (Z.leb_spec 64 c); [lia|reflexivity]. Qed.

Lemma go_shl_u64_one c : 0 <= c < 64 -> go_shl_u64 1 c = 2 ^ c.
Proof.
  intros Hc. unfold go_shl_u64. destruct (Z.leb_spec 64 c); [lia|].
  rewrite Z.shiftl_mul_pow2, Z.mul_1_l by lia. apply wrap_u64_id.
  split; [apply Z.pow_nonneg; lia|]. change 18446744073709551616 with (2 ^ 64).
  apply Z.pow_lt_mono_r; lia.
Qed.

Lemma pow2_le_of_log2 x k : 0 < x -> 0 <= k <= Z.log2 x -> 2 ^ k <= x.
Proof.
  intros Hx Hk. pose proof (Z.log2_spec x Hx) as [L _].
  apply Z.le_trans with (2 ^ Z.log2 x); [apply Z.pow_le_mono_r; lia|exact L].
Qed.
