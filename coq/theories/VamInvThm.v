(* VamInvThm.v — the representation invariant holds along every history of API calls:
   established by vam_new, preserved by [step] for every operation in the API domain [op_ok] and EVERY fault
   oracle (the fault is universally quantified: the device's answer to each driver call is whatever the armed
   fault makes it).  Results PANIC / STUCK end a history and carry no claim here. *)
From Coq Require Import ZArith NArith List Bool Lia.
From Arsenal Require Util Bits SyncMem Budget Select.
From Arsenal Require Import VamDev VamBlockList VamDefrag Vam VamInvMeta VamInv VamInvUpd VamInvDev VamInvStep VamInvStep2.
Import ListNotations.
Open Scope Z_scope.

(* the API domain of one call: Allocation objects passed in exist; a slice to free holds allocated objects *)
Definition op_ok (v : vam) (o : op) : Prop :=
  match o with
  | OAlloc slot _ _ _ _ _ _ _ _ _ => 0 <= slot < zlen (v_tab v)
  | OAllocN slot n _ _ _ _ _ _ _ _ _ => 0 <= slot /\ slot + n <= zlen (v_tab v)
  | OFreeN slot n => forall s, In s (slot_range slot (Z.to_nat n)) -> a_allocated (get_alloc v s) = true
  | OCreateBuf slot _ _ _ _ _ _ _ _ _ _ => 0 <= slot < zlen (v_tab v)
  | OCreateImg slot _ _ _ _ _ _ _ _ _ _ => 0 <= slot < zlen (v_tab v)
  | OAllocFor slot _ _ _ _ _ _ _ _ => 0 <= slot < zlen (v_tab v)
  | _ => True
  end.

Section WithCfg.
Variable c : vcfg.
Hypothesis Hc : cfg_ok c.

Definition exec_post (v v' : vam) (r : out unit) : Prop :=
  match r with PANIC | STUCK => True | _ => VamInv c v' /\ zlen (v_tab v') = zlen (v_tab v) end.

Lemma tab_frame_len v v' S : tab_frame v v' S -> zlen (v_tab v') = zlen (v_tab v).
Proof. intros (H & _). exact H. Qed.

Lemma exec_inv v o : VamInv c v -> op_ok v o -> let '(v', r) := exec c v o in exec_post v v' r.
Proof.
  intros HI Hok. unfold VamInv in *. destruct o; cbn [exec op_ok] in *.
  - pose proof (allocate_memory_inv c Hc v [] slot size align typeBits usage flags req pref ctb pool HI Hok) as P.
    destruct (allocate_memory c v slot size align typeBits usage flags req pref ctb pool) as (v' & r).
    destruct r as [[]|code| |]; cbn; auto; destruct P as (A & B & _); (split; [auto|eapply tab_frame_len; eauto]).
  - destruct Hok as (H0 & Hn).
    pose proof (allocate_memory_slice_inv c Hc v [] slot n size align typeBits usage flags req pref ctb pool HI H0 Hn) as P.
    destruct (allocate_memory_slice c v slot n size align typeBits usage flags req pref ctb pool) as (v' & r). cbn zeta in P.
    destruct r as [[]|code| |]; cbn; auto; destruct P as (A & B & _); (split; [auto|eapply tab_frame_len; eauto]).
  - pose proof (allocation_free_inv c v slot HI) as P. destruct (allocation_free c v slot) as (v' & r).
    destruct r as [[]|code| |]; cbn in *; auto; destruct P as (A & B); (split; [auto|eapply tab_frame_len; eauto]).
  - unfold free_allocation_slice. destruct (slot_range_nodup (Z.to_nat n) slot) as (Hnd & _).
    assert (Hlive : live_slots v [] (slot_range slot (Z.to_nat n))).
    { intros s Hs. split; [intros []|]. exists (get_alloc v s). apply get_alloc_allocated. auto. }
    pose proof (multi_free_inv c _ v [] HI Hnd Hlive) as P. destruct (multi_free c v _) as (v' & r).
    destruct r as [[]|code| |]; cbn; auto; destruct P as (A & B & _); (split; [auto|eapply tab_frame_len; eauto]).
  - pose proof (allocation_map_inv c v slot HI) as P. destruct (allocation_map c v slot) as (v' & r).
    destruct r as [[]|code| |]; cbn in *; auto; destruct P as (A & B & _); (split; [auto|eapply tab_frame_len; eauto]).
  - pose proof (allocation_unmap_inv c v slot HI) as P. destruct (allocation_unmap v slot) as (v' & r).
    destruct r as [[]|code| |]; cbn in *; auto; destruct P as (A & B & _); (split; [auto|eapply tab_frame_len; eauto]).
  - pose proof (allocation_flush_inv c v inval slot off size HI) as P. destruct (allocation_flush c v inval slot off size) as (v' & r).
    destruct r as [[]|code| |]; cbn in *; auto; destruct P as (A & B & _); (split; [auto|eapply tab_frame_len; eauto]).
  - pose proof (harness_rw_inv c v slot HI) as P. destruct (harness_rw c v slot) as (v' & r).
    destruct r as [[]|code| |]; cbn in *; auto; destruct P as (A & B & _); (split; [auto|eapply tab_frame_len; eauto]).
  - pose proof (create_pool_inv c Hc v ty flags blockSize minB maxB minAlign HI) as P.
    destruct (create_pool c v ty flags blockSize minB maxB minAlign) as (v' & r).
    destruct r as [[]|code| |]; cbn in *; auto; destruct P as (A & B); (split; [auto|eapply tab_frame_len; eauto]).
  - pose proof (rmpool_inv c v uid HI) as P. destruct (pool_destroy c v uid) as (v' & r).
    destruct r as [[]|code| |]; cbn in *; auto; destruct P as (A & B); (split; [auto|eapply tab_frame_len; eauto]).
  - pose proof (build_stats_string_inv c v HI) as P. destruct (build_stats_string c v) as (v' & r).
    destruct r as [[]|code| |]; cbn in *; auto; destruct P as (A & B); (split; [auto|eapply tab_frame_len; eauto]).
  - pose proof (allocator_destroy_inv c v HI) as P. destruct (allocator_destroy c v) as (v' & r).
    destruct r as [[]|code| |]; cbn in *; auto; destruct P as (A & B); (split; [auto|eapply tab_frame_len; eauto]).
  - pose proof (create_buffer_inv c Hc v slot size devreq bufUsage minAlign usage flags req pref ctb pool HI Hok) as P.
    destruct (create_buffer c v slot size devreq bufUsage minAlign usage flags req pref ctb pool) as (v' & r).
    destruct r as [[]|code| |]; cbn in *; auto; destruct P as (A & B); (split; [auto|eapply tab_frame_len; eauto]).
  - pose proof (create_image_inv c Hc v slot tiling width devreq imgUsage usage flags req pref ctb pool HI Hok) as P.
    destruct (create_image c v slot tiling width devreq imgUsage usage flags req pref ctb pool) as (v' & r).
    destruct r as [[]|code| |]; cbn in *; auto; destruct P as (A & B); (split; [auto|eapply tab_frame_len; eauto]).
  - pose proof (destroy_with_resource_inv c v slot image res HI) as P. destruct (destroy_with_resource c v slot image res) as (v' & r).
    destruct r as [[]|code| |]; cbn in *; auto; destruct P as (A & B); (split; [auto|eapply tab_frame_len; eauto]).
  - pose proof (allocate_for_resource_inv c Hc v slot image res usage flags req pref ctb pool HI Hok) as P.
    destruct (allocate_for_resource c v slot image res usage flags req pref ctb pool) as (v' & r).
    destruct r as [[]|code| |]; cbn in *; auto; destruct P as (A & B); (split; [auto|eapply tab_frame_len; eauto]).
  - pose proof (bind_memory_inv c v slot image res off HI) as P. destruct (bind_memory v slot image res off) as (v' & r).
    destruct r as [[]|code| |]; cbn in *; auto; destruct P as (A & B); (split; [auto|eapply tab_frame_len; eauto]).
  - unfold raw_create. pose proof (dev_create_res_same (v_m v) image kind devreq) as H.
    destruct (dev_create_res (v_m v) image kind devreq) as ((m1 & code) & id). cbn [fst] in H.
    assert (P : VamInvU c (set_m v m1) [] [] /\ zlen (v_tab (set_m v m1)) = zlen (v_tab v)) by (split; [apply VamInvU_mach_same; auto|reflexivity]).
    destruct (code =? 0); exact P.
  - unfold raw_destroy. cbn. split; [apply VamInvU_mach_same; [auto|apply dev_destroy_res_same]|reflexivity].
Qed.

(* one API call, any fault oracle *)
Theorem step_preserves v o f :
  VamInv c v -> op_ok v o ->
  let '(v', r, calls) := step c v o f in
  r <> RPanic -> r <> RStuck -> VamInv c v' /\ zlen (v_tab v') = zlen (v_tab v).
Proof.
  intros HI Hok. unfold step.
  set (v0 := set_m v (clear_calls (set_fault (v_m v) f 0))).
  assert (I0 : VamInv c v0).
  { unfold v0, VamInv. apply VamInvU_mach_same; [exact HI|]. split; cbn; [apply mems_same_refl|lia]. }
  assert (Hok0 : op_ok v0 o) by (destruct o; exact Hok).
  pose proof (exec_inv v0 o I0 Hok0) as E. destruct (exec c v0 o) as (v1 & r).
  intros Hp Hs. destruct r as [[]|code| |]; cbn in Hp, Hs; try congruence; cbn in E; destruct E as (A & B);
    (split; [unfold VamInv; apply VamInvU_mach_same; [exact A|split; cbn; [apply mems_same_refl|lia]]|exact B]).
Qed.

(* the Allocation objects an API call may write *)
Definition op_slots (o : op) : list Z :=
  match o with
  | OAlloc slot _ _ _ _ _ _ _ _ _ => [slot]
  | OAllocN slot n _ _ _ _ _ _ _ _ _ => slot_range slot (Z.to_nat n)
  | OFree slot => [slot]
  | OFreeN slot n => slot_range slot (Z.to_nat n)
  | OMap slot | OUnmap slot | ORw slot => [slot]
  | OFlush _ slot _ _ => [slot]
  | OCreateBuf slot _ _ _ _ _ _ _ _ _ _ => [slot]
  | OCreateImg slot _ _ _ _ _ _ _ _ _ _ => [slot]
  | ODestroyRes slot _ _ => [slot]
  | OAllocFor slot _ _ _ _ _ _ _ _ => [slot]
  | OBind slot _ _ _ => [slot]
  | _ => []
  end.

Definition exec_frame_post (v v' : vam) (o : op) (r : out unit) : Prop :=
  match r with PANIC | STUCK => True | _ => tab_frame v v' (op_slots o) end.

(* every other Allocation object is untouched *)
Lemma exec_frame v o : VamInv c v -> op_ok v o -> let '(v', r) := exec c v o in exec_frame_post v v' o r.
Proof.
  intros HI Hok. unfold VamInv in *. destruct o; cbn [exec op_ok op_slots] in *.
  - pose proof (allocate_memory_inv c Hc v [] slot size align typeBits usage flags req pref ctb pool HI Hok) as P.
    destruct (allocate_memory c v slot size align typeBits usage flags req pref ctb pool) as (v' & r).
    destruct r as [[]|code| |]; cbn; auto; destruct P as (A & B & _); exact B.
  - destruct Hok as (H0 & Hn).
    pose proof (allocate_memory_slice_inv c Hc v [] slot n size align typeBits usage flags req pref ctb pool HI H0 Hn) as P.
    destruct (allocate_memory_slice c v slot n size align typeBits usage flags req pref ctb pool) as (v' & r). cbn zeta in P.
    destruct r as [[]|code| |]; cbn; auto; destruct P as (A & B & _); exact B.
  - pose proof (allocation_free_inv c v slot HI) as P. destruct (allocation_free c v slot) as (v' & r).
    destruct r as [[]|code| |]; cbn in *; auto; destruct P as (A & B); exact B.
  - unfold free_allocation_slice. destruct (slot_range_nodup (Z.to_nat n) slot) as (Hnd & _).
    assert (Hlive : live_slots v [] (slot_range slot (Z.to_nat n))).
    { intros s Hs. split; [intros []|]. exists (get_alloc v s). apply get_alloc_allocated. auto. }
    pose proof (multi_free_inv c _ v [] HI Hnd Hlive) as P. destruct (multi_free c v _) as (v' & r).
    destruct r as [[]|code| |]; cbn; auto; destruct P as (A & B & _); exact B.
  - pose proof (allocation_map_inv c v slot HI) as P. destruct (allocation_map c v slot) as (v' & r).
    destruct r as [[]|code| |]; cbn in *; auto; destruct P as (A & B & _); exact B.
  - pose proof (allocation_unmap_inv c v slot HI) as P. destruct (allocation_unmap v slot) as (v' & r).
    destruct r as [[]|code| |]; cbn in *; auto; destruct P as (A & B & _); exact B.
  - pose proof (allocation_flush_inv c v inval slot off size HI) as P. destruct (allocation_flush c v inval slot off size) as (v' & r).
    destruct r as [[]|code| |]; cbn in *; auto; destruct P as (A & B & _); exact B.
  - pose proof (harness_rw_inv c v slot HI) as P. destruct (harness_rw c v slot) as (v' & r).
    destruct r as [[]|code| |]; cbn in *; auto; destruct P as (A & B & _); exact B.
  - pose proof (create_pool_inv c Hc v ty flags blockSize minB maxB minAlign HI) as P.
    destruct (create_pool c v ty flags blockSize minB maxB minAlign) as (v' & r).
    destruct r as [[]|code| |]; cbn in *; auto; destruct P as (A & B); exact B.
  - pose proof (rmpool_inv c v uid HI) as P. destruct (pool_destroy c v uid) as (v' & r).
    destruct r as [[]|code| |]; cbn in *; auto; destruct P as (A & B); exact B.
  - pose proof (build_stats_string_inv c v HI) as P. destruct (build_stats_string c v) as (v' & r).
    destruct r as [[]|code| |]; cbn in *; auto; destruct P as (A & B); exact B.
  - pose proof (allocator_destroy_inv c v HI) as P. destruct (allocator_destroy c v) as (v' & r).
    destruct r as [[]|code| |]; cbn in *; auto; destruct P as (A & B); exact B.
  - pose proof (create_buffer_inv c Hc v slot size devreq bufUsage minAlign usage flags req pref ctb pool HI Hok) as P.
    destruct (create_buffer c v slot size devreq bufUsage minAlign usage flags req pref ctb pool) as (v' & r).
    destruct r as [[]|code| |]; cbn in *; auto; destruct P as (A & B); exact B.
  - pose proof (create_image_inv c Hc v slot tiling width devreq imgUsage usage flags req pref ctb pool HI Hok) as P.
    destruct (create_image c v slot tiling width devreq imgUsage usage flags req pref ctb pool) as (v' & r).
    destruct r as [[]|code| |]; cbn in *; auto; destruct P as (A & B); exact B.
  - pose proof (destroy_with_resource_inv c v slot image res HI) as P. destruct (destroy_with_resource c v slot image res) as (v' & r).
    destruct r as [[]|code| |]; cbn in *; auto; destruct P as (A & B); exact B.
  - pose proof (allocate_for_resource_inv c Hc v slot image res usage flags req pref ctb pool HI Hok) as P.
    destruct (allocate_for_resource c v slot image res usage flags req pref ctb pool) as (v' & r).
    destruct r as [[]|code| |]; cbn in *; auto; destruct P as (A & B); exact B.
  - pose proof (bind_memory_inv c v slot image res off HI) as P. destruct (bind_memory v slot image res off) as (v' & r).
    destruct r as [[]|code| |]; cbn in *; auto; destruct P as (A & B); exact B.
  - unfold raw_create. pose proof (dev_create_res_same (v_m v) image kind devreq) as H.
    destruct (dev_create_res (v_m v) image kind devreq) as ((m1 & code) & id). cbn [fst] in H.
    destruct (code =? 0); apply tab_frame_set_m.
  - unfold raw_destroy. cbn. apply tab_frame_set_m.
Qed.

Theorem step_frame v o f :
  VamInv c v -> op_ok v o ->
  let '(v', r, calls) := step c v o f in
  r <> RPanic -> r <> RStuck -> tab_frame v v' (op_slots o).
Proof.
  intros HI Hok. unfold step.
  set (v0 := set_m v (clear_calls (set_fault (v_m v) f 0))).
  assert (I0 : VamInv c v0).
  { unfold v0, VamInv. apply VamInvU_mach_same; [exact HI|]. split; cbn; [apply mems_same_refl|lia]. }
  assert (Hok0 : op_ok v0 o) by (destruct o; exact Hok).
  pose proof (exec_frame v0 o I0 Hok0) as E. destruct (exec c v0 o) as (v1 & r).
  intros Hp Hs. destruct r as [[]|code| |]; cbn in Hp, Hs; try congruence; cbn in E;
    (eapply tab_frame_trans_same; [apply tab_frame_set_m|]; eapply tab_frame_trans_same; [exact E|apply tab_frame_set_m]).
Qed.

End WithCfg.
