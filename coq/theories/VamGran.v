(* VamGran.v — the bufferImageGranularity bookkeeping of every TLSF block is sound in every state of the allocator model, for
   any granularity (a power of two up to 2^32): GV, an invariant of every function of the model.

     gv_cfg     a block list's minimum alignment and granularity are powers of two, the granularity at most 2^32
     gv_blocks  every TLSF block of a list carries GranTlsf.GInv for the list's granularity: vam's handler, the page table
                is exactly the table of the live regions (no two regions of conflicting kinds on one page), every region
                that RoundUpAllocRequest rounds is page-aligned and a whole number of pages
     gv_allocs  a block Allocation has a suballocation type 1..5, and its size is what RoundUpAllocRequest makes of it for its
                list's granularity (the size the metadata stores is the rounded size)

   This is what the defragmentation planner's precondition (DefragGranProofs.WF HVam gg (GInv gg) kind_ok) needs of the
   projection of a block list beyond VamInv (VamDefragPass.project_wf); BeginDefragPass gives it back (collect_list_G).
   GR v v' : GV v -> GV v'.  The only function that needs more than GV is CreatePool (a new list appears under a fresh pool
   uid: no live Allocation may name it, which is VamInv's business). *)
From Coq Require Import ZArith List Bool Lia Permutation.
From Arsenal Require Import Util Budget VamDev VamBlockList VamDefrag Vam VamInvMeta VamInv VamInvUpd VamInvDev VamInvStep VamInvStep2.
From Arsenal Require Bits Gran Tlsf TlsfStep TlsfProps GranInv GranTlsf DefragGranProofs SyncMem Pass Defrag VamShapeStep.
Import ListNotations.
Open Scope Z_scope.

Module G := DefragGranProofs.

(* RoundUpAllocRequest leaves size s of a suballocation of type k alone in a list of granularity g *)
Definition rnd_ok (g k s : Z) : Prop := G.rnd Gran.HVam g k s = s.

Definition gran_ok (g : Z) : Prop := Bits.pow2 g /\ 1 <= g <= 4294967296.

Section GVc.
Variable c : vcfg.

Definition tlsfb (mt : meta) : bool := match mt with MTlsf _ => true | MLin _ => false end.

(* block b is fit for list l: TLSF metadata iff the list's algorithm is 0, and then GInv for the list's granularity *)
Definition blk_ok (l : blist) (b : block) : Prop :=
  tlsfb (bk_meta b) = (bl_algo l =? 0) /\ forall t, bk_meta b = MTlsf t -> GranTlsf.GInv (bl_gran l) t.

Record GV (v : vam) : Prop := mkGV {
  gv_cfg : forall lr l, get_blist v lr = Some l -> Bits.pow2 (bl_minalign l) /\ gran_ok (bl_gran l) /\ type_valid c (bl_type l) = true;
  gv_blocks : forall lr l b, get_blist v lr = Some l -> In b (bl_blocks l) -> blk_ok l b;
  gv_allocs : forall s a, slot_is v s a -> a_kind a = 1 ->
              GranInv.kind_ok (a_sub a) /\
              forall l, get_blist v (a_lref a) = Some l -> bl_algo l = 0 -> rnd_ok (bl_gran l) (a_sub a) (a_size a)
}.

Definition GR (v v' : vam) : Prop := GV v -> GV v'.

Lemma GR_refl v : GR v v. Proof. intros H; exact H. Qed.
Lemma GR_trans a b d : GR a b -> GR b d -> GR a d. Proof. intros A B H. auto. Qed.

(* ---------------------------------------------------------------- the TLSF operations keep GInv *)

Lemma request_G gr t size align upper sub strat mo t1 r :
  GranTlsf.GInv gr t -> Bits.pow2 align -> Tlsf.create_request t size align upper sub strat mo = Tlsf.QGranted t1 r -> GranTlsf.GInv gr t1.
Proof.
  intros HG Hal E. pose proof (GranTlsf.step_preserves_G gr t (Tlsf.ORequest size align sub strat upper mo) HG Hal I) as P.
  cbn [Tlsf.step] in P. rewrite E in P. exact P.
Qed.

Lemma request_alloc_G gr t size align upper sub strat mo t1 r tag t2 h :
  GranTlsf.GInv gr t -> Bits.pow2 align -> GranInv.kind_ok sub ->
  Tlsf.create_request t size align upper sub strat mo = Tlsf.QGranted t1 r -> Tlsf.alloc t1 r tag size align = Tlsf.AOk t2 h ->
  GranTlsf.GInv gr t2.
Proof.
  intros HG Hal Hk E1 E2. pose proof (GranTlsf.step_preserves_G gr t (Tlsf.OAlloc size align sub strat upper mo tag) HG Hal Hk) as P.
  cbn [Tlsf.step] in P. rewrite E1, E2 in P. exact P.
Qed.

Lemma free_G gr t h t1 : GranTlsf.GInv gr t -> Tlsf.tlsf_free t h = Tlsf.FOk t1 -> GranTlsf.GInv gr t1.
Proof.
  intros HG E. pose proof (GranTlsf.step_preserves_G gr t (Tlsf.OFree h) HG I I) as P. cbn [Tlsf.step] in P. rewrite E in P. exact P.
Qed.

Lemma setud_G gr t h tag t1 : GranTlsf.GInv gr t -> Tlsf.set_user_data t h tag = Some t1 -> GranTlsf.GInv gr t1.
Proof.
  intros HG E. pose proof (GranTlsf.step_preserves_G gr t (Tlsf.OSetUD h tag) HG I I) as P. cbn [Tlsf.step] in P. rewrite E in P. exact P.
Qed.

(* the size of a granted request is the rounded size *)
Lemma request_size gr t size align upper sub strat mo t1 r :
  GranTlsf.GInv gr t -> Bits.pow2 align -> Tlsf.create_request t size align upper sub strat mo = Tlsf.QGranted t1 r ->
  rnd_ok gr sub (Tlsf.rq_size r).
Proof.
  intros HG Hal E. pose proof HG as [HT Hh Hg Hrange _ _ _ _].
  apply TlsfStep.create_request_granted in E. destruct E as (_ & _ & Hgr).
  apply GranTlsf.granted_placement in Hgr; [|apply HT|].
  - destruct Hgr as (_ & Es & _). unfold rnd_ok. rewrite Es.
    rewrite (G.round_up_cfg Gran.HVam gr (Tlsf.t_gran t) sub size align Hg (fun _ => Hh)).
    apply G.rnd_idem. rewrite <- Hg. apply HT.
  - pose proof (TlsfStep.round_up_spec (Tlsf.t_gran t) sub size align (proj2 HT) Hal) as Hp.
    destruct (Gran.round_up (Tlsf.t_gran t) sub size align) as (sz' & al'). cbn [snd]. apply Hp.
Qed.

(* ---------------------------------------------------------------- primitives *)

Lemma GR_same v v' : (forall lr, get_blist v' lr = get_blist v lr) -> v_tab v' = v_tab v -> GR v v'.
Proof.
  intros Hl Ht [A B C]. constructor.
  - intros lr l Hg. rewrite Hl in Hg. eauto.
  - intros lr l b Hg. rewrite Hl in Hg. eauto.
  - intros s a Sa Ka. assert (Sa' : slot_is v s a) by (unfold slot_is in *; rewrite <- Ht; exact Sa).
    destruct (C s a Sa' Ka) as (K1 & K2). split; [exact K1|]. intros l Hg. rewrite Hl in Hg. auto.
Qed.

Lemma GR_set_m v m : GR v (set_m v m).
Proof. apply GR_same; [intros; apply get_blist_set_m|reflexivity]. Qed.

Lemma GR_set_dedlist v lr d : GR v (set_dedlist v lr d).
Proof. apply GR_same; [intros; apply get_blist_set_dedlist|]. destruct lr as [t|u]; cbn; [reflexivity|]. destruct (find_pool (v_pools v) u); reflexivity. Qed.

Definition alloc_gok (v : vam) (a : alloc) : Prop :=
  a_allocated a = true -> a_kind a = 1 ->
  GranInv.kind_ok (a_sub a) /\ forall l, get_blist v (a_lref a) = Some l -> bl_algo l = 0 -> rnd_ok (bl_gran l) (a_sub a) (a_size a).

(* one Allocation object is written *)
Lemma GR_set_alloc v s a' : (GV v -> alloc_gok v a') -> GR v (set_alloc v s a').
Proof.
  intros Ha HV. pose proof HV as [A B C]. constructor.
  - intros lr l Hg. rewrite get_blist_set_alloc in Hg. eauto.
  - intros lr l b Hg. rewrite get_blist_set_alloc in Hg. eauto.
  - intros s1 a1 S1 K1. destruct (Z.eq_dec s1 s) as [->|Hne].
    + destruct S1 as (Sn & Sal). assert (Hr : 0 <= s < zlen (v_tab v)).
      { apply nth_z_some_range in Sn. unfold set_alloc in Sn. cbn in Sn. unfold zlen in *. rewrite set_nth_z_length in Sn. exact Sn. }
      unfold set_alloc in Sn. cbn in Sn. rewrite nth_z_set_same in Sn by exact Hr. injection Sn as <-.
      destruct (Ha HV Sal K1) as (X1 & X2). split; [exact X1|]. intros l Hg. rewrite get_blist_set_alloc in Hg. auto.
    + apply (slot_is_set_alloc_other v s a' s1 a1 Hne) in S1. destruct (C s1 a1 S1 K1) as (X1 & X2). split; [exact X1|].
      intros l Hg. rewrite get_blist_set_alloc in Hg. auto.
Qed.

Lemma alloc_gok_dead v a : a_allocated a = false -> alloc_gok v a.
Proof. intros H Ha. congruence. Qed.

Lemma alloc_gok_ded v a : a_kind a = 2 -> alloc_gok v a.
Proof. intros H _ K. congruence. Qed.

Lemma nth_z_app_old1 {A} (l1 l2 : list A) s : s < zlen l1 -> nth_z (l1 ++ l2) s = nth_z l1 s.
Proof. intros H. unfold nth_z. destruct (s <? 0) eqn:E; [reflexivity|]. apply nth_error_app1. unfold zlen in H. lia. Qed.

Lemma nth_z_app_new1 {A} (l1 : list A) (x : A) s : zlen l1 <= s -> nth_z (l1 ++ [x]) s = if s =? zlen l1 then Some x else None.
Proof.
  intros H. unfold nth_z. destruct (s <? 0) eqn:E; [apply Z.ltb_lt in E; unfold zlen in H; lia|].
  unfold zlen in *. rewrite nth_error_app2 by lia. destruct (s =? Z.of_nat (length l1)) eqn:E2.
  - apply Z.eqb_eq in E2. replace (Z.to_nat s - length l1)%nat with 0%nat by lia. reflexivity.
  - apply Z.eqb_neq in E2. destruct (Z.to_nat s - length l1)%nat as [|n] eqn:E3; [lia|]. cbn. destruct n; reflexivity.
Qed.

(* an Allocation object is appended *)
Lemma GR_snoc v a' : (GV v -> alloc_gok v a') -> GR v (set_tab v (v_tab v ++ [a'])).
Proof.
  intros Ha HV. pose proof HV as [A B C]. constructor.
  - intros lr l Hg. rewrite get_blist_set_tab in Hg. eauto.
  - intros lr l b Hg. rewrite get_blist_set_tab in Hg. eauto.
  - intros s1 a1 (Sn & Sal) K1. cbn [v_tab set_tab] in Sn.
    destruct (Z_lt_dec s1 (zlen (v_tab v))) as [Hlt|Hge].
    + rewrite nth_z_app_old1 in Sn by exact Hlt. destruct (C s1 a1 (conj Sn Sal) K1) as (X1 & X2). split; [exact X1|].
      intros l Hg. rewrite get_blist_set_tab in Hg. auto.
    + rewrite nth_z_app_new1 in Sn by lia. destruct (s1 =? zlen (v_tab v)); [|discriminate]. injection Sn as <-.
      destruct (Ha HV Sal K1) as (X1 & X2). split; [exact X1|]. intros l Hg. rewrite get_blist_set_tab in Hg. auto.
Qed.

(* the configuration of a list that the invariant looks at *)
Definition cfg3 (l l' : blist) : Prop := bl_minalign l' = bl_minalign l /\ bl_gran l' = bl_gran l /\ bl_algo l' = bl_algo l /\ bl_type l' = bl_type l.

Lemma cfg3_refl l : cfg3 l l. Proof. repeat split. Qed.
Lemma cfg3_set_blocks l bs : cfg3 l (set_blocks l bs). Proof. repeat split. Qed.

Lemma blk_ok_cfg l l' b : cfg3 l l' -> blk_ok l b -> blk_ok l' b.
Proof. intros (_ & Eg & Ea & _) (A & B). unfold blk_ok. rewrite Eg, Ea. auto. Qed.

(* a list is replaced: same configuration, blocks that are fit *)
Lemma GR_set_blist v lr l l' :
  get_blist v lr = Some l -> cfg3 l l' -> (GV v -> forall b', In b' (bl_blocks l') -> blk_ok l b') -> GR v (set_blist v lr l').
Proof.
  intros Hg Hc3 Hk HV. pose proof Hc3 as (Ea & Eg & Eal & Ety). pose proof HV as [A B C]. constructor.
  - intros lr1 l1 Hg1. destruct (lref_eq_dec lr1 lr) as [->|Hne].
    + rewrite (get_set_blist_same _ _ _ _ Hg) in Hg1. injection Hg1 as <-. rewrite Ea, Eg, Ety. eauto.
    + rewrite get_set_blist_other in Hg1 by congruence. eauto.
  - intros lr1 l1 b1 Hg1 Hb1. destruct (lref_eq_dec lr1 lr) as [->|Hne].
    + rewrite (get_set_blist_same _ _ _ _ Hg) in Hg1. injection Hg1 as <-. apply (blk_ok_cfg l l' _ Hc3). apply Hk; auto.
    + rewrite get_set_blist_other in Hg1 by congruence. eauto.
  - intros s a Sa Ka. apply (proj1 (slot_is_set_blist _ _ _ _ _)) in Sa. destruct (C s a Sa Ka) as (X1 & X2). split; [exact X1|].
    intros l1 Hg1. destruct (lref_eq_dec (a_lref a) lr) as [E|Hne].
    + rewrite E in *. rewrite (get_set_blist_same _ _ _ _ Hg) in Hg1. injection Hg1 as <-. rewrite Eg, Eal. auto.
    + rewrite get_set_blist_other in Hg1 by congruence. auto.
Qed.

Lemma rb_cases' bs nb x : In x (replace_block bs nb) -> x = nb \/ In x bs.
Proof.
  induction bs as [|y bs IH]; cbn; [intros []|]. destruct (bk_id y =? bk_id nb); cbn.
  - intros [<-|H]; auto.
  - intros [<-|H]; [auto|]. destruct (IH H); auto.
Qed.

(* a block is replaced by a fit one *)
Lemma GR_put_block v lr l nb : get_blist v lr = Some l -> (GV v -> blk_ok l nb) -> GR v (put_block v lr nb).
Proof.
  intros Hg Hs. unfold put_block. rewrite Hg.
  apply (GR_set_blist v lr l _ Hg); [apply cfg3_set_blocks|]. intros HV b' Hb'. cbn [bl_blocks set_blocks] in Hb'.
  destruct (rb_cases' _ _ _ Hb') as [->|Hin]; [apply (Hs HV)|apply (gv_blocks _ HV _ _ _ Hg Hin)].
Qed.

Lemma get_block_ok v lr bid b l : GV v -> get_block v lr bid = Some b -> get_blist v lr = Some l -> blk_ok l b.
Proof.
  intros HV Hgb Hg. destruct (get_block_in _ _ _ _ Hgb) as (l' & Hg' & Hb & _). assert (l' = l) by congruence. subst l'.
  apply (gv_blocks _ HV _ _ _ Hg Hb).
Qed.

(* the SynchronizedMemory of a block is updated *)
Lemma GR_put_sm v lr bid b s' : get_block v lr bid = Some b -> GR v (put_block v lr (mkBlock (bk_id b) (bk_mem b) s' (bk_meta b))).
Proof.
  intros Hgb. destruct (get_block_in _ _ _ _ Hgb) as (l & Hg & _). apply (GR_put_block v lr l _ Hg). intros HV.
  exact (get_block_ok v lr bid b l HV Hgb Hg).
Qed.

(* a list keeps some of its blocks, in any order *)
Lemma GR_sub_blocks v lr l l' :
  get_blist v lr = Some l -> cfg3 l l' -> (forall b, In b (bl_blocks l') -> In b (bl_blocks l)) -> GR v (set_blist v lr l').
Proof. intros Hg Hc3 Hs. apply (GR_set_blist v lr l _ Hg Hc3). intros HV b' Hb'. apply (gv_blocks _ HV _ _ _ Hg (Hs _ Hb')). Qed.

(* ---------------------------------------------------------------- the metadata operations keep blocks fit *)

Lemma blk_ok_meta l b s' mt' :
  blk_ok l b -> tlsfb mt' = tlsfb (bk_meta b) ->
  (forall t t', bk_meta b = MTlsf t -> mt' = MTlsf t' -> GranTlsf.GInv (bl_gran l) t -> GranTlsf.GInv (bl_gran l) t') ->
  blk_ok l (mkBlock (bk_id b) (bk_mem b) s' mt').
Proof.
  intros (A & B) Hk HG. split; cbn [bk_meta]; [congruence|]. intros t' Et. destruct (bk_meta b) as [t|ll] eqn:Em; [|subst mt'; discriminate].
  apply (HG t t' eq_refl Et). apply B. reflexivity.
Qed.

Lemma meta_request_ok l b size align upper sub strat mt' rq s' :
  Bits.pow2 align -> blk_ok l b -> meta_create_request (bk_meta b) size align upper sub strat = MGranted mt' rq ->
  blk_ok l (mkBlock (bk_id b) (bk_mem b) s' mt').
Proof.
  intros Hal Hok H. apply (blk_ok_meta l b s' mt' Hok).
  - unfold meta_create_request in H. destruct (bk_meta b) as [t|ll].
    + destruct (Tlsf.create_request _ _ _ _ _ _ _); try discriminate. injection H as <- _. reflexivity.
    + destruct (Linear.create_request _ _ _ _ _ _ _); try discriminate. injection H as <- _. reflexivity.
  - intros t t' Et Et' HG. unfold meta_create_request in H. rewrite Et in H.
    destruct (Tlsf.create_request t size align upper sub strat MAXINT) as [t1 r| | |] eqn:E; try discriminate.
    injection H as H1 _. rewrite Et' in H1. injection H1 as <-. eapply request_G; eauto.
Qed.

Lemma meta_free_ok l b h mt' s' : blk_ok l b -> meta_free (bk_meta b) h = OK mt' -> blk_ok l (mkBlock (bk_id b) (bk_mem b) s' mt').
Proof.
  intros Hok H. apply (blk_ok_meta l b s' mt' Hok).
  - unfold meta_free in H. destruct (bk_meta b) as [t|ll].
    + destruct (Tlsf.tlsf_free t h); try discriminate. injection H as <-. reflexivity.
    + destruct (Linear.lin_free ll h); try discriminate. injection H as <-. reflexivity.
  - intros t t' Et Et' HG. unfold meta_free in H. rewrite Et in H. destruct (Tlsf.tlsf_free t h) as [t1| |] eqn:E; try discriminate.
    injection H as H1. rewrite Et' in H1. injection H1 as <-. eapply free_G; eauto.
Qed.

Lemma meta_set_ud_ok l b h tag mt' s' : blk_ok l b -> meta_set_user_data (bk_meta b) h tag = Some mt' -> blk_ok l (mkBlock (bk_id b) (bk_mem b) s' mt').
Proof.
  intros Hok H. apply (blk_ok_meta l b s' mt' Hok).
  - unfold meta_set_user_data in H. destruct (bk_meta b) as [t|ll].
    + destruct (Tlsf.set_user_data t h (Some tag)); try discriminate. injection H as <-. reflexivity.
    + destruct (Linear.set_user_data ll h (Some tag)); try discriminate. injection H as <-. reflexivity.
  - intros t t' Et Et' HG. unfold meta_set_user_data in H. rewrite Et in H. destruct (Tlsf.set_user_data t h (Some tag)) as [t1|] eqn:E; try discriminate.
    injection H as H1. rewrite Et' in H1. injection H1 as <-. eapply setud_G; eauto.
Qed.

(* ---------------------------------------------------------------- block_list.go *)

Section WithCfg.

Lemma sort_in (l : blist) b : In b (bl_blocks (incrementally_sort l)) -> In b (bl_blocks l).
Proof.
  unfold incrementally_sort. destruct (_ || _); [auto|]. cbn. intros H. eapply Permutation_in; [apply Permutation_sym; apply bubble_once_perm|exact H].
Qed.

Lemma sort_cfg (l : blist) : cfg3 l (incrementally_sort l).
Proof. unfold incrementally_sort. destruct (_ || _); [apply cfg3_refl|apply cfg3_set_blocks]. Qed.

Lemma sort_list_G v lr : GR v (sort_list v lr).
Proof.
  unfold sort_list. destruct (get_blist v lr) as [l|] eqn:Hg; [|apply GR_refl].
  apply (GR_sub_blocks v lr l _ Hg); [apply sort_cfg|apply sort_in].
Qed.

Lemma alloc_vk_ok_pos m ty size ded mem : snd (alloc_vk c m ty size ded) = OK mem -> 0 < size.
Proof.
  unfold alloc_vk. assert (D : snd (fst (dev_alloc c m ty size ded)) = 0 -> 0 < size).
  { unfold dev_alloc. destruct (negb _); [cbn; unfold VK_UNKNOWN; discriminate|]. destruct (size <=? 0) eqn:E; [cbn; unfold VK_UNKNOWN; discriminate|].
    intros _. apply Z.leb_gt in E. exact E. }
  destruct (dev_alloc c m ty size ded) as ((m1 & code) & id). cbn [fst snd] in D.
  unfold Budget.alloc_mem. destruct (Budget.maxCount _ <? _); [cbn; discriminate|].
  match goal with |- context [match ?x with Some _ => _ | None => _ end] => destruct x as [s2|] end; [|cbn; discriminate].
  destruct (negb (code =? 0)) eqn:Ec.
  - destruct (Budget.remove_block _ _ _) as (s3 & p). cbn. destruct p; discriminate.
  - cbn. intros _. apply D. apply negb_false_iff in Ec. apply Z.eqb_eq in Ec. exact Ec.
Qed.

Lemma create_block_G v lr size : GR v (fst (create_block c v lr size)).
Proof.
  unfold create_block. destruct (get_blist v lr) as [l|] eqn:Hg; [|apply GR_refl].
  pose proof (alloc_vk_ok_pos (v_m v) (bl_type l) size 0) as Hpos.
  destruct (alloc_vk c (v_m v) (bl_type l) size 0) as (m1 & r). destruct r as [mem|code| |]; cbn [fst]; try apply GR_set_m.
  specialize (Hpos mem eq_refl).
  eapply GR_trans; [apply GR_set_m|]. apply (GR_set_blist (set_m v m1) lr l); [rewrite get_blist_set_m; exact Hg|repeat split|].
  intros HV b' Hb'. cbn [bl_blocks set_blocks_next] in Hb'. apply in_app_iff in Hb'. destruct Hb' as [Hb'|[<-|[]]].
  - apply (gv_blocks _ HV lr l b'); [rewrite get_blist_set_m; exact Hg|exact Hb'].
  - split; cbn [bk_meta]; unfold meta_init; destruct (bl_algo l =? 0); try reflexivity; [|intros t Et; discriminate].
    intros t Et. injection Et as <-. destruct (gv_cfg _ HV lr l ltac:(rewrite get_blist_set_m; exact Hg)) as (_ & (Hp & Hr) & _).
    apply GranTlsf.init_GInv_wide; [split; [lia|exact Hp]|exact Hr].
Qed.

Lemma destroy_block_G v ty b : GR v (fst (destroy_block c v ty b)).
Proof. unfold destroy_block. destruct (negb _); [apply GR_refl|]. destruct (free_vk c (v_m v) ty _ (bk_mem b)) as (m1 & r). apply GR_set_m. Qed.

Lemma destroy_blocks_G bs : forall v ty, GR v (fst (destroy_blocks c v ty bs)).
Proof.
  induction bs as [|b tl IH]; intros v ty; cbn [destroy_blocks]; [apply GR_refl|].
  pose proof (destroy_block_G v ty b) as H. destruct (destroy_block c v ty b) as (v1 & r). cbn [fst] in H.
  destruct r as [[]|code| |]; cbn [fst]; try exact H. eapply GR_trans; [exact H|apply IH].
Qed.

Lemma find_block_replace_same bs id b nb : find_block bs id = Some b -> bk_id nb = id -> find_block (replace_block bs nb) id = Some nb.
Proof.
  intros H <-. induction bs as [|x bs IH]; cbn [find_block replace_block] in *; [discriminate|].
  destruct (bk_id x =? bk_id nb) eqn:E; cbn [find_block]; [rewrite Z.eqb_refl; reflexivity|]. rewrite E. apply IH. exact H.
Qed.

Lemma get_block_put_same v lr bid b nb : get_block v lr bid = Some b -> bk_id nb = bid -> get_block (put_block v lr nb) lr bid = Some nb.
Proof.
  unfold get_block, put_block. destruct (get_blist v lr) as [l|] eqn:Hg; [|discriminate]. intros Hf Hid.
  rewrite (get_set_blist_same _ _ _ _ Hg). cbn [bl_blocks set_blocks]. eapply find_block_replace_same; eauto.
Qed.

Lemma put_block_get' v lr l nb : get_blist v lr = Some l -> get_blist (put_block v lr nb) lr = Some (set_blocks l (replace_block (bl_blocks l) nb)).
Proof. intros Hg. unfold put_block. rewrite Hg. eapply get_set_blist_same; eauto. Qed.

(* metadata.CreateAllocationRequest + commitAllocationRequest on one block *)
Lemma alloc_from_block_G v lr bid size align flags sub slot :
  Bits.pow2 align -> GranInv.kind_ok sub -> GR v (fst (alloc_from_block c v lr bid size align flags sub slot)).
Proof.
  intros Hal Hk. unfold alloc_from_block. destruct (get_block v lr bid) as [b|] eqn:Hgb; [|apply GR_refl].
  destruct (negb _); [apply GR_refl|].
  destruct (meta_create_request (bk_meta b) size align (fl flags F_UPPER) sub (strategy_of flags)) as [mt1 rq| | |] eqn:Er; try apply GR_refl.
  intros HV.
  destruct (get_block_in _ _ _ _ Hgb) as (l & Hg & Hb & Hbid).
  pose proof (get_block_ok v lr bid b l HV Hgb Hg) as Hok0.
  set (b1 := mkBlock (bk_id b) (bk_mem b) (bk_sm b) mt1).
  assert (Hok1 : forall s', blk_ok l (mkBlock (bk_id b) (bk_mem b) s' mt1)) by (intros s'; eapply meta_request_ok; eauto).
  assert (V1 : GV (put_block v lr b1)) by (apply (GR_put_block v lr l b1 Hg); [intros _; apply Hok1|exact HV]).
  pose proof (get_block_put_same v lr bid b b1 Hgb Hbid) as Hgb1.
  pose proof (put_block_get' v lr l b1 Hg) as Hg1.
  set (v1 := put_block v lr b1) in *. set (l1 := set_blocks l (replace_block (bl_blocks l) b1)) in *.
  unfold commit_request. rewrite Hg1, Hgb1. cbn [bk_mem bk_sm bk_id bk_meta b1].
  destruct (sm_sub (v_m v1) (bk_mem b) (bk_sm b)) as (m1 & s1).
  destruct (if fl flags F_MAPPED then sm_map c m1 (bk_mem b) s1 else (m1, s1, OK tt)) as ((m2 & s2) & mr).
  set (b2 := mkBlock (bk_id b) (bk_mem b) s2 mt1).
  assert (Hg1m : get_blist (set_m v1 m2) lr = Some l1) by (rewrite get_blist_set_m; exact Hg1).
  assert (Hgb1m : get_block (set_m v1 m2) lr bid = Some b1) by (unfold get_block; rewrite get_blist_set_m; exact Hgb1).
  assert (V2 : GV (put_block (set_m v1 m2) lr b2)).
  { apply (GR_put_block (set_m v1 m2) lr l1 b2 Hg1m); [intros _; apply (blk_ok_cfg l l1); [apply cfg3_set_blocks|apply Hok1]|apply GR_set_m; exact V1]. }
  pose proof (get_block_put_same (set_m v1 m2) lr bid b1 b2 Hgb1m Hbid) as Hgb2.
  pose proof (put_block_get' (set_m v1 m2) lr l1 b2 Hg1m) as Hg2.
  set (v2 := put_block (set_m v1 m2) lr b2) in *. set (l2 := set_blocks l1 (replace_block (bl_blocks l1) b2)) in *.
  destruct mr as [[]|code| |]; cbn [fst]; try exact V2.
  assert (V3 : GV (set_alloc v2 slot (alloc_init (mapping_allowed flags)))).
  { apply GR_set_alloc; [|exact V2]. intros _. apply alloc_gok_dead. reflexivity. }
  set (v3 := set_alloc v2 slot (alloc_init (mapping_allowed flags))) in *.
  destruct (meta_alloc mt1 rq sub slot size align) as [(mt2 & handle)|code| |] eqn:Ema; cbn [fst]; try exact V3.
  assert (Hg3 : get_blist v3 lr = Some l2) by (unfold v3; rewrite get_blist_set_alloc; exact Hg2).
  (* the new metadata is fit; for a TLSF block the size of the request is the rounded size *)
  assert (HT : blk_ok l (mkBlock (bk_id b) (bk_mem b) s2 mt2) /\ (bl_algo l = 0 -> rnd_ok (bl_gran l) sub (mreq_size rq))).
  { destruct Hok0 as (Hk0 & HG0). unfold meta_create_request in Er. destruct (bk_meta b) as [t|ll] eqn:Em.
    - destruct (Tlsf.create_request t size align (fl flags F_UPPER) sub (strategy_of flags) MAXINT) as [t1 r| | |] eqn:E; try discriminate.
      injection Er as <- <-. cbn [meta_alloc] in Ema. destruct (Tlsf.alloc t1 r (Some slot) size align) as [t2' h| |] eqn:E2; try discriminate.
      injection Ema as <- _. specialize (HG0 t eq_refl). split; [split; [exact Hk0|]|].
      + cbn [bk_meta]. intros t2 Et. injection Et as <-. eapply request_alloc_G; eauto.
      + intros _. cbn [mreq_size]. eapply request_size; eauto.
    - destruct (Linear.create_request _ _ _ _ _ _ _) as [r| | |]; try discriminate. injection Er as <- <-. cbn [meta_alloc] in Ema.
      destruct (Linear.alloc _ _ _ _ _ _) as [l'| |]; try discriminate. injection Ema as <- _.
      split; [split; [exact Hk0|cbn [bk_meta]; intros t2 Et; discriminate]|]. intros Ea. cbn [tlsfb] in Hk0. rewrite Ea in Hk0. discriminate. }
  destruct HT as (Hok4 & Hsz).
  set (b4 := mkBlock (bk_id b) (bk_mem b) s2 mt2) in *.
  assert (V4 : GV (put_block v3 lr b4)).
  { apply (GR_put_block v3 lr l2 b4 Hg3); [intros _; apply (blk_ok_cfg l l2); [repeat split|exact Hok4]|exact V3]. }
  pose proof (put_block_get' v3 lr l2 b4 Hg3) as Hg4.
  set (v4 := put_block v3 lr b4) in *.
  destruct (fl flags F_MAPPED && negb (mapping_allowed flags)); cbn [fst]; [exact V4|].
  apply GR_set_m. apply GR_set_alloc; [|exact V4]. intros _ _ _. cbn [a_sub a_lref a_size]. split; [exact Hk|].
  intros l4 Hg4' Ea4. rewrite Hg4 in Hg4'. injection Hg4' as <-. cbn [bl_gran bl_algo set_blocks] in *. apply Hsz. exact Ea4.
Qed.

Lemma try_blocks_G ids : forall v lr size align flags sub slot,
  Bits.pow2 align -> GranInv.kind_ok sub -> GR v (fst (try_blocks c v lr ids size align flags sub slot)).
Proof.
  induction ids as [|bid tl IH]; intros v lr size align flags sub slot Hal Hk; cbn [try_blocks]; [apply GR_refl|].
  pose proof (alloc_from_block_G v lr bid size align flags sub slot Hal Hk) as H.
  destruct (alloc_from_block c v lr bid size align flags sub slot) as (v1 & r). cbn [fst] in H.
  destruct r; cbn [fst]; try exact H; [eapply GR_trans; [exact H|apply sort_list_G]|eapply GR_trans; [exact H|apply IH; auto]].
Qed.

Lemma retry_create_G fuel : forall v lr nbs shift size freeMemory canFallback last,
  GR v (fst (retry_create c fuel v lr nbs shift size freeMemory canFallback last)).
Proof.
  induction fuel as [|f IH]; intros v lr nbs shift size freeMemory canFallback last; cbn [retry_create]; [apply GR_refl|].
  destruct last as [x|code| |]; try apply GR_refl. destruct (3 <=? shift); [apply GR_refl|]. destruct (size <=? _); [|apply GR_refl].
  destruct (_ || _); [|apply IH].
  pose proof (create_block_G v lr (Z.quot nbs 2)) as H. destruct (create_block c v lr (Z.quot nbs 2)) as (v1 & r). cbn [fst] in H.
  eapply GR_trans; [exact H|apply IH].
Qed.

Lemma remove_block_sub v lr l bid : get_blist v lr = Some l -> GR v (set_blist v lr (set_blocks l (remove_block (bl_blocks l) bid))).
Proof. intros Hg. apply (GR_sub_blocks v lr l _ Hg); [apply cfg3_set_blocks|]. intros x. cbn [bl_blocks set_blocks]. apply in_remove_block. Qed.

Lemma alloc_page_G v lr size align flags sub slot :
  Bits.pow2 align -> GranInv.kind_ok sub -> GR v (fst (alloc_page c v lr size align flags sub slot)).
Proof.
  intros Hal Hk. unfold alloc_page. destruct (get_blist v lr) as [l|] eqn:Hg; [|apply GR_refl].
  destruct (heap_budget c (v_m v) (type_heap c (bl_type l))) as ((m1 & usage) & budget).
  destruct (_ && _); [apply GR_set_m|]. destruct (bl_pref l <? size); [apply GR_set_m|].
  pose proof (try_blocks_G (search_order c l flags) (set_m v m1) lr size align flags sub slot Hal Hk) as H2.
  destruct (try_blocks c (set_m v m1) lr (search_order c l flags) size align flags sub slot) as (v2 & r). cbn [fst] in H2.
  assert (K2 : GR v v2) by (eapply GR_trans; [apply GR_set_m|exact H2]).
  destruct r; cbn [fst]; try exact K2.
  destruct (negb _); [exact K2|].
  destruct (if bl_explicit l then (bl_pref l, 0) else shrink_new_block 3 (bl_pref l) 0 (calc_max_block_size l) size) as (nbs & shift).
  set (fm := if budget - usage <? 0 then 0 else budget - usage) in *.
  match goal with |- context [if ?cnd then create_block c v2 lr nbs else (v2, ER VK_OODM)] =>
    assert (H3 : GR v2 (fst (if cnd then create_block c v2 lr nbs else (v2, ER VK_OODM)))) by (destruct cnd; [apply create_block_G|apply GR_refl]);
    destruct (if cnd then create_block c v2 lr nbs else (v2, ER VK_OODM)) as (v3 & first) end.
  cbn [fst] in H3.
  match goal with |- context [if bl_explicit l then (v3, first) else ?e] =>
    assert (H4 : GR v3 (fst (if bl_explicit l then (v3, first) else e))) by (destruct (bl_explicit l); [apply GR_refl|apply retry_create_G]);
    destruct (if bl_explicit l then (v3, first) else e) as (v4 & created) end.
  cbn [fst] in H4. assert (K4 : GR v v4) by (eapply GR_trans; [exact K2|]; eapply GR_trans; [exact H3|exact H4]).
  destruct created as [bid|code| |]; cbn [fst]; try exact K4.
  destruct (get_block v4 lr bid) as [nb|]; [|exact K4]. destruct (meta_size (bk_meta nb) <? size); [exact K4|].
  pose proof (alloc_from_block_G v4 lr bid size align flags sub slot Hal Hk) as H5.
  destruct (alloc_from_block c v4 lr bid size align flags sub slot) as (v5 & r2). cbn [fst] in H5.
  assert (K5 : GR v v5) by (eapply GR_trans; [exact K4|exact H5]).
  assert (Hgive : GR v5 (fst (match get_blist v5 lr, get_block v5 lr bid with
                    | Some l5, Some b5 =>
                      if meta_is_empty (bk_meta b5) && (bl_min l5 <? zlen (bl_blocks l5)) then
                        match destroy_block c (set_blist v5 lr (set_blocks l5 (remove_block (bl_blocks l5) bid))) (bl_type l5) b5 with
                        | (v', OK _) => (v', OK tt)
                        | (v', STUCK) => (v', STUCK)
                        | (v', _) => (v', PANIC)
                        end
                      else (v5, OK tt)
                    | _, _ => (v5, STUCK)
                    end))).
  { destruct (get_blist v5 lr) as [l5|] eqn:Hg5; [|apply GR_refl]. destruct (get_block v5 lr bid) as [b5|]; [|apply GR_refl].
    destruct (_ && _); [|apply GR_refl].
    pose proof (destroy_block_G (set_blist v5 lr (set_blocks l5 (remove_block (bl_blocks l5) bid))) (bl_type l5) b5) as Hd.
    destruct (destroy_block c _ (bl_type l5) b5) as (v' & dr). cbn [fst] in Hd.
    assert (GR v5 v') by (eapply GR_trans; [apply (remove_block_sub v5 lr l5 bid Hg5)|exact Hd]).
    destruct dr as [[]|code| |]; exact H. }
  destruct r2 as [| |code2| |]; cbn [fst]; try exact K5; [eapply GR_trans; [exact K5|apply sort_list_G]| |];
    (match goal with |- context [match ?e with (a, b) => _ end] => destruct e as (v6 & dr) end; cbn [fst] in Hgive;
     assert (K6 : GR v v6) by (eapply GR_trans; [exact K5|exact Hgive]); destruct dr as [[]|code3| |]; exact K6).
Qed.

Lemma GR_unallocate v s : GR v (set_alloc v s (set_allocated (get_alloc v s) false)).
Proof. apply GR_set_alloc. intros _. apply alloc_gok_dead. reflexivity. Qed.

Lemma bl_free_G v lr slot keep : GR v (fst (bl_free c v lr slot keep)).
Proof.
  unfold bl_free. set (a := get_alloc v slot). destruct (get_blist v lr) as [l|] eqn:Hg; [|apply GR_refl].
  destruct (get_block v lr (a_blk a)) as [b|] eqn:Hgb; [|apply GR_refl].
  destruct (heap_budget c (v_m v) (type_heap c (bl_type l))) as ((m1 & usage) & budget).
  destruct (if a_persist a then sm_unmap m1 (bk_mem b) (bk_sm b) else (m1, bk_sm b, OK tt)) as ((m2 & s2) & ur).
  assert (H2 : GR v (put_block (set_m v m2) lr (mkBlock (bk_id b) (bk_mem b) s2 (bk_meta b)))).
  { eapply GR_trans; [apply GR_set_m|]. apply (GR_put_sm (set_m v m2) lr (a_blk a) b s2). unfold get_block. rewrite get_blist_set_m. exact Hgb. }
  set (v2 := put_block (set_m v m2) lr (mkBlock (bk_id b) (bk_mem b) s2 (bk_meta b))) in *.
  destruct ur as [[]|code| |]; cbn [fst]; try exact H2.
  destruct (meta_free (bk_meta b) (a_handle a)) as [mt'|code| |] eqn:Ef; cbn [fst]; try exact H2.
  destruct (sm_sub (v_m v2) (bk_mem b) s2) as (m3 & s3).
  set (b' := mkBlock (bk_id b) (bk_mem b) s3 mt').
  match goal with |- context [let '(bs4, toDelete) := ?e in _] => destruct e as (bs4 & toDelete) eqn:Ebs end.
  assert (Hbs4 : forall x, In x bs4 -> x = b' \/ In x (bl_blocks l)).
  { intros x Hx. assert (Hrb : forall y, In y (replace_block (bl_blocks l) b') -> y = b' \/ In y (bl_blocks l)) by (intros y; apply rb_cases').
    destruct (_ && _ && _) in Ebs.
    - injection Ebs as <- _. apply Hrb. eapply in_remove_block; eauto.
    - destruct (_ && _ && _) in Ebs; [|injection Ebs as <- _; auto].
      destruct (rev (replace_block (bl_blocks l) b')) as [|lastb rest] eqn:Erev; [injection Ebs as <- _; auto|].
      destruct (meta_is_empty (bk_meta lastb)); injection Ebs as <- _; [|auto].
      apply Hrb. apply in_rev. rewrite Erev. right. rewrite <- in_rev in Hx. exact Hx. }
  assert (H3 : GR v (set_blist (set_m v2 m3) lr (incrementally_sort (set_blocks l bs4)))).
  { intros HV. pose proof (get_block_ok v lr (a_blk a) b l HV Hgb Hg) as Hok0.
    pose proof (H2 HV) as V2.
    assert (Hg2 : get_blist v2 lr = Some (set_blocks l (replace_block (bl_blocks l) (mkBlock (bk_id b) (bk_mem b) s2 (bk_meta b))))).
    { unfold v2. apply put_block_get'. rewrite get_blist_set_m. exact Hg. }
    apply (GR_set_blist (set_m v2 m3) lr _ _ ltac:(rewrite get_blist_set_m; exact Hg2)); [|intros _ x Hx|apply GR_set_m; exact V2].
    - destruct (sort_cfg (set_blocks l bs4)) as (A1 & A2 & A3 & A4). repeat split; cbn in *; congruence.
    - apply sort_in in Hx. cbn [bl_blocks set_blocks] in Hx. apply (blk_ok_cfg l); [repeat split|].
      destruct (Hbs4 x Hx) as [->|Hin]; [|apply (gv_blocks _ HV _ _ _ Hg Hin)]. unfold b'. eapply meta_free_ok; eauto. }
  set (v3 := set_blist (set_m v2 m3) lr (incrementally_sort (set_blocks l bs4))) in *.
  assert (H4 : GR v3 (fst (match toDelete with
                           | None => (v3, OK tt)
                           | Some db => match destroy_block c v3 (bl_type l) db with (v', OK _) => (v', OK tt) | (v', STUCK) => (v', STUCK) | (v', _) => (v', PANIC) end
                           end))).
  { destruct toDelete as [db|]; [|apply GR_refl]. pose proof (destroy_block_G v3 (bl_type l) db) as Hd.
    destruct (destroy_block c v3 (bl_type l) db) as (v' & dr). cbn [fst] in Hd. destruct dr as [[]|code| |]; exact Hd. }
  match goal with |- context [let '(v4, dr) := ?e in _] => destruct e as (v4 & dr) end. cbn [fst] in H4.
  assert (K4 : GR v v4) by (eapply GR_trans; [exact H3|exact H4]).
  destruct dr as [[]|code| |]; cbn [fst]; try exact K4.
  destruct (remove_allocation c (v_m v4) (type_heap c (bl_type l)) (a_size a)) as (m5 & rr). cbn [fst]. eapply GR_trans; [exact K4|apply GR_set_m].
Qed.

Lemma release_loop_G ids : forall v lr firstId, GR v (fst (release_loop c v lr ids firstId)).
Proof.
  induction ids as [|bid tl IH]; intros v lr firstId; cbn [release_loop]; [apply GR_refl|].
  destruct (get_blist v lr) as [l|] eqn:Hg; [|apply GR_refl]. destruct (negb _); [apply GR_refl|].
  destruct (find_block (bl_blocks l) bid) as [b|]; [|apply GR_refl]. destruct (_ || _); [apply IH|].
  pose proof (destroy_block_G (set_blist v lr (set_blocks l (remove_block (bl_blocks l) bid))) (bl_type l) b) as Hd.
  destruct (destroy_block c _ (bl_type l) b) as (v2 & dr). cbn [fst] in Hd.
  assert (K2 : GR v v2) by (eapply GR_trans; [apply (remove_block_sub v lr l bid Hg)|exact Hd]).
  destruct dr as [[]|code| |]; cbn [fst]; try exact K2. eapply GR_trans; [exact K2|apply IH].
Qed.

Lemma release_empty_since_G v lr firstId : GR v (fst (release_empty_since c v lr firstId)).
Proof. unfold release_empty_since. destruct (get_blist v lr); [apply release_loop_G|apply GR_refl]. Qed.

Lemma allocate_loop_G slots : forall v lr done size align flags sub,
  Bits.pow2 align -> GranInv.kind_ok sub -> GR v (fst (fst (allocate_loop c v lr slots done size align flags sub))).
Proof.
  induction slots as [|s tl IH]; intros v lr done size align flags sub Hal Hk; cbn [allocate_loop]; [apply GR_refl|].
  pose proof (alloc_page_G v lr size align flags sub s Hal Hk) as H. destruct (alloc_page c v lr size align flags sub s) as (v1 & r). cbn [fst] in H.
  destruct r as [[]|code| |]; cbn [fst]; try exact H. eapply GR_trans; [exact H|apply IH; auto].
Qed.

Lemma unwind_loop_G done : forall v lr, GR v (fst (unwind_loop c v lr done)).
Proof.
  induction done as [|s tl IH]; intros v lr; cbn [unwind_loop]; [apply GR_refl|].
  pose proof (bl_free_G v lr s true) as H. destruct (bl_free c v lr s true) as (v1 & r). cbn [fst] in H.
  destruct r as [[]|code| |]; cbn [fst]; try exact H. eapply GR_trans; [exact H|]. eapply GR_trans; [apply GR_unallocate|apply IH].
Qed.

Lemma bl_allocate_G v lr slots size align0 flags sub :
  align0 = 0 \/ Bits.pow2 align0 -> GranInv.kind_ok sub -> GR v (fst (bl_allocate c v lr slots size align0 flags sub)).
Proof.
  intros Hal0 Hk HV. revert HV. unfold bl_allocate. destruct (get_blist v lr) as [l|] eqn:Hg; [|apply GR_refl]. intros HV.
  assert (Hal : Bits.pow2 (if align0 <? bl_minalign l then bl_minalign l else align0)).
  { destruct (gv_cfg _ HV _ _ Hg) as (Hm & _). pose proof (Bits.pow2_pos _ Hm). destruct (align0 <? bl_minalign l) eqn:E; [auto|].
    destruct Hal0 as [->|H']; [apply Z.ltb_ge in E; lia|auto]. }
  revert HV. fold (GR v (fst (let align := if align0 <? bl_minalign l then bl_minalign l else align0 in
     let firstNew := bl_next l in
     let '(v1, r, done) := allocate_loop c v lr slots [] size align flags sub in
     match r with
     | ER code =>
       let '(v2, ur) := unwind_loop c v1 lr done in
       match ur with
       | OK _ => let '(v3, rr) := release_empty_since c v2 lr firstNew in match rr with OK _ => (v3, ER code) | other => (v3, other) end
       | other => (v2, other)
       end
     | other => (v1, other)
     end))). cbn zeta.
  pose proof (allocate_loop_G slots v lr [] size _ flags sub Hal Hk) as H1.
  destruct (allocate_loop c v lr slots [] size _ flags sub) as ((v1 & r) & done).
  cbn [fst] in H1. destruct r as [[]|code| |]; cbn [fst]; try exact H1.
  pose proof (unwind_loop_G done v1 lr) as H2. destruct (unwind_loop c v1 lr done) as (v2 & ur). cbn [fst] in H2.
  assert (K2 : GR v v2) by (eapply GR_trans; eauto). destruct ur as [[]|ucode| |]; cbn [fst]; try exact K2.
  pose proof (release_empty_since_G v2 lr (bl_next l)) as H3. destruct (release_empty_since c v2 lr (bl_next l)) as (v3 & rr). cbn [fst] in H3.
  assert (K3 : GR v v3) by (eapply GR_trans; eauto). destruct rr as [[]|rcode| |]; exact K3.
Qed.

Lemma bl_destroy_G v lr : GR v (fst (bl_destroy c v lr)).
Proof.
  unfold bl_destroy. destruct (get_blist v lr) as [l|]; [|apply GR_refl]. destruct (existsb _ _); [apply GR_refl|].
  pose proof (destroy_blocks_G (bl_blocks l) v (bl_type l)) as H. destruct (destroy_blocks c v (bl_type l) (bl_blocks l)) as (v1 & r). cbn [fst] in H.
  destruct r as [[]|code| |]; cbn [fst]; try exact H. destruct (get_blist v1 lr) as [l1|] eqn:Hg1; [|exact H].
  eapply GR_trans; [exact H|]. apply (GR_sub_blocks v1 lr l1 (set_blocks l1 []) Hg1); [apply cfg3_set_blocks|intros x []].
Qed.

Lemma create_min_blocks_G n : forall v lr size, GR v (fst (create_min_blocks c n v lr size)).
Proof.
  induction n as [|k IH]; intros v lr size; cbn [create_min_blocks]; [apply GR_refl|].
  pose proof (create_block_G v lr size) as H. destruct (create_block c v lr size) as (v1 & r). cbn [fst] in H.
  destruct r as [bid|code| |]; cbn [fst]; try exact H. eapply GR_trans; [exact H|apply IH].
Qed.


End WithCfg.

(* ---------------------------------------------------------------- allocator.go, dedicated_list.go, pool.go, allocation.go *)

Section Alloc.

Lemma ded_page_G v lr ty size sub doMap allowed slot ded : GR v (fst (allocate_dedicated_page c v lr ty size sub doMap allowed slot ded)).
Proof.
  unfold allocate_dedicated_page. destruct (alloc_vk c (v_m v) ty size ded) as (m1 & r). destruct r as [mem|code| |]; cbn [fst]; try apply GR_set_m.
  destruct (if doMap then sm_map c m1 mem SyncMem.sm_init else (m1, SyncMem.sm_init, OK tt)) as ((m2 & s) & mr).
  destruct mr as [[]|code| |]; cbn [fst]; try apply GR_set_m.
  - destruct (SyncMem.mapped s && negb allowed) eqn:Epa; cbn [fst]; [apply GR_set_m|].
    eapply GR_trans; [apply GR_set_m|]. eapply GR_trans; [|apply GR_set_m]. apply GR_set_alloc. intros _. apply alloc_gok_ded. reflexivity.
  - destruct (free_vk c m2 ty size mem) as (m3 & fr). apply GR_set_m.
Qed.

Lemma dedicated_loop_G slots : forall v lr ty size sub doMap allowed done ded,
  GR v (fst (fst (dedicated_loop c v lr ty size sub doMap allowed slots done ded))).
Proof.
  induction slots as [|s tl IH]; intros v lr ty size sub doMap allowed done ded; cbn [dedicated_loop]; [apply GR_refl|].
  pose proof (ded_page_G v lr ty size sub doMap allowed s ded) as H.
  destruct (allocate_dedicated_page c v lr ty size sub doMap allowed s ded) as (v1 & r). cbn [fst] in H.
  destruct r as [[]|code| |]; cbn [fst]; try exact H. eapply GR_trans; [exact H|apply IH].
Qed.

Lemma dedicated_rollback_G done : forall v ty, GR v (fst (dedicated_rollback c v ty done)).
Proof.
  induction done as [|s tl IH]; intros v ty; cbn [dedicated_rollback]; [apply GR_refl|].
  destruct (free_vk c (v_m v) ty (a_size (get_alloc v s)) (a_mem (get_alloc v s))) as (m1 & fr).
  destruct fr as [[]|code| |]; cbn [fst]; try apply GR_set_m.
  destruct (remove_allocation c m1 (type_heap c ty) (a_size (get_alloc v s))) as (m2 & rr).
  destruct rr as [[]|code| |]; cbn [fst]; try apply GR_set_m.
  eapply GR_trans; [apply (GR_set_m v m2)|]. eapply GR_trans; [apply (GR_set_alloc (set_m v m2) s (set_allocated (get_alloc v s) false)); intros _; apply alloc_gok_dead; reflexivity|apply IH].
Qed.

Lemma allocate_dedicated_G v lr ty size sub doMap allowed slots ded : GR v (fst (allocate_dedicated c v lr ty size sub doMap allowed slots ded)).
Proof.
  unfold allocate_dedicated. destruct slots as [|s0 tl0] eqn:Es; [apply GR_refl|]. rewrite <- Es.
  pose proof (dedicated_loop_G slots v lr ty size sub doMap allowed [] ded) as H.
  destruct (dedicated_loop c v lr ty size sub doMap allowed slots [] ded) as ((v1 & r) & done). cbn [fst] in H.
  destruct r as [[]|code| |]; cbn [fst]; try exact H.
  - eapply GR_trans; [exact H|apply GR_set_dedlist].
  - pose proof (dedicated_rollback_G done v1 ty) as H2. destruct (dedicated_rollback c v1 ty done) as (v2 & rr). cbn [fst] in *.
    eapply GR_trans; eauto.
Qed.

Lemma calc_type_params_G v ty size count flags : GR v (fst (calc_type_params c v ty size count flags)).
Proof.
  unfold calc_type_params. destruct (_ && _); [|apply GR_refl]. destruct (heap_budget c (v_m v) (type_heap c ty)) as ((m1 & u) & b).
  destruct (_ <? _); apply GR_set_m.
Qed.

Lemma alloc_of_type_G v lr ty size align dedPref flags sub slots ded :
  align = 0 \/ Bits.pow2 align -> GranInv.kind_ok sub -> GR v (fst (alloc_of_type c v lr ty size align dedPref flags sub slots ded)).
Proof.
  intros Hal Hk. unfold alloc_of_type. destruct slots as [|s0 tl0] eqn:Es; [apply GR_refl|]. rewrite <- Es.
  destruct (get_blist v lr) as [l|]; [|apply GR_refl].
  pose proof (calc_type_params_G v ty size (zlen slots) flags) as H1.
  destruct (calc_type_params c v ty size (zlen slots) flags) as (v1 & fr). cbn [fst] in H1.
  destruct fr as [f1|code| |]; cbn [fst]; try exact H1.
  destruct (fl f1 F_DEDICATED); [eapply GR_trans; [exact H1|apply allocate_dedicated_G]|].
  match goal with |- context [let '(v2, early) := ?e in _] => assert (H2 : GR v1 (fst e)); [|destruct e as (v2 & early)] end.
  { match goal with |- context [if ?cnd then _ else (v1, None)] => destruct cnd end; [|apply GR_refl].
    match goal with |- context [allocate_dedicated c v1 lr ty size sub ?dm ?al slots ded] =>
      pose proof (allocate_dedicated_G v1 lr ty size sub dm al slots ded) as H;
      destruct (allocate_dedicated c v1 lr ty size sub dm al slots ded) as (v' & r) end. cbn [fst] in H.
    destruct r as [[]|code| |]; exact H. }
  cbn [fst] in H2.
  assert (K2 : GR v v2) by (eapply GR_trans; eauto).
  destruct early as [r|]; cbn [fst]; [exact K2|].
  pose proof (bl_allocate_G v2 lr slots size align f1 sub Hal Hk) as H3. destruct (bl_allocate c v2 lr slots size align f1 sub) as (v3 & br). cbn [fst] in H3.
  assert (K3 : GR v v3) by (eapply GR_trans; eauto).
  destruct br as [[]|bcode| |]; cbn [fst]; try exact K3.
  match goal with |- context [if ?cnd then _ else (v3, ER bcode)] => destruct cnd end; [|exact K3].
  destruct (heap_budget c (v_m v3) (type_heap c ty)) as ((m4 & u) & b).
  destruct (_ <? _); cbn [fst]; [eapply GR_trans; [exact K3|apply GR_set_m]|].
  eapply GR_trans; [exact K3|]. eapply GR_trans; [apply GR_set_m|apply allocate_dedicated_G].
Qed.

Lemma type_loop_G fuel : forall v bits ty size align dedPref usage flags req pref ctb sub slots ded bufimg,
  align = 0 \/ Bits.pow2 align -> GranInv.kind_ok sub ->
  GR v (fst (type_loop c fuel v bits ty size align dedPref usage flags req pref ctb sub slots ded bufimg)).
Proof.
  induction fuel as [|f IH]; intros v bits ty size align dedPref usage flags req pref ctb sub slots ded bufimg Hal Hk; cbn [type_loop]; [apply GR_refl|].
  destruct (get_blist v (LDef ty)); [|apply GR_refl].
  pose proof (alloc_of_type_G v (LDef ty) ty size align dedPref flags sub slots ded Hal Hk) as H.
  destruct (alloc_of_type c v (LDef ty) ty size align dedPref flags sub slots ded) as (v1 & r). cbn [fst] in H.
  destruct r as [[]|code| |]; cbn [fst]; try exact H. destruct (code =? VK_UNKNOWN); [exact H|].
  destruct (find_type_index c (v_global v1) _ usage flags req pref ctb bufimg) as [ty'|]; [|exact H].
  eapply GR_trans; [exact H|apply IH; auto].
Qed.

Lemma multi_allocate_G v size align typeBits reqDed prefDed ded bufimg usage flags0 req pref ctb pool sub slots :
  GranInv.kind_ok sub ->
  GR v (fst (multi_allocate c v size align typeBits reqDed prefDed ded bufimg usage flags0 req pref ctb pool sub slots)).
Proof.
  intros Hk. unfold multi_allocate. destruct (is_pow2_or_zero align) eqn:Ea; cbn [negb]; [|apply GR_refl]. pose proof (pow2_or_zero_spec _ Ea) as Hal. destruct (size <? 1); [apply GR_refl|].
  destruct (calc_params usage flags0 reqDed _) as [flags|code| |]; try apply GR_refl.
  destruct pool as [uid|].
  - destruct (get_blist v (LPool uid)); [apply alloc_of_type_G; auto|apply GR_refl].
  - destruct (find_type_index c (v_global v) typeBits usage flags req pref ctb bufimg); [apply type_loop_G; auto|apply GR_refl].
Qed.

Lemma allocate_memory_G v slot size align typeBits usage flags req pref ctb pool :
  GR v (fst (allocate_memory c v slot size align typeBits usage flags req pref ctb pool)).
Proof. unfold allocate_memory. destruct (a_allocated _); [apply GR_refl|apply multi_allocate_G; unfold GranInv.kind_ok; lia]. Qed.

Lemma allocate_memory_slice_G v slot n size align typeBits usage flags req pref ctb pool :
  GR v (fst (allocate_memory_slice c v slot n size align typeBits usage flags req pref ctb pool)).
Proof.
  unfold allocate_memory_slice. cbn zeta. destruct (slot_range slot (Z.to_nat n)) as [|s0 tl] eqn:Es; [apply GR_refl|]. rewrite <- Es.
  destruct (existsb _ _); [apply GR_refl|apply multi_allocate_G; unfold GranInv.kind_ok; lia].
Qed.

Lemma free_dedicated_G v slot : GR v (fst (free_dedicated c v slot)).
Proof.
  unfold free_dedicated. destruct (negb _); [apply GR_refl|].
  set (v1 := set_dedlist v _ _).
  destruct (free_vk c (v_m v1) _ _ _) as (m1 & fr). destruct fr as [[]|code| |]; cbn [fst]; try (eapply GR_trans; [apply GR_set_dedlist|apply GR_set_m]).
  destruct (remove_allocation c m1 _ _) as (m2 & rr). cbn [fst]. eapply GR_trans; [apply GR_set_dedlist|apply GR_set_m].
Qed.

Lemma free_single_G v slot : GR v (fst (free_single c v slot)).
Proof. unfold free_single. destruct (_ =? 1); [apply bl_free_G|]. destruct (_ =? 2); [apply free_dedicated_G|apply GR_refl]. Qed.

Lemma multi_free_G slots : forall v, GR v (fst (multi_free c v slots)).
Proof.
  induction slots as [|s tl IH]; intros v; cbn [multi_free]; [apply GR_refl|].
  pose proof (free_single_G v s) as H. destruct (free_single c v s) as (v1 & r). cbn [fst] in H.
  destruct r as [[]|code| |]; cbn [fst]; try exact H. eapply GR_trans; [exact H|]. eapply GR_trans; [apply GR_unallocate|apply IH].
Qed.

End Alloc.

(* ---------------------------------------------------------------- pools *)

(* the lists and Allocation objects of v' are lists and objects of v *)
Lemma GV_sub v v' :
  GV v -> (forall lr l', get_blist v' lr = Some l' -> get_blist v lr = Some l') -> (forall s a, slot_is v' s a -> slot_is v s a) -> GV v'.
Proof.
  intros [A B C] Hl Hs. constructor; eauto. intros s a Sa Ka. destruct (C s a (Hs s a Sa) Ka) as (X1 & X2). split; [exact X1|]. intros l Hg. apply X2. auto.
Qed.

Lemma get_blist_remove_pool' v uid lr :
  lr <> LPool uid -> get_blist (set_pools v (remove_pool (v_pools v) uid)) lr = get_blist v lr.
Proof.
  intros Hne. destruct lr as [t|u]; cbn; [reflexivity|]. rewrite find_remove_pool. destruct (u =? uid) eqn:E; [apply Z.eqb_eq in E; congruence|reflexivity].
Qed.

Lemma GV_remove_pool v uid : NoDup (map p_uid (v_pools v)) -> GV v -> GV (set_pools v (remove_pool (v_pools v) uid)).
Proof.
  intros Hnd K. apply (GV_sub v); [exact K| |intros s a Sa; exact Sa].
  intros lr l' Hg. destruct (lref_eq_dec lr (LPool uid)) as [->|Hne]; [|rewrite get_blist_remove_pool' in Hg by exact Hne; exact Hg].
  cbn in Hg. rewrite (find_remove_pool_same _ _ Hnd) in Hg. discriminate.
Qed.

Section Api.
Hypothesis Hc : cfg_ok c.

Lemma bl_destroy_uids' v lr : map p_uid (v_pools (fst (bl_destroy c v lr))) = map p_uid (v_pools v).
Proof.
  unfold bl_destroy. destruct (get_blist v lr) as [l|]; [|reflexivity]. destruct (existsb _ _); [reflexivity|].
  destruct (destroy_blocks_machine c (bl_blocks l) v (bl_type l)) as (m' & E).
  destruct (destroy_blocks c v (bl_type l) (bl_blocks l)) as (v1 & r). cbn [fst] in E. subst v1.
  destruct r as [[]|code| |]; cbn [fst]; try reflexivity. destruct (get_blist (set_m v m') lr); cbn [fst]; [rewrite set_blist_uids|]; reflexivity.
Qed.

Lemma pool_destroy_G v uid : NoDup (map p_uid (v_pools v)) -> GR v (fst (pool_destroy c v uid)).
Proof.
  intros Hnd K. unfold pool_destroy. destruct (find_pool (v_pools v) uid) as [p|]; [|exact K].
  destruct (p_ded p); [|exact K].
  pose proof (bl_destroy_G v (LPool uid) K) as K1. pose proof (bl_destroy_uids' v (LPool uid)) as U1.
  destruct (bl_destroy c v (LPool uid)) as (v1 & r). cbn [fst] in *.
  destruct r as [[]|code| |]; cbn [fst]; try exact K1.
  apply GV_remove_pool; [rewrite U1; exact Hnd|exact K1].
Qed.

Lemma eff_granularity_ok : gran_ok (eff_granularity c).
Proof.
  split; [apply (eff_granularity_pow2 c Hc)|]. unfold eff_granularity. pose proof (co_gran_max _ Hc). destruct (c_gran c <? 1) eqn:E; [lia|apply Z.ltb_ge in E; lia].
Qed.

(* CreatePool links the new (empty) list under the fresh uid *)
Lemma create_pool_link_G v ty flags minAlign bs minB maxB expl algo :
  ~ In (v_next_uid v) (map p_uid (v_pools v)) ->
  (forall s a, slot_is v s a -> a_kind a = 1 -> a_lref a <> LPool (v_next_uid v)) ->
  (ty <? 0) || (ntypes c <=? ty) = false -> (0 <? minAlign) && negb (is_pow2_or_zero minAlign) = false ->
  GV v ->
  GV (mkVam (v_m v) (v_global v) (v_lists v) (v_ded v)
        (mkPool (v_next_uid v) (v_next_pool_id v)
           (mkBlist ty bs minB maxB (if Z.testbit flags 0 then 1 else eff_granularity c) expl algo
              (if type_min_alignment c ty <? minAlign then minAlign else type_min_alignment c ty) [] 0 true) [] :: v_pools v)
        (v_next_pool_id v + 1) (v_next_uid v + 1) (v_tab v)).
Proof.
  intros Hfresh Hnone Ety Eal K. set (uid := v_next_uid v) in *.
  match goal with |- GV ?w => set (v0 := w) end.
  assert (G0 : forall lr, lr <> LPool uid -> get_blist v0 lr = get_blist v lr).
  { intros lr Hne. destruct lr as [t|u]; [reflexivity|]. cbn. destruct (uid =? u) eqn:E; [apply Z.eqb_eq in E; congruence|reflexivity]. }
  destruct K as [A B C0]. constructor.
  - intros lr l Hg. destruct (lref_eq_dec lr (LPool uid)) as [->|Hne]; [|rewrite G0 in Hg by exact Hne; eauto].
    cbn in Hg. rewrite Z.eqb_refl in Hg. injection Hg as <-. cbn [bl_minalign bl_gran]. split.
    + pose proof (type_min_alignment_pow2 c Hc ty) as Ht. destruct (type_min_alignment c ty <? minAlign) eqn:E; [|auto].
      apply Z.ltb_lt in E. pose proof (Bits.pow2_pos _ Ht). apply andb_false_iff in Eal. destruct Eal as [Eal|Eal].
      * apply Z.ltb_ge in Eal. lia.
      * apply negb_false_iff in Eal. destruct (pow2_or_zero_spec _ Eal); [lia|auto].
    + split; [match goal with |- gran_ok (if ?b then 1 else _) => destruct b end; [split; [apply Bits.pow2_1|lia]|apply eff_granularity_ok]|].
      cbn [bl_type]. unfold type_valid. apply orb_false_iff in Ety. destruct Ety as (E1 & E2). apply Z.ltb_ge in E1. apply Z.leb_gt in E2.
      apply andb_true_iff. split; [apply Z.leb_le; lia|apply Z.ltb_lt; lia].
  - intros lr l b Hg Hb. destruct (lref_eq_dec lr (LPool uid)) as [->|Hne]; [|rewrite G0 in Hg by exact Hne; eauto].
    cbn in Hg. rewrite Z.eqb_refl in Hg. injection Hg as <-. destruct Hb.
  - intros s a Sa Ka. destruct (C0 s a Sa Ka) as (X1 & X2). split; [exact X1|]. intros l Hg. rewrite G0 in Hg by (apply (Hnone s a Sa Ka)). auto.
Qed.

(* CreatePool: a new list appears under the fresh uid; no live block Allocation names it (VamInv: its list would exist) *)
Lemma create_pool_G v ty flags blockSize minB maxB0 minAlign :
  NoDup (map p_uid (v_pools v)) -> ~ In (v_next_uid v) (map p_uid (v_pools v)) ->
  (forall s a, slot_is v s a -> a_kind a = 1 -> a_lref a <> LPool (v_next_uid v)) ->
  GR v (fst (create_pool c v ty flags blockSize minB maxB0 minAlign)).
Proof.
  intros Hnd Hfresh Hnone K. unfold create_pool.
  destruct (_ <? minB); [exact K|]. destruct ((ty <? 0) || (ntypes c <=? ty)) eqn:Ety; [exact K|]. destruct (negb _); [exact K|].
  destruct ((0 <? minAlign) && negb (is_pow2_or_zero minAlign)) eqn:Eal; [exact K|].
  set (uid := v_next_uid v) in *.
  match goal with |- context [create_min_blocks c (Z.to_nat minB) ?w (LPool uid) ?bs] => set (v0 := w); set (bsz := bs) end.
  assert (K0 : GV v0) by (apply create_pool_link_G; auto).
  pose proof (create_min_blocks_G (Z.to_nat minB) v0 (LPool uid) bsz K0) as K1.
  pose proof (VamShapeStep.create_min_blocks_uids c (Z.to_nat minB) v0 (LPool uid) bsz) as U1.
  destruct (create_min_blocks c (Z.to_nat minB) v0 (LPool uid) bsz) as (v1 & r). cbn [fst] in *.
  destruct r as [[]|code| |]; cbn [fst]; try exact K1.
  assert (Hnd1 : NoDup (map p_uid (v_pools v1))).
  { rewrite U1. cbn. constructor; [exact Hfresh|exact Hnd]. }
  pose proof (pool_destroy_G v1 uid Hnd1 K1) as K2. pose proof (bl_destroy_uids' v1 (LPool uid)) as U2.
  assert (Hnd2 : NoDup (map p_uid (v_pools (fst (pool_destroy c v1 uid))))).
  { unfold pool_destroy. destruct (find_pool (v_pools v1) uid); [|exact Hnd1]. destruct (p_ded p); [|exact Hnd1].
    destruct (bl_destroy c v1 (LPool uid)) as (w & rw). cbn [fst] in *. destruct rw as [[]|cw| |]; cbn [fst]; try (rewrite U2; exact Hnd1).
    cbn. apply VamShapeStep.remove_pool_uids_nodup. rewrite U2. exact Hnd1. }
  destruct (pool_destroy c v1 uid) as (v2 & dr). cbn [fst] in *.
  apply (GV_sub (set_pools v2 (remove_pool (v_pools v2) uid))); [apply GV_remove_pool; auto|intros lr l' Hg; destruct lr; exact Hg|intros s a Sa; exact Sa].
Qed.

End Api.

Section Api2.
Hypothesis Hc : cfg_ok c.

Lemma allocation_free_G v slot : GR v (fst (allocation_free c v slot)).
Proof. unfold allocation_free. destruct (negb _); [apply GR_refl|apply multi_free_G]. Qed.

Lemma free_slice_G v slot n : GR v (fst (free_allocation_slice c v slot n)).
Proof. apply multi_free_G. Qed.

(* the SynchronizedMemory inside a dedicated Allocation object is updated *)
Lemma GR_set_sm v m slot s1 : GR v (set_alloc (set_m v m) slot (set_a_sm (get_alloc v slot) s1)).
Proof.
  eapply GR_trans; [apply GR_set_m|]. apply GR_set_alloc. intros HV Ha Hk. cbn [set_a_sm a_allocated a_kind a_sub a_lref a_size] in *.
  destruct (gv_allocs _ HV slot (get_alloc v slot)) as (X1 & X2); [apply slot_is_set_m; apply get_alloc_allocated; exact Ha|exact Hk|].
  split; [exact X1|]. intros l Hg. rewrite get_blist_set_m in *. auto.
Qed.

Lemma allocation_map_G v slot : GR v (fst (allocation_map c v slot)).
Proof.
  unfold allocation_map. destruct (negb _); [apply GR_refl|]. destruct (negb _); [apply GR_refl|]. destruct (_ =? 1).
  - destruct (get_block v _ _) as [b|] eqn:Hgb; [|apply GR_refl].
    destruct (sm_map c (v_m v) (bk_mem b) (bk_sm b)) as ((m1 & s1) & r).
    assert (H : GR v (put_block (set_m v m1) (a_lref (get_alloc v slot)) (mkBlock (bk_id b) (bk_mem b) s1 (bk_meta b)))).
    { eapply GR_trans; [apply GR_set_m|]. eapply GR_put_sm. unfold get_block. rewrite get_blist_set_m. exact Hgb. }
    destruct r as [[]|code| |]; cbn [fst]; try exact H. destruct (find_offset _ _); exact H.
  - destruct (_ =? 2); [|apply GR_refl]. destruct (sm_map c (v_m v) _ _) as ((m1 & s1) & r). apply GR_set_sm.
Qed.

Lemma allocation_unmap_G v slot : GR v (fst (allocation_unmap v slot)).
Proof.
  unfold allocation_unmap. destruct (negb _); [apply GR_refl|]. destruct (_ =? 1).
  - destruct (get_block v _ _) as [b|] eqn:Hgb; [|apply GR_refl].
    destruct (sm_unmap (v_m v) (bk_mem b) (bk_sm b)) as ((m1 & s1) & r). cbn [fst].
    eapply GR_trans; [apply GR_set_m|]. eapply GR_put_sm. unfold get_block. rewrite get_blist_set_m. exact Hgb.
  - destruct (_ =? 2); [|apply GR_refl]. destruct (sm_unmap (v_m v) _ _) as ((m1 & s1) & r). apply GR_set_sm.
Qed.

Lemma allocation_flush_G v inval slot off size : GR v (fst (allocation_flush c v inval slot off size)).
Proof.
  unfold allocation_flush. destruct (negb _); [apply GR_refl|]. destruct (flush_range c v _ off size) as [[(ro & rs)|]|code| |]; try apply GR_refl.
  destruct (dev_flush _ _ _ _ _) as (m1 & code). apply GR_set_m.
Qed.

Lemma harness_rw_G v slot : GR v (fst (harness_rw c v slot)).
Proof.
  unfold harness_rw. pose proof (allocation_map_G v slot) as H. destruct (allocation_map c v slot) as (v1 & r). cbn [fst] in H.
  destruct r as [[]|code| |]; cbn [fst]; try exact H.
  pose proof (allocation_unmap_G v1 slot) as H2. destruct (allocation_unmap v1 slot) as (v2 & ur). cbn [fst] in *. eapply GR_trans; eauto.
Qed.

Lemma bind_memory_G v slot image res off : GR v (fst (bind_memory v slot image res off)).
Proof.
  unfold bind_memory. destruct (res =? 0); [apply GR_refl|]. destruct (negb _); [apply GR_refl|]. destruct (off <? 0); [apply GR_refl|].
  match goal with |- context [match ?t with OK _ => _ | ER _ => _ | PANIC => _ | STUCK => _ end] => destruct t as [o|code| |] end; try apply GR_refl.
  destruct (dev_bind _ _ _ _ _) as (m1 & code). apply GR_set_m.
Qed.

Lemma create_resource_G v slot image kind sub devreq resusage minAlign usage flags req pref ctb pool :
  GranInv.kind_ok sub ->
  GR v (fst (create_resource c v slot image kind sub devreq resusage minAlign usage flags req pref ctb pool)).
Proof.
  intros Hk. unfold create_resource. destruct (dev_create_res (v_m v) image kind devreq) as ((m1 & code) & id).
  destruct (negb _); [apply GR_set_m|]. destruct (get_requirements c m1 image id) as (((m2 & rq) & rd) & pd).
  match goal with |- context [multi_allocate c (set_m v m2) ?a1 ?a2 ?a3 ?a4 ?a5 ?a6 ?a7 usage flags req pref ctb pool sub [slot]] =>
    pose proof (multi_allocate_G (set_m v m2) a1 a2 a3 a4 a5 a6 a7 usage flags req pref ctb pool sub [slot] Hk) as H;
    destruct (multi_allocate c (set_m v m2) a1 a2 a3 a4 a5 a6 a7 usage flags req pref ctb pool sub [slot]) as (v3 & r) end.
  cbn [fst] in H. assert (K3 : GR v v3) by (eapply GR_trans; [apply GR_set_m|exact H]).
  destruct r as [[]|acode| |]; cbn [fst]; try exact K3; [|eapply GR_trans; [exact K3|apply GR_set_m]].
  destruct (fl flags F_DONTBIND); [exact K3|].
  pose proof (bind_memory_G v3 slot image id 0) as H4. destruct (bind_memory v3 slot image id 0) as (v4 & br). cbn [fst] in H4.
  assert (K4 : GR v v4) by (eapply GR_trans; eauto).
  destruct br as [[]|bcode| |]; cbn [fst]; try exact K4.
  assert (H5 : GR v4 (fst (if a_allocated (get_alloc v4 slot) then multi_free c v4 [slot] else (v4, OK tt)))) by (destruct (a_allocated _); [apply multi_free_G|apply GR_refl]).
  destruct (if a_allocated (get_alloc v4 slot) then multi_free c v4 [slot] else (v4, OK tt)) as (v5 & fr). cbn [fst] in *.
  eapply GR_trans; [exact K4|]. eapply GR_trans; [exact H5|apply GR_set_m].
Qed.

Lemma create_buffer_G v slot size devreq bufUsage minAlign usage flags req pref ctb pool :
  GR v (fst (create_buffer c v slot size devreq bufUsage minAlign usage flags req pref ctb pool)).
Proof.
  unfold create_buffer. destruct (a_allocated _); [apply GR_refl|]. destruct (_ && _); [apply GR_refl|]. destruct (size =? 0); [apply GR_refl|].
  destruct (_ && _); [apply GR_refl|apply create_resource_G; unfold GranInv.kind_ok; lia].
Qed.

Lemma create_image_G v slot tiling width devreq imgUsage usage flags req pref ctb pool :
  GR v (fst (create_image c v slot tiling width devreq imgUsage usage flags req pref ctb pool)).
Proof. unfold create_image. destruct (a_allocated _); [apply GR_refl|]. destruct (width =? 0); [apply GR_refl|apply create_resource_G; unfold GranInv.kind_ok; destruct (tiling =? 0); lia]. Qed.

Lemma destroy_with_resource_G v slot image res : GR v (fst (destroy_with_resource c v slot image res)).
Proof. unfold destroy_with_resource. destruct (res =? 0); [apply allocation_free_G|]. eapply GR_trans; [apply GR_set_m|apply allocation_free_G]. Qed.

Lemma allocate_for_resource_G v slot image res usage flags req pref ctb pool :
  GR v (fst (allocate_for_resource c v slot image res usage flags req pref ctb pool)).
Proof.
  unfold allocate_for_resource. destruct (res =? 0); [apply GR_refl|]. destruct (a_allocated _); [apply GR_refl|].
  destruct (get_requirements c (v_m v) image res) as (((m1 & rq) & rd) & pd). eapply GR_trans; [apply GR_set_m|apply multi_allocate_G; unfold GranInv.kind_ok; destruct image; lia].
Qed.

Lemma destroy_lists_G n : forall v t, GR v (fst (destroy_lists c v n t)).
Proof.
  induction n as [|k IH]; intros v t; cbn [destroy_lists]; [apply GR_refl|]. destruct (get_blist v (LDef t)); [|apply IH].
  pose proof (bl_destroy_G v (LDef t)) as H. destruct (bl_destroy c v (LDef t)) as (v1 & r). cbn [fst] in H.
  destruct r as [[]|code| |]; cbn [fst]; try exact H. eapply GR_trans; [exact H|apply IH].
Qed.

Lemma allocator_destroy_G v : GR v (fst (allocator_destroy c v)).
Proof.
  unfold allocator_destroy. destruct (existsb _ (v_ded v)); [apply GR_refl|]. destruct (v_pools v); [|apply GR_refl].
  destruct (existsb _ _); [apply GR_refl|apply destroy_lists_G].
Qed.

Lemma build_stats_string_G v : GR v (fst (build_stats_string c v)).
Proof. unfold build_stats_string. destruct (calculate_statistics c v); [apply GR_set_m|apply GR_refl]. Qed.

(* one API function.  CreatePool needs what VamInv says about pool uids and about the lists of live Allocations *)
Lemma exec_G v o : VamInv c v -> GR v (fst (exec c v o)).
Proof.
  intros HI K.
  assert (Hnd : NoDup (map p_uid (v_pools v))) by apply (vi_pools_nodup _ _ _ _ HI).
  assert (Hfresh : ~ In (v_next_uid v) (map p_uid (v_pools v))).
  { intros Hin. apply in_map_iff in Hin. destruct Hin as (p & E & Hp). pose proof (vi_pools_uid _ _ _ _ HI) as F. rewrite Forall_forall in F. specialize (F p Hp). lia. }
  destruct o; cbn [exec].
  - apply allocate_memory_G; exact K.
  - apply allocate_memory_slice_G; exact K.
  - apply allocation_free_G; exact K.
  - apply free_slice_G; exact K.
  - apply allocation_map_G; exact K.
  - apply allocation_unmap_G; exact K.
  - apply allocation_flush_G; exact K.
  - apply harness_rw_G; exact K.
  - apply (create_pool_G Hc); auto. intros s a Sa Ka E.
    destruct (vi_slots _ _ _ _ HI s a Sa (fun H => H)) as [(_ & l & b & rg & Hg & _)|(K2 & _)]; [|congruence].
    rewrite E in Hg. cbn in Hg. destruct (find_pool (v_pools v) (v_next_uid v)) as [p|] eqn:Ef; [|discriminate].
    apply Hfresh. destruct (find_pool_in _ _ _ Ef) as (Hp & Hu). rewrite <- Hu. apply in_map. exact Hp.
  - apply pool_destroy_G; auto.
  - apply build_stats_string_G; exact K.
  - apply allocator_destroy_G; exact K.
  - apply create_buffer_G; exact K.
  - apply create_image_G; exact K.
  - apply destroy_with_resource_G; exact K.
  - apply allocate_for_resource_G; exact K.
  - apply bind_memory_G; exact K.
  - unfold raw_create. destruct (dev_create_res _ _ _ _) as ((m1 & code) & id). apply GR_set_m; exact K.
  - unfold raw_destroy. apply GR_set_m; exact K.
Qed.

(* vam.New *)
Lemma vam_new_G nslots v : vam_new c nslots = OK v -> GV v.
Proof.
  intros H. pose proof (vam_new_inv c Hc nslots v H) as HI. unfold vam_new in H. destruct (negb _); [discriminate|]. destruct (negb _); [discriminate|]. injection H as <-.
  constructor.
  - intros lr l Hg. pose proof (vi_lists _ _ _ _ HI _ _ Hg) as Hwf. split; [apply (bw_align _ _ Hwf)|]. split; [|apply (bw_type _ _ Hwf)].
    split; [apply (bw_gran _ _ Hwf)|]. destruct (bw_gran_src _ _ Hwf) as [E|E]; rewrite E; [lia|]. apply (eff_granularity_ok Hc).
  - intros lr l b Hg Hb. exfalso. destruct lr as [t|u]; [|cbn in Hg; discriminate]. cbn in Hg.
    destruct (nth_z (init_lists c _ _ 0) t) as [[x|]|] eqn:E; try discriminate. injection Hg as ->.
    destruct (VamInvStep2.init_lists_spec c _ _ _ _ _ E) as (_ & ->). destruct Hb.
  - intros s a (Sa & Aa) _. exfalso. cbn in Sa. apply nth_z_in in Sa. apply repeat_spec in Sa. subst a. discriminate.
Qed.

End Api2.

End GVc.
