(* Budget.v — executable model of the budget counters of vam/internal/vulkan/device_memory.go
   (DeviceMemoryProperties): per-heap blockCount/blockBytes/allocationCount/allocationBytes,
   memoryCount, heap limits, the VK_EXT_memory_budget snapshot, and (second part) the compare-and-swap
   loop of addBlockAllocationWithBudget as a small-step system for concurrent reservers.

   One model step = one call of AllocateVulkanMemory / FreeVulkanMemory / AddAllocation /
   RemoveAllocation / HeapBudget.  The driver's answers are inputs of the step: [fault] of OAllocMem
   (vkAllocateMemory fails), [report] of OHeapBudget (what vkGetPhysicalDeviceMemoryProperties2 would
   report per heap, used only if HeapBudget decides to refetch).

   Integer types: memoryCount and operationsSinceBudgetFetch are uint32 (wrap mod 2^32; the decrement
   is written in Go as Add(^uint32(0))), blockCount/allocationCount are int32 and
   blockBytes/allocationBytes int64 (wrap, Go semantics).  Sizes are Go ints (64 bit).
   Go panics are explicit (BPanic) with the partially updated state the panic leaves behind. *)
From Coq Require Import ZArith List Bool Lia.
Import ListNotations.
Open Scope Z_scope.

Definition wrap_u32 (x : Z) : Z := x mod 4294967296.
Definition wrap_i32 (x : Z) : Z := (x + 2147483648) mod 4294967296 - 2147483648.
Definition wrap_i64 (x : Z) : Z := (x + 9223372036854775808) mod 18446744073709551616 - 9223372036854775808.

Record bcfg := mkCfg {
  nHeaps : Z;
  heapSize : Z -> Z;      (* memoryProperties.MemoryHeaps[h].Size *)
  heapLimit : Z -> Z;     (* heapLimits[h]; 0 = no limit *)
  maxCount : Z;           (* deviceProperties.Limits.MaxMemoryAllocationCount *)
  budgetExt : bool        (* extensions.UseMemoryBudget *)
}.

Record hc := mkHc { bc : Z; ac : Z; bb : Z; ab : Z }.

Record bstate := mkB {
  heaps : Z -> hc;
  memCount : Z;           (* memoryCount *)
  opsSince : Z;           (* operationsSinceBudgetFetch *)
  vUsage : Z -> Z;        (* vulkanUsage *)
  vBudget : Z -> Z;       (* vulkanBudget *)
  bbAtFetch : Z -> Z      (* blockBytesAtBudgetFetch *)
}.

Definition upd {A} (f : Z -> A) (h : Z) (v : A) : Z -> A := fun x => if x =? h then v else f x.

Definition set_heap (s : bstate) (h : Z) (v : hc) : bstate :=
  mkB (upd (heaps s) h v) (memCount s) (opsSince s) (vUsage s) (vBudget s) (bbAtFetch s).
Definition set_memCount (s : bstate) (n : Z) : bstate :=
  mkB (heaps s) n (opsSince s) (vUsage s) (vBudget s) (bbAtFetch s).
Definition set_ops (s : bstate) (n : Z) : bstate :=
  mkB (heaps s) (memCount s) n (vUsage s) (vBudget s) (bbAtFetch s).

Definition set_bc (c : hc) (v : Z) : hc := mkHc v (ac c) (bb c) (ab c).
Definition set_ac (c : hc) (v : Z) : hc := mkHc (bc c) v (bb c) (ab c).
Definition set_bb (c : hc) (v : Z) : hc := mkHc (bc c) (ac c) v (ab c).
Definition set_ab (c : hc) (v : Z) : hc := mkHc (bc c) (ac c) (bb c) v.

Inductive bop :=
| OAllocMem (heap size : Z) (fault : bool)
| OFreeMem (heap size : Z)
| OAddAlloc (heap size : Z)
| ORemoveAlloc (heap size : Z)
| OHeapBudget (heap : Z) (report : Z -> Z * Z).   (* report h = (heapUsage, heapBudget) *)

Inductive bcall := BAlloc (ok : bool) | BFreeCall | BFetch.

Inductive bres :=
| BOk
| BErrTooManyObjects       (* count limit, the driver is not called *)
| BErrOutOfDeviceMemory    (* heap limit, the driver is not called *)
| BErrDriver               (* vkAllocateMemory failed *)
| BPanic
| BBudget (blockCount allocCount blockBytes allocBytes usage budget : Z).

(* memoryCount.Add(^uint32(0)) *)
Definition dec_u32 (x : Z) : Z := wrap_u32 (x + 4294967295).

(* removeBlockAllocation: returns the state and whether it panicked *)
Definition remove_block (s : bstate) (h size : Z) : bstate * bool :=
  let c := heaps s h in
  let nb := wrap_i64 (bb c + wrap_i64 (- size)) in
  let s1 := set_heap s h (set_bb c nb) in
  if nb <? 0 then (s1, true)
  else
    let c1 := heaps s1 h in
    let nc := wrap_i32 (bc c1 - 1) in
    let s2 := set_heap s1 h (set_bc c1 nc) in
    if nc <? 0 then (s2, true) else (s2, false).

Definition alloc_mem (cfg : bcfg) (s : bstate) (h size : Z) (fault : bool) : bstate * bres * list bcall :=
  let mc1 := wrap_u32 (memCount s + 1) in
  let s1 := set_memCount s mc1 in
  let rollback_count (x : bstate) := set_memCount x (dec_u32 (memCount x)) in
  if maxCount cfg <? mc1 then (rollback_count s1, BErrTooManyObjects, [])
  else
    let c := heaps s1 h in
    let limit := heapLimit cfg h in
    let reserved : option bstate :=
      if limit =? 0 then
        (* addBlockAllocation *)
        Some (set_heap s1 h (set_bc (set_bb c (wrap_i64 (bb c + size))) (wrap_i32 (bc c + 1))))
      else
        (* addBlockAllocationWithBudget, sequential: the CAS succeeds at once *)
        let maxSize := if heapSize cfg h <? limit then heapSize cfg h else limit in
        let target := wrap_i64 (bb c + size) in
        if maxSize <? target then None
        else Some (set_heap s1 h (set_bc (set_bb c target) (wrap_i32 (bc c + 1)))) in
    match reserved with
    | None => (rollback_count s1, BErrOutOfDeviceMemory, [])
    | Some s2 =>
      if fault then
        (* deferred functions, last registered first: block rollback (may panic), count rollback *)
        let '(s3, p) := remove_block s2 h size in
        (rollback_count s3, (if p then BPanic else BErrDriver), [BAlloc false])
      else (set_ops s2 (wrap_u32 (opsSince s2 + 1)), BOk, [BAlloc true])
    end.

Definition free_mem (s : bstate) (h size : Z) : bstate * bres * list bcall :=
  let '(s1, p) := remove_block s h size in
  if p then (s1, BPanic, [BFreeCall])
  else (set_memCount s1 (dec_u32 (memCount s1)), BOk, [BFreeCall]).

Definition count_op (cfg : bcfg) (s : bstate) : bstate :=
  if budgetExt cfg then set_ops s (wrap_u32 (opsSince s + 1)) else s.

Definition add_alloc (cfg : bcfg) (s : bstate) (h size : Z) : bstate * bres * list bcall :=
  let c := heaps s h in
  let s1 := set_heap s h (set_ac (set_ab c (wrap_i64 (ab c + size))) (wrap_i32 (ac c + 1))) in
  (count_op cfg s1, BOk, []).

Definition remove_alloc (cfg : bcfg) (s : bstate) (h size : Z) : bstate * bres * list bcall :=
  let c := heaps s h in
  let nb := wrap_i64 (ab c + wrap_i64 (- size)) in
  let s1 := set_heap s h (set_ab c nb) in
  if nb <? 0 then (s1, BPanic, [])
  else
    let c1 := heaps s1 h in
    let nc := wrap_i32 (ac c1 - 1) in
    let s2 := set_heap s1 h (set_ac c1 nc) in
    if nc <? 0 then (s2, BPanic, []) else (count_op cfg s2, BOk, []).

Definition guess_budget (cfg : bcfg) (h : Z) : Z := Z.quot (wrap_i64 (heapSize cfg h * 8)) 10.

(* UpdateVulkanBudget *)
Definition update_budget (cfg : bcfg) (s : bstate) (report : Z -> Z * Z) : bstate :=
  let inr (i : Z) := (0 <=? i) && (i <? nHeaps cfg) in
  let at_ (i : Z) := bb (heaps s i) in
  let nu (i : Z) :=
    let u := fst (report i) in
    if (u =? 0) && (0 <? at_ i) then at_ i else u in
  let nb (i : Z) :=
    let b := snd (report i) in
    if b =? 0 then guess_budget cfg i
    else if heapSize cfg i <? b then heapSize cfg i else b in
  mkB (heaps s) (memCount s) 0
      (fun i => if inr i then nu i else vUsage s i)
      (fun i => if inr i then nb i else vBudget s i)
      (fun i => if inr i then at_ i else bbAtFetch s i).

Definition heap_budget (cfg : bcfg) (s : bstate) (h : Z) (report : Z -> Z * Z) : bstate * bres * list bcall :=
  let refetch := budgetExt cfg && (30 <? opsSince s) in
  let s1 := if refetch then update_budget cfg s report else s in
  let c := heaps s1 h in
  let usage_budget :=
    if negb (budgetExt cfg) then (bb c, guess_budget cfg h)
    else
      let old := bbAtFetch s1 h in
      let u := if old <? vUsage s1 h + bb c then vUsage s1 h + bb c - old else 0 in
      let b := if heapSize cfg h <? vBudget s1 h then heapSize cfg h else vBudget s1 h in
      (u, b) in
  (s1, BBudget (bc c) (ac c) (bb c) (ab c) (fst usage_budget) (snd usage_budget),
   if refetch then [BFetch] else []).

Definition bstep (cfg : bcfg) (s : bstate) (o : bop) : bstate * bres * list bcall :=
  match o with
  | OAllocMem h sz f => alloc_mem cfg s h sz f
  | OFreeMem h sz => free_mem s h sz
  | OAddAlloc h sz => add_alloc cfg s h sz
  | ORemoveAlloc h sz => remove_alloc cfg s h sz
  | OHeapBudget h rep => heap_budget cfg s h rep
  end.

Definition hc0 : hc := mkHc 0 0 0 0.
Definition bzero : bstate := mkB (fun _ => hc0) 0 0 (fun _ => 0) (fun _ => 0) (fun _ => 0).

(* NewDeviceMemoryProperties: with the extension the budget is fetched once *)
Definition binit (cfg : bcfg) (report : Z -> Z * Z) : bstate :=
  if budgetExt cfg then update_budget cfg bzero report else bzero.

(* ------------------------------------------------------------------ configuration from lists *)

Definition lookup (l : list Z) (h : Z) : Z := nth (Z.to_nat h) l 0.

Definition cfg_of_lists (sizes limits : list Z) (maxc : Z) (ext : bool) : bcfg :=
  mkCfg (Z.of_nat (length sizes)) (lookup sizes) (lookup limits) maxc ext.

(* ------------------------------------------------------------------ the simulated device (trace driver) *)

(* Mirrors the simulated device of the harness (simvk): ground truth about live memory objects, natural
   refusals (heap exhausted, too many objects), the reported budget, violation count. *)
Record bdev := mkBdev {
  dv_live : list (Z * (Z * Z));   (* object number, heap, size *)
  dv_next : Z;                    (* number of objects ever created *)
  dv_viol : Z
}.

Record simcfg := mkSim {
  sim_other : list Z;      (* bytes used by "other processes" per heap *)
  sim_hbudget : list Z     (* budget the OS reports per heap *)
}.

Definition bdev_init : bdev := mkBdev [] 0 0.

Fixpoint dv_bytes (l : list (Z * (Z * Z))) (h : Z) : Z :=
  match l with
  | [] => 0
  | (_, (h', sz)) :: tl => (if h' =? h then sz else 0) + dv_bytes tl h
  end.

Definition dv_count (l : list (Z * (Z * Z))) : Z := Z.of_nat (length l).

Fixpoint dv_find (l : list (Z * (Z * Z))) (k : Z) : option (Z * Z) :=
  match l with
  | [] => None
  | (k', hs) :: tl => if k' =? k then Some hs else dv_find tl k
  end.

Fixpoint dv_remove (l : list (Z * (Z * Z))) (k : Z) : list (Z * (Z * Z)) :=
  match l with
  | [] => []
  | (k', hs) :: tl => if k' =? k then tl else (k', hs) :: dv_remove tl k
  end.

(* would vkAllocateMemory fail? (second component: the call itself is a valid-usage violation) *)
Definition dev_alloc_fails (cfg : bcfg) (d : bdev) (h size : Z) (fault : bool) : bool * bool :=
  if size <=? 0 then (true, true)
  else if fault then (true, false)
  else if (0 <? maxCount cfg) && (maxCount cfg <? dv_count (dv_live d) + 1) then (true, false)
  else if heapSize cfg h <? dv_bytes (dv_live d) h + size then (true, false)
  else (false, false).

Definition dev_report (sc : simcfg) (d : bdev) (h : Z) : Z * Z :=
  (lookup (sim_other sc) h + dv_bytes (dv_live d) h, lookup (sim_hbudget sc) h).

(* the trace-level operations: objects are named by their creation number *)
Inductive sop :=
| SAlloc (heap size : Z) (fault : bool)
| SFree (k heap size : Z)
| SAdd (heap size : Z)
| SRemove (heap size : Z)
| SBudget (heap : Z).

Inductive sres := SRes (r : bres) (k : Z) | SNoLive.

Definition sim_bstep (cfg : bcfg) (sc : simcfg) (w : bstate * bdev) (o : sop)
  : (bstate * bdev) * sres * list bcall :=
  let '(s, d) := w in
  match o with
  | SAlloc h sz f =>
    (* the code decides first whether the driver is called at all; the device's answer only matters then *)
    let '(fails, viol) := dev_alloc_fails cfg d h sz f in
    let '(s', r, cs) := bstep cfg s (OAllocMem h sz fails) in
    match cs with
    | [] => ((s', d), SRes r (-1), cs)
    | _ =>
      if fails then ((s', mkBdev (dv_live d) (dv_next d) (dv_viol d + (if viol then 1 else 0))), SRes r (-1), cs)
      else ((s', mkBdev (dv_live d ++ [(dv_next d, (h, sz))]) (dv_next d + 1) (dv_viol d)), SRes r (dv_next d), cs)
    end
  | SFree k h sz =>
    if (k <? 0) || (dv_next d <=? k) then (w, SNoLive, [])
    else
      let '(s', r, cs) := bstep cfg s (OFreeMem h sz) in
      let d' := match dv_find (dv_live d) k with
                | Some _ => mkBdev (dv_remove (dv_live d) k) (dv_next d) (dv_viol d)
                | None => mkBdev (dv_live d) (dv_next d) (dv_viol d + 1)
                end in
      ((s', d'), SRes r k, cs)
  | SAdd h sz => let '(s', r, cs) := bstep cfg s (OAddAlloc h sz) in ((s', d), SRes r (-1), cs)
  | SRemove h sz => let '(s', r, cs) := bstep cfg s (ORemoveAlloc h sz) in ((s', d), SRes r (-1), cs)
  | SBudget h => let '(s', r, cs) := bstep cfg s (OHeapBudget h (dev_report sc d)) in ((s', d), SRes r (-1), cs)
  end.

Definition sim_binit (cfg : bcfg) (sc : simcfg) : bstate * bdev :=
  (binit cfg (dev_report sc bdev_init), bdev_init).

(* ------------------------------------------------------------------ the CAS loop, small-step *)

(* N threads reserve bytes of one heap concurrently with addBlockAllocationWithBudget and give them
   back with removeBlockAllocation.  One scheduled step of a thread is one atomic access to blockBytes:
     PLoad     currentVal := blockBytes.Load(); compute targetVal; fail if over the limit
     PCas cur  blockBytes.CompareAndSwap(cur, cur+size): on success the thread holds its bytes,
               on failure it goes back to PLoad (the for loop)
     PHold     blockBytes.Add(-size) (the free, or the rollback after a failed vkAllocateMemory)
     PFail     the reservation was refused; scheduled again the thread starts a new attempt
   A schedule is a list of thread numbers.  (Z arithmetic: no int64 overflow in this part.) *)
Inductive phase := PLoad | PCas (cur : Z) | PHold | PFail.

Record cas_state := mkCas { c_bb : Z; c_ph : list phase }.

Fixpoint set_nth {A} (n : nat) (v : A) (l : list A) : list A :=
  match l, n with
  | [], _ => []
  | _ :: tl, O => v :: tl
  | x :: tl, S n' => x :: set_nth n' v tl
  end.

Definition cas_step (maxv : Z) (sizes : list Z) (st : cas_state) (t : nat) : cas_state :=
  match nth_error (c_ph st) t, nth_error sizes t with
  | Some ph, Some sz =>
    match ph with
    | PLoad =>
      let cur := c_bb st in
      if maxv <? cur + sz then mkCas (c_bb st) (set_nth t PFail (c_ph st))
      else mkCas (c_bb st) (set_nth t (PCas cur) (c_ph st))
    | PCas cur =>
      if c_bb st =? cur then mkCas (cur + sz) (set_nth t PHold (c_ph st))
      else mkCas (c_bb st) (set_nth t PLoad (c_ph st))
    | PHold => mkCas (c_bb st - sz) (set_nth t PLoad (c_ph st))
    | PFail => mkCas (c_bb st) (set_nth t PLoad (c_ph st))
    end
  | _, _ => st
  end.

Definition cas_init (bb0 : Z) (n : nat) : cas_state := mkCas bb0 (repeat PLoad n).

Definition cas_run (maxv : Z) (sizes : list Z) (st : cas_state) (sched : list nat) : cas_state :=
  fold_left (cas_step maxv sizes) sched st.

(* bytes held by the threads whose reservation succeeded and was not given back *)
Fixpoint held (phs : list phase) (sizes : list Z) : Z :=
  match phs, sizes with
  | ph :: pt, sz :: st => (match ph with PHold => sz | _ => 0 end) + held pt st
  | _, _ => 0
  end.
