(* Gran.v — model of vam/granularity.go (blockBufferImageGranularity) and of the accept-all
   handler used by memutils' own tests.  State: one (allocType, allocCount) pair per page;
   allocCount is a uint32 in Go, the wrap is written out as mod 2^32. *)
From Coq Require Import ZArith List Bool Lia.
From Arsenal Require Import Util.
Import ListNotations.
Open Scope Z_scope.

Inductive handler := HFake | HVam.

Record gran := mkGran {
  g_h : handler;
  g_g : Z;                      (* bufferImageGranularity *)
  g_regions : list (Z * Z)      (* (allocType, allocCount) per page; [] when disabled *)
}.

(* suballocationType: 0 Free 1 Unknown 2 Buffer 3 ImageUnknown 4 ImageLinear 5 ImageOptimal *)
Definition conflict (a b : Z) : bool :=
  let lo := Z.min a b in
  let hi := Z.max a b in
  if lo =? 0 then false
  else if lo =? 1 then true
  else if lo =? 2 then (hi =? 3) || (hi =? 5)
  else if lo =? 3 then (hi =? 3) || (hi =? 4) || (hi =? 5)
  else if lo =? 4 then (hi =? 5)
  else false.

Definition allocations_conflict (g : gran) (a b : Z) : bool :=
  match g_h g with HFake => false | HVam => conflict a b end.

Definition enabled (g : gran) : bool :=
  match g_h g with HFake => false | HVam => g_g g >? 256 end.

Definition gran_init (h : handler) (gr size : Z) : gran :=
  let g0 := mkGran h gr [] in
  if enabled g0 then
    let count := size / gr + (if size mod gr >? 0 then 1 else 0) in
    mkGran h gr (repeat (0, 0) (Z.to_nat count))
  else g0.

Definition gran_clear (g : gran) : gran :=
  mkGran (g_h g) (g_g g) (repeat (0, 0) (length (g_regions g))).

Definition round_up (g : gran) (atype size align : Z) : Z * Z :=
  match g_h g with
  | HFake => (size, align)
  | HVam =>
    if g_g g >? 1 then
      let image_round := (g_g g <=? 256) && (atype =? 5) in
      let general_round := (atype =? 3) || (atype =? 1) in
      if image_round || general_round then
        ((align_up size (g_g g)), (if align <? g_g g then g_g g else align))
      else (size, align)
    else (size, align)
  end.

Definition slot_of (g : gran) (off : Z) : Z :=
  Z.shiftr (Z.land off (Z.lnot (g_g g - 1))) (Z.log2 (g_g g)).
Definition start_slot (g : gran) (off : Z) : Z := slot_of g off.
Definition end_slot (g : gran) (off size : Z) : Z := slot_of g (off + size - 1).

Definition region_at (g : gran) (slot : Z) : option (Z * Z) :=
  if slot <? 0 then None else nth_error (g_regions g) (Z.to_nat slot).

Definition slot_conflicts (r : Z * Z) (atype : Z) : bool :=
  (snd r >? 0) && conflict (fst r) atype.

(* result: None = Go would panic (index out of range) *)
Definition check_conflict (g : gran) (allocOffset allocSize regionOffset regionSize atype : Z)
  : option (Z * bool) :=
  if negb (enabled g) then Some (allocOffset, false) else
  let end_check (off st : Z) : option (Z * bool) :=
    let e := end_slot g off allocSize in
    if e =? st then Some (off, false) else
    match region_at g e with
    | None => None
    | Some r => Some (off, slot_conflicts r atype)
    end in
  let st := start_slot g allocOffset in
  match region_at g st with
  | None => None
  | Some r =>
    if slot_conflicts r atype then
      let off' := align_up allocOffset (g_g g) in
      if regionSize <? allocSize + off' - regionOffset then Some (off', true) else
      let st' := start_slot g off' in
      match region_at g st' with
      | None => None
      | Some r' => if slot_conflicts r' atype then Some (off', true) else end_check off' st'
      end
    else end_check allocOffset st
  end.

Definition alloc_one (atype : Z) (r : Z * Z) : Z * Z :=
  let '(ty, cnt) := r in
  let ty' := if (cnt =? 0) || ((cnt >? 0) && (ty =? 0)) then atype else ty in
  (ty', (cnt + 1) mod 4294967296).

Definition free_one (r : Z * Z) : Z * Z :=
  let '(ty, cnt) := r in
  let cnt' := (cnt - 1) mod 4294967296 in
  ((if cnt' =? 0 then 0 else ty), cnt').

Definition upd_region (g : gran) (slot : Z) (f : Z * Z -> Z * Z) : option gran :=
  match region_at g slot with
  | None => None
  | Some _ => Some (mkGran (g_h g) (g_g g) (update_nth (Z.to_nat slot) f (g_regions g)))
  end.

Definition alloc_regions (g : gran) (atype off size : Z) : option gran :=
  if negb (enabled g) then Some g else
  let s := start_slot g off in
  match upd_region g s (alloc_one atype) with
  | None => None
  | Some g1 =>
    let e := end_slot g off size in
    if s =? e then Some g1 else upd_region g1 e (alloc_one atype)
  end.

Definition free_regions (g : gran) (off size : Z) : option gran :=
  if negb (enabled g) then Some g else
  let s := start_slot g off in
  match upd_region g s free_one with
  | None => None
  | Some g1 =>
    let e := end_slot g off size in
    if s =? e then Some g1 else upd_region g1 e free_one
  end.

(* Validation: counts per page recomputed from the allocations (offset,size) given. *)
Definition vcount_one (g : gran) (acc : option (list Z * bool)) (a : Z * Z) : option (list Z * bool) :=
  match acc with
  | None => None
  | Some (cnts, ok) =>
    let '(off, size) := a in
    let s := start_slot g off in
    match region_at g s with
    | None => None
    | Some rs =>
      let cnts1 := update_nth (Z.to_nat s) (fun c => (c + 1) mod 4294967296) cnts in
      let ok1 := ok && (1 <=? snd rs) in
      let e := end_slot g off size in
      if s =? e then Some (cnts1, ok1) else
      match region_at g e with
      | None => None
      | Some re => Some (update_nth (Z.to_nat e) (fun c => (c + 1) mod 4294967296) cnts1, ok1 && (1 <=? snd re))
      end
    end
  end.

Fixpoint list_eqb_z (a b : list Z) : bool :=
  match a, b with
  | [], [] => true
  | x :: xs, y :: ys => (x =? y) && list_eqb_z xs ys
  | _, _ => false
  end.

(* Some true = no error, Some false = error reported, None = panic *)
Definition gran_validate (g : gran) (allocs : list (Z * Z)) : option bool :=
  if negb (enabled g) then Some true else
  match fold_left (vcount_one g) allocs (Some (repeat 0 (length (g_regions g)), true)) with
  | None => None
  | Some (cnts, ok) => Some (ok && list_eqb_z cnts (map snd (g_regions g)))
  end.
