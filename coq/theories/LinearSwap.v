(* LinearSwap.v — firstVectorIndex is unobservable: exchanging the two physical slices together with
   the index (`flip`) commutes with every operation of the linear block metadata model, hence two
   states with the same first/second vectors and the same other fields (`eqv`) produce equal
   outcomes and eqv states under every step.  Second half of C18 for the linear metadata. *)
From Coq Require Import ZArith List Bool Lia.
From Arsenal Require Import Util Gran Linear.
Import ListNotations.
Open Scope Z_scope.

Definition flip (l : linear) : linear :=
  mkL (l_size l) (l_gran l) (l_h l) (l_v1 l) (l_v0 l) (negb (l_swapped l)) (l_mode l) (l_sum_free l)
      (l_null_begin l) (l_null_middle l) (l_null_second l).

Ltac by_cases_l l := destruct l as [? ? ? ? ? [] ? ? ? ? ?]; reflexivity.

Lemma flip_flip l : flip (flip l) = l. Proof. by_cases_l l. Qed.

(* fields *)
Lemma first_flip l : first (flip l) = first l. Proof. by_cases_l l. Qed.
Lemma second_flip l : second (flip l) = second l. Proof. by_cases_l l. Qed.
Lemma l_mode_flip l : l_mode (flip l) = l_mode l. Proof. reflexivity. Qed.
Lemma l_sum_free_flip l : l_sum_free (flip l) = l_sum_free l. Proof. reflexivity. Qed.
Lemma l_null_begin_flip l : l_null_begin (flip l) = l_null_begin l. Proof. reflexivity. Qed.
Lemma l_null_middle_flip l : l_null_middle (flip l) = l_null_middle l. Proof. reflexivity. Qed.
Lemma l_null_second_flip l : l_null_second (flip l) = l_null_second l. Proof. reflexivity. Qed.
Lemma l_size_flip l : l_size (flip l) = l_size l. Proof. reflexivity. Qed.
Lemma l_gran_flip l : l_gran (flip l) = l_gran l. Proof. reflexivity. Qed.
Lemma l_h_flip l : l_h (flip l) = l_h l. Proof. reflexivity. Qed.

(* updates *)
Lemma with_first_flip l v : with_first (flip l) v = flip (with_first l v). Proof. by_cases_l l. Qed.
Lemma with_second_flip l v : with_second (flip l) v = flip (with_second l v). Proof. by_cases_l l. Qed.
Lemma with_mode_flip l m : with_mode (flip l) m = flip (with_mode l m). Proof. by_cases_l l. Qed.
Lemma with_sum_free_flip l f : with_sum_free (flip l) f = flip (with_sum_free l f). Proof. by_cases_l l. Qed.
Lemma with_nulls_flip l a b c : with_nulls (flip l) a b c = flip (with_nulls l a b c). Proof. by_cases_l l. Qed.
Lemma swap_vectors_flip l : swap_vectors (flip l) = flip (swap_vectors l). Proof. by_cases_l l. Qed.
Lemma lin_clear_flip l : lin_clear (flip l) = flip (lin_clear l). Proof. by_cases_l l. Qed.

(* observers *)
Lemma allocation_count_flip l : allocation_count (flip l) = allocation_count l. Proof. by_cases_l l. Qed.
Lemma is_empty_flip l : is_empty (flip l) = is_empty l. Proof. by_cases_l l. Qed.
Lemma should_compact_flip l : should_compact (flip l) = should_compact l. Proof. by_cases_l l. Qed.
Lemma cmp_first_flip l o : cmp_first (flip l) o = cmp_first l o. Proof. by_cases_l l. Qed.
Lemma cmp_second_flip l o : cmp_second (flip l) o = cmp_second l o. Proof. by_cases_l l. Qed.
Lemma find_suballocation_flip l o : find_suballocation (flip l) o = find_suballocation l o. Proof. by_cases_l l. Qed.
Lemma may_have_free_flip l a s : may_have_free (flip l) a s = may_have_free l a s. Proof. reflexivity. Qed.
Lemma create_request_flip l s a u t st mo :
  create_request (flip l) s a u t st mo = create_request l s a u t st mo.
Proof. by_cases_l l. Qed.

Global Hint Rewrite
  first_flip second_flip l_mode_flip l_sum_free_flip l_null_begin_flip l_null_middle_flip
  l_null_second_flip l_size_flip l_gran_flip l_h_flip
  with_first_flip with_second_flip with_mode_flip with_sum_free_flip with_nulls_flip swap_vectors_flip
  lin_clear_flip allocation_count_flip is_empty_flip should_compact_flip cmp_first_flip cmp_second_flip
  find_suballocation_flip may_have_free_flip create_request_flip : flipdb.

(* state transformers *)
Definition map_try (f : linear -> linear) (t : tryres) : tryres :=
  match t with TDone l => TDone (f l) | TSkip => TSkip | TPanic => TPanic end.
Definition map_free (f : linear -> linear) (t : freeres) : freeres :=
  match t with FOk l => FOk (f l) | FError => FError | FPanic => FPanic end.
Definition map_set (f : linear -> linear) (t : setres) : setres :=
  match t with SetOk l => SetOk (f l) | SetError => SetError | SetPanic => SetPanic end.
Definition map_alloc (f : linear -> linear) (t : allocres) : allocres :=
  match t with AOk l => AOk (f l) | AError => AError | APanic => APanic end.

Ltac flip_simpl := cbn [option_map map_try map_free map_set map_alloc or_try]; autorewrite with flipdb.
Ltac flip_step :=
  match goal with
  | |- context [match ?c with _ => _ end] =>
    lazymatch c with
    | option_map _ _ => fail
    | map_try _ _ => fail
    | map_free _ _ => fail
    | map_set _ _ => fail
    | map_alloc _ _ => fail
    | _ => destruct c eqn:?; flip_simpl
    end
  end.
Ltac flip_tac := flip_simpl; repeat flip_step; try reflexivity.

Lemma compact_first_flip l : compact_first (flip l) = option_map flip (compact_first l).
Proof. unfold compact_first. flip_tac. Qed.
Global Hint Rewrite compact_first_flip : flipdb.

Lemma swap_if_ring_flip l : swap_if_ring (flip l) = option_map flip (swap_if_ring l).
Proof. unfold swap_if_ring. flip_tac. Qed.
Global Hint Rewrite swap_if_ring_flip : flipdb.

Lemma first_became_empty_flip l : first_became_empty (flip l) = option_map flip (first_became_empty l).
Proof. unfold first_became_empty. flip_tac. Qed.
Global Hint Rewrite first_became_empty_flip : flipdb.

Lemma cleanup_flip l : cleanup_after_free (flip l) = option_map flip (cleanup_after_free l).
Proof. unfold cleanup_after_free. flip_tac. Qed.
Global Hint Rewrite cleanup_flip : flipdb.

Lemma finish_free_flip l : finish_free (flip l) = map_try flip (finish_free l).
Proof. unfold finish_free. flip_tac. Qed.
Global Hint Rewrite finish_free_flip : flipdb.

Lemma free_first_item_flip l o : free_first_item (flip l) o = map_try flip (free_first_item l o).
Proof. unfold free_first_item. flip_tac. Qed.
Lemma free_last_item_flip l o : free_last_item (flip l) o = map_try flip (free_last_item l o).
Proof. unfold free_last_item. flip_tac. Qed.
Lemma free_middle_first_flip l o : free_middle_first (flip l) o = map_try flip (free_middle_first l o).
Proof. unfold free_middle_first. flip_tac. Qed.
Lemma free_middle_second_flip l o : free_middle_second (flip l) o = map_try flip (free_middle_second l o).
Proof. unfold free_middle_second. flip_tac. Qed.
Global Hint Rewrite free_first_item_flip free_last_item_flip free_middle_first_flip free_middle_second_flip : flipdb.

Lemma lin_free_flip l h : lin_free (flip l) h = map_free flip (lin_free l h).
Proof.
  unfold lin_free. autorewrite with flipdb.
  destruct (free_first_item l (h - 1)); cbn [map_try or_try map_free]; try reflexivity.
  destruct (free_last_item l (h - 1)); cbn [map_try or_try map_free]; try reflexivity.
  destruct (free_middle_first l (h - 1)); cbn [map_try or_try map_free]; try reflexivity.
  destruct (free_middle_second l (h - 1)); reflexivity.
Qed.

Lemma set_user_data_flip l h t : set_user_data (flip l) h t = map_set flip (set_user_data l h t).
Proof. unfold set_user_data. flip_tac. Qed.

Lemma get_user_data_flip l h : get_user_data (flip l) h = get_user_data l h.
Proof. unfold get_user_data. flip_tac. Qed.

Lemma alloc_upper_flip l x : alloc_upper (flip l) x = map_alloc flip (alloc_upper l x).
Proof. unfold alloc_upper. flip_tac. Qed.
Lemma alloc_end_of_first_flip l x : alloc_end_of_first (flip l) x = map_alloc flip (alloc_end_of_first l x).
Proof. unfold alloc_end_of_first. flip_tac. Qed.
Lemma alloc_end_of_second_flip l x : alloc_end_of_second (flip l) x = map_alloc flip (alloc_end_of_second l x).
Proof. unfold alloc_end_of_second. flip_tac. Qed.
Global Hint Rewrite alloc_upper_flip alloc_end_of_first_flip alloc_end_of_second_flip : flipdb.

Lemma alloc_flip l r ty tag rs ra : alloc (flip l) r ty tag rs ra = map_alloc flip (alloc l r ty tag rs ra).
Proof.
  unfold alloc. destruct (rq_type r); autorewrite with flipdb; try reflexivity.
  - destruct (alloc_upper l _); cbn [map_alloc]; autorewrite with flipdb; reflexivity.
  - destruct (alloc_end_of_first l _); cbn [map_alloc]; autorewrite with flipdb; reflexivity.
  - destruct (alloc_end_of_second l _); cbn [map_alloc]; autorewrite with flipdb; reflexivity.
Qed.

Lemma validate_flip l : validate (flip l) = validate l. Proof. by_cases_l l. Qed.
Lemma visit_regions_flip l : visit_regions (flip l) = visit_regions l. Proof. by_cases_l l. Qed.

(* flip commutes with every step *)
Theorem step_flip l o : step (flip l) o = (flip (fst (step l o)), snd (step l o)).
Proof.
  destruct o as [size align atype strat upper mo tag|size align atype strat upper mo|h|h tag| |atype size]; cbn [step].
  - rewrite create_request_flip. destruct (create_request l size align upper atype strat mo); try reflexivity.
    rewrite alloc_flip. destruct (alloc l r atype tag size align); reflexivity.
  - rewrite create_request_flip. destruct (create_request l size align upper atype strat mo); reflexivity.
  - rewrite lin_free_flip. destruct (lin_free l h); reflexivity.
  - rewrite set_user_data_flip. destruct (set_user_data l h tag); reflexivity.
  - rewrite lin_clear_flip. reflexivity.
  - reflexivity.
Qed.

(* ------------------------------------------------------------------ states that differ only in firstVectorIndex *)

Definition eqv (l1 l2 : linear) : Prop :=
  first l1 = first l2 /\ second l1 = second l2 /\ l_mode l1 = l_mode l2 /\
  l_sum_free l1 = l_sum_free l2 /\ l_null_begin l1 = l_null_begin l2 /\
  l_null_middle l1 = l_null_middle l2 /\ l_null_second l1 = l_null_second l2 /\
  l_size l1 = l_size l2 /\ l_gran l1 = l_gran l2 /\ l_h l1 = l_h l2.

Lemma eqv_refl l : eqv l l.
Proof. unfold eqv. repeat split. Qed.

Lemma eqv_flip l : eqv (flip l) l.
Proof. unfold eqv. rewrite first_flip, second_flip. repeat split. Qed.

Lemma eqv_cases l1 l2 : eqv l1 l2 -> l1 = l2 \/ l1 = flip l2.
Proof.
  destruct l1 as [sz1 g1 h1 a1 b1 sw1 m1 sf1 nb1 nm1 ns1]. destruct l2 as [sz2 g2 h2 a2 b2 sw2 m2 sf2 nb2 nm2 ns2].
  unfold eqv, first, second, flip. cbn. intros (H1 & H2 & H3 & H4 & H5 & H6 & H7 & H8 & H9 & H10). subst.
  destruct sw1, sw2; cbn in *; subst; auto.
Qed.

(* C18, second half: the physical placement of the two vectors is unobservable *)
Theorem step_respects_eqv l1 l2 o :
  eqv l1 l2 -> snd (step l1 o) = snd (step l2 o) /\ eqv (fst (step l1 o)) (fst (step l2 o)).
Proof.
  intros H. destruct (eqv_cases _ _ H) as [->| ->].
  - split; [reflexivity|apply eqv_refl].
  - rewrite step_flip. cbn [fst snd]. split; [reflexivity|apply eqv_flip].
Qed.

(* the instance asked for: two states with both vectors empty that differ only in l_swapped *)
Corollary empty_swapped_congruence l b o :
  l_v0 l = [] -> l_v1 l = [] ->
  let l' := mkL (l_size l) (l_gran l) (l_h l) (l_v0 l) (l_v1 l) b (l_mode l) (l_sum_free l)
                (l_null_begin l) (l_null_middle l) (l_null_second l) in
  snd (step l o) = snd (step l' o) /\ eqv (fst (step l o)) (fst (step l' o)).
Proof.
  intros H0 H1 l'. apply step_respects_eqv. unfold eqv, l', first, second. cbn. rewrite H0, H1.
  destruct (l_swapped l), b; repeat split.
Qed.
