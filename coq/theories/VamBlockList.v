(* VamBlockList.v — allocator state of the whole-allocator model and the model of vam/block_list.go,
   block.go and the block half of allocation.go.

   One Gallina definition per Go function or loop, named in the comment above it.  Block metadata is the
   validated component model (Tlsf.tlsf or Linear.linear, with the Gran state inside), the mapping state
   of a block's memory is SyncMem.sm, budget counters are Budget.bstate (inside the machine, VamDev.v).

   Identities.  Go identifies objects by pointer; the model uses
     - device memory: creation number (as the harness does),
     - a block: its id, unique inside its block list (nextBlockId is never reused),
     - a block list: [LDef t] (default list of memory type t) or [LPool uid] (uid = creation number of the pool),
     - an Allocation object: the caller's slot number (index into [v_tab]). *)
From Coq Require Import ZArith NArith List Bool Lia.
From Arsenal Require Util Gran Tlsf Linear SyncMem Budget.
From Arsenal Require Import VamDev.
Import ListNotations.
Open Scope Z_scope.

(* ---------------------------------------------------------------- AllocationCreateFlags *)

Definition F_DEDICATED : Z := 0.
Definition F_NEVER : Z := 1.
Definition F_MAPPED : Z := 2.
Definition F_UPPER : Z := 3.
Definition F_DONTBIND : Z := 4.
Definition F_BUDGET : Z := 5.
Definition F_CANALIAS : Z := 6.
Definition F_SEQ : Z := 7.
Definition F_RANDOM : Z := 8.
Definition F_XFER : Z := 9.
Definition F_MINMEM : Z := 10.
Definition F_MINTIME : Z := 11.
Definition F_MINOFF : Z := 12.

Definition fl (flags bit : Z) : bool := Z.testbit flags bit.
Definition fl_set (flags bit : Z) : Z := Z.lor flags (Z.shiftl 1 bit).
Definition fl_clear (flags bit : Z) : Z := Z.land flags (Z.lnot (Z.shiftl 1 bit)).

(* createInfo.Flags & (HostAccessSequentialWrite | HostAccessRandom) != 0 *)
Definition mapping_allowed (flags : Z) : bool := fl flags F_SEQ || fl flags F_RANDOM.

(* allocFromBlock: vam strategy bits -> metadata.AllocationStrategy (1 MinMemory, 2 MinTime, 4 MinOffset) *)
Definition strategy_of (flags : Z) : Z :=
  (if fl flags F_MINMEM then 1 else 0) + (if fl flags F_MINTIME then 2 else 0) + (if fl flags F_MINOFF then 4 else 0).

(* ---------------------------------------------------------------- block metadata (TLSF | linear) *)

Inductive meta := MTlsf (t : Tlsf.tlsf) | MLin (l : Linear.linear).
Inductive mreq := RqT (r : Tlsf.request) | RqL (r : Linear.request).

(* block.Init: algorithm 0 = TLSF, 2 = linear; vam's granularity handler *)
Definition meta_init (algo gr size : Z) : meta :=
  if algo =? 0 then MTlsf (Tlsf.tlsf_init Gran.HVam gr size)
  else MLin (Linear.linear_init Gran.HVam gr size).

Definition meta_size (mt : meta) : Z :=
  match mt with MTlsf t => Tlsf.t_size t | MLin l => Linear.l_size l end.
Definition meta_is_empty (mt : meta) : bool :=
  match mt with MTlsf t => Tlsf.is_empty t | MLin l => Linear.is_empty l end.
Definition meta_sum_free (mt : meta) : Z :=
  match mt with MTlsf t => Tlsf.sum_free_size t | MLin l => Linear.sum_free_size l end.
Definition meta_alloc_count (mt : meta) : Z :=
  match mt with MTlsf t => Tlsf.allocation_count t | MLin l => Linear.allocation_count l end.
Definition meta_may_have_free (mt : meta) (sub size : Z) : bool :=
  match mt with MTlsf t => Tlsf.may_have_free t sub size | MLin l => Linear.may_have_free l sub size end.

Inductive mreqres := MGranted (mt' : meta) (r : mreq) | MRefused | MError | MPanic.

(* CreateAllocationRequest(size, alignment, upper, suballocType, strategy, math.MaxInt) *)
Definition meta_create_request (mt : meta) (size align : Z) (upper : bool) (sub strategy : Z) : mreqres :=
  match mt with
  | MTlsf t =>
    match Tlsf.create_request t size align upper sub strategy MAXINT with
    | Tlsf.QGranted t' r => MGranted (MTlsf t') (RqT r)
    | Tlsf.QRefused => MRefused
    | Tlsf.QError => MError
    | Tlsf.QPanic => MPanic
    end
  | MLin l =>
    match Linear.create_request l size align upper sub strategy MAXINT with
    | Linear.QGranted r => MGranted mt (RqL r)
    | Linear.QRefused => MRefused
    | Linear.QError => MError
    | Linear.QPanic => MPanic
    end
  end.

(* allocRequest.Size *)
Definition mreq_size (r : mreq) : Z :=
  match r with RqT r => Tlsf.rq_size r | RqL r => Linear.rq_size r end.

(* Alloc(request, suballocType, userData = the Allocation object): new metadata and the handle *)
Definition meta_alloc (mt : meta) (r : mreq) (sub slot reqsize reqalign : Z) : out (meta * Z) :=
  match mt, r with
  | MTlsf t, RqT rq =>
    match Tlsf.alloc t rq (Some slot) reqsize reqalign with
    | Tlsf.AOk t' h => OK (MTlsf t', h)
    | Tlsf.AError => ER VK_UNKNOWN
    | Tlsf.APanic => PANIC
    end
  | MLin l, RqL rq =>
    match Linear.alloc l rq sub (Some slot) reqsize reqalign with
    | Linear.AOk l' => OK (MLin l', Linear.rq_handle rq)
    | Linear.AError => ER VK_UNKNOWN
    | Linear.APanic => PANIC
    end
  | _, _ => STUCK
  end.

(* Free(handle) *)
Definition meta_free (mt : meta) (h : Z) : out meta :=
  match mt with
  | MTlsf t =>
    match Tlsf.tlsf_free t h with
    | Tlsf.FOk t' => OK (MTlsf t') | Tlsf.FError => ER 0 | Tlsf.FPanic => PANIC
    end
  | MLin l =>
    match Linear.lin_free l h with
    | Linear.FOk l' => OK (MLin l') | Linear.FError => ER 0 | Linear.FPanic => PANIC
    end
  end.

(* AllocationOffset(handle); None = error (the callers panic) *)
Definition meta_offset (mt : meta) (h : Z) : option Z :=
  match mt with
  | MTlsf t =>
    match Tlsf.find_blk h (Tlsf.t_chain t) with
    | Some b => if Tlsf.b_free b then None else Some (Tlsf.b_off b)
    | None => None
    end
  | MLin l => Some (Linear.allocation_offset h)
  end.

(* ---------------------------------------------------------------- DetailedStatistics *)

Record dst := mkDst {
  ds_blocks : Z; ds_allocs : Z; ds_block_bytes : Z; ds_alloc_bytes : Z; ds_unused : Z;
  ds_amin : Z; ds_amax : Z; ds_umin : Z; ds_umax : Z }.

(* Clear *)
Definition dst_clear : dst := mkDst 0 0 0 0 0 MAXINT 0 MAXINT 0.

Definition zmin (a b : Z) : Z := if b <? a then b else a.
Definition zmax (a b : Z) : Z := if a <? b then b else a.

(* DetailedStatistics.AddDetailedStatistics *)
Definition dst_merge (s o : dst) : dst :=
  mkDst (ds_blocks s + ds_blocks o) (ds_allocs s + ds_allocs o) (ds_block_bytes s + ds_block_bytes o)
        (ds_alloc_bytes s + ds_alloc_bytes o) (ds_unused s + ds_unused o)
        (zmin (ds_amin s) (ds_amin o)) (zmax (ds_amax s) (ds_amax o))
        (zmin (ds_umin s) (ds_umin o)) (zmax (ds_umax s) (ds_umax o)).

(* dedicatedAllocationList.AddDetailedStatistics, one item: BlockCount++, BlockBytes += size, AddAllocation(size) *)
Definition dst_add_dedicated (s : dst) (size : Z) : dst :=
  mkDst (ds_blocks s + 1) (ds_allocs s + 1) (ds_block_bytes s + size) (ds_alloc_bytes s + size) (ds_unused s)
        (zmin (ds_amin s) size) (zmax (ds_amax s) size) (ds_umin s) (ds_umax s).

Definition omin_z (o : option Z) : Z := match o with Some x => x | None => MAXINT end.

(* BlockMetadata.AddDetailedStatistics into cleared statistics; None = the walk panicked *)
Definition meta_dstats (mt : meta) : option dst :=
  match mt with
  | MTlsf t =>
    let d := Tlsf.add_detailed_statistics t in
    let s := Tlsf.d_stats d in
    Some (mkDst (Tlsf.s_blocks s) (Tlsf.s_allocs s) (Tlsf.s_block_bytes s) (Tlsf.s_alloc_bytes s)
                (Tlsf.d_unused_count d) (omin_z (Tlsf.d_alloc_min d)) (Tlsf.d_alloc_max d)
                (omin_z (Tlsf.d_unused_min d)) (Tlsf.d_unused_max d))
  | MLin l =>
    match Linear.add_detailed_statistics l with
    | None => None
    | Some d =>
      let s := Linear.d_stats d in
      Some (mkDst (Linear.s_blocks s) (Linear.s_allocs s) (Linear.s_block_bytes s) (Linear.s_alloc_bytes s)
                  (Linear.d_unused_count d) (omin_z (Linear.d_alloc_min d)) (Linear.d_alloc_max d)
                  (omin_z (Linear.d_unused_min d)) (Linear.d_unused_max d))
    end
  end.

(* ---------------------------------------------------------------- state *)

(* deviceMemoryBlock *)
Record block := mkBlock { bk_id : Z; bk_mem : Z; bk_sm : SyncMem.sm; bk_meta : meta }.

(* memoryBlockList *)
Record blist := mkBlist {
  bl_type : Z; bl_pref : Z; bl_min : Z; bl_max : Z; bl_gran : Z; bl_explicit : bool;
  bl_algo : Z;          (* 0 TLSF, 2 linear *)
  bl_minalign : Z;
  bl_blocks : list block;
  bl_next : Z;          (* nextBlockId *)
  bl_incsort : bool     (* incrementalSort (switched off while a defragmentation run is active) *) }.

Definition set_blocks (l : blist) (bs : list block) : blist :=
  mkBlist (bl_type l) (bl_pref l) (bl_min l) (bl_max l) (bl_gran l) (bl_explicit l) (bl_algo l)
          (bl_minalign l) bs (bl_next l) (bl_incsort l).
Definition set_blocks_next (l : blist) (bs : list block) (n : Z) : blist :=
  mkBlist (bl_type l) (bl_pref l) (bl_min l) (bl_max l) (bl_gran l) (bl_explicit l) (bl_algo l)
          (bl_minalign l) bs n (bl_incsort l).
Definition set_incsort (l : blist) (b : bool) : blist :=
  mkBlist (bl_type l) (bl_pref l) (bl_min l) (bl_max l) (bl_gran l) (bl_explicit l) (bl_algo l)
          (bl_minalign l) (bl_blocks l) (bl_next l) b.

Inductive lref := LDef (t : Z) | LPool (uid : Z).

Definition lref_eqb (a b : lref) : bool :=
  match a, b with
  | LDef x, LDef y => x =? y
  | LPool x, LPool y => x =? y
  | _, _ => false
  end.

(* Pool; p_ded = the dedicated allocation list (slots, head first) *)
Record pool := mkPool { p_uid : Z; p_id : Z; p_list : blist; p_ded : list Z }.

(* Allocation *)
Record alloc := mkAlloc {
  a_allocated : bool;    (* memory != nil *)
  a_kind : Z;            (* allocationType: 0 none, 1 block, 2 dedicated *)
  a_size : Z; a_align : Z; a_type : Z;
  a_sub : Z;             (* suballocationType *)
  a_persist : bool;      (* allocationPersistentMap *)
  a_mapallowed : bool;   (* allocationMappingAllowed *)
  a_lref : lref;         (* block: the list of blockData.block; dedicated: dedicatedData.parentPool / default *)
  a_blk : Z;             (* id of blockData.block *)
  a_handle : Z;          (* blockData.handle *)
  a_mem : Z;             (* device memory id of [memory] *)
  a_sm : SyncMem.sm;     (* dedicated: the mapping state of [memory] *)
  a_temp : bool          (* userData is a defragmentation context: destination temporary of a pass *) }.

(* Allocation.init *)
Definition alloc_init (mapallowed : bool) : alloc :=
  mkAlloc false 0 0 1 0 0 false mapallowed (LDef 0) (-1) 0 0 SyncMem.sm_init false.

Definition alloc_zero : alloc := alloc_init false.

Definition set_allocated (a : alloc) (b : bool) : alloc :=
  mkAlloc b (a_kind a) (a_size a) (a_align a) (a_type a) (a_sub a) (a_persist a) (a_mapallowed a)
          (a_lref a) (a_blk a) (a_handle a) (a_mem a) (a_sm a) (a_temp a).
Definition set_a_sm (a : alloc) (s : SyncMem.sm) : alloc :=
  mkAlloc (a_allocated a) (a_kind a) (a_size a) (a_align a) (a_type a) (a_sub a) (a_persist a) (a_mapallowed a)
          (a_lref a) (a_blk a) (a_handle a) (a_mem a) s (a_temp a).

(* Allocator *)
Record vam := mkVam {
  v_m : mach;
  v_global : N;                       (* globalMemoryTypeBits *)
  v_lists : list (option blist);      (* memoryBlockLists, by type *)
  v_ded : list (list Z);              (* dedicatedAllocations, by type: slots, head first *)
  v_pools : list pool;                (* a.pools, head first *)
  v_next_pool_id : Z;
  v_next_uid : Z;
  v_tab : list alloc                  (* the caller's Allocation objects, by slot *) }.

Definition set_m (v : vam) (m : mach) : vam :=
  mkVam m (v_global v) (v_lists v) (v_ded v) (v_pools v) (v_next_pool_id v) (v_next_uid v) (v_tab v).
Definition set_lists (v : vam) (l : list (option blist)) : vam :=
  mkVam (v_m v) (v_global v) l (v_ded v) (v_pools v) (v_next_pool_id v) (v_next_uid v) (v_tab v).
Definition set_ded (v : vam) (d : list (list Z)) : vam :=
  mkVam (v_m v) (v_global v) (v_lists v) d (v_pools v) (v_next_pool_id v) (v_next_uid v) (v_tab v).
Definition set_pools (v : vam) (p : list pool) : vam :=
  mkVam (v_m v) (v_global v) (v_lists v) (v_ded v) p (v_next_pool_id v) (v_next_uid v) (v_tab v).
Definition set_tab (v : vam) (t : list alloc) : vam :=
  mkVam (v_m v) (v_global v) (v_lists v) (v_ded v) (v_pools v) (v_next_pool_id v) (v_next_uid v) t.

Definition get_alloc (v : vam) (slot : Z) : alloc :=
  match nth_z (v_tab v) slot with Some a => a | None => alloc_zero end.
Definition set_alloc (v : vam) (slot : Z) (a : alloc) : vam := set_tab v (set_nth_z (v_tab v) slot a).

Fixpoint find_pool (ps : list pool) (uid : Z) : option pool :=
  match ps with
  | [] => None
  | p :: tl => if p_uid p =? uid then Some p else find_pool tl uid
  end.

Fixpoint replace_pool (ps : list pool) (np : pool) : list pool :=
  match ps with
  | [] => []
  | p :: tl => if p_uid p =? p_uid np then np :: tl else p :: replace_pool tl np
  end.

Fixpoint remove_pool (ps : list pool) (uid : Z) : list pool :=
  match ps with
  | [] => []
  | p :: tl => if p_uid p =? uid then tl else p :: remove_pool tl uid
  end.

Definition get_blist (v : vam) (lr : lref) : option blist :=
  match lr with
  | LDef t => match nth_z (v_lists v) t with Some (Some l) => Some l | _ => None end
  | LPool uid => match find_pool (v_pools v) uid with Some p => Some (p_list p) | None => None end
  end.

Definition set_blist (v : vam) (lr : lref) (l : blist) : vam :=
  match lr with
  | LDef t => set_lists v (set_nth_z (v_lists v) t (Some l))
  | LPool uid =>
    match find_pool (v_pools v) uid with
    | Some p => set_pools v (replace_pool (v_pools v) (mkPool (p_uid p) (p_id p) l (p_ded p)))
    | None => v
    end
  end.

(* the dedicated allocation list next to a block list *)
Definition get_dedlist (v : vam) (lr : lref) : list Z :=
  match lr with
  | LDef t => match nth_z (v_ded v) t with Some l => l | None => [] end
  | LPool uid => match find_pool (v_pools v) uid with Some p => p_ded p | None => [] end
  end.

Definition set_dedlist (v : vam) (lr : lref) (d : list Z) : vam :=
  match lr with
  | LDef t => set_ded v (set_nth_z (v_ded v) t d)
  | LPool uid =>
    match find_pool (v_pools v) uid with
    | Some p => set_pools v (replace_pool (v_pools v) (mkPool (p_uid p) (p_id p) (p_list p) d))
    | None => v
    end
  end.

Fixpoint find_block (bs : list block) (id : Z) : option block :=
  match bs with
  | [] => None
  | b :: tl => if bk_id b =? id then Some b else find_block tl id
  end.

Fixpoint replace_block (bs : list block) (nb : block) : list block :=
  match bs with
  | [] => []
  | b :: tl => if bk_id b =? bk_id nb then nb :: tl else b :: replace_block tl nb
  end.

(* memoryBlockList.Remove (by identity) *)
Fixpoint remove_block (bs : list block) (id : Z) : list block :=
  match bs with
  | [] => []
  | b :: tl => if bk_id b =? id then tl else b :: remove_block tl id
  end.

Definition get_block (v : vam) (lr : lref) (id : Z) : option block :=
  match get_blist v lr with Some l => find_block (bl_blocks l) id | None => None end.

Definition put_block (v : vam) (lr : lref) (b : block) : vam :=
  match get_blist v lr with
  | Some l => set_blist v lr (set_blocks l (replace_block (bl_blocks l) b))
  | None => v
  end.

(* ---------------------------------------------------------------- block_list.go *)

Section WithCfg.
Variable c : vcfg.

(* hasEmptyBlock *)
Definition has_empty_block (bs : list block) : bool := existsb (fun b => meta_is_empty (bk_meta b)) bs.

(* incrementallySortBlocks: one bubble step at the first inversion (not for the linear algorithm) *)
Fixpoint bubble_once (bs : list block) : list block :=
  match bs with
  | b1 :: ((b2 :: tl) as rest) =>
    if meta_sum_free (bk_meta b2) <? meta_sum_free (bk_meta b1) then b2 :: b1 :: tl
    else b1 :: bubble_once rest
  | _ => bs
  end.

Definition incrementally_sort (l : blist) : blist :=
  if negb (bl_incsort l) || (bl_algo l =? 2) then l else set_blocks l (bubble_once (bl_blocks l)).

Definition sort_list (v : vam) (lr : lref) : vam :=
  match get_blist v lr with Some l => set_blist v lr (incrementally_sort l) | None => v end.

(* calcMaxBlockSize: walk from the last block, stop early at the preferred size *)
Fixpoint calc_max_loop (pref : Z) (rev_bs : list block) (result : Z) : Z :=
  match rev_bs with
  | [] => result
  | b :: tl =>
    let sz := meta_size (bk_meta b) in
    if sz <=? result then calc_max_loop pref tl result
    else if pref <=? sz then sz else calc_max_loop pref tl sz
  end.

Definition calc_max_block_size (l : blist) : Z := calc_max_loop (bl_pref l) (rev (bl_blocks l)) 0.

(* CreateBlock(blockSize): the new block's id (Go: its index, always the last) *)
Definition create_block (v : vam) (lr : lref) (size : Z) : vam * out Z :=
  match get_blist v lr with
  | None => (v, STUCK)
  | Some l =>
    let '(m1, r) := alloc_vk c (v_m v) (bl_type l) size 0 in
    let v1 := set_m v m1 in
    match r with
    | OK mem =>
      let b := mkBlock (bl_next l) mem SyncMem.sm_init (meta_init (bl_algo l) (bl_gran l) size) in
      (set_blist v1 lr (set_blocks_next l (bl_blocks l ++ [b]) (bl_next l + 1)), OK (bk_id b))
    | ER code => (v1, ER code)
    | PANIC => (v1, PANIC)
    | STUCK => (v1, STUCK)
    end
  end.

(* deviceMemoryBlock.Destroy (the block has already been taken out of its list or the list is going away) *)
Definition destroy_block (v : vam) (ty : Z) (b : block) : vam * out unit :=
  if negb (meta_is_empty (bk_meta b)) then (v, ER 0)
  else
    let '(m1, r) := free_vk c (v_m v) ty (meta_size (bk_meta b)) (bk_mem b) in
    (set_m v m1, r).

(* commitAllocationRequest *)
Inductive afres := AFOk | AFNoFit | AFErr (code : Z) | AFPanic | AFStuck.

Definition commit_request (v : vam) (lr : lref) (bid : Z) (rq : mreq) (reqsize align flags sub slot : Z)
  : vam * afres :=
  match get_blist v lr, get_block v lr bid with
  | Some l, Some b =>
    let mapped := fl flags F_MAPPED in
    let allowed := mapping_allowed flags in
    (* block.memory.RecordSuballocSubfree *)
    let '(m1, s1) := sm_sub (v_m v) (bk_mem b) (bk_sm b) in
    (* if mapped: block.memory.Map(driver, 1, 0, -1, 0) *)
    let '(m2, s2, mr) := if mapped then sm_map c m1 (bk_mem b) s1 else (m1, s1, OK tt) in
    let v2 := put_block (set_m v m2) lr (mkBlock (bk_id b) (bk_mem b) s2 (bk_meta b)) in
    match mr with
    | ER code => (v2, AFErr code)
    | PANIC => (v2, AFPanic)
    | STUCK => (v2, AFStuck)
    | OK _ =>
      (* outAlloc.init *)
      let v3 := set_alloc v2 slot (alloc_init allowed) in
      match meta_alloc (bk_meta b) rq sub slot reqsize align with
      | ER code => (v3, AFErr code)
      | PANIC => (v3, AFPanic)
      | STUCK => (v3, AFStuck)
      | OK (mt', handle) =>
        let v4 := put_block v3 lr (mkBlock (bk_id b) (bk_mem b) s2 mt') in
        (* initBlockAllocation *)
        if mapped && negb allowed then (v4, AFPanic)
        else
          let a := mkAlloc true 1 (mreq_size rq) align (bl_type l) sub mapped allowed lr bid handle (bk_mem b)
                           SyncMem.sm_init false in
          let v5 := set_alloc v4 slot a in
          (set_m v5 (add_allocation c (v_m v5) (type_heap c (bl_type l)) (mreq_size rq)), AFOk)
      end
    end
  | _, _ => (v, AFStuck)
  end.

(* allocFromBlock *)
Definition alloc_from_block (v : vam) (lr : lref) (bid : Z) (size align flags sub slot : Z) : vam * afres :=
  match get_block v lr bid with
  | None => (v, AFStuck)
  | Some b =>
    if negb (meta_may_have_free (bk_meta b) sub size) then (v, AFNoFit)
    else
      match meta_create_request (bk_meta b) size align (fl flags F_UPPER) sub (strategy_of flags) with
      | MError => (v, AFErr VK_UNKNOWN)
      | MPanic => (v, AFPanic)
      | MRefused => (v, AFNoFit)
      | MGranted mt' rq =>
        let v1 := put_block v lr (mkBlock (bk_id b) (bk_mem b) (bk_sm b) mt') in
        commit_request v1 lr bid rq size align flags sub slot
      end
  end.

(* the search loops of allocPage: try the blocks in the given order, stop at the first that is not "no fit";
   on success incrementallySortBlocks *)
Fixpoint try_blocks (v : vam) (lr : lref) (ids : list Z) (size align flags sub slot : Z) : vam * afres :=
  match ids with
  | [] => (v, AFNoFit)
  | bid :: tl =>
    let '(v1, r) := alloc_from_block v lr bid size align flags sub slot in
    match r with
    | AFNoFit => try_blocks v1 lr tl size align flags sub slot
    | AFOk => (sort_list v1 lr, AFOk)
    | _ => (v1, r)
    end
  end.

(* the order in which allocPage visits the existing blocks *)
Definition search_order (l : blist) (flags : Z) : list Z :=
  let bs := bl_blocks l in
  if bl_algo l =? 2 then
    (* linear: only the last block *)
    match rev bs with b :: _ => [bk_id b] | [] => [] end
  else if negb (fl flags F_MINTIME) then
    if host_visible c (bl_type l) then
      let allowed := mapping_allowed flags in
      let first := filter (fun b => Bool.eqb allowed (SyncMem.mapped (bk_sm b))) bs in
      let second := filter (fun b => negb (Bool.eqb allowed (SyncMem.mapped (bk_sm b)))) bs in
      map bk_id (first ++ second)
    else map bk_id bs
  else map bk_id (rev bs).

(* allocPage: the loop that halves the size of a new block before the first attempt *)
Fixpoint shrink_new_block (fuel : nat) (nbs shift maxExisting size : Z) : Z * Z :=
  match fuel with
  | O => (nbs, shift)
  | S f =>
    let smaller := Z.quot nbs 2 in
    if (maxExisting <? smaller) && (size * 2 <=? smaller) then shrink_new_block f smaller (shift + 1) maxExisting size
    else (nbs, shift)
  end.

(* allocPage: the retry loop after a failed CreateBlock *)
Fixpoint retry_create (fuel : nat) (v : vam) (lr : lref) (nbs shift size freeMemory : Z) (canFallback : bool)
         (last : out Z) : vam * out Z :=
  match fuel with
  | O => (v, last)
  | S f =>
    match last with
    | ER _ =>
      if 3 <=? shift then (v, last)
      else
        let smaller := Z.quot nbs 2 in
        if size <=? smaller then
          if (smaller <=? freeMemory) || negb canFallback then
            let '(v1, r) := create_block v lr smaller in
            retry_create f v1 lr smaller (shift + 1) size freeMemory canFallback r
          else retry_create f v lr smaller (shift + 1) size freeMemory canFallback last
        else (v, last)
    | _ => (v, last)
    end
  end.

(* allocPage *)
Definition alloc_page (v : vam) (lr : lref) (size align flags sub slot : Z) : vam * out unit :=
  match get_blist v lr with
  | None => (v, STUCK)
  | Some l =>
    let heap := type_heap c (bl_type l) in
    let '(m1, usage, budget) := heap_budget c (v_m v) heap in
    let v1 := set_m v m1 in
    let freeMemory := if budget - usage <? 0 then 0 else budget - usage in
    let never := fl flags F_NEVER in
    let canFallback := negb (bl_explicit l) && negb never in
    let canCreate := negb never && (zlen (bl_blocks l) <? bl_max l) && ((size <=? freeMemory) || negb canFallback) in
    if fl flags F_UPPER && (negb (bl_algo l =? 2) || (1 <? bl_max l)) then (v1, ER VK_NOFEATURE)
    else if bl_pref l <? size then (v1, ER VK_OODM)
    else
      (* 1. search the existing blocks *)
      let '(v2, r) := try_blocks v1 lr (search_order l flags) size align flags sub slot in
      match r with
      | AFOk => (v2, OK tt)
      | AFErr code => (v2, ER code)
      | AFPanic => (v2, PANIC)
      | AFStuck => (v2, STUCK)
      | AFNoFit =>
        (* 2. try to create a new block *)
        if negb canCreate then (v2, ER VK_OODM)
        else
          let '(nbs, shift) :=
            if bl_explicit l then (bl_pref l, 0)
            else shrink_new_block 3 (bl_pref l) 0 (calc_max_block_size l) size in
          let '(v3, first) :=
            if (nbs <=? freeMemory) || negb canFallback then create_block v2 lr nbs
            else (v2, ER VK_OODM) in
          let '(v4, created) :=
            if bl_explicit l then (v3, first)
            else retry_create 3 v3 lr nbs shift size freeMemory canFallback first in
          match created with
          | ER code => (v4, ER code)
          | PANIC => (v4, PANIC)
          | STUCK => (v4, STUCK)
          | OK bid =>
            match get_block v4 lr bid with
            | None => (v4, STUCK)
            | Some nb =>
              if meta_size (bk_meta nb) <? size then (v4, PANIC)
              else
                let '(v5, r2) := alloc_from_block v4 lr bid size align flags sub slot in
                match r2 with
                | AFOk => (sort_list v5 lr, OK tt)
                | AFPanic => (v5, PANIC)
                | AFStuck => (v5, STUCK)
                | _ =>
                  (* the new block could not serve the request: give it back *)
                  let '(v6, dr) :=
                    match get_blist v5 lr, get_block v5 lr bid with
                    | Some l5, Some b5 =>
                      if meta_is_empty (bk_meta b5) && (bl_min l5 <? zlen (bl_blocks l5)) then
                        let v5' := set_blist v5 lr (set_blocks l5 (remove_block (bl_blocks l5) bid)) in
                        match destroy_block v5' (bl_type l5) b5 with
                        | (v', OK _) => (v', OK tt)
                        | (v', STUCK) => (v', STUCK)
                        | (v', _) => (v', PANIC)
                        end
                      else (v5, OK tt)
                    | _, _ => (v5, STUCK)
                    end in
                  match dr with
                  | OK _ => (v6, match r2 with AFErr code => ER code | _ => ER VK_OODM end)
                  | ER code => (v6, ER code)
                  | PANIC => (v6, PANIC)
                  | STUCK => (v6, STUCK)
                  end
                end
            end
          end
      end
  end.

(* free + freeWithLock; keep = keepBlocks: no block is released (the unwind of a failed Allocate) *)
Definition bl_free (v : vam) (lr : lref) (slot : Z) (keep : bool) : vam * out unit :=
  let a := get_alloc v slot in
  match get_blist v lr, get_block v lr (a_blk a) with
  | Some l, Some b =>
    let heap := type_heap c (bl_type l) in
    let '(m1, usage, budget) := heap_budget c (v_m v) heap in
    let budgetExceeded := budget <=? usage in
    (* if alloc.isPersistentMap(): block.memory.Unmap(driver, 1) *)
    let '(m2, s2, ur) := if a_persist a then sm_unmap m1 (bk_mem b) (bk_sm b) else (m1, bk_sm b, OK tt) in
    let v2 := put_block (set_m v m2) lr (mkBlock (bk_id b) (bk_mem b) s2 (bk_meta b)) in
    match ur with
    | ER code => (v2, ER 0)
    | PANIC => (v2, PANIC)
    | STUCK => (v2, STUCK)
    | OK _ =>
      let hasEmpty := has_empty_block (bl_blocks l) in
      match meta_free (bk_meta b) (a_handle a) with
      | STUCK => (v2, STUCK)
      | ER _ => (v2, PANIC)
      | PANIC => (v2, PANIC)
      | OK mt' =>
        let '(m3, s3) := sm_sub (v_m v2) (bk_mem b) s2 in
        let b' := mkBlock (bk_id b) (bk_mem b) s3 mt' in
        let bs3 := replace_block (bl_blocks l) b' in
        let canDelete := negb keep && (bl_min l <? zlen bs3) in
        let '(bs4, toDelete) :=
          if meta_is_empty mt' && (hasEmpty || budgetExceeded) && canDelete then
            (remove_block bs3 (bk_id b'), Some b')
          else if negb (meta_is_empty mt') && hasEmpty && canDelete then
            match rev bs3 with
            | lastb :: rest => if meta_is_empty (bk_meta lastb) then (rev rest, Some lastb) else (bs3, None)
            | [] => (bs3, None)
            end
          else (bs3, None) in
        let v3 := set_blist (set_m v2 m3) lr (incrementally_sort (set_blocks l bs4)) in
        let '(v4, dr) :=
          match toDelete with
          | None => (v3, OK tt)
          | Some db =>
            match destroy_block v3 (bl_type l) db with
            | (v', OK _) => (v', OK tt)
            | (v', STUCK) => (v', STUCK)
            | (v', _) => (v', PANIC)
            end
          end in
        match dr with
        | OK _ =>
          let '(m5, rr) := remove_allocation c (v_m v4) heap (a_size a) in
          (set_m v4 m5, rr)
        | other => (v4, other)
        end
      end
    end
  | _, _ => (v, STUCK)
  end.

(* releaseEmptyBlocksCreatedSince: ids = the block ids in reverse list order at entry *)
Fixpoint release_loop (v : vam) (lr : lref) (ids : list Z) (firstId : Z) : vam * out unit :=
  match ids with
  | [] => (v, OK tt)
  | bid :: tl =>
    match get_blist v lr with
    | None => (v, STUCK)
    | Some l =>
      if negb (bl_min l <? zlen (bl_blocks l)) then (v, OK tt)
      else
        match find_block (bl_blocks l) bid with
        | None => (v, STUCK)
        | Some b =>
          if (bk_id b <? firstId) || negb (meta_is_empty (bk_meta b)) then release_loop v lr tl firstId
          else
            let v1 := set_blist v lr (set_blocks l (remove_block (bl_blocks l) bid)) in
            match destroy_block v1 (bl_type l) b with
            | (v2, OK _) => release_loop v2 lr tl firstId
            | (v2, STUCK) => (v2, STUCK)
            | (v2, _) => (v2, PANIC)
            end
        end
    end
  end.

Definition release_empty_since (v : vam) (lr : lref) (firstId : Z) : vam * out unit :=
  match get_blist v lr with
  | None => (v, STUCK)
  | Some l => release_loop v lr (map bk_id (rev (bl_blocks l))) firstId
  end.

(* Allocate: the allocPage loop over the caller's objects; returns the slots served so far (newest first) *)
Fixpoint allocate_loop (v : vam) (lr : lref) (slots done : list Z) (size align flags sub : Z)
  : vam * out unit * list Z :=
  match slots with
  | [] => (v, OK tt, done)
  | s :: tl =>
    let '(v1, r) := alloc_page v lr size align flags sub s in
    match r with
    | OK _ => allocate_loop v1 lr tl (s :: done) size align flags sub
    | other => (v1, other, done)
    end
  end.

(* Allocate: the deferred unwind: free what was served (newest first), each object becomes unallocated *)
Fixpoint unwind_loop (v : vam) (lr : lref) (done : list Z) : vam * out unit :=
  match done with
  | [] => (v, OK tt)
  | s :: tl =>
    let '(v1, r) := bl_free v lr s true in
    match r with
    | OK _ => unwind_loop (set_alloc v1 s (set_allocated (get_alloc v1 s) false)) lr tl
    | STUCK => (v1, STUCK)
    | _ => (v1, PANIC)
    end
  end.

(* memoryBlockList.Allocate *)
Definition bl_allocate (v : vam) (lr : lref) (slots : list Z) (size align0 flags sub : Z) : vam * out unit :=
  match get_blist v lr with
  | None => (v, STUCK)
  | Some l =>
    let align := if align0 <? bl_minalign l then bl_minalign l else align0 in
    let firstNew := bl_next l in
    let '(v1, r, done) := allocate_loop v lr slots [] size align flags sub in
    match r with
    | ER code =>
      let '(v2, ur) := unwind_loop v1 lr done in
      match ur with
      | OK _ =>
        let '(v3, rr) := release_empty_since v2 lr firstNew in
        match rr with OK _ => (v3, ER code) | other => (v3, other) end
      | other => (v2, other)
      end
    | other => (v1, other)
    end
  end.

(* memoryBlockList.Destroy: release nothing unless every block is empty *)
Fixpoint destroy_blocks (v : vam) (ty : Z) (bs : list block) : vam * out unit :=
  match bs with
  | [] => (v, OK tt)
  | b :: tl =>
    match destroy_block v ty b with
    | (v1, OK _) => destroy_blocks v1 ty tl
    | other => other
    end
  end.

Definition bl_destroy (v : vam) (lr : lref) : vam * out unit :=
  match get_blist v lr with
  | None => (v, STUCK)
  | Some l =>
    if existsb (fun b => negb (meta_is_empty (bk_meta b))) (bl_blocks l) then (v, ER 0)
    else
      let '(v1, r) := destroy_blocks v (bl_type l) (bl_blocks l) in
      match r with
      | OK _ =>
        match get_blist v1 lr with
        | Some l1 => (set_blist v1 lr (set_blocks l1 []), OK tt)
        | None => (v1, STUCK)
        end
      | other => (v1, other)
      end
  end.

(* CreateMinBlocks *)
Fixpoint create_min_blocks (n : nat) (v : vam) (lr : lref) (size : Z) : vam * out unit :=
  match n with
  | O => (v, OK tt)
  | S k =>
    let '(v1, r) := create_block v lr size in
    match r with
    | OK _ => create_min_blocks k v1 lr size
    | ER code => (v1, ER code)
    | PANIC => (v1, PANIC)
    | STUCK => (v1, STUCK)
    end
  end.

(* memoryBlockList.AddDetailedStatistics *)
Fixpoint blocks_dstats (bs : list block) (acc : dst) : option dst :=
  match bs with
  | [] => Some acc
  | b :: tl =>
    match meta_dstats (bk_meta b) with
    | Some d => blocks_dstats tl (dst_merge acc d)
    | None => None
    end
  end.

End WithCfg.
