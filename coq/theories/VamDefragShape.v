(* VamDefragShape.v — the block-count policies (VamShape.LInv: MinBlockCount <= #blocks <= MaxBlockCount, at most
   max(1, MinBlockCount) empty blocks per list) through the defragmentation calls, and reachDL: histories with
   defragmentation in which pools are created with MinBlockCount >= 0.
   No defragmentation call creates a block; blocks disappear only through memoryBlockList.Free (VamShape.bl_free_L);
   everything else keeps the block ids of every list and keeps used blocks used (LInv_transfer). *)
From Coq Require Import ZArith NArith List Bool Lia Permutation.
From Arsenal Require Util Bits SyncMem Budget Select Pass PassProofs Defrag DefragProofs.
From Arsenal Require Import VamDev VamBlockList VamDefrag Vam VamInvMeta VamInv VamInvUpd VamInvDev VamInvStep VamInvStep2 VamInvThm
  VamProps VamShape VamShapeStep VamDefragInv VamDefragStep VamDefragPass VamDefragThm.
Import ListNotations.
Open Scope Z_scope.

Lemma lperm_set_tab v t : lperm v (set_tab v t).
Proof. apply lperm_eq. intros. apply get_blist_set_tab. Qed.

Lemma nth_z_none_range {A} (l : list A) s : nth_z l s = None -> ~ (0 <= s < zlen l).
Proof.
  unfold nth_z, zlen. destruct (s <? 0) eqn:E; [lia|]. intros H Hr. apply nth_error_None in H. lia.
Qed.

Section WithCfg.
Variable c : vcfg.
Hypothesis Hc : cfg_ok c.

(* same ids in every list, used blocks stay used: both policies carry over *)
Lemma LInv_transfer v v' :
  VamInv c v -> VamInv c v' -> LInv v -> lperm v v' ->
  (forall lr i, blk_used v [] lr i = true -> blk_used v' [] lr i = true) -> LInv v'.
Proof.
  intros HI HI' HL P Hu lr l' Hg'. specialize (P lr). rewrite Hg' in P. unfold orel in P.
  destruct (get_blist v lr) as [l|] eqn:Hg; [|contradiction]. destruct P as (P1 & _ & P3).
  eapply (policies_transfer c v [] [] v' [] [] lr l l'); eauto.
Qed.

Lemma used_grown v v' lr i : grown v v' -> blk_used v [] lr i = true -> blk_used v' [] lr i = true.
Proof.
  intros (_ & G). apply used_mono. intros s a Sa HX _ _ _. split; [|exact HX].
  split; [rewrite G by (apply (slot_is_range _ _ _ Sa)); apply Sa|apply Sa].
Qed.

Lemma dmin_lperm v v' : lperm v v' -> dmin v v'.
Proof.
  intros P t l' Hg'. specialize (P (LDef t)). rewrite Hg' in P. unfold orel in P.
  destruct (get_blist v (LDef t)) as [l|]; [|contradiction]. exists l. split; [reflexivity|].
  destruct P as (_ & _ & (_ & _ & Em & _)). exact Em.
Qed.

(* ---------------------------------------------------------------- the lists keep their ids *)

Lemma prepare_lists_lperm lrs : forall v, lperm v (fold_left prepare_list lrs v).
Proof.
  induction lrs as [|lr tl IH]; intros v; cbn [fold_left]; [apply lperm_refl|].
  eapply lperm_trans; [|apply IH]. unfold prepare_list. destruct (get_blist v lr) as [l|] eqn:Hg; [|apply lperm_refl].
  apply (lperm_set_blist v lr l _ Hg). unfold lp, ids. cbn.
  split; [apply Permutation_map; apply Permutation_sym; apply sort_by_free_size_perm|split; [reflexivity|unfold cfg_eq; cbn; tauto]].
Qed.

Lemma defrag_begin_lperm v flags pool mb ma : lperm v (fst (defrag_begin c v flags pool mb ma)).
Proof.
  unfold defrag_begin. destruct (_ || _); [apply lperm_refl|]. destruct (_ =? 3); [apply lperm_refl|].
  destruct (match pool with Some uid => list_is_linear v (LPool uid) | None => false end); [apply lperm_refl|].
  destruct (negb _); cbn [fst]; apply prepare_lists_lperm.
Qed.

Lemma defrag_finish_lperm v run : lperm v (fst (defrag_finish v run)).
Proof.
  unfold defrag_finish. cbn [fst]. revert v. induction (dr_ctxs run) as [|dc tl IH]; intros v; cbn [fold_left]; [apply lperm_refl|].
  eapply lperm_trans; [|apply IH]. destruct (get_blist v (dc_lr dc)) as [l|] eqn:Hg; [|apply lperm_refl].
  apply (lperm_set_blist v (dc_lr dc) l _ Hg). unfold lp, ids. cbn. split; [apply Permutation_refl|split; [reflexivity|unfold cfg_eq; cbn; tauto]].
Qed.

Lemma commit_move_lperm v lr mv : lperm v (fst (commit_move c v lr mv)).
Proof.
  unfold commit_move. destruct (get_blist v lr) as [l|]; [|apply lperm_refl]. destruct (get_block v lr _) as [b|]; [|apply lperm_refl].
  destruct (negb _); [apply lperm_refl|]. destruct (sm_sub _ _ _) as (m1 & s1).
  destruct (if a_persist _ then _ else _) as ((m2 & s2) & mr).
  assert (H : lperm v (put_block (set_m v m2) lr (mkBlock (bk_id b) (bk_mem b) s2 (bk_meta b)))).
  { eapply lperm_trans; [apply lperm_set_m|apply lperm_put_block]. }
  destruct mr as [[]|code| |]; cbn [fst]; try exact H. destruct (_ && _); cbn [fst]; [exact H|].
  eapply lperm_trans; [exact H|]. eapply lperm_trans; [apply lperm_set_tab|apply lperm_set_m].
Qed.

Lemma commit_moves_lperm mvs : forall v lr, lperm v (fst (commit_moves c v lr mvs)).
Proof.
  induction mvs as [|mv tl IH]; intros v lr; cbn [commit_moves]; [apply lperm_refl|].
  pose proof (commit_move_lperm v lr mv) as P. destruct (commit_move c v lr mv) as (v1 & r). cbn [fst] in P.
  destruct r as [[]|code| |]; cbn [fst]; try exact P. eapply lperm_trans; [exact P|apply IH].
Qed.

Lemma commit_attempt_lperm v lr slot dst : lperm v (fst (commit_attempt c v lr slot dst)).
Proof.
  unfold commit_attempt. destruct (get_block v lr dst) as [b|]; [|apply lperm_refl]. destruct (sm_sub _ _ _) as (m1 & s1).
  destruct (if a_persist _ then _ else _) as ((m2 & s2) & mr). cbn [fst].
  eapply lperm_trans; [apply lperm_set_m|apply lperm_put_block].
Qed.

Lemma replay_lperm log : forall v lr, lperm v (fst (replay_log c v lr log)).
Proof.
  induction log as [|[slot dst|mv] tl IH]; intros v lr; cbn [replay_log]; [apply lperm_refl| |].
  - pose proof (commit_attempt_lperm v lr slot dst) as P. destruct (commit_attempt c v lr slot dst) as (v1 & r). cbn [fst] in P.
    destruct r as [[]|code| |]; cbn [fst]; try exact P; (eapply lperm_trans; [exact P|apply IH]).
  - pose proof (commit_move_lperm v lr mv) as P. destruct (commit_move c v lr mv) as (v1 & r). cbn [fst] in P.
    destruct r as [[]|code| |]; cbn [fst]; try exact P. eapply lperm_trans; [exact P|apply IH].
Qed.

Lemma collect_list_lperm v dc p : lperm v (fst (collect_list c v dc p)).
Proof.
  unfold collect_list. destruct (project v (dc_lr dc)) as [st|]; [|apply lperm_refl].
  destruct (get_blist v (dc_lr dc)) as [l|] eqn:Hg; [|apply lperm_refl].
  destruct (Defrag.collect_moves_f vam (att_commit c (dc_lr dc)) st (dc_ctx dc) p v) as (((cs & env) & log) & wr).
  assert (H1 : lperm v (set_blist v (dc_lr dc) (set_blocks l (unproject_blocks (bl_blocks l) (Defrag.d_blocks (Defrag.cs_st cs)))))).
  { apply (lperm_set_blist v (dc_lr dc) l _ Hg). unfold lp, ids. cbn. rewrite unproject_ids.
    split; [apply Permutation_refl|split; [reflexivity|apply cfg_eq_set_blocks]]. }
  destruct wr as [| |why]; [| |apply lperm_refl];
    (match goal with |- context [replay_log c ?w ?lr ?ms] => pose proof (replay_lperm ms w lr) as P; destruct (replay_log c w lr ms) as (v2 & r) end;
     cbn [fst] in P; destruct r as [[]|code| |]; cbn [fst]; eapply lperm_trans; eauto).
Qed.

Lemma pass_loop_lperm fuel : forall v run p, lperm v (fst (fst (pass_loop c fuel v run p))).
Proof.
  induction fuel as [|f IH]; intros v run p; cbn [pass_loop]; [apply lperm_refl|].
  destruct (nth_z (dr_ctxs run) (dr_progress run)) as [dc|]; [|apply lperm_refl].
  pose proof (collect_list_lperm v dc p) as P. destruct (collect_list c v dc p) as (v1 & r). cbn [fst] in P.
  destruct r as [(dc' & p')|code| |]; cbn [fst]; try exact P.
  destruct (Defrag.c_moves (dc_ctx dc')); cbn [fst]; [|exact P]. eapply lperm_trans; [exact P|apply IH].
Qed.

Lemma swap_lperm v s t : lperm v (fst (swap_block_allocation v s t)).
Proof.
  assert (H : forall w lr bid h tag w', set_block_user_data w lr bid h tag = Some w' -> lperm w w').
  { unfold set_block_user_data. intros w lr bid h tag w'. destruct (get_block w lr bid) as [b|]; [|discriminate].
    destruct (meta_set_user_data (bk_meta b) h tag) as [mt|]; [|discriminate]. intros E. injection E as <-. apply lperm_put_block. }
  unfold swap_block_allocation. destruct (_ || _); [apply lperm_refl|].
  destruct (set_block_user_data v _ _ _ t) as [v1|] eqn:E1; [|apply lperm_refl]. pose proof (H _ _ _ _ _ _ E1) as P1.
  match goal with |- context [set_block_user_data ?w ?a1 ?a2 ?a3 s] => destruct (set_block_user_data w a1 a2 a3 s) as [v3|] eqn:E3 end; cbn [fst].
  - eapply lperm_trans; [exact P1|]. eapply lperm_trans; [|exact (H _ _ _ _ _ _ E3)]. eapply lperm_trans; apply lperm_set_alloc.
  - eapply lperm_trans; [exact P1|]. eapply lperm_trans; apply lperm_set_alloc.
Qed.

(* ---------------------------------------------------------------- EndDefragPass *)

Lemma free_or_panic_L v s :
  VamInv c v -> LInv v -> let '(v', r) := free_or_panic c v s in match r with OK _ => LInv v' | _ => True end.
Proof.
  intros HI HL. unfold free_or_panic. destruct (a_allocated (get_alloc v s)) eqn:Ea; cbn [negb]; [|exact I].
  destruct (a_kind (get_alloc v s) =? 1) eqn:Ek; cbn [negb]; [|exact I]. apply Z.eqb_eq in Ek.
  pose proof (bl_free_L c v [] [] s (get_alloc v s) HI HL (get_alloc_allocated _ _ Ea) (fun H => H) Ek) as P.
  destruct (bl_free c v (a_lref (get_alloc v s)) s false) as (v1 & r). destruct r as [[]|code| |]; auto.
Qed.

Lemma swap_L v s t a b lr :
  VamInv c v -> LInv v -> s <> t -> slot_is v s a -> slot_is v t b ->
  a_kind a = 1 -> a_kind b = 1 -> a_lref a = lr -> a_lref b = lr -> a_size a = a_size b -> a_align a = a_align b ->
  LInv (fst (swap_block_allocation v s t)).
Proof.
  intros HI HL Hst Sa Sb Ka Kb La Lb Esz Eal.
  pose proof (swap_inv c v [] [] s t a b lr HI Hst Sa Sb (fun H => H) (fun H => H) Ka Kb La Lb Esz Eal) as P.
  pose proof (swap_lperm v s t) as PL.
  destruct (swap_block_allocation v s t) as (v' & r). cbn [fst] in *. destruct P as (_ & I1 & _ & Z1 & O1 & Gs & Gt).
  apply (LInv_transfer v v' HI I1 HL PL). intros lr0 i Hu. apply blk_used_spec in Hu. destruct Hu as (s0 & a0 & S0 & _ & K0 & L0 & B0).
  apply blk_used_spec.
  assert (Rs : 0 <= s < zlen (v_tab v')) by (rewrite Z1; apply (slot_is_range _ _ _ Sa)).
  assert (Rt : 0 <= t < zlen (v_tab v')) by (rewrite Z1; apply (slot_is_range _ _ _ Sb)).
  assert (Ss' : slot_is v' s (swapped a b)).
  { split; [|destruct Sa; exact H0]. unfold get_alloc in Gs. destruct (nth_z (v_tab v') s) as [x|] eqn:E; [congruence|].
    exfalso. apply nth_z_none_range in E. apply E. lia. }
  assert (St' : slot_is v' t (swapped b a)).
  { split; [|destruct Sb; exact H0]. unfold get_alloc in Gt. destruct (nth_z (v_tab v') t) as [x|] eqn:E; [congruence|].
    exfalso. apply nth_z_none_range in E. apply E. lia. }
  destruct (Z.eq_dec s0 s) as [->|Hns].
  - assert (a0 = a) by (destruct S0, Sa; congruence). subst a0. exists t, (swapped b a). cbn. auto 10.
  - destruct (Z.eq_dec s0 t) as [->|Hnt].
    + assert (a0 = b) by (destruct S0, Sb; congruence). subst a0. exists s, (swapped a b). cbn. auto 10.
    + exists s0, a0. split; [split; [rewrite O1 by auto; apply S0|apply S0]|auto].
Qed.

Lemma complete_move_L v lr mv d :
  VamInv c v -> LInv v -> mv_ok v lr mv -> src_of mv <> tmp_of mv ->
  let '(v', r) := complete_move c v mv d in match r with OK _ => LInv v' | _ => True end.
Proof.
  intros HI HL (a & b & Sa & Sb & Ka & Kb & La & Lb & Esz & Eal & _) Hne. unfold complete_move.
  fold (src_of mv). fold (tmp_of mv).
  assert (Hfin : forall v1, VamInv c v1 -> LInv v1 ->
            let '(v', r) := free_or_panic c v1 (tmp_of mv) in match r with OK _ => LInv v' | _ => True end).
  { intros v1 I1 L1. apply free_or_panic_L; auto. }
  destruct (d =? 0).
  - pose proof (swap_inv c v [] [] (src_of mv) (tmp_of mv) a b lr HI Hne Sa Sb (fun H => H) (fun H => H) Ka Kb La Lb Esz Eal) as P.
    pose proof (swap_L v (src_of mv) (tmp_of mv) a b lr HI HL Hne Sa Sb Ka Kb La Lb Esz Eal) as PL.
    destruct (swap_block_allocation v (src_of mv) (tmp_of mv)) as (v1 & r1). cbn [fst] in PL.
    destruct P as (-> & I1 & _). apply Hfin; auto.
  - destruct (d =? 2).
    + pose proof (free_or_panic_inv c v (src_of mv) HI) as P. pose proof (free_or_panic_L v (src_of mv) HI HL) as PL.
      destruct (free_or_panic c v (src_of mv)) as (v1 & r1). destruct r1 as [[]|code| |]; auto.
      destruct P as ((I1 & _) & _). apply Hfin; auto.
    + apply Hfin; auto.
Qed.

Lemma complete_moves_L mvs : forall v lr p imm ds,
  VamInv c v -> LInv v -> moves_ok v lr mvs ->
  let '(v', p', imm', r) := complete_moves c v lr p imm mvs ds in match r with OK _ => LInv v' | _ => True end.
Proof.
  induction mvs as [|mv rest IH]; intros v lr p imm ds HI HL (Hnd & Hf); cbn [complete_moves]; [exact HL|].
  destruct (list_alloc_stats v lr) as (pc & pb).
  inversion Hf as [|? ? Hmv Hrest]; subst.
  destruct (mv_slots_cons _ _ Hnd) as (Hne & Hs & Ht & Hnd').
  pose proof (complete_move_inv c v lr mv (norm_decision (hd 0 ds)) HI Hmv Hne) as P.
  pose proof (complete_move_L v lr mv (norm_decision (hd 0 ds)) HI HL Hmv Hne) as PL.
  destruct (complete_move c v mv (norm_decision (hd 0 ds))) as (v1 & r). destruct r as [[]|code| |]; auto.
  destruct (list_alloc_stats v1 lr) as (ac & ab).
  assert (Hok1 : moves_ok v1 lr rest).
  { apply (moves_ok_frame v v1 lr [src_of mv; tmp_of mv] rest); [apply P| |split; auto].
    intros s [<-|[<-|[]]]; auto. }
  apply IH; [apply P|exact PL|exact Hok1].
Qed.

Lemma defrag_end_L v run ds :
  VamInv c v -> LInv v -> run_ok v run ->
  let '(v', run', r) := defrag_end c v run ds in match r with OK _ => LInv v' | _ => True end.
Proof.
  intros HI HL (Hb & Ha & Hr). unfold defrag_end.
  destruct (nth_z (dr_ctxs run) (dr_progress run)) as [dc|] eqn:En; [|exact HL].
  destruct (Defrag.c_moves (dc_ctx dc)) as [|m0 ms0] eqn:Em; [exact HL|].
  destruct (Hr _ _ En) as (Hok & _). specialize (Hok eq_refl). rewrite Em in Hok.
  unfold complete_pass. rewrite Em.
  pose proof (complete_moves_L (m0 :: ms0) v (dc_lr dc) (dr_pass run) [] ds HI HL Hok) as P.
  destruct (complete_moves c v (dc_lr dc) (dr_pass run) [] (m0 :: ms0) ds) as (((v1 & p1) & imm) & r).
  destruct r as [[]|code| |]; auto.
  destruct (get_blist v1 (dc_lr dc)) as [l|] eqn:Hg; [|exact I].
  pose proof (swap_immovable_fold imm (bl_blocks l) (Defrag.c_immovable (dc_ctx dc))) as Pm.
  destruct (fold_left _ imm (bl_blocks l, Defrag.c_immovable (dc_ctx dc))) as (bs & immc). cbn [fst] in Pm.
  intros lr0 l0 Hg0. destruct (lref_eq_dec lr0 (dc_lr dc)) as [->|Hne].
  - rewrite (get_set_blist_same _ _ _ _ Hg) in Hg0. injection Hg0 as <-. destruct (P _ _ Hg) as (A & B).
    unfold LB, RB in *. cbn [bl_blocks bl_min bl_max set_blocks]. rewrite (zlen_perm _ _ Pm), (cnt_empty_perm _ _ (Permutation_sym Pm)). auto.
  - rewrite get_set_blist_other in Hg0 by congruence. exact (P _ _ Hg0).
Qed.

(* ---------------------------------------------------------------- one defragmentation call *)

Lemma dexec_L v run o :
  VamInv c v -> VamGran.GV c v -> LInv v -> def_min0 v -> drun_ok v run -> dop_ok v run o ->
  let '(v', run', r, dr) := dexec c v run o in
  match r with PANIC | STUCK => True | _ => LInv v' /\ def_min0 v' end.
Proof.
  intros HI HV HL H0 Hr Hok. pose proof (dexec_inv c v run o HI HV Hr Hok) as PS.
  destruct o as [flags pool mb ma| |ds|]; cbn [dexec] in *.
  - pose proof (defrag_begin_inv c v flags pool mb ma HI) as P. pose proof (defrag_begin_lperm v flags pool mb ma) as PL.
    destruct (defrag_begin c v flags pool mb ma) as (v1 & r). cbn [fst] in PL. destruct P as (I1 & T1 & _).
    assert (L1 : LInv v1 /\ def_min0 v1).
    { split; [|eapply def_min0_dmin; [exact H0|apply dmin_lperm; exact PL]].
      apply (LInv_transfer v v1 HI I1 HL PL). intros lr i. apply used_grown. apply tab_frame_grown. exact T1. }
    destruct r as [rn|code| |]; cbn; auto.
  - destruct run as [rn|]; [|exact I]. unfold defrag_pass in *.
    pose proof (pass_loop_lperm (S (length (dr_ctxs rn))) v rn (Pass.pass_init (dr_max_bytes rn) (dr_max_allocs rn))) as PL.
    pose proof Hok as Hidle. pose proof (defrag_pass_inv c v rn HI Hr Hidle HV) as P. unfold defrag_pass in P.
    destruct (pass_loop c _ v rn _) as ((v1 & rn') & r). cbn [fst] in PL.
    destruct r as [mvs|code| |]; cbn in *; auto; [|contradiction].
    destruct P as (I1 & _ & G1 & _). split; [|eapply def_min0_dmin; [exact H0|apply dmin_lperm; exact PL]].
    apply (LInv_transfer v v1 HI I1 HL PL). intros lr i. apply used_grown. exact G1.
  - destruct run as [rn|]; [|exact I].
    pose proof (defrag_end_L v rn ds HI HL Hr) as P. pose proof (VamDefragStep.defrag_end_inv c v rn ds HI Hr) as PI.
    destruct (defrag_end c v rn ds) as ((v1 & rn') & r). destruct r as [b|code| |]; cbn in *; auto; [|contradiction].
    split; [exact P|]. destruct PI as (_ & _ & L1 & _). eapply def_min0_dmin; [exact H0|apply dmin_frame; exact L1].
  - destruct run as [rn|]; [|exact I].
    pose proof (defrag_finish_inv c v rn HI) as P. pose proof (defrag_finish_lperm v rn) as PL.
    destruct (defrag_finish v rn) as (v1 & st). cbn [fst] in PL. destruct P as (I1 & T1 & _). cbn.
    split; [|eapply def_min0_dmin; [exact H0|apply dmin_lperm; exact PL]].
    apply (LInv_transfer v v1 HI I1 HL PL). intros lr i. apply used_grown. apply tab_frame_grown. exact T1.
Qed.

Theorem dstep_L v run o f :
  VamInv c v -> VamGran.GV c v -> LInv v -> def_min0 v -> drun_ok v run -> dop_ok v run o ->
  let '(v', run', r, calls, dr) := dstep c v run o f in
  r <> RPanic -> r <> RStuck -> LInv v' /\ def_min0 v'.
Proof.
  intros HI HV HL H0 Hr Hok. unfold dstep.
  set (v0 := set_m v (clear_calls (set_fault (v_m v) f 0))).
  assert (I0 : VamInv c v0).
  { unfold v0, VamInv. apply VamInvU_mach_same; [exact HI|]. split; cbn; [apply mems_same_refl|lia]. }
  assert (Hr0 : drun_ok v0 run) by (destruct run as [rn|]; [apply run_ok_set_m; exact Hr|exact I]).
  assert (Hok0 : dop_ok v0 run o) by (destruct o; cbn in *; auto).
  pose proof (dexec_L v0 run o I0 (VamGran.GR_set_m c v _ HV) (LInv_set_m v _ HL) (def_min0_set_m v _ H0) Hr0 Hok0) as E.
  destruct (dexec c v0 run o) as (((v1 & run1) & r) & dr).
  intros Hp Hs. destruct r as [[]|code| |]; cbn in Hp, Hs; try congruence; cbn in E; destruct E as (A & B);
    (split; [apply LInv_set_m; exact A|apply def_min0_set_m; exact B]).
Qed.

(* histories with defragmentation, pools created with MinBlockCount >= 0 *)
Inductive reachDL : vam -> option dfrun -> Prop :=
| reachDL_new nslots v : vam_new c nslots = OK v -> reachDL v None
| reachDL_step v run o f v' r calls :
    reachDL v run -> op_avoids run o -> op_ok v o -> op_pool_ok o -> step c v o f = (v', r, calls) -> r <> RPanic -> r <> RStuck ->
    reachDL v' run
| reachDL_dstep v run o f v' run' r calls dr :
    reachDL v run -> dop_ok v run o -> dstep c v run o f = (v', run', r, calls, dr) -> r <> RPanic -> r <> RStuck ->
    reachDL v' run'.

Lemma reachDL_reachD v run : reachDL v run -> reachD c v run.
Proof. induction 1; [eapply reachD_new; eauto|eapply reachD_step; eauto|eapply reachD_dstep; eauto]. Qed.

Theorem reachDL_inv v run : reachDL v run -> LInv v /\ def_min0 v.
Proof.
  intros R. induction R as [nslots v H|v run o f v' r calls R IH Hidle Hok Hp Hs Hpn Hsn|v run o f v' run' r calls dr R IH Hok Hs Hpn Hsn].
  - eapply (vam_new_L c); eauto.
  - destruct IH as (HL & H0). destruct (reachD_inv c Hc v run (reachDL_reachD v run R)) as (HI & _).
    pose proof (step_L c Hc v o f HI HL H0 Hok Hp) as P. rewrite Hs in P. apply P; auto.
  - destruct IH as (HL & H0). destruct (reachD_inv c Hc v run (reachDL_reachD v run R)) as (HI & Hr).
    pose proof (dstep_L v run o f HI (reachD_gv c Hc v run (reachDL_reachD v run R)) HL H0 Hr Hok) as P. rewrite Hs in P. apply P; auto.
Qed.

(* C11 / C20 along histories with defragmentation *)
Theorem pool_block_bounds_defrag v run lr l :
  reachDL v run -> get_blist v lr = Some l -> bl_min l <= zlen (bl_blocks l) <= bl_max l.
Proof. intros R Hg. destruct (reachDL_inv v run R) as (HL & _). apply (HL _ _ Hg). Qed.

Theorem retention_bound_defrag v run lr l :
  reachDL v run -> get_blist v lr = Some l -> cnt_empty (bl_blocks l) <= Z.max 1 (bl_min l).
Proof. intros R Hg. destruct (reachDL_inv v run R) as (HL & _). apply (HL _ _ Hg). Qed.

End WithCfg.
