(* Pass.v — executable model of memutils/defrag/pass.go: the per-pass counters of a
   defragmentation pass (PassContext.checkCounters / incrementCounters) and the
   DefragmentationStats record.  Go ints are modelled on Z (all values that occur are sums of
   allocation sizes and counts, far below 2^63).  The panic in incrementCounters is explicit. *)
From Coq Require Import ZArith List Bool Lia.
From Arsenal Require Import Util.
Import ListNotations.
Open Scope Z_scope.

(* Go: DefragmentationStats *)
Record pstats := mkPS {
  ps_bytes_moved : Z;
  ps_bytes_freed : Z;
  ps_allocs_moved : Z;
  ps_allocs_freed : Z
}.

Definition ps_zero : pstats := mkPS 0 0 0 0.

(* Go: DefragmentationStats.Add *)
Definition ps_add (a b : pstats) : pstats :=
  mkPS (ps_bytes_moved a + ps_bytes_moved b) (ps_bytes_freed a + ps_bytes_freed b)
       (ps_allocs_moved a + ps_allocs_moved b) (ps_allocs_freed a + ps_allocs_freed b).

(* Go: PassContext *)
Record pass := mkPass {
  p_max_bytes : Z;
  p_max_allocs : Z;
  p_stats : pstats;
  p_ignored : Z
}.

Definition pass_init (max_bytes max_allocs : Z) : pass := mkPass max_bytes max_allocs ps_zero 0.

Definition set_stats (p : pass) (s : pstats) : pass :=
  mkPass (p_max_bytes p) (p_max_allocs p) s (p_ignored p).

Definition set_ignored (p : pass) (n : Z) : pass :=
  mkPass (p_max_bytes p) (p_max_allocs p) (p_stats p) n.

(* Go: defragCounterStatus *)
Inductive counter := CPass | CIgnore | CEnd.

(* Go: defragMaxAllocsToIgnore *)
Definition max_allocs_to_ignore : Z := 16.

(* Go: PassContext.checkCounters *)
Definition check_counters (p : pass) (bytes : Z) : pass * counter :=
  (* no further relocation fits into this pass *)
  if p_max_allocs p <=? ps_allocs_moved (p_stats p) then (p, CEnd) else
  if ps_bytes_moved (p_stats p) + bytes >? p_max_bytes p then
    let p' := set_ignored p (p_ignored p + 1) in
    if p_ignored p' <? max_allocs_to_ignore then (p', CIgnore) else (p', CEnd)
  else (set_ignored p 0, CPass).

Inductive incres := IContinue | IStop | IPanic.

(* Go: PassContext.incrementCounters; the counters are updated before the panic fires *)
Definition increment_counters (p : pass) (bytes : Z) : pass * incres :=
  let s := p_stats p in
  let s' := mkPS (ps_bytes_moved s + bytes) (ps_bytes_freed s) (ps_allocs_moved s + 1) (ps_allocs_freed s) in
  let p' := set_stats p s' in
  if (p_max_allocs p <=? ps_allocs_moved s') || (p_max_bytes p <=? ps_bytes_moved s') then
    if negb (ps_allocs_moved s' =? p_max_allocs p) && negb (ps_bytes_moved s' =? p_max_bytes p)
    then (p', IPanic)
    else (p', IStop)
  else (p', IContinue).

(* the outcome kind the harness prints for a panic *)
Definition incres_kind (r : incres) : rkind := match r with IPanic => RPanic | _ => ROk end.
