(* VamStats.v — C04, the rest of CalculateStatistics (allocator.go CalculateStatistics, block_list.go AddDetailedStatistics,
   dedicated_list.go AddDetailedStatistics, memutils DetailedStatistics):
     - per memory type, the detailed fields are the truth: AllocationSizeMin/Max = min/max over the sizes of the live
       allocations of the type (block allocations of the default list and of the type's pools, dedicated allocations),
       UnusedRangeCount / SizeMin / SizeMax = count/min/max over the gaps of the blocks' region tilings
       ([meta_tiling]: the gaps are non-empty and together with the live allocations they add up to the block);
     - the per-heap entries and the total are the field-wise sums (minima, maxima) over the memory types;
     - CalculateStatistics never takes its panic branch ([calculate_statistics_some]), so BuildStatsString does not either.
   The minima start at math.MaxInt as in Go; sizes are bounded by the heap sizes (< 2^39), [blocks_bounded]. *)
From Coq Require Import ZArith NArith List Bool Lia Permutation.
From Arsenal Require Import Util VamDev VamBlockList Vam VamInvMeta VamInv VamProps.
From Arsenal Require TlsfStep TlsfStep2 TlsfInv2 LinearVisit LinearInv Tlsf Linear.
Import ListNotations.
Open Scope Z_scope.

(* ---------------------------------------------------------------- minima / maxima of lists *)

Definition minl (l : list Z) : Z := fold_right Z.min MAXINT l.
Definition maxl (l : list Z) : Z := fold_right Z.max 0 l.
Definition zsum (l : list Z) : Z := fold_right Z.add 0 l.

Lemma minl_le l : minl l <= MAXINT.
Proof. induction l as [|x l IH]; cbn; [lia|]. fold (minl l). lia. Qed.
Lemma maxl_ge l : 0 <= maxl l.
Proof. induction l as [|x l IH]; cbn; [lia|]. fold (maxl l). lia. Qed.

Lemma minl_app a b : minl (a ++ b) = Z.min (minl a) (minl b).
Proof. induction a as [|x a IH]; cbn; [pose proof (minl_le b); fold (minl b); lia|]. fold (minl (a ++ b)) (minl a). lia. Qed.
Lemma maxl_app a b : maxl (a ++ b) = Z.max (maxl a) (maxl b).
Proof. induction a as [|x a IH]; cbn; [pose proof (maxl_ge b); fold (maxl b); lia|]. fold (maxl (a ++ b)) (maxl a). lia. Qed.
Lemma zsum_app a b : zsum (a ++ b) = zsum a + zsum b.
Proof. induction a as [|x a IH]; cbn; [reflexivity|]. fold (zsum (a ++ b)) (zsum a). lia. Qed.

Lemma minl_perm a b : Permutation a b -> minl a = minl b.
Proof. induction 1; cbn; fold minl in *; try fold (minl l) in *; try fold (minl l') in *; try lia. Qed.
Lemma maxl_perm a b : Permutation a b -> maxl a = maxl b.
Proof. induction 1; cbn; try fold (maxl l) in *; try fold (maxl l') in *; try lia. Qed.
Lemma zlen_perm' {A} (a b : list A) : Permutation a b -> zlen a = zlen b.
Proof. intros H. unfold zlen. rewrite (Permutation_length H). reflexivity. Qed.
Lemma zsum_perm a b : Permutation a b -> zsum a = zsum b.
Proof. induction 1; cbn; try fold (zsum l) in *; try fold (zsum l') in *; try lia. Qed.

Lemma minl_in l x : In x l -> minl l <= x.
Proof. induction l as [|y l IH]; [intros []|]. cbn. fold (minl l). intros [->|H]; [lia|]. specialize (IH H). lia. Qed.
Lemma maxl_in l x : In x l -> x <= maxl l.
Proof. induction l as [|y l IH]; [intros []|]. cbn. fold (maxl l). intros [->|H]; [lia|]. specialize (IH H). lia. Qed.

Lemma zlen_app' {A} (a b : list A) : zlen (a ++ b) = zlen a + zlen b.
Proof. unfold zlen. rewrite app_length. lia. Qed.
Lemma zlen_map' {A B} (f : A -> B) l : zlen (map f l) = zlen l.
Proof. unfold zlen. rewrite map_length. reflexivity. Qed.
Lemma zlen_pos_in {A} (l : list A) : 0 < zlen l -> exists x, In x l.
Proof. destruct l as [|x l]; [cbn; lia|]. exists x. left. reflexivity. Qed.

Lemma zmin_min a b : zmin a b = Z.min a b.
Proof. unfold zmin. destruct (Z.ltb_spec b a); lia. Qed.
Lemma zmax_max a b : zmax a b = Z.max a b.
Proof. unfold zmax. destruct (Z.ltb_spec a b); lia. Qed.

(* ---------------------------------------------------------------- the detailed fields of one DetailedStatistics *)

(* A: allocation sizes, F: unused range sizes *)
Definition detail (d : dst) (A F : list Z) : Prop :=
  ds_allocs d = zlen A /\ ds_amin d = minl A /\ ds_amax d = maxl A /\
  ds_unused d = zlen F /\ ds_umin d = minl F /\ ds_umax d = maxl F.

Lemma detail_clear : detail dst_clear [] [].
Proof. repeat split. Qed.

Lemma detail_merge a b A F A' F' : detail a A F -> detail b A' F' -> detail (dst_merge a b) (A ++ A') (F ++ F').
Proof.
  intros (H1 & H2 & H3 & H4 & H5 & H6) (K1 & K2 & K3 & K4 & K5 & K6). unfold detail, dst_merge. cbn.
  rewrite !zmin_min, !zmax_max, !minl_app, !maxl_app, !zlen_app'. repeat split; congruence.
Qed.

Lemma detail_ded a A F size : detail a A F -> detail (dst_add_dedicated a size) (A ++ [size]) F.
Proof.
  intros (H1 & H2 & H3 & H4 & H5 & H6). unfold detail, dst_add_dedicated. cbn.
  rewrite !zmin_min, !zmax_max, !minl_app, !maxl_app, !zlen_app'. cbn.
  pose proof (maxl_ge A). pose proof (minl_le A). repeat split; try congruence; try lia.
Qed.

Lemma detail_perm d A F A' F' : Permutation A A' -> Permutation F F' -> detail d A F -> detail d A' F'.
Proof.
  intros PA PF (H1 & H2 & H3 & H4 & H5 & H6). unfold detail.
  rewrite <- (zlen_perm' _ _ PA), <- (minl_perm _ _ PA), <- (maxl_perm _ _ PA), <- (zlen_perm' _ _ PF), <- (minl_perm _ _ PF), <- (maxl_perm _ _ PF).
  repeat split; assumption.
Qed.

(* what CalculateStatistics asserts at the end holds for every consistent DetailedStatistics *)
Lemma detail_consistent d A F : detail d A F ->
  (0 < ds_allocs d -> ds_amin d <= ds_amax d) /\ (0 < ds_unused d -> ds_umin d <= ds_umax d).
Proof.
  intros (H1 & H2 & H3 & H4 & H5 & H6). split; intros Hp.
  - rewrite H1 in Hp. destruct (zlen_pos_in _ Hp) as (x & Hx). pose proof (minl_in _ _ Hx). pose proof (maxl_in _ _ Hx). lia.
  - rewrite H4 in Hp. destruct (zlen_pos_in _ Hp) as (x & Hx). pose proof (minl_in _ _ Hx). pose proof (maxl_in _ _ Hx). lia.
Qed.

(* ---------------------------------------------------------------- one block *)

Definition meta_alloc_sizes (mt : meta) : list Z := map rg_size (meta_live mt).

(* the unused ranges of a block: the free regions of its region tiling (TLSF: the free physical blocks and the null
   block if not empty; linear: the gaps VisitAllRegions reports) *)
Definition meta_free_sizes (mt : meta) : list Z :=
  match mt with
  | MTlsf t => map Tlsf.b_size (TlsfStep2.free_regions_pos t)
  | MLin l =>
    match Linear.visit_regions l with
    | Some rs => map Linear.region_size (filter Linear.region_is_free rs)
    | None => []
    end
  end.

(* --- TLSF *)

Lemma omin_z_t a x : x <= MAXINT -> omin_z (Tlsf.omin a x) = Z.min (omin_z a) x.
Proof. intros Hx. destruct a as [y|]; cbn; [destruct (Z.ltb_spec x y); lia|lia]. Qed.

Lemma lmin_minl l : (forall x, In x l -> x <= MAXINT) -> omin_z (TlsfStep2.lmin l) = minl l.
Proof.
  induction l as [|x l IH]; intros Hb; [reflexivity|]. cbn [TlsfStep2.lmin].
  rewrite omin_z_t by (apply Hb; left; reflexivity). rewrite IH by (intros y Hy; apply Hb; right; exact Hy). cbn. fold (minl l). lia.
Qed.

Lemma lmax_maxl l : TlsfStep2.lmax l = Z.max 0 (maxl l).
Proof.
  induction l as [|x l IH]; [reflexivity|]. cbn [TlsfStep2.lmax]. cbn. fold (maxl l). rewrite IH.
  pose proof (maxl_ge l). destruct (Z.ltb_spec (Z.max 0 (maxl l)) x); lia.
Qed.

Lemma tiles_sizes o l : TlsfStep2.tiles o l -> forall b, In b l -> 0 <= Tlsf.b_size b <= TlsfInv2.sum_sizes l.
Proof.
  revert o. induction l as [|x l IH]; intros o Ht b Hb; [destruct Hb|]. cbn in Ht. destruct Ht as (_ & Hx & Ht).
  cbn [TlsfInv2.sum_sizes]. assert (Hs : 0 <= TlsfInv2.sum_sizes l).
  { clear - Ht. revert Ht. generalize (o + Tlsf.b_size x). induction l as [|y l IHl]; intros o' Ht; cbn; [lia|]. cbn in Ht. destruct Ht as (_ & Hy & Ht). specialize (IHl _ Ht). lia. }
  destruct Hb as [<-|Hb]; [lia|]. specialize (IH _ Ht b Hb). lia.
Qed.

Lemma sum_sizes_filter l :
  (forall b, In b l -> 0 <= Tlsf.b_size b) ->
  TlsfInv2.sum_sizes l = TlsfInv2.sum_sizes (filter (fun b => negb (Tlsf.b_free b)) l) + TlsfInv2.sum_sizes (filter TlsfStep2.region_free_pos l).
Proof.
  induction l as [|x l IH]; intros Hn; [reflexivity|]. cbn [filter TlsfInv2.sum_sizes].
  rewrite IH by (intros b Hb; apply Hn; right; exact Hb).
  specialize (Hn x (or_introl eq_refl)).
  assert (E : TlsfStep2.region_free_pos x = Tlsf.b_free x && (0 <? Tlsf.b_size x)) by reflexivity. rewrite E.
  destruct (Tlsf.b_free x); cbn [negb andb TlsfInv2.sum_sizes]; [|lia]. destruct (Z.ltb_spec 0 (Tlsf.b_size x)); cbn [TlsfInv2.sum_sizes]; lia.
Qed.

Lemma sum_sizes_zsum l : TlsfInv2.sum_sizes l = zsum (map Tlsf.b_size l).
Proof. induction l as [|x l IH]; cbn; [reflexivity|]. fold (zsum (map Tlsf.b_size l)). lia. Qed.

Lemma sum_rg_zsum l : sum_rg l = zsum (map rg_size l).
Proof. induction l as [|x l IH]; cbn; [reflexivity|]. fold (zsum (map rg_size l)). lia. Qed.

(* --- linear *)

Lemma omin_z_l a x : x <= MAXINT -> omin_z (Linear.omin a x) = Z.min (omin_z a) x.
Proof. intros Hx. destruct a as [y|]; cbn; [destruct (Z.ltb_spec x y); lia|lia]. Qed.

Definition lin_step (d : Linear.dstats) (r : Linear.region) : Linear.dstats :=
  if Linear.region_is_free r then Linear.d_add_unused d (Linear.region_size r) else Linear.d_add_alloc d (Linear.region_size r).

Definition dl_ok (d : Linear.dstats) : Prop :=
  0 <= Linear.d_alloc_max d /\ 0 <= Linear.d_unused_max d /\
  omin_z (Linear.d_alloc_min d) <= MAXINT /\ omin_z (Linear.d_unused_min d) <= MAXINT.

Lemma lin_step_ok d r : dl_ok d -> Linear.region_size r <= MAXINT -> dl_ok (lin_step d r).
Proof.
  intros (A & B & C & D) Hr. unfold lin_step, dl_ok. destruct (Linear.region_is_free r).
  - unfold Linear.d_add_unused. cbn [Linear.d_alloc_min Linear.d_alloc_max Linear.d_unused_min Linear.d_unused_max].
    rewrite omin_z_l by exact Hr. destruct (Z.ltb_spec (Linear.d_unused_max d) (Linear.region_size r)); repeat split; lia.
  - unfold Linear.d_add_alloc. cbn [Linear.d_alloc_min Linear.d_alloc_max Linear.d_unused_min Linear.d_unused_max].
    rewrite omin_z_l by exact Hr. destruct (Z.ltb_spec (Linear.d_alloc_max d) (Linear.region_size r)); repeat split; lia.
Qed.

Lemma lin_fold rs : forall d,
  dl_ok d -> (forall r, In r rs -> Linear.region_size r <= MAXINT) ->
  let d' := fold_left lin_step rs d in
  let A := map Linear.region_size (LinearVisit.allocs rs) in
  let F := map Linear.region_size (filter Linear.region_is_free rs) in
  omin_z (Linear.d_alloc_min d') = Z.min (omin_z (Linear.d_alloc_min d)) (minl A) /\
  Linear.d_alloc_max d' = Z.max (Linear.d_alloc_max d) (maxl A) /\
  Linear.d_unused_count d' = Linear.d_unused_count d + zlen F /\
  omin_z (Linear.d_unused_min d') = Z.min (omin_z (Linear.d_unused_min d)) (minl F) /\
  Linear.d_unused_max d' = Z.max (Linear.d_unused_max d) (maxl F).
Proof.
  induction rs as [|r rs IH]; intros d Hok Hb; cbn [fold_left].
  - destruct Hok as (A & B & C & D). cbn. unfold zlen. cbn. repeat split; lia.
  - specialize (IH (lin_step d r) (lin_step_ok d r Hok (Hb r (or_introl eq_refl))) (fun x Hx => Hb x (or_intror Hx))). cbn zeta in *.
    destruct IH as (H1 & H2 & H3 & H4 & H5). rewrite H1, H2, H3, H4, H5.
    specialize (Hb r (or_introl eq_refl)).
    unfold LinearVisit.allocs, lin_step. cbn [filter]. destruct (Linear.region_is_free r); cbn [negb map].
    + unfold Linear.d_add_unused. cbn [Linear.d_alloc_min Linear.d_alloc_max Linear.d_unused_count Linear.d_unused_min Linear.d_unused_max].
      rewrite omin_z_l by exact Hb. cbn [minl maxl fold_right]. fold (minl (map Linear.region_size (filter Linear.region_is_free rs))).
      fold (maxl (map Linear.region_size (filter Linear.region_is_free rs))).
      unfold zlen. cbn [length]. destruct (Z.ltb_spec (Linear.d_unused_max d) (Linear.region_size r)); repeat split; lia.
    + unfold Linear.d_add_alloc. cbn [Linear.d_alloc_min Linear.d_alloc_max Linear.d_unused_count Linear.d_unused_min Linear.d_unused_max].
      rewrite omin_z_l by exact Hb. cbn [minl maxl fold_right].
      fold (minl (map Linear.region_size (filter (fun r0 => negb (Linear.region_is_free r0)) rs))).
      fold (maxl (map Linear.region_size (filter (fun r0 => negb (Linear.region_is_free r0)) rs))).
      destruct (Z.ltb_spec (Linear.d_alloc_max d) (Linear.region_size r)); repeat split; lia.
Qed.

Lemma lin_tiles_sizes lo rs hi : LinearVisit.tiles lo rs hi ->
  (forall r, In r rs -> 0 < Linear.region_size r) /\ zsum (map Linear.region_size rs) = hi - lo.
Proof.
  revert lo. induction rs as [|r rs IH]; intros lo Ht; cbn in Ht.
  - subst. split; [intros r []|cbn; lia].
  - destruct Ht as (_ & Hp & Ht). destruct (IH _ Ht) as (A & B). split; [intros x [<-|Hx]; auto|].
    cbn. fold (zsum (map Linear.region_size rs)). lia.
Qed.

Lemma zsum_filter (f : Linear.region -> bool) rs :
  zsum (map Linear.region_size rs) =
  zsum (map Linear.region_size (filter (fun r => negb (f r)) rs)) + zsum (map Linear.region_size (filter f rs)).
Proof.
  induction rs as [|r rs IH]; [reflexivity|]. cbn [filter map]. destruct (f r); cbn [negb map]; cbn; fold zsum in *;
    repeat match goal with |- context [fold_right Z.add 0 ?l] => fold (zsum l) end; lia.
Qed.

Lemma zsum_nonneg l : (forall y, In y l -> 0 <= y) -> 0 <= zsum l.
Proof.
  induction l as [|z l IH]; intros Hn; cbn; [lia|]. fold (zsum l).
  pose proof (Hn z (or_introl eq_refl)). specialize (IH (fun w Hw => Hn w (or_intror Hw))). lia.
Qed.

Lemma zsum_le_in l x : (forall y, In y l -> 0 <= y) -> In x l -> x <= zsum l.
Proof.
  induction l as [|y l IH]; intros Hn Hx; [destruct Hx|]. cbn. fold (zsum l).
  pose proof (zsum_nonneg l (fun w Hw => Hn w (or_intror Hw))). pose proof (Hn y (or_introl eq_refl)).
  destruct Hx as [<-|Hx]; [lia|]. specialize (IH (fun w Hw => Hn w (or_intror Hw)) Hx). lia.
Qed.

Lemma lin_live_sizes l : map rg_size (map lin_region (LinearInv.live l)) = map Linear.s_size (LinearInv.live l).
Proof. rewrite map_map. reflexivity. Qed.

Lemma lin_allocs_sizes l rs :
  LinearVisit.allocs rs = map LinearVisit.region_of (LinearVisit.live_ordered l) ->
  Permutation (map Linear.region_size (LinearVisit.allocs rs)) (meta_alloc_sizes (MLin l)).
Proof.
  intros ->. unfold meta_alloc_sizes. cbn [meta_live]. rewrite lin_live_sizes, map_map. cbn.
  apply Permutation_map. apply LinearVisit.live_ordered_perm.
Qed.

(* the block is tiled by its live allocations and its unused ranges; no unused range is empty *)
Lemma meta_tiling mt :
  MInv mt ->
  (forall x, In x (meta_free_sizes mt) -> 0 < x) /\ (forall x, In x (meta_alloc_sizes mt) -> 0 <= x) /\
  zsum (meta_alloc_sizes mt) + zsum (meta_free_sizes mt) = meta_size mt.
Proof.
  intros HI. destruct mt as [t|l]; cbn [MInv meta_free_sizes meta_size] in *.
  - destruct HI as [HT H2]. destruct (TlsfStep2.tlsf_bookkeeping t HT H2) as (_ & _ & _ & _ & (Htl & _ & Hsum) & _ & _).
    pose proof (tiles_sizes _ _ Htl) as Hsz. destruct HT as [Hinv _].
    split; [|split].
    + intros x Hx. apply in_map_iff in Hx. destruct Hx as (b & <- & Hb). apply filter_In in Hb. destruct Hb as (_ & Hb).
      unfold TlsfStep2.region_free_pos in Hb. apply andb_true_iff in Hb. destruct Hb as (_ & Hb). apply Z.ltb_lt in Hb. exact Hb.
    + intros x Hx. unfold meta_alloc_sizes in Hx. cbn [meta_live] in Hx. rewrite map_map in Hx. apply in_map_iff in Hx.
      destruct Hx as (b & <- & Hb). cbn. rewrite <- (TlsfStep2.taken_regions_live t Hinv) in Hb. apply filter_In in Hb. apply (Hsz b (proj1 Hb)).
    + unfold meta_alloc_sizes. cbn [meta_live]. rewrite map_map. cbn.
      change (map (fun x => Tlsf.b_size x) (Tlsf.live t)) with (map Tlsf.b_size (Tlsf.live t)).
      rewrite <- !sum_sizes_zsum, <- (TlsfStep2.taken_regions_live t Hinv), <- Hsum. symmetry. apply sum_sizes_filter.
      intros b Hb. apply (Hsz b Hb).
  - destruct (LinearVisit.visit_regions_spec l HI) as (rs & Hv & Ht & Ha). rewrite Hv.
    destruct (lin_tiles_sizes _ _ _ Ht) as (Hpos & Hsum).
    split; [|split].
    + intros x Hx. apply in_map_iff in Hx. destruct Hx as (r & <- & Hr). apply filter_In in Hr. apply Hpos. apply Hr.
    + intros x Hx. apply (Permutation_in _ (Permutation_sym (lin_allocs_sizes l rs Ha))) in Hx.
      apply in_map_iff in Hx. destruct Hx as (r & <- & Hr). apply filter_In in Hr. specialize (Hpos r (proj1 Hr)). lia.
    + rewrite <- (zsum_perm _ _ (lin_allocs_sizes l rs Ha)). unfold LinearVisit.allocs.
      rewrite <- zsum_filter. lia.
Qed.

(* AddDetailedStatistics of one block *)
Lemma meta_dstats_detail mt :
  MInv mt -> meta_size mt <= MAXINT ->
  exists d, meta_dstats mt = Some d /\ detail d (meta_alloc_sizes mt) (meta_free_sizes mt).
Proof.
  intros HI Hb. destruct (meta_tiling mt HI) as (Hfp & Han & Hsum).
  assert (HbA : forall x, In x (meta_alloc_sizes mt) -> x <= MAXINT).
  { intros x Hx. pose proof (zsum_le_in _ _ Han Hx). assert (0 <= zsum (meta_free_sizes mt)); [|lia].
    clear - Hfp. induction (meta_free_sizes mt) as [|y l IH]; cbn; [lia|]. fold (zsum l).
    pose proof (Hfp y (or_introl eq_refl)). assert (0 <= zsum l); [|lia]. apply IH. intros; apply Hfp; right; auto. }
  assert (HbF : forall x, In x (meta_free_sizes mt) -> x <= MAXINT).
  { intros x Hx. pose proof (zsum_le_in _ _ (fun y Hy => Z.lt_le_incl _ _ (Hfp y Hy)) Hx). assert (0 <= zsum (meta_alloc_sizes mt)); [|lia].
    clear - Han. induction (meta_alloc_sizes mt) as [|y l IH]; cbn; [lia|]. fold (zsum l).
    pose proof (Han y (or_introl eq_refl)). assert (0 <= zsum l); [|lia]. apply IH. intros; apply Han; right; auto. }
  destruct mt as [t|l]; cbn [MInv meta_dstats meta_size] in *.
  - destruct HI as [HT H2]. destruct (TlsfStep2.tlsf_bookkeeping t HT H2) as (_ & _ & _ & _ & _ & _ & Hd).
    eexists. split; [reflexivity|]. rewrite Hd. destruct HT as [Hinv _]. rewrite (TlsfStep2.taken_regions_live t Hinv).
    assert (EA : meta_alloc_sizes (MTlsf t) = map Tlsf.b_size (Tlsf.live t)) by (unfold meta_alloc_sizes; cbn [meta_live]; rewrite map_map; reflexivity).
    rewrite EA in *. cbn [meta_free_sizes] in *.
    unfold TlsfStep2.dspec, detail.
    cbn [ds_allocs ds_amin ds_amax ds_unused ds_umin ds_umax Tlsf.d_stats Tlsf.s_allocs Tlsf.d_unused_count Tlsf.d_alloc_min
         Tlsf.d_alloc_max Tlsf.d_unused_min Tlsf.d_unused_max].
    rewrite !lmin_minl by assumption. rewrite !lmax_maxl.
    pose proof (maxl_ge (map Tlsf.b_size (Tlsf.live t))). pose proof (maxl_ge (map Tlsf.b_size (TlsfStep2.free_regions_pos t))).
    unfold zlen, Util.zlen. rewrite !map_length. repeat split; lia.
  - destruct (LinearVisit.visit_regions_spec l HI) as (rs & Hv & Ht & Ha).
    unfold Linear.add_detailed_statistics. cbn [meta_free_sizes] in *. rewrite Hv in *.
    eexists. split; [reflexivity|].
    destruct (lin_tiles_sizes _ _ _ Ht) as (Hpos & Hs).
    assert (Hbr : forall r, In r rs -> Linear.region_size r <= MAXINT).
    { intros r Hr. assert (Hle : Linear.region_size r <= zsum (map Linear.region_size rs)).
      { apply zsum_le_in; [|apply in_map; exact Hr]. intros y Hy. apply in_map_iff in Hy. destruct Hy as (r0 & <- & H0). specialize (Hpos r0 H0). lia. }
      lia. }
    pose proof (lin_fold rs (Linear.mkDStats (Linear.mkStats 1 0 (Linear.l_size l) 0) 0 None 0 None 0) ltac:(unfold dl_ok; cbn; unfold MAXINT; lia) Hbr) as LF.
    pose proof (LinearVisit.detailed_fold rs (Linear.mkDStats (Linear.mkStats 1 0 (Linear.l_size l) 0) 0 None 0 None 0)) as DF.
    cbn zeta in LF, DF. fold lin_step in DF. unfold lin_step in LF at 1. fold lin_step in LF.
    change (fun d r => if Linear.region_is_free r then Linear.d_add_unused d (Linear.region_size r) else Linear.d_add_alloc d (Linear.region_size r)) with lin_step.
    destruct LF as (L1 & L2 & L3 & L4 & L5). destruct DF as (_ & _ & D3 & _ & _).
    set (d' := fold_left lin_step rs _) in *. cbn in L1, L2, L3, L4, L5, D3.
    apply (detail_perm _ (map Linear.region_size (LinearVisit.allocs rs)) (map Linear.region_size (filter Linear.region_is_free rs)));
      [apply lin_allocs_sizes; exact Ha|apply Permutation_refl|].
    unfold detail. cbn.
    pose proof (minl_le (map Linear.region_size (LinearVisit.allocs rs))). pose proof (maxl_ge (map Linear.region_size (LinearVisit.allocs rs))).
    pose proof (minl_le (map Linear.region_size (filter Linear.region_is_free rs))). pose proof (maxl_ge (map Linear.region_size (filter Linear.region_is_free rs))).
    rewrite D3. unfold zlen, Util.zlen in *. rewrite !map_length in *. repeat split; lia.
Qed.

(* ---------------------------------------------------------------- one memory type *)

Definition blocks_bounded (v : vam) : Prop :=
  forall lr l b, get_blist v lr = Some l -> In b (bl_blocks l) -> meta_size (bk_meta b) <= MAXINT.

Definition blocks_alloc_sizes (bs : list block) : list Z := flat_map (fun b => meta_alloc_sizes (bk_meta b)) bs.
Definition blocks_free_sizes (bs : list block) : list Z := flat_map (fun b => meta_free_sizes (bk_meta b)) bs.
Definition ded_sizes (v : vam) (slots : list Z) : list Z := map (fun s => a_size (get_alloc v s)) slots.

Lemma blocks_dstats_detail bs : forall acc A F,
  Forall (fun b => MInv (bk_meta b)) bs -> (forall b, In b bs -> meta_size (bk_meta b) <= MAXINT) -> detail acc A F ->
  exists d, blocks_dstats bs acc = Some d /\ detail d (A ++ blocks_alloc_sizes bs) (F ++ blocks_free_sizes bs).
Proof.
  induction bs as [|b tl IH]; intros acc A F HM Hb Hd; cbn [blocks_dstats blocks_alloc_sizes blocks_free_sizes flat_map].
  - exists acc. rewrite !app_nil_r. auto.
  - inversion HM as [|? ? Hmb Hmt]; subst.
    destruct (meta_dstats_detail _ Hmb (Hb b (or_introl eq_refl))) as (d0 & E0 & D0). rewrite E0.
    destruct (IH (dst_merge acc d0) _ _ Hmt (fun x Hx => Hb x (or_intror Hx)) (detail_merge _ _ _ _ _ _ Hd D0)) as (d & E & D).
    exists d. split; [exact E|]. rewrite <- !app_assoc in D. exact D.
Qed.

Lemma dedicated_dstats_detail v slots : forall acc A F,
  detail acc A F -> detail (dedicated_dstats v slots acc) (A ++ ded_sizes v slots) F.
Proof.
  unfold dedicated_dstats. induction slots as [|s tl IH]; intros acc A F Hd; cbn [fold_left ded_sizes map].
  - rewrite app_nil_r. exact Hd.
  - pose proof (IH _ _ _ (detail_ded _ _ _ (a_size (get_alloc v s)) Hd)) as D. rewrite <- app_assoc in D. exact D.
Qed.

(* the live allocations of memory type t and the unused ranges of its blocks *)
Definition pool_alloc_sizes (v : vam) (t : Z) (p : pool) : list Z :=
  if bl_type (p_list p) =? t then blocks_alloc_sizes (bl_blocks (p_list p)) ++ ded_sizes v (p_ded p) else [].
Definition pool_free_sizes (t : Z) (p : pool) : list Z :=
  if bl_type (p_list p) =? t then blocks_free_sizes (bl_blocks (p_list p)) else [].

Definition type_alloc_sizes (v : vam) (t : Z) : list Z :=
  (match get_blist v (LDef t) with Some l => blocks_alloc_sizes (bl_blocks l) | None => [] end ++
   flat_map (pool_alloc_sizes v t) (v_pools v)) ++ ded_sizes v (get_dedlist v (LDef t)).
Definition type_free_sizes (v : vam) (t : Z) : list Z :=
  match get_blist v (LDef t) with Some l => blocks_free_sizes (bl_blocks l) | None => [] end ++
  flat_map (pool_free_sizes t) (v_pools v).

Lemma pool_blist c v p : VamInv c v -> In p (v_pools v) -> get_blist v (LPool (p_uid p)) = Some (p_list p).
Proof.
  intros HI Hp0. cbn.
  assert (F : find_pool (v_pools v) (p_uid p) = Some p).
  { pose proof (vi_pools_nodup _ _ _ _ HI) as Hnd. revert Hnd Hp0. generalize (v_pools v).
    induction l as [|x l IHl]; cbn; [tauto|]. intros Hnd [->|H]; [rewrite Z.eqb_refl; reflexivity|].
    inversion Hnd as [|? ? Hx Hr]; subst. destruct (p_uid x =? p_uid p) eqn:E; [|auto].
    exfalso. apply Hx. apply Z.eqb_eq in E. rewrite E. apply in_map. auto. }
  rewrite F. reflexivity.
Qed.

Theorem stats_detail_truth c v t :
  VamInv c v -> blocks_bounded v ->
  exists d, type_dstats v t = Some d /\ detail d (type_alloc_sizes v t) (type_free_sizes v t).
Proof.
  intros HI HB. unfold type_dstats, type_alloc_sizes, type_free_sizes.
  assert (H0 : exists d0, match get_blist v (LDef t) with Some l => blocks_dstats (bl_blocks l) dst_clear | None => Some dst_clear end = Some d0 /\
                 detail d0 (match get_blist v (LDef t) with Some l => blocks_alloc_sizes (bl_blocks l) | None => [] end)
                           (match get_blist v (LDef t) with Some l => blocks_free_sizes (bl_blocks l) | None => [] end)).
  { destruct (get_blist v (LDef t)) as [l|] eqn:G; [|exists dst_clear; split; [reflexivity|apply detail_clear]].
    apply (blocks_dstats_detail (bl_blocks l) dst_clear [] []); [exact (bw_meta _ _ (vi_lists _ _ _ _ HI _ _ G))|intros b Hb; eapply HB; eauto|apply detail_clear]. }
  destruct H0 as (d0 & E0 & D0). rewrite E0. clear E0.
  set (A0 := match get_blist v (LDef t) with Some l => blocks_alloc_sizes (bl_blocks l) | None => [] end) in *.
  set (F0 := match get_blist v (LDef t) with Some l => blocks_free_sizes (bl_blocks l) | None => [] end) in *.
  assert (Hp : forall ps acc A F, (forall p, In p ps -> In p (v_pools v)) -> detail acc A F ->
            exists d, fold_left (fun acc p => match acc with
                                             | None => None
                                             | Some d => if bl_type (p_list p) =? t
                                                         then match blocks_dstats (bl_blocks (p_list p)) d with
                                                              | Some d1 => Some (dedicated_dstats v (p_ded p) d1)
                                                              | None => None end
                                                         else Some d end) ps (Some acc) = Some d /\
                      detail d (A ++ flat_map (pool_alloc_sizes v t) ps) (F ++ flat_map (pool_free_sizes t) ps)).
  { induction ps as [|p ps IH]; intros acc A F Hin Hd; cbn [fold_left flat_map].
    - exists acc. rewrite !app_nil_r. auto.
    - unfold pool_alloc_sizes at 1, pool_free_sizes at 1. destruct (bl_type (p_list p) =? t) eqn:Et.
      + pose proof (pool_blist c v p HI (Hin p (or_introl eq_refl))) as G.
        destruct (blocks_dstats_detail (bl_blocks (p_list p)) acc A F (bw_meta _ _ (vi_lists _ _ _ _ HI _ _ G))
                    (fun b Hb => HB _ _ _ G Hb) Hd) as (d1 & H1 & D1).
        rewrite H1.
        destruct (IH _ _ _ (fun q Hq => Hin q (or_intror Hq)) (dedicated_dstats_detail v (p_ded p) _ _ _ D1)) as (d2 & H2 & D2).
        exists d2. split; [exact H2|]. rewrite <- !app_assoc in D2. rewrite <- !app_assoc. exact D2.
      + cbn [app]. apply IH; [intros q Hq; apply Hin; right; auto|exact Hd]. }
  destruct (Hp (v_pools v) d0 A0 F0 (fun p H => H) D0) as (d1 & E1 & D1). rewrite E1.
  eexists. split; [reflexivity|]. apply dedicated_dstats_detail. exact D1.
Qed.

(* ---------------------------------------------------------------- heaps and total *)

Definition dsum (f : dst -> Z) (l : list dst) : Z := fold_right (fun d a => f d + a) 0 l.

(* d is the field-wise aggregate of l: sums of the counters, minima and maxima of the extremes *)
Definition agg (d : dst) (l : list dst) : Prop :=
  ds_blocks d = dsum ds_blocks l /\ ds_allocs d = dsum ds_allocs l /\ ds_block_bytes d = dsum ds_block_bytes l /\
  ds_alloc_bytes d = dsum ds_alloc_bytes l /\ ds_unused d = dsum ds_unused l /\
  ds_amin d = minl (map ds_amin l) /\ ds_amax d = maxl (map ds_amax l) /\
  ds_umin d = minl (map ds_umin l) /\ ds_umax d = maxl (map ds_umax l).

Lemma dsum_app f a b : dsum f (a ++ b) = dsum f a + dsum f b.
Proof. induction a as [|x a IH]; cbn; [reflexivity|]. fold (dsum f (a ++ b)) (dsum f a). lia. Qed.

Lemma agg_clear : agg dst_clear [].
Proof. repeat split. Qed.

Lemma agg_cons d rest part : agg rest part -> agg (dst_merge d rest) (d :: part).
Proof.
  intros (H1 & H2 & H3 & H4 & H5 & H6 & H7 & H8 & H9). unfold agg, dst_merge. cbn. rewrite !zmin_min, !zmax_max.
  repeat match goal with |- context [fold_right Z.min MAXINT ?l] => fold (minl l) end.
  repeat match goal with |- context [fold_right Z.max 0 ?l] => fold (maxl l) end.
  repeat match goal with |- context [fold_right (fun d a => ?f d + a) 0 ?l] => fold (dsum f l) end.
  repeat split; congruence.
Qed.

Lemma agg_snoc acc pre x : agg acc pre -> agg (dst_merge acc x) (pre ++ [x]).
Proof.
  intros (H1 & H2 & H3 & H4 & H5 & H6 & H7 & H8 & H9). unfold agg, dst_merge. cbn.
  rewrite !zmin_min, !zmax_max, !map_app, !minl_app, !maxl_app, !dsum_app. cbn.
  pose proof (minl_le (map ds_amin pre)). pose proof (minl_le (map ds_umin pre)).
  pose proof (maxl_ge (map ds_amax pre)). pose proof (maxl_ge (map ds_umax pre)).
  repeat split; lia.
Qed.

Lemma fold_merge_agg l : forall acc pre, agg acc pre -> agg (fold_left dst_merge l acc) (pre ++ l).
Proof.
  induction l as [|x l IH]; intros acc pre H; cbn [fold_left]; [rewrite app_nil_r; exact H|].
  replace (pre ++ x :: l) with ((pre ++ [x]) ++ l) by (rewrite <- app_assoc; reflexivity).
  apply IH. apply agg_snoc. exact H.
Qed.

Section WithCfg.
Variable c : vcfg.

(* the statistics of the memory types that belong to heap h *)
Fixpoint heap_part (pt : list dst) (t h : Z) : list dst :=
  match pt with
  | [] => []
  | d :: tl => if type_heap c t =? h then d :: heap_part tl (t + 1) h else heap_part tl (t + 1) h
  end.

Lemma heap_dstats_agg pt : forall t h, agg (heap_dstats c pt t h) (heap_part pt t h).
Proof.
  induction pt as [|d tl IH]; intros t h; cbn [heap_dstats heap_part]; [apply agg_clear|].
  destruct (type_heap c t =? h); [apply agg_cons|]; apply IH.
Qed.

Lemma heaps_dstats_nth pt n : forall h0 i, (i < n)%nat ->
  nth_error (heaps_dstats c pt n h0) i = Some (heap_dstats c pt 0 (h0 + Z.of_nat i)).
Proof.
  induction n as [|k IH]; intros h0 i Hi; [lia|]. cbn [heaps_dstats]. destruct i as [|j]; cbn [nth_error].
  - rewrite Z.add_0_r. reflexivity.
  - rewrite IH by lia. f_equal. f_equal. lia.
Qed.

Lemma heaps_dstats_length pt n : forall h0, length (heaps_dstats c pt n h0) = n.
Proof. induction n as [|k IH]; intros h0; cbn; [reflexivity|]. rewrite IH. reflexivity. Qed.

Lemma types_dstats_spec v n : forall t pt, types_dstats v n t = Some pt ->
  length pt = n /\ forall i, (i < n)%nat -> nth_error pt i = type_dstats v (t + Z.of_nat i).
Proof.
  induction n as [|k IH]; intros t pt H; cbn [types_dstats] in H.
  - injection H as <-. split; [reflexivity|intros; lia].
  - destruct (type_dstats v t) as [d|] eqn:Ed; [|discriminate]. destruct (types_dstats v k (t + 1)) as [tl|] eqn:Et; [|discriminate].
    injection H as <-. destruct (IH _ _ Et) as (L & N). split; [cbn; lia|]. intros [|j] Hj; cbn [nth_error].
    + rewrite Z.add_0_r. auto.
    + rewrite N by lia. f_equal. lia.
Qed.

Lemma types_dstats_some v n : forall t, (forall k, exists d, type_dstats v k = Some d) -> exists pt, types_dstats v n t = Some pt.
Proof.
  induction n as [|k IH]; intros t H; cbn [types_dstats]; [eauto|].
  destruct (H t) as (d & ->). destruct (IH (t + 1) H) as (tl & ->). eauto.
Qed.

Lemma fold_merge_detail l : forall acc A F,
  detail acc A F -> (forall d, In d l -> exists A' F', detail d A' F') ->
  exists A2 F2, detail (fold_left dst_merge l acc) A2 F2.
Proof.
  induction l as [|x l IH]; intros acc A F Hd Hl; cbn [fold_left]; [eauto|].
  destruct (Hl x (or_introl eq_refl)) as (A' & F' & Hx).
  apply (IH _ _ _ (detail_merge _ _ _ _ _ _ Hd Hx)). intros d Hdl. apply Hl. right. exact Hdl.
Qed.

(* CalculateStatistics never panics *)
Theorem calculate_statistics_some v :
  VamInv c v -> blocks_bounded v -> exists pt ph tot, calculate_statistics c v = Some (pt, ph, tot).
Proof.
  intros HI HB. unfold calculate_statistics.
  destruct (types_dstats_some v (length (c_types c)) 0) as (pt & Ept).
  { intros k. destruct (stats_detail_truth c v k HI HB) as (d & E & _). eauto. }
  rewrite Ept. destruct (types_dstats_spec _ _ _ _ Ept) as (Hlen & Hnth).
  destruct (fold_merge_detail pt dst_clear [] [] detail_clear) as (A & F & Dt).
  { intros d Hd. apply In_nth_error in Hd. destruct Hd as (i & Hi).
    assert (Hlt : (i < length (c_types c))%nat) by (rewrite <- Hlen; apply nth_error_Some; congruence).
    rewrite (Hnth i Hlt) in Hi. destruct (stats_detail_truth c v (0 + Z.of_nat i) HI HB) as (d' & E & D). rewrite E in Hi. injection Hi as <-. eauto. }
  destruct (detail_consistent _ _ _ Dt) as (C1 & C2).
  set (total := fold_left dst_merge pt dst_clear) in *.
  destruct ((0 <? ds_allocs total) && (ds_amax total <? ds_amin total)) eqn:E1.
  { apply andb_true_iff in E1. destruct E1 as (E1 & E2). apply Z.ltb_lt in E1, E2. specialize (C1 E1). lia. }
  destruct ((0 <? ds_unused total) && (ds_umax total <? ds_umin total)) eqn:E2.
  { apply andb_true_iff in E2. destruct E2 as (E2 & E3). apply Z.ltb_lt in E2, E3. specialize (C2 E2). lia. }
  eauto.
Qed.

(* CalculateStatistics: every memory type's entry is its truth (the four counters of stats_equal_truth and the detailed
   fields), every heap's entry is the aggregate of the memory types of the heap, the total is the aggregate of all
   memory types *)
Theorem calculate_statistics_truth v pt ph tot :
  VamInv c v -> blocks_bounded v -> calculate_statistics c v = Some (pt, ph, tot) ->
  (length pt = length (c_types c) /\
   forall i, (i < length (c_types c))%nat ->
     exists d, nth_error pt i = Some d /\ basic d = type_truth v (Z.of_nat i) /\
               detail d (type_alloc_sizes v (Z.of_nat i)) (type_free_sizes v (Z.of_nat i))) /\
  (length ph = length (c_heaps c) /\
   forall h, (h < length (c_heaps c))%nat -> exists d, nth_error ph h = Some d /\ agg d (heap_part pt 0 (Z.of_nat h))) /\
  agg tot pt.
Proof.
  intros HI HB H. unfold calculate_statistics in H.
  destruct (types_dstats v (length (c_types c)) 0) as [pt0|] eqn:Ept; [|discriminate].
  destruct (_ && _); [discriminate|]. destruct (_ && _); [discriminate|]. injection H as <- <- <-.
  destruct (types_dstats_spec _ _ _ _ Ept) as (Hlen & Hnth).
  split; [split; [exact Hlen|]|split; [split; [apply heaps_dstats_length|]|]].
  - intros i Hi. rewrite (Hnth i Hi). cbn [Z.add].
    destruct (stats_detail_truth c v (Z.of_nat i) HI HB) as (d & E & D).
    destruct (stats_equal_truth c v (Z.of_nat i) HI) as (d' & E' & B'). assert (d' = d) by congruence. subst d'.
    exists d. auto.
  - intros h Hh. rewrite (heaps_dstats_nth pt0 _ 0 h Hh). eexists. split; [reflexivity|]. cbn [Z.add]. apply heap_dstats_agg.
  - apply (fold_merge_agg pt0 dst_clear []). apply agg_clear.
Qed.

(* BuildStatsString does not panic *)
Corollary build_stats_string_np v : VamInv c v -> blocks_bounded v -> snd (build_stats_string c v) = OK tt.
Proof.
  intros HI HB. unfold build_stats_string. destruct (calculate_statistics_some v HI HB) as (pt & ph & tot & ->). reflexivity.
Qed.

End WithCfg.
