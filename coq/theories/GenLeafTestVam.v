(* GenLeafTestVam.v — vm_compute sweep (failing-input search for bin/leaf-search, see
   GenLeafTest.v) for the generated leaves that are compared with the whole-allocator model
   (VamDev.v, Vam.v).  Separate from GenLeafTest.v so that a broken Vam.v does not disable the
   search for the other functions.  Same chunk markers. *)
(* PREAMBLE *)
From Coq Require Import ZArith Bool List.
From Arsenal Require Util.
From Arsenal Require Import GoSem GenLeaf VamDev VamBlockList Vam GenLeafFlushCore.
Import ListNotations.
Open Scope Z_scope.

Definition first_diff {A B : Type} (show : A -> list Z) (eqb : B -> B -> bool) (dom : A -> bool)
           (f g : A -> B) (grid : list A) : option (list Z * B * B) :=
  match find (fun a => dom a && negb (eqb (f a) (g a))) grid with
  | Some a => Some (show a, f a, g a)
  | None => None
  end.
Definition prod2 {A B : Type} (la : list A) (lb : list B) : list (A * B) := list_prod la lb.
Definition zrange (lo n : nat) : list Z := map Z.of_nat (seq lo n).
(* a configuration with one memory type with the given flags and the given nonCoherentAtomSize *)
Definition t_cfg (atom flags : Z) : vcfg := mkVcfg 10 false 1 atom 100 false 0 false [] [mkType 0 flags].
(* END PREAMBLE *)

(* FUNC IsMemoryTypeHostNonCoherent *)
Definition diff_IsMemoryTypeHostNonCoherent :=
  first_diff (fun f => [f]) Bool.eqb (fun _ => true)
    (fun f => GenLeaf.IsMemoryTypeHostNonCoherent (type_flags (t_cfg 64 f) 0) 0)
    (fun f => non_coherent (t_cfg 64 f) 0)
    (zrange 0 64 ++ [255; 256; 258; 262; 2147483647]).
(* CHECK *)
Example sweep_IsMemoryTypeHostNonCoherent : diff_IsMemoryTypeHostNonCoherent = None. Proof. vm_compute. reflexivity. Qed.

(* FUNC MemoryTypeMinimumAlignment *)
Definition diff_MemoryTypeMinimumAlignment :=
  first_diff (fun '(atom, f) => [atom; f]) Z.eqb (fun '(atom, f) => (0 <=? atom) && (atom <? 2 ^ 63))
    (fun '(atom, f) => GenLeaf.MemoryTypeMinimumAlignment (c_atom (t_cfg atom f)) (type_flags (t_cfg atom f) 0) 0)
    (fun '(atom, f) => type_min_alignment (t_cfg atom f) 0)
    (prod2 [0; 1; 2; 4; 64; 256; 4096; 2 ^ 40; 2 ^ 62] (zrange 0 16 ++ [255; 2147483647])).
(* CHECK *)
Example sweep_MemoryTypeMinimumAlignment : diff_MemoryTypeMinimumAlignment = None. Proof. vm_compute. reflexivity. Qed.

(* FUNC flushOrInvalidateRange *)
Definition t_flush_view (g : outcome (bool * bool * Z * Z) (Z * Z)) : out (option (Z * Z)) :=
  match g with
  | Ret (_, true, _, _) => ER VK_UNKNOWN
  | Ret (true, false, off, sz) => OK (Some (off, sz))
  | Ret (false, false, _, _) => OK None
  | Panic _ => PANIC
  | Diverge => STUCK
  end.
Definition out_eqb (x y : out (option (Z * Z))) : bool :=
  match x, y with
  | OK None, OK None => true
  | OK (Some (a, b)), OK (Some (a', b')) => (a =? a') && (b =? b')
  | ER a, ER b => a =? b
  | PANIC, PANIC => true
  | STUCK, STUCK => true
  | _, _ => false
  end.
(* arguments printed: nonCoherent atom allocSize kind allocOffset blockSize offset size *)
Definition diff_flushOrInvalidateRange :=
  first_diff (fun '(nc, atom, asize, kind, aoff, bsize, offset, size) =>
                [(if nc : bool then 1 else 0); atom; asize; kind; aoff; bsize; offset; size])
    out_eqb (fun '(nc, atom, asize, kind, aoff, bsize, offset, size) => 1 <=? atom)
    (fun '(nc, atom, asize, kind, aoff, bsize, offset, size) =>
       t_flush_view (GenLeaf.flushOrInvalidateRange kind nc atom asize aoff bsize 7 9 offset size))
    (fun '(nc, atom, asize, kind, aoff, bsize, offset, size) =>
       flush_core nc atom asize kind (Some aoff) (Some bsize) offset size)
    (prod2 (prod2 (prod2 (prod2 (prod2 (prod2 (prod2 [true; false] [1; 4; 64; 256]) [1; 100; 256; 1000]) [1; 2; 3])
                                [0; 64; 100]) [1000; 1024; 4096]) [-1; 0; 1; 63; 64; 99; 100; 101; 255; 256; 999; 1000; 1001])
           [-2; -1; 0; 1; 36; 64; 100; 192; 1000]).
(* CHECK *)
Example sweep_flushOrInvalidateRange : diff_flushOrInvalidateRange = None. Proof. vm_compute. reflexivity. Qed.
(* END *)
