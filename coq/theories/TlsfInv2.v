(* TlsfInv2.v — second invariant layer of the TLSF model: the free lists hold exactly the free
   chain blocks (each in the list of its size class, once), both bitmaps say exactly which lists
   are non-empty, the three counters count what they should, the granularity table has one entry
   per page, free blocks carry no user data.  This file: definitions, the list/bitmap algebra,
   and the three primitive steps (removeFreeBlock, insertFreeBlock, checkBlock's move-to-front). *)
From Coq Require Import ZArith NArith Lia List Bool.
From Arsenal Require Import Util Bits Gran Tlsf TlsfGeom TlsfInv1 TlsfFree TlsfAlloc TlsfStep SizeClass.
Import ListNotations.
Open Scope Z_scope.

(* ------------------------------------------------------------------ generic list facts *)

Lemma update_nth_length {A} n (f : A -> A) l : length (update_nth n f l) = length l.
Proof. revert n; induction l as [|x l IH]; intros [|n]; cbn; auto. Qed.

Lemma nth_update_nth_eq {A} n (f : A -> A) l d :
  (n < length l)%nat -> nth n (update_nth n f l) d = f (nth n l d).
Proof.
  revert n; induction l as [|x l IH]; intros [|n] H; cbn in *; try lia; auto. apply IH. lia.
Qed.

Lemma nth_update_nth_neq {A} n m (f : A -> A) l d : n <> m -> nth m (update_nth n f l) d = nth m l d.
Proof.
  revert n m; induction l as [|x l IH]; intros [|n] [|m] H; cbn; auto; try lia.
Qed.

Lemma mem_z_In x l : mem_z x l = true <-> In x l.
Proof.
  induction l as [|y l IH]; cbn; [split; [discriminate|tauto]|].
  rewrite orb_true_iff, IH, Z.eqb_eq. tauto.
Qed.

Lemma remove_z_In x l y : NoDup l -> (In y (remove_z x l) <-> In y l /\ y <> x).
Proof.
  induction l as [|z l IH]; intros Hnd; cbn; [tauto|].
  inversion Hnd as [|? ? Hz Hnd']; subst.
  destruct (Z.eqb_spec z x) as [->|Hne].
  - split; [intros H; split; [auto|intros ->; auto]|intros [[H|H] Hy]; [congruence|auto]].
  - cbn. rewrite IH by auto. split; [intros [->|[H1 H2]]; auto|intros [[H|H] Hy]; auto].
Qed.

Lemma remove_z_NoDup x l : NoDup l -> NoDup (remove_z x l).
Proof.
  induction l as [|z l IH]; intros Hnd; cbn; [constructor|].
  inversion Hnd as [|? ? Hz Hnd']; subst.
  destruct (Z.eqb_spec z x); auto. constructor; auto.
  rewrite remove_z_In by auto. tauto.
Qed.

Lemma in_app_mid {A} (x b : A) f1 f2 : In x (f1 ++ b :: f2) <-> x = b \/ In x (f1 ++ f2).
Proof. rewrite !in_app_iff. cbn. intuition. Qed.

(* ------------------------------------------------------------------ free blocks of a chain *)

Definition frees (c : list blk) : list blk := filter b_free c.

Fixpoint sum_sizes (l : list blk) : Z :=
  match l with [] => 0 | b :: r => b_size b + sum_sizes r end.

Lemma frees_app a b : frees (a ++ b) = frees a ++ frees b.
Proof. apply filter_app. Qed.

Lemma sum_sizes_app a b : sum_sizes (a ++ b) = sum_sizes a + sum_sizes b.
Proof. induction a as [|x a IH]; cbn; lia. Qed.

Lemma zlen_app {A} (a b : list A) : zlen (a ++ b) = zlen a + zlen b.
Proof. unfold zlen. rewrite app_length. lia. Qed.

Lemma zlen_cons {A} (x : A) l : zlen (x :: l) = zlen l + 1.
Proof. unfold zlen. cbn [length]. lia. Qed.

Lemma zlen_nil {A} : zlen (@nil A) = 0.
Proof. reflexivity. Qed.

Lemma frees_In c b : In b (frees c) <-> In b c /\ b_free b = true.
Proof. apply filter_In. Qed.

(* ------------------------------------------------------------------ lists and bitmaps *)

Definition lat (lists : list (list Z)) (idx : Z) : list Z :=
  if idx <? 0 then [] else nth (Z.to_nat idx) lists [].

Lemma list_at_lat t idx : list_at t idx = lat (t_lists t) idx.
Proof. reflexivity. Qed.

Lemma lat_update_eq lists idx f :
  0 <= idx < zlen lists -> lat (update_nth (Z.to_nat idx) f lists) idx = f (lat lists idx).
Proof.
  intros H. unfold lat. destruct (Z.ltb_spec idx 0); [lia|].
  apply nth_update_nth_eq. unfold zlen in H. lia.
Qed.

Lemma lat_update_neq lists idx idx' f :
  0 <= idx -> idx <> idx' -> lat (update_nth (Z.to_nat idx) f lists) idx' = lat lists idx'.
Proof.
  intros H Hne. unfold lat. destruct (Z.ltb_spec idx' 0); [reflexivity|].
  apply nth_update_nth_neq. lia.
Qed.

Lemma lat_nonempty_range lists idx : lat lists idx <> [] -> 0 <= idx < zlen lists.
Proof.
  unfold lat, zlen. destruct (Z.ltb_spec idx 0) as [Hlt|Hge]; [congruence|]. intros Hne.
  destruct (Nat.lt_ge_cases (Z.to_nat idx) (length lists)) as [Hl|Hl]; [lia|].
  rewrite nth_overflow in Hne by lia. congruence.
Qed.

Definition inner_at (inner : list N) (mc : Z) : N := nth (Z.to_nat mc) inner 0%N.

Definition bits_ok (ne : Z -> Prop) (bm : N) (inner : list N) : Prop :=
  length inner = max_memory_classes /\
  (forall mc sli, 0 <= mc -> 0 <= sli ->
     (N.testbit (inner_at inner mc) (Z.to_N sli) = true <-> valid_pair mc sli /\ ne (list_index mc sli))) /\
  (forall mc, 0 <= mc -> (N.testbit bm (Z.to_N mc) = true <-> inner_at inner mc <> 0%N)).

Lemma testbit_set_bit32 bm i j :
  0 <= i < 32 -> 0 <= j ->
  N.testbit (set_bit32 bm i) (Z.to_N j) = (i =? j) || N.testbit bm (Z.to_N j).
Proof.
  intros Hi Hj. unfold set_bit32.
  destruct (Z.leb_spec 0 i); [|lia]. destruct (Z.ltb_spec i 32); [|lia]. cbn [andb].
  destruct (Z.eqb_spec i j) as [->|Hne].
  - rewrite N.setbit_eq. reflexivity.
  - rewrite N.setbit_neq by lia. reflexivity.
Qed.

Lemma testbit_clear_bit32 bm i j :
  0 <= i < 32 -> 0 <= j ->
  N.testbit (clear_bit32 bm i) (Z.to_N j) = negb (i =? j) && N.testbit bm (Z.to_N j).
Proof.
  intros Hi Hj. unfold clear_bit32.
  destruct (Z.leb_spec 0 i); [|lia]. destruct (Z.ltb_spec i 32); [|lia]. cbn [andb].
  destruct (Z.eqb_spec i j) as [->|Hne].
  - rewrite N.clearbit_eq. reflexivity.
  - rewrite N.clearbit_neq by lia. reflexivity.
Qed.

Lemma N_nonzero_bit n : n <> 0%N <-> exists j, 0 <= j /\ N.testbit n (Z.to_N j) = true.
Proof.
  split.
  - intros H. exists (Z.of_N (N.log2 n)). split; [lia|]. rewrite N2Z.id. apply N.bit_log2. exact H.
  - intros (j & _ & Hj) ->. rewrite N.bits_0 in Hj. discriminate.
Qed.

Lemma inner_at_update_eq inner mc f :
  0 <= mc < Z.of_nat (length inner) -> inner_at (update_nth (Z.to_nat mc) f inner) mc = f (inner_at inner mc).
Proof. intros H. unfold inner_at. apply nth_update_nth_eq. lia. Qed.

Lemma inner_at_update_neq inner mc mc' f :
  0 <= mc -> 0 <= mc' -> mc <> mc' -> inner_at (update_nth (Z.to_nat mc) f inner) mc' = inner_at inner mc'.
Proof. intros H H' Hne. unfold inner_at. apply nth_update_nth_neq. lia. Qed.

Lemma bits_same (ne ne' : Z -> Prop) bm inner :
  (forall idx, ne' idx <-> ne idx) -> bits_ok ne bm inner -> bits_ok ne' bm inner.
Proof.
  intros Heq (Hl & Hi & Ho). split; [auto|]. split; [|auto].
  intros mc sli Hmc Hsli. rewrite Hi by auto. rewrite Heq. tauto.
Qed.

Lemma valid_pair_range mc sli : valid_pair mc sli -> 0 <= mc < 32 /\ 0 <= sli < 32.
Proof. unfold valid_pair. intros (A & B & C). destruct (mc =? 0); lia. Qed.

Lemma bits_set (ne ne' : Z -> Prop) bm inner mc0 sli0 :
  valid_pair mc0 sli0 ->
  (forall idx, idx <> list_index mc0 sli0 -> (ne' idx <-> ne idx)) ->
  ne' (list_index mc0 sli0) ->
  bits_ok ne bm inner ->
  bits_ok ne' (set_bit32 bm mc0)
          (update_nth (Z.to_nat mc0) (fun _ => set_bit32 (inner_at inner mc0) sli0) inner).
Proof.
  intros Hv Hother Hnew (Hl & Hi & Ho).
  destruct (valid_pair_range _ _ Hv) as (Hmc0 & Hsli0).
  assert (Hlen : 0 <= mc0 < Z.of_nat (length inner)) by (rewrite Hl; unfold max_memory_classes; lia).
  split; [rewrite update_nth_length; auto|]. split.
  - intros mc sli Hmc Hsli.
    destruct (Z.eq_dec mc mc0) as [->|Hne].
    + rewrite inner_at_update_eq by auto. rewrite testbit_set_bit32 by lia.
      destruct (Z.eqb_spec sli0 sli) as [<-|Hs]; cbn [orb].
      * tauto.
      * rewrite Hi by auto.
        split; intros [Hv' Hn]; split; auto; apply Hother; auto;
          intros E; apply list_index_inj in E; auto; lia.
    + rewrite inner_at_update_neq by lia. rewrite Hi by auto.
      split; intros [Hv' Hn]; split; auto; apply Hother; auto;
        intros E; apply list_index_inj in E; auto; lia.
  - intros mc Hmc. destruct (Z.eq_dec mc mc0) as [->|Hne].
    + rewrite inner_at_update_eq by auto. rewrite testbit_set_bit32 by lia. rewrite Z.eqb_refl. cbn [orb].
      split; [intros _|auto]. apply N_nonzero_bit. exists sli0. split; [lia|].
      rewrite testbit_set_bit32 by lia. rewrite Z.eqb_refl. reflexivity.
    + rewrite inner_at_update_neq by lia. rewrite testbit_set_bit32 by lia.
      destruct (Z.eqb_spec mc0 mc); [lia|]. cbn [orb]. auto.
Qed.

Lemma bits_clear (ne ne' : Z -> Prop) bm inner mc0 sli0 :
  valid_pair mc0 sli0 ->
  (forall idx, idx <> list_index mc0 sli0 -> (ne' idx <-> ne idx)) ->
  ~ ne' (list_index mc0 sli0) ->
  bits_ok ne bm inner ->
  let in1 := clear_bit32 (inner_at inner mc0) sli0 in
  bits_ok ne' (if N.eqb in1 0 then clear_bit32 bm mc0 else bm)
          (update_nth (Z.to_nat mc0) (fun _ => in1) inner).
Proof.
  intros Hv Hother Hnew (Hl & Hi & Ho) in1.
  destruct (valid_pair_range _ _ Hv) as (Hmc0 & Hsli0).
  assert (Hlen : 0 <= mc0 < Z.of_nat (length inner)) by (rewrite Hl; unfold max_memory_classes; lia).
  split; [rewrite update_nth_length; auto|]. split.
  - intros mc sli Hmc Hsli.
    destruct (Z.eq_dec mc mc0) as [->|Hne].
    + rewrite inner_at_update_eq by auto. unfold in1. rewrite testbit_clear_bit32 by lia.
      destruct (Z.eqb_spec sli0 sli) as [<-|Hs]; cbn [negb andb].
      * split; [discriminate|tauto].
      * rewrite Hi by auto.
        split; intros [Hv' Hn]; split; auto; apply Hother; auto;
          intros E; apply list_index_inj in E; auto; lia.
    + rewrite inner_at_update_neq by lia. rewrite Hi by auto.
      split; intros [Hv' Hn]; split; auto; apply Hother; auto;
        intros E; apply list_index_inj in E; auto; lia.
  - intros mc Hmc. destruct (Z.eq_dec mc mc0) as [->|Hne].
    + rewrite inner_at_update_eq by auto.
      destruct (N.eqb_spec in1 0) as [E|E].
      * rewrite testbit_clear_bit32 by lia. rewrite Z.eqb_refl. cbn. split; [discriminate|congruence].
      * rewrite Ho by auto. split; [auto|intros _].
        intros E0. apply E. unfold in1. rewrite E0. unfold clear_bit32.
        destruct (_ && _); [apply N.bits_inj; intros k; rewrite N.clearbit_spec', !N.bits_0; reflexivity|reflexivity].
    + rewrite inner_at_update_neq by lia.
      destruct (N.eqb_spec in1 0) as [E|E]; [|auto].
      rewrite testbit_clear_bit32 by lia. destruct (Z.eqb_spec mc0 mc); [lia|]. cbn [negb andb]. auto.
Qed.

(* ------------------------------------------------------------------ the free-list invariant *)

Record FL (size : Z) (fb : list blk) (lists : list (list Z)) (bm : N) (inner : list N) (fc fs : Z) : Prop := mkFL {
  fl_size : 1 <= size < 2 ^ 39;
  fl_len : zlen lists = list_count size;
  fl_wf : Forall (fun b => b_free b = true /\ b_tag b = None /\ 1 <= b_size b <= size) fb;
  fl_nd : NoDup (map b_off fb);
  fl_in : forall idx o, In o (lat lists idx) <->
                        exists b, In b fb /\ b_off b = o /\ list_of_size (b_size b) = idx;
  fl_lnd : forall idx, NoDup (lat lists idx);
  fl_bits : bits_ok (fun idx => lat lists idx <> []) bm inner;
  fl_fc : fc = zlen fb;
  fl_fs : fs = sum_sizes fb
}.

Definition FLt (t : tlsf) : Prop :=
  FL (t_size t) (frees (t_chain t)) (t_lists t) (t_bitmap t) (t_inner t) (t_free_count t) (t_free_size t).

Lemma FLt_ext t t' :
  t_size t' = t_size t -> frees (t_chain t') = frees (t_chain t) -> t_lists t' = t_lists t ->
  t_bitmap t' = t_bitmap t -> t_inner t' = t_inner t -> t_free_count t' = t_free_count t ->
  t_free_size t' = t_free_size t -> FLt t -> FLt t'.
Proof. unfold FLt. intros -> -> -> -> -> -> ->. auto. Qed.

Lemma nodup_mid (f1 : list blk) b f2 :
  NoDup (map b_off (f1 ++ b :: f2)) ->
  NoDup (map b_off (f1 ++ f2)) /\ ~ In (b_off b) (map b_off (f1 ++ f2)).
Proof.
  rewrite !map_app. cbn [map]. intros H. split.
  - eapply NoDup_remove_1; eauto.
  - eapply NoDup_remove_2; eauto.
Qed.

Lemma nodup_mid_inv (f1 : list blk) b f2 :
  NoDup (map b_off (f1 ++ f2)) -> ~ In (b_off b) (map b_off (f1 ++ f2)) ->
  NoDup (map b_off (f1 ++ b :: f2)).
Proof.
  rewrite !map_app. cbn [map]. intros H1 H2.
  apply NoDup_Add with (a := b_off b) (l := map b_off f1 ++ map b_off f2); [|split; auto].
  apply Add_app.
Qed.

Lemma FL_idx_range size fb lists bm inner fc fs b :
  FL size fb lists bm inner fc fs -> In b fb -> 0 <= list_of_size (b_size b) < zlen lists.
Proof.
  intros H Hin. pose proof (fl_wf _ _ _ _ _ _ _ H) as Hwf. rewrite Forall_forall in Hwf.
  destruct (Hwf _ Hin) as (_ & _ & Hs). rewrite (fl_len _ _ _ _ _ _ _ H).
  apply list_of_size_lt_count. lia.
Qed.

Lemma FL_remove size f1 b f2 lists bm inner fc fs l' bm' inner' :
  FL size (f1 ++ b :: f2) lists bm inner fc fs ->
  (forall x, In x l' <-> In x (lat lists (list_of_size (b_size b))) /\ x <> b_off b) -> NoDup l' ->
  bits_ok (fun i => lat (update_nth (Z.to_nat (list_of_size (b_size b))) (fun _ => l') lists) i <> []) bm' inner' ->
  FL size (f1 ++ f2) (update_nth (Z.to_nat (list_of_size (b_size b))) (fun _ => l') lists) bm' inner'
     (fc - 1) (fs - b_size b).
Proof.
  intros H Hl' Hnd' Hbits.
  assert (Hr : 0 <= list_of_size (b_size b) < zlen lists).
  { eapply FL_idx_range; eauto. apply in_app_mid. auto. }
  set (idx := list_of_size (b_size b)) in *.
  destruct H as [Hsz Hlen Hwf Hnd Hin Hlnd _ Hfc Hfs].
  destruct (nodup_mid _ _ _ Hnd) as (Hnd2 & Hfresh).
  constructor; auto.
  - unfold zlen in *. rewrite update_nth_length. auto.
  - apply Forall_app in Hwf. destruct Hwf as (W1 & W2). inversion W2; subst. apply Forall_app; auto.
  - intros idx' o. destruct (Z.eq_dec idx idx') as [<-|Hne].
    + rewrite lat_update_eq by auto. rewrite Hl', Hin. split.
      * intros ((b' & Hb' & Ho & Hi) & Hneq). apply in_app_mid in Hb'. destruct Hb' as [->|Hb']; [congruence|].
        exists b'. auto.
      * intros (b' & Hb' & Ho & Hi). split.
        -- exists b'. split; [apply in_app_mid; auto|auto].
        -- intros ->. apply Hfresh. rewrite <- Ho. apply in_map. auto.
    + rewrite lat_update_neq by lia. rewrite Hin. split.
      * intros (b' & Hb' & Ho & Hi). apply in_app_mid in Hb'. destruct Hb' as [->|Hb']; [unfold idx in Hne; congruence|].
        exists b'. auto.
      * intros (b' & Hb' & Ho & Hi). exists b'. split; [apply in_app_mid; auto|auto].
  - intros idx'. destruct (Z.eq_dec idx idx') as [<-|Hne].
    + rewrite lat_update_eq by auto. auto.
    + rewrite lat_update_neq by lia. auto.
  - rewrite Hfc, !zlen_app, zlen_cons. lia.
  - rewrite Hfs, !sum_sizes_app. cbn [sum_sizes]. lia.
Qed.

Lemma FL_insert size f1 nb f2 lists bm inner fc fs bm' inner' :
  FL size (f1 ++ f2) lists bm inner fc fs ->
  b_free nb = true -> b_tag nb = None -> 1 <= b_size nb <= size ->
  ~ In (b_off nb) (map b_off (f1 ++ f2)) ->
  bits_ok (fun i => lat (update_nth (Z.to_nat (list_of_size (b_size nb)))
                                    (fun _ => b_off nb :: lat lists (list_of_size (b_size nb))) lists) i <> [])
          bm' inner' ->
  FL size (f1 ++ nb :: f2)
     (update_nth (Z.to_nat (list_of_size (b_size nb))) (fun _ => b_off nb :: lat lists (list_of_size (b_size nb))) lists)
     bm' inner' (fc + 1) (fs + b_size nb).
Proof.
  intros H Hf Ht Hs Hfresh Hbits.
  destruct H as [Hsz Hlen Hwf Hnd Hin Hlnd _ Hfc Hfs].
  assert (Hr : 0 <= list_of_size (b_size nb) < zlen lists).
  { rewrite Hlen. apply list_of_size_lt_count. lia. }
  set (idx := list_of_size (b_size nb)) in *.
  constructor; auto.
  - unfold zlen in *. rewrite update_nth_length. auto.
  - apply Forall_app in Hwf. destruct Hwf as (W1 & W2). apply Forall_app. split; auto.
  - apply nodup_mid_inv; auto.
  - intros idx' o. destruct (Z.eq_dec idx idx') as [<-|Hne].
    + rewrite lat_update_eq by auto. cbn [In]. rewrite Hin. split.
      * intros [<-|(b' & Hb' & Ho & Hi)].
        -- exists nb. split; [apply in_app_mid; auto|auto].
        -- exists b'. split; [apply in_app_mid; auto|auto].
      * intros (b' & Hb' & Ho & Hi). apply in_app_mid in Hb'. destruct Hb' as [->|Hb']; [auto|].
        right. exists b'. auto.
    + rewrite lat_update_neq by lia. rewrite Hin. split.
      * intros (b' & Hb' & Ho & Hi). exists b'. split; [apply in_app_mid; auto|auto].
      * intros (b' & Hb' & Ho & Hi). apply in_app_mid in Hb'. destruct Hb' as [->|Hb']; [unfold idx in Hne; congruence|].
        exists b'. auto.
  - intros idx'. destruct (Z.eq_dec idx idx') as [<-|Hne].
    + rewrite lat_update_eq by auto. constructor; auto.
      rewrite Hin. intros (b' & Hb' & Ho & _). apply Hfresh. rewrite <- Ho. apply in_map. auto.
    + rewrite lat_update_neq by lia. auto.
  - rewrite Hfc, !zlen_app, zlen_cons. lia.
  - rewrite Hfs, !sum_sizes_app. cbn [sum_sizes]. lia.
Qed.

(* reordering one list in place *)
Lemma FL_permute size fb lists bm inner fc fs idx (g : list Z -> list Z) :
  FL size fb lists bm inner fc fs ->
  0 <= idx < zlen lists ->
  (forall x, In x (g (lat lists idx)) <-> In x (lat lists idx)) -> NoDup (g (lat lists idx)) ->
  FL size fb (update_nth (Z.to_nat idx) g lists) bm inner fc fs.
Proof.
  intros [Hsz Hlen Hwf Hnd Hin Hlnd Hbits Hfc Hfs] Hr Hg Hgnd.
  constructor; auto.
  - unfold zlen in *. rewrite update_nth_length. auto.
  - intros idx' o. destruct (Z.eq_dec idx idx') as [<-|Hne].
    + rewrite lat_update_eq by auto. rewrite Hg. auto.
    + rewrite lat_update_neq by lia. auto.
  - intros idx'. destruct (Z.eq_dec idx idx') as [<-|Hne].
    + rewrite lat_update_eq by auto. auto.
    + rewrite lat_update_neq by lia. auto.
  - eapply bits_same; [|exact Hbits]. intros idx'. cbv beta.
    destruct (Z.eq_dec idx idx') as [<-|Hne].
    + rewrite lat_update_eq by auto.
      split; intros Hn E.
      * apply Hn. destruct (g (lat lists idx)) as [|x r] eqn:Eg; auto.
        exfalso. assert (Hx : In x (lat lists idx)) by (apply Hg; left; auto).
        rewrite E in Hx. destruct Hx.
      * apply Hn. destruct (lat lists idx) as [|x r] eqn:El; auto.
        exfalso. assert (Hx : In x (g (x :: r))) by (apply Hg; left; auto).
        rewrite E in Hx. destruct Hx.
    + rewrite lat_update_neq by lia. tauto.
Qed.

(* ------------------------------------------------------------------ the primitive steps on a state *)

Definition same_rest (t t' : tlsf) : Prop :=
  t_null t' = t_null t /\ t_size t' = t_size t /\ t_gran t' = t_gran t /\
  t_alloc_count t' = t_alloc_count t.

Lemma same_rest_refl t : same_rest t t.
Proof. unfold same_rest; auto. Qed.

Lemma same_rest_trans t1 t2 t3 : same_rest t1 t2 -> same_rest t2 t3 -> same_rest t1 t3.
Proof. unfold same_rest. intros (A & B & C & D) (A' & B' & C' & D'). repeat split; congruence. Qed.

Lemma frees_mid_free pre (b : blk) post :
  b_free b = true -> frees (pre ++ b :: post) = frees pre ++ b :: frees post.
Proof. intros H. rewrite frees_app. cbn [frees filter]. rewrite H. reflexivity. Qed.

Lemma frees_mid_taken pre (b : blk) post :
  b_free b = false -> frees (pre ++ b :: post) = frees pre ++ frees post.
Proof. intros H. rewrite frees_app. cbn [frees filter]. rewrite H. reflexivity. Qed.

Lemma list_of_size_unfold s :
  list_index (size_to_class s) (size_to_sli s (size_to_class s)) = list_of_size s.
Proof. reflexivity. Qed.

Lemma FLt_size t : FLt t -> 1 <= t_size t < 2 ^ 39.
Proof. intros H. exact (fl_size _ _ _ _ _ _ _ H). Qed.

Lemma FLt_blk_size t b : FLt t -> In b (t_chain t) -> b_free b = true -> 1 <= b_size b <= t_size t.
Proof.
  intros H Hin Hf. pose proof (fl_wf _ _ _ _ _ _ _ H) as Hwf. rewrite Forall_forall in Hwf.
  apply Hwf. apply frees_In. auto.
Qed.

Lemma remove_free_block_ok t b pre post :
  FLt t -> t_chain t = pre ++ b :: post -> below (b_off b) pre -> b_free b = true ->
  exists t', remove_free_block t b = Some t' /\ FLt t' /\
             t_chain t' = pre ++ set_blk b (b_off b) (b_size b) false None :: post /\ same_rest t t'.
Proof.
  intros HFL Hc Hbel Hbf. unfold FLt in HFL. rewrite Hc, frees_mid_free in HFL by auto.
  pose proof (FL_idx_range _ _ _ _ _ _ _ b HFL ltac:(apply in_app_mid; auto)) as Hr.
  assert (Hsz : 1 <= b_size b < 2 ^ 39).
  { pose proof (fl_wf _ _ _ _ _ _ _ HFL) as Hwf. rewrite Forall_forall in Hwf.
    destruct (Hwf b ltac:(apply in_app_mid; auto)) as (_ & _ & ?). pose proof (fl_size _ _ _ _ _ _ _ HFL). lia. }
  pose proof (class_valid_pair _ Hsz) as Hvp.
  destruct (valid_pair_range _ _ Hvp) as (Hmc & Hsli).
  assert (Hino : In (b_off b) (lat (t_lists t) (list_of_size (b_size b)))).
  { apply (fl_in _ _ _ _ _ _ _ HFL). exists b. split; [apply in_app_mid; auto|auto]. }
  pose proof (fl_lnd _ _ _ _ _ _ _ HFL (list_of_size (b_size b))) as Hlnd.
  pose proof (fl_bits _ _ _ _ _ _ _ HFL) as Hbits.
  unfold remove_free_block. rewrite Hbf. cbn [negb]. cbv zeta.
  rewrite list_of_size_unfold, list_at_lat.
  set (idx := list_of_size (b_size b)) in *.
  set (mc := size_to_class (b_size b)) in *. set (sli := size_to_sli (b_size b) mc) in *.
  assert (Hchain' : replace_blk (b_off b) (set_blk b (b_off b) (b_size b) false None) (t_chain t)
                    = pre ++ set_blk b (b_off b) (b_size b) false None :: post).
  { rewrite Hc. apply replace_blk_app; auto. }
  assert (Hfin : forall lists' bm' inner' l',
             lists' = update_nth (Z.to_nat idx) (fun _ => l') (t_lists t) ->
             (forall x, In x l' <-> In x (lat (t_lists t) idx) /\ x <> b_off b) -> NoDup l' ->
             bits_ok (fun i => lat lists' i <> []) bm' inner' ->
             exists t', Some (set_lists t lists' bm' inner' (t_free_count t - 1) (t_free_size t - b_size b)
                                (replace_blk (b_off b) (set_blk b (b_off b) (b_size b) false None) (t_chain t))) = Some t' /\
                        FLt t' /\ t_chain t' = pre ++ set_blk b (b_off b) (b_size b) false None :: post /\ same_rest t t').
  { intros lists' bm' inner' l' -> Hl' Hnd' Hb'. eexists. split; [reflexivity|].
    split; [|split; [exact Hchain'|unfold same_rest; cbn; auto]].
    unfold FLt. cbn [set_lists t_size t_chain t_lists t_bitmap t_inner t_free_count t_free_size].
    rewrite Hchain', frees_mid_taken by reflexivity.
    apply (FL_remove _ _ _ _ _ _ _ _ _ _ _ _ HFL); auto. }
  destruct (lat (t_lists t) idx) as [|h rest] eqn:El; [destruct Hino|].
  destruct (Z.eqb_spec h (b_off b)) as [Hh|Hh].
  - destruct (Z.ltb_spec idx 0); [lia|]. destruct (Z.leb_spec (zlen (t_lists t)) idx); [lia|]. cbn [orb].
    inversion Hlnd as [|hh rr Hnh Hndr]; subst hh rr h.
    assert (Hrest : forall x, In x rest <-> In x (b_off b :: rest) /\ x <> b_off b).
    { intros x. cbn [In]. split; [intros Hx; split; auto; intros ->; auto|intros [[E|Hx] Hne]; congruence]. }
    destruct rest as [|r0 rest'].
    + destruct (Z.ltb_spec mc 0); [lia|].
      destruct (Z.leb_spec (Z.of_nat max_memory_classes) mc); [unfold max_memory_classes in *; lia|]. cbn [orb].
      eapply Hfin; [reflexivity|exact Hrest|constructor|].
      pose proof (bits_clear (fun i => lat (t_lists t) i <> [])
                    (fun i => lat (update_nth (Z.to_nat idx) (fun _ => []) (t_lists t)) i <> [])
                    (t_bitmap t) (t_inner t) mc sli Hvp) as HH.
      cbv zeta beta in HH. apply HH; [| |exact Hbits].
      * intros i Hi. change (list_index mc sli) with idx in Hi. rewrite lat_update_neq by lia. tauto.
      * change (list_index mc sli) with idx. rewrite lat_update_eq by auto. auto.
    + eapply Hfin; [reflexivity|exact Hrest|exact Hndr|].
      eapply bits_same; [|exact Hbits]. intros i; cbv beta.
      destruct (Z.eq_dec idx i) as [<-|Hne].
      * rewrite lat_update_eq by auto. rewrite El. split; intros _; discriminate.
      * rewrite lat_update_neq by lia. tauto.
  - assert (Hmem : mem_z (b_off b) rest = true).
    { apply mem_z_In. destruct Hino as [E|Hx]; [congruence|auto]. }
    rewrite Hmem.
    inversion Hlnd as [|hh rr Hnh Hndr]; subst hh rr.
    eapply Hfin; [reflexivity| | |].
    + intros x. cbn [In]. rewrite remove_z_In by auto. split.
      * intros [<-|[Hx Hne]]; split; auto.
      * intros [[E|Hx] Hne]; auto.
    + constructor; [|apply remove_z_NoDup; auto]. rewrite remove_z_In by auto. tauto.
    + eapply bits_same; [|exact Hbits]. intros i; cbv beta.
      destruct (Z.eq_dec idx i) as [<-|Hne].
      * rewrite lat_update_eq by auto. rewrite El. split; intros _; discriminate.
      * rewrite lat_update_neq by lia. tauto.
Qed.

Lemma insert_free_block_ok t b pre post :
  FLt t -> t_chain t = pre ++ b :: post -> below (b_off b) pre -> b_free b = false ->
  ~ In (b_off b) (map b_off (frees (pre ++ post))) -> 1 <= b_size b <= t_size t ->
  exists t', insert_free_block t b = Some t' /\ FLt t' /\
             t_chain t' = pre ++ mkBlk (b_off b) (b_size b) true None 0 0 1 :: post /\ same_rest t t'.
Proof.
  intros HFL Hc Hbel Hbf Hfresh Hsz. unfold FLt in HFL. rewrite Hc, frees_mid_taken in HFL by auto.
  pose proof (fl_size _ _ _ _ _ _ _ HFL) as Hts.
  assert (Hsz' : 1 <= b_size b < 2 ^ 39) by lia.
  pose proof (class_valid_pair _ Hsz') as Hvp.
  destruct (valid_pair_range _ _ Hvp) as (Hmc & Hsli).
  pose proof (fl_bits _ _ _ _ _ _ _ HFL) as Hbits.
  assert (Hr : 0 <= list_of_size (b_size b) < zlen (t_lists t)).
  { rewrite (fl_len _ _ _ _ _ _ _ HFL). apply list_of_size_lt_count. lia. }
  rewrite frees_app in Hfresh.
  unfold insert_free_block. rewrite Hbf. cbv zeta.
  rewrite list_of_size_unfold, list_at_lat.
  set (idx := list_of_size (b_size b)) in *.
  set (mc := size_to_class (b_size b)) in *. set (sli := size_to_sli (b_size b) mc) in *.
  destruct (Z.ltb_spec idx 0); [lia|]. destruct (Z.leb_spec (zlen (t_lists t)) idx); [lia|]. cbn [orb].
  set (freeb := mkBlk (b_off b) (b_size b) true None 0 0 1).
  assert (Hchain' : replace_blk (b_off b) freeb (t_chain t) = pre ++ freeb :: post).
  { rewrite Hc. apply replace_blk_app; auto. }
  assert (Hfin : forall bm' inner',
             bits_ok (fun i => lat (update_nth (Z.to_nat idx) (fun _ => b_off b :: lat (t_lists t) idx) (t_lists t)) i <> []) bm' inner' ->
             exists t', Some (set_lists t (update_nth (Z.to_nat idx) (fun _ => b_off b :: lat (t_lists t) idx) (t_lists t))
                                bm' inner' (t_free_count t + 1) (t_free_size t + b_size b)
                                (replace_blk (b_off b) freeb (t_chain t))) = Some t' /\
                        FLt t' /\ t_chain t' = pre ++ freeb :: post /\ same_rest t t').
  { intros bm' inner' Hb'. eexists. split; [reflexivity|].
    split; [|split; [exact Hchain'|unfold same_rest; cbn; auto]].
    unfold FLt. cbn [set_lists t_size t_chain t_lists t_bitmap t_inner t_free_count t_free_size].
    rewrite Hchain', frees_mid_free by reflexivity.
    apply (FL_insert _ _ freeb _ _ _ _ _ _ _ _ HFL); auto. }
  destruct (lat (t_lists t) idx) as [|h rest] eqn:El.
  - destruct (Z.ltb_spec mc 0); [lia|].
    destruct (Z.leb_spec (Z.of_nat max_memory_classes) mc); [unfold max_memory_classes in *; lia|]. cbn [orb].
    apply Hfin.
    apply (bits_set (fun i => lat (t_lists t) i <> []) _ _ _ mc sli Hvp); [| |exact Hbits]; cbv beta.
    + intros i Hi. change (list_index mc sli) with idx in Hi. rewrite lat_update_neq by lia. tauto.
    + change (list_index mc sli) with idx. rewrite lat_update_eq by auto. discriminate.
  - apply Hfin. eapply bits_same; [|exact Hbits]. intros i; cbv beta.
    destruct (Z.eq_dec idx i) as [<-|Hne].
    + rewrite lat_update_eq by auto. rewrite El. split; intros _; discriminate.
    + rewrite lat_update_neq by lia. tauto.
Qed.

Lemma move_to_front_In o l x : NoDup l -> In o l -> (In x (move_to_front o l) <-> In x l).
Proof.
  intros Hnd Ho. unfold move_to_front. destruct l as [|h r]; [tauto|].
  destruct (Z.eqb_spec h o); [tauto|].
  cbn [In]. rewrite remove_z_In by auto. cbn [In].
  destruct (Z.eq_dec x o) as [->|Hx]; [tauto|]. split.
  - intros [E|[H _]]; [congruence|auto].
  - intros H. right. auto.
Qed.

Lemma move_to_front_NoDup o l : NoDup l -> NoDup (move_to_front o l).
Proof.
  intros Hnd. unfold move_to_front. destruct l as [|h r]; [constructor|].
  destruct (Z.eqb_spec h o); [auto|].
  constructor; [|apply remove_z_NoDup; auto]. rewrite remove_z_In by auto. tauto.
Qed.

Lemma check_block_FLt t b li a al ty mo t' r :
  FLt t -> (forall idx, li = Some idx -> In (b_off b) (list_at t idx)) ->
  check_block t b li a al ty mo = CBOk t' r -> FLt t'.
Proof.
  intros HFL Hli. unfold check_block. destruct (negb (b_free b)); [discriminate|].
  destruct (b_size b <? _); [discriminate|].
  destruct (check_conflict _ _ _ _ _ _) as [[al' [|]]|]; try discriminate.
  destruct (mo <=? al'); [discriminate|].
  destruct li as [idx|]; [|intros H; injection H as <- _; auto].
  destruct (Z.ltb_spec idx 0); cbn [orb]; [intros H'; injection H' as <- _; auto|].
  destruct (Z.leb_spec (zlen (t_lists t)) idx); [intros H'; injection H' as <- _; auto|].
  intros H'; injection H' as <- _.
  unfold FLt. cbn [set_lists t_size t_chain t_lists t_bitmap t_inner t_free_count t_free_size].
  specialize (Hli idx eq_refl). rewrite list_at_lat in Hli.
  apply FL_permute; auto.
  - intros x. apply move_to_front_In; auto. apply (fl_lnd _ _ _ _ _ _ _ HFL).
  - apply move_to_front_NoDup. apply (fl_lnd _ _ _ _ _ _ _ HFL).
Qed.

(* ------------------------------------------------------------------ the granularity table *)

Definition cdiv (size gr : Z) : Z := size / gr + (if size mod gr >? 0 then 1 else 0).

Definition gtab_ok (g : gran) (size : Z) : Prop :=
  enabled g = true -> zlen (g_regions g) = cdiv size (g_g g).

Lemma slot_of_div g off : pow2 (g_g g) -> slot_of g off = off / g_g g.
Proof.
  intros (k & Hk & E). unfold slot_of. rewrite E. rewrite Z.log2_pow2 by lia.
  replace (2 ^ k - 1) with (Z.ones k) by (rewrite Z.ones_equiv; lia).
  rewrite land_lnot_ones by lia. rewrite Z.shiftr_div_pow2 by lia.
  pose proof (Z.pow_pos_nonneg 2 k ltac:(lia) Hk) as Hp.
  rewrite (Z.div_mod off (2 ^ k)) at 1 by lia.
  replace (2 ^ k * (off / 2 ^ k) + off mod 2 ^ k - off mod 2 ^ k) with ((off / 2 ^ k) * 2 ^ k) by lia.
  apply Z.div_mul. lia.
Qed.

Lemma cdiv_gt size gr off : 0 < gr -> 0 <= off < size -> 0 <= off / gr < cdiv size gr.
Proof.
  intros Hg Ho. unfold cdiv. split; [apply Z.div_pos; lia|].
  pose proof (Z.div_mod size gr ltac:(lia)) as E. pose proof (Z.mod_pos_bound size gr Hg) as B.
  destruct (Z.gtb_spec (size mod gr) 0) as [Hm|Hm].
  - assert (off / gr <= size / gr) by (apply Z.div_le_mono; lia). lia.
  - assert (Hm0 : size mod gr = 0) by lia. rewrite Hm0 in E.
    assert (off / gr < size / gr); [|lia].
    apply Z.div_lt_upper_bound; [lia|]. lia.
Qed.

Lemma region_at_some g slot : 0 <= slot < zlen (g_regions g) -> exists r, region_at g slot = Some r.
Proof.
  intros H. unfold region_at. destruct (Z.ltb_spec slot 0); [lia|].
  destruct (nth_error (g_regions g) (Z.to_nat slot)) as [r|] eqn:E; [eauto|].
  apply nth_error_None in E. unfold zlen in H. lia.
Qed.

Lemma enabled_gpos g : enabled g = true -> 256 < g_g g.
Proof. unfold enabled. destruct (g_h g); [discriminate|]. intros H. lia. Qed.

Lemma slot_in_table g size off :
  pow2 (g_g g) -> gtab_ok g size -> enabled g = true -> 0 <= off < size ->
  exists r, region_at g (slot_of g off) = Some r.
Proof.
  intros Hp Hok He Ho. apply region_at_some. rewrite slot_of_div by auto. rewrite (Hok He).
  apply cdiv_gt; auto. pose proof (enabled_gpos _ He). lia.
Qed.

Lemma upd_region_same g s f g' :
  upd_region g s f = Some g' ->
  g_h g' = g_h g /\ g_g g' = g_g g /\ length (g_regions g') = length (g_regions g).
Proof.
  unfold upd_region. destruct (region_at g s); [|discriminate]. intros H; injection H as <-. cbn.
  rewrite update_nth_length. auto.
Qed.

Lemma enabled_same g g' : g_h g' = g_h g -> g_g g' = g_g g -> enabled g' = enabled g.
Proof. unfold enabled. intros -> ->. reflexivity. Qed.

Lemma gtab_ok_same g g' size :
  g_h g' = g_h g -> g_g g' = g_g g -> length (g_regions g') = length (g_regions g) ->
  gtab_ok g size -> gtab_ok g' size.
Proof.
  intros Hh Hg Hl H He. rewrite (enabled_same _ _ Hh Hg) in He. unfold zlen. rewrite Hl, Hg. apply H; auto.
Qed.

Lemma upd_region_ok g size off f :
  pow2 (g_g g) -> gtab_ok g size -> enabled g = true -> 0 <= off < size ->
  exists g', upd_region g (slot_of g off) f = Some g'.
Proof.
  intros Hp Hok He Ho. destruct (slot_in_table g size off Hp Hok He Ho) as (r & Hr).
  unfold upd_region. rewrite Hr. eauto.
Qed.

(* both AllocRegions and FreeRegions touch the first and the last page of the range *)
Lemma two_slot_update_ok g size off sz f :
  pow2 (g_g g) -> gtab_ok g size -> 0 <= off -> 1 <= sz -> off + sz <= size ->
  exists g',
    (if negb (enabled g) then Some g else
       match upd_region g (start_slot g off) f with
       | None => None
       | Some g1 => if start_slot g off =? end_slot g off sz then Some g1 else upd_region g1 (end_slot g off sz) f
       end) = Some g' /\
    g_h g' = g_h g /\ g_g g' = g_g g /\ length (g_regions g') = length (g_regions g).
Proof.
  intros Hp Hok Ho Hs Hfit. destruct (enabled g) eqn:He; cbn [negb]; [|eauto].
  unfold start_slot, end_slot.
  destruct (upd_region_ok g size off f Hp Hok He ltac:(lia)) as (g1 & E1). rewrite E1.
  destruct (upd_region_same _ _ _ _ E1) as (Hh1 & Hg1 & Hl1).
  destruct (_ =? _); [eauto|].
  assert (Hslot : slot_of g (off + sz - 1) = slot_of g1 (off + sz - 1)).
  { unfold slot_of. rewrite Hg1. reflexivity. }
  rewrite Hslot.
  destruct (upd_region_ok g1 size (off + sz - 1) f) as (g2 & E2); try lia.
  - rewrite Hg1; auto.
  - eapply gtab_ok_same; eauto.
  - rewrite (enabled_same _ _ Hh1 Hg1). auto.
  - rewrite E2. destruct (upd_region_same _ _ _ _ E2) as (Hh2 & Hg2 & Hl2).
    exists g2. repeat split; congruence.
Qed.

Lemma alloc_regions_ok g size ty off sz :
  pow2 (g_g g) -> gtab_ok g size -> 0 <= off -> 1 <= sz -> off + sz <= size ->
  exists g', alloc_regions g ty off sz = Some g' /\
             g_h g' = g_h g /\ g_g g' = g_g g /\ length (g_regions g') = length (g_regions g).
Proof. intros. unfold alloc_regions. eapply two_slot_update_ok; eauto. Qed.

Lemma free_regions_ok g size off sz :
  pow2 (g_g g) -> gtab_ok g size -> 0 <= off -> 1 <= sz -> off + sz <= size ->
  exists g', free_regions g off sz = Some g' /\
             g_h g' = g_h g /\ g_g g' = g_g g /\ length (g_regions g') = length (g_regions g).
Proof. intros. unfold free_regions. eapply two_slot_update_ok; eauto. Qed.

Lemma check_conflict_ok g size a sz ro rs ty :
  pow2 (g_g g) -> gtab_ok g size -> 0 <= ro -> ro <= a -> 1 <= sz -> sz + a - ro <= rs -> ro + rs <= size ->
  check_conflict g a sz ro rs ty <> None.
Proof.
  intros Hp Hok Hro Ha Hsz Hfit Hend. unfold check_conflict.
  destruct (enabled g) eqn:He; cbn [negb]; [|discriminate].
  assert (Hend_check : forall off st, a <= off -> off + sz <= size ->
             (let e := end_slot g off sz in
              if e =? st then Some (off, false)
              else match region_at g e with None => None | Some r => Some (off, slot_conflicts r ty) end) <> None).
  { intros off st Hoff Hfit2. cbv zeta. destruct (_ =? st); [discriminate|].
    unfold end_slot. destruct (slot_in_table g size (off + sz - 1) Hp Hok He ltac:(lia)) as (r & ->). discriminate. }
  unfold start_slot.
  destruct (slot_in_table g size a Hp Hok He ltac:(lia)) as (r1 & ->).
  destruct (slot_conflicts r1 ty).
  - pose proof (align_up_bounds a (g_g g) Hp) as ((Hlo & _) & _).
    destruct (Z.ltb_spec rs (sz + align_up a (g_g g) - ro)); [discriminate|].
    destruct (slot_in_table g size (align_up a (g_g g)) Hp Hok He ltac:(lia)) as (r2 & ->).
    destruct (slot_conflicts r2 ty); [discriminate|].
    apply Hend_check; lia.
  - apply Hend_check; lia.
Qed.

(* ------------------------------------------------------------------ Inv2 *)

Record Inv2 (t : tlsf) : Prop := mkInv2 {
  i2_fl : FLt t;
  i2_alloc : t_alloc_count t = zlen (live t);
  i2_gran : gtab_ok (t_gran t) (t_size t);
  i2_null : t_null t = free_blk (b_off (t_null t)) (b_size (t_null t))
}.

Lemma nth_repeat_nil {A} n k : nth k (repeat (@nil A) n) [] = [].
Proof. revert k; induction n as [|n IH]; intros [|k]; cbn; auto. Qed.

Lemma nth_repeat_N0 n k : nth k (repeat 0%N n) 0%N = 0%N.
Proof. revert k; induction n as [|n IH]; intros [|k]; cbn; auto. Qed.

Lemma lat_repeat n idx : lat (repeat [] n) idx = [].
Proof. unfold lat. destruct (idx <? 0); auto. apply nth_repeat_nil. Qed.

Lemma bits_ok_empty (ne : Z -> Prop) :
  (forall idx, ~ ne idx) -> bits_ok ne 0%N (repeat 0%N max_memory_classes).
Proof.
  intros Hne. split; [apply repeat_length|]. split.
  - intros mc sli _ _. unfold inner_at. rewrite nth_repeat_N0, N.bits_0.
    split; [discriminate|]. intros [_ H]. destruct (Hne _ H).
  - intros mc _. unfold inner_at. rewrite nth_repeat_N0, N.bits_0. split; [discriminate|congruence].
Qed.

Lemma FL_empty size n : 1 <= size < 2 ^ 39 -> Z.of_nat n = list_count size ->
  FL size [] (repeat [] n) 0%N (repeat 0%N max_memory_classes) 0 0.
Proof.
  intros Hs Hn. constructor; auto.
  - unfold zlen. rewrite repeat_length. auto.
  - constructor.
  - intros idx o. rewrite lat_repeat. split; [intros []|intros (b & [] & _)].
  - intros idx. rewrite lat_repeat. constructor.
  - apply bits_ok_empty. intros idx. rewrite lat_repeat. congruence.
Qed.

Lemma gran_init_gtab h gr size : 0 <= size -> gtab_ok (gran_init h gr size) size.
Proof.
  intros Hsz. unfold gran_init. destruct (enabled (mkGran h gr [])) eqn:He.
  - intros _. cbn [g_regions g_g]. unfold zlen. rewrite repeat_length. unfold cdiv.
    pose proof (enabled_gpos _ He) as Hg. cbn in Hg.
    rewrite Z2Nat.id; [reflexivity|].
    pose proof (Z.div_pos size gr ltac:(lia) ltac:(lia)).
    destruct (size mod gr >? 0); lia.
  - intros He'. congruence.
Qed.

Lemma init_inv2 h gr size : 1 <= size < 2 ^ 39 -> Inv2 (tlsf_init h gr size).
Proof.
  intros Hs. constructor.
  - unfold FLt, tlsf_init. cbn [t_size t_chain t_lists t_bitmap t_inner t_free_count t_free_size frees filter].
    apply FL_empty; auto. pose proof (list_count_pos size ltac:(lia)). lia.
  - reflexivity.
  - cbn [tlsf_init t_gran t_size]. apply gran_init_gtab. lia.
  - reflexivity.
Qed.

Lemma clear_inv2 t : Inv2 t -> Inv2 (tlsf_clear t).
Proof.
  intros [HFL Ha Hg Hn]. constructor.
  - unfold FLt, tlsf_clear. cbn [t_size t_chain t_lists t_bitmap t_inner t_free_count t_free_size frees filter].
    apply FL_empty; [apply (fl_size _ _ _ _ _ _ _ HFL)|apply (fl_len _ _ _ _ _ _ _ HFL)].
  - reflexivity.
  - cbn [tlsf_clear t_gran t_size]. eapply gtab_ok_same; [| | |exact Hg]; cbn; auto. apply repeat_length.
  - cbn [tlsf_clear t_null]. rewrite Hn. reflexivity.
Qed.

(* side conditions of insertFreeBlock from the geometry of the chain it is applied to *)
Lemma insert_side size pre nb post :
  chain_from 0 (pre ++ nb :: post) -> chain_end 0 (pre ++ nb :: post) <= size ->
  below (b_off nb) pre /\ ~ In (b_off nb) (map b_off (frees (pre ++ post))) /\ 1 <= b_size nb <= size.
Proof.
  intros Hch Hend. pose proof (below_of_chain _ _ _ _ Hch) as Hbel.
  pose proof (above_of_chain _ _ _ _ Hch) as Habove.
  split; [exact Hbel|]. split.
  - rewrite in_map_iff. intros (x & Hx & Hin). apply frees_In in Hin. destruct Hin as (Hin & _).
    apply in_app_iff in Hin. destruct Hin as [Hin|Hin].
    + unfold below in Hbel. rewrite Forall_forall in Hbel. apply (Hbel _ Hin). auto.
    + rewrite Forall_forall in Habove. specialize (Habove _ Hin). lia.
  - pose proof (chain_in_bounds _ _ nb Hch ltac:(apply in_app_mid; auto)). lia.
Qed.

Lemma chain_merge o pre x y post z :
  chain_from o (pre ++ x :: y :: post) -> b_off z = b_off x -> b_size z = b_size x + b_size y ->
  chain_from o (pre ++ z :: post) /\ chain_end o (pre ++ z :: post) = chain_end o (pre ++ x :: y :: post).
Proof.
  intros H Ho Hs. apply chain_from_app in H. destruct H as (Hp & Hr). cbn [chain_from] in Hr.
  destruct Hr as (Hxo & Hxs & Hyo & Hys & Hpost). split.
  - apply chain_from_app. split; auto. cbn [chain_from]. rewrite Ho, Hs. split; auto. split; [lia|].
    replace (chain_end o pre + (b_size x + b_size y)) with (chain_end o pre + b_size x + b_size y) by lia. auto.
  - rewrite !chain_end_app. cbn [chain_end]. rewrite Hs. f_equal. lia.
Qed.

Lemma chain_retag o pre x post z :
  chain_from o (pre ++ x :: post) -> b_off z = b_off x -> b_size z = b_size x ->
  chain_from o (pre ++ z :: post) /\ chain_end o (pre ++ z :: post) = chain_end o (pre ++ x :: post).
Proof.
  intros H Ho Hs. apply chain_from_app in H. destruct H as (Hp & Hr). cbn [chain_from] in Hr. split.
  - apply chain_from_app. split; auto. cbn [chain_from]. rewrite Ho, Hs. auto.
  - rewrite !chain_end_app. cbn [chain_end]. rewrite Hs. reflexivity.
Qed.
