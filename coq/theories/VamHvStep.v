(* VamHvStep.v — fifth pass over the block-list layer: VamInvM (VamMapStep.v) together with HH (VamHv.v: every
   vkMapMemory of the running call was on host-visible memory; persistently mapped allocations live in
   host-visible memory).  The request flag Mapped reaches commitAllocationRequest only for host-visible memory
   types (hypothesis map_hv, established in VamHvStep2.alloc_of_type_inv from calculateMemoryTypeParameters). *)
From Coq Require Import ZArith List Bool Lia Permutation.
From Arsenal Require Import Util Budget BudgetProofs VamDev VamBlockList Vam VamInvMeta VamInv VamInvUpd VamInvDev.
From Arsenal Require Import VamInvStep VamInvStep2 VamAcct VamAcctStep VamMap VamMapStep VamHv.
From Arsenal Require SyncMem SyncMemProofs.
Import ListNotations.
Open Scope Z_scope.

Section WithCfg.
Variable c : vcfg.
Hypothesis Hc : cfg_ok c.
Hypothesis Hmax : 0 <= c_maxcount c < 2147483647.
Hypothesis Hlarge : 0 <= c_large c < 2 ^ 61.
Variable ms0 : list dmem.
Set Default Proof Using "Hc Hmax Hlarge".

Notation VamInvM := (VamMapStep.VamInvM c ms0).
Notation mach_sameX := (VamMapStep.mach_sameX c).
Notation HHc := (HH c ms0).

(* all four invariants *)
Record VamInvH (v : vam) (U X : list Z) : Prop := mkVamInvH {
  vh_m : VamInvM v U X;
  vh_h : HHc v X
}.

Lemma vh_s v U X : VamInvH v U X -> VamInvU c v U X.
Proof. intros [A _]. apply (VamMapStep.vm_s c Hc Hmax Hlarge ms0 _ _ _ A). Qed.
Lemma vh_aa v U X : VamInvH v U X -> AInv c v X.
Proof. intros [A _]. apply (VamMapStep.vm_aa c Hc Hmax Hlarge ms0 _ _ _ A). Qed.
Lemma vh_mm v U X : VamInvH v U X -> MM ms0 v X.
Proof. intros [A _]. apply (VamMapStep.vm_m c ms0 _ _ _ A). Qed.

Lemma heap_budget_sameX m h : mach_sameX m (fst (fst (heap_budget c m h))).
Proof. apply (VamMapStep.heap_budget_sameX c Hc Hmax Hlarge). Qed.

Lemma tab_eq_frame v v' : v_tab v' = v_tab v -> tab_frame v v' [].
Proof. intros E. split; [rewrite E; reflexivity|intros; rewrite E; reflexivity]. Qed.

Lemma VamInvH_mach_same v U X m' : VamInvH v U X -> mach_sameX (v_m v) m' -> VamInvH (set_m v m') U X.
Proof.
  intros [A H] Hm. split; [apply (VamMapStep.VamInvM_mach_same c Hc Hmax Hlarge ms0); auto|].
  apply (HH_mach c); [exact H|apply mach_ext_sameM; apply Hm].
Qed.

(* list-only changes: HH looks at the machine and the table only *)
Lemma HH_lists v X v' : HHc v X -> v_m v' = v_m v -> tab_frame v v' [] -> HHc v' X.
Proof. intros H Em T. apply (HH_step c ms0 v X); [exact H|rewrite Em; apply mach_ext_refl|apply persist_sub_nil; exact T]. Qed.

Lemma put_block_same_inv v U X lr l b nb :
  VamInvH v U X -> get_blist v lr = Some l -> In b (bl_blocks l) -> block_same b nb -> MInv (bk_meta nb) -> bk_sm nb = bk_sm b ->
  VamInvH (put_block v lr nb) U X /\ tab_frame v (put_block v lr nb) [] /\ lists_frame v (put_block v lr nb).
Proof.
  intros [A H] Hg Hb Hs Hm Esm.
  destruct (VamMapStep.put_block_same_inv c Hc Hmax Hlarge ms0 v U X lr l b nb A Hg Hb Hs Hm Esm) as (I1 & T1 & L1).
  split; [|split; auto]. split; [exact I1|apply (HH_lists v X); [exact H|apply put_block_m|exact T1]].
Qed.

Lemma permute_inv v U X lr l bs :
  VamInvH v U X -> get_blist v lr = Some l -> Permutation (bl_blocks l) bs ->
  VamInvH (set_blist v lr (set_blocks l bs)) U X /\ tab_frame v (set_blist v lr (set_blocks l bs)) [] /\
  lists_frame v (set_blist v lr (set_blocks l bs)).
Proof.
  intros [A H] Hg P. destruct (VamMapStep.permute_inv c Hc Hmax Hlarge ms0 v U X lr l bs A Hg P) as (I1 & T1 & L1).
  split; [|split; auto]. split; [exact I1|apply (HH_lists v X); [exact H|apply set_blist_m|exact T1]].
Qed.

Lemma sort_list_inv v U X lr :
  VamInvH v U X ->
  VamInvH (sort_list v lr) U X /\ tab_frame v (sort_list v lr) [] /\ lists_frame v (sort_list v lr).
Proof.
  intros [A H]. destruct (VamMapStep.sort_list_inv c Hc Hmax Hlarge ms0 v U X lr A) as (I1 & T1 & L1).
  split; [|split; auto]. split; [exact I1|apply (HH_lists v X); [exact H|apply (VamAcctStep.sort_list_m c Hc Hmax Hlarge)|exact T1]].
Qed.

(* ---------------------------------------------------------------- CreateBlock / block Destroy *)

Lemma create_block_HH v X lr size : HHc v X -> HHc (fst (create_block c v lr size)) X.
Proof.
  intros H. unfold create_block. destruct (get_blist v lr) as [l|]; [|exact H].
  pose proof (alloc_vk_ext c (v_m v) (bl_type l) size 0) as E. destruct (alloc_vk c (v_m v) (bl_type l) size 0) as (m1 & r). cbn [fst] in E.
  assert (H1 : HHc (set_m v m1) X) by (apply (HH_mach c); auto).
  destruct r as [mem|code| |]; cbn [fst]; try exact H1.
  apply (HH_lists (set_m v m1) X); [exact H1|apply set_blist_m|apply tab_frame_set_blist].
Qed.

Lemma create_block_inv v U X lr l size :
  VamInvH v U X -> get_blist v lr = Some l -> 0 <= size < 2 ^ 62 ->
  let '(v', r) := create_block c v lr size in
  VamInvH v' U X /\ tab_frame v v' [] /\ lists_frame v v'.
Proof.
  intros HI Hg Hsz. pose proof (VamMapStep.create_block_inv c Hc Hmax Hlarge ms0 v U X lr l size (vh_m _ _ _ HI) Hg Hsz) as P.
  pose proof (create_block_HH v X lr size (vh_h _ _ _ HI)) as Q.
  destruct (create_block c v lr size) as (v' & r). cbn [fst] in Q. destruct P as (I1 & T1 & L1).
  split; [|auto]. split; [exact I1|exact Q].
Qed.

Lemma destroy_block_ext v ty b :
  mach_ext (v_m v) (v_m (fst (destroy_block c v ty b))) /\ v_tab (fst (destroy_block c v ty b)) = v_tab v.
Proof.
  unfold destroy_block. destruct (negb _); [split; [apply mach_ext_refl|reflexivity]|].
  pose proof (free_vk_ext c (v_m v) ty (meta_size (bk_meta b)) (bk_mem b)) as E. destruct (free_vk c (v_m v) ty _ _) as (m1 & r). cbn [fst] in *.
  split; [exact E|reflexivity].
Qed.

Lemma destroy_block_HH v X ty b : HHc v X -> HHc (fst (destroy_block c v ty b)) X.
Proof.
  intros H. destruct (destroy_block_ext v ty b) as (E & T). apply (HH_step c ms0 v X); [exact H|exact E|apply persist_sub_nil; apply tab_eq_frame; exact T].
Qed.

Lemma remove_destroy_inv v U X lr l b :
  VamInvH v U X -> get_blist v lr = Some l -> In b (bl_blocks l) -> meta_is_empty (bk_meta b) = true ->
  let v1 := set_blist v lr (set_blocks l (remove_block (bl_blocks l) (bk_id b))) in
  let '(v', r) := destroy_block c v1 (bl_type l) b in
  VamInvH v' U X /\ tab_frame v v' [] /\ lists_frame v v'.
Proof.
  intros HI Hg Hb He v1.
  pose proof (VamMapStep.remove_destroy_inv c Hc Hmax Hlarge ms0 v U X lr l b (vh_m _ _ _ HI) Hg Hb He) as P. cbn zeta in P. fold v1 in P.
  assert (H1 : HHc v1 X) by (apply (HH_lists v X); [apply (vh_h _ _ _ HI)|apply set_blist_m|apply tab_frame_set_blist]).
  pose proof (destroy_block_HH v1 X (bl_type l) b H1) as Q.
  destruct (destroy_block c v1 (bl_type l) b) as (v' & r). cbn [fst] in Q. destruct P as (I1 & T1 & L1).
  split; [|auto]. split; [exact I1|exact Q].
Qed.

(* ---------------------------------------------------------------- allocFromBlock / commitAllocationRequest *)

(* the Mapped request flag is only passed for host-visible lists *)
Definition map_hv (v : vam) (lr : lref) (flags : Z) : Prop :=
  fl flags F_MAPPED = true -> forall l, get_blist v lr = Some l -> host_visible c (bl_type l) = true.

Lemma map_hv_frame v v' lr flags : lists_frame v v' -> map_hv v lr flags -> map_hv v' lr flags.
Proof.
  intros F H Hf l' Hg'. destruct (get_blist v lr) as [l|] eqn:E.
  - destruct (lf_some _ _ F _ _ E) as (l2 & G2 & S). assert (l2 = l') by congruence. subst l2. destruct S as (St & _). rewrite St. eapply H; eauto.
  - rewrite (lf_none _ _ F _ E) in Hg'. discriminate.
Qed.

Lemma alloc_from_block_HH v U X lr bid size align flags sub s :
  VamInvH v U X -> map_hv v lr flags -> Bits.pow2 align -> 0 <= s < zlen (v_tab v) -> a_allocated (get_alloc v s) = false ->
  let '(v', r) := alloc_from_block c v lr bid size align flags sub s in
  match r with AFPanic | AFStuck => True | _ => HHc v' X end.
Proof.
  intros HIH Hhv Hal Hs Hdead. pose proof (vh_s _ _ _ HIH) as HI. pose proof (vh_mm _ _ _ HIH) as HM. pose proof (vh_h _ _ _ HIH) as HH0.
  unfold alloc_from_block.
  destruct (get_block v lr bid) as [b|] eqn:Hgb; [|exact I].
  destruct (negb (meta_may_have_free (bk_meta b) sub size)); [exact HH0|].
  destruct (get_block_in _ _ _ _ Hgb) as (l & Hg & Hb & Hbid).
  pose proof (vi_lists _ _ _ _ HI _ _ Hg) as Hwf. pose proof (bw_nodup _ _ Hwf) as Hnd.
  destruct (meta_create_request (bk_meta b) size align (fl flags F_UPPER) sub (strategy_of flags)) as [mt1 rq| | |] eqn:Hrq;
    try exact I; try exact HH0.
  set (b1 := mkBlock (bk_id b) (bk_mem b) (bk_sm b) mt1).
  destruct (put_block_lookup v lr l b b1 Hg Hnd Hb eq_refl) as (Hg1 & Hb1 & Hgb1).
  assert (M1 : MM ms0 (put_block v lr b1) X).
  { apply (VamMapStep.MM_put_same c Hc Hmax Hlarge ms0 v X lr b b1 HM); [cbn [bk_id b1]; rewrite Hbid; exact Hgb|reflexivity|reflexivity]. }
  assert (H1 : HHc (put_block v lr b1) X) by (apply (HH_lists v X); [exact HH0|apply put_block_m|apply tab_eq_frame; apply put_block_tab]).
  set (v1 := put_block v lr b1) in *. set (l1 := set_blocks l (replace_block (bl_blocks l) b1)) in *.
  unfold commit_request. cbn [bk_id b1] in Hgb1. rewrite Hbid in Hgb1. rewrite Hg1, Hgb1.
  pose proof (sm_sub_M ms0 (v_m v1) (bk_mem b1) (bk_sm b1) (proj2 M1) (mi_blocks _ _ (proj1 M1) _ _ _ Hg1 Hb1)) as Psub.
  pose proof (sm_sub_ext (v_m v1) (bk_mem b1) (bk_sm b1)) as Esub.
  destruct (sm_sub (v_m v1) (bk_mem b1) (bk_sm b1)) as (m1 & s1) eqn:Esm. cbn [fst] in Esub.
  pose proof (sm_sub_types (v_m v1) (bk_mem b1) (bk_sm b1)) as Tsub. rewrite Esm in Tsub. cbn [fst] in Tsub.
  assert (Lh1 : LogHV c ms0 m1) by (eapply LogHV_ext; [apply H1|exact Esub]).
  (* the block's memory object has the list's type *)
  assert (Hty : fl flags F_MAPPED = true -> forall d, find_mem (m_mems m1) (bk_mem b1) = Some d -> host_visible c (dm_type d) = true).
  { intros Hf d Fd. destruct (vi_block_mem _ _ _ _ HI _ _ _ Hg Hb) as (d0 & F0 & T0 & _).
    destruct (Tsub _ _ Fd) as (d1 & F1 & E1). unfold v1 in F1. rewrite put_block_m in F1. cbn [bk_mem b1] in F1.
    assert (d1 = d0) by congruence. subst d1. rewrite E1, T0. eapply Hhv; eauto. }
  assert (Lmap : forall m2 s2 (mr : out unit),
            (if fl flags F_MAPPED then sm_map c m1 (bk_mem b1) s1 else (m1, s1, OK tt)) = (m2, s2, mr) -> LogHV c ms0 m2).
  { intros m2 s2 mr E. destruct (fl flags F_MAPPED) eqn:Ef.
    - pose proof (sm_map_H c ms0 m1 (bk_mem b1) s1 Lh1 (proj1 Psub) (Hty eq_refl)) as P. rewrite E in P. exact P.
    - injection E as <- _ _. exact Lh1. }
  destruct (if fl flags F_MAPPED then sm_map c m1 (bk_mem b1) s1 else (m1, s1, OK tt)) as ((m2 & s2) & mr) eqn:Emap.
  specialize (Lmap _ _ _ eq_refl).
  set (b2 := mkBlock (bk_id b1) (bk_mem b1) s2 (bk_meta b1)).
  assert (Pv1 : PersistInv c v1 X) by apply H1.
  assert (H2 : HHc (put_block (set_m v1 m2) lr b2) X).
  { split; [rewrite put_block_m; exact Lmap|]. apply (PersistInv_sub c v1 X); [exact Pv1|].
    apply persist_sub_nil. eapply tab_frame_trans_same; [apply tab_frame_set_m|apply tab_eq_frame; apply put_block_tab]. }
  set (v2 := put_block (set_m v1 m2) lr b2) in *.
  destruct mr as [[]|code| |]; try exact I; try exact H2.
  assert (Et2 : v_tab v2 = v_tab v) by (unfold v2; rewrite put_block_tab; cbn [v_tab set_m]; unfold v1; rewrite put_block_tab; reflexivity).
  (* writing the unallocated slot *)
  assert (Hset : forall w a', HHc w X -> 0 <= s < zlen (v_tab w) -> (a_allocated a' = true -> a_persist a' = true -> host_visible c (a_type a') = true) ->
            HHc (set_alloc w s a') X).
  { intros w a' (Lw & Pw) Ew Ha'. split; [exact Lw|]. intros sx ax Sx HX Hp. destruct (Z.eq_dec sx s) as [->|Hne].
    - apply slot_is_set_alloc_same in Sx; [|exact Ew]. destruct Sx as (-> & Ha). auto.
    - apply (slot_is_set_alloc_other w s a' sx ax Hne) in Sx. eauto. }
  assert (H3 : HHc (set_alloc v2 s (alloc_init (mapping_allowed flags))) X) by (apply Hset; [exact H2|rewrite Et2; exact Hs|cbn; discriminate]).
  set (v3 := set_alloc v2 s (alloc_init (mapping_allowed flags))) in *.
  cbn [bk_meta b1 bk_id bk_mem] in *.
  destruct (meta_alloc mt1 rq sub s size align) as [(mt2 & h)|code| |] eqn:Ema; try exact I; try exact H3.
  destruct (fl flags F_MAPPED && negb (mapping_allowed flags)); [exact I|].
  set (b4 := mkBlock (bk_id b) (bk_mem b) s2 mt2).
  assert (H4 : HHc (put_block v3 lr b4) X) by (apply (HH_lists v3 X); [exact H3|apply put_block_m|apply tab_eq_frame; apply put_block_tab]).
  match goal with |- context [set_alloc (put_block v3 lr b4) s ?aa] => set (a := aa) end.
  assert (H5 : HHc (set_alloc (put_block v3 lr b4) s a) X).
  { apply Hset; [exact H4| |].
    - rewrite put_block_tab. unfold v3. rewrite zlen_set_alloc, Et2. exact Hs.
    - intros _ Hp. unfold a in *. cbn [a_persist a_type] in *. apply (Hhv Hp l Hg). }
  apply (HH_mach c); [exact H5|apply mach_ext_sameM; apply add_allocation_sameM].
Qed.

Definition af_post (v v' : vam) (U X : list Z) (lr : lref) (s : Z) (r : afres) : Prop :=
  match r with
  | AFPanic | AFStuck => True
  | _ =>
    VamInvH v' U X /\ tab_frame v v' [s] /\ lists_frame v v' /\
    match r with
    | AFOk => exists a, slot_is v' s a /\ a_kind a = 1 /\ a_lref a = lr
    | _ => a_allocated (get_alloc v' s) = false
    end
  end.

Lemma alloc_from_block_inv v U X lr bid size align flags sub s :
  VamInvH v U X -> map_hv v lr flags -> Bits.pow2 align -> min_ok v lr align -> 0 <= s < zlen (v_tab v) -> a_allocated (get_alloc v s) = false ->
  let '(v', r) := alloc_from_block c v lr bid size align flags sub s in af_post v v' U X lr s r.
Proof.
  intros HI Hhv Hal Hmin Hs Hdead.
  pose proof (VamMapStep.alloc_from_block_inv c Hc Hmax Hlarge ms0 v U X lr bid size align flags sub s (vh_m _ _ _ HI) Hal Hmin Hs Hdead) as P.
  pose proof (alloc_from_block_HH v U X lr bid size align flags sub s HI Hhv Hal Hs Hdead) as Q.
  destruct (alloc_from_block c v lr bid size align flags sub s) as (v' & r).
  destruct r; cbn [af_post VamMapStep.af_post] in *; auto; destruct P as (I1 & R1); (split; [split; [exact I1|exact Q]|exact R1]).
Qed.

(* ---------------------------------------------------------------- the search loop of allocPage *)

Definition ap_post (v v' : vam) (U X : list Z) (lr : lref) (s : Z) (r : out unit) : Prop :=
  match r with
  | PANIC | STUCK => True
  | _ =>
    VamInvH v' U X /\ tab_frame v v' [s] /\ lists_frame v v' /\
    match r with
    | OK _ => exists a, slot_is v' s a /\ a_kind a = 1 /\ a_lref a = lr
    | _ => a_allocated (get_alloc v' s) = false
    end
  end.

Lemma try_blocks_inv ids : forall v U X lr size align flags sub s,
  VamInvH v U X -> map_hv v lr flags -> Bits.pow2 align -> min_ok v lr align -> 0 <= s < zlen (v_tab v) -> a_allocated (get_alloc v s) = false ->
  let '(v', r) := try_blocks c v lr ids size align flags sub s in af_post v v' U X lr s r.
Proof.
  induction ids as [|bid tl IH]; intros v U X lr size align flags sub s HI Hhv Hal Hmin Hs Hdead; cbn [try_blocks].
  - cbn. split; [auto|]. split; [apply tab_frame_refl|]. split; [apply lists_frame_refl|auto].
  - pose proof (alloc_from_block_inv v U X lr bid size align flags sub s HI Hhv Hal Hmin Hs Hdead) as A.
    destruct (alloc_from_block c v lr bid size align flags sub s) as (v1 & r). destruct r; cbn in A |- *; auto.
    + destruct A as (HI1 & T1 & L1 & (a & Sa & Ka & La)).
      destruct (sort_list_inv v1 U X lr HI1) as (HI2 & T2 & L2).
      split; [auto|]. split; [eapply tab_frame_trans; [exact T1|exact T2|auto|intros ? []]|].
      split; [eapply lists_frame_trans; eauto|]. exists a. split; [|auto].
      apply (slot_is_frame _ _ _ _ _ T2); auto.
    + destruct A as (HI1 & T1 & L1 & D1).
      assert (Hs1 : 0 <= s < zlen (v_tab v1)) by (destruct T1 as (E & _); lia).
      specialize (IH v1 U X lr size align flags sub s HI1 (map_hv_frame _ _ _ _ L1 Hhv) Hal (min_ok_frame _ _ _ _ L1 Hmin) Hs1 D1).
      destruct (try_blocks c v1 lr tl size align flags sub s) as (v2 & r2).
      destruct r2; cbn in IH |- *; auto;
        destruct IH as (HI2 & T2 & L2 & R2); (split; [auto|]; split; [eapply tab_frame_trans_same; eauto|]; split; [eapply lists_frame_trans; eauto|auto]).
Qed.

(* ---------------------------------------------------------------- allocPage *)

Definition keeps (v0 v' : vam) (U X : list Z) (s : Z) : Prop :=
  VamInvH v' U X /\ tab_frame v0 v' [s] /\ lists_frame v0 v' /\ a_allocated (get_alloc v' s) = false.

Lemma keeps_step v0 v v' U X s :
  keeps v0 v U X s -> VamInvH v' U X -> tab_frame v v' [] -> lists_frame v v' -> keeps v0 v' U X s.
Proof.
  intros (H1 & H2 & H3 & H4) I T L. split; [auto|]. split; [eapply tab_frame_trans; [exact H2|exact T|auto|intros ? []]|].
  split; [eapply lists_frame_trans; eauto|]. rewrite (get_alloc_frame _ _ _ _ T); auto.
Qed.

Lemma create_block_keeps v0 v U X s lr size :
  keeps v0 v U X s -> 0 <= size < 2 ^ 62 -> let '(v', r) := create_block c v lr size in keeps v0 v' U X s.
Proof.
  intros K Hsz. destruct (get_blist v lr) as [l|] eqn:Hg.
  - destruct K as (K1 & K2 & K3 & K4).
    pose proof (create_block_inv v U X lr l size K1 Hg Hsz) as C.
    destruct (create_block c v lr size) as (v1 & r). destruct C as (C1 & C2 & C3).
    eapply keeps_step; eauto. split; auto.
  - unfold create_block. rewrite Hg. exact K.
Qed.

Lemma quot2_bound n : 0 <= n < 2 ^ 62 -> 0 <= Z.quot n 2 < 2 ^ 62.
Proof. intros H. pose proof (Z.quot_pos n 2 ltac:(lia) ltac:(lia)). assert (Z.quot n 2 <= n) by (apply Z.quot_le_upper_bound; lia). lia. Qed.

Lemma retry_create_inv fuel : forall v0 v U X s lr nbs shift size freeMemory canFallback last,
  keeps v0 v U X s -> 0 <= nbs < 2 ^ 62 ->
  let '(v', r) := retry_create c fuel v lr nbs shift size freeMemory canFallback last in keeps v0 v' U X s.
Proof.
  induction fuel as [|f IH]; intros v0 v U X s lr nbs shift size fm cf last K Hn; cbn [retry_create]; [exact K|].
  destruct last; try exact K. destruct (3 <=? shift); [exact K|]. destruct (size <=? Z.quot nbs 2); [|exact K].
  pose proof (quot2_bound nbs Hn) as Hq.
  destruct (_ || _).
  - pose proof (create_block_keeps v0 v U X s lr (Z.quot nbs 2) K Hq) as C.
    destruct (create_block c v lr (Z.quot nbs 2)) as (v1 & r). apply IH; auto.
  - apply IH; auto.
Qed.

Lemma keeps_trans v0 v1 v2 U X s : keeps v0 v1 U X s -> keeps v1 v2 U X s -> keeps v0 v2 U X s.
Proof.
  intros (A1 & A2 & A3 & A4) (B1 & B2 & B3 & B4). split; [auto|]. split; [eapply tab_frame_trans_same; [exact A2|exact B2]|].
  split; [eapply lists_frame_trans; [exact A3|exact B3]|auto].
Qed.

Lemma keeps_refl v U X s : VamInvH v U X -> a_allocated (get_alloc v s) = false -> keeps v v U X s.
Proof. intros. split; [auto|]. split; [apply tab_frame_refl|]. split; [apply lists_frame_refl|auto]. Qed.

Lemma ap_post_fail v v' U X lr s code : keeps v v' U X s -> ap_post v v' U X lr s (ER code).
Proof. intros (A & B & C0 & D). cbn. auto. Qed.

Lemma af_keeps v v' U X lr s r :
  af_post v v' U X lr s r -> match r with AFOk | AFPanic | AFStuck => True | _ => keeps v v' U X s end.
Proof. destruct r; cbn; auto. Qed.

Lemma shrink_new_block_bound fuel : forall nbs shift maxE size, 0 <= nbs < 2 ^ 62 ->
  0 <= fst (shrink_new_block fuel nbs shift maxE size) < 2 ^ 62.
Proof.
  induction fuel as [|f IH]; intros nbs shift maxE size Hn; cbn [shrink_new_block]; [exact Hn|].
  destruct (_ && _); [|exact Hn]. apply IH. apply quot2_bound. exact Hn.
Qed.

Lemma alloc_page_inv v U X lr size align flags sub s :
  VamInvH v U X -> map_hv v lr flags -> Bits.pow2 align -> min_ok v lr align -> 0 <= s < zlen (v_tab v) -> a_allocated (get_alloc v s) = false ->
  let '(v', r) := alloc_page c v lr size align flags sub s in ap_post v v' U X lr s r.
Proof.
  intros HI Hhv Hal Hmin Hs Hdead. unfold alloc_page. destruct (get_blist v lr) as [l|] eqn:Hg; [|exact I].
  pose proof (heap_budget_sameX (v_m v) (type_heap c (bl_type l))) as Hb.
  destruct (heap_budget c (v_m v) (type_heap c (bl_type l))) as ((m1 & usage) & budget). cbn [fst] in Hb.
  assert (K1 : keeps v (set_m v m1) U X s).
  { split; [apply VamInvH_mach_same; auto|]. split; [apply tab_frame_set_m|]. split; [apply lists_frame_set_m|auto]. }
  destruct (_ && _); [apply ap_post_fail; auto|]. destruct (bl_pref l <? size); [apply ap_post_fail; auto|].
  pose proof (ai_pref _ _ _ (vh_aa _ _ _ HI) _ _ Hg) as Hpref.
  pose proof K1 as (I1 & T1 & L1 & D1).
  assert (Hs1 : 0 <= s < zlen (v_tab (set_m v m1))) by (cbn; auto).
  pose proof (try_blocks_inv (search_order c l flags) (set_m v m1) U X lr size align flags sub s I1 (map_hv_frame _ _ _ _ L1 Hhv) Hal (min_ok_frame _ _ _ _ L1 Hmin) Hs1 D1) as TB.
  destruct (try_blocks c (set_m v m1) lr (search_order c l flags) size align flags sub s) as (v2 & r).
  pose proof (af_keeps _ _ _ _ _ _ _ TB) as TK.
  destruct r; cbn [ap_post]; auto.
  - cbn [af_post] in TB. destruct TB as (A & B & C & D). split; [auto|].
    split; [eapply tab_frame_trans_same; [exact T1|exact B]|]. split; [eapply lists_frame_trans; [exact L1|exact C]|auto].
  - (* no block fits: try a new block *)
    pose proof (keeps_trans _ _ _ _ _ _ K1 TK) as K2. clear TB TK.
    destruct (negb _); [apply ap_post_fail; auto|].
    assert (Hnbs : 0 <= fst (if bl_explicit l then (bl_pref l, 0) else shrink_new_block 3 (bl_pref l) 0 (calc_max_block_size l) size) < 2 ^ 62).
    { destruct (bl_explicit l); [exact Hpref|apply shrink_new_block_bound; exact Hpref]. }
    destruct (if bl_explicit l then (bl_pref l, 0) else shrink_new_block 3 (bl_pref l) 0 (calc_max_block_size l) size) as (nbs & shift). cbn [fst] in Hnbs.
    match goal with |- context [if ?cond then create_block c v2 lr nbs else (v2, ER VK_OODM)] =>
      assert (K3 : let '(v3, first) := (if cond then create_block c v2 lr nbs else (v2, ER VK_OODM)) in keeps v v3 U X s);
      [destruct cond; [apply create_block_keeps; [exact K2|exact Hnbs]|exact K2]|
       destruct (if cond then create_block c v2 lr nbs else (v2, ER VK_OODM)) as (v3 & first)]
    end.
    match goal with |- context [if bl_explicit l then (v3, first) else ?rc] =>
      assert (K4 : let '(v4, created) := (if bl_explicit l then (v3, first) else rc) in keeps v v4 U X s);
      [destruct (bl_explicit l); [exact K3|apply retry_create_inv; [exact K3|exact Hnbs]]|
       destruct (if bl_explicit l then (v3, first) else rc) as (v4 & created)]
    end.
    destruct created as [bid|code| |]; [|apply ap_post_fail; auto|exact I|exact I].
    destruct (get_block v4 lr bid) as [nb|] eqn:Hgb; [|exact I]. destruct (meta_size (bk_meta nb) <? size); [exact I|].
    pose proof K4 as (I4 & T4 & L4 & D4).
    assert (Hs4 : 0 <= s < zlen (v_tab v4)) by (destruct T4 as (E & _); lia).
    pose proof (alloc_from_block_inv v4 U X lr bid size align flags sub s I4 (map_hv_frame _ _ _ _ L4 Hhv) Hal (min_ok_frame _ _ _ _ L4 Hmin) Hs4 D4) as AF.
    destruct (alloc_from_block c v4 lr bid size align flags sub s) as (v5 & r2).
    pose proof (af_keeps _ _ _ _ _ _ _ AF) as AK.
    assert (Hgive : forall code2, keeps v4 v5 U X s ->
      let '(v6, dr) :=
          match get_blist v5 lr, get_block v5 lr bid with
          | Some l5, Some b5 =>
            if meta_is_empty (bk_meta b5) && (bl_min l5 <? zlen (bl_blocks l5)) then
              let v5' := set_blist v5 lr (set_blocks l5 (remove_block (bl_blocks l5) bid)) in
              match destroy_block c v5' (bl_type l5) b5 with
              | (v', OK _) => (v', OK tt)
              | (v', STUCK) => (v', STUCK)
              | (v', _) => (v', PANIC)
              end
            else (v5, OK tt)
          | _, _ => (v5, STUCK)
          end in
      ap_post v v6 U X lr s match dr with OK _ => ER code2 | ER code => ER code | PANIC => PANIC | STUCK => STUCK end).
    { intros code2 K5. pose proof (keeps_trans _ _ _ _ _ _ K4 K5) as K05.
      destruct (get_blist v5 lr) as [l5|] eqn:Hg5; [|exact I]. destruct (get_block v5 lr bid) as [b5|] eqn:Hgb5; [|exact I].
      destruct (meta_is_empty (bk_meta b5)) eqn:He; cbn [andb]; [|apply ap_post_fail; auto].
      destruct (bl_min l5 <? zlen (bl_blocks l5)); [|apply ap_post_fail; auto].
      destruct (get_block_in _ _ _ _ Hgb5) as (l5' & Hg5' & Hb5 & Hid5). assert (l5' = l5) by congruence. subst l5'.
      destruct K05 as (I5 & T5 & L5 & D5).
      pose proof (remove_destroy_inv v5 U X lr l5 b5 I5 Hg5 Hb5 He) as RD. cbn zeta in RD. rewrite Hid5 in RD.
      destruct (destroy_block c _ (bl_type l5) b5) as (v6 & dr). destruct RD as (R1 & R2 & R3).
      destruct dr as [[]|code| |]; cbn [ap_post]; auto.
      split; [auto|]. split; [eapply tab_frame_trans; [exact T5|exact R2|auto|intros ? []]|].
      split; [eapply lists_frame_trans; eauto|]. rewrite (get_alloc_frame _ _ _ _ R2); auto. }
    destruct r2; auto.
    + (* served from the new block *)
      cbn [af_post] in AF. destruct AF as (A & B & C & (a & Sa & Ka & La)).
      destruct (sort_list_inv v5 U X lr A) as (I6 & T6 & L6).
      cbn [ap_post]. split; [auto|].
      split; [eapply tab_frame_trans; [eapply tab_frame_trans_same; [exact T4|exact B]|exact T6|auto|intros ? []]|].
      split; [eapply lists_frame_trans; [eapply lists_frame_trans; [exact L4|exact C]|exact L6]|].
      exists a. split; [|auto]. apply (slot_is_frame _ _ _ _ _ T6); auto.
    + specialize (Hgive VK_OODM AK). destruct (match get_blist v5 lr with Some _ => _ | None => _ end) as (v6 & dr).
      destruct dr; exact Hgive.
    + specialize (Hgive code AK). destruct (match get_blist v5 lr with Some _ => _ | None => _ end) as (v6 & dr).
      destruct dr; exact Hgive.
  - exact (ap_post_fail _ _ _ _ lr _ code (keeps_trans _ _ _ _ _ _ K1 TK)).
Qed.

(* ---------------------------------------------------------------- Free + freeWithLock *)


Definition kept (v v' : vam) (U X : list Z) : Prop := VamInvH v' U X /\ tab_frame v v' [] /\ lists_frame v v'.

Lemma kept_trans v0 v1 v2 U X : kept v0 v1 U X -> kept v1 v2 U X -> kept v0 v2 U X.
Proof.
  intros (A1 & A2 & A3) (B1 & B2 & B3). split; [auto|]. split; [eapply tab_frame_trans_same; [exact A2|exact B2]|eapply lists_frame_trans; [exact A3|exact B3]].
Qed.

Lemma kept_frames v0 v1 v2 U X X' : kept v0 v1 U X -> VamInvH v2 U X' -> tab_frame v1 v2 [] -> lists_frame v1 v2 -> kept v0 v2 U X'.
Proof.
  intros (A1 & A2 & A3) I T L. split; [auto|]. split; [eapply tab_frame_trans_same; [exact A2|exact T]|eapply lists_frame_trans; [exact A3|exact L]].
Qed.


Lemma kept_mach v0 v U X m' : kept v0 v U X -> mach_sameX (v_m v) m' -> kept v0 (set_m v m') U X.
Proof.
  intros K H. eapply kept_frames; [exact K| | |].
  - apply VamInvH_mach_same; [apply K|auto].
  - apply tab_frame_set_m.
  - apply lists_frame_set_m.
Qed.

(* ---------------------------------------------------------------- Free + freeWithLock *)

Lemma HH_weaken v X X' : HHc v X -> (forall s, In s X -> In s X') -> HHc v X'.
Proof. intros (L & P) H. split; [exact L|]. intros s a Sa HX Hp. apply (P s a Sa); [intros Hin; apply HX; apply H; exact Hin|exact Hp]. Qed.

Lemma HH_unmark v X s a' : HHc v (s :: X) -> a_allocated a' = false -> HHc (set_alloc v s a') X.
Proof.
  intros (L & P) Ha. split; [exact L|]. intros s1 a1 S1 HX Hp. destruct (Z.eq_dec s1 s) as [->|Hne].
  - exfalso. destruct (nth_z (v_tab v) s) as [x|] eqn:E.
    + apply slot_is_set_alloc_same in S1; [|eapply nth_z_some_range; eauto]. destruct S1 as (-> & Hb). congruence.
    + destruct S1 as (S1 & _). unfold set_alloc in S1. cbn in S1. rewrite nth_z_set_none in S1 by exact E. discriminate.
  - apply (slot_is_set_alloc_other v s a' s1 a1 Hne) in S1. apply (P s1 a1 S1); [intros [E|H]; [congruence|contradiction]|exact Hp].
Qed.

(* memoryBlockList.Free logs no vkMapMemory and leaves the table alone *)
Lemma bl_free_ext v lr s keep :
  mach_ext (v_m v) (v_m (fst (bl_free c v lr s keep))) /\ v_tab (fst (bl_free c v lr s keep)) = v_tab v.
Proof.
  unfold bl_free. destruct (get_blist v lr) as [l|]; [|split; [apply mach_ext_refl|reflexivity]].
  destruct (get_block v lr _) as [b|]; [|split; [apply mach_ext_refl|reflexivity]].
  pose proof (heap_budget_sameM c (v_m v) (type_heap c (bl_type l))) as Hb.
  destruct (heap_budget c (v_m v) (type_heap c (bl_type l))) as ((m1 & usage) & budget). cbn [fst] in Hb. apply mach_ext_sameM in Hb.
  assert (Hun : forall m2 s2 (ur : out unit), (if a_persist (get_alloc v s) then sm_unmap m1 (bk_mem b) (bk_sm b) else (m1, bk_sm b, OK tt)) = (m2, s2, ur) -> mach_ext m1 m2).
  { intros m2 s2 ur E. destruct (a_persist _).
    - pose proof (sm_unmap_ext m1 (bk_mem b) (bk_sm b)) as H. rewrite E in H. exact H.
    - injection E as <- _ _. apply mach_ext_refl. }
  destruct (if a_persist (get_alloc v s) then sm_unmap m1 (bk_mem b) (bk_sm b) else (m1, bk_sm b, OK tt)) as ((m2 & s2) & ur) eqn:Eun.
  specialize (Hun _ _ _ eq_refl). pose proof (mach_ext_trans _ _ _ Hb Hun) as H02.
  set (v2 := put_block (set_m v m2) lr (mkBlock (bk_id b) (bk_mem b) s2 (bk_meta b))).
  assert (E2 : mach_ext (v_m v) (v_m v2) /\ v_tab v2 = v_tab v) by (unfold v2; rewrite put_block_m, put_block_tab; auto).
  destruct ur as [[]|code| |]; try exact E2.
  destruct (meta_free (bk_meta b) _) as [mt'|code| |]; try exact E2.
  pose proof (sm_sub_ext (v_m v2) (bk_mem b) s2) as Hs. destruct (sm_sub (v_m v2) (bk_mem b) s2) as (m3 & s3). cbn [fst] in Hs.
  pose proof (mach_ext_trans _ _ _ (proj1 E2) Hs) as H03.
  match goal with |- context [let '(bs4, toDelete) := ?e in _] => destruct e as (bs4 & toDelete) end.
  set (v3 := set_blist (set_m v2 m3) lr (incrementally_sort (set_blocks l bs4))).
  assert (E3 : mach_ext (v_m v) (v_m v3) /\ v_tab v3 = v_tab v).
  { unfold v3. rewrite set_blist_m, set_blist_tab. cbn [v_m v_tab set_m]. split; [exact H03|apply E2]. }
  assert (E4 : forall v4 (dr : out unit),
            (match toDelete with
             | None => (v3, OK tt)
             | Some db => match destroy_block c v3 (bl_type l) db with (v', OK _) => (v', OK tt) | (v', STUCK) => (v', STUCK) | (v', _) => (v', PANIC) end
             end) = (v4, dr) -> mach_ext (v_m v) (v_m v4) /\ v_tab v4 = v_tab v).
  { intros v4 dr E. destruct toDelete as [db|]; [|injection E as <- _; exact E3].
    destruct (destroy_block_ext v3 (bl_type l) db) as (D1 & D2). destruct (destroy_block c v3 (bl_type l) db) as (v' & r'). cbn [fst] in D1, D2.
    assert (v4 = v') by (destruct r' as [[]|?| |]; injection E as <- _; reflexivity). subst v4.
    split; [eapply mach_ext_trans; [apply E3|exact D1]|rewrite D2; apply E3]. }
  destruct (match toDelete with None => _ | Some _ => _ end) as (v4 & dr). specialize (E4 _ _ eq_refl).
  destruct dr as [[]|code| |]; try exact E4.
  pose proof (remove_allocation_sameM c (v_m v4) (type_heap c (bl_type l)) (a_size (get_alloc v s))) as R.
  destruct (remove_allocation c (v_m v4) _ _) as (m5 & rr). cbn [fst] in R |- *. cbn [v_m v_tab set_m].
  split; [eapply mach_ext_trans; [apply E4|apply mach_ext_sameM; exact R]|apply E4].
Qed.

Lemma bl_free_HH v X lr s keep : HHc v X -> HHc (fst (bl_free c v lr s keep)) X.
Proof.
  intros H. destruct (bl_free_ext v lr s keep) as (E & T). apply (HH_step c ms0 v X); [exact H|exact E|apply persist_sub_nil; apply tab_eq_frame; exact T].
Qed.

Lemma bl_free_inv v U X s a keep :
  VamInvH v U X -> slot_is v s a -> ~ In s X -> a_kind a = 1 ->
  let '(v', r) := bl_free c v (a_lref a) s keep in
  match r with
  | OK _ => kept v v' U (s :: X)
  | ER _ => kept v v' U X
  | _ => True
  end.
Proof.
  intros HI Hsl HnX Hk. pose proof (VamMapStep.bl_free_inv c Hc Hmax Hlarge ms0 v U X s a keep (vh_m _ _ _ HI) Hsl HnX Hk) as P.
  pose proof (bl_free_HH v X (a_lref a) s keep (vh_h _ _ _ HI)) as Q.
  destruct (bl_free c v (a_lref a) s keep) as (v' & r). cbn [fst] in Q. destruct r as [[]|code| |]; auto; destruct P as (I1 & T1 & L1).
  - split; [split; [exact I1|eapply HH_weaken; [exact Q|intros; right; auto]]|auto].
  - split; [split; [exact I1|exact Q]|auto].
Qed.

Definition keptS (v v' : vam) (U X S : list Z) : Prop := VamInvH v' U X /\ tab_frame v v' S /\ lists_frame v v'.

Lemma keptS_trans v0 v1 v2 U X S : keptS v0 v1 U X S -> keptS v1 v2 U X S -> keptS v0 v2 U X S.
Proof.
  intros (A1 & A2 & A3) (B1 & B2 & B3). split; [auto|]. split; [eapply tab_frame_trans_same; [exact A2|exact B2]|eapply lists_frame_trans; [exact A3|exact B3]].
Qed.

Lemma keptS_weaken v v' U X S S' : keptS v v' U X S -> (forall s, In s S -> In s S') -> keptS v v' U X S'.
Proof. intros (A & B & C) H. split; [auto|]. split; [eapply tab_frame_weaken; eauto|auto]. Qed.

Lemma kept_keptS v v' U X S : kept v v' U X -> keptS v v' U X S.
Proof. intros (A & B & C). split; [auto|]. split; [eapply tab_frame_weaken; [exact B|intros ? []]|auto]. Qed.



Lemma free_block_slot_inv v U X s a keep :
  VamInvH v U X -> slot_is v s a -> ~ In s X -> a_kind a = 1 ->
  let '(v', r) := bl_free c v (a_lref a) s keep in
  match r with
  | OK _ => keptS v (set_alloc v' s (set_allocated (get_alloc v' s) false)) U X [s] /\
            a_allocated (get_alloc (set_alloc v' s (set_allocated (get_alloc v' s) false)) s) = false
  | ER _ => kept v v' U X
  | _ => True
  end.
Proof.
  intros HI Hsl HnX Hk. pose proof (VamMapStep.free_block_slot_inv c Hc Hmax Hlarge ms0 v U X s a keep (vh_m _ _ _ HI) Hsl HnX Hk) as P.
  pose proof (bl_free_inv v U X s a keep HI Hsl HnX Hk) as F.
  destruct (bl_free c v (a_lref a) s keep) as (v' & r). destruct r as [[]|code| |]; auto.
  destruct P as ((I1 & T1 & L1) & D1). destruct F as (F1 & _). split; [|exact D1].
  split; [|auto]. split; [exact I1|]. apply HH_unmark; [apply (vh_h _ _ _ F1)|reflexivity].
Qed.

Lemma unwind_loop_inv done : forall v U X lr,
  VamInvH v U X -> block_slots v lr X done ->
  let '(v', r) := unwind_loop c v lr done in
  match r with
  | OK _ => keptS v v' U X done /\ dead_slots v' done
  | ER _ => False
  | _ => True
  end.
Proof.
  induction done as [|s tl IH]; intros v U X lr HI (Hnd & Hbs); cbn [unwind_loop].
  - split; [split; [auto|split; [apply tab_frame_refl|apply lists_frame_refl]]|intros ? []].
  - inversion Hnd as [|? ? Hs Hnd']; subst.
    destruct (Hbs s (or_introl eq_refl)) as (HX & a & Sa & Ka & La).
    pose proof (free_block_slot_inv v U X s a true HI Sa HX Ka) as F. rewrite La in F.
    destruct (bl_free c v lr s true) as (v1 & r). destruct r as [[]|code| |]; auto.
    destruct F as (K1 & D1). set (v1' := set_alloc v1 s (set_allocated (get_alloc v1 s) false)) in *.
    assert (Hbs' : block_slots v1' lr X tl).
    { eapply block_slots_frame with (v := v) (S := [s]); [split; [auto|]; intros; apply Hbs; right; auto|apply K1|].
      intros s1 H1 [<-|[]]. contradiction. }
    specialize (IH v1' U X lr (proj1 K1) Hbs').
    destruct (unwind_loop c v1' lr tl) as (v2 & r2). destruct r2 as [[]|code| |]; auto.
    destruct IH as (K2 & D2). split.
    + eapply keptS_trans; [eapply keptS_weaken; [exact K1|intros ? [<-|[]]; left; reflexivity]|].
      eapply keptS_weaken; [exact K2|intros; right; auto].
    + intros s1 [<-|H1]; [|apply D2; auto].
      destruct K2 as (_ & T2 & _). split; [destruct T2 as (E & _); destruct K1 as (_ & (E1 & _) & _); rewrite E, E1; eapply slot_is_range; eauto|].
      rewrite (get_alloc_frame _ _ _ _ T2); auto.
Qed.

Lemma release_loop_inv ids : forall v U X lr firstId,
  VamInvH v U X ->
  let '(v', r) := release_loop c v lr ids firstId in
  match r with OK _ => kept v v' U X | ER _ => False | _ => True end.
Proof.
  induction ids as [|bid tl IH]; intros v U X lr firstId HI; cbn [release_loop].
  - split; [auto|split; [apply tab_frame_refl|apply lists_frame_refl]].
  - destruct (get_blist v lr) as [l|] eqn:Hg; [|exact I].
    assert (Hrefl : kept v v U X) by (split; [auto|split; [apply tab_frame_refl|apply lists_frame_refl]]).
    destruct (negb _); [exact Hrefl|].
    destruct (find_block (bl_blocks l) bid) as [b|] eqn:Hf; [|exact I].
    destruct (find_block_in _ _ _ Hf) as (Hb & Hid).
    destruct (meta_is_empty (bk_meta b)) eqn:He.
    + destruct (bk_id b <? firstId); cbn [orb negb]; [apply IH; auto|].
      pose proof (remove_destroy_inv v U X lr l b HI Hg Hb He) as RD. cbn zeta in RD. rewrite Hid in RD.
      destruct (destroy_block c _ (bl_type l) b) as (v2 & dr). destruct dr as [[]|code| |]; auto.
      specialize (IH v2 U X lr firstId (proj1 RD)).
      destruct (release_loop c v2 lr tl firstId) as (v3 & r3). destruct r3 as [[]|code| |]; auto.
      eapply kept_trans; [exact RD|exact IH].
    + rewrite orb_true_r. apply IH; auto.
Qed.

Lemma release_empty_since_inv v U X lr firstId :
  VamInvH v U X ->
  let '(v', r) := release_empty_since c v lr firstId in
  match r with OK _ => kept v v' U X | ER _ => False | _ => True end.
Proof.
  intros HI. unfold release_empty_since. destruct (get_blist v lr) as [l|]; [|exact I]. apply release_loop_inv. auto.
Qed.

Lemma allocate_loop_inv slots : forall v U X lr done size align flags sub,
  VamInvH v U X -> map_hv v lr flags -> Bits.pow2 align -> min_ok v lr align -> NoDup (slots ++ done) ->
  dead_slots v slots -> block_slots v lr X done ->
  let '(v', r, done') := allocate_loop c v lr slots done size align flags sub in
  match r with
  | PANIC | STUCK => True
  | _ =>
    keptS v v' U X slots /\ block_slots v' lr X done' /\ (forall s, In s done -> In s done') /\
    (forall s, In s done' -> In s (slots ++ done)) /\
    match r with
    | OK _ => forall s, In s slots -> In s done'
    | _ => forall s, In s slots -> In s done' \/ (0 <= s < zlen (v_tab v') /\ a_allocated (get_alloc v' s) = false)
    end
  end.
Proof.
  induction slots as [|s tl IH]; intros v U X lr done size align flags sub HI Hhv Hal Hmin Hnd Hdead Hdone; cbn [allocate_loop].
  - split; [split; [auto|split; [apply tab_frame_refl|apply lists_frame_refl]]|]. split; [auto|]. split; [auto|]. split; [auto|]. intros ? [].
  - destruct (Hdead s (or_introl eq_refl)) as (Hr & Hd).
    pose proof (alloc_page_inv v U X lr size align flags sub s HI Hhv Hal Hmin Hr Hd) as AP.
    destruct (alloc_page c v lr size align flags sub s) as (v1 & r).
    cbn [app] in Hnd. inversion Hnd as [|? ? Hns Hnd']; subst.
    assert (Hdone1 : tab_frame v v1 [s] -> block_slots v1 lr X done).
    { intros T. eapply block_slots_frame; [exact Hdone|exact T|]. intros s1 H1 [<-|[]]. apply Hns. apply in_app_iff. auto. }
    assert (Hdead1 : tab_frame v v1 [s] -> dead_slots v1 tl).
    { intros T. eapply dead_slots_frame; [intros s1 H1; apply Hdead; right; exact H1|exact T|].
      intros s1 H1 [<-|[]]. apply Hns. apply in_app_iff. auto. }
    assert (Kw : VamInvH v1 U X -> tab_frame v v1 [s] -> lists_frame v v1 -> keptS v v1 U X (s :: tl)).
    { intros I1 T1 L1. split; [exact I1|split; [eapply tab_frame_weaken; [exact T1|intros ? [<-|[]]; left; reflexivity]|exact L1]]. }
    destruct r as [[]|code| |]; cbn [ap_post] in AP; auto.
    + destruct AP as (I1 & T1 & L1 & (a & Sa & Ka & La)).
      assert (Hnd1 : NoDup (tl ++ s :: done)).
      { eapply Permutation.Permutation_NoDup; [apply Permutation.Permutation_middle|exact Hnd]. }
      assert (Hbs1 : block_slots v1 lr X (s :: done)).
      { destruct (Hdone1 T1) as (Hndd & Hd1). split; [constructor; [intros H; apply Hns; apply in_app_iff; auto|auto]|].
        intros s1 [<-|H1]; [|apply Hd1; auto]. split; [|eauto].
        intros HX. destruct (vi_dang _ _ _ _ (vh_s _ _ _ HI) _ HX) as (a2 & S2 & _). rewrite (get_alloc_slot _ _ _ S2) in Hd. destruct S2. congruence. }
      specialize (IH v1 U X lr (s :: done) size align flags sub I1 (map_hv_frame _ _ _ _ L1 Hhv) Hal (min_ok_frame _ _ _ _ L1 Hmin) Hnd1 (Hdead1 T1) Hbs1).
      destruct (allocate_loop c v1 lr tl (s :: done) size align flags sub) as ((v2 & r2) & done2).
      destruct r2 as [[]|code| |]; auto; destruct IH as (K2 & B2 & S2 & Q2 & O2);
        (split; [eapply keptS_trans; [exact (Kw I1 T1 L1)|eapply keptS_weaken; [exact K2|intros; right; auto]]|]);
        (split; [auto|]); (split; [intros x Hx; apply S2; right; auto|]);
        (split; [intros x Hx; specialize (Q2 x Hx); apply in_app_iff in Q2; destruct Q2 as [H|[<-|H]];
                 [right; apply in_app_iff; auto|left; reflexivity|right; apply in_app_iff; auto]|]).
      * intros x [<-|Hx]; [apply S2; left; reflexivity|auto].
      * intros x [<-|Hx]; [left; apply S2; left; reflexivity|auto].
    + destruct AP as (I1 & T1 & L1 & D1). split; [exact (Kw I1 T1 L1)|]. split; [auto|]. split; [auto|].
      split; [intros x Hx; right; apply in_app_iff; auto|].
      intros x [<-|Hx]; right.
      * split; [destruct T1 as (E & _); lia|auto].
      * apply (Hdead1 T1). auto.
Qed.

(* memoryBlockList.Allocate *)
Lemma bl_allocate_inv v U X lr slots size align0 flags sub :
  VamInvH v U X -> map_hv v lr flags -> align0 = 0 \/ Bits.pow2 align0 -> NoDup slots -> dead_slots v slots ->
  let '(v', r) := bl_allocate c v lr slots size align0 flags sub in
  match r with
  | OK _ => keptS v v' U X slots /\ block_slots v' lr X slots
  | ER _ => keptS v v' U X slots /\ dead_slots v' slots
  | _ => True
  end.
Proof.
  intros HI Hhv Hal Hnd Hdead. unfold bl_allocate. destruct (get_blist v lr) as [l|] eqn:Hg; [|exact I].
  pose proof (vi_lists _ _ _ _ (vh_s _ _ _ HI) _ _ Hg) as Hwf.
  assert (Hal' : Bits.pow2 (if align0 <? bl_minalign l then bl_minalign l else align0)).
  { pose proof (bw_align _ _ Hwf) as Hm. pose proof (Bits.pow2_pos _ Hm). destruct (align0 <? bl_minalign l) eqn:E; [auto|].
    destruct Hal as [->|H']; [apply Z.ltb_ge in E; lia|auto]. }
  assert (Hnd0 : NoDup (slots ++ [])) by (rewrite app_nil_r; auto).
  assert (Hbs0 : block_slots v lr X []) by (split; [constructor|intros ? []]).
  assert (Hmin0 : min_ok v lr (if align0 <? bl_minalign l then bl_minalign l else align0)).
  { intros l' G'. rewrite Hg in G'. injection G' as <-. destruct (align0 <? bl_minalign l) eqn:E; [lia|apply Z.ltb_ge in E; lia]. }
  pose proof (allocate_loop_inv slots v U X lr [] size _ flags sub HI Hhv Hal' Hmin0 Hnd0 Hdead Hbs0) as AL.
  destruct (allocate_loop c v lr slots [] size _ flags sub) as ((v1 & r) & done).
  destruct r as [[]|code| |]; auto.
  - destruct AL as (K1 & B1 & _ & _ & O1). split; [auto|]. destruct B1 as (Hndd & Hb1). split; [auto|].
    intros s Hs. apply Hb1. auto.
  - destruct AL as (K1 & B1 & _ & Q1 & O1).
    assert (Hsub : forall s, In s done -> In s slots) by (intros s Hs; specialize (Q1 s Hs); rewrite app_nil_r in Q1; auto).
    pose proof (unwind_loop_inv done v1 U X lr (proj1 K1) B1) as UW.
    destruct (unwind_loop c v1 lr done) as (v2 & ur). destruct ur as [[]|ucode| |]; auto; [|contradiction].
    destruct UW as (K2 & D2).
    pose proof (release_empty_since_inv v2 U X lr (bl_next l) (proj1 K2)) as RE.
    destruct (release_empty_since c v2 lr (bl_next l)) as (v3 & rr). destruct rr as [[]|rcode| |]; auto; [|contradiction].
    split.
    + eapply keptS_trans; [exact K1|]. eapply keptS_trans; [eapply keptS_weaken; [exact K2|exact Hsub]|]. apply kept_keptS. exact RE.
    + eapply dead_slots_frame with (v := v2) (S := []); [|apply RE|intros ? ? []].
      intros s Hs. destruct (in_dec Z.eq_dec s done) as [Hin|Hnin]; [apply D2; auto|].
      destruct (O1 s Hs) as [H|(Hr & Hd)]; [contradiction|]. destruct K2 as (_ & T2 & _).
      split; [destruct T2 as (E & _); lia|]. rewrite (get_alloc_frame _ _ _ _ T2); auto.
Qed.


(* ---------------------------------------------------------------- memoryBlockList.Destroy *)

Lemma destroy_blocks_ext bs : forall v ty, mach_ext (v_m v) (v_m (fst (destroy_blocks c v ty bs))) /\ v_tab (fst (destroy_blocks c v ty bs)) = v_tab v.
Proof.
  induction bs as [|b tl IH]; intros v ty; cbn [destroy_blocks]; [split; [apply mach_ext_refl|reflexivity]|].
  destruct (destroy_block_ext v ty b) as (D1 & D2). destruct (destroy_block c v ty b) as (v1 & r1). cbn [fst] in D1, D2.
  destruct r1 as [[]|code| |]; cbn [fst]; auto. destruct (IH v1 ty) as (A & B). split; [eapply mach_ext_trans; eauto|congruence].
Qed.

Lemma bl_destroy_HH v X lr : HHc v X -> HHc (fst (bl_destroy c v lr)) X.
Proof.
  intros H. unfold bl_destroy. destruct (get_blist v lr) as [l|]; [|exact H]. destruct (existsb _ _); [exact H|].
  destruct (destroy_blocks_ext (bl_blocks l) v (bl_type l)) as (A & B). destruct (destroy_blocks c v (bl_type l) (bl_blocks l)) as (v1 & r1). cbn [fst] in A, B.
  assert (H1 : HHc v1 X) by (apply (HH_step c ms0 v X); [exact H|exact A|apply persist_sub_nil; apply tab_eq_frame; exact B]).
  destruct r1 as [[]|code| |]; cbn [fst]; try exact H1. destruct (get_blist v1 lr) as [l1|]; cbn [fst]; [|exact H1].
  apply (HH_lists v1 X); [exact H1|apply set_blist_m|apply tab_frame_set_blist].
Qed.

Lemma bl_destroy_inv v U X lr :
  VamInvH v U X ->
  let '(v', r) := bl_destroy c v lr in
  match r with
  | OK _ => kept v v' U X /\ (exists l', get_blist v' lr = Some l' /\ bl_blocks l' = [])
  | ER _ => v' = v /\ exists l b, get_blist v lr = Some l /\ In b (bl_blocks l) /\ meta_is_empty (bk_meta b) = false
  | _ => True
  end.
Proof.
  intros HI. pose proof (VamMapStep.bl_destroy_inv c Hc Hmax Hlarge ms0 v U X lr (vh_m _ _ _ HI)) as P.
  pose proof (bl_destroy_HH v X lr (vh_h _ _ _ HI)) as Q.
  destruct (bl_destroy c v lr) as (v' & r). cbn [fst] in Q. destruct r as [[]|code| |]; auto.
  destruct P as ((I1 & T1 & L1) & E). split; [|exact E]. split; [split; [exact I1|exact Q]|auto].
Qed.

Lemma create_min_blocks_inv n : forall v U X lr size,
  VamInvH v U X -> 0 <= size < 2 ^ 62 ->
  let '(v', r) := create_min_blocks c n v lr size in kept v v' U X.
Proof.
  induction n as [|k IH]; intros v U X lr size HI Hsz; cbn [create_min_blocks].
  - split; [auto|split; [apply tab_frame_refl|apply lists_frame_refl]].
  - destruct (get_blist v lr) as [l|] eqn:Hg.
    + pose proof (create_block_inv v U X lr l size HI Hg Hsz) as C.
      destruct (create_block c v lr size) as (v1 & r). destruct r; try exact C.
      specialize (IH v1 U X lr size (proj1 C) Hsz). destruct (create_min_blocks c k v1 lr size) as (v2 & r2).
      eapply kept_trans; eauto.
    + unfold create_block. rewrite Hg. split; [auto|split; [apply tab_frame_refl|apply lists_frame_refl]].
Qed.

End WithCfg.
