(* VamRefused.v — C13 "a refused request changes nothing", allocator level.

   For AllocateMemory / AllocateMemorySlice / AllocateMemoryForBuffer / AllocateMemoryForImage / CreateBuffer /
   CreateImage / CreatePool that return an error (any fault oracle, any argument), along every history of the
   balance domain (reachB), [refused_changes_nothing]:
     - every Allocation object is exactly as before (same_slots), hence every live region of every block and every
       dedicated allocation is where it was and no new one exists (same_slots_same_regions / same_slots_same_dedicated,
       both directions);
     - the pools and block lists are as before (pools_same: the same pools with the same ids, every block list with
       the same configuration, no list appeared or disappeared, global memory type mask, nextPoolId); the dedicated
       lists contain the same Allocation objects;
     - the allocation counters of the budget (allocationCount, allocationBytes per heap) are as before;
     - every device memory object that holds a live allocation is still there, with the same memory type (and size,
       for a dedicated allocation), and no other object holds one (mems_used_same); every OTHER device memory object,
       before and after, is the memory of an EMPTY block of a linked block list.
   What may differ: EMPTY blocks, in one case (by reading; the theorem does not depend on it).  AllocateMemory gives a
   block created for the failing request back (allocPage), Allocate unwinds with free(keepBlocks) and then
   releaseEmptyBlocksCreatedSince; but CreateBuffer / CreateImage whose bind fails after the allocation succeeded call
   the ordinary Allocation.free(), whose retention policy may keep a freshly created block as the empty spare (or
   release another empty block).  With the empty blocks
   differ the block counters of the budget (blockCount, blockBytes: they equal the device truth in both states,
   budget_equals_truth), the hysteresis counters of the blocks, the budget-fetch bookkeeping and the driver log. *)
From Coq Require Import ZArith NArith List Bool Lia.
From Arsenal Require Import Util Budget BudgetProofs VamDev VamBlockList Vam VamInvMeta VamInv VamInvUpd VamInvDev.
From Arsenal Require Import VamInvStep VamInvStep2 VamInvThm VamProps VamAcct VamAcctStep VamAcctStep2 VamAcctThm VamMap VamMapStep VamMapStep2 VamMapThm.
From Arsenal Require Import VamBal VamBalStep VamBalStep2 VamBalThm VamFailProps VamFailBal.
From Arsenal Require SyncMem SyncMemProofs.
Import ListNotations.
Open Scope Z_scope.

(* the pools and block lists are the same objects with the same configuration *)
Definition pools_same (v v' : vam) : Prop :=
  (forall lr l, get_blist v lr = Some l -> exists l', get_blist v' lr = Some l' /\ blist_cfg_same l l') /\
  (forall lr, get_blist v lr = None -> get_blist v' lr = None) /\
  v_global v' = v_global v /\ map p_uid (v_pools v') = map p_uid (v_pools v) /\ map p_id (v_pools v') = map p_id (v_pools v) /\
  v_next_pool_id v' = v_next_pool_id v.

Lemma pools_same_frame' v v' : lists_frame' v v' -> pools_same v v'.
Proof. intros [A B C D E (F1 & F2)]. repeat split; auto. Qed.

Lemma pools_same_refl v : pools_same v v.
Proof. apply pools_same_frame'. apply lists_frame'_refl. Qed.

Lemma lists_frame'_set_m v m : lists_frame' v (set_m v m).
Proof. apply lists_frame_weak. apply lists_frame_set_m. Qed.

Lemma pools_same_set_m_l v m v' : pools_same (set_m v m) v' -> pools_same v v'.
Proof.
  intros (A & B & C & D & E & F). repeat split; auto;
    try (intros lr l Hg; rewrite ?get_blist_set_m in *; auto); try (intros lr Hg; rewrite ?get_blist_set_m in *; auto).
Qed.

Lemma pools_same_set_m_r v v' m : pools_same v v' -> pools_same v (set_m v' m).
Proof.
  intros (A & B & C & D & E & F). repeat split; auto;
    try (intros lr l Hg; rewrite ?get_blist_set_m in *; auto); try (intros lr Hg; rewrite ?get_blist_set_m in *; auto).
Qed.

(* the refusal: invariants, Allocation objects, pools *)
Definition refused_post (c : vcfg) (ms0 : list dmem) (G : Z -> Z) (v v' : vam) : Prop :=
  VamBalStep.VamInvB c ms0 G v' [] [] /\ same_slots v v' /\ pools_same v v'.

Section WithCfg.
Variable c : vcfg.
Hypothesis Hc : cfg_ok c.
Hypothesis Hmax : 0 <= c_maxcount c < 2147483647.
Hypothesis Hlarge : 0 <= c_large c < 2 ^ 61.
Variable ms0 : list dmem.
Variable G : Z -> Z.
Set Default Proof Using "Hc Hmax Hlarge".

Notation VamInvB := (VamBalStep.VamInvB c ms0 G).
Notation vb_b := (VamBalStep.vb_b c ms0 G).
Notation vb_s := (VamBalStep.vb_s c Hc Hmax Hlarge ms0 G).
Notation vb_aa := (VamBalStep.vb_aa c Hc Hmax Hlarge ms0 G).
Notation VamInvB_mach_same := (VamBalStep.VamInvB_mach_same c Hc Hmax Hlarge ms0 G).
Notation rpost := (refused_post c ms0 G).

Lemma rpost_refl v : VamInvB v [] [] -> rpost v v.
Proof. intros H. split; [exact H|]. split; [intros s a; tauto|apply pools_same_refl]. Qed.

Lemma rpost_frames v v' S :
  VamInvB v' [] [] -> tab_frame v v' S -> lists_frame' v v' ->
  (forall s, In s S -> a_allocated (get_alloc v s) = false /\ a_allocated (get_alloc v' s) = false) -> rpost v v'.
Proof. intros I T L D. split; [exact I|]. split; [exact (same_slots_frame v v' S T D)|apply pools_same_frame'; exact L]. Qed.

Lemma multi_allocate_refused v size align typeBits reqDed prefDed ded bufimg usage flags0 req pref ctb pool sub slots :
  VamInvB v [] [] -> size < 2 ^ 62 -> NoDup slots -> dead_slots v slots ->
  let '(v', r) := multi_allocate c v size align typeBits reqDed prefDed ded bufimg usage flags0 req pref ctb pool sub slots in
  match r with ER _ => VamInvB v' [] [] /\ tab_frame v v' slots /\ lists_frame' v v' /\ dead_slots v' slots | _ => True end.
Proof.
  intros HI Hsz Hnd Hdead.
  pose proof (VamBalStep2.multi_allocate_inv c Hc Hmax Hlarge ms0 G v [] size align typeBits reqDed prefDed ded bufimg usage flags0 req pref ctb pool sub slots HI Hsz Hnd Hdead) as P.
  destruct (multi_allocate c v size align typeBits reqDed prefDed ded bufimg usage flags0 req pref ctb pool sub slots) as (v' & r).
  destruct r as [[]|code| |]; auto.
Qed.

Lemma allocate_memory_refused v slot size align typeBits usage flags req pref ctb pool :
  VamInvB v [] [] -> size < 2 ^ 62 -> 0 <= slot < zlen (v_tab v) ->
  let '(v', r) := allocate_memory c v slot size align typeBits usage flags req pref ctb pool in
  match r with ER _ => rpost v v' | _ => True end.
Proof.
  intros HI Hsz Hr. unfold allocate_memory. destruct (a_allocated (get_alloc v slot)) eqn:Ea; [apply rpost_refl; exact HI|].
  assert (Hnd : NoDup [slot]) by (constructor; [intros []|constructor]).
  assert (Hdead : dead_slots v [slot]) by (intros s [<-|[]]; auto).
  match goal with |- context [multi_allocate c v ?a1 ?a2 ?a3 ?a4 ?a5 ?a6 ?a7 ?a8 ?a9 ?a10 ?a11 ?a12 ?a13 ?a14 [slot]] =>
    pose proof (multi_allocate_refused v a1 a2 a3 a4 a5 a6 a7 a8 a9 a10 a11 a12 a13 a14 [slot] HI Hsz Hnd Hdead) as P;
    destruct (multi_allocate c v a1 a2 a3 a4 a5 a6 a7 a8 a9 a10 a11 a12 a13 a14 [slot]) as (v' & r) end.
  destruct r as [[]|code| |]; auto. destruct P as (I1 & T1 & L1 & D1).
  apply (rpost_frames v v' [slot] I1 T1 L1). intros s Hs. split; [apply (Hdead s Hs)|apply (D1 s Hs)].
Qed.

Lemma allocate_memory_slice_refused v slot n size align typeBits usage flags req pref ctb pool :
  VamInvB v [] [] -> size < 2 ^ 62 -> 0 <= slot -> slot + n <= zlen (v_tab v) ->
  let '(v', r) := allocate_memory_slice c v slot n size align typeBits usage flags req pref ctb pool in
  match r with ER _ => rpost v v' | _ => True end.
Proof.
  intros HI Hsz H0 Hn. unfold allocate_memory_slice. cbn zeta.
  destruct (slot_range_nodup (Z.to_nat n) slot) as (Hnd & Hrange).
  set (slots := slot_range slot (Z.to_nat n)) in *.
  destruct slots as [|s0 tl] eqn:Es; [exact I|].
  rewrite <- Es in *. destruct (existsb _ slots) eqn:Eex; [apply rpost_refl; exact HI|].
  assert (Hdead : dead_slots v slots).
  { intros s Hs. split.
    - specialize (Hrange s Hs). destruct n as [|p|p]; [cbn in Hrange; lia|rewrite Z2Nat.id in Hrange by lia; lia|cbn in Hrange; lia].
    - destruct (a_allocated (get_alloc v s)) eqn:E; [|reflexivity]. exfalso.
      assert (existsb (fun s => a_allocated (get_alloc v s)) slots = true) by (apply existsb_exists; exists s; auto). congruence. }
  match goal with |- context [multi_allocate c v ?a1 ?a2 ?a3 ?a4 ?a5 ?a6 ?a7 ?a8 ?a9 ?a10 ?a11 ?a12 ?a13 ?a14 slots] =>
    pose proof (multi_allocate_refused v a1 a2 a3 a4 a5 a6 a7 a8 a9 a10 a11 a12 a13 a14 slots HI Hsz Hnd Hdead) as P;
    destruct (multi_allocate c v a1 a2 a3 a4 a5 a6 a7 a8 a9 a10 a11 a12 a13 a14 slots) as (v' & r) end.
  destruct r as [[]|code| |]; auto. destruct P as (I1 & T1 & L1 & D1).
  apply (rpost_frames v v' slots I1 T1 L1). intros s Hs. split; [apply (Hdead s Hs)|apply (D1 s Hs)].
Qed.

Lemma allocate_for_resource_refused v s image res usage flags req pref ctb pool :
  VamInvB v [] [] -> 0 <= s < zlen (v_tab v) ->
  let '(v', r) := allocate_for_resource c v s image res usage flags req pref ctb pool in
  match r with ER _ => rpost v v' | _ => True end.
Proof.
  intros HI Hr. unfold allocate_for_resource. destruct (res =? 0); [apply rpost_refl; exact HI|].
  destruct (a_allocated (get_alloc v s)) eqn:Ea; [apply rpost_refl; exact HI|].
  destruct (VamMapStep2.get_requirements_spec c Hc Hmax Hlarge (v_m v) image res) as (m2 & rq & rd & pd & Egr & H2 & Hrq). rewrite Egr.
  assert (Hsz : rq_size rq < 2 ^ 62) by (apply Hrq; apply (ai_res _ _ _ (vb_aa _ _ _ HI))).
  assert (I2 : VamInvB (set_m v m2) [] []) by (apply VamInvB_mach_same; auto).
  assert (Hnd : NoDup [s]) by (constructor; [intros []|constructor]).
  assert (Hdead : dead_slots (set_m v m2) [s]) by (intros x [<-|[]]; auto).
  match goal with |- context [multi_allocate c (set_m v m2) ?a1 ?a2 ?a3 ?a4 ?a5 ?a6 ?a7 usage flags req pref ctb pool ?sb [s]] =>
    pose proof (multi_allocate_refused (set_m v m2) a1 a2 a3 a4 a5 a6 a7 usage flags req pref ctb pool sb [s] I2 Hsz Hnd Hdead) as P;
    destruct (multi_allocate c (set_m v m2) a1 a2 a3 a4 a5 a6 a7 usage flags req pref ctb pool sb [s]) as (v3 & r) end.
  destruct r as [[]|code| |]; auto. destruct P as (I1 & T1 & L1 & D1).
  apply (rpost_frames v v3 [s] I1); [eapply tab_frame_trans_same; [apply tab_frame_set_m|exact T1]|eapply lists_frame'_trans; [apply lists_frame'_set_m|exact L1]|].
  intros x [<-|[]]. split; [exact Ea|apply (D1 s); left; reflexivity].
Qed.

Lemma create_resource_refused v s image kind sub devreq resusage minAlign usage flags req pref ctb pool :
  VamInvB v [] [] -> rq_size devreq < 2 ^ 62 -> 0 <= s < zlen (v_tab v) -> a_allocated (get_alloc v s) = false ->
  let '(v', r) := create_resource c v s image kind sub devreq resusage minAlign usage flags req pref ctb pool in
  match r with ER _ => rpost v v' | _ => True end.
Proof.
  intros HI Hdq Hr Hd.
  pose proof (VamBalStep2.create_resource_inv c Hc Hmax Hlarge ms0 G v s image kind sub devreq resusage minAlign usage flags req pref ctb pool HI Hdq Hr Hd) as PI.
  pose proof (create_resource_fail_dead c Hc Hmax Hlarge ms0 G v s image kind sub devreq resusage minAlign usage flags req pref ctb pool HI Hdq Hr Hd) as PD.
  assert (PL : let '(v', r) := create_resource c v s image kind sub devreq resusage minAlign usage flags req pref ctb pool in
               match r with ER _ => lists_frame' v v' | _ => True end).
  { unfold create_resource.
    pose proof (VamMapStep2.dev_create_res_sameX c Hc Hmax Hlarge (v_m v) image kind devreq Hdq) as H1.
    destruct (dev_create_res (v_m v) image kind devreq) as ((m1 & code) & id). cbn [fst] in H1.
    destruct (negb (code =? 0)); [apply lists_frame'_set_m|].
    destruct (VamMapStep2.get_requirements_spec c Hc Hmax Hlarge m1 image id) as (m2 & rq & rd & pd & Egr & H2 & Hrq). rewrite Egr.
    assert (Hsz : rq_size rq < 2 ^ 62) by (apply Hrq; apply (proj2 (proj2 (proj1 H1))); apply (ai_res _ _ _ (vb_aa _ _ _ HI))).
    pose proof (VamMapStep.mach_sameX_trans c Hc Hmax Hlarge _ _ _ H1 H2) as H12.
    assert (I2 : VamInvB (set_m v m2) [] []) by (apply VamInvB_mach_same; auto).
    assert (Hnd : NoDup [s]) by (constructor; [intros []|constructor]).
    assert (Hdead : dead_slots (set_m v m2) [s]) by (intros x [<-|[]]; auto).
    match goal with |- context [multi_allocate c (set_m v m2) ?a1 ?a2 ?a3 ?a4 ?a5 ?a6 ?a7 usage flags req pref ctb pool sub [s]] =>
      pose proof (VamBalStep2.multi_allocate_inv c Hc Hmax Hlarge ms0 G (set_m v m2) [] a1 a2 a3 a4 a5 a6 a7 usage flags req pref ctb pool sub [s] I2 Hsz Hnd Hdead) as MA;
      destruct (multi_allocate c (set_m v m2) a1 a2 a3 a4 a5 a6 a7 usage flags req pref ctb pool sub [s]) as (v3 & r) end.
    destruct r as [[]|acode| |]; auto.
    - destruct MA as (I3 & T3 & L3 & D3).
      assert (L03 : lists_frame' v v3) by (eapply lists_frame'_trans; [apply lists_frame'_set_m|exact L3]).
      destruct (fl flags F_DONTBIND); [exact I|].
      pose proof (VamBalStep2.bind_memory_inv c Hc Hmax Hlarge ms0 G v3 s image id 0 I3) as B.
      assert (LB : lists_frame' v3 (fst (bind_memory v3 s image id 0))).
      { unfold bind_memory. destruct (id =? 0); [apply lists_frame'_refl|]. destruct (negb _); [apply lists_frame'_refl|]. destruct (0 <? 0); [apply lists_frame'_refl|].
        match goal with |- context [match ?t with OK _ => _ | ER _ => _ | PANIC => _ | STUCK => _ end] => destruct t as [o|bc| |] end;
          try apply lists_frame'_refl.
        destruct (dev_bind (v_m v3) image id (a_mem (get_alloc v3 s)) o) as (mb & cb). apply lists_frame'_set_m. }
      destruct (bind_memory v3 s image id 0) as (v4 & br). cbn [fst] in LB.
      destruct br as [[]|bcode| |]; auto. destruct B as (I4 & T4).
      assert (L04 : lists_frame' v v4) by (eapply lists_frame'_trans; [exact L03|exact LB]).
      destruct (a_allocated (get_alloc v4 s)) eqn:Ea.
      + assert (Hlive : live_slots v4 [] [s]) by (intros x [<-|[]]; split; [intros []|exists (get_alloc v4 s); apply get_alloc_allocated; auto]).
        pose proof (VamBalStep2.multi_free_inv c Hc Hmax Hlarge ms0 G [s] v4 [] I4 Hnd Hlive ltac:(intros x [<-|[]]; apply (bb_G0 _ _ _ (vb_b _ _ _ HI)); exact Hd)) as P.
        destruct (multi_free c v4 [s]) as (v5 & fr).
        destruct fr as [[]|code5| |]; auto; [destruct P as (_ & _ & L5 & _)|destruct P as (_ & _ & L5)];
          (eapply lists_frame'_trans; [exact L04|]; eapply lists_frame'_trans; [exact L5|apply lists_frame'_set_m]).
      + eapply lists_frame'_trans; [exact L04|apply lists_frame'_set_m].
    - destruct MA as (I3 & T3 & L3 & D3).
      eapply lists_frame'_trans; [apply lists_frame'_set_m|]. eapply lists_frame'_trans; [exact L3|apply lists_frame'_set_m]. }
  destruct (create_resource c v s image kind sub devreq resusage minAlign usage flags req pref ctb pool) as (v' & r).
  destruct r as [[]|code| |]; auto. destruct PI as (I1 & T1).
  apply (rpost_frames v v' [s] I1 T1 PL). intros x [<-|[]]. auto.
Qed.

Lemma create_buffer_refused v s size devreq bufUsage minAlign usage flags req pref ctb pool :
  VamInvB v [] [] -> rq_size devreq < 2 ^ 62 -> 0 <= s < zlen (v_tab v) ->
  let '(v', r) := create_buffer c v s size devreq bufUsage minAlign usage flags req pref ctb pool in
  match r with ER _ => rpost v v' | _ => True end.
Proof.
  intros HI Hdq Hr. unfold create_buffer. destruct (a_allocated (get_alloc v s)) eqn:Ea; [apply rpost_refl; exact HI|].
  destruct (_ && _); [apply rpost_refl; exact HI|]. destruct (size =? 0); [apply rpost_refl; exact HI|].
  destruct (_ && _); [apply rpost_refl; exact HI|]. apply create_resource_refused; auto.
Qed.

Lemma create_image_refused v s tiling width devreq imgUsage usage flags req pref ctb pool :
  VamInvB v [] [] -> rq_size devreq < 2 ^ 62 -> 0 <= s < zlen (v_tab v) ->
  let '(v', r) := create_image c v s tiling width devreq imgUsage usage flags req pref ctb pool in
  match r with ER _ => rpost v v' | _ => True end.
Proof.
  intros HI Hdq Hr. unfold create_image. destruct (a_allocated (get_alloc v s)) eqn:Ea; [apply rpost_refl; exact HI|].
  destruct (width =? 0); [apply rpost_refl; exact HI|]. apply create_resource_refused; auto.
Qed.

End WithCfg.

(* ---------------------------------------------------------------- CreatePool that fails: the device memory objects *)

Definition kid (k : Z * Z * Z) : Z := fst (fst k).

Fixpoint rk (ks : list (Z * Z * Z)) (id : Z) : list (Z * Z * Z) :=
  match ks with [] => [] | k :: tl => if kid k =? id then tl else k :: rk tl id end.

Lemma keys_remove ms id : map mem_key (remove_mem ms id) = rk (map mem_key ms) id.
Proof using. induction ms as [|d ms IH]; cbn; [reflexivity|]. unfold kid. cbn. destruct (dm_id d =? id); cbn; [reflexivity|]. rewrite IH. reflexivity. Qed.

Lemma rk_fresh ks k tl : ~ In (kid k) (map kid ks) -> rk (ks ++ k :: tl) (kid k) = ks ++ tl.
Proof using.
  induction ks as [|x ks IH]; cbn; intros H; [rewrite Z.eqb_refl; reflexivity|].
  destruct (kid x =? kid k) eqn:E; [apply Z.eqb_eq in E; exfalso; apply H; left; exact E|]. rewrite IH; [reflexivity|]. intros Hin. apply H. right. exact Hin.
Qed.

Lemma rk_all nks : forall ks, NoDup (map kid (ks ++ nks)) -> fold_left rk (map kid nks) (ks ++ nks) = ks.
Proof using.
  induction nks as [|k tl IH]; intros ks Hnd; cbn [map fold_left]; [apply app_nil_r|].
  rewrite rk_fresh.
  - apply IH. rewrite map_app in *. cbn [map] in Hnd. apply NoDup_remove_1 in Hnd. exact Hnd.
  - rewrite map_app in Hnd. cbn [map] in Hnd. apply NoDup_remove_2 in Hnd. intros Hin. apply Hnd. apply in_app_iff. left. exact Hin.
Qed.

Section PoolMems.
Variable c : vcfg.
Hypothesis Hc : cfg_ok c.
Set Default Proof Using "Hc".

Lemma create_min_blocks_keys n size : forall v lr l,
  VamInvU c v [] [] -> get_blist v lr = Some l ->
  let '(v', r) := create_min_blocks c n v lr size in
  exists l' nbs nks, get_blist v' lr = Some l' /\ bl_type l' = bl_type l /\ bl_blocks l' = bl_blocks l ++ nbs /\
    map mem_key (m_mems (v_m v')) = map mem_key (m_mems (v_m v)) ++ nks /\ map bk_mem nbs = map kid nks.
Proof.
  induction n as [|k IH]; intros v lr l HI Hg; cbn [create_min_blocks].
  - exists l, [], []. rewrite !app_nil_r. auto.
  - pose proof (VamInvStep.create_block_inv c Hc v [] [] lr l size HI Hg) as CI.
    assert (CK : let '(v1, r) := create_block c v lr size in
                 match r with
                 | OK _ => exists b d, get_blist v1 lr = Some (set_blocks_next l (bl_blocks l ++ [b]) (bl_next l + 1)) /\
                             map mem_key (m_mems (v_m v1)) = map mem_key (m_mems (v_m v)) ++ [mem_key d] /\ bk_mem b = dm_id d
                 | _ => get_blist v1 lr = Some l /\ map mem_key (m_mems (v_m v1)) = map mem_key (m_mems (v_m v))
                 end).
    { unfold create_block. rewrite Hg.
      pose proof (alloc_vk_spec c (v_m v) (bl_type l) size 0 (vi_dev_pos _ _ _ _ HI)) as A.
      destruct (alloc_vk c (v_m v) (bl_type l) size 0) as (m1 & r). destruct r as [mem|code| |].
      - destruct A as (_ & _ & Em & _). exists (mkBlock (bl_next l) mem SyncMem.sm_init (meta_init (bl_algo l) (bl_gran l) size)), (mkDmem mem (bl_type l) size false). split; [|split; [|reflexivity]].
        + apply (get_set_blist_same (set_m v m1) lr l). rewrite get_blist_set_m. exact Hg.
        + rewrite set_blist_m. cbn [v_m set_m]. rewrite Em, map_app. reflexivity.
      - split; [rewrite get_blist_set_m; exact Hg|]. destruct A as (A & _). symmetry. exact A.
      - split; [rewrite get_blist_set_m; exact Hg|]. destruct A as (A & _). symmetry. exact A.
      - split; [rewrite get_blist_set_m; exact Hg|]. destruct A as (A & _). symmetry. exact A. }
    destruct (create_block c v lr size) as (v1 & r1). destruct CI as (I1 & _).
    destruct r1 as [bid|code| |]; try (destruct CK as (G1 & K1); exists l, [], []; rewrite !app_nil_r; auto).
    destruct CK as (b & d & G1 & K1 & Eb).
    specialize (IH v1 lr _ I1 G1). destruct (create_min_blocks c k v1 lr size) as (v2 & r2).
    destruct IH as (l2 & nbs & nks & G2 & T2 & B2 & K2 & M2). cbn [bl_blocks bl_type set_blocks_next] in *.
    exists l2, (b :: nbs), (mem_key d :: nks). split; [exact G2|]. split; [exact T2|]. split; [rewrite B2, <- app_assoc; reflexivity|].
    split; [rewrite K2, K1, <- app_assoc; reflexivity|]. cbn [map]. rewrite M2, Eb. reflexivity.
Qed.

Lemma destroy_blocks_keys bs : forall v ty v', destroy_blocks c v ty bs = (v', OK tt) ->
  map mem_key (m_mems (v_m v')) = fold_left rk (map bk_mem bs) (map mem_key (m_mems (v_m v))).
Proof using.
  induction bs as [|b tl IH]; intros v ty v' H; cbn [destroy_blocks map fold_left] in *; [injection H as <-; reflexivity|].
  destruct (destroy_block c v ty b) as (v1 & r1) eqn:E. destruct r1 as [[]|code| |]; try discriminate.
  rewrite (IH _ _ _ H). f_equal. unfold destroy_block in E. destruct (negb (meta_is_empty (bk_meta b))); [discriminate|].
  pose proof (free_vk_spec c (v_m v) ty (meta_size (bk_meta b)) (bk_mem b)) as (F & _).
  destruct (free_vk c (v_m v) ty (meta_size (bk_meta b)) (bk_mem b)) as (m1 & fr). injection E as <- _. cbn [v_m set_m fst] in *.
  rewrite F. apply keys_remove.
Qed.

End PoolMems.

(* ---------------------------------------------------------------- CreatePool *)

Lemma map_uid_remove_head ps uid rest : map p_uid ps = uid :: rest -> map p_uid (remove_pool ps uid) = rest.
Proof using. destruct ps as [|q qs]; cbn; [discriminate|]. intros H. injection H as Hq Hr. rewrite Hq, Z.eqb_refl. exact Hr. Qed.

Lemma find_pool_none_notin ps uid : ~ In uid (map p_uid ps) -> find_pool ps uid = None.
Proof using.
  induction ps as [|q qs IH]; cbn; [reflexivity|]. intros H. destruct (p_uid q =? uid) eqn:E; [apply Z.eqb_eq in E; exfalso; apply H; left; exact E|].
  apply IH. intros Hin. apply H. right. exact Hin.
Qed.

Section Pool.
Variable c : vcfg.
Hypothesis Hc : cfg_ok c.
Set Default Proof Using "Hc".

Lemma create_pool_fail_pools v ty flags blockSize minB maxB0 minAlign :
  VamInvU c v [] [] ->
  let '(v', r) := create_pool c v ty flags blockSize minB maxB0 minAlign in
  match r with ER _ => pools_same v v' /\ mems_same (m_mems (v_m v)) (m_mems (v_m v')) | _ => True end.
Proof.
  intros HI. unfold create_pool.
  assert (Hfresh0 : find_pool (v_pools v) (v_next_uid v) = None).
  { apply find_pool_none_fresh. eapply Forall_impl; [|exact (vi_pools_uid _ _ _ _ HI)]. cbn. intros; lia. }
  assert (Hrefl : pools_same v v /\ mems_same (m_mems (v_m v)) (m_mems (v_m v))) by (split; [apply pools_same_refl|apply mems_same_refl]).
  destruct (_ <? minB); [exact Hrefl|]. destruct ((ty <? 0) || (ntypes c <=? ty)) eqn:Ety; [exact Hrefl|].
  destruct (negb (N.testbit _ _)); [exact Hrefl|]. destruct ((0 <? minAlign) && negb (is_pow2_or_zero minAlign)) eqn:Eal; [exact Hrefl|].
  set (bs := if blockSize =? 0 then preferred_block_size c ty else blockSize).
  set (al := if type_min_alignment c ty <? minAlign then minAlign else type_min_alignment c ty).
  set (gr := if Z.testbit flags 0 then 1 else eff_granularity c).
  set (l := mkBlist ty bs minB (if maxB0 =? 0 then MAXINT else maxB0) gr (negb (blockSize =? 0)) (Z.land flags 2) al [] 0 true).
  set (uid := v_next_uid v).
  assert (Hwf : blist_wf c l).
  { constructor; cbn.
    9: (unfold gr, eff_granularity; destruct (Z.testbit flags 0); auto).
    all: try constructor; try lia.
    - unfold type_valid. apply orb_false_iff in Ety. destruct Ety as (E1 & E2). apply Z.ltb_ge in E1. apply Z.leb_gt in E2.
      apply andb_true_iff. split; [apply Z.leb_le; lia|apply Z.ltb_lt; lia].
    - unfold al. pose proof (type_min_alignment_pow2 c Hc ty) as Ht. destruct (type_min_alignment c ty <? minAlign) eqn:E; [|auto].
      apply Z.ltb_lt in E. pose proof (Bits.pow2_pos _ Ht). apply andb_false_iff in Eal. destruct Eal as [Eal|Eal].
      + apply Z.ltb_ge in Eal. lia.
      + apply negb_false_iff in Eal. destruct (pow2_or_zero_spec _ Eal); [lia|auto].
    - unfold gr. destruct (Z.testbit flags 0); [apply Bits.pow2_1|apply (eff_granularity_pow2 c Hc)].
    - unfold al. destruct (type_min_alignment c ty <? minAlign) eqn:E; [apply Z.ltb_lt in E|]; unfold type_min_alignment in *; lia. }
  pose proof (VamInvU_add_pool c v [] [] l HI Hwf eq_refl) as I0. fold uid in I0.
  set (v0 := mkVam (v_m v) (v_global v) (v_lists v) (v_ded v) (mkPool uid (v_next_pool_id v) l [] :: v_pools v)
                   (v_next_pool_id v + 1) (uid + 1) (v_tab v)) in *.
  pose proof (VamInvStep.create_min_blocks_inv c Hc (Z.to_nat minB) v0 [] [] (LPool uid) bs I0) as CM.
  pose proof (create_min_blocks_keys c Hc (Z.to_nat minB) bs v0 (LPool uid) l I0 ltac:(cbn; rewrite Z.eqb_refl; reflexivity)) as CK.
  destruct (create_min_blocks c (Z.to_nat minB) v0 (LPool uid) bs) as (v1 & r).
  destruct CM as (I1 & T1 & L1).
  assert (T01 : tab_frame v v1 []) by (destruct T1 as (A & B); split; auto).
  destruct r as [[]|code| |]; auto.
  (* creation failed: the blocks created so far are released, the pool unlinked, nextPoolId restored *)
  assert (Hfresh : find_pool (v_pools v) uid = None).
  { apply find_pool_none_fresh. eapply Forall_impl; [|exact (vi_pools_uid _ _ _ _ HI)]. cbn. intros; lia. }
  assert (Hu1 : map p_uid (v_pools v1) = uid :: map p_uid (v_pools v)) by (rewrite (lf_uids _ _ L1); reflexivity).
  assert (Hp1 : map p_id (v_pools v1) = v_next_pool_id v :: map p_id (v_pools v)) by (rewrite (lf_pids _ _ L1); reflexivity).
  assert (Hrem : map p_id (remove_pool (v_pools v1) uid) = map p_id (v_pools v)).
  { destruct (v_pools v1) as [|q qs]; cbn in *; [discriminate|]. injection Hu1 as Hq Hu. injection Hp1 as Hq' Hp.
    rewrite Hq, Z.eqb_refl. exact Hp. }
  assert (Hids : Forall (fun q => p_id q < v_next_pool_id v) (remove_pool (v_pools v1) uid)).
  { apply Forall_forall. intros q Hq. assert (In (p_id q) (map p_id (v_pools v))) by (rewrite <- Hrem; apply in_map; auto).
    apply in_map_iff in H. destruct H as (q0 & E0 & H0). destruct (vi_pools_id _ _ _ _ HI) as (_ & Hf). rewrite Forall_forall in Hf. rewrite <- E0. auto. }
  pose proof (VamInvStep2.pool_destroy_inv c v1 uid (v_next_pool_id v) I1 Hids) as PD.
  (* the new pool is not referenced by any Allocation object, so its destruction cannot be refused *)
  assert (Hnoref : forall s a, slot_is v1 s a -> a_lref a <> LPool uid).
  { intros s a S E. assert (S0 : slot_is v s a) by (apply (slot_is_frame _ _ _ _ _ T01) in S; auto).
    destruct (vi_slots _ _ _ _ HI s a S0 (fun H => H)) as [(_ & l2 & _ & _ & G & _)|(_ & _ & (l2 & G & _) & _)];
      rewrite E in G; cbn in G; rewrite Hfresh in G; discriminate. }
  assert (Hnin : ~ In uid (map p_uid (v_pools v))).
  { intros Hin. pose proof (vi_pools_uid _ _ _ _ HI) as Hu. rewrite Forall_forall in Hu. apply in_map_iff in Hin.
    destruct Hin as (q & Eq & Hq). specialize (Hu q Hq). cbn in Hu. unfold uid in Eq. lia. }
  unfold pool_destroy in *. destruct (find_pool (v_pools v1) uid) as [p|] eqn:Ef; [|exact I].
  assert (Hded : p_ded p = []).
  { pose proof (lf_ded _ _ L1 (LPool uid)) as D. cbn in D. rewrite Ef, Z.eqb_refl in D. exact D. }
  rewrite Hded in *.
  destruct CK as (lk & nbs & nks & Gk & _ & Bk0 & Kk & Mk). assert (Bk : bl_blocks lk = nbs) by (rewrite Bk0; reflexivity). change (m_mems (v_m v0)) with (m_mems (v_m v)) in Kk.
  assert (HK : let '(w, r1) := bl_destroy c v1 (LPool uid) in match r1 with OK _ => mems_same (m_mems (v_m v)) (m_mems (v_m w)) | _ => True end).
  { unfold bl_destroy. rewrite Gk. destruct (existsb _ (bl_blocks lk)); [exact I|].
    destruct (destroy_blocks c v1 (bl_type lk) (bl_blocks lk)) as (w1 & rd) eqn:Ed. destruct rd as [[]|cd| |]; try exact I.
    pose proof (destroy_blocks_keys c _ _ _ _ Ed) as DK.
    assert (E : map mem_key (m_mems (v_m w1)) = map mem_key (m_mems (v_m v))).
    { rewrite DK, Bk, Mk, Kk. apply rk_all. rewrite <- Kk.
      pose proof (vi_dev_nodup _ _ _ _ I1) as Hnd. replace (map kid (map mem_key (m_mems (v_m v1)))) with (map dm_id (m_mems (v_m v1))); [exact Hnd|].
      rewrite map_map. reflexivity. }
    destruct (get_blist w1 (LPool uid)); [|exact I]. unfold mems_same. rewrite set_blist_m. symmetry. exact E. }
  pose proof (VamInvStep.bl_destroy_inv c v1 [] [] (LPool uid) I1) as BD.
  destruct (bl_destroy c v1 (LPool uid)) as (v1' & r1). destruct r1 as [[]|code1| |]; auto.
  2:{ exfalso. destruct BD as (_ & l2 & b & Hg2 & Hb & He).
      rewrite (VamInvStep2.unreferenced_blocks_empty c v1 (LPool uid) l2 I1 Hg2 Hnoref b Hb) in He. discriminate. }
  destruct BD as ((I1' & T1' & L1') & _).
  pose proof (lists_frame_trans _ _ _ L1 L1') as L.
  assert (Hu : map p_uid (v_pools v1') = uid :: map p_uid (v_pools v)) by (rewrite (lf_uids _ _ L); reflexivity).
  assert (Hp : map p_id (v_pools v1') = v_next_pool_id v :: map p_id (v_pools v)) by (rewrite (lf_pids _ _ L); reflexivity).
  set (ps2 := remove_pool (remove_pool (v_pools v1') uid) uid).
  assert (Hrm1 : map p_uid (remove_pool (v_pools v1') uid) = map p_uid (v_pools v)) by (apply map_uid_remove_head; exact Hu).
  assert (Hrm2 : remove_pool (remove_pool (v_pools v1') uid) uid = remove_pool (v_pools v1') uid).
  { apply remove_pool_absent. apply find_pool_none_notin. rewrite Hrm1. exact Hnin. }
  assert (Hfind : forall u, u <> uid -> find_pool ps2 u = find_pool (v_pools v1') u).
  { intros u Hne. unfold ps2. rewrite Hrm2, find_remove_pool. apply Z.eqb_neq in Hne. rewrite Hne. reflexivity. }
  assert (Hfu : find_pool ps2 uid = None).
  { unfold ps2. rewrite Hrm2. apply find_pool_none_notin. rewrite Hrm1. exact Hnin. }
  split; [|exact HK].
  unfold unlink_pool, pools_same. cbn [v_pools v_global v_next_pool_id set_pools v_lists v_ded v_m v_tab v_next_uid]. fold ps2.
  split; [|split; [|split; [|split; [|split]]]].
  - intros lr lx Hg. destruct lr as [t|u].
    + destruct (lf_some _ _ L (LDef t) lx Hg) as (l' & Hg' & Cs). exists l'. split; [exact Hg'|exact Cs].
    + assert (Hne : u <> uid) by (intros ->; cbn in Hg; rewrite Hfresh in Hg; discriminate).
      assert (Hg0 : get_blist v0 (LPool u) = Some lx).
      { cbn. apply Z.eqb_neq in Hne. rewrite Z.eqb_sym in Hne. rewrite Hne. exact Hg. }
      destruct (lf_some _ _ L (LPool u) lx Hg0) as (l' & Hg' & Cs). exists l'. split; [|exact Cs].
      cbn in *. rewrite (Hfind u Hne). exact Hg'.
  - intros lr Hg. destruct lr as [t|u].
    + exact (lf_none _ _ L (LDef t) Hg).
    + destruct (Z.eq_dec u uid) as [->|Hne]; [cbn; rewrite Hfu; reflexivity|].
      assert (Hg0 : get_blist v0 (LPool u) = None).
      { cbn. apply Z.eqb_neq in Hne. rewrite Z.eqb_sym in Hne. rewrite Hne. exact Hg. }
      pose proof (lf_none _ _ L (LPool u) Hg0) as Hg'. cbn in *. rewrite (Hfind u Hne). exact Hg'.
  - exact (lf_global _ _ L).
  - unfold ps2. rewrite Hrm2. exact Hrm1.
  - unfold ps2. rewrite Hrm2. destruct (v_pools v1') as [|q qs]; cbn in *; [discriminate|]. injection Hu as Hq _. injection Hp as _ Hp.
    rewrite Hq, Z.eqb_refl. exact Hp.
  - reflexivity.
Qed.

(* CreatePool that fails: the device memory objects are exactly the ones before, in the same order (id, memory type,
   size): every block created for the pool was destroyed again *)
Theorem failed_create_pool_same_memory v ty flags blockSize minB maxB minAlign f v' code calls :
  VamInv c v -> step c v (OMkPool ty flags blockSize minB maxB minAlign) f = (v', RErr code, calls) ->
  mems_same (m_mems (v_m v)) (m_mems (v_m v')) /\ pools_same v v'.
Proof.
  intros HI Hs. unfold step in Hs. cbn [exec] in Hs.
  set (v0 := set_m v (clear_calls (set_fault (v_m v) f 0))) in *.
  assert (I0 : VamInv c v0).
  { unfold v0, VamInv. apply VamInvU_mach_same; [exact HI|]. split; cbn; [apply mems_same_refl|lia]. }
  pose proof (create_pool_fail_pools v0 ty flags blockSize minB maxB minAlign I0) as Q.
  destruct (create_pool c v0 ty flags blockSize minB maxB minAlign) as (v1 & r).
  destruct r as [[]|code1| |]; cbn in Hs; try discriminate. injection Hs as <- _ _. destruct Q as (Q1 & Q2). split.
  - exact Q2.
  - apply pools_same_set_m_r. apply (pools_same_set_m_l v (clear_calls (set_fault (v_m v) f 0)) v1). exact Q1.
Qed.

End Pool.


(* ---------------------------------------------------------------- what "the same Allocation objects" implies *)

(* the device memory object id holds at least one live allocation *)
Definition mem_used (v : vam) (id : Z) : Prop := exists s a, slot_is v s a /\ a_mem a = id.

Section Same.
Variable c : vcfg.
Hypothesis Hc : cfg_ok c.
Set Default Proof Using "Hc".

Lemma slot_block c0 v s a : VamInv c0 v -> slot_is v s a -> a_kind a = 1 ->
  exists l b, get_blist v (a_lref a) = Some l /\ In b (bl_blocks l) /\ bk_id b = a_blk a /\ a_mem a = bk_mem b /\ a_type a = bl_type l.
Proof using.
  intros HI Sa K. destruct (vi_slots _ _ _ _ HI s a Sa (fun H => H)) as [(_ & l & b & rg & Hg & Hb & Hid & _ & _ & _ & _ & _ & Hm & Ht)|(K2 & _)]; [|congruence].
  exists l, b. auto.
Qed.

(* a memory object that holds a live allocation is still there, with its memory type *)
Lemma same_slots_mem_used v v' id :
  VamInv c v -> VamInv c v' -> same_slots v v' -> mem_used v id ->
  mem_used v' id /\
  exists d d', find_mem (m_mems (v_m v)) id = Some d /\ find_mem (m_mems (v_m v')) id = Some d' /\ dm_type d' = dm_type d.
Proof.
  intros HI HI' Hs (s & a & Sa & <-). pose proof (proj2 (Hs s a) Sa) as Sa'.
  split; [exists s, a; auto|].
  destruct (vi_slots _ _ _ _ HI s a Sa (fun H => H)) as [(K & _)|(K & _ & _ & d & F & T & Z0)].
  - destruct (slot_block c v s a HI Sa K) as (l & b & Hg & Hb & _ & Hm & Ht).
    destruct (slot_block c v' s a HI' Sa' K) as (l' & b' & Hg' & Hb' & _ & Hm' & Ht').
    destruct (vi_block_mem _ _ _ _ HI _ _ _ Hg Hb) as (d & F & T & _).
    destruct (vi_block_mem _ _ _ _ HI' _ _ _ Hg' Hb') as (d' & F' & T' & _).
    exists d, d'. rewrite Hm at 1. rewrite Hm'. repeat split; auto; congruence.
  - destruct (vi_slots _ _ _ _ HI' s a Sa' (fun H => H)) as [(K' & _)|(_ & _ & _ & d' & F' & T' & Z')]; [congruence|].
    exists d, d'. repeat split; auto; congruence.
Qed.

(* every other memory object is the memory of an empty block (in any state satisfying the invariant) *)
Lemma unused_mem_empty_block v d :
  VamInv c v -> In d (m_mems (v_m v)) -> ~ mem_used v (dm_id d) ->
  exists lr l b, get_blist v lr = Some l /\ In b (bl_blocks l) /\ bk_mem b = dm_id d /\ meta_live (bk_meta b) = [].
Proof.
  intros HI Hd Hn. destruct (vi_dev_owned _ _ _ _ HI d Hd) as [(lr & l & b & Hg & Hb & Hm)|(s & a & Sa & _ & Hm)].
  - exists lr, l, b. repeat split; auto. destruct (meta_live (bk_meta b)) as [|rg tl] eqn:El; [reflexivity|exfalso].
    destruct (vi_tags _ _ _ _ HI lr l b rg Hg Hb ltac:(rewrite El; left; reflexivity)) as (s & a & _ & Sa & Ka & La & Ba & _).
    destruct (slot_block c v s a HI Sa Ka) as (l2 & b2 & Hg2 & Hb2 & Hid2 & Hm2 & _).
    rewrite La in Hg2. assert (l2 = l) by congruence. subst l2.
    pose proof (bw_nodup _ _ (vi_lists _ _ _ _ HI _ _ Hg)) as Hnd.
    pose proof (in_find_block _ _ Hnd Hb) as F1. pose proof (in_find_block _ _ Hnd Hb2) as F2. rewrite Hid2, Ba in F2. rewrite F1 in F2.
    injection F2 as <-. apply Hn. exists s, a. split; [exact Sa|congruence].
  - exfalso. apply Hn. exists s, a. auto.
Qed.

(* the dedicated lists hold the same Allocation objects *)
Lemma same_slots_dedlists v v' lr s :
  VamInv c v -> VamInv c v' -> same_slots v v' -> In s (get_dedlist v lr) -> In s (get_dedlist v' lr).
Proof.
  intros HI HI' Hs Hin. destruct (vi_dedlists _ _ _ _ HI lr s Hin) as (a & Sa & Ka & La).
  apply Hs in Sa. destruct (vi_slots _ _ _ _ HI' s a Sa (fun H => H)) as [(K & _)|(_ & [Hd|[]] & _)]; [congruence|]. rewrite La in Hd. exact Hd.
Qed.

(* the truth behind the allocation counters of the budget *)
Lemma same_slots_allocs_truth v v' :
  same_slots v v' -> zlen (v_tab v') = zlen (v_tab v) -> allocs_truth c v' [] = allocs_truth c v [].
Proof using.
  intros Hs Hl. unfold allocs_truth. unfold zlen in Hl. apply Nat2Z.inj in Hl. rewrite Hl.
  apply flat_map_ext_in. intros s _. unfold contrib. cbn [in_zb negb]. rewrite !andb_true_r.
  destruct (a_allocated (get_alloc v s)) eqn:E.
  - pose proof (get_alloc_allocated _ _ E) as Sa. apply Hs in Sa. rewrite (get_alloc_slot _ _ _ Sa), E. reflexivity.
  - destruct (a_allocated (get_alloc v' s)) eqn:E'; [|reflexivity].
    pose proof (get_alloc_allocated _ _ E') as Sa. apply Hs in Sa. rewrite (get_alloc_slot _ _ _ Sa) in E. destruct Sa. congruence.
Qed.

End Same.

(* ---------------------------------------------------------------- the packaged theorem *)

Definition refused_op (o : op) : Prop :=
  match o with
  | OAlloc _ _ _ _ _ _ _ _ _ _ | OAllocN _ _ _ _ _ _ _ _ _ _ _ | OMkPool _ _ _ _ _ _
  | OCreateBuf _ _ _ _ _ _ _ _ _ _ _ | OCreateImg _ _ _ _ _ _ _ _ _ _ _ | OAllocFor _ _ _ _ _ _ _ _ _ => True
  | _ => False
  end.

Section Thm.
Variable c : vcfg.
Hypothesis Ha : cfg_acct c.
Let Hc := ca_ok c Ha.
Let Hmax := ca_max c Ha.
Let Hlarge := ca_large c Ha.

Lemma exec_refused ms0 G v o :
  VamBalStep.VamInvB c ms0 G v [] [] -> op_ok v o -> op_dom o -> refused_op o ->
  let '(v', r) := exec c v o in match r with ER _ => refused_post c ms0 G v v' | _ => True end.
Proof using Ha.
  intros HI Hok Hd Hr. destruct o; try destruct Hr; cbn [exec op_ok op_dom] in *.
  - apply (allocate_memory_refused c Hc Hmax Hlarge ms0 G); auto.
  - destruct Hok as (H0 & Hn). apply (allocate_memory_slice_refused c Hc Hmax Hlarge ms0 G); auto.
  - pose proof (VamBalStep2.create_pool_inv c Hc Hmax Hlarge ms0 G v ty flags blockSize minB maxB minAlign HI Hd) as P.
    pose proof (create_pool_fail_pools c Hc v ty flags blockSize minB maxB minAlign (VamBalStep.vb_s c Hc Hmax Hlarge ms0 G _ _ _ HI)) as Q.
    destruct (create_pool c v ty flags blockSize minB maxB minAlign) as (v' & r). destruct r as [[]|code| |]; auto.
    destruct P as (I1 & T1). split; [exact I1|]. split; [|exact (proj1 Q)]. apply (same_slots_frame v v' [] T1). intros s [].
  - apply (create_buffer_refused c Hc Hmax Hlarge ms0 G); auto.
  - apply (create_image_refused c Hc Hmax Hlarge ms0 G); auto.
  - apply (allocate_for_resource_refused c Hc Hmax Hlarge ms0 G); auto.
Qed.

Theorem refused_changes_nothing v G o f v' code calls :
  reachB c v G -> op_ok v o -> op_dom o -> refused_op o -> step c v o f = (v', RErr code, calls) ->
  reachB c v' G /\
  same_slots v v' /\ pools_same v v' /\
  (forall lr s, In s (get_dedlist v' lr) <-> In s (get_dedlist v lr)) /\
  (forall h, alloc_count c v' h = alloc_count c v h /\ alloc_bytes c v' h = alloc_bytes c v h /\
             ac (heaps (m_bud (v_m v')) h) = ac (heaps (m_bud (v_m v)) h) /\ ab (heaps (m_bud (v_m v')) h) = ab (heaps (m_bud (v_m v)) h)) /\
  (forall id, mem_used v' id <-> mem_used v id) /\
  (forall id, mem_used v id ->
     exists d d', find_mem (m_mems (v_m v)) id = Some d /\ find_mem (m_mems (v_m v')) id = Some d' /\ dm_type d' = dm_type d) /\
  (forall d, In d (m_mems (v_m v')) -> ~ mem_used v' (dm_id d) ->
     exists lr l b, get_blist v' lr = Some l /\ In b (bl_blocks l) /\ bk_mem b = dm_id d /\ meta_live (bk_meta b) = []).
Proof using Ha.
  intros R Hok Hd Hro Hs.
  assert (Hbal : op_bal G o) by (destruct o; try destruct Hro; exact I).
  assert (R' : reachB c v' G).
  { pose proof (reachB_step c v G o f v' (RErr code) calls R Hok Hd Hbal Hs ltac:(discriminate) ltac:(discriminate)) as R1.
    destruct o; exact R1. }
  pose proof (reachB_reachA c _ _ R) as RA. pose proof (reachA_inv c Ha v RA) as HI. pose proof (reachA_map c Ha v RA) as HM.
  pose proof (reachB_bal c Ha _ _ R) as HB.
  pose proof (reachB_reachA c _ _ R') as RA'. pose proof (reachA_inv c Ha v' RA') as HI'.
  pose proof (VamAcctStep.va_s _ _ _ _ HI) as HU. pose proof (VamAcctStep.va_s _ _ _ _ HI') as HU'.
  pose proof (step_preservesA c Ha v o f HI Hok Hd) as PA. rewrite Hs in PA. destruct (PA ltac:(discriminate) ltac:(discriminate)) as (_ & Hlen).
  assert (HS : same_slots v v' /\ pools_same v v').
  { unfold step in Hs.
    set (ms0 := m_mems (v_m v)) in *. set (v0 := set_m v (clear_calls (set_fault (v_m v) f 0))) in *.
    assert (Hms : forall m ff n, mach_sameA c m (clear_calls (set_fault m ff n))).
    { intros m ff n. eapply (mach_sameA_trans c Hc Hmax Hlarge); [apply (mach_sameA_set_fault c Hc Hmax Hlarge)|apply (mach_sameA_clear c Hc Hmax Hlarge)]. }
    assert (I0 : VamBalStep.VamInvB c ms0 G v0 [] []).
    { split; [|apply BInv_mach; exact HB]. split; [apply (VamAcctStep.VamInvA_mach_same c Hc Hmax Hlarge); [exact HI|apply Hms]|].
      split; [apply (MapInv_sub v []); [exact HM|reflexivity|apply blocks_sub_eq; intros; apply get_blist_set_m|apply deds_sub_nil; apply tab_frame_set_m]|].
      unfold LogOk, v0, ms0. cbn. constructor. }
    assert (Hok0 : op_ok v0 o) by (destruct o; exact Hok).
    pose proof (exec_refused ms0 G v0 o I0 Hok0 Hd Hro) as E.
    destruct (exec c v0 o) as (v1 & r). destruct r as [[]|code1| |]; cbn in Hs; try discriminate. injection Hs as <- _ _.
    destruct E as (_ & S1 & P1). split.
    - eapply same_slots_trans; [apply same_slots_set_m|]. eapply same_slots_trans; [exact S1|apply same_slots_set_m].
    - apply pools_same_set_m_r. apply (pools_same_set_m_l v (clear_calls (set_fault (v_m v) f 0)) v1). exact P1. }
  destruct HS as (SS & PS).
  assert (SS' : same_slots v' v) by (intros s a; split; intros H; apply SS; exact H).
  split; [exact R'|]. split; [exact SS|]. split; [exact PS|]. split; [|split; [|split; [|split]]].
  - intros lr s. split; [apply (same_slots_dedlists c Hc v' v lr s HU' HU SS')|apply (same_slots_dedlists c Hc v v' lr s HU HU' SS)].
  - intros h. pose proof (same_slots_allocs_truth c v v' SS Hlen) as E.
    destruct (budget_equals_truth c Ha v RA) as (B & _). destruct (budget_equals_truth c Ha v' RA') as (B' & _).
    rewrite B, B'. unfold alloc_count, alloc_bytes. rewrite E. cbn. auto.
  - intros id. split; intros H; [apply (same_slots_mem_used c Hc v' v id HU' HU SS' H)|apply (same_slots_mem_used c Hc v v' id HU HU' SS H)].
  - intros id H. apply (same_slots_mem_used c Hc v v' id HU HU' SS H).
  - intros d Hd0 Hn. apply (unused_mem_empty_block c Hc v' d HU' Hd0 Hn).
Qed.

End Thm.
