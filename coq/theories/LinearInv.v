(* LinearInv.v — representation invariant of the linear block metadata model (Linear.v):
   list/chain lemmas, the binary search (sort.Find) lemmas, the weak invariant WInv (what holds
   between the marking of an item and cleanupAfterFree) and the full invariant LInv, the set of
   live items, init_LInv and live_sound (C01 for linear). *)
From Coq Require Import ZArith List Bool Lia.
From Coq Require Import ZifyBool.
From Arsenal Require Import Util Bits Gran Linear.
Import ListNotations.
Open Scope Z_scope.
Ltac Zify.zify_post_hook ::= Z.div_mod_to_equations.

(* ------------------------------------------------------------------ zlen, nth_z, last_z *)

Lemma zlen_nil {A} : zlen (@nil A) = 0.
Proof. reflexivity. Qed.

Lemma zlen_cons {A} (x : A) v : zlen (x :: v) = 1 + zlen v.
Proof. unfold zlen. cbn [length]. lia. Qed.

Lemma zlen_app {A} (a b : list A) : zlen (a ++ b) = zlen a + zlen b.
Proof. unfold zlen. rewrite app_length. lia. Qed.

Lemma zlen_nonneg {A} (v : list A) : 0 <= zlen v.
Proof. unfold zlen. lia. Qed.

Lemma zlen_rev {A} (v : list A) : zlen (rev v) = zlen v.
Proof. unfold zlen. rewrite rev_length. reflexivity. Qed.

Lemma zlen_zero {A} (v : list A) : zlen v = 0 -> v = [].
Proof. destruct v; [reflexivity|]. rewrite zlen_cons. pose proof (zlen_nonneg v). lia. Qed.

Lemma zlen_pos {A} (v : list A) : v <> [] -> 0 < zlen v.
Proof. destruct v; [congruence|]. intros _. rewrite zlen_cons. pose proof (zlen_nonneg v). lia. Qed.

Lemma nth_z_app_r (pre v : list sub) i :
  0 <= i -> nth_z (pre ++ v) (i + zlen pre) = nth_z v i.
Proof.
  intros Hi. unfold nth_z, zlen.
  destruct (i + Z.of_nat (length pre) <? 0) eqn:E1; [lia|].
  destruct (i <? 0) eqn:E2; [lia|].
  rewrite nth_error_app2 by lia. f_equal. lia.
Qed.

Lemma nth_z_app_r0 (pre v : list sub) : nth_z (pre ++ v) (zlen pre) = nth_z v 0.
Proof. rewrite <- (nth_z_app_r pre v 0) by lia. f_equal. Qed.

Lemma nth_z_app_l (a b : list sub) i : i < zlen a -> nth_z (a ++ b) i = nth_z a i.
Proof.
  intros Hi. unfold nth_z, zlen in *. destruct (i <? 0) eqn:E; [reflexivity|].
  rewrite nth_error_app1 by lia. reflexivity.
Qed.

Lemma nth_z_0 (v : list sub) : nth_z v 0 = hd_error v.
Proof. destruct v; reflexivity. Qed.

Lemma nth_z_some (v : list sub) i : 0 <= i < zlen v -> exists s, nth_z v i = Some s.
Proof.
  intros Hi. unfold nth_z, zlen in *. destruct (i <? 0) eqn:E; [lia|].
  destruct (nth_error v (Z.to_nat i)) eqn:En; [eauto|].
  apply nth_error_None in En. lia.
Qed.

Lemma nth_z_range (v : list sub) i s : nth_z v i = Some s -> 0 <= i < zlen v.
Proof.
  unfold nth_z, zlen. destruct (i <? 0) eqn:E; [discriminate|]. intros H.
  assert (Hn : nth_error v (Z.to_nat i) <> None) by congruence.
  apply nth_error_Some in Hn. lia.
Qed.

Lemma nth_z_split (v : list sub) i s :
  nth_z v i = Some s -> exists a b, v = a ++ s :: b /\ zlen a = i.
Proof.
  intros H. pose proof (nth_z_range _ _ _ H) as Hr. unfold nth_z in H.
  destruct (i <? 0) eqn:E; [discriminate|].
  apply nth_error_split in H. destruct H as (a & b & -> & Hl).
  exists a, b. split; [reflexivity|]. unfold zlen. lia.
Qed.

Lemma nth_z_mid (a b : list sub) s : nth_z (a ++ s :: b) (zlen a) = Some s.
Proof. rewrite nth_z_app_r0. reflexivity. Qed.

Lemma last_z_nil : last_z [] = None.
Proof. reflexivity. Qed.

Lemma last_z_snoc (v : list sub) s : last_z (v ++ [s]) = Some s.
Proof.
  unfold last_z. rewrite zlen_app, zlen_cons, zlen_nil.
  replace (zlen v + (1 + 0) - 1) with (zlen v) by lia. apply nth_z_mid.
Qed.

Lemma list_snoc_cases {A} (v : list A) : v = [] \/ exists v0 x, v = v0 ++ [x].
Proof.
  destruct v as [|a v]; [left; reflexivity|right].
  destruct (@exists_last _ (a :: v)) as (v0 & x & Hx); [discriminate|eauto].
Qed.

Lemma last_z_some (v : list sub) s : last_z v = Some s -> exists v0, v = v0 ++ [s].
Proof.
  destruct (list_snoc_cases v) as [->|(v0 & x & ->)]; [discriminate|].
  rewrite last_z_snoc. intros H; injection H as <-. eauto.
Qed.

Lemma last_z_none (v : list sub) : last_z v = None -> v = [].
Proof.
  destruct (list_snoc_cases v) as [->|(v0 & x & ->)]; [reflexivity|].
  rewrite last_z_snoc. discriminate.
Qed.

Lemma removelast_snoc {A} (v : list A) x : removelast (v ++ [x]) = v.
Proof. rewrite removelast_app by discriminate. cbn. apply app_nil_r. Qed.

Lemma suffix_from_app (pre v : list sub) : suffix_from (pre ++ v) (zlen pre) = Some v.
Proof.
  unfold suffix_from. pose proof (zlen_nonneg pre). destruct (zlen pre <? 0) eqn:E; [lia|].
  f_equal. unfold zlen. rewrite Nat2Z.id.
  rewrite skipn_app, skipn_all, Nat.sub_diag. reflexivity.
Qed.

Lemma update_nth_mid {A} (a b : list A) x f : update_nth (length a) f (a ++ x :: b) = a ++ f x :: b.
Proof. induction a as [|y a IH]; cbn; [reflexivity|]. rewrite IH. reflexivity. Qed.

Lemma set_nth_z_mid (a b : list sub) x f : set_nth_z (a ++ x :: b) (zlen a) f = a ++ f x :: b.
Proof. unfold set_nth_z, zlen. rewrite Nat2Z.id. apply update_nth_mid. Qed.

(* ------------------------------------------------------------------ free / live items *)

Definition live_b (s : sub) : bool := negb (is_free s).
Definition lives (v : list sub) : list sub := filter live_b v.
Definition count_free (v : list sub) : Z := zlen (filter is_free v).
Definition all_free (v : list sub) : Prop := Forall (fun s => is_free s = true) v.

Fixpoint sum_sizes (v : list sub) : Z :=
  match v with
  | [] => 0
  | s :: r => s_size s + sum_sizes r
  end.

Lemma lives_app a b : lives (a ++ b) = lives a ++ lives b.
Proof. apply filter_app. Qed.

Lemma lives_cons_live s r : is_free s = false -> lives (s :: r) = s :: lives r.
Proof. intros H. unfold lives, live_b. cbn. rewrite H. reflexivity. Qed.

Lemma lives_cons_free s r : is_free s = true -> lives (s :: r) = lives r.
Proof. intros H. unfold lives, live_b. cbn. rewrite H. reflexivity. Qed.

Lemma lives_rev v : lives (rev v) = rev (lives v).
Proof.
  induction v as [|s r IH]; [reflexivity|]. cbn [rev]. rewrite lives_app, IH.
  destruct (is_free s) eqn:E.
  - rewrite !lives_cons_free by assumption. cbn. apply app_nil_r.
  - rewrite !lives_cons_live by assumption. reflexivity.
Qed.

Lemma lives_all_free v : all_free v -> lives v = [].
Proof.
  induction 1 as [|s r Hs _ IH]; [reflexivity|]. rewrite lives_cons_free; assumption.
Qed.

Lemma lives_is_live v s : In s (lives v) -> In s v /\ is_free s = false.
Proof.
  unfold lives, live_b. intros H. apply filter_In in H. destruct H as (H1 & H2).
  split; [assumption|]. destruct (is_free s); [discriminate|reflexivity].
Qed.

Lemma in_lives v s : In s v -> is_free s = false -> In s (lives v).
Proof. intros H1 H2. apply filter_In. unfold live_b. rewrite H2. auto. Qed.

Lemma lives_idem v : lives (lives v) = lives v.
Proof.
  induction v as [|s r IH]; [reflexivity|]. destruct (is_free s) eqn:E.
  - rewrite lives_cons_free; assumption.
  - rewrite !lives_cons_live by assumption. congruence.
Qed.

Lemma count_free_nil : count_free [] = 0.
Proof. reflexivity. Qed.

Lemma count_free_app a b : count_free (a ++ b) = count_free a + count_free b.
Proof. unfold count_free. rewrite filter_app, zlen_app. reflexivity. Qed.

Lemma count_free_cons s r : count_free (s :: r) = (if is_free s then 1 else 0) + count_free r.
Proof. unfold count_free. cbn [filter]. destruct (is_free s); [rewrite zlen_cons|]; lia. Qed.

Lemma count_free_nonneg v : 0 <= count_free v.
Proof. apply zlen_nonneg. Qed.

Lemma count_free_rev v : count_free (rev v) = count_free v.
Proof.
  induction v as [|s r IH]; [reflexivity|]. cbn [rev].
  rewrite count_free_app, !count_free_cons, count_free_nil, IH. lia.
Qed.

Lemma count_free_lives v : count_free (lives v) = 0.
Proof.
  induction v as [|s r IH]; [reflexivity|]. destruct (is_free s) eqn:E.
  - rewrite lives_cons_free; assumption.
  - rewrite lives_cons_live by assumption. rewrite count_free_cons, E. lia.
Qed.

Lemma count_free_len v : count_free v + zlen (lives v) = zlen v.
Proof.
  induction v as [|s r IH]; [reflexivity|]. rewrite count_free_cons, zlen_cons. destruct (is_free s) eqn:E.
  - rewrite lives_cons_free by assumption. lia.
  - rewrite lives_cons_live by assumption. rewrite zlen_cons. lia.
Qed.

Lemma sum_sizes_app a b : sum_sizes (a ++ b) = sum_sizes a + sum_sizes b.
Proof. induction a as [|s r IH]; cbn [sum_sizes app]; lia. Qed.

Lemma sum_sizes_rev v : sum_sizes (rev v) = sum_sizes v.
Proof.
  induction v as [|s r IH]; [reflexivity|]. cbn [rev sum_sizes]. rewrite sum_sizes_app, IH. cbn [sum_sizes]. lia.
Qed.

(* leading / trailing freed items *)
Fixpoint take_free (v : list sub) : list sub :=
  match v with
  | [] => []
  | s :: r => if is_free s then s :: take_free r else []
  end.

Fixpoint drop_free (v : list sub) : list sub :=
  match v with
  | [] => []
  | s :: r => if is_free s then drop_free r else v
  end.

Definition strip_free (v : list sub) : list sub := rev (drop_free (rev v)).
Definition tail_free (v : list sub) : list sub := rev (take_free (rev v)).

Lemma take_drop_free v : v = take_free v ++ drop_free v.
Proof. induction v as [|s r IH]; [reflexivity|]. cbn. destruct (is_free s); cbn; congruence. Qed.

Lemma take_free_all v : all_free (take_free v).
Proof.
  induction v as [|s r IH]; cbn; [constructor|]. destruct (is_free s) eqn:E; constructor; assumption.
Qed.

Lemma count_leading_free_spec v : count_leading_free v = zlen (take_free v).
Proof.
  induction v as [|s r IH]; [reflexivity|]. cbn. destruct (is_free s); [|reflexivity].
  rewrite zlen_cons, IH. reflexivity.
Qed.

Lemma drop_free_head v s r : drop_free v = s :: r -> is_free s = false.
Proof.
  induction v as [|x v IH]; cbn; [discriminate|]. destruct (is_free x) eqn:E; [assumption|].
  intros H; injection H as <- _. assumption.
Qed.

Lemma strip_tail_free v : v = strip_free v ++ tail_free v.
Proof.
  unfold strip_free, tail_free. rewrite <- rev_app_distr, <- take_drop_free, rev_involutive. reflexivity.
Qed.

Lemma all_free_rev v : all_free v -> all_free (rev v).
Proof. unfold all_free. intros H. apply Forall_rev. assumption. Qed.

Lemma tail_free_all v : all_free (tail_free v).
Proof. apply all_free_rev, take_free_all. Qed.

Lemma strip_free_last v v0 s : strip_free v = v0 ++ [s] -> is_free s = false.
Proof.
  unfold strip_free. intros H. apply (f_equal (@rev sub)) in H.
  rewrite rev_involutive, rev_app_distr in H. cbn in H. eapply drop_free_head; eassumption.
Qed.

Lemma lives_drop_free v : lives (drop_free v) = lives v.
Proof.
  rewrite (take_drop_free v) at 2. rewrite lives_app, (lives_all_free _ (take_free_all v)). reflexivity.
Qed.

Lemma lives_strip_free v : lives (strip_free v) = lives v.
Proof.
  rewrite (strip_tail_free v) at 2. rewrite lives_app, (lives_all_free _ (tail_free_all v)), app_nil_r.
  reflexivity.
Qed.

Lemma count_free_all v : all_free v -> count_free v = zlen v.
Proof.
  intros H. pose proof (count_free_len v). rewrite (lives_all_free _ H) in *. rewrite zlen_nil in *. lia.
Qed.

(* ------------------------------------------------------------------ sublists *)

Inductive sl : list sub -> list sub -> Prop :=
| sl_nil : sl [] []
| sl_keep x a b : sl a b -> sl (x :: a) (x :: b)
| sl_drop x a b : sl a b -> sl a (x :: b).

Lemma sl_refl v : sl v v.
Proof. induction v; constructor; assumption. Qed.

Lemma sl_nil_l v : sl [] v.
Proof. induction v; constructor; assumption. Qed.

Lemma sl_app a a' b b' : sl a a' -> sl b b' -> sl (a ++ b) (a' ++ b').
Proof. induction 1; intros Hb; cbn; try constructor; auto. Qed.

Lemma sl_rev a b : sl a b -> sl (rev a) (rev b).
Proof.
  induction 1; cbn.
  - constructor.
  - apply sl_app; [assumption|apply sl_refl].
  - rewrite <- (app_nil_r (rev a)). apply sl_app; [assumption|apply sl_nil_l].
Qed.

Lemma sl_lives v : sl (lives v) v.
Proof.
  induction v as [|s r IH]; [constructor|]. destruct (is_free s) eqn:E.
  - rewrite lives_cons_free by assumption. constructor; assumption.
  - rewrite lives_cons_live by assumption. constructor; assumption.
Qed.

Lemma sl_drop_free v : sl (drop_free v) v.
Proof.
  rewrite (take_drop_free v) at 2. rewrite <- (app_nil_l (drop_free v)) at 1.
  apply sl_app; [apply sl_nil_l|apply sl_refl].
Qed.

Lemma sl_strip_free v : sl (strip_free v) v.
Proof.
  rewrite (strip_tail_free v) at 2. rewrite <- (app_nil_r (strip_free v)) at 1.
  apply sl_app; [apply sl_refl|apply sl_nil_l].
Qed.

Lemma sl_trans a b c : sl a b -> sl b c -> sl a c.
Proof.
  intros Hab Hbc. revert a Hab. induction Hbc as [|x b c Hbc IH|x b c Hbc IH]; intros a0 Hab.
  - assumption.
  - inversion Hab; subst; constructor; auto.
  - constructor; auto.
Qed.

Lemma sl_Forall (P : sub -> Prop) a b : sl a b -> Forall P b -> Forall P a.
Proof.
  induction 1 as [|x a b _ IH|x a b _ IH]; intros HF; [constructor| |];
    inversion HF; subst; [constructor|]; auto.
Qed.

Lemma sl_In a b x : sl a b -> In x a -> In x b.
Proof.
  induction 1 as [|y a b _ IH|y a b _ IH]; cbn; intros Hin; [tauto| |]; [destruct Hin|]; auto.
Qed.

(* ------------------------------------------------------------------ chains *)

(* the items lie one after another, without overlap, from offset lo on *)
Fixpoint chain_from (lo : Z) (v : list sub) : Prop :=
  match v with
  | [] => True
  | s :: r => lo <= s_off s /\ chain_from (s_off s + s_size s) r
  end.

Fixpoint chain_end (lo : Z) (v : list sub) : Z :=
  match v with
  | [] => lo
  | s :: r => chain_end (s_off s + s_size s) r
  end.

Definition chain (lo : Z) (v : list sub) (hi : Z) : Prop := chain_from lo v /\ chain_end lo v <= hi.

Definition pos_sizes (v : list sub) : Prop := Forall (fun s => 1 <= s_size s) v.

Lemma chain_from_app lo a b : chain_from lo (a ++ b) <-> chain_from lo a /\ chain_from (chain_end lo a) b.
Proof. revert lo; induction a as [|x a IH]; intros lo; cbn; [tauto|]. rewrite IH. tauto. Qed.

Lemma chain_end_app lo a b : chain_end lo (a ++ b) = chain_end (chain_end lo a) b.
Proof. revert lo; induction a as [|x a IH]; intros lo; cbn; auto. Qed.

Lemma chain_app lo a b hi : chain lo (a ++ b) hi <-> chain_from lo a /\ chain (chain_end lo a) b hi.
Proof. unfold chain. rewrite chain_from_app, chain_end_app. tauto. Qed.

Lemma chain_nil lo hi : chain lo [] hi <-> lo <= hi.
Proof. unfold chain. cbn. tauto. Qed.

Lemma chain_cons lo s r hi : chain lo (s :: r) hi <-> lo <= s_off s /\ chain (s_off s + s_size s) r hi.
Proof. unfold chain. cbn. tauto. Qed.

Lemma pos_sizes_cons s r : pos_sizes (s :: r) <-> 1 <= s_size s /\ pos_sizes r.
Proof. apply Forall_cons_iff. Qed.

Lemma chain_end_ge lo v : pos_sizes v -> chain_from lo v -> lo <= chain_end lo v.
Proof.
  revert lo; induction v as [|s r IH]; intros lo Hp H; cbn in *; [lia|].
  apply pos_sizes_cons in Hp. destruct Hp as (Hs & Hp). destruct H as (H1 & H2). specialize (IH _ Hp H2). lia.
Qed.

Lemma chain_from_weaken lo lo' v : lo' <= lo -> chain_from lo v -> chain_from lo' v.
Proof. destruct v; cbn; [tauto|]. intros ? (? & ?). split; [lia|assumption]. Qed.

Lemma chain_end_mono lo lo' v : lo' <= lo -> chain_end lo' v <= chain_end lo v.
Proof. destruct v; cbn; lia. Qed.

Lemma chain_weaken lo lo' v hi hi' : lo' <= lo -> hi <= hi' -> chain lo v hi -> chain lo' v hi'.
Proof.
  intros H1 H2 (H3 & H4). split; [eapply chain_from_weaken; eauto|].
  pose proof (chain_end_mono lo lo' v H1). lia.
Qed.

Lemma chain_le lo v hi : pos_sizes v -> chain lo v hi -> lo <= hi.
Proof. intros Hp (H1 & H2). pose proof (chain_end_ge _ _ Hp H1). lia. Qed.

Lemma pos_sizes_app a b : pos_sizes (a ++ b) <-> pos_sizes a /\ pos_sizes b.
Proof. apply Forall_app. Qed.

Lemma chain_sl a b : sl a b -> forall lo hi, pos_sizes b -> chain lo b hi -> chain lo a hi.
Proof.
  induction 1 as [|x a b _ IH|x a b _ IH]; intros lo hi Hp Hc.
  - assumption.
  - apply pos_sizes_cons in Hp. destruct Hp as (Hs & Hp).
    rewrite chain_cons in *. destruct Hc as (H1 & H2). split; auto.
  - apply pos_sizes_cons in Hp. destruct Hp as (Hs & Hp).
    rewrite chain_cons in Hc. destruct Hc as (H1 & H2).
    apply IH in H2; [|assumption]. eapply chain_weaken; [| |exact H2]; lia.
Qed.

Lemma chain_in_bounds lo v s :
  pos_sizes v -> chain_from lo v -> In s v -> lo <= s_off s /\ s_off s + s_size s <= chain_end lo v.
Proof.
  revert lo; induction v as [|x v IH]; intros lo Hp H Hin; cbn in *; [tauto|].
  apply pos_sizes_cons in Hp. destruct Hp as (Hs & Hp). destruct H as (H1 & H2). destruct Hin as [->|Hin].
  - pose proof (chain_end_ge _ _ Hp H2). lia.
  - specialize (IH _ Hp H2 Hin). lia.
Qed.

Lemma chain_split_order lo a b x y :
  pos_sizes (a ++ b) -> chain_from lo (a ++ b) -> In x a -> In y b -> s_off x + s_size x <= s_off y.
Proof.
  intros Hp H Hx Hy. apply pos_sizes_app in Hp. destruct Hp as (Hpa & Hpb).
  apply chain_from_app in H. destruct H as (Ha & Hb).
  pose proof (chain_in_bounds _ _ _ Hpa Ha Hx). pose proof (chain_in_bounds _ _ _ Hpb Hb Hy). lia.
Qed.

Lemma chain_nth_order lo v i j x y :
  pos_sizes v -> chain_from lo v -> nth_error v i = Some x -> nth_error v j = Some y -> (i < j)%nat ->
  s_off x + s_size x <= s_off y.
Proof.
  revert lo i j; induction v as [|s v IH]; intros lo i j Hp H Hi Hj Hlt.
  - destruct i; discriminate.
  - cbn in H. destruct H as (H1 & H2). apply pos_sizes_cons in Hp. destruct Hp as (Hs & Hp).
    destruct i as [|i]; destruct j as [|j]; try lia; cbn in *.
    + injection Hi as <-. apply nth_error_In in Hj.
      pose proof (chain_in_bounds _ _ _ Hp H2 Hj). lia.
    + eapply IH; eauto. lia.
Qed.

(* offsets are unique in a chain *)
Lemma chain_off_inj lo v x y :
  pos_sizes v -> chain_from lo v -> In x v -> In y v -> s_off x = s_off y -> x = y.
Proof.
  intros Hp H Hx Hy Heq.
  apply In_nth_error in Hx. apply In_nth_error in Hy. destruct Hx as (i & Hi). destruct Hy as (j & Hj).
  assert (Hsx : 1 <= s_size x). { apply nth_error_In in Hi. eapply Forall_forall in Hp; eauto. }
  assert (Hsy : 1 <= s_size y). { apply nth_error_In in Hj. eapply Forall_forall in Hp; eauto. }
  destruct (lt_eq_lt_dec i j) as [[Hlt| ->]|Hlt].
  - pose proof (chain_nth_order _ _ _ _ _ _ Hp H Hi Hj Hlt). lia.
  - congruence.
  - pose proof (chain_nth_order _ _ _ _ _ _ Hp H Hj Hi Hlt). lia.
Qed.

Lemma end_of_nil : end_of [] = 0.
Proof. reflexivity. Qed.

Lemma end_of_snoc v s : end_of (v ++ [s]) = s_off s + s_size s.
Proof. unfold end_of. rewrite last_z_snoc. reflexivity. Qed.

Lemma chain_end_snoc lo v s : chain_end lo (v ++ [s]) = s_off s + s_size s.
Proof. rewrite chain_end_app. reflexivity. Qed.

Lemma end_of_chain_end lo v : v <> [] -> end_of v = chain_end lo v.
Proof.
  destruct (list_snoc_cases v) as [->|(v0 & x & ->)]; [congruence|]. intros _.
  rewrite end_of_snoc, chain_end_snoc. reflexivity.
Qed.

(* the chain read backwards: descending offsets (second vector of a double stack) *)
Definition disjoint (x y : sub) : Prop :=
  s_off x + s_size x <= s_off y \/ s_off y + s_size y <= s_off x.

Lemma chain_disjoint lo v x y :
  pos_sizes v -> chain_from lo v -> In x v -> In y v -> x <> y -> disjoint x y.
Proof.
  intros Hp H Hx Hy Hne.
  apply In_nth_error in Hx. apply In_nth_error in Hy. destruct Hx as (i & Hi). destruct Hy as (j & Hj).
  destruct (lt_eq_lt_dec i j) as [[Hlt|Heq]|Hlt].
  - left. eapply chain_nth_order; eauto.
  - subst. congruence.
  - right. eapply chain_nth_order; eauto.
Qed.

(* ------------------------------------------------------------------ sort.Find *)

Lemma shiftr_1 x : Z.shiftr x 1 = x / 2.
Proof. rewrite Z.shiftr_div_pow2 by lia. reflexivity. Qed.

(* general lemma: if the probes succeed on [i, j) and "c h > 0" is downward closed there, the loop
   returns the boundary k: c > 0 strictly below k, c <= 0 from k on *)
Lemma find_loop_spec cmp (c : Z -> Z) fuel :
  forall i j,
  (forall h, i <= h < j -> cmp h = Some (c h)) ->
  (forall h1 h2, i <= h1 -> h1 <= h2 -> h2 < j -> c h2 > 0 -> c h1 > 0) ->
  (Z.to_nat (j - i) < fuel)%nat ->
  exists k, find_loop cmp i j fuel = Some k /\ i <= k <= Z.max i j /\
            (forall h, i <= h < k -> c h > 0) /\ (forall h, k <= h < j -> c h <= 0).
Proof.
  induction fuel as [|f IH]; intros i j Hcmp Hmono Hfuel; [lia|].
  cbn [find_loop]. destruct (i <? j) eqn:Hij.
  - rewrite shiftr_1. set (h := (i + j) / 2).
    assert (Hh : i <= h < j) by (unfold h; lia).
    rewrite (Hcmp h Hh). destruct (c h >? 0) eqn:Hc.
    + destruct (IH (h + 1) j) as (k & Hk & Hr & Hlo & Hhi).
      * intros x Hx. apply Hcmp. lia.
      * intros h1 h2 H1 H2 H3. apply Hmono; lia.
      * lia.
      * exists k. split; [exact Hk|]. split; [lia|]. split; [|exact Hhi].
        intros x Hx. destruct (Z_le_gt_dec x h) as [Hle|Hgt].
        -- apply (Hmono x h); lia.
        -- apply Hlo. lia.
    + destruct (IH i h) as (k & Hk & Hr & Hlo & Hhi).
      * intros x Hx. apply Hcmp. lia.
      * intros h1 h2 H1 H2 H3. apply Hmono; lia.
      * lia.
      * exists k. split; [exact Hk|]. split; [lia|]. split; [exact Hlo|].
        intros x Hx. destruct (Z_lt_ge_dec x h) as [Hlt|Hge].
        -- apply Hhi. lia.
        -- destruct (Z_le_gt_dec (c x) 0) as [|Hpos]; [assumption|].
           assert (c h > 0) by (apply (Hmono h x); lia). lia.
  - exists i. split; [reflexivity|]. split; [lia|]. split; intros; lia.
Qed.

Lemma sort_find_spec n cmp (c : Z -> Z) :
  0 <= n ->
  (forall h, 0 <= h < n -> cmp h = Some (c h)) ->
  (forall h1 h2, 0 <= h1 -> h1 <= h2 -> h2 < n -> c h2 > 0 -> c h1 > 0) ->
  exists k found, sort_find n cmp = Some (k, found) /\ 0 <= k <= n /\
    (forall h, 0 <= h < k -> c h > 0) /\ (forall h, k <= h < n -> c h <= 0) /\
    (found = true <-> k < n /\ c k = 0).
Proof.
  intros Hn Hcmp Hmono.
  destruct (find_loop_spec cmp c (S (Z.to_nat n)) 0 n Hcmp Hmono ltac:(lia)) as (k & Hk & Hr & Hlo & Hhi).
  unfold sort_find. rewrite Hk. destruct (k <? n) eqn:Hkn.
  - rewrite (Hcmp k) by lia. exists k, (c k =? 0). split; [reflexivity|]. split; [lia|].
    split; [exact Hlo|]. split; [exact Hhi|]. lia.
  - exists k, false. split; [reflexivity|]. split; [lia|]. split; [exact Hlo|]. split; [exact Hhi|]. lia.
Qed.

(* vectors sorted by a key, strictly *)
Definition sorted_by (key : sub -> Z) (v : list sub) : Prop :=
  forall i j x y, nth_error v i = Some x -> nth_error v j = Some y -> (i < j)%nat -> key x < key y.

Definition dummy_sub : sub := mkSub 0 0 None 0 0 0.

Lemma sort_find_sorted key (pre v : list sub) t cmp :
  sorted_by key v ->
  (forall i, cmp i = match nth_z (pre ++ v) (i + zlen pre) with
                     | None => None
                     | Some s => Some (t - key s)
                     end) ->
  exists k found, sort_find (zlen v) cmp = Some (k, found) /\
    (found = true -> exists a s b, v = a ++ s :: b /\ zlen a = k /\ key s = t) /\
    (found = false -> forall s, In s v -> key s <> t).
Proof.
  intros Hsorted Hcmp.
  set (c := fun h => t - key (nth (Z.to_nat h) v dummy_sub)).
  assert (Hnth : forall h, 0 <= h < zlen v -> nth_z (pre ++ v) (h + zlen pre) = Some (nth (Z.to_nat h) v dummy_sub)).
  { intros h Hh. rewrite nth_z_app_r by lia. unfold nth_z. destruct (h <? 0) eqn:E; [lia|].
    apply nth_error_nth'. unfold zlen in Hh. lia. }
  destruct (sort_find_spec (zlen v) cmp c (zlen_nonneg v)) as (k & found & Hsf & Hk & Hlo & Hhi & Hfound).
  - intros h Hh. rewrite Hcmp, (Hnth h Hh). reflexivity.
  - intros h1 h2 H1 H2 H3. unfold c.
    destruct (Z.eq_dec h1 h2) as [->|Hne]; [tauto|].
    assert (E1 : nth_error v (Z.to_nat h1) = Some (nth (Z.to_nat h1) v dummy_sub)).
    { apply nth_error_nth'. unfold zlen in *. lia. }
    assert (E2 : nth_error v (Z.to_nat h2) = Some (nth (Z.to_nat h2) v dummy_sub)).
    { apply nth_error_nth'. unfold zlen in *. lia. }
    pose proof (Hsorted _ _ _ _ E1 E2 ltac:(lia)). lia.
  - exists k, found. split; [exact Hsf|]. split.
    + intros Hf. apply Hfound in Hf. destruct Hf as (Hkn & Hck).
      assert (E : nth_error v (Z.to_nat k) = Some (nth (Z.to_nat k) v dummy_sub)).
      { apply nth_error_nth'. unfold zlen in *. lia. }
      apply nth_error_split in E. destruct E as (a & b & Hv & Hlen).
      exists a, (nth (Z.to_nat k) v dummy_sub), b. split; [exact Hv|]. split; [unfold zlen; lia|].
      unfold c in Hck. lia.
    + intros Hf s Hin Hkey. apply In_nth_error in Hin. destruct Hin as (i & Hi).
      assert (Hil : (i < length v)%nat) by (apply nth_error_Some; congruence).
      assert (Hci : c (Z.of_nat i) = 0).
      { unfold c. rewrite Nat2Z.id. erewrite nth_error_nth by exact Hi. lia. }
      destruct (Z_lt_ge_dec (Z.of_nat i) k) as [Hlt|Hge].
      * pose proof (Hlo (Z.of_nat i) ltac:(lia)). lia.
      * (* k <= i: c k <= 0; k < n; if c k = 0 found; else c k < 0 = c i contradicts sortedness *)
        assert (Hkn : k < zlen v) by (unfold zlen; lia).
        destruct (Z.eq_dec (c k) 0) as [Hz|Hnz].
        { assert (found = true) by (apply Hfound; split; assumption). congruence. }
        pose proof (Hhi k ltac:(lia)) as Hck.
        assert (Hki : k <> Z.of_nat i) by (intros ->; lia).
        assert (E : nth_error v (Z.to_nat k) = Some (nth (Z.to_nat k) v dummy_sub)).
        { apply nth_error_nth'. unfold zlen in *. lia. }
        pose proof (Hsorted _ _ _ _ E Hi ltac:(lia)) as Hlt.
        unfold c in Hck, Hnz. lia.
Qed.

Lemma chain_sorted_asc lo v : pos_sizes v -> chain_from lo v -> sorted_by s_off v.
Proof.
  intros Hp H i j x y Hi Hj Hlt.
  pose proof (chain_nth_order _ _ _ _ _ _ Hp H Hi Hj Hlt).
  assert (1 <= s_size x). { apply nth_error_In in Hi. eapply Forall_forall in Hp; eauto. }
  lia.
Qed.

Lemma chain_sorted_desc lo v : pos_sizes v -> chain_from lo (rev v) -> sorted_by (fun s => - s_off s) v.
Proof.
  intros Hp H i j x y Hi Hj Hlt.
  apply nth_error_split in Hi. destruct Hi as (a & b & -> & Hla).
  assert (Hjb : nth_error (x :: b) (j - length a) = Some y).
  { rewrite nth_error_app2 in Hj by lia. exact Hj. }
  destruct (j - length a)%nat as [|j'] eqn:Ej; [lia|]. cbn in Hjb.
  apply nth_error_In in Hjb.
  rewrite rev_app_distr in H. cbn [rev] in H. rewrite <- app_assoc in H.
  assert (Hp' : pos_sizes (rev b ++ [x] ++ rev a)).
  { replace (rev b ++ [x] ++ rev a) with (rev (a ++ x :: b)); [apply Forall_rev; exact Hp|].
    rewrite rev_app_distr. cbn [rev]. rewrite <- app_assoc. reflexivity. }
  pose proof (chain_split_order lo (rev b) ([x] ++ rev a) y x Hp' H) as Ho.
  assert (1 <= s_size y). { apply pos_sizes_app in Hp. destruct Hp as (_ & Hp). eapply Forall_forall in Hp; [exact Hp|]. right. exact Hjb. }
  specialize (Ho ltac:(apply in_rev; rewrite rev_involutive; exact Hjb) ltac:(left; reflexivity)). lia.
Qed.

(* ------------------------------------------------------------------ field access after the update functions (generated) *)

Lemma first_with_first l v : first (with_first l v) = v.
Proof. destruct l as [? ? ? ? ? [] ? ? ? ? ?]; reflexivity. Qed.

Lemma second_with_first l v : second (with_first l v) = second l.
Proof. destruct l as [? ? ? ? ? [] ? ? ? ? ?]; reflexivity. Qed.

Lemma l_mode_with_first l v : l_mode (with_first l v) = l_mode l.
Proof. destruct l as [? ? ? ? ? [] ? ? ? ? ?]; reflexivity. Qed.

Lemma l_sum_free_with_first l v : l_sum_free (with_first l v) = l_sum_free l.
Proof. destruct l as [? ? ? ? ? [] ? ? ? ? ?]; reflexivity. Qed.

Lemma l_null_begin_with_first l v : l_null_begin (with_first l v) = l_null_begin l.
Proof. destruct l as [? ? ? ? ? [] ? ? ? ? ?]; reflexivity. Qed.

Lemma l_null_middle_with_first l v : l_null_middle (with_first l v) = l_null_middle l.
Proof. destruct l as [? ? ? ? ? [] ? ? ? ? ?]; reflexivity. Qed.

Lemma l_null_second_with_first l v : l_null_second (with_first l v) = l_null_second l.
Proof. destruct l as [? ? ? ? ? [] ? ? ? ? ?]; reflexivity. Qed.

Lemma l_size_with_first l v : l_size (with_first l v) = l_size l.
Proof. destruct l as [? ? ? ? ? [] ? ? ? ? ?]; reflexivity. Qed.

Lemma l_gran_with_first l v : l_gran (with_first l v) = l_gran l.
Proof. destruct l as [? ? ? ? ? [] ? ? ? ? ?]; reflexivity. Qed.

Lemma l_h_with_first l v : l_h (with_first l v) = l_h l.
Proof. destruct l as [? ? ? ? ? [] ? ? ? ? ?]; reflexivity. Qed.

Lemma l_swapped_with_first l v : l_swapped (with_first l v) = l_swapped l.
Proof. destruct l as [? ? ? ? ? [] ? ? ? ? ?]; reflexivity. Qed.

Lemma first_with_second l v : first (with_second l v) = first l.
Proof. destruct l as [? ? ? ? ? [] ? ? ? ? ?]; reflexivity. Qed.

Lemma second_with_second l v : second (with_second l v) = v.
Proof. destruct l as [? ? ? ? ? [] ? ? ? ? ?]; reflexivity. Qed.

Lemma l_mode_with_second l v : l_mode (with_second l v) = l_mode l.
Proof. destruct l as [? ? ? ? ? [] ? ? ? ? ?]; reflexivity. Qed.

Lemma l_sum_free_with_second l v : l_sum_free (with_second l v) = l_sum_free l.
Proof. destruct l as [? ? ? ? ? [] ? ? ? ? ?]; reflexivity. Qed.

Lemma l_null_begin_with_second l v : l_null_begin (with_second l v) = l_null_begin l.
Proof. destruct l as [? ? ? ? ? [] ? ? ? ? ?]; reflexivity. Qed.

Lemma l_null_middle_with_second l v : l_null_middle (with_second l v) = l_null_middle l.
Proof. destruct l as [? ? ? ? ? [] ? ? ? ? ?]; reflexivity. Qed.

Lemma l_null_second_with_second l v : l_null_second (with_second l v) = l_null_second l.
Proof. destruct l as [? ? ? ? ? [] ? ? ? ? ?]; reflexivity. Qed.

Lemma l_size_with_second l v : l_size (with_second l v) = l_size l.
Proof. destruct l as [? ? ? ? ? [] ? ? ? ? ?]; reflexivity. Qed.

Lemma l_gran_with_second l v : l_gran (with_second l v) = l_gran l.
Proof. destruct l as [? ? ? ? ? [] ? ? ? ? ?]; reflexivity. Qed.

Lemma l_h_with_second l v : l_h (with_second l v) = l_h l.
Proof. destruct l as [? ? ? ? ? [] ? ? ? ? ?]; reflexivity. Qed.

Lemma l_swapped_with_second l v : l_swapped (with_second l v) = l_swapped l.
Proof. destruct l as [? ? ? ? ? [] ? ? ? ? ?]; reflexivity. Qed.

Lemma first_with_mode l m : first (with_mode l m) = first l.
Proof. destruct l as [? ? ? ? ? [] ? ? ? ? ?]; reflexivity. Qed.

Lemma second_with_mode l m : second (with_mode l m) = second l.
Proof. destruct l as [? ? ? ? ? [] ? ? ? ? ?]; reflexivity. Qed.

Lemma l_mode_with_mode l m : l_mode (with_mode l m) = m.
Proof. destruct l as [? ? ? ? ? [] ? ? ? ? ?]; reflexivity. Qed.

Lemma l_sum_free_with_mode l m : l_sum_free (with_mode l m) = l_sum_free l.
Proof. destruct l as [? ? ? ? ? [] ? ? ? ? ?]; reflexivity. Qed.

Lemma l_null_begin_with_mode l m : l_null_begin (with_mode l m) = l_null_begin l.
Proof. destruct l as [? ? ? ? ? [] ? ? ? ? ?]; reflexivity. Qed.

Lemma l_null_middle_with_mode l m : l_null_middle (with_mode l m) = l_null_middle l.
Proof. destruct l as [? ? ? ? ? [] ? ? ? ? ?]; reflexivity. Qed.

Lemma l_null_second_with_mode l m : l_null_second (with_mode l m) = l_null_second l.
Proof. destruct l as [? ? ? ? ? [] ? ? ? ? ?]; reflexivity. Qed.

Lemma l_size_with_mode l m : l_size (with_mode l m) = l_size l.
Proof. destruct l as [? ? ? ? ? [] ? ? ? ? ?]; reflexivity. Qed.

Lemma l_gran_with_mode l m : l_gran (with_mode l m) = l_gran l.
Proof. destruct l as [? ? ? ? ? [] ? ? ? ? ?]; reflexivity. Qed.

Lemma l_h_with_mode l m : l_h (with_mode l m) = l_h l.
Proof. destruct l as [? ? ? ? ? [] ? ? ? ? ?]; reflexivity. Qed.

Lemma l_swapped_with_mode l m : l_swapped (with_mode l m) = l_swapped l.
Proof. destruct l as [? ? ? ? ? [] ? ? ? ? ?]; reflexivity. Qed.

Lemma first_with_sum_free l f : first (with_sum_free l f) = first l.
Proof. destruct l as [? ? ? ? ? [] ? ? ? ? ?]; reflexivity. Qed.

Lemma second_with_sum_free l f : second (with_sum_free l f) = second l.
Proof. destruct l as [? ? ? ? ? [] ? ? ? ? ?]; reflexivity. Qed.

Lemma l_mode_with_sum_free l f : l_mode (with_sum_free l f) = l_mode l.
Proof. destruct l as [? ? ? ? ? [] ? ? ? ? ?]; reflexivity. Qed.

Lemma l_sum_free_with_sum_free l f : l_sum_free (with_sum_free l f) = f.
Proof. destruct l as [? ? ? ? ? [] ? ? ? ? ?]; reflexivity. Qed.

Lemma l_null_begin_with_sum_free l f : l_null_begin (with_sum_free l f) = l_null_begin l.
Proof. destruct l as [? ? ? ? ? [] ? ? ? ? ?]; reflexivity. Qed.

Lemma l_null_middle_with_sum_free l f : l_null_middle (with_sum_free l f) = l_null_middle l.
Proof. destruct l as [? ? ? ? ? [] ? ? ? ? ?]; reflexivity. Qed.

Lemma l_null_second_with_sum_free l f : l_null_second (with_sum_free l f) = l_null_second l.
Proof. destruct l as [? ? ? ? ? [] ? ? ? ? ?]; reflexivity. Qed.

Lemma l_size_with_sum_free l f : l_size (with_sum_free l f) = l_size l.
Proof. destruct l as [? ? ? ? ? [] ? ? ? ? ?]; reflexivity. Qed.

Lemma l_gran_with_sum_free l f : l_gran (with_sum_free l f) = l_gran l.
Proof. destruct l as [? ? ? ? ? [] ? ? ? ? ?]; reflexivity. Qed.

Lemma l_h_with_sum_free l f : l_h (with_sum_free l f) = l_h l.
Proof. destruct l as [? ? ? ? ? [] ? ? ? ? ?]; reflexivity. Qed.

Lemma l_swapped_with_sum_free l f : l_swapped (with_sum_free l f) = l_swapped l.
Proof. destruct l as [? ? ? ? ? [] ? ? ? ? ?]; reflexivity. Qed.

Lemma first_with_nulls l a b c : first (with_nulls l a b c) = first l.
Proof. destruct l as [? ? ? ? ? [] ? ? ? ? ?]; reflexivity. Qed.

Lemma second_with_nulls l a b c : second (with_nulls l a b c) = second l.
Proof. destruct l as [? ? ? ? ? [] ? ? ? ? ?]; reflexivity. Qed.

Lemma l_mode_with_nulls l a b c : l_mode (with_nulls l a b c) = l_mode l.
Proof. destruct l as [? ? ? ? ? [] ? ? ? ? ?]; reflexivity. Qed.

Lemma l_sum_free_with_nulls l a b c : l_sum_free (with_nulls l a b c) = l_sum_free l.
Proof. destruct l as [? ? ? ? ? [] ? ? ? ? ?]; reflexivity. Qed.

Lemma l_null_begin_with_nulls l a b c : l_null_begin (with_nulls l a b c) = a.
Proof. destruct l as [? ? ? ? ? [] ? ? ? ? ?]; reflexivity. Qed.

Lemma l_null_middle_with_nulls l a b c : l_null_middle (with_nulls l a b c) = b.
Proof. destruct l as [? ? ? ? ? [] ? ? ? ? ?]; reflexivity. Qed.

Lemma l_null_second_with_nulls l a b c : l_null_second (with_nulls l a b c) = c.
Proof. destruct l as [? ? ? ? ? [] ? ? ? ? ?]; reflexivity. Qed.

Lemma l_size_with_nulls l a b c : l_size (with_nulls l a b c) = l_size l.
Proof. destruct l as [? ? ? ? ? [] ? ? ? ? ?]; reflexivity. Qed.

Lemma l_gran_with_nulls l a b c : l_gran (with_nulls l a b c) = l_gran l.
Proof. destruct l as [? ? ? ? ? [] ? ? ? ? ?]; reflexivity. Qed.

Lemma l_h_with_nulls l a b c : l_h (with_nulls l a b c) = l_h l.
Proof. destruct l as [? ? ? ? ? [] ? ? ? ? ?]; reflexivity. Qed.

Lemma l_swapped_with_nulls l a b c : l_swapped (with_nulls l a b c) = l_swapped l.
Proof. destruct l as [? ? ? ? ? [] ? ? ? ? ?]; reflexivity. Qed.

Lemma first_swap_vectors l : first (swap_vectors l) = second l.
Proof. destruct l as [? ? ? ? ? [] ? ? ? ? ?]; reflexivity. Qed.

Lemma second_swap_vectors l : second (swap_vectors l) = first l.
Proof. destruct l as [? ? ? ? ? [] ? ? ? ? ?]; reflexivity. Qed.

Lemma l_mode_swap_vectors l : l_mode (swap_vectors l) = l_mode l.
Proof. destruct l as [? ? ? ? ? [] ? ? ? ? ?]; reflexivity. Qed.

Lemma l_sum_free_swap_vectors l : l_sum_free (swap_vectors l) = l_sum_free l.
Proof. destruct l as [? ? ? ? ? [] ? ? ? ? ?]; reflexivity. Qed.

Lemma l_null_begin_swap_vectors l : l_null_begin (swap_vectors l) = l_null_begin l.
Proof. destruct l as [? ? ? ? ? [] ? ? ? ? ?]; reflexivity. Qed.

Lemma l_null_middle_swap_vectors l : l_null_middle (swap_vectors l) = l_null_middle l.
Proof. destruct l as [? ? ? ? ? [] ? ? ? ? ?]; reflexivity. Qed.

Lemma l_null_second_swap_vectors l : l_null_second (swap_vectors l) = l_null_second l.
Proof. destruct l as [? ? ? ? ? [] ? ? ? ? ?]; reflexivity. Qed.

Lemma l_size_swap_vectors l : l_size (swap_vectors l) = l_size l.
Proof. destruct l as [? ? ? ? ? [] ? ? ? ? ?]; reflexivity. Qed.

Lemma l_gran_swap_vectors l : l_gran (swap_vectors l) = l_gran l.
Proof. destruct l as [? ? ? ? ? [] ? ? ? ? ?]; reflexivity. Qed.

Lemma l_h_swap_vectors l : l_h (swap_vectors l) = l_h l.
Proof. destruct l as [? ? ? ? ? [] ? ? ? ? ?]; reflexivity. Qed.

Lemma l_swapped_swap_vectors l : l_swapped (swap_vectors l) = negb (l_swapped l).
Proof. destruct l as [? ? ? ? ? [] ? ? ? ? ?]; reflexivity. Qed.

Global Hint Rewrite
  first_with_first
  second_with_first
  l_mode_with_first
  l_sum_free_with_first
  l_null_begin_with_first
  l_null_middle_with_first
  l_null_second_with_first
  l_size_with_first
  l_gran_with_first
  l_h_with_first
  l_swapped_with_first
  first_with_second
  second_with_second
  l_mode_with_second
  l_sum_free_with_second
  l_null_begin_with_second
  l_null_middle_with_second
  l_null_second_with_second
  l_size_with_second
  l_gran_with_second
  l_h_with_second
  l_swapped_with_second
  first_with_mode
  second_with_mode
  l_mode_with_mode
  l_sum_free_with_mode
  l_null_begin_with_mode
  l_null_middle_with_mode
  l_null_second_with_mode
  l_size_with_mode
  l_gran_with_mode
  l_h_with_mode
  l_swapped_with_mode
  first_with_sum_free
  second_with_sum_free
  l_mode_with_sum_free
  l_sum_free_with_sum_free
  l_null_begin_with_sum_free
  l_null_middle_with_sum_free
  l_null_second_with_sum_free
  l_size_with_sum_free
  l_gran_with_sum_free
  l_h_with_sum_free
  l_swapped_with_sum_free
  first_with_nulls
  second_with_nulls
  l_mode_with_nulls
  l_sum_free_with_nulls
  l_null_begin_with_nulls
  l_null_middle_with_nulls
  l_null_second_with_nulls
  l_size_with_nulls
  l_gran_with_nulls
  l_h_with_nulls
  l_swapped_with_nulls
  first_swap_vectors
  second_swap_vectors
  l_mode_swap_vectors
  l_sum_free_swap_vectors
  l_null_begin_swap_vectors
  l_null_middle_swap_vectors
  l_null_second_swap_vectors
  l_size_swap_vectors
  l_gran_swap_vectors
  l_h_swap_vectors
  l_swapped_swap_vectors
  : lin.

Ltac lsimp := autorewrite with lin.
Ltac lsimp_in H := autorewrite with lin in H.

(* ------------------------------------------------------------------ pairwise relations *)

Fixpoint pairwise (R : sub -> sub -> Prop) (v : list sub) : Prop :=
  match v with
  | [] => True
  | x :: r => Forall (R x) r /\ pairwise R r
  end.

Lemma pairwise_app (R : sub -> sub -> Prop) a b :
  pairwise R (a ++ b) <-> pairwise R a /\ pairwise R b /\ (forall x y, In x a -> In y b -> R x y).
Proof.
  induction a as [|s a IH]; cbn.
  - intuition.
  - rewrite Forall_app, IH. split.
    + intros ((H1 & H2) & H3 & H4 & H5). repeat split; auto.
      intros x y [->|Hx] Hy; [|auto]. eapply Forall_forall in H2; eauto.
    + intros ((H1 & H2) & H3 & H4). repeat split; auto.
      apply Forall_forall. intros y Hy. apply H4; auto.
Qed.

Lemma pairwise_impl (R R' : sub -> sub -> Prop) v :
  (forall x y, R x y -> R' x y) -> pairwise R v -> pairwise R' v.
Proof.
  intros Himp. induction v as [|s r IH]; cbn; [tauto|]. intros (H1 & H2). split; [|auto].
  eapply Forall_impl; [|exact H1]. auto.
Qed.

Lemma pairwise_sl (R : sub -> sub -> Prop) a b : sl a b -> pairwise R b -> pairwise R a.
Proof.
  induction 1 as [|x a b Hsl IH|x a b Hsl IH]; cbn; [tauto| |]; intros (H1 & H2).
  - split; [|auto]. eapply sl_Forall; eauto.
  - auto.
Qed.

Lemma pairwise_rev (R : sub -> sub -> Prop) v : (forall x y, R x y -> R y x) -> pairwise R v -> pairwise R (rev v).
Proof.
  intros Hsym. induction v as [|s r IH]; cbn; [tauto|]. intros (H1 & H2).
  apply pairwise_app. split; [auto|]. split; [cbn; auto|].
  intros x y Hx [<-|[]]. apply Hsym. apply in_rev in Hx. eapply Forall_forall in H1; eauto.
Qed.

Definition before (x y : sub) : Prop := s_off x + s_size x <= s_off y.

Lemma chain_pairwise lo v : pos_sizes v -> chain_from lo v -> pairwise before v.
Proof.
  revert lo; induction v as [|s r IH]; intros lo Hp H; cbn; [tauto|].
  apply pos_sizes_cons in Hp. destruct Hp as (Hs & Hp). cbn in H. destruct H as (H1 & H2).
  split; [|eauto]. apply Forall_forall. intros y Hy.
  pose proof (chain_in_bounds _ _ _ Hp H2 Hy). unfold before. lia.
Qed.

Lemma disjoint_sym x y : disjoint x y -> disjoint y x.
Proof. unfold disjoint. tauto. Qed.

Lemma pairwise_In (R : sub -> sub -> Prop) v x y :
  (forall a b, R a b -> R b a) -> pairwise R v -> In x v -> In y v -> x <> y -> R x y.
Proof.
  intros Hsym. induction v as [|s r IH]; cbn; [tauto|]. intros (H1 & H2) [->|Hx] [->|Hy] Hne.
  - congruence.
  - eapply Forall_forall in H1; eauto.
  - apply Hsym. eapply Forall_forall in H1; eauto.
  - auto.
Qed.

(* ------------------------------------------------------------------ the invariant *)

(* ghost facts of an item (kept by mark_free, so they hold for lazily deleted items too) *)
Definition item_ok (s : sub) : Prop :=
  1 <= s_size s /\ 0 < s_reqalign s /\ s_off s mod s_reqalign s = 0 /\ s_reqsize s <= s_size s.

(* the live part of the first vector *)
Definition window (l : linear) : list sub := skipn (Z.to_nat (l_null_begin l)) (first l).
Definition prefix (l : linear) : list sub := firstn (Z.to_nat (l_null_begin l)) (first l).

(* the live (type <> 0) items of both vectors *)
Definition live (l : linear) : list sub := lives (window l) ++ lives (second l).

(* the items in address order: a ring buffer's second vector lies below the live window of the
   first, a double stack's second vector is stored top-first above it *)
Definition order (m : mode) (win sv : list sub) : list sub :=
  match m with
  | MDouble => win ++ rev sv
  | _ => sv ++ win
  end.

(* Weak invariant: everything except "the ends of the vectors are live" and "mode Empty iff the
   second vector is empty".  It holds after Free has marked/removed an item and before
   cleanupAfterFree.  pre = first[:nullBegin], win = first[nullBegin:]. *)
Record W (pre win sv : list sub) (m : mode) (sf nm ns size g : Z) : Prop := mkW {
  w_pre : all_free pre;
  w_nm : nm = count_free win;
  w_ns : ns = count_free sv;
  w_ok1 : Forall item_ok (pre ++ win);
  w_ok2 : Forall item_ok sv;
  w_first : chain 0 (pre ++ win) size;
  w_order : chain 0 (order m win sv) size;
  w_mode : m = MEmpty -> sv = [];
  w_sum : sf = size - sum_sizes (lives win ++ lives sv);
  w_gran : pow2 g
}.

(* what cleanupAfterFree re-establishes *)
Record L (pre win sv : list sub) (m : mode) : Prop := mkLs {
  l_sv : sv = [] -> m = MEmpty;
  l_pre : win = [] -> pre = [];
  l_head : forall s r, win = s :: r -> is_free s = false;
  l_lastw : forall v s, win = v ++ [s] -> is_free s = false;
  l_lasts : forall v s, sv = v ++ [s] -> is_free s = false;
  l_ring : m = MRing -> win <> []
}.

Definition WInv (l : linear) : Prop :=
  0 <= l_null_begin l <= zlen (first l) /\
  W (prefix l) (window l) (second l) (l_mode l) (l_sum_free l) (l_null_middle l) (l_null_second l)
    (l_size l) (l_gran l).

Definition LInv (l : linear) : Prop :=
  WInv l /\ L (prefix l) (window l) (second l) (l_mode l).

Lemma firstn_app_exact {A} (a b : list A) : firstn (length a) (a ++ b) = a.
Proof. rewrite firstn_app, Nat.sub_diag, firstn_all. cbn. apply app_nil_r. Qed.

Lemma skipn_app_exact {A} (a b : list A) : skipn (length a) (a ++ b) = b.
Proof. rewrite skipn_app, Nat.sub_diag, skipn_all. reflexivity. Qed.

Lemma split_first l pre win :
  first l = pre ++ win -> zlen pre = l_null_begin l -> prefix l = pre /\ window l = win.
Proof.
  intros Hf Hn. unfold prefix, window. rewrite Hf, <- Hn. unfold zlen. rewrite Nat2Z.id.
  split; [apply firstn_app_exact|apply skipn_app_exact].
Qed.

Lemma first_split l :
  0 <= l_null_begin l <= zlen (first l) ->
  first l = prefix l ++ window l /\ zlen (prefix l) = l_null_begin l.
Proof.
  intros Hn. unfold prefix, window. split; [symmetry; apply firstn_skipn|].
  unfold zlen in *. rewrite firstn_length. lia.
Qed.

Lemma WInv_intro l pre win :
  first l = pre ++ win -> zlen pre = l_null_begin l ->
  W pre win (second l) (l_mode l) (l_sum_free l) (l_null_middle l) (l_null_second l) (l_size l) (l_gran l) ->
  WInv l.
Proof.
  intros Hf Hn HW. unfold WInv. destruct (split_first _ _ _ Hf Hn) as (Hp & Hw). rewrite Hp, Hw.
  split; [|exact HW].
  rewrite Hf, zlen_app, <- Hn. pose proof (zlen_nonneg pre). pose proof (zlen_nonneg win). lia.
Qed.

Lemma LInv_intro l pre win :
  first l = pre ++ win -> zlen pre = l_null_begin l ->
  W pre win (second l) (l_mode l) (l_sum_free l) (l_null_middle l) (l_null_second l) (l_size l) (l_gran l) ->
  L pre win (second l) (l_mode l) ->
  LInv l.
Proof.
  intros Hf Hn HW HL. split; [eapply WInv_intro; eauto|].
  destruct (split_first _ _ _ Hf Hn) as (Hp & Hw). rewrite Hp, Hw. exact HL.
Qed.

Lemma WInv_elim l :
  WInv l ->
  first l = prefix l ++ window l /\ zlen (prefix l) = l_null_begin l /\
  W (prefix l) (window l) (second l) (l_mode l) (l_sum_free l) (l_null_middle l) (l_null_second l)
    (l_size l) (l_gran l).
Proof. intros (Hn & HW). destruct (first_split _ Hn). auto. Qed.

Lemma item_ok_pos v : Forall item_ok v -> pos_sizes v.
Proof. apply Forall_impl. intros s H. apply H. Qed.

(* ------------------------------------------------------------------ 1. init *)

Theorem init_LInv h gr size : 0 <= size -> pow2 gr -> LInv (linear_init h gr size).
Proof.
  intros Hs Hg. apply (LInv_intro _ [] []); try reflexivity.
  - cbn. constructor; cbn; try reflexivity; auto; try (constructor; fail); try lia.
    + split; cbn; [exact I|lia].
    + split; cbn; [exact I|lia].
  - cbn. constructor; try congruence; try discriminate.
    + intros v s H. destruct v; discriminate.
    + intros v s H. destruct v; discriminate.
Qed.

(* ------------------------------------------------------------------ 3. live_sound (C01) *)

Lemma order_pos pre win sv m sf nm ns size g :
  W pre win sv m sf nm ns size g -> pos_sizes (order m win sv).
Proof.
  intros HW. destruct HW. apply item_ok_pos in w_ok3, w_ok4.
  apply pos_sizes_app in w_ok3. destruct w_ok3 as (_ & Hwin).
  unfold order. destruct m; apply pos_sizes_app; split; auto. apply Forall_rev. assumption.
Qed.

Lemma live_in_order l x : In x (live l) -> In x (order (l_mode l) (window l) (second l)) /\ is_free x = false.
Proof.
  unfold live. intros H. apply in_app_or in H. unfold order.
  destruct H as [H|H]; apply lives_is_live in H; destruct H as (H1 & H2); split; auto;
    destruct (l_mode l); apply in_or_app; auto. right. apply in_rev. rewrite rev_involutive. exact H1.
Qed.

Lemma order_pairwise_live m win sv :
  pairwise disjoint (order m win sv) -> pairwise disjoint (lives win ++ lives sv).
Proof.
  unfold order. intros H.
  assert (Hsym := disjoint_sym).
  destruct m; apply pairwise_app in H; destruct H as (H1 & H2 & H3); apply pairwise_app.
  - split; [eapply pairwise_sl; [apply sl_lives|exact H2]|]. split; [eapply pairwise_sl; [apply sl_lives|exact H1]|].
    intros x y Hx Hy. apply lives_is_live in Hx, Hy. apply Hsym. apply H3; tauto.
  - split; [eapply pairwise_sl; [apply sl_lives|exact H2]|]. split; [eapply pairwise_sl; [apply sl_lives|exact H1]|].
    intros x y Hx Hy. apply lives_is_live in Hx, Hy. apply Hsym. apply H3; tauto.
  - split; [eapply pairwise_sl; [apply sl_lives|exact H1]|]. split.
    + eapply pairwise_sl; [apply sl_lives|]. rewrite <- (rev_involutive sv). apply pairwise_rev; assumption.
    + intros x y Hx Hy. apply lives_is_live in Hx, Hy. apply H3; [tauto|]. apply in_rev. rewrite rev_involutive. tauto.
Qed.

Theorem live_sound l :
  WInv l ->
  (forall x, In x (live l) ->
     0 <= s_off x /\ s_off x + s_size x <= l_size l /\ 1 <= s_size x /\
     0 < s_reqalign x /\ s_off x mod s_reqalign x = 0 /\ s_reqsize x <= s_size x /\ s_type x <> 0) /\
  pairwise disjoint (live l) /\
  (forall x y, In x (live l) -> In y (live l) -> x <> y -> disjoint x y).
Proof.
  intros HI. destruct (WInv_elim _ HI) as (Hf & Hn & HW).
  pose proof (order_pos _ _ _ _ _ _ _ _ _ HW) as Hpos.
  destruct HW as [Hpre Hnm Hns Hok1 Hok2 Hfirst Horder Hmode Hsum Hgran].
  destruct Horder as (Hc & He).
  assert (Hpw : pairwise disjoint (live l)).
  { apply (order_pairwise_live (l_mode l)). eapply pairwise_impl; [|eapply chain_pairwise; eauto].
    intros x y Hb. left. exact Hb. }
  split; [|split; [exact Hpw|]].
  - intros x Hx. apply live_in_order in Hx. destruct Hx as (Hx & Hfree).
    pose proof (chain_in_bounds _ _ _ Hpos Hc Hx) as (Hlo & Hhi).
    assert (Hok : item_ok x).
    { apply Forall_app in Hok1. destruct Hok1 as (_ & Hokw).
      unfold order in Hx. destruct (l_mode l); apply in_app_or in Hx; destruct Hx as [Hx|Hx];
        try (eapply Forall_forall in Hokw; eauto; fail); try (eapply Forall_forall in Hok2; eauto; fail).
      apply in_rev in Hx. eapply Forall_forall in Hok2; eauto. }
    destruct Hok as (H1 & H2 & H3 & H4). repeat split; try lia; try assumption.
    unfold is_free in Hfree. lia.
  - intros x y Hx Hy Hne. eapply pairwise_In; eauto. apply disjoint_sym.
Qed.
