(* VamFlush.v — C08: the ranges handed to vkFlushMappedMemoryRanges / vkInvalidateMappedMemoryRanges.
   For every state satisfying the allocator invariant (hence every reachable state) and every live Allocation:
   the range computed by flushOrInvalidateRange lies inside the memory object of the allocation, starts at a
   multiple of nonCoherentAtomSize and has a size that is a multiple of nonCoherentAtomSize or ends exactly at the
   end of the memory object (the Vulkan valid-usage rules for VkMappedMemoryRange); the computation never panics
   (the "offset of a block allocation is not atom-aligned" panic is dead code because every block list of a
   non-coherent memory type has minimum alignment >= the atom size: bw_minalign / vi_minalign).
   Configuration domain: nonCoherentAtomSize >= 1 (the Vulkan specification guarantees a power of two >= 1). *)
From Coq Require Import ZArith List Bool Lia.
From Arsenal Require Import Util Bits VamDev VamBlockList Vam VamInvMeta VamInv VamInvUpd VamInvDev VamInvStep VamInvStep2.
From Arsenal Require Import VamMap.
Import ListNotations.
Open Scope Z_scope.

(* every flush/invalidate among the calls cs (replayed from ms0) is on a live memory object with a valid range *)
Definition flushes_ok (c : vcfg) (ms0 : list dmem) (cs : list call) : Prop :=
  forall pre inval mem off size r post ms1, cs = pre ++ CFlush inval mem off size r :: post -> replay ms0 pre ms1 ->
    exists d, find_mem ms1 mem = Some d /\ 0 <= off /\ 0 < size /\ off + size <= dm_size d /\ off mod c_atom c = 0 /\
              (size mod c_atom c = 0 \/ off + size = dm_size d).

(* a valid VkMappedMemoryRange (offset ro, size rs) on memory object d *)
Definition range_ok (c : vcfg) (d : dmem) (ro rs : Z) : Prop :=
  0 <= ro /\ 0 < rs /\ ro + rs <= dm_size d /\ ro mod c_atom c = 0 /\ (rs mod c_atom c = 0 \/ ro + rs = dm_size d).

Section WithCfg.
Variable c : vcfg.
Hypothesis Hc : cfg_ok c.
Hypothesis Hatom : 1 <= c_atom c.

Lemma atom_pow2 : Bits.pow2 (c_atom c).
Proof. destruct (co_atom _ Hc); [lia|auto]. Qed.

Lemma get_block_of v lr l b : get_blist v lr = Some l -> NoDup (map bk_id (bl_blocks l)) -> In b (bl_blocks l) ->
  get_block v lr (bk_id b) = Some b.
Proof. intros Hg Hnd Hb. unfold get_block. rewrite Hg. apply in_find_block; auto. Qed.

Theorem flush_range_valid v s a off size :
  VamInvU c v [] [] -> slot_is v s a ->
  match flush_range c v a off size with
  | OK (Some (ro, rs)) => exists d, find_mem (m_mems (v_m v)) (a_mem a) = Some d /\ range_ok c d ro rs
  | OK None | ER _ => True
  | PANIC | STUCK => False
  end.
Proof.
  intros HI Sa. pose proof atom_pow2 as Hp. pose proof (Bits.pow2_pos _ Hp) as Hpos.
  unfold flush_range.
  destruct ((size =? 0) || (size <? -1) || negb (non_coherent c (a_type a))) eqn:E0; [exact I|].
  apply orb_false_iff in E0. destruct E0 as (E0 & Enc). apply orb_false_iff in E0. destruct E0 as (Ez & Em).
  apply Z.eqb_neq in Ez. apply Z.ltb_ge in Em. apply negb_false_iff in Enc.
  destruct (off <? 0) eqn:E1; [exact I|]. apply Z.ltb_ge in E1.
  destruct (a_size a <? off) eqn:E2; [exact I|]. apply Z.ltb_ge in E2.
  destruct (off =? a_size a) eqn:E3; [exact I|]. apply Z.eqb_neq in E3.
  destruct ((0 <? size) && (a_size a <? off + size)) eqn:E4; [exact I|].
  destruct (Bits.align_down_bounds off (c_atom c) Hp) as (Hd1 & Hd2).
  assert (Hd0 : 0 <= Util.align_down off (c_atom c)).
  { rewrite (Bits.align_down_spec _ _ Hp). pose proof (Z.mod_le off (c_atom c) E1 Hpos). lia. }
  set (roff := Util.align_down off (c_atom c)) in *.
  destruct (vi_slots _ _ _ _ HI s a Sa ltac:(intros [])) as [(K & l & b & rg & Hg & Hb & Hid & Hrg & Hh & Htag & Hsz & Hal & Hmem & Hty)|(K & _ & _ & d & Hf & Hdt & Hds)].
  - (* block allocation *)
    rewrite K. cbn [Z.eqb Pos.eqb].
    pose proof (vi_lists _ _ _ _ HI _ _ Hg) as Hwf. pose proof (bw_nodup _ _ Hwf) as Hnd.
    pose proof (bw_meta _ _ Hwf) as Hmeta. rewrite Forall_forall in Hmeta. pose proof (Hmeta _ Hb) as Hmi.
    pose proof (get_block_of v _ l b Hg Hnd Hb) as Hgb. rewrite Hid in Hgb.
    unfold find_offset. rewrite K. cbn [Z.eqb Pos.eqb]. rewrite Hgb.
    rewrite <- Hh, (meta_offset_live _ _ Hmi Hrg).
    destruct (meta_live_sound _ Hmi) as (Hsound & _). destruct (Hsound _ Hrg) as (R1 & R2 & R3 & R4 & R5).
    (* the offset of the allocation inside its block is a multiple of the atom size *)
    assert (Haoff : rg_off rg mod c_atom c = 0).
    { apply (Bits.pow2_mod_mono _ (c_atom c) (rg_align rg)); auto.
      - rewrite Hal. exact (vi_align _ _ _ _ HI s a Sa K).
      - pose proof (bw_minalign _ _ Hwf) as Hm. rewrite <- Hty, Enc in Hm.
        destruct (c_atom c <? 1) eqn:E; [apply Z.ltb_lt in E; lia|].
        pose proof (vi_minalign _ _ _ _ HI s a l Sa ltac:(intros []) K Hg). lia. }
    rewrite Z.rem_mod_nonneg by lia. rewrite Haoff. cbn [Z.eqb negb].
    destruct (vi_block_mem _ _ _ _ HI _ _ _ Hg Hb) as (d & Hf & Hdt & Hds).
    exists d. split; [rewrite Hmem; exact Hf|].
    set (size1 := if size =? -1 then a_size a - roff else size).
    destruct (Bits.align_up_bounds (size1 + (off - roff)) (c_atom c) Hp) as (Hu1 & Hu2).
    set (rsize := Util.align_up (size1 + (off - roff)) (c_atom c)) in *.
    assert (Hs1 : 0 < size1 + (off - roff)).
    { unfold size1. destruct (size =? -1) eqn:E; [|apply Z.eqb_neq in E]; lia. }
    assert (Hroff' : (roff + rg_off rg) mod c_atom c = 0).
    { rewrite Z.add_mod by lia. rewrite Hd2, Haoff. rewrite Z.add_0_l. apply Zmod_0_l. }
    unfold range_ok. rewrite Hds.
    destruct (meta_size (bk_meta b) - (roff + rg_off rg) <? rsize) eqn:E5.
    + repeat split; try lia; try (right; lia).
    + apply Z.ltb_ge in E5. repeat split; try lia; try (left; exact Hu2).
  - (* dedicated allocation *)
    rewrite K. cbn [Z.eqb Pos.eqb]. exists d. split; [exact Hf|]. unfold range_ok. rewrite Hds.
    destruct (0 <? size) eqn:E5.
    + apply Z.ltb_lt in E5.
      destruct (Bits.align_up_bounds (size + (off - roff)) (c_atom c) Hp) as (Hu1 & Hu2).
      destruct (Util.align_up (size + (off - roff)) (c_atom c) <? a_size a - roff) eqn:E6.
      * apply Z.ltb_lt in E6. repeat split; try lia; try (left; exact Hu2).
      * repeat split; try lia; try (right; lia).
    + repeat split; try lia; try (right; lia).
Qed.

(* Allocation.Flush / Invalidate: no panic; at most one driver call, on the allocation's live memory object, with a valid range *)
Theorem allocation_flush_valid v inval s off size :
  VamInvU c v [] [] ->
  let '(v', r) := allocation_flush c v inval s off size in
  r <> PANIC /\ r <> STUCK /\
  (m_calls (v_m v') = m_calls (v_m v) \/
   exists ro rs code d, m_calls (v_m v') = CFlush inval (a_mem (get_alloc v s)) ro rs code :: m_calls (v_m v) /\
     a_allocated (get_alloc v s) = true /\ find_mem (m_mems (v_m v)) (a_mem (get_alloc v s)) = Some d /\ range_ok c d ro rs).
Proof.
  intros HI. unfold allocation_flush. destruct (a_allocated (get_alloc v s)) eqn:Ea; cbn [negb].
  2:{ split; [discriminate|]. split; [discriminate|]. left. reflexivity. }
  pose proof (flush_range_valid v s (get_alloc v s) off size HI (get_alloc_allocated _ _ Ea)) as F.
  destruct (flush_range c v (get_alloc v s) off size) as [[(ro & rs)|]|code| |]; try contradiction.
  - destruct F as (d & Hf & Hr). unfold dev_flush. rewrite Hf.
    destruct (dev_fault (m_fault (v_m v)) (m_fired (v_m v)) (if inval then 11 else 10)) as ((f1 & fired1) & code).
    cbn [v_m set_m log_call m_calls set_fault]. split; [destruct (code =? 0); discriminate|]. split; [destruct (code =? 0); discriminate|].
    right. exists ro, rs, code, d. auto.
  - split; [discriminate|]. split; [discriminate|]. left. reflexivity.
  - split; [discriminate|]. split; [discriminate|]. left. reflexivity.
Qed.

Theorem flush_step_valid v inval s off size f v' r calls :
  VamInvU c v [] [] -> step c v (OFlush inval s off size) f = (v', r, calls) ->
  r <> RPanic /\ r <> RStuck /\
  (calls = [] \/
   exists ro rs code d, calls = [CFlush inval (a_mem (get_alloc v s)) ro rs code] /\ a_allocated (get_alloc v s) = true /\
     find_mem (m_mems (v_m v)) (a_mem (get_alloc v s)) = Some d /\ range_ok c d ro rs).
Proof.
  intros HI Hs. unfold step in Hs. cbn [exec] in Hs.
  set (v0 := set_m v (clear_calls (set_fault (v_m v) f 0))) in *.
  assert (I0 : VamInvU c v0 [] []).
  { apply VamInvU_mach_same; [exact HI|]. eapply mach_same_trans; [apply mach_same_set_fault|apply mach_same_clear]. }
  pose proof (allocation_flush_valid v0 inval s off size I0) as P.
  destruct (allocation_flush c v0 inval s off size) as (v1 & r1). injection Hs as <- <- <-.
  destruct P as (P1 & P2 & P3). split; [destruct r1; cbn; congruence|]. split; [destruct r1; cbn; congruence|].
  destruct P3 as [E|(ro & rs & code & d & E & Ha & Hf & Hr)].
  - left. rewrite E. reflexivity.
  - right. exists ro, rs, code, d. rewrite E. cbn. auto.
Qed.

Corollary flush_step_calls_ok v inval s off size f v' r calls :
  VamInvU c v [] [] -> step c v (OFlush inval s off size) f = (v', r, calls) -> flushes_ok c (m_mems (v_m v)) calls.
Proof.
  intros HI Hs. destruct (flush_step_valid _ _ _ _ _ _ _ _ _ HI Hs) as (_ & _ & [->|(ro & rs & code & d & -> & _ & Hf & Hr)]);
    intros pre inval' mem off' size' r' post ms1 E Hrp.
  - destruct pre; discriminate.
  - destruct pre as [|k pre]; [|destruct pre; discriminate]. cbn in E. injection E as <- <- <- <- <- <-.
    inversion Hrp as [|? cs ? k ? ? ? ? Ecs]; subst; [|destruct cs; discriminate].
    exists d. split; [exact Hf|exact Hr].
Qed.

(* ---------------------------------------------------------------- BindBufferMemory / BindImageMemory *)

Lemma dev_bind_calls m image res mem off :
  exists code, m_calls (fst (dev_bind m image res mem off)) = CBind image res mem off code :: m_calls m /\
               m_mems (fst (dev_bind m image res mem off)) = m_mems m.
Proof.
  unfold dev_bind. destruct (find_res _ _) as [r|]; [|eexists; split; reflexivity]. destruct (find_mem _ _); [|eexists; split; reflexivity].
  destruct (dev_fault _ _ _) as ((f1 & fired1) & code). destruct (negb _); eexists; split; reflexivity.
Qed.

(* where a live Allocation lies inside its memory object *)
Lemma find_offset_valid v s a :
  VamInvU c v [] [] -> slot_is v s a ->
  exists o d, find_offset v a = Some o /\ find_mem (m_mems (v_m v)) (a_mem a) = Some d /\
              0 <= o /\ o + a_size a <= dm_size d /\ (a_kind a = 1 -> o mod a_align a = 0) /\ (a_kind a = 2 -> o = 0).
Proof.
  intros HI Sa.
  destruct (vi_slots _ _ _ _ HI s a Sa ltac:(intros [])) as [(K & l & b & rg & Hg & Hb & Hid & Hrg & Hh & Htag & Hsz & Hal & Hmem & Hty)|(K & _ & _ & d & Hf & Hdt & Hds)].
  - pose proof (vi_lists _ _ _ _ HI _ _ Hg) as Hwf. pose proof (bw_nodup _ _ Hwf) as Hnd.
    pose proof (bw_meta _ _ Hwf) as Hmeta. rewrite Forall_forall in Hmeta. pose proof (Hmeta _ Hb) as Hmi.
    pose proof (get_block_of v _ l b Hg Hnd Hb) as Hgb. rewrite Hid in Hgb.
    destruct (meta_live_sound _ Hmi) as (Hsound & _). destruct (Hsound _ Hrg) as (R1 & R2 & R3 & R4 & R5).
    destruct (vi_block_mem _ _ _ _ HI _ _ _ Hg Hb) as (d & Hf & Hdt & Hds).
    exists (rg_off rg), d. unfold find_offset. rewrite K. cbn [Z.eqb Pos.eqb]. rewrite Hgb, <- Hh, (meta_offset_live _ _ Hmi Hrg).
    split; [reflexivity|]. split; [rewrite Hmem; exact Hf|]. split; [exact R1|]. split; [lia|]. split; [intros _; rewrite <- Hal; exact R5|]. intros K2. congruence.
  - exists 0, d. unfold find_offset. rewrite K. cbn [Z.eqb Pos.eqb]. split; [reflexivity|]. split; [exact Hf|]. split; [lia|]. split; [lia|].
    split; [intros K1; congruence|reflexivity].
Qed.

(* bindBufferMemory / bindImageMemory: no panic; at most one driver call, with the allocation's live memory object
   and the offset = caller's offset + the allocation's offset inside that object *)
Theorem bind_memory_valid v s image res off :
  VamInvU c v [] [] ->
  let '(v', r) := bind_memory v s image res off in
  r <> PANIC /\ r <> STUCK /\ m_mems (v_m v') = m_mems (v_m v) /\
  (m_calls (v_m v') = m_calls (v_m v) \/
   exists o code d, m_calls (v_m v') = CBind image res (a_mem (get_alloc v s)) (off + o) code :: m_calls (v_m v) /\
     a_allocated (get_alloc v s) = true /\ find_offset v (get_alloc v s) = Some o /\
     find_mem (m_mems (v_m v)) (a_mem (get_alloc v s)) = Some d /\ 0 <= o /\ o + a_size (get_alloc v s) <= dm_size d /\
     (a_kind (get_alloc v s) = 1 -> o mod a_align (get_alloc v s) = 0)).
Proof.
  intros HI. unfold bind_memory.
  assert (Hnone : forall code, @ER unit code <> PANIC /\ @ER unit code <> STUCK /\ m_mems (v_m v) = m_mems (v_m v) /\
            (m_calls (v_m v) = m_calls (v_m v) \/
             exists o code d, m_calls (v_m v) = CBind image res (a_mem (get_alloc v s)) (off + o) code :: m_calls (v_m v) /\
               a_allocated (get_alloc v s) = true /\ find_offset v (get_alloc v s) = Some o /\
               find_mem (m_mems (v_m v)) (a_mem (get_alloc v s)) = Some d /\ 0 <= o /\ o + a_size (get_alloc v s) <= dm_size d /\
               (a_kind (get_alloc v s) = 1 -> o mod a_align (get_alloc v s) = 0))).
  { intros code. split; [discriminate|]. split; [discriminate|]. split; [reflexivity|]. left. reflexivity. }
  destruct (res =? 0); [apply Hnone|]. destruct (a_allocated (get_alloc v s)) eqn:Ea; cbn [negb]; [|apply Hnone].
  destruct (off <? 0); [apply Hnone|].
  destruct (find_offset_valid v s (get_alloc v s) HI (get_alloc_allocated _ _ Ea)) as (o & d & Ho & Hf & O1 & O2 & O3 & O4).
  assert (Hkind : a_kind (get_alloc v s) = 1 \/ a_kind (get_alloc v s) = 2).
  { destruct (vi_slots _ _ _ _ HI s _ (get_alloc_allocated _ _ Ea) ltac:(intros [])) as [(K & _)|(K & _)]; auto. }
  assert (Et : (if a_kind (get_alloc v s) =? 2 then OK off
                else if a_kind (get_alloc v s) =? 1 then match find_offset v (get_alloc v s) with Some o => OK (off + o) | None => PANIC end
                else ER VK_UNKNOWN) = OK (off + o)).
  { destruct Hkind as [K|K]; rewrite K; cbn [Z.eqb Pos.eqb]; [rewrite Ho; reflexivity|rewrite (O4 K), Z.add_0_r; reflexivity]. }
  rewrite Et. destruct (dev_bind_calls (v_m v) image res (a_mem (get_alloc v s)) (off + o)) as (code & Ecalls & Emems).
  destruct (dev_bind (v_m v) image res (a_mem (get_alloc v s)) (off + o)) as (m1 & code1). cbn [fst] in Ecalls, Emems. cbn [v_m set_m].
  split; [destruct (code1 =? 0); discriminate|]. split; [destruct (code1 =? 0); discriminate|]. split; [exact Emems|].
  right. exists o, code, d. auto 10.
Qed.

Lemma find_offset_set_m v m a : find_offset (set_m v m) a = find_offset v a.
Proof. unfold find_offset, get_block. rewrite get_blist_set_m. reflexivity. Qed.

(* the API call BindBufferMemory / BindImageMemory as a step *)
Theorem bind_step_valid v s image res off f v' r calls :
  VamInvU c v [] [] -> step c v (OBind s image res off) f = (v', r, calls) ->
  r <> RPanic /\ r <> RStuck /\
  (calls = [] \/
   exists o code d, calls = [CBind image res (a_mem (get_alloc v s)) (off + o) code] /\ a_allocated (get_alloc v s) = true /\
     find_offset v (get_alloc v s) = Some o /\ find_mem (m_mems (v_m v)) (a_mem (get_alloc v s)) = Some d /\
     0 <= o /\ o + a_size (get_alloc v s) <= dm_size d /\ (a_kind (get_alloc v s) = 1 -> o mod a_align (get_alloc v s) = 0)).
Proof.
  intros HI Hs. unfold step in Hs. cbn [exec] in Hs.
  set (v0 := set_m v (clear_calls (set_fault (v_m v) f 0))) in *.
  assert (I0 : VamInvU c v0 [] []).
  { apply VamInvU_mach_same; [exact HI|]. eapply mach_same_trans; [apply mach_same_set_fault|apply mach_same_clear]. }
  pose proof (bind_memory_valid v0 s image res off I0) as P.
  destruct (bind_memory v0 s image res off) as (v1 & r1). injection Hs as <- <- <-.
  destruct P as (P1 & P2 & _ & P3). split; [destruct r1; cbn; congruence|]. split; [destruct r1; cbn; congruence|].
  destruct P3 as [E|(o & code & d & E & Ha & Ho & Hf & R)].
  - left. rewrite E. reflexivity.
  - right. exists o, code, d. rewrite E. unfold v0 in Ho. rewrite find_offset_set_m in Ho. cbn. auto.
Qed.

(* a negative allocation-local offset (BindBufferMemoryWithOffset / BindImageMemoryWithOffset) is refused before any driver
   call; so whenever vkBind*Memory is issued, the caller's offset is >= 0 and the device offset off + o is >= the allocation's
   own offset o *)
Lemma bind_memory_neg_offset v s image res off :
  off < 0 -> exists code, bind_memory v s image res off = (v, ER code).
Proof.
  intros H. unfold bind_memory. destruct (res =? 0); [eauto|]. destruct (negb _); [eauto|].
  apply Z.ltb_lt in H. rewrite H. eauto.
Qed.

Theorem bind_step_neg_offset v s image res off f v' r calls :
  step c v (OBind s image res off) f = (v', r, calls) -> off < 0 -> (exists code, r = RErr code) /\ calls = [].
Proof.
  intros Hs Hoff. unfold step in Hs. cbn [exec] in Hs.
  destruct (bind_memory_neg_offset (set_m v (clear_calls (set_fault (v_m v) f 0))) s image res off Hoff) as (code & E).
  rewrite E in Hs. injection Hs as _ <- <-. split; [exists code; reflexivity|reflexivity].
Qed.

Theorem bind_step_offset_nonneg v s image res off f v' r calls :
  step c v (OBind s image res off) f = (v', r, calls) -> calls <> [] -> 0 <= off.
Proof.
  intros Hs Hne. destruct (Z.ltb_spec off 0) as [Hlt|Hge]; [|exact Hge].
  destruct (bind_step_neg_offset v s image res off f v' r calls Hs Hlt) as (_ & E). contradiction.
Qed.

End WithCfg.

