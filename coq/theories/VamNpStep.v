(* VamNpStep.v — C13 "never panics", block-list layer.  On top of the combined invariant VamInvB (VamBalStep.v) no
   function of block_list.go takes a PANIC branch (nil dereference, assertion, metadata inconsistency, unhandled
   budget error) or a STUCK branch (behaviour the model does not cover: missing list / block, result codes the
   Go code cannot produce).  The lemmas here only speak about the RESULT; the state after the call is described by
   the *_inv lemmas of VamBalStep.v. *)
From Coq Require Import ZArith List Bool Lia Permutation.
From Arsenal Require Import Util Budget BudgetProofs VamDev VamBlockList Vam VamInvMeta VamInv VamInvUpd VamInvDev.
From Arsenal Require Import VamInvStep VamInvStep2 VamAcct VamAcctStep VamMap VamMapStep VamBal VamBalStep.
From Arsenal Require SyncMem SyncMemProofs LinearAlloc TlsfStep TlsfStep2.
Import ListNotations.
Open Scope Z_scope.

(* a result that is neither a panic nor outside the model *)
Definition npu {A} (r : out A) : Prop := r <> PANIC /\ r <> STUCK.
Definition npa (r : afres) : Prop := r <> AFPanic /\ r <> AFStuck.

Lemma npu_ok {A} (x : A) : npu (OK x).
Proof. split; discriminate. Qed.
Lemma npu_er {A} code : npu (@ER A code).
Proof. split; discriminate. Qed.

(* the persistent-map request flag only comes with a host-access flag (calc_params) *)
Definition mapped_ok (flags : Z) : Prop := fl flags F_MAPPED = true -> mapping_allowed flags = true.

(* ---------------------------------------------------------------- SynchronizedMemory: only results the Go code has *)

Lemma sm_map_np c m mem s : npu (snd (sm_map c m mem s)).
Proof.
  unfold sm_map. destruct (dev_map c m mem) as (m1 & code). unfold SyncMem.do_map. cbn [Z.eqb].
  destruct (SyncMem.post_map_unmap s) as (s1 & sw). destruct (0 <? SyncMem.references s).
  - destruct (SyncMem.mapped _); cbn; split; discriminate.
  - destruct (negb (code =? 0)); cbn; split; discriminate.
Qed.

Lemma sm_unmap_np m mem s : npu (snd (sm_unmap m mem s)).
Proof.
  unfold sm_unmap, SyncMem.do_unmap. destruct (SyncMem.mapRefs s =? 0); [cbn; split; discriminate|].
  destruct (SyncMem.mapRefs s <? 1); [cbn; split; discriminate|]. destruct (SyncMem.post_map_unmap _) as (s1 & sw).
  destruct (SyncMem.references s1 <=? 0); cbn; split; discriminate.
Qed.

Section WithCfg.
Variable c : vcfg.
Hypothesis Hc : cfg_ok c.
Hypothesis Hmax : 0 <= c_maxcount c < 2147483647.
Hypothesis Hlarge : 0 <= c_large c < 2 ^ 61.
Variable ms0 : list dmem.
Variable G : Z -> Z.
Set Default Proof Using "Hc Hmax Hlarge".

Notation VamInvM := (VamMapStep.VamInvM c ms0).
Notation VamInvB := (VamBalStep.VamInvB c ms0 G).
Notation vb_m := (VamBalStep.vb_m c ms0 G).
Notation vb_b := (VamBalStep.vb_b c ms0 G).
Notation vb_s := (VamBalStep.vb_s c Hc Hmax Hlarge ms0 G).
Notation vb_aa := (VamBalStep.vb_aa c Hc Hmax Hlarge ms0 G).
Notation vb_mm := (VamBalStep.vb_mm c Hc Hmax Hlarge ms0 G).

(* ---------------------------------------------------------------- metadata *)

Lemma meta_request_np mt size align upper sub strat :
  MInv mt -> Bits.pow2 align -> meta_create_request mt size align upper sub strat <> MPanic.
Proof using.
  intros HI Hal. destruct mt as [t|l]; cbn.
  - destruct HI as [HT H2].
    pose proof (TlsfStep2.tlsf_no_panic t (Tlsf.ORequest size align sub strat upper MAXINT) HT H2 Hal) as P. cbn in P.
    destruct (Tlsf.create_request t size align upper sub strat MAXINT); try discriminate. exfalso. apply P. reflexivity.
  - pose proof (LinearAlloc.create_request_spec l size align upper sub strat MAXINT HI Hal) as R.
    destruct (Linear.create_request l size align upper sub strat MAXINT); try discriminate. contradiction.
Qed.

(* ---------------------------------------------------------------- CreateBlock / block Destroy *)

Lemma create_block_np v U X lr l size :
  VamInvB v U X -> get_blist v lr = Some l -> 0 <= size < 2 ^ 62 ->
  let '(v', r) := create_block c v lr size in
  npu r /\ forall bid, r = OK bid -> exists nb, get_block v' lr bid = Some nb /\ meta_size (bk_meta nb) = size.
Proof.
  intros HI Hg Hsz. unfold create_block. rewrite Hg.
  pose proof (alloc_vk_MB c Hc Hmax Hlarge (v_m v) _ (bl_type l) size 0 (ai_mb _ _ _ (vb_aa _ _ _ HI)) Hsz) as K.
  destruct (alloc_vk c (v_m v) (bl_type l) size 0) as (m1 & r). destruct r as [mem|code| |]; try contradiction.
  - split; [apply npu_ok|]. intros bid E. injection E as <-. cbn [bk_id].
    set (b := mkBlock (bl_next l) mem SyncMem.sm_init (meta_init (bl_algo l) (bl_gran l) size)).
    exists b. split.
    + unfold get_block. rewrite set_blist_set_m, get_blist_set_m, (get_set_blist_same _ _ _ _ Hg). cbn [bl_blocks set_blocks_next].
      pose proof (vi_lists _ _ _ _ (vb_s _ _ _ HI) _ _ Hg) as Hwf.
      assert (Hfresh : find_block (bl_blocks l) (bl_next l) = None).
      { destruct (find_block (bl_blocks l) (bl_next l)) as [x|] eqn:E; [|reflexivity]. destruct (find_block_in _ _ _ E) as (Hx & Hid).
        pose proof (bw_ids _ _ Hwf) as Hids. rewrite Forall_forall in Hids. specialize (Hids x Hx). lia. }
      clear - Hfresh. induction (bl_blocks l) as [|y t IH]; cbn in *; [rewrite Z.eqb_refl; reflexivity|].
      destruct (bk_id y =? bl_next l); [discriminate|]. apply IH. exact Hfresh.
    + unfold b. cbn [bk_meta]. unfold meta_init. destruct (bl_algo l =? 0); reflexivity.
  - split; [apply npu_er|]. intros bid E. discriminate.
Qed.

(* Destroy of an empty block whose memory object is alive *)
Lemma destroy_block_ok v X ty b d :
  AM c v X -> find_mem (m_mems (v_m v)) (bk_mem b) = Some d ->
  type_heap c ty = type_heap c (dm_type d) -> meta_size (bk_meta b) = dm_size d -> meta_is_empty (bk_meta b) = true ->
  snd (destroy_block c v ty b) = OK tt.
Proof.
  intros (A & _) Hf Hty Hsz He. unfold destroy_block. rewrite He. cbn [negb].
  pose proof (free_vk_MB c Hc Hmax Hlarge (v_m v) _ ty (meta_size (bk_meta b)) (bk_mem b) d A Hf Hty Hsz) as K.
  destruct (free_vk c (v_m v) ty (meta_size (bk_meta b)) (bk_mem b)) as (m1 & r). cbn. apply K.
Qed.

(* an empty block of list lr is taken out of the list and destroyed *)
Lemma remove_destroy_ok v U X lr l b l' :
  VamInvB v U X -> get_blist v lr = Some l -> In b (bl_blocks l) -> meta_is_empty (bk_meta b) = true ->
  snd (destroy_block c (set_blist v lr l') (bl_type l) b) = OK tt.
Proof.
  intros HI Hg Hb He. destruct (vi_block_mem _ _ _ _ (vb_s _ _ _ HI) _ _ _ Hg Hb) as (d & Hf & Hdt & Hds).
  apply (destroy_block_ok _ X _ _ d); [| | | |exact He].
  - eapply (AM_tab c Hc Hmax Hlarge); [apply (AInv_AM c Hc Hmax Hlarge _ _ (vb_aa _ _ _ HI))|apply set_blist_tab|rewrite set_blist_m; apply (mach_sameA_refl c Hc Hmax Hlarge)].
  - rewrite set_blist_m. exact Hf.
  - rewrite Hdt. reflexivity.
  - congruence.
Qed.


(* ---------------------------------------------------------------- allocFromBlock / commitAllocationRequest *)

Lemma alloc_from_block_np v U X lr bid size align flags sub s b :
  VamInvB v U X -> Bits.pow2 align -> get_block v lr bid = Some b -> mapped_ok flags ->
  let '(v', r) := alloc_from_block c v lr bid size align flags sub s in
  npa r /\ (r = AFNoFit -> v' = v) /\ (forall code, r = AFErr code -> exists b', get_block v' lr bid = Some b').
Proof.
  intros HI Hal Hgb Hmo. pose proof (vb_s _ _ _ HI) as HU. unfold alloc_from_block. rewrite Hgb.
  assert (Hsame : forall r0, npa r0 -> npa r0 /\ (r0 = AFNoFit -> v = v) /\ (forall code, r0 = AFErr code -> exists b', get_block v lr bid = Some b')).
  { intros r0 H. split; [exact H|]. split; [reflexivity|]. intros; eauto. }
  destruct (negb (meta_may_have_free (bk_meta b) sub size)); [apply Hsame; split; discriminate|].
  destruct (get_block_in _ _ _ _ Hgb) as (l & Hg & Hb & Hbid).
  pose proof (vi_lists _ _ _ _ HU _ _ Hg) as Hwf. pose proof (bw_nodup _ _ Hwf) as Hnd.
  pose proof (bw_meta _ _ Hwf) as Hmeta. rewrite Forall_forall in Hmeta. pose proof (Hmeta _ Hb) as Hmi.
  pose proof (meta_request_np (bk_meta b) size align (fl flags F_UPPER) sub (strategy_of flags) Hmi Hal) as Hnp.
  destruct (meta_create_request (bk_meta b) size align (fl flags F_UPPER) sub (strategy_of flags)) as [mt1 rq| | |] eqn:Hrq;
    try (apply Hsame; split; discriminate); [|contradiction].
  destruct (VamBalStep.meta_alloc_ok _ _ _ _ _ _ _ _ s Hmi Hal Hrq) as (mt2 & h & Ema).
  set (b1 := mkBlock (bk_id b) (bk_mem b) (bk_sm b) mt1).
  destruct (put_block_lookup v lr l b b1 Hg Hnd Hb eq_refl) as (Hg1 & Hb1 & Hgb1).
  set (v1 := put_block v lr b1) in *. set (l1 := set_blocks l (replace_block (bl_blocks l) b1)) in *.
  unfold commit_request. cbn [bk_id b1] in Hgb1. rewrite Hbid in Hgb1. rewrite Hg1, Hgb1.
  destruct (sm_sub (v_m v1) (bk_mem b1) (bk_sm b1)) as (m1 & s1).
  assert (Pmap : forall m2 s2 (mr : out unit), (if fl flags F_MAPPED then sm_map c m1 (bk_mem b1) s1 else (m1, s1, OK tt)) = (m2, s2, mr) -> npu mr).
  { intros m2 s2 mr E. destruct (fl flags F_MAPPED).
    - pose proof (sm_map_np c m1 (bk_mem b1) s1) as P. rewrite E in P. exact P.
    - injection E as _ _ <-. apply npu_ok. }
  destruct (if fl flags F_MAPPED then sm_map c m1 (bk_mem b1) s1 else (m1, s1, OK tt)) as ((m2 & s2) & mr) eqn:Emap.
  specialize (Pmap _ _ _ eq_refl). destruct Pmap as (Pp & Ps).
  set (b2 := mkBlock (bk_id b1) (bk_mem b1) s2 (bk_meta b1)).
  assert (Hg1m : get_blist (set_m v1 m2) lr = Some l1) by (rewrite get_blist_set_m; auto).
  assert (Hnd1 : NoDup (map bk_id (bl_blocks l1))) by (unfold l1; cbn; rewrite replace_block_ids; auto).
  destruct (put_block_lookup (set_m v1 m2) lr l1 b1 b2 Hg1m Hnd1 Hb1 eq_refl) as (Hg2 & Hb2 & Hgb2).
  cbn [bk_id b2 b1] in Hgb2. rewrite Hbid in Hgb2.
  destruct mr as [[]|code| |]; try congruence.
  - cbn [bk_meta b1 bk_id bk_mem] in *. rewrite Ema.
    assert (Ef : fl flags F_MAPPED && negb (mapping_allowed flags) = false).
    { unfold mapped_ok in Hmo. destruct (fl flags F_MAPPED) eqn:E; [rewrite (Hmo eq_refl); reflexivity|reflexivity]. }
    rewrite Ef. split; [split; discriminate|]. split; intros; discriminate.
  - split; [split; discriminate|]. split; [intros; discriminate|]. intros code0 _. exists b2. exact Hgb2.
Qed.


(* ---------------------------------------------------------------- the search loop of allocPage *)

Lemma try_blocks_np ids : forall v U X lr size align flags sub s,
  VamInvB v U X -> Bits.pow2 align -> (forall bid, In bid ids -> get_block v lr bid <> None) -> mapped_ok flags ->
  let '(v', r) := try_blocks c v lr ids size align flags sub s in npa r /\ (r = AFNoFit -> v' = v).
Proof.
  induction ids as [|bid tl IH]; intros v U X lr size align flags sub s HI Hal Hids Hmo; cbn [try_blocks].
  - split; [split; discriminate|reflexivity].
  - destruct (get_block v lr bid) as [b|] eqn:Hgb; [|exfalso; apply (Hids bid (or_introl eq_refl)); exact Hgb].
    pose proof (alloc_from_block_np v U X lr bid size align flags sub s b HI Hal Hgb Hmo) as A.
    destruct (alloc_from_block c v lr bid size align flags sub s) as (v1 & r). destruct A as (A1 & A2 & _).
    destruct r; try (split; [exact A1|intros; discriminate]).
    rewrite (A2 eq_refl). apply (IH v U X); auto. intros x Hx. apply Hids. right. exact Hx.
Qed.

(* ---------------------------------------------------------------- allocPage *)

(* the result of the block creation attempts: no panic, and a created block is there and large enough *)
Definition created_ok (v : vam) (lr : lref) (size : Z) (r : out Z) : Prop :=
  npu r /\ forall bid, r = OK bid -> exists nb, get_block v lr bid = Some nb /\ size <= meta_size (bk_meta nb).

Lemma create_block_created v0 v U X s lr size nbs :
  VamBalStep.keeps c ms0 G v0 v U X s -> (exists l, get_blist v0 lr = Some l) -> 0 <= nbs < 2 ^ 62 -> size <= nbs ->
  let '(v', r) := create_block c v lr nbs in created_ok v' lr size r.
Proof.
  intros (K1 & _ & K3 & _) (l0 & Hg0) Hn Hle. destruct (lf_some _ _ K3 _ _ Hg0) as (l & Hg & _).
  pose proof (create_block_np v U X lr l nbs K1 Hg Hn) as P. destruct (create_block c v lr nbs) as (v1 & r).
  destruct P as (P1 & P2). split; [exact P1|]. intros bid E. destruct (P2 bid E) as (nb & Hnb & Hsz). exists nb. split; [exact Hnb|lia].
Qed.

Lemma retry_create_np fuel : forall v0 v U X s lr nbs shift size freeMemory canFallback last,
  VamBalStep.keeps c ms0 G v0 v U X s -> (exists l, get_blist v0 lr = Some l) -> 0 <= nbs < 2 ^ 62 -> created_ok v lr size last ->
  let '(v', r) := retry_create c fuel v lr nbs shift size freeMemory canFallback last in created_ok v' lr size r.
Proof.
  induction fuel as [|f IH]; intros v0 v U X s lr nbs shift size fm cf last K Hl Hn Hlast; cbn [retry_create]; [exact Hlast|].
  destruct last; try exact Hlast. destruct (3 <=? shift); [exact Hlast|]. destruct (size <=? Z.quot nbs 2) eqn:Esz; [|exact Hlast].
  apply Z.leb_le in Esz. pose proof (VamMapStep.quot2_bound c Hc Hmax Hlarge nbs Hn) as Hq.
  destruct (_ || _).
  - pose proof (VamBalStep.create_block_keeps c Hc Hmax Hlarge ms0 G v0 v U X s lr (Z.quot nbs 2) K Hq) as C.
    pose proof (create_block_created v0 v U X s lr size (Z.quot nbs 2) K Hl Hq Esz) as C2.
    destruct (create_block c v lr (Z.quot nbs 2)) as (v1 & r). apply (IH v0 v1 U X s); auto.
  - apply (IH v0 v U X s); auto.
Qed.

Lemma shrink_new_block_ge fuel : forall nbs shift maxE size, 0 <= size -> size <= nbs ->
  size <= fst (shrink_new_block fuel nbs shift maxE size).
Proof.
  clear G. induction fuel as [|f IH]; intros nbs shift maxE size H0 Hle; cbn [shrink_new_block]; [exact Hle|].
  destruct ((maxE <? Z.quot nbs 2) && (size * 2 <=? Z.quot nbs 2)) eqn:E; [|exact Hle].
  apply andb_true_iff in E. destruct E as (_ & E). apply Z.leb_le in E. apply IH; lia.
Qed.

Lemma search_order_ids l flags bid : In bid (search_order c l flags) -> exists b, In b (bl_blocks l) /\ bk_id b = bid.
Proof.
  unfold search_order. destruct (bl_algo l =? 2).
  - destruct (rev (bl_blocks l)) as [|b t] eqn:E; [intros []|]. intros [<-|[]]. exists b. split; [|reflexivity]. apply in_rev. rewrite E. left. reflexivity.
  - destruct (negb (fl flags F_MINTIME)).
    + destruct (host_visible c (bl_type l)).
      * intros H. apply in_map_iff in H. destruct H as (b & <- & Hb). exists b. split; [|reflexivity].
        apply in_app_iff in Hb. destruct Hb as [Hb|Hb]; apply filter_In in Hb; apply Hb.
      * intros H. apply in_map_iff in H. destruct H as (b & <- & Hb). eauto.
    + intros H. apply in_map_iff in H. destruct H as (b & <- & Hb). exists b. split; [|reflexivity]. apply in_rev. exact Hb.
Qed.

Lemma alloc_page_np v U X lr l size align flags sub s :
  VamInvB v U X -> Bits.pow2 align -> min_ok v lr align -> 0 <= s < zlen (v_tab v) -> a_allocated (get_alloc v s) = false ->
  get_blist v lr = Some l -> mapped_ok flags -> 0 <= size ->
  npu (snd (alloc_page c v lr size align flags sub s)).
Proof.
  intros HI Hal Hmin Hs Hdead Hg Hmo Hsz0. unfold alloc_page. rewrite Hg.
  pose proof (VamBalStep.heap_budget_sameX c Hc Hmax Hlarge (v_m v) (type_heap c (bl_type l))) as Hb.
  destruct (heap_budget c (v_m v) (type_heap c (bl_type l))) as ((m1 & usage) & budget). cbn [fst] in Hb.
  assert (K1 : VamBalStep.keeps c ms0 G v (set_m v m1) U X s).
  { split; [apply (VamBalStep.VamInvB_mach_same c Hc Hmax Hlarge ms0 G); auto|]. split; [apply tab_frame_set_m|]. split; [apply lists_frame_set_m|auto]. }
  destruct (_ && _); [apply npu_er|]. destruct (bl_pref l <? size) eqn:Epref; [apply npu_er|]. apply Z.ltb_ge in Epref.
  pose proof (ai_pref _ _ _ (vb_aa _ _ _ HI) _ _ Hg) as Hpref.
  pose proof K1 as (I1 & T1 & L1 & D1).
  assert (Hs1 : 0 <= s < zlen (v_tab (set_m v m1))) by (cbn; auto).
  pose proof (bw_nodup _ _ (vi_lists _ _ _ _ (vb_s _ _ _ HI) _ _ Hg)) as Hnd.
  assert (Hids : forall bid, In bid (search_order c l flags) -> get_block (set_m v m1) lr bid <> None).
  { intros bid Hin. destruct (search_order_ids l flags bid Hin) as (b0 & Hb0 & <-). unfold get_block. rewrite get_blist_set_m, Hg.
    rewrite (in_find_block _ _ Hnd Hb0). discriminate. }
  pose proof (VamBalStep.try_blocks_inv c Hc Hmax Hlarge ms0 G (search_order c l flags) (set_m v m1) U X lr size align flags sub s I1 Hal (min_ok_frame _ _ _ _ L1 Hmin) Hs1 D1) as TB.
  pose proof (try_blocks_np (search_order c l flags) (set_m v m1) U X lr size align flags sub s I1 Hal Hids Hmo) as TN.
  destruct (try_blocks c (set_m v m1) lr (search_order c l flags) size align flags sub s) as (v2 & r).
  destruct TN as ((TN1 & TN2) & _).
  pose proof (VamBalStep.af_keeps c Hc Hmax Hlarge ms0 G _ _ _ _ _ _ _ TB) as TK.
  destruct r; cbn [snd]; try apply npu_ok; try apply npu_er; try congruence.
  (* no block fits: a new block *)
  pose proof (VamBalStep.keeps_trans c Hc Hmax Hlarge ms0 G _ _ _ _ _ _ K1 TK) as K2. clear TB TK.
  destruct (negb _); [apply npu_er|].
  assert (Hl0 : exists l0, get_blist v lr = Some l0) by eauto.
  assert (Hnbs : 0 <= fst (if bl_explicit l then (bl_pref l, 0) else shrink_new_block 3 (bl_pref l) 0 (calc_max_block_size l) size) < 2 ^ 62 /\
                 size <= fst (if bl_explicit l then (bl_pref l, 0) else shrink_new_block 3 (bl_pref l) 0 (calc_max_block_size l) size)).
  { destruct (bl_explicit l); [split; [exact Hpref|exact Epref]|].
    split; [apply (VamMapStep.shrink_new_block_bound c Hc Hmax Hlarge); exact Hpref|apply shrink_new_block_ge; auto]. }
  destruct (if bl_explicit l then (bl_pref l, 0) else shrink_new_block 3 (bl_pref l) 0 (calc_max_block_size l) size) as (nbs & shift). cbn [fst] in Hnbs.
  destruct Hnbs as (Hnbs & Hge).
  match goal with |- context [if ?cond then create_block c v2 lr nbs else (v2, ER VK_OODM)] =>
    assert (K3 : let '(v3, first) := (if cond then create_block c v2 lr nbs else (v2, ER VK_OODM)) in
                 VamBalStep.keeps c ms0 G v v3 U X s /\ created_ok v3 lr size first);
    [destruct cond;
      [pose proof (VamBalStep.create_block_keeps c Hc Hmax Hlarge ms0 G v v2 U X s lr nbs K2 Hnbs) as C;
       pose proof (create_block_created v v2 U X s lr size nbs K2 Hl0 Hnbs Hge) as C2;
       destruct (create_block c v2 lr nbs) as (v3 & first); split; assumption
      |split; [exact K2|split; [apply npu_er|intros; discriminate]]]|
     destruct (if cond then create_block c v2 lr nbs else (v2, ER VK_OODM)) as (v3 & first)]
  end.
  destruct K3 as (K3 & C3).
  match goal with |- context [if bl_explicit l then (v3, first) else ?rc] =>
    assert (K4 : let '(v4, created) := (if bl_explicit l then (v3, first) else rc) in
                 VamBalStep.keeps c ms0 G v v4 U X s /\ created_ok v4 lr size created);
    [destruct (bl_explicit l); [split; assumption|];
     pose proof (VamBalStep.retry_create_inv c Hc Hmax Hlarge ms0 G 3 v v3 U X s lr nbs shift size (if budget - usage <? 0 then 0 else budget - usage)
                   (negb false && negb (fl flags F_NEVER)) first K3 Hnbs) as R1;
     pose proof (retry_create_np 3 v v3 U X s lr nbs shift size (if budget - usage <? 0 then 0 else budget - usage)
                   (negb false && negb (fl flags F_NEVER)) first K3 Hl0 Hnbs C3) as R2;
     destruct (retry_create c 3 v3 lr nbs shift size _ _ first) as (v4 & created); split; assumption|
     destruct (if bl_explicit l then (v3, first) else rc) as (v4 & created)]
  end.
  destruct K4 as (K4 & (C4n & C4)).
  destruct created as [bid|code| |]; [|apply npu_er|destruct C4n; congruence|destruct C4n; congruence].
  destruct (C4 bid eq_refl) as (nb & Hgnb & Hsz). rewrite Hgnb.
  destruct (meta_size (bk_meta nb) <? size) eqn:E; [apply Z.ltb_lt in E; lia|].
  pose proof K4 as (I4 & T4 & L4 & D4).
  assert (Hs4 : 0 <= s < zlen (v_tab v4)) by (destruct T4 as (E4 & _); lia).
  pose proof (VamBalStep.alloc_from_block_inv c Hc Hmax Hlarge ms0 G v4 U X lr bid size align flags sub s I4 Hal (min_ok_frame _ _ _ _ L4 Hmin) Hs4 D4) as AF.
  pose proof (alloc_from_block_np v4 U X lr bid size align flags sub s nb I4 Hal Hgnb Hmo) as AN.
  destruct (alloc_from_block c v4 lr bid size align flags sub s) as (v5 & r2). destruct AN as ((AN1 & AN2) & AN3 & AN4).
  pose proof (VamBalStep.af_keeps c Hc Hmax Hlarge ms0 G _ _ _ _ _ _ _ AF) as AK.
  (* giving the new block back *)
  assert (Hgive : forall code2, VamBalStep.keeps c ms0 G v4 v5 U X s -> (exists b5, get_block v5 lr bid = Some b5) ->
    npu (snd (let '(v6, dr) :=
          match get_blist v5 lr, get_block v5 lr bid with
          | Some l5, Some b5 =>
            if meta_is_empty (bk_meta b5) && (bl_min l5 <? zlen (bl_blocks l5)) then
              let v5' := set_blist v5 lr (set_blocks l5 (remove_block (bl_blocks l5) bid)) in
              match destroy_block c v5' (bl_type l5) b5 with
              | (v', OK _) => (v', OK tt)
              | (v', STUCK) => (v', STUCK)
              | (v', _) => (v', PANIC)
              end
            else (v5, OK tt)
          | _, _ => (v5, STUCK)
          end in
      (v6, (match dr with OK _ => ER code2 | ER code => ER code | PANIC => PANIC | STUCK => STUCK end : out unit))))).
  { intros code2 (I5 & _ & _ & _) (b5 & Hgb5). rewrite Hgb5.
    destruct (get_block_in _ _ _ _ Hgb5) as (l5 & Hg5 & Hb5 & Hid5). rewrite Hg5.
    destruct (meta_is_empty (bk_meta b5)) eqn:He; cbn [andb]; [|apply npu_er].
    destruct (bl_min l5 <? zlen (bl_blocks l5)); [|apply npu_er].
    pose proof (remove_destroy_ok v5 U X lr l5 b5 (set_blocks l5 (remove_block (bl_blocks l5) bid)) I5 Hg5 Hb5 He) as RD.
    destruct (destroy_block c _ (bl_type l5) b5) as (v6 & dr). cbn [snd] in RD. subst dr. apply npu_er. }
  destruct r2; cbn [snd]; try apply npu_ok; try congruence.
  - assert (E5 : v5 = v4) by (apply AN3; reflexivity). subst v5.
    specialize (Hgive VK_OODM (VamBalStep.keeps_refl c Hc Hmax Hlarge ms0 G v4 U X s I4 D4) (ex_intro _ nb Hgnb)).
    destruct (match get_blist v4 lr with Some _ => _ | None => _ end) as (v6 & dr). destruct dr; exact Hgive.
  - specialize (Hgive code AK (AN4 code eq_refl)).
    destruct (match get_blist v5 lr with Some _ => _ | None => _ end) as (v6 & dr). destruct dr; exact Hgive.
Qed.


(* ---------------------------------------------------------------- freeWithLock *)

Notation sameA := (mach_sameA c).
Notation AMc := (AM c).

(* Free of a block allocation without outstanding user maps always succeeds *)
Lemma bl_free_ok v U X s a keep :
  VamInvB v U X -> slot_is v s a -> ~ In s X -> a_kind a = 1 -> G s = 0 ->
  snd (bl_free c v (a_lref a) s keep) = OK tt.
Proof.
  intros HIB Hsl HnX Hk HG0. pose proof (vb_s _ _ _ HIB) as HI. pose proof (vb_b _ _ _ HIB) as HB.
  pose proof (AInv_AM c Hc Hmax Hlarge _ _ (vb_aa _ _ _ HIB)) as HM.
  unfold bl_free. rewrite (get_alloc_slot _ _ _ Hsl).
  destruct (vi_slots _ _ _ _ HI s a Hsl HnX) as [(_ & l & b & rg & Hg & Hb & Hid & Hrg & Hh & Htag & _ & _ & Hmem & Hty)|(K & _)]; [|congruence].
  pose proof (vi_lists _ _ _ _ HI _ _ Hg) as Hwf. pose proof (bw_nodup _ _ Hwf) as Hnd.
  pose proof (bw_meta _ _ Hwf) as Hmeta. rewrite Forall_forall in Hmeta. pose proof (Hmeta _ Hb) as Hmi.
  assert (Hgb : get_block v (a_lref a) (a_blk a) = Some b).
  { unfold get_block. rewrite Hg, <- Hid. apply in_find_block; auto. }
  rewrite Hg, Hgb.
  pose proof (heap_budget_sameA c Hc Hmax Hlarge (v_m v) (type_heap c (bl_type l))) as Hbud.
  destruct (heap_budget c (v_m v) (type_heap c (bl_type l))) as ((m1 & usage) & budget). cbn [fst] in Hbud.
  (* the reference of a persistently mapped allocation is there to be dropped *)
  assert (Hrefs : a_persist a = true -> 1 <= SyncMem.mapRefs (bk_sm b)).
  { intros Hp. rewrite (bb_blocks _ _ _ HB _ _ _ Hg Hb).
    pose proof (refs_truth_ge v G X (bk_mem b) s (bb_G _ _ _ HB) (slot_is_range _ _ _ Hsl)) as Hge.
    rewrite (users_live v G X (bk_mem b) s ltac:(rewrite (get_alloc_slot _ _ _ Hsl); exact (proj2 Hsl)) HnX
               ltac:(rewrite (get_alloc_slot _ _ _ Hsl); exact Hk) ltac:(rewrite (get_alloc_slot _ _ _ Hsl); exact Hmem)) in Hge.
    rewrite (get_alloc_slot _ _ _ Hsl) in Hge. unfold pcount in Hge. rewrite Hp in Hge. pose proof (bb_G _ _ _ HB s). lia. }
  assert (Hun : forall m2 s2 (ur : out unit), (if a_persist a then sm_unmap m1 (bk_mem b) (bk_sm b) else (m1, bk_sm b, OK tt)) = (m2, s2, ur) ->
            sameA m1 m2 /\ ur = OK tt).
  { intros m2 s2 ur E. destruct (a_persist a).
    - pose proof (sm_unmap_sameA c Hc Hmax Hlarge m1 (bk_mem b) (bk_sm b)) as H. pose proof (sm_unmap_refs m1 (bk_mem b) (bk_sm b) (Hrefs eq_refl)) as R.
      rewrite E in H, R. destruct R as (-> & _). auto.
    - injection E as <- _ <-. split; [apply (mach_sameA_refl c Hc Hmax Hlarge)|reflexivity]. }
  destruct (if a_persist a then sm_unmap m1 (bk_mem b) (bk_sm b) else (m1, bk_sm b, OK tt)) as ((m2 & s2) & ur) eqn:Eun.
  destruct (Hun _ _ _ eq_refl) as (Hun1 & ->). pose proof (mach_sameA_trans c Hc Hmax Hlarge _ _ _ Hbud Hun1) as Hm02.
  set (v2 := put_block (set_m v m2) (a_lref a) (mkBlock (bk_id b) (bk_mem b) s2 (bk_meta b))).
  assert (Em2 : v_m v2 = m2) by (unfold v2; rewrite put_block_m; reflexivity).
  assert (Et2 : v_tab v2 = v_tab v) by (unfold v2; rewrite put_block_tab; reflexivity).
  destruct (meta_free_spec (bk_meta b) (a_handle a) Hmi (ex_intro _ rg (conj Hrg Hh))) as (mt' & Hfree & Hmi' & Hsz' & _).
  rewrite Hfree.
  pose proof (sm_sub_sameA c Hc Hmax Hlarge (v_m v2) (bk_mem b) s2) as Hsub.
  destruct (sm_sub (v_m v2) (bk_mem b) s2) as (m3 & s3). cbn [fst] in Hsub. rewrite Em2 in Hsub.
  pose proof (mach_sameA_trans c Hc Hmax Hlarge _ _ _ Hm02 Hsub) as Hm03.
  set (b' := mkBlock (bk_id b) (bk_mem b) s3 mt').
  set (bs3 := replace_block (bl_blocks l) b').
  match goal with |- context [if ?cnd then (remove_block bs3 (bk_id b'), Some b') else ?rest] =>
    destruct (if cnd then (remove_block bs3 (bk_id b'), Some b') else rest) as (bs4 & toDelete) eqn:Etd end.
  assert (Hdel : forall db, toDelete = Some db -> (db = b' \/ In db bs3) /\ meta_is_empty (bk_meta db) = true).
  { intros db ->. revert Etd. match goal with |- (if ?cnd then _ else _) = _ -> _ => destruct cnd eqn:Ec1 end.
    - intros E; injection E as _ <-. split; [auto|]. apply andb_true_iff in Ec1. destruct Ec1 as (Ec1 & _). apply andb_true_iff in Ec1. apply Ec1.
    - match goal with |- (if ?cnd then _ else _) = _ -> _ => destruct cnd end; [|intros E; discriminate].
      destruct (rev bs3) as [|lastb rest] eqn:Erev; [intros E; discriminate|].
      destruct (meta_is_empty (bk_meta lastb)) eqn:El; [|intros E; discriminate].
      intros E; injection E as _ <-. split; [|exact El]. right. apply in_rev. rewrite Erev. left. reflexivity. }
  set (v3 := set_blist (set_m v2 m3) (a_lref a) (incrementally_sort (set_blocks l bs4))).
  assert (Em3 : v_m v3 = m3) by (unfold v3; rewrite set_blist_m; reflexivity).
  assert (Et3 : v_tab v3 = v_tab v) by (unfold v3; rewrite set_blist_tab; exact Et2).
  assert (HM3 : AMc v3 X) by (eapply (AM_tab c Hc Hmax Hlarge); [exact HM|exact Et3|rewrite Em3; exact Hm03]).
  assert (Sa3 : slot_is v3 s a) by (unfold slot_is in *; rewrite Et3; exact Hsl).
  (* the closing RemoveAllocation *)
  assert (Hrem : forall v4, AMc v4 X -> v_tab v4 = v_tab v3 ->
            snd (remove_allocation c (v_m v4) (type_heap c (bl_type l)) (a_size a)) = OK tt).
  { intros v4 (A4 & D4) Et. assert (Sa4 : slot_is v4 s a) by (unfold slot_is in *; rewrite Et; exact Sa3).
    pose proof (remove_allocation_MB c Hc Hmax Hlarge (v_m v4) _ (allocs_truth c v4 (s :: X)) _ _ A4 (allocs_truth_release c Hc Hmax Hlarge v4 X s a Sa4 HnX)) as R.
    rewrite Hty in R. destruct (remove_allocation c (v_m v4) (type_heap c (bl_type l)) (a_size a)) as (m5 & rr). apply R. }
  destruct toDelete as [db|].
  - destruct (Hdel db eq_refl) as (Hdb & Hedb).
    assert (Hsrc : exists b0, In b0 (bl_blocks l) /\ bk_mem db = bk_mem b0 /\ meta_size (bk_meta db) = meta_size (bk_meta b0)).
    { destruct Hdb as [->|Hin]; [exists b; cbn; auto|].
      destruct (replace_block_cases _ _ _ Hin) as [->|Hin']; [exists b; cbn; auto|exists db; auto]. }
    destruct Hsrc as (b0 & Hb0 & Emem & Esz).
    destruct (vi_block_mem _ _ _ _ HI _ _ _ Hg Hb0) as (d & Hf & Hdt & Hds).
    destruct (mems_same_find _ _ _ _ (proj1 (proj1 Hm03)) Hf) as (d' & Hf' & Hk').
    unfold mem_key in Hk'. injection Hk' as _ K2 K3.
    pose proof (destroy_block_ok v3 X (bl_type l) db d' HM3 ltac:(rewrite Em3, Emem; exact Hf') ltac:(rewrite K2, Hdt; reflexivity) ltac:(rewrite K3, Esz; auto) Hedb) as D.
    pose proof (destroy_block_AM c Hc Hmax Hlarge v3 X (bl_type l) db d' HM3 ltac:(rewrite Em3, Emem; exact Hf') ltac:(rewrite K2, Hdt; reflexivity) ltac:(rewrite K3, Esz; auto)) as DA.
    destruct (destroy_block c v3 (bl_type l) db) as (v4 & r0). cbn [snd] in D. subst r0. destruct DA as (A4 & _ & T4).
    specialize (Hrem v4 A4 T4). destruct (remove_allocation c (v_m v4) (type_heap c (bl_type l)) (a_size a)) as (m5 & rr). exact Hrem.
  - specialize (Hrem v3 HM3 eq_refl). destruct (remove_allocation c (v_m v3) (type_heap c (bl_type l)) (a_size a)) as (m5 & rr). exact Hrem.
Qed.


(* ---------------------------------------------------------------- the loops of Allocate *)

Lemma unwind_loop_ok done : forall v U X lr,
  VamInvB v U X -> block_slots v lr X done -> (forall s, In s done -> G s = 0) ->
  snd (unwind_loop c v lr done) = OK tt.
Proof.
  induction done as [|s tl IH]; intros v U X lr HI (Hnd & Hbs) HG0; cbn [unwind_loop]; [reflexivity|].
  inversion Hnd as [|? ? Hs Hnd']; subst.
  destruct (Hbs s (or_introl eq_refl)) as (HX & a & Sa & Ka & La).
  pose proof (VamBalStep.free_block_slot_inv c Hc Hmax Hlarge ms0 G v U X s a true HI Sa HX Ka (HG0 s (or_introl eq_refl))) as F.
  pose proof (bl_free_ok v U X s a true HI Sa HX Ka (HG0 s (or_introl eq_refl))) as E. rewrite La in F, E.
  destruct (bl_free c v lr s true) as (v1 & r). cbn [snd] in E. subst r.
  destruct F as (K1 & D1). set (v1' := set_alloc v1 s (set_allocated (get_alloc v1 s) false)) in *.
  apply (IH v1' U X lr (proj1 K1)); [|intros x Hx; apply HG0; right; exact Hx].
  eapply block_slots_frame with (v := v) (S := [s]); [split; [auto|]; intros; apply Hbs; right; auto|apply K1|].
  intros s1 H1 [<-|[]]. contradiction.
Qed.

Lemma release_loop_ok ids : forall v U X lr firstId,
  VamInvB v U X -> NoDup ids ->
  (forall bid, In bid ids -> exists l b, get_blist v lr = Some l /\ In b (bl_blocks l) /\ bk_id b = bid) ->
  (exists l, get_blist v lr = Some l) ->
  snd (release_loop c v lr ids firstId) = OK tt.
Proof.
  induction ids as [|bid tl IH]; intros v U X lr firstId HI Hnd Hids (l & Hg); cbn [release_loop]; [reflexivity|].
  rewrite Hg. inversion Hnd as [|? ? Hn1 Hnd']; subst.
  destruct (negb _); [reflexivity|].
  destruct (Hids bid (or_introl eq_refl)) as (l0 & b & Hg0 & Hb & Hid). assert (l0 = l) by congruence. subst l0.
  pose proof (bw_nodup _ _ (vi_lists _ _ _ _ (vb_s _ _ _ HI) _ _ Hg)) as Hndl.
  rewrite <- Hid, (in_find_block _ _ Hndl Hb).
  assert (Hrest : forall x, In x tl -> exists l1 b1, get_blist v lr = Some l1 /\ In b1 (bl_blocks l1) /\ bk_id b1 = x) by (intros x Hx; apply Hids; right; exact Hx).
  destruct ((bk_id b <? firstId) || negb (meta_is_empty (bk_meta b))) eqn:Ec; [apply (IH v U X); eauto|].
  apply orb_false_iff in Ec. destruct Ec as (_ & Ee). apply negb_false_iff in Ee.
  pose proof (VamBalStep.remove_destroy_inv c Hc Hmax Hlarge ms0 G v U X lr l b HI Hg Hb Ee) as RD. cbn zeta in RD.
  pose proof (remove_destroy_ok v U X lr l b (set_blocks l (remove_block (bl_blocks l) (bk_id b))) HI Hg Hb Ee) as RO.
  pose proof (VamBalStep.destroy_block_obs c Hc Hmax Hlarge (set_blist v lr (set_blocks l (remove_block (bl_blocks l) (bk_id b)))) (bl_type l) b) as (_ & Obs).
  destruct (destroy_block c _ (bl_type l) b) as (v2 & dr). cbn [snd fst] in *. subst dr.
  destruct RD as (I2 & _ & _).
  assert (Hg2 : get_blist v2 lr = Some (set_blocks l (remove_block (bl_blocks l) (bk_id b)))) by (rewrite Obs; eapply get_set_blist_same; eauto).
  apply (IH v2 U X); [exact I2|exact Hnd'| |eauto].
  intros x Hx. destruct (Hrest x Hx) as (l1 & b1 & Hg1 & Hb1 & Hid1). assert (l1 = l) by congruence. subst l1.
  exists (set_blocks l (remove_block (bl_blocks l) (bk_id b))), b1. split; [exact Hg2|]. split; [|exact Hid1]. cbn.
  apply remove_block_keeps; [exact Hb1|]. rewrite Hid1. intros E. apply Hn1. rewrite <- Hid, <- E. exact Hx.
Qed.

Lemma release_empty_since_ok v U X lr l firstId :
  VamInvB v U X -> get_blist v lr = Some l -> snd (release_empty_since c v lr firstId) = OK tt.
Proof.
  intros HI Hg. unfold release_empty_since. rewrite Hg.
  pose proof (bw_nodup _ _ (vi_lists _ _ _ _ (vb_s _ _ _ HI) _ _ Hg)) as Hnd.
  apply (release_loop_ok _ v U X); [exact HI| | |eauto].
  - rewrite map_rev. apply NoDup_rev. exact Hnd.
  - intros bid Hin. apply in_map_iff in Hin. destruct Hin as (b & <- & Hb). exists l, b. split; [exact Hg|]. split; [apply in_rev; exact Hb|reflexivity].
Qed.

Lemma allocate_loop_np slots : forall v U X lr l done size align flags sub,
  VamInvB v U X -> Bits.pow2 align -> min_ok v lr align -> NoDup (slots ++ done) ->
  dead_slots v slots -> block_slots v lr X done -> (forall s, In s done -> G s = 0) ->
  get_blist v lr = Some l -> mapped_ok flags -> 0 <= size ->
  npu (snd (fst (allocate_loop c v lr slots done size align flags sub))).
Proof.
  induction slots as [|s tl IH]; intros v U X lr l done size align flags sub HI Hal Hmin Hnd Hdead Hdone HG0 Hg Hmo Hsz; cbn [allocate_loop]; [apply npu_ok|].
  destruct (Hdead s (or_introl eq_refl)) as (Hr & Hd).
  pose proof (VamBalStep.alloc_page_inv c Hc Hmax Hlarge ms0 G v U X lr size align flags sub s HI Hal Hmin Hr Hd) as AP.
  pose proof (alloc_page_np v U X lr l size align flags sub s HI Hal Hmin Hr Hd Hg Hmo Hsz) as AN.
  destruct (alloc_page c v lr size align flags sub s) as (v1 & r). cbn [snd] in AN.
  cbn [app] in Hnd. inversion Hnd as [|? ? Hns Hnd']; subst.
  destruct r as [[]|code| |]; cbn [fst snd]; try exact AN.
  cbn [VamBalStep.ap_post] in AP. destruct AP as (I1 & T1 & L1 & (a & Sa & Ka & La)).
  destruct (lf_some _ _ L1 _ _ Hg) as (l1 & Hg1 & _).
  apply (IH v1 U X lr l1); auto.
  - apply (min_ok_frame _ _ _ _ L1 Hmin).
  - eapply Permutation.Permutation_NoDup; [apply Permutation.Permutation_middle|exact Hnd].
  - eapply dead_slots_frame; [intros s1 H1; apply Hdead; right; exact H1|exact T1|]. intros s1 H1 [<-|[]]. apply Hns. apply in_app_iff. auto.
  - assert (Hd1 : block_slots v1 lr X done).
    { eapply block_slots_frame; [exact Hdone|exact T1|]. intros s1 H1 [<-|[]]. apply Hns. apply in_app_iff. auto. }
    destruct Hd1 as (Hndd & Hd1). split; [constructor; [intros H; apply Hns; apply in_app_iff; auto|auto]|].
    intros s1 [<-|H1]; [|apply Hd1; auto]. split; [|eauto].
    intros HX. destruct (vi_dang _ _ _ _ (vb_s _ _ _ HI) _ HX) as (a2 & S2 & _). rewrite (get_alloc_slot _ _ _ S2) in Hd. destruct S2. congruence.
  - intros x [<-|Hx]; [apply (bb_G0 _ _ _ (vb_b _ _ _ HI)); exact Hd|auto].
Qed.

(* memoryBlockList.Allocate *)
Lemma bl_allocate_np v U X lr l slots size align0 flags sub :
  VamInvB v U X -> align0 = 0 \/ Bits.pow2 align0 -> NoDup slots -> dead_slots v slots ->
  get_blist v lr = Some l -> mapped_ok flags -> 0 <= size ->
  npu (snd (bl_allocate c v lr slots size align0 flags sub)).
Proof.
  intros HI Hal Hnd Hdead Hg Hmo Hsz. unfold bl_allocate. rewrite Hg.
  pose proof (vi_lists _ _ _ _ (vb_s _ _ _ HI) _ _ Hg) as Hwf.
  assert (Hal' : Bits.pow2 (if align0 <? bl_minalign l then bl_minalign l else align0)).
  { pose proof (bw_align _ _ Hwf) as Hm. pose proof (Bits.pow2_pos _ Hm). destruct (align0 <? bl_minalign l) eqn:E; [auto|].
    destruct Hal as [->|H']; [apply Z.ltb_ge in E; lia|auto]. }
  assert (Hnd0 : NoDup (slots ++ [])) by (rewrite app_nil_r; auto).
  assert (Hbs0 : block_slots v lr X []) by (split; [constructor|intros ? []]).
  assert (Hmin0 : min_ok v lr (if align0 <? bl_minalign l then bl_minalign l else align0)).
  { intros l' G'. rewrite Hg in G'. injection G' as <-. destruct (align0 <? bl_minalign l) eqn:E; [lia|apply Z.ltb_ge in E; lia]. }
  pose proof (VamBalStep.allocate_loop_inv c Hc Hmax Hlarge ms0 G slots v U X lr [] size _ flags sub HI Hal' Hmin0 Hnd0 Hdead Hbs0 ltac:(intros ? [])) as AL.
  pose proof (allocate_loop_np slots v U X lr l [] size _ flags sub HI Hal' Hmin0 Hnd0 Hdead Hbs0 ltac:(intros ? []) Hg Hmo Hsz) as AN.
  destruct (allocate_loop c v lr slots [] size _ flags sub) as ((v1 & r) & done). cbn [fst snd] in AN.
  destruct r as [[]|code| |]; cbn [snd]; try exact AN.
  destruct AL as (K1 & B1 & _ & Q1 & Z1 & O1).
  pose proof (VamBalStep.unwind_loop_inv c Hc Hmax Hlarge ms0 G done v1 U X lr (proj1 K1) B1 Z1) as UW.
  pose proof (unwind_loop_ok done v1 U X lr (proj1 K1) B1 Z1) as UO.
  destruct (unwind_loop c v1 lr done) as (v2 & ur). cbn [snd] in UO. subst ur. destruct UW as (K2 & D2).
  destruct K1 as (_ & _ & L1). destruct K2 as (I2 & _ & L2).
  destruct (lf_some _ _ L1 _ _ Hg) as (l1 & Hg1 & _). destruct (lf_some _ _ L2 _ _ Hg1) as (l2 & Hg2 & _).
  pose proof (release_empty_since_ok v2 U X lr l2 (bl_next l) I2 Hg2) as RO.
  destruct (release_empty_since c v2 lr (bl_next l)) as (v3 & rr). cbn [snd] in RO. subst rr. apply npu_er.
Qed.

(* ---------------------------------------------------------------- memoryBlockList.Destroy, CreateMinBlocks *)

Lemma bl_destroy_np v U X lr l :
  VamInvB v U X -> get_blist v lr = Some l -> npu (snd (bl_destroy c v lr)).
Proof.
  intros HI Hg. unfold bl_destroy. rewrite Hg. destruct (existsb _ _); [apply npu_er|].
  pose proof (vb_s _ _ _ HI) as HU. pose proof (vi_lists _ _ _ _ HU _ _ Hg) as Hwf.
  pose proof (destroy_blocks_AM c Hc Hmax Hlarge (bl_blocks l) v X (bl_type l) (AInv_AM c Hc Hmax Hlarge _ _ (vb_aa _ _ _ HI))) as D.
  match type of D with ?A -> ?B -> _ => assert (HA : A); [|assert (HB : B)] end.
  { eapply (VamMapStep.nodup_map_inj bk_id bk_mem); [apply (bw_nodup _ _ Hwf)|]. intros x y Hx Hy E.
    destruct (vi_block_mem_inj _ _ _ _ HU _ _ _ _ _ _ Hg Hx Hg Hy E) as (_ & Eid). exact Eid. }
  { intros b Hb. destruct (vi_block_mem _ _ _ _ HU _ _ _ Hg Hb) as (d & Hf & Hdt & Hds).
    exists d. split; [exact Hf|]. split; [rewrite Hdt; reflexivity|auto]. }
  specialize (D HA HB).
  destruct (VamInvStep.destroy_blocks_machine c (bl_blocks l) v (bl_type l)) as (m' & Em).
  destruct (destroy_blocks c v (bl_type l) (bl_blocks l)) as (v1 & r1). cbn [fst] in Em. subst v1.
  destruct r1 as [[]|code| |]; try contradiction; cbn [snd]; [|apply npu_er].
  rewrite get_blist_set_m, Hg. apply npu_ok.
Qed.

Lemma create_min_blocks_np n : forall v U X lr l size,
  VamInvB v U X -> get_blist v lr = Some l -> 0 <= size < 2 ^ 62 -> npu (snd (create_min_blocks c n v lr size)).
Proof.
  induction n as [|k IH]; intros v U X lr l size HI Hg Hsz; cbn [create_min_blocks]; [apply npu_ok|].
  pose proof (VamBalStep.create_block_inv c Hc Hmax Hlarge ms0 G v U X lr l size HI Hg Hsz) as C.
  pose proof (create_block_np v U X lr l size HI Hg Hsz) as N.
  destruct (create_block c v lr size) as (v1 & r). destruct N as (N1 & _). destruct C as (I1 & _ & L1).
  destruct r as [bid|code| |]; cbn [snd]; [|apply npu_er|destruct N1; congruence|destruct N1; congruence].
  destruct (lf_some _ _ L1 _ _ Hg) as (l1 & Hg1 & _). apply (IH v1 U X lr l1); auto.
Qed.

End WithCfg.
