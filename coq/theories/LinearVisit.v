(* LinearVisit.v — VisitAllRegions of the linear block metadata model: on a state satisfying LInv it
   never panics, the reported regions tile [0, size) and the non-free regions are exactly the live
   items in address order; AddStatistics / AddDetailedStatistics agree with the live items (C03). *)
From Coq Require Import ZArith List Bool Lia Permutation.
From Coq Require Import ZifyBool.
From Arsenal Require Import Util Bits Gran Linear LinearInv LinearAlloc LinearFree LinearStep.
Import ListNotations.
Open Scope Z_scope.
Ltac Zify.zify_post_hook ::= Z.div_mod_to_equations.

Definition region_of (s : sub) : region := (s_off s, s_size s, false, s_tag s).
Definition allocs (rs : list region) : list region := filter (fun r => negb (region_is_free r)) rs.

(* the regions lie one after another from lo to hi and none is empty *)
Fixpoint tiles (lo : Z) (rs : list region) (hi : Z) : Prop :=
  match rs with
  | [] => lo = hi
  | r :: rest => fst (fst (fst r)) = lo /\ 0 < region_size r /\ tiles (lo + region_size r) rest hi
  end.

Lemma tiles_app lo a mid b hi : tiles lo a mid -> tiles mid b hi -> tiles lo (a ++ b) hi.
Proof.
  revert lo; induction a as [|r a IH]; intros lo Ha Hb; cbn in *.
  - subst. exact Hb.
  - destruct Ha as (H1 & H2 & H3). auto.
Qed.

Lemma allocs_app a b : allocs (a ++ b) = allocs a ++ allocs b.
Proof. apply filter_app. Qed.

Lemma visit_items_spec items : forall lo limit,
  pos_sizes items -> chain lo items limit ->
  exists rs, visit_items items lo limit = (rs, limit) /\ tiles lo rs limit /\
             allocs rs = map region_of (lives items).
Proof.
  induction items as [|s r IH]; intros lo limit Hp Hc.
  - apply chain_nil in Hc. cbn [visit_items]. destruct (lo <? limit) eqn:E.
    + eexists. split; [reflexivity|]. split; [|reflexivity]. cbn. repeat split; lia.
    + assert (lo = limit) by lia. subst. exists []. repeat split.
  - apply pos_sizes_cons in Hp. destruct Hp as (Hs & Hp). apply chain_cons in Hc. destruct Hc as (Hlo & Hc).
    pose proof (chain_le _ _ _ Hp Hc) as Hle. cbn [visit_items].
    destruct (lo <? limit) eqn:E; [|lia]. destruct (is_free s) eqn:Ef.
    + destruct (IH lo limit Hp ltac:(eapply chain_weaken; [| |exact Hc]; lia)) as (rs & Hv & Ht & Ha).
      exists rs. rewrite lives_cons_free by assumption. auto.
    + destruct (IH (s_off s + s_size s) limit Hp Hc) as (rs & Hv & Ht & Ha). rewrite Hv.
      eexists. split; [reflexivity|]. rewrite lives_cons_live by assumption. cbn [map].
      destruct (lo <? s_off s) eqn:Eg.
      * split.
        -- cbn. repeat split; try lia. replace (lo + (s_off s - lo)) with (s_off s) by lia.
           replace (s_off s + s_size s) with (s_off s + s_size s) by lia. exact Ht.
        -- cbn. f_equal. exact Ha.
      * assert (lo = s_off s) by lia. subst lo. split.
        -- cbn. repeat split; try lia. exact Ht.
        -- cbn. f_equal. exact Ha.
Qed.

(* the live items in address order *)
Definition live_ordered (l : linear) : list sub := lives (order (l_mode l) (window l) (second l)).

Lemma live_ordered_perm l : Permutation (live_ordered l) (live l).
Proof.
  unfold live_ordered, live, order. destruct (l_mode l); rewrite lives_app.
  - apply Permutation_app_comm.
  - apply Permutation_app_comm.
  - apply Permutation_app_head. rewrite lives_rev. apply Permutation_sym, Permutation_rev.
Qed.

Theorem visit_regions_spec l :
  LInv l ->
  exists rs, visit_regions l = Some rs /\ tiles 0 rs (l_size l) /\
             allocs rs = map region_of (live_ordered l).
Proof.
  intros HI. pose proof HI as (HWI & HL). destruct (WInv_elim _ HWI) as (Hf & Hn & HW).
  pose proof (order_pos _ _ _ _ _ _ _ _ _ HW) as Hpo.
  assert (Hsuf : suffix_from (first l) (l_null_begin l) = Some (window l)).
  { rewrite Hf, <- Hn. apply suffix_from_app. }
  unfold visit_regions, visit_ring_part, visit_first_limit, visit_first_part, visit_upper_part, live_ordered.
  rewrite Hsuf. destruct HW. destruct (l_mode l) eqn:Hm; cbn [order] in *.
  - (* stack *)
    rewrite w_mode in * by reflexivity. cbn [app] in *.
    destruct (visit_items_spec (window l) 0 (l_size l) Hpo w_order) as (rs & -> & Ht & Ha).
    exists rs. rewrite !app_nil_r. cbn [app]. auto.
  - (* ring buffer *)
    destruct HL. specialize (l_ring eq_refl).
    assert (Hne : first l <> []) by (rewrite Hf; intros E; apply app_eq_nil in E; tauto).
    destruct (window_facts _ HI Hne) as (w & ws & Hw & Hnth & _). rewrite Hnth.
    apply pos_sizes_app in Hpo. destruct Hpo as (Hps & Hpw).
    apply chain_app in w_order. destruct w_order as (Hcs & Hcw).
    assert (Hc1 : chain 0 (second l) (s_off w)).
    { split; [exact Hcs|]. rewrite Hw in Hcw. apply chain_cons in Hcw. tauto. }
    assert (Hc2 : chain (s_off w) (window l) (l_size l)).
    { rewrite Hw in *. apply chain_cons in Hcw. apply chain_cons. split; [lia|tauto]. }
    destruct (visit_items_spec _ _ _ Hps Hc1) as (r1 & -> & Ht1 & Ha1).
    destruct (visit_items_spec _ _ _ Hpw Hc2) as (r2 & -> & Ht2 & Ha2).
    exists (r1 ++ r2 ++ []). split; [reflexivity|]. rewrite app_nil_r. split.
    + eapply tiles_app; eauto.
    + rewrite allocs_app, lives_app, map_app, Ha1, Ha2. reflexivity.
  - (* double stack *)
    destruct (double_facts _ HI Hm) as (sv0 & s & Hsv & _ & _ & _).
    rewrite Hsv, last_z_snoc. rewrite Hsv in *. rewrite rev_app_distr in *. cbn [rev app] in *.
    apply pos_sizes_app in Hpo. destruct Hpo as (Hpw & Hps).
    apply chain_app in w_order. destruct w_order as (Hcw & Hcs).
    assert (Hc1 : chain 0 (window l) (s_off s)).
    { split; [exact Hcw|]. apply chain_cons in Hcs. tauto. }
    assert (Hc2 : chain (s_off s) (s :: rev sv0) (l_size l)).
    { apply chain_cons in Hcs. apply chain_cons. split; [lia|tauto]. }
    destruct (visit_items_spec _ _ _ Hpw Hc1) as (r2 & -> & Ht2 & Ha2).
    destruct (visit_items_spec _ _ _ Hps Hc2) as (r3 & -> & Ht3 & Ha3).
    exists ([] ++ r2 ++ r3). split; [reflexivity|]. cbn [app]. split.
    + eapply tiles_app; eauto.
    + rewrite allocs_app, lives_app, map_app, Ha2, Ha3. reflexivity.
Qed.

(* ------------------------------------------------------------------ statistics *)

Lemma zlen_map {A B} (f : A -> B) v : zlen (map f v) = zlen v.
Proof. unfold zlen. rewrite map_length. reflexivity. Qed.

Lemma zlen_perm {A} (a b : list A) : Permutation a b -> zlen a = zlen b.
Proof. intros H. unfold zlen. rewrite (Permutation_length H). reflexivity. Qed.

Lemma sum_sizes_perm a b : Permutation a b -> sum_sizes a = sum_sizes b.
Proof. induction 1; cbn [sum_sizes]; lia. Qed.

Lemma used_bytes l : LInv l -> l_size l - l_sum_free l = sum_sizes (live l).
Proof.
  intros (HWI & _). destruct (WInv_elim _ HWI) as (_ & _ & HW). destruct HW. unfold live. lia.
Qed.

Theorem add_statistics_spec l :
  LInv l -> add_statistics l = Some (mkStats 1 (zlen (live l)) (l_size l) (sum_sizes (live l))).
Proof.
  intros HI. unfold add_statistics. destruct (visit_regions_spec l HI) as (rs & -> & _ & Ha).
  fold (allocs rs). rewrite Ha, zlen_map, (zlen_perm _ _ (live_ordered_perm l)), (used_bytes l HI). reflexivity.
Qed.

Definition sum_region_sizes (rs : list region) : Z := fold_right (fun r a => region_size r + a) 0 rs.

Lemma detailed_fold rs : forall d,
  let d' := fold_left (fun d r => if region_is_free r then d_add_unused d (region_size r)
                                  else d_add_alloc d (region_size r)) rs d in
  s_blocks (d_stats d') = s_blocks (d_stats d) /\
  s_block_bytes (d_stats d') = s_block_bytes (d_stats d) /\
  s_allocs (d_stats d') = s_allocs (d_stats d) + zlen (allocs rs) /\
  s_alloc_bytes (d_stats d') = s_alloc_bytes (d_stats d) + sum_region_sizes (allocs rs) /\
  d_unused_count d' = d_unused_count d + (zlen rs - zlen (allocs rs)).
Proof.
  induction rs as [|r rs IH]; intros d; cbn [fold_left].
  - cbn. repeat split; lia.
  - specialize (IH (if region_is_free r then d_add_unused d (region_size r) else d_add_alloc d (region_size r))).
    cbn zeta in *. destruct IH as (H1 & H2 & H3 & H4 & H5).
    rewrite H1, H2, H3, H4, H5. unfold allocs. cbn [filter]. rewrite !zlen_cons.
    destruct (region_is_free r); cbn [negb d_add_unused d_add_alloc d_stats d_unused_count s_blocks s_block_bytes s_allocs s_alloc_bytes];
      fold (allocs rs); rewrite ?zlen_cons; cbn [sum_region_sizes fold_right]; fold (sum_region_sizes (allocs rs));
      repeat split; lia.
Qed.

Lemma sum_region_sizes_of v : sum_region_sizes (map region_of v) = sum_sizes v.
Proof. induction v as [|s r IH]; cbn in *; [reflexivity|]. unfold sum_region_sizes in IH. rewrite IH. reflexivity. Qed.

Theorem add_detailed_statistics_spec l :
  LInv l ->
  exists d, add_detailed_statistics l = Some d /\
            d_stats d = mkStats 1 (zlen (live l)) (l_size l) (sum_sizes (live l)).
Proof.
  intros HI. unfold add_detailed_statistics. destruct (visit_regions_spec l HI) as (rs & -> & _ & Ha).
  eexists. split; [reflexivity|].
  pose proof (detailed_fold rs (mkDStats (mkStats 1 0 (l_size l) 0) 0 None 0 None 0)) as H. cbn zeta in H.
  destruct H as (H1 & H2 & H3 & H4 & _). cbn [d_stats s_blocks s_block_bytes s_allocs s_alloc_bytes] in *.
  rewrite Ha, zlen_map, (zlen_perm _ _ (live_ordered_perm l)) in H3.
  rewrite Ha, sum_region_sizes_of, (sum_sizes_perm _ _ (live_ordered_perm l)) in H4.
  destruct (d_stats _) as [bl al bb ab]. cbn in *. subst. f_equal; lia.
Qed.
