(* VamInvStep2.v — the invariant VamInvU is preserved by the allocator-level functions of Vam.v:
   dedicated allocations, allocateMemoryOfType, the memory-type loop, the free / map / unmap / flush calls,
   pools, Allocator.Destroy, resources; and finally by [step] for every operation and every fault oracle. *)
From Coq Require Import ZArith NArith List Bool Lia.
From Arsenal Require Util Bits SyncMem Budget Select.
From Arsenal Require Import VamDev VamBlockList VamDefrag Vam VamInvMeta VamInv VamInvUpd VamInvDev VamInvStep.
Import ListNotations.
Open Scope Z_scope.

(* ---------------------------------------------------------------- set_dedlist *)

Lemma get_blist_set_dedlist v lr d lr1 : get_blist (set_dedlist v lr d) lr1 = get_blist v lr1.
Proof.
  destruct lr as [t|uid]; cbn; [destruct lr1; reflexivity|].
  destruct (find_pool (v_pools v) uid) as [p|] eqn:E; [|reflexivity].
  destruct lr1 as [t1|uid1]; cbn; [reflexivity|]. destruct (find_pool_in _ _ _ E) as (_ & Hu). subst uid.
  destruct (Z.eq_dec uid1 (p_uid p)) as [->|Hne].
  - pose proof (find_replace_pool_same (v_pools v) (mkPool (p_uid p) (p_id p) (p_list p) d)) as H. cbn in H.
    rewrite H, E by congruence. reflexivity.
  - rewrite find_replace_pool_other by (cbn; congruence). reflexivity.
Qed.

Lemma get_dedlist_set_dedlist_same v lr l d : get_blist v lr = Some l -> length (v_ded v) = length (v_lists v) ->
  get_dedlist (set_dedlist v lr d) lr = d.
Proof.
  intros Hg Hlen. destruct lr as [t|uid]; cbn in *.
  - destruct (nth_z (v_lists v) t) as [x|] eqn:E; [|discriminate]. apply nth_z_some_range in E.
    rewrite nth_z_set_same; [reflexivity|]. unfold zlen in *. lia.
  - destruct (find_pool (v_pools v) uid) as [p|] eqn:E; [|discriminate]. cbn.
    destruct (find_pool_in _ _ _ E) as (_ & Hu). subst uid.
    pose proof (find_replace_pool_same (v_pools v) (mkPool (p_uid p) (p_id p) (p_list p) d)) as H. cbn in H.
    rewrite H by congruence. reflexivity.
Qed.

Lemma get_dedlist_set_dedlist_other v lr d lr1 : lr1 <> lr -> get_dedlist (set_dedlist v lr d) lr1 = get_dedlist v lr1.
Proof.
  intros Hne. destruct lr as [t|uid], lr1 as [t1|uid1]; cbn; try reflexivity.
  - rewrite nth_z_set_other; [reflexivity|congruence].
  - destruct (find_pool (v_pools v) uid); reflexivity.
  - destruct (find_pool (v_pools v) uid) as [p|] eqn:E; [|reflexivity]. cbn.
    destruct (find_pool_in _ _ _ E) as (_ & Hu). subst uid.
    rewrite find_replace_pool_other by (cbn; congruence). reflexivity.
Qed.

Lemma set_dedlist_tab v lr d : v_tab (set_dedlist v lr d) = v_tab v.
Proof. destruct lr; cbn; [reflexivity|]. destruct (find_pool _ _); reflexivity. Qed.
Lemma set_dedlist_m v lr d : v_m (set_dedlist v lr d) = v_m v.
Proof. destruct lr; cbn; [reflexivity|]. destruct (find_pool _ _); reflexivity. Qed.
Lemma set_dedlist_lists v lr d : v_lists (set_dedlist v lr d) = v_lists v.
Proof. destruct lr; cbn; [reflexivity|]. destruct (find_pool _ _); reflexivity. Qed.
Lemma set_dedlist_ded_len v lr d : length (v_ded (set_dedlist v lr d)) = length (v_ded v).
Proof. destruct lr; cbn; [apply set_nth_z_length|]. destruct (find_pool _ _); reflexivity. Qed.
Lemma set_dedlist_uids v lr d : map p_uid (v_pools (set_dedlist v lr d)) = map p_uid (v_pools v).
Proof. destruct lr; cbn; [reflexivity|]. destruct (find_pool _ _); cbn; [apply replace_pool_uids|reflexivity]. Qed.
Lemma set_dedlist_pids v lr d : map p_id (v_pools (set_dedlist v lr d)) = map p_id (v_pools v).
Proof.
  destruct lr as [t|uid]; cbn; [reflexivity|]. destruct (find_pool _ _) as [p|] eqn:E; cbn; [|reflexivity].
  destruct (find_pool_in _ _ _ E) as (_ & Hu). subst uid. eapply replace_pool_ids; cbn; eauto.
Qed.
Lemma set_dedlist_next_uid v lr d : v_next_uid (set_dedlist v lr d) = v_next_uid v.
Proof. destruct lr; cbn; [reflexivity|]. destruct (find_pool _ _); reflexivity. Qed.
Lemma set_dedlist_next_pid v lr d : v_next_pool_id (set_dedlist v lr d) = v_next_pool_id v.
Proof. destruct lr; cbn; [reflexivity|]. destruct (find_pool _ _); reflexivity. Qed.
Lemma set_dedlist_global v lr d : v_global (set_dedlist v lr d) = v_global v.
Proof. destruct lr; cbn; [reflexivity|]. destruct (find_pool _ _); reflexivity. Qed.

Lemma tab_frame_set_dedlist v lr d S : tab_frame v (set_dedlist v lr d) S.
Proof. split; rewrite set_dedlist_tab; auto. Qed.

(* frames without the dedicated lists (they change when dedicated allocations are registered or freed) *)
Record lists_frame' (v v' : vam) : Prop := mkListsFrame' {
  lf'_some : forall lr l, get_blist v lr = Some l -> exists l', get_blist v' lr = Some l' /\ blist_cfg_same l l';
  lf'_none : forall lr, get_blist v lr = None -> get_blist v' lr = None;
  lf'_global : v_global v' = v_global v;
  lf'_uids : map p_uid (v_pools v') = map p_uid (v_pools v);
  lf'_pids : map p_id (v_pools v') = map p_id (v_pools v);
  lf'_next : v_next_uid v' = v_next_uid v /\ v_next_pool_id v' = v_next_pool_id v
}.

Lemma lists_frame_weak v v' : lists_frame v v' -> lists_frame' v v'.
Proof. intros [A B C D E F G]. constructor; auto. Qed.

Lemma lists_frame'_refl v : lists_frame' v v.
Proof. apply lists_frame_weak. apply lists_frame_refl. Qed.

Lemma lists_frame'_trans v1 v2 v3 : lists_frame' v1 v2 -> lists_frame' v2 v3 -> lists_frame' v1 v3.
Proof.
  intros [A1 A2 A3 A4 A5 A6] [B1 B2 B3 B4 B5 B6]. constructor.
  - intros lr l H. destruct (A1 _ _ H) as (l2 & H2 & C2). destruct (B1 _ _ H2) as (l3 & H3 & C3).
    exists l3. split; [auto|eapply blist_cfg_same_trans; eauto].
  - auto.
  - congruence.
  - congruence.
  - congruence.
  - destruct A6, B6. split; congruence.
Qed.

Lemma lists_frame'_set_dedlist v lr d : lists_frame' v (set_dedlist v lr d).
Proof.
  constructor.
  - intros lr1 l H. exists l. rewrite get_blist_set_dedlist. split; [auto|apply blist_cfg_same_refl].
  - intros lr1 H. rewrite get_blist_set_dedlist. auto.
  - apply set_dedlist_global.
  - apply set_dedlist_uids.
  - apply set_dedlist_pids.
  - split; [apply set_dedlist_next_uid|apply set_dedlist_next_pid].
Qed.

Section WithCfg.
Variable c : vcfg.
Hypothesis Hc : cfg_ok c.

(* ---------------------------------------------------------------- dedicated allocations *)

Lemma ded_page_inv v U X lr l ty size sub doMap allowed s ded :
  VamInvU c v U X -> get_blist v lr = Some l -> bl_type l = ty ->
  0 <= s < zlen (v_tab v) -> a_allocated (get_alloc v s) = false ->
  let '(v', r) := allocate_dedicated_page c v lr ty size sub doMap allowed s ded in
  match r with
  | OK _ => VamInvU c v' (s :: U) X /\ tab_frame v v' [s] /\ lists_frame v v' /\
            exists a, slot_is v' s a /\ a_kind a = 2 /\ a_lref a = lr
  | ER _ => VamInvU c v' U X /\ tab_frame v v' [s] /\ lists_frame v v' /\ a_allocated (get_alloc v' s) = false
  | _ => True
  end.
Proof.
  intros HI Hg Hty Hs Hdead. unfold allocate_dedicated_page.
  pose proof (alloc_vk_spec c (v_m v) ty size ded (vi_dev_pos _ _ _ _ HI)) as A.
  destruct (alloc_vk c (v_m v) ty size ded) as (m1 & r).
  assert (Hfail : forall m', mach_same (v_m v) m' ->
            VamInvU c (set_m v m') U X /\ tab_frame v (set_m v m') [s] /\ lists_frame v (set_m v m') /\
            a_allocated (get_alloc (set_m v m') s) = false).
  { intros m' H. split; [apply VamInvU_mach_same; auto|]. split; [apply tab_frame_set_m|]. split; [apply lists_frame_set_m|auto]. }
  destruct r as [mem|code| |]; auto.
  destruct A as (A1 & A2 & A3 & A4 & A5).
  set (d := mkDmem mem ty size false).
  assert (Hmap : forall m2 s2 (mr : out unit), (if doMap then sm_map c m1 mem SyncMem.sm_init else (m1, SyncMem.sm_init, OK tt)) = (m2, s2, mr) ->
            mach_same m1 m2 /\ m_next m2 = m_next m1).
  { intros m2 s2 mr E. destruct doMap.
    - pose proof (sm_map_same c m1 mem SyncMem.sm_init) as H. pose proof (sm_map_next c m1 mem SyncMem.sm_init) as H'.
      rewrite E in H, H'. auto.
    - injection E as <- _ _. split; [apply mach_same_refl|reflexivity]. }
  destruct (if doMap then sm_map c m1 mem SyncMem.sm_init else (m1, SyncMem.sm_init, OK tt)) as ((m2 & s2) & mr) eqn:Emap.
  destruct (Hmap _ _ _ eq_refl) as (Hm12 & Hn2).
  assert (Hms : mems_same (m_mems (v_m v) ++ [d]) (m_mems m2)) by (unfold d; rewrite <- A3; apply Hm12).
  assert (Hfresh : forall x, In x (m_mems (v_m v)) -> dm_id x <> dm_id d).
  { intros x Hx. pose proof (vi_dev_next _ _ _ _ HI) as Hn. rewrite Forall_forall in Hn. specialize (Hn x Hx). cbn. lia. }
  destruct mr as [[]|code| |]; auto.
  - destruct (SyncMem.mapped s2 && negb allowed); [exact I|].
    set (a := mkAlloc true 2 size 0 ty sub (SyncMem.mapped s2) allowed lr (-1) 0 mem s2 false).
    assert (HI1 : VamInvU c (set_alloc (set_m v m2) s a) (s :: U) X).
    { eapply VamInvU_add_ded with (d := d) (l := l); eauto; cbn; auto; try lia. }
    split; [apply VamInvU_mach_same; [exact HI1|apply add_allocation_same]|].
    split; [eapply tab_frame_trans_same; [eapply tab_frame_trans_same; [apply tab_frame_set_m|apply tab_frame_set_alloc]|apply tab_frame_set_m]|].
    split; [eapply lists_frame_trans; [eapply lists_frame_trans; [apply lists_frame_set_m|apply lists_frame_set_alloc]|apply lists_frame_set_m]|].
    exists a. split; [|auto]. apply slot_is_set_m. apply slot_is_set_alloc_same; auto.
  - pose proof (free_vk_spec c m2 ty size mem) as (F1 & F2). pose proof (free_vk_no_error c m2 ty size mem) as NE.
    destruct (free_vk c m2 ty size mem) as (m3 & fr). cbn [fst snd] in *.
    assert (Hm3 : mach_same (v_m v) m3).
    { split; [rewrite F1; apply (mems_same_remove_added _ _ d); auto|]. rewrite F2, Hn2. lia. }
    destruct fr as [[]|code2| |]; [apply Hfail; exact Hm3|contradiction|exact I|exact I].
Qed.

Lemma NoDup_app_r {A} (a b : list A) : NoDup (a ++ b) -> NoDup b.
Proof. induction a as [|x a IH]; cbn; auto. intros H. inversion H; subst. auto. Qed.

(* dedicated allocations of list lr made by the running call: allocated, kind 2, not yet registered *)
Definition ded_slots (v : vam) (lr : lref) (slots : list Z) : Prop :=
  forall s, In s slots -> exists a, slot_is v s a /\ a_kind a = 2 /\ a_lref a = lr.

Lemma ded_slots_frame v v' lr S slots :
  ded_slots v lr slots -> tab_frame v v' S -> (forall s, In s slots -> ~ In s S) -> ded_slots v' lr slots.
Proof.
  intros H T Hd s Hs. destruct (H s Hs) as (a & Sa & R). exists a. split; [|auto]. apply (slot_is_frame _ _ _ _ _ T); auto.
Qed.

Lemma dedicated_loop_inv slots : forall v X lr l ty size sub doMap allowed done ded,
  VamInvU c v done X -> get_blist v lr = Some l -> bl_type l = ty -> NoDup (slots ++ done) ->
  dead_slots v slots -> ded_slots v lr done ->
  let '(v', r, done') := dedicated_loop c v lr ty size sub doMap allowed slots done ded in
  match r with
  | PANIC | STUCK => True
  | _ =>
    VamInvU c v' done' X /\ tab_frame v v' slots /\ lists_frame v v' /\ ded_slots v' lr done' /\ NoDup done' /\
    (forall s, In s done -> In s done') /\ (forall s, In s done' -> In s (slots ++ done)) /\
    match r with
    | OK _ => forall s, In s slots -> In s done'
    | _ => forall s, In s slots -> In s done' \/ (0 <= s < zlen (v_tab v') /\ a_allocated (get_alloc v' s) = false)
    end
  end.
Proof.
  induction slots as [|s tl IH]; intros v X lr l ty size sub doMap allowed done ded HI Hg Hty Hnd Hdead Hdone; cbn [dedicated_loop].
  - split; [auto|]. split; [apply tab_frame_refl|]. split; [apply lists_frame_refl|]. split; [auto|].
    split; [rewrite app_nil_l in Hnd; auto|]. split; [auto|]. split; [auto|]. intros ? [].
  - destruct (Hdead s (or_introl eq_refl)) as (Hr & Hd).
    pose proof (ded_page_inv v done X lr l ty size sub doMap allowed s ded HI Hg Hty Hr Hd) as P.
    destruct (allocate_dedicated_page c v lr ty size sub doMap allowed s ded) as (v1 & r).
    cbn [app] in Hnd. inversion Hnd as [|? ? Hns Hnd']; subst.
    assert (Hnd_done : NoDup done) by (apply NoDup_app_r in Hnd'; auto).
    assert (Hdone1 : tab_frame v v1 [s] -> ded_slots v1 lr done).
    { intros T. eapply ded_slots_frame; [exact Hdone|exact T|]. intros s1 H1 [<-|[]]. apply Hns. apply in_app_iff. auto. }
    assert (Hdead1 : tab_frame v v1 [s] -> dead_slots v1 tl).
    { intros T. eapply dead_slots_frame; [intros s1 H1; apply Hdead; right; exact H1|exact T|].
      intros s1 H1 [<-|[]]. apply Hns. apply in_app_iff. auto. }
    destruct r as [[]|code| |]; auto.
    + destruct P as (I1 & T1 & L1 & (a & Sa & Ka & La)).
      assert (Hnd1 : NoDup (tl ++ s :: done)).
      { eapply Permutation.Permutation_NoDup; [apply Permutation.Permutation_middle|exact Hnd]. }
      assert (Hds1 : ded_slots v1 lr (s :: done)).
      { intros x [<-|Hx]; [eauto|apply (Hdone1 T1); auto]. }
      destruct (lf_some _ _ L1 _ _ Hg) as (l1 & Hg1 & C1).
      assert (Hty1 : bl_type l1 = bl_type l) by (apply C1).
      specialize (IH v1 X lr l1 (bl_type l) size sub doMap allowed (s :: done) ded I1 Hg1 Hty1 Hnd1 (Hdead1 T1) Hds1).
      destruct (dedicated_loop c v1 lr (bl_type l) size sub doMap allowed tl (s :: done) ded) as ((v2 & r2) & done2).
      destruct r2 as [[]|code| |]; auto; destruct IH as (I2 & T2 & L2 & D2 & N2 & S2 & Q2 & O2);
        (split; [auto|]);
        (split; [eapply tab_frame_trans; [exact T1|exact T2|intros ? [<-|[]]; left; reflexivity|intros; right; auto]|]);
        (split; [eapply lists_frame_trans; eauto|]); (split; [auto|]); (split; [auto|]);
        (split; [intros x Hx; apply S2; right; auto|]);
        (split; [intros x Hx; specialize (Q2 x Hx); apply in_app_iff in Q2; destruct Q2 as [H|[<-|H]];
                 [right; apply in_app_iff; auto|left; reflexivity|right; apply in_app_iff; auto]|]).
      * intros x [<-|Hx]; [apply S2; left; reflexivity|auto].
      * intros x [<-|Hx]; [left; apply S2; left; reflexivity|auto].
    + destruct P as (I1 & T1 & L1 & D1). split; [auto|].
      split; [eapply tab_frame_weaken; [exact T1|intros ? [<-|[]]; left; reflexivity]|]. split; [auto|].
      split; [apply Hdone1; auto|]. split; [auto|]. split; [auto|].
      split; [intros x Hx; right; apply in_app_iff; auto|].
      intros x [<-|Hx]; right.
      * split; [destruct T1 as (E & _); lia|auto].
      * apply (Hdead1 T1). auto.
Qed.

Lemma dedicated_rollback_inv done : forall v X lr ty,
  VamInvU c v done X -> NoDup done -> ded_slots v lr done ->
  let '(v', r) := dedicated_rollback c v ty done in
  match r with
  | OK _ => VamInvU c v' [] X /\ tab_frame v v' done /\ lists_frame v v' /\ dead_slots v' done
  | ER _ => False
  | _ => True
  end.
Proof.
  induction done as [|s tl IH]; intros v X lr ty HI Hnd Hds; cbn [dedicated_rollback].
  - split; [auto|]. split; [apply tab_frame_refl|]. split; [apply lists_frame_refl|intros ? []].
  - inversion Hnd as [|? ? Hns Hnd']; subst.
    destruct (Hds s (or_introl eq_refl)) as (a & Sa & Ka & La). rewrite (get_alloc_slot _ _ _ Sa).
    pose proof (free_vk_spec c (v_m v) ty (a_size a) (a_mem a)) as (F1 & F2).
    pose proof (free_vk_no_error c (v_m v) ty (a_size a) (a_mem a)) as NE.
    destruct (free_vk c (v_m v) ty (a_size a) (a_mem a)) as (m1 & fr). cbn [fst snd] in *.
    destruct fr as [[]|code| |]; auto.
    pose proof (remove_allocation_no_error c m1 (type_heap c ty) (a_size a)) as NE2.
    unfold remove_allocation in *. destruct (Budget.remove_alloc _ _ _ _) as ((b2 & r2) & cs2). cbn [snd] in NE2.
    set (m2 := set_bud m1 b2) in *.
    set (v1 := set_alloc (set_m v m2) s (set_allocated a false)).
    assert (I1 : VamInvU c v1 tl X).
    { apply (VamInvU_remove_ded c v v1 (s :: tl) tl X s a HI Sa Ka); unfold v1.
      - intros lr1. rewrite get_blist_set_alloc. apply get_blist_set_m.
      - reflexivity.
      - cbn. exact F1.
      - cbn. exact F2.
      - reflexivity.
      - reflexivity.
      - reflexivity.
      - reflexivity.
      - reflexivity.
      - reflexivity.
      - intros lr1 x. rewrite get_dedlist_set_alloc, get_dedlist_set_m. split; [|tauto]. intros Hin. split; [auto|]. intros ->.
        destruct (vi_dedlists _ _ _ _ HI _ _ Hin) as (a2 & S2 & K2 & L2).
        assert (a2 = a) by (destruct S2, Sa; congruence). subst a2.
        destruct (vi_unreg _ _ _ _ HI s (or_introl eq_refl)) as (a3 & S3 & K3 & N3).
        assert (a3 = a) by (destruct S3, Sa; congruence). subst a3. apply N3. rewrite L2. exact Hin.
      - intros lr1. rewrite get_dedlist_set_alloc, get_dedlist_set_m. eapply vi_dedlists_nodup; eauto.
      - intros x. split; [intros Hx; split; [right; auto|intros ->; contradiction]|intros ([<-|Hx] & Hne); [contradiction|auto]]. }
    assert (T1 : tab_frame v v1 [s]) by (unfold v1; eapply tab_frame_trans_same; [apply tab_frame_set_m|apply tab_frame_set_alloc]).
    assert (L1 : lists_frame v v1) by (unfold v1; eapply lists_frame_trans; [apply lists_frame_set_m|apply lists_frame_set_alloc]).
    destruct r2; try exact I; try contradiction.
    assert (Hds1 : ded_slots v1 lr tl).
    { eapply ded_slots_frame; [intros x Hx; apply Hds; right; exact Hx|exact T1|]. intros x Hx [<-|[]]. contradiction. }
    specialize (IH v1 X lr ty I1 Hnd' Hds1). fold m2. fold v1.
    destruct (dedicated_rollback c v1 ty tl) as (v2 & r3). destruct r3 as [[]|code| |]; auto.
    destruct IH as (I2 & T2 & L2 & D2). split; [auto|].
    split; [eapply tab_frame_trans; [exact T1|exact T2|intros ? [<-|[]]; left; reflexivity|intros; right; auto]|].
    split; [eapply lists_frame_trans; eauto|].
    intros x [<-|Hx]; [|apply D2; auto].
    split; [destruct T2 as (E & _); destruct T1 as (E1 & _); rewrite E, E1; eapply slot_is_range; eauto|].
    rewrite (get_alloc_frame _ _ _ _ T2) by auto. unfold v1, get_alloc. cbn.
    rewrite nth_z_set_same by (eapply slot_is_range; eauto). reflexivity.
Qed.

(* result of an allocation over the caller's objects [slots] (no pending registrations) *)
Definition alloc_post (v v' : vam) (X slots : list Z) (r : out unit) : Prop :=
  match r with
  | OK _ => VamInvU c v' [] X /\ tab_frame v v' slots /\ lists_frame' v v' /\
            forall s, In s slots -> exists a, slot_is v' s a
  | ER _ => VamInvU c v' [] X /\ tab_frame v v' slots /\ lists_frame' v v' /\ dead_slots v' slots
  | _ => True
  end.

Lemma allocate_dedicated_inv v X lr l ty size sub doMap allowed slots ded :
  VamInvU c v [] X -> get_blist v lr = Some l -> bl_type l = ty -> NoDup slots -> dead_slots v slots ->
  let '(v', r) := allocate_dedicated c v lr ty size sub doMap allowed slots ded in alloc_post v v' X slots r.
Proof.
  intros HI Hg Hty Hnd Hdead. unfold allocate_dedicated. destruct slots as [|s0 tl0] eqn:Eslots; [exact I|]. rewrite <- Eslots in *.
  assert (Hnd0 : NoDup (slots ++ [])) by (rewrite app_nil_r; auto).
  assert (Hds0 : ded_slots v lr []) by (intros ? []).
  pose proof (dedicated_loop_inv slots v X lr l ty size sub doMap allowed [] ded HI Hg Hty Hnd0 Hdead Hds0) as DL.
  destruct (dedicated_loop c v lr ty size sub doMap allowed slots [] ded) as ((v1 & r) & done).
  destruct r as [[]|code| |]; auto.
  - destruct DL as (I1 & T1 & L1 & D1 & N1 & _ & Q1 & O1). cbn [alloc_post].
    destruct (lf_some _ _ L1 _ _ Hg) as (l1 & Hg1 & _).
    set (v2 := set_dedlist v1 lr (get_dedlist v1 lr ++ slots)).
    assert (Hlen : length (v_ded v1) = length (v_lists v1)).
    { rewrite (vi_ded_len _ _ _ _ I1), (vi_lists_len _ _ _ _ I1). reflexivity. }
    assert (I2 : VamInvU c v2 [] X).
    { apply (VamInvU_register c v1 v2 done slots X lr I1 Hnd).
      - intros x. split; [auto|]. intros Hx. specialize (Q1 x Hx). rewrite app_nil_r in Q1. auto.
      - intros x Hx. destruct (D1 x Hx) as (a & Sa & _ & La). rewrite (get_alloc_slot _ _ _ Sa). auto.
      - intros. apply get_blist_set_dedlist.
      - apply set_dedlist_tab.
      - apply set_dedlist_m.
      - unfold v2. rewrite set_dedlist_lists. reflexivity.
      - apply set_dedlist_ded_len.
      - apply set_dedlist_uids.
      - apply set_dedlist_pids.
      - apply set_dedlist_next_uid.
      - apply set_dedlist_next_pid.
      - eapply get_dedlist_set_dedlist_same; eauto.
      - intros. apply get_dedlist_set_dedlist_other. auto. }
    split; [auto|]. split; [eapply tab_frame_trans_same; [exact T1|apply tab_frame_set_dedlist]|].
    split; [eapply lists_frame'_trans; [apply lists_frame_weak; exact L1|apply lists_frame'_set_dedlist]|].
    intros x Hx. destruct (D1 x (O1 x Hx)) as (a & Sa & _). exists a. unfold slot_is, v2. rewrite set_dedlist_tab. exact Sa.
  - destruct DL as (I1 & T1 & L1 & D1 & N1 & _ & Q1 & O1).
    pose proof (dedicated_rollback_inv done v1 X lr ty I1 N1 D1) as RB.
    destruct (dedicated_rollback c v1 ty done) as (v2 & rr). destruct rr as [[]|rcode| |]; auto; [|contradiction].
    destruct RB as (I2 & T2 & L2 & D2). cbn [alloc_post].
    assert (Hsub : forall x, In x done -> In x slots) by (intros x Hx; specialize (Q1 x Hx); rewrite app_nil_r in Q1; auto).
    split; [auto|]. split; [eapply tab_frame_trans; [exact T1|exact T2|auto|exact Hsub]|].
    split; [apply lists_frame_weak; eapply lists_frame_trans; eauto|].
    intros x Hx. destruct (in_dec Z.eq_dec x done) as [Hin|Hnin]; [apply D2; auto|].
    destruct (O1 x Hx) as [H|(Hr & Hd)]; [contradiction|].
    split; [destruct T2 as (E & _); lia|]. rewrite (get_alloc_frame _ _ _ _ T2); auto.
Qed.

Lemma alloc_post_trans_fail v0 v1 v2 X slots code :
  VamInvU c v1 [] X -> tab_frame v0 v1 slots -> lists_frame' v0 v1 ->
  alloc_post v1 v2 X slots (ER code) -> alloc_post v0 v2 X slots (ER code).
Proof.
  intros I T L (A & B & C & D). cbn. split; [auto|]. split; [eapply tab_frame_trans_same; eauto|].
  split; [eapply lists_frame'_trans; eauto|auto].
Qed.

Lemma alloc_post_pre v0 v1 v2 X slots r :
  tab_frame v0 v1 slots -> lists_frame' v0 v1 -> alloc_post v1 v2 X slots r -> alloc_post v0 v2 X slots r.
Proof.
  intros T L P. destruct r as [[]|code| |]; cbn in *; auto; destruct P as (A & B & C & D);
    (split; [auto|]; split; [eapply tab_frame_trans_same; eauto|]; split; [eapply lists_frame'_trans; eauto|auto]).
Qed.

Lemma calc_type_params_spec v ty size count flags :
  let '(v1, fr) := calc_type_params c v ty size count flags in
  exists m1, v1 = set_m v m1 /\ mach_same (v_m v) m1 /\
    match fr with
    | OK f => f = (if fl flags F_MAPPED && negb (host_visible c ty) then fl_clear flags F_MAPPED else flags)
    | ER _ => True
    | _ => False
    end.
Proof.
  unfold calc_type_params. destruct (_ && fl _ F_BUDGET).
  - pose proof (heap_budget_same c (v_m v) (type_heap c ty)) as H.
    destruct (heap_budget c (v_m v) (type_heap c ty)) as ((m1 & usage) & budget). cbn [fst] in H.
    destruct (budget <? _); exists m1; auto.
  - exists (v_m v). split; [destruct v; reflexivity|]. split; [apply mach_same_refl|reflexivity].
Qed.

(* allocateMemoryOfType *)
Lemma alloc_of_type_inv v X lr l ty size align dedPref flags sub slots ded :
  VamInvU c v [] X -> get_blist v lr = Some l -> bl_type l = ty -> align = 0 \/ Bits.pow2 align ->
  NoDup slots -> dead_slots v slots ->
  let '(v', r) := alloc_of_type c v lr ty size align dedPref flags sub slots ded in alloc_post v v' X slots r.
Proof.
  intros HI Hg Hty Hal Hnd Hdead. unfold alloc_of_type. destruct slots as [|s0 tl0] eqn:Eslots; [exact I|]. rewrite <- Eslots in *.
  rewrite Hg.
  (* calculateMemoryTypeParameters *)
  set (f1 := if fl flags F_MAPPED && negb (host_visible c ty) then fl_clear flags F_MAPPED else flags).
  pose proof (calc_type_params_spec v ty size (zlen slots) flags) as Hctp. fold f1 in Hctp.
  destruct (calc_type_params c v ty size (zlen slots) flags) as (v1 & fr).
  destruct Hctp as (m1 & -> & Hm1 & Hfr).
  assert (I1 : VamInvU c (set_m v m1) [] X) by (apply VamInvU_mach_same; auto).
  assert (T1 : tab_frame v (set_m v m1) slots) by apply tab_frame_set_m.
  assert (L1 : lists_frame' v (set_m v m1)) by (apply lists_frame_weak; apply lists_frame_set_m).
  assert (Hg1 : get_blist (set_m v m1) lr = Some l) by (rewrite get_blist_set_m; auto).
  assert (Hdead1 : dead_slots (set_m v m1) slots) by exact Hdead.
  destruct fr as [flags'|code| |]; try contradiction.
  2:{ cbn. split; [auto|]. split; [auto|]. split; auto. }
  subst flags'.
  assert (Hded : forall w, VamInvU c w [] X -> tab_frame v w slots -> lists_frame' v w -> get_blist w lr = Some l -> dead_slots w slots ->
            let '(v', r) := allocate_dedicated c w lr ty size sub (fl f1 F_MAPPED) (mapping_allowed f1) slots ded in alloc_post v v' X slots r).
  { intros w Iw Tw Lw Hgw Hdw. pose proof (allocate_dedicated_inv w X lr l ty size sub (fl f1 F_MAPPED) (mapping_allowed f1) slots ded Iw Hgw Hty Hnd Hdw) as P.
    destruct (allocate_dedicated c w lr ty size sub (fl f1 F_MAPPED) (mapping_allowed f1) slots ded) as (v' & r).
    eapply alloc_post_pre; eauto. }
  destruct (fl f1 F_DEDICATED); [apply Hded; auto|].
  set (canDed := negb (fl f1 F_NEVER) && (negb match lr with LPool _ => true | LDef _ => false end || negb (bl_explicit l))).
  match goal with |- context [if canDed then ?x else dedPref] => set (dp := if canDed then x else dedPref) end.
  (* the preferred dedicated attempt *)
  assert (Hearly : let '(v2, early) :=
            (if canDed && dp then
               let '(v', r) := allocate_dedicated c (set_m v m1) lr ty size sub (fl f1 F_MAPPED) (mapping_allowed f1) slots ded in
               match r with OK _ => (v', Some (OK tt)) | ER _ => (v', None) | other => (v', Some other) end
             else (set_m v m1, None)) in
          match early with
          | Some r => alloc_post v v2 X slots r
          | None => VamInvU c v2 [] X /\ tab_frame v v2 slots /\ lists_frame' v v2 /\ dead_slots v2 slots /\
                    exists l2, get_blist v2 lr = Some l2 /\ bl_type l2 = ty
          end).
  { destruct (canDed && dp).
    - specialize (Hded (set_m v m1) I1 T1 L1 Hg1 Hdead1).
      destruct (allocate_dedicated c (set_m v m1) lr ty size sub (fl f1 F_MAPPED) (mapping_allowed f1) slots ded) as (v' & r).
      destruct r as [[]|code| |]; auto. destruct Hded as (A & B & C & D). split; [auto|]. split; [auto|]. split; [auto|]. split; [auto|].
      destruct (lf'_some _ _ C _ _ Hg) as (l2 & G2 & C2). exists l2. split; [auto|]. destruct C2 as (C2 & _). congruence.
    - split; [auto|]. split; [auto|]. split; [auto|]. split; [auto|]. exists l. auto. }
  destruct (if canDed && dp then _ else _) as (v2 & early).
  destruct early as [r|]; [exact Hearly|].
  destruct Hearly as (I2 & T2 & L2 & D2 & l2 & G2 & Ty2).
  pose proof (bl_allocate_inv c Hc v2 [] X lr slots size align f1 sub I2 Hal Hnd D2) as BA.
  destruct (bl_allocate c v2 lr slots size align f1 sub) as (v3 & br).
  destruct br as [[]|bcode| |]; auto.
  - destruct BA as ((A & B & C) & (_ & D)). cbn. split; [auto|]. split; [eapply tab_frame_trans_same; eauto|].
    split; [eapply lists_frame'_trans; [exact L2|apply lists_frame_weak; exact C]|].
    intros x Hx. destruct (D x Hx) as (_ & a & Sa & _). eauto.
  - destruct BA as ((A & B & C) & D).
    assert (T3 : tab_frame v v3 slots) by (eapply tab_frame_trans_same; eauto).
    assert (L3 : lists_frame' v v3) by (eapply lists_frame'_trans; [exact L2|apply lists_frame_weak; exact C]).
    destruct (canDed && negb dp).
    + pose proof (heap_budget_same c (v_m v3) (type_heap c ty)) as H.
      destruct (heap_budget c (v_m v3) (type_heap c ty)) as ((m4 & usage) & budget). cbn [fst] in H.
      assert (I4 : VamInvU c (set_m v3 m4) [] X) by (apply VamInvU_mach_same; auto).
      destruct (budget <? _).
      * cbn. split; [auto|]. split; [eapply tab_frame_trans_same; [exact T3|apply tab_frame_set_m]|].
        split; [eapply lists_frame'_trans; [exact L3|apply lists_frame_weak; apply lists_frame_set_m]|exact D].
      * destruct (lf_some _ _ C _ _ G2) as (l3 & G3 & C3).
        pose proof (allocate_dedicated_inv (set_m v3 m4) X lr l3 ty size sub (fl f1 F_MAPPED) (mapping_allowed f1) slots ded I4
                      ltac:(rewrite get_blist_set_m; exact G3) ltac:(destruct C3 as (C3 & _); congruence) Hnd D) as P.
        destruct (allocate_dedicated c (set_m v3 m4) lr ty size sub (fl f1 F_MAPPED) (mapping_allowed f1) slots ded) as (v5 & r5).
        eapply alloc_post_pre; [| |exact P].
        -- eapply tab_frame_trans_same; [exact T3|apply tab_frame_set_m].
        -- eapply lists_frame'_trans; [exact L3|apply lists_frame_weak; apply lists_frame_set_m].
    + cbn. split; [auto|]. split; [auto|]. split; auto.
Qed.

Lemma pow2_or_zero_spec a : is_pow2_or_zero a = true -> a = 0 \/ Bits.pow2 a.
Proof.
  unfold is_pow2_or_zero. intros H. apply Z.eqb_eq in H.
  destruct (Z.lt_trichotomy a 0) as [Hn|[->|Hp]]; [|left; reflexivity|].
  - exfalso. assert (Z.land a (a - 1) < 0) by (apply Z.land_neg; lia). lia.
  - right. exists (Z.log2 a). split; [apply Z.log2_nonneg|].
    destruct (Z.eq_dec a (2 ^ Z.log2 a)) as [E|Hne]; [exact E|]. exfalso.
    pose proof (Z.log2_spec a Hp) as (Hlo & Hhi).
    assert (Hb1 : Z.testbit a (Z.log2 a) = true) by (apply Z.bit_log2; lia).
    assert (Hl : Z.log2 (a - 1) = Z.log2 a).
    { apply Z.log2_unique; [apply Z.log2_nonneg|]. replace (Z.succ (Z.log2 a)) with (Z.log2 a + 1) by lia.
      rewrite Z.pow_add_r by (try apply Z.log2_nonneg; lia). rewrite Z.pow_succ_r in Hhi by apply Z.log2_nonneg. lia. }
    assert (Hb2 : Z.testbit (a - 1) (Z.log2 a) = true).
    { rewrite <- Hl. apply Z.bit_log2. pose proof (Z.pow_pos_nonneg 2 (Z.log2 a) ltac:(lia) (Z.log2_nonneg a)). lia. }
    assert (Z.testbit (Z.land a (a - 1)) (Z.log2 a) = true) by (rewrite Z.land_spec, Hb1, Hb2; reflexivity).
    rewrite H in H0. rewrite Z.bits_0 in H0. discriminate.
Qed.

Lemma type_loop_inv fuel : forall v X bits ty size align dedPref usage flags req pref ctb sub slots ded bufimg,
  VamInvU c v [] X -> align = 0 \/ Bits.pow2 align -> NoDup slots -> dead_slots v slots ->
  let '(v', r) := type_loop c fuel v bits ty size align dedPref usage flags req pref ctb sub slots ded bufimg in
  alloc_post v v' X slots r.
Proof.
  induction fuel as [|f IH]; intros v X bits ty size align dedPref usage flags req pref ctb sub slots ded bufimg HI Hal Hnd Hdead;
    cbn [type_loop]; [exact I|].
  assert (Hfail : forall code, alloc_post v v X slots (ER code)).
  { intros code. cbn. split; [auto|]. split; [apply tab_frame_refl|]. split; [apply lists_frame'_refl|auto]. }
  destruct (get_blist v (LDef ty)) as [l|] eqn:Hg; [|apply Hfail].
  pose proof (alloc_of_type_inv v X (LDef ty) l ty size align dedPref flags sub slots ded HI Hg (vi_def_type _ _ _ _ HI _ _ Hg) Hal Hnd Hdead) as P.
  destruct (alloc_of_type c v (LDef ty) ty size align dedPref flags sub slots ded) as (v1 & r).
  destruct r as [[]|code| |]; auto.
  destruct (code =? VK_UNKNOWN); [exact P|].
  destruct P as (I1 & T1 & L1 & D1).
  destruct (find_type_index c (v_global v1) _ usage flags req pref ctb bufimg) as [ty'|].
  - specialize (IH v1 X (Z.land bits (Z.lnot (Z.shiftl 1 ty))) ty' size align dedPref usage flags req pref ctb sub slots ded bufimg I1 Hal Hnd D1).
    destruct (type_loop c f v1 _ ty' size align dedPref usage flags req pref ctb sub slots ded bufimg) as (v2 & r2).
    eapply alloc_post_pre; eauto.
  - cbn. split; [auto|]. split; [auto|]. split; auto.
Qed.

Lemma multi_allocate_inv v X size align typeBits reqDed prefDed ded bufimg usage flags0 req pref ctb pool sub slots :
  VamInvU c v [] X -> NoDup slots -> dead_slots v slots ->
  let '(v', r) := multi_allocate c v size align typeBits reqDed prefDed ded bufimg usage flags0 req pref ctb pool sub slots in
  alloc_post v v' X slots r.
Proof.
  intros HI Hnd Hdead. unfold multi_allocate.
  assert (Hfail : forall code, alloc_post v v X slots (ER code)).
  { intros code. cbn. split; [auto|]. split; [apply tab_frame_refl|]. split; [apply lists_frame'_refl|auto]. }
  destruct (is_pow2_or_zero align) eqn:Ea; cbn [negb]; [|apply Hfail].
  pose proof (pow2_or_zero_spec _ Ea) as Hal.
  destruct (size <? 1); [apply Hfail|].
  destruct (calc_params usage flags0 reqDed _) as [flags|code| |]; [|apply Hfail|exact I|exact I].
  destruct pool as [uid|].
  - destruct (get_blist v (LPool uid)) as [l|] eqn:Hg; [|exact I].
    apply (alloc_of_type_inv v X (LPool uid) l); auto.
  - destruct (find_type_index c (v_global v) typeBits usage flags req pref ctb bufimg) as [ty|]; [|apply Hfail].
    apply type_loop_inv; auto.
Qed.

Lemma slot_range_nodup n : forall a, NoDup (slot_range a n) /\ forall s, In s (slot_range a n) -> a <= s < a + Z.of_nat n.
Proof.
  induction n as [|k IH]; intros a; cbn [slot_range]; [split; [constructor|intros ? []]|].
  destruct (IH (a + 1)) as (Hnd & Hr). split.
  - constructor; [intros H; specialize (Hr _ H); lia|auto].
  - intros s [<-|H]; [lia|]. specialize (Hr _ H). lia.
Qed.

(* AllocateMemory / AllocateMemorySlice into objects that are not allocated *)
Lemma allocate_memory_inv v X slot size align typeBits usage flags req pref ctb pool :
  VamInvU c v [] X -> 0 <= slot < zlen (v_tab v) ->
  let '(v', r) := allocate_memory c v slot size align typeBits usage flags req pref ctb pool in
  match r with
  | OK _ => VamInvU c v' [] X /\ tab_frame v v' [slot] /\ lists_frame' v v' /\ exists a, slot_is v' slot a
  | ER _ => VamInvU c v' [] X /\ tab_frame v v' [slot] /\ lists_frame' v v' /\
            a_allocated (get_alloc v' slot) = a_allocated (get_alloc v slot)
  | _ => True
  end.
Proof.
  intros HI Hr. unfold allocate_memory. destruct (a_allocated (get_alloc v slot)) eqn:Ea.
  - split; [auto|]. split; [apply tab_frame_refl|]. split; [apply lists_frame'_refl|auto].
  - assert (Hnd : NoDup [slot]) by (constructor; [intros []|constructor]).
    assert (Hdead : dead_slots v [slot]) by (intros s [<-|[]]; auto).
    pose proof (multi_allocate_inv v X size align typeBits false false 0 None usage flags req pref ctb pool 1 [slot] HI Hnd Hdead) as P.
    destruct (multi_allocate c v size align typeBits false false 0 None usage flags req pref ctb pool 1 [slot]) as (v' & r).
    destruct r as [[]|code| |]; auto; destruct P as (A & B & C & D); (split; [auto|]; split; [auto|]; split; [auto|]).
    + apply D. left. reflexivity.
    + apply D. left. reflexivity.
Qed.

Lemma allocate_memory_slice_inv v X slot n size align typeBits usage flags req pref ctb pool :
  VamInvU c v [] X -> 0 <= slot -> slot + n <= zlen (v_tab v) ->
  let '(v', r) := allocate_memory_slice c v slot n size align typeBits usage flags req pref ctb pool in
  let slots := slot_range slot (Z.to_nat n) in
  match r with
  | OK _ => VamInvU c v' [] X /\ tab_frame v v' slots /\ lists_frame' v v' /\ forall s, In s slots -> exists a, slot_is v' s a
  | ER _ => VamInvU c v' [] X /\ tab_frame v v' slots /\ lists_frame' v v' /\
            forall s, In s slots -> a_allocated (get_alloc v' s) = a_allocated (get_alloc v s)
  | _ => True
  end.
Proof.
  intros HI H0 Hn. unfold allocate_memory_slice. cbn zeta.
  destruct (slot_range_nodup (Z.to_nat n) slot) as (Hnd & Hrange).
  set (slots := slot_range slot (Z.to_nat n)) in *.
  assert (Hrefl : VamInvU c v [] X /\ tab_frame v v slots /\ lists_frame' v v) by (split; [auto|split; [apply tab_frame_refl|apply lists_frame'_refl]]).
  destruct slots as [|s0 tl] eqn:Es.
  - destruct Hrefl as (A & B & C). split; [auto|]. split; [auto|]. split; [auto|]. intros ? [].
  - rewrite <- Es in *. destruct (existsb _ slots) eqn:Eex.
    + destruct Hrefl as (A & B & C). split; [auto|]. split; [auto|]. split; auto.
    + assert (Hdead : dead_slots v slots).
      { intros s Hs. split.
        - specialize (Hrange s Hs). destruct n as [|p|p]; [cbn in Hrange; lia|rewrite Z2Nat.id in Hrange by lia; lia|cbn in Hrange; lia].
        - destruct (a_allocated (get_alloc v s)) eqn:E; [|reflexivity]. exfalso.
          assert (existsb (fun s => a_allocated (get_alloc v s)) slots = true) by (apply existsb_exists; exists s; auto). congruence. }
      pose proof (multi_allocate_inv v X size align typeBits false false 0 None usage flags req pref ctb pool 1 slots HI Hnd Hdead) as P.
      destruct (multi_allocate c v size align typeBits false false 0 None usage flags req pref ctb pool 1 slots) as (v' & r).
      destruct r as [[]|code| |]; auto. destruct P as (A & B & C & D). split; [auto|]. split; [auto|]. split; [auto|].
      intros s Hs. destruct (D s Hs) as (_ & E). rewrite E. symmetry. apply Hdead. auto.
Qed.

(* ---------------------------------------------------------------- freeing *)

Lemma remove_z_in x s l : In x (Util.remove_z s l) -> In x l.
Proof.
  induction l as [|y l IH]; cbn; [tauto|]. destruct (y =? s); [intros H; right; exact H|]. intros [->|H]; [left; reflexivity|right; auto].
Qed.

Lemma remove_z_spec s l : NoDup l -> NoDup (Util.remove_z s l) /\ forall x, In x (Util.remove_z s l) <-> In x l /\ x <> s.
Proof.
  induction l as [|y l IH]; cbn; intros Hnd; [split; [constructor|tauto]|].
  inversion Hnd as [|? ? Hy Hl]; subst. destruct (IH Hl) as (N & S). destruct (y =? s) eqn:E.
  - apply Z.eqb_eq in E. subst y. split; [auto|]. intros x. split.
    + intros H. split; [right; auto|]. intros ->. contradiction.
    + intros ([->|H] & Hne); [contradiction|auto].
  - apply Z.eqb_neq in E. split.
    + constructor; [|auto]. intros H. apply S in H. tauto.
    + intros x. cbn. rewrite S. split; [intros [->|(H & Hne)]; [split; auto|split; auto]|intros ([->|H] & Hne); auto].
Qed.

(* a registered dedicated allocation is freed and the object marked unallocated *)
Lemma free_ded_slot_inv v X s a :
  VamInvU c v [] X -> slot_is v s a -> a_kind a = 2 ->
  let '(v', r) := free_dedicated c v s in
  match r with
  | OK _ => let v2 := set_alloc v' s (set_allocated (get_alloc v' s) false) in
            VamInvU c v2 [] X /\ tab_frame v v2 [s] /\ lists_frame' v v2 /\ a_allocated (get_alloc v2 s) = false
  | ER _ => False
  | _ => True
  end.
Proof.
  intros HI Sa Ka. unfold free_dedicated. rewrite (get_alloc_slot _ _ _ Sa). rewrite Ka. cbn [Z.eqb negb Pos.eqb].
  assert (HnX : ~ In s X).
  { intros Hi. destruct (vi_dang _ _ _ _ HI _ Hi) as (a2 & S2 & K2). assert (a2 = a) by (destruct S2, Sa; congruence). subst. congruence. }
  destruct (vi_slots _ _ _ _ HI s a Sa HnX) as [(K & _)|(_ & Hin & (l & Hg & Ht) & Hdev)]; [congruence|].
  destruct Hin as [Hin|[]].
  set (v1 := set_dedlist v (a_lref a) (Util.remove_z s (get_dedlist v (a_lref a)))).
  pose proof (free_vk_spec c (v_m v1) (a_type a) (a_size a) (a_mem a)) as (F1 & F2).
  pose proof (free_vk_no_error c (v_m v1) (a_type a) (a_size a) (a_mem a)) as NE.
  destruct (free_vk c (v_m v1) (a_type a) (a_size a) (a_mem a)) as (m1 & fr). cbn [fst snd] in *.
  destruct fr as [[]|code| |]; auto.
  pose proof (remove_allocation_no_error c m1 (type_heap c (a_type a)) (a_size a)) as NE2.
  unfold remove_allocation in *. destruct (Budget.remove_alloc _ _ _ _) as ((b2 & r2) & cs2). cbn [snd] in NE2.
  set (m2 := set_bud m1 b2) in *.
  destruct r2; try exact I; try contradiction. cbn zeta.
  assert (E : get_alloc (set_m v1 m2) s = a).
  { unfold get_alloc. cbn. unfold v1. rewrite set_dedlist_tab. destruct Sa as (Sa & _). rewrite Sa. reflexivity. }
  rewrite E. set (v2 := set_alloc (set_m v1 m2) s (set_allocated a false)).
  destruct (remove_z_spec s (get_dedlist v (a_lref a)) (vi_dedlists_nodup _ _ _ _ HI _)) as (RN & RS).
  assert (Hlen : length (v_ded v) = length (v_lists v)) by (rewrite (vi_ded_len _ _ _ _ HI), (vi_lists_len _ _ _ _ HI); reflexivity).
  assert (Hdl : forall lr1, get_dedlist v2 lr1 = if lref_eq_dec lr1 (a_lref a) then Util.remove_z s (get_dedlist v (a_lref a)) else get_dedlist v lr1).
  { intros lr1. unfold v2. rewrite get_dedlist_set_alloc, get_dedlist_set_m. unfold v1. destruct (lref_eq_dec lr1 (a_lref a)) as [->|Hne].
    - eapply get_dedlist_set_dedlist_same; eauto.
    - apply get_dedlist_set_dedlist_other. auto. }
  assert (I2 : VamInvU c v2 [] X).
  { apply (VamInvU_remove_ded c v v2 [] [] X s a HI Sa Ka); unfold v2.
    - intros lr1. rewrite get_blist_set_alloc, get_blist_set_m. apply get_blist_set_dedlist.
    - cbn. unfold v1. rewrite set_dedlist_tab. reflexivity.
    - cbn. rewrite F1. unfold v1. rewrite set_dedlist_m. reflexivity.
    - cbn. rewrite F2. unfold v1. rewrite set_dedlist_m. reflexivity.
    - cbn. unfold v1. rewrite set_dedlist_lists. reflexivity.
    - cbn. apply set_dedlist_ded_len.
    - cbn. apply set_dedlist_uids.
    - cbn. apply set_dedlist_pids.
    - cbn. apply set_dedlist_next_uid.
    - cbn. apply set_dedlist_next_pid.
    - intros lr1 x. fold v2. rewrite Hdl. destruct (lref_eq_dec lr1 (a_lref a)) as [->|Hne]; [apply RS|].
      split; [|tauto]. intros Hx. split; [auto|]. intros ->.
      destruct (vi_dedlists _ _ _ _ HI _ _ Hx) as (a2 & S2 & K2 & L2). assert (a2 = a) by (destruct S2, Sa; congruence). subst a2. congruence.
    - intros lr1. fold v2. rewrite Hdl. destruct (lref_eq_dec lr1 (a_lref a)); [auto|eapply vi_dedlists_nodup; eauto].
    - intros x. cbn. tauto. }
  split; [auto|]. split; [|split].
  - unfold v2. eapply tab_frame_trans_same; [eapply tab_frame_trans_same; [apply tab_frame_set_dedlist|apply tab_frame_set_m]|apply tab_frame_set_alloc].
  - unfold v2. eapply lists_frame'_trans; [apply lists_frame'_set_dedlist|]. apply lists_frame_weak.
    eapply lists_frame_trans; [apply lists_frame_set_m|apply lists_frame_set_alloc].
  - unfold v2, get_alloc. cbn. rewrite nth_z_set_same; [reflexivity|]. unfold v1. rewrite set_dedlist_tab. eapply slot_is_range; eauto.
Qed.

Definition live_slots (v : vam) (X slots : list Z) : Prop :=
  forall s, In s slots -> ~ In s X /\ exists a, slot_is v s a.

Lemma multi_free_inv slots : forall v X,
  VamInvU c v [] X -> NoDup slots -> live_slots v X slots ->
  let '(v', r) := multi_free c v slots in
  match r with
  | OK _ => VamInvU c v' [] X /\ tab_frame v v' slots /\ lists_frame' v v' /\ dead_slots v' slots
  | ER _ => VamInvU c v' [] X /\ tab_frame v v' slots /\ lists_frame' v v'
  | _ => True
  end.
Proof.
  induction slots as [|s tl IH]; intros v X HI Hnd Hlive; cbn [multi_free].
  - split; [auto|]. split; [apply tab_frame_refl|]. split; [apply lists_frame'_refl|intros ? []].
  - inversion Hnd as [|? ? Hns Hnd']; subst.
    destruct (Hlive s (or_introl eq_refl)) as (HnX & a & Sa).
    assert (Hstep : let '(v1, r) := free_single c v s in
              match r with
              | OK _ => let v2 := set_alloc v1 s (set_allocated (get_alloc v1 s) false) in
                        VamInvU c v2 [] X /\ tab_frame v v2 [s] /\ lists_frame' v v2 /\ a_allocated (get_alloc v2 s) = false
              | ER _ => VamInvU c v1 [] X /\ tab_frame v v1 [s] /\ lists_frame' v v1
              | _ => True end).
    { unfold free_single. rewrite (get_alloc_slot _ _ _ Sa).
      destruct (vi_slots _ _ _ _ HI s a Sa HnX) as [(K & _)|(K & _)]; rewrite K; cbn [Z.eqb Pos.eqb].
      - pose proof (free_block_slot_inv c v [] X s a false HI Sa HnX K) as F.
        destruct (bl_free c v (a_lref a) s false) as (v1 & r). destruct r as [[]|code| |]; auto.
        + destruct F as ((A & B & C) & D). cbn zeta. split; [auto|]. split; [auto|]. split; [apply lists_frame_weak; auto|auto].
        + destruct F as (A & B & C). split; [auto|]. split; [eapply tab_frame_weaken; [exact B|intros ? []]|apply lists_frame_weak; auto].
      - pose proof (free_ded_slot_inv v X s a HI Sa K) as F.
        destruct (free_dedicated c v s) as (v1 & r). destruct r as [[]|code| |]; auto. contradiction. }
    destruct (free_single c v s) as (v1 & r). destruct r as [[]|code| |]; auto.
    + cbn zeta in Hstep. set (v2 := set_alloc v1 s (set_allocated (get_alloc v1 s) false)) in *.
      destruct Hstep as (I2 & T2 & L2 & D2).
      assert (Hlive2 : live_slots v2 X tl).
      { intros x Hx. destruct (Hlive x (or_intror Hx)) as (HX & b & Sb). split; [auto|]. exists b.
        apply (slot_is_frame _ _ _ _ _ T2); auto. intros [<-|[]]. contradiction. }
      specialize (IH v2 X I2 Hnd' Hlive2). destruct (multi_free c v2 tl) as (v3 & r3).
      destruct r3 as [[]|code| |]; auto.
      * destruct IH as (I3 & T3 & L3 & D3). split; [auto|].
        split; [eapply tab_frame_trans; [exact T2|exact T3|intros ? [<-|[]]; left; reflexivity|intros; right; auto]|].
        split; [eapply lists_frame'_trans; eauto|].
        intros x [<-|Hx]; [|apply D3; auto].
        split; [destruct T3 as (E & _); destruct T2 as (E2 & _); rewrite E, E2; eapply slot_is_range; eauto|].
        rewrite (get_alloc_frame _ _ _ _ T3); auto.
      * destruct IH as (I3 & T3 & L3). split; [auto|].
        split; [eapply tab_frame_trans; [exact T2|exact T3|intros ? [<-|[]]; left; reflexivity|intros; right; auto]|eapply lists_frame'_trans; eauto].
    + destruct Hstep as (A & B & C). split; [auto|]. split; [eapply tab_frame_weaken; [exact B|intros ? [<-|[]]; left; reflexivity]|auto].
Qed.

(* ---------------------------------------------------------------- Map / Unmap / Flush *)

Definition same_post (v v' : vam) (X : list Z) (r : out unit) : Prop :=
  match r with PANIC | STUCK => True | _ => VamInvU c v' [] X /\ tab_frame v v' [] /\ lists_frame v v' end.

Lemma same_post_refl v X r : VamInvU c v [] X -> same_post v v X r.
Proof. intros H. destruct r; cbn; auto; (split; [auto|split; [apply tab_frame_refl|apply lists_frame_refl]]). Qed.

(* the mapping state of the block or dedicated allocation behind slot s changes, with a machine that kept its objects *)
Lemma sm_update_inv v X s a m' sm' :
  VamInvU c v [] X -> slot_is v s a -> ~ In s X -> mach_same (v_m v) m' ->
  (a_kind a = 1 -> forall b, get_block v (a_lref a) (a_blk a) = Some b ->
     let v' := put_block (set_m v m') (a_lref a) (mkBlock (bk_id b) (bk_mem b) sm' (bk_meta b)) in
     VamInvU c v' [] X /\ tab_frame v v' [] /\ lists_frame v v') /\
  (a_kind a = 2 ->
     let v' := set_alloc (set_m v m') s (set_a_sm a sm') in
     VamInvU c v' [] X /\ tab_frame v v' [s] /\ lists_frame v v').
Proof.
  intros HI Sa HnX Hm. pose proof (VamInvU_mach_same _ _ _ _ _ HI Hm) as I1. split.
  - intros K b Hgb. destruct (get_block_in _ _ _ _ Hgb) as (l & Hg & Hb & Hid).
    assert (Hg1 : get_blist (set_m v m') (a_lref a) = Some l) by (rewrite get_blist_set_m; auto).
    pose proof (vi_lists _ _ _ _ HI _ _ Hg) as Hwf. pose proof (bw_meta _ _ Hwf) as Hmeta. rewrite Forall_forall in Hmeta.
    destruct (put_block_same_inv c (set_m v m') [] X (a_lref a) l b (mkBlock (bk_id b) (bk_mem b) sm' (bk_meta b)) I1 Hg1 Hb) as (A & B & C).
    + unfold block_same. cbn. auto.
    + cbn. auto.
    + cbn zeta. split; [auto|]. split; [eapply tab_frame_trans_same; [apply tab_frame_set_m|exact B]|eapply lists_frame_trans; [apply lists_frame_set_m|exact C]].
  - intros K. cbn zeta. split; [apply VamInvU_set_alloc_sm; [auto|apply slot_is_set_m; auto]|].
    split; [eapply tab_frame_trans_same; [apply tab_frame_set_m|apply tab_frame_set_alloc]|eapply lists_frame_trans; [apply lists_frame_set_m|apply lists_frame_set_alloc]].
Qed.

Lemma get_alloc_allocated v s : a_allocated (get_alloc v s) = true -> slot_is v s (get_alloc v s).
Proof.
  unfold get_alloc, slot_is. destruct (nth_z (v_tab v) s) as [a|]; [auto|]. cbn. discriminate.
Qed.

Definition slot_post (v v' : vam) (s : Z) (r : out unit) : Prop :=
  match r with PANIC | STUCK => True | _ => VamInvU c v' [] [] /\ tab_frame v v' [s] /\ lists_frame v v' end.

Lemma slot_post_refl v s r : VamInvU c v [] [] -> slot_post v v s r.
Proof. intros H. destruct r; cbn; auto; (split; [auto|split; [apply tab_frame_refl|apply lists_frame_refl]]). Qed.

Lemma slot_post_of v v' s r : VamInvU c v' [] [] /\ tab_frame v v' [s] /\ lists_frame v v' -> slot_post v v' s r.
Proof. intros H. destruct r; cbn; auto. Qed.

Lemma weaken_nil v v' s : tab_frame v v' [] -> tab_frame v v' [s].
Proof. intros H. eapply tab_frame_weaken; [exact H|intros ? []]. Qed.

Lemma allocation_map_inv v s :
  VamInvU c v [] [] -> let '(v', r) := allocation_map c v s in slot_post v v' s r.
Proof.
  intros HI. unfold allocation_map. set (a := get_alloc v s).
  destruct (negb (a_mapallowed a)); [apply slot_post_refl; auto|].
  destruct (a_allocated a) eqn:Ea; cbn [negb]; [|apply slot_post_refl; auto].
  pose proof (get_alloc_allocated v s Ea) as Sa. fold a in Sa.
  destruct (a_kind a =? 1) eqn:K1.
  - apply Z.eqb_eq in K1. destruct (get_block v (a_lref a) (a_blk a)) as [b|] eqn:Hgb; [|exact I].
    pose proof (sm_map_same c (v_m v) (bk_mem b) (bk_sm b)) as Hm.
    destruct (sm_map c (v_m v) (bk_mem b) (bk_sm b)) as ((m1 & s1) & r). cbn [fst] in Hm.
    destruct (sm_update_inv v [] s a m1 s1 HI Sa (fun H => H) Hm) as (P1 & _). specialize (P1 K1 b Hgb). cbn zeta in P1.
    destruct P1 as (A & B & C).
    destruct r as [[]|code| |]; try exact I.
    + destruct (find_offset _ a); [|exact I]. cbn. split; [auto|]. split; [apply weaken_nil; auto|auto].
    + cbn. split; [auto|]. split; [apply weaken_nil; auto|auto].
  - destruct (a_kind a =? 2) eqn:K2; [|exact I]. apply Z.eqb_eq in K2.
    pose proof (sm_map_same c (v_m v) (a_mem a) (a_sm a)) as Hm.
    destruct (sm_map c (v_m v) (a_mem a) (a_sm a)) as ((m1 & s1) & r). cbn [fst] in Hm.
    destruct (sm_update_inv v [] s a m1 s1 HI Sa (fun H => H) Hm) as (_ & P2). specialize (P2 K2). cbn zeta in P2.
    apply slot_post_of. exact P2.
Qed.

Lemma allocation_unmap_inv v s :
  VamInvU c v [] [] -> let '(v', r) := allocation_unmap v s in slot_post v v' s r.
Proof.
  intros HI. unfold allocation_unmap. set (a := get_alloc v s).
  destruct (a_allocated a) eqn:Ea; cbn [negb]; [|exact I].
  pose proof (get_alloc_allocated v s Ea) as Sa. fold a in Sa.
  destruct (a_kind a =? 1) eqn:K1.
  - apply Z.eqb_eq in K1. destruct (get_block v (a_lref a) (a_blk a)) as [b|] eqn:Hgb; [|exact I].
    pose proof (sm_unmap_same (v_m v) (bk_mem b) (bk_sm b)) as Hm.
    destruct (sm_unmap (v_m v) (bk_mem b) (bk_sm b)) as ((m1 & s1) & r). cbn [fst] in Hm.
    destruct (sm_update_inv v [] s a m1 s1 HI Sa (fun H => H) Hm) as (P1 & _). specialize (P1 K1 b Hgb). cbn zeta in P1.
    destruct P1 as (A & B & C). apply slot_post_of. split; [auto|]. split; [apply weaken_nil; auto|auto].
  - destruct (a_kind a =? 2) eqn:K2; [|exact I]. apply Z.eqb_eq in K2.
    pose proof (sm_unmap_same (v_m v) (a_mem a) (a_sm a)) as Hm.
    destruct (sm_unmap (v_m v) (a_mem a) (a_sm a)) as ((m1 & s1) & r). cbn [fst] in Hm.
    destruct (sm_update_inv v [] s a m1 s1 HI Sa (fun H => H) Hm) as (_ & P2). specialize (P2 K2). cbn zeta in P2.
    apply slot_post_of. exact P2.
Qed.

Lemma slot_post_trans v0 v1 v2 s r : VamInvU c v1 [] [] -> tab_frame v0 v1 [s] -> lists_frame v0 v1 -> slot_post v1 v2 s r -> slot_post v0 v2 s r.
Proof.
  intros I T L P. destruct r as [[]|code| |]; cbn in *; auto; destruct P as (A & B & C);
    (split; [auto|]; split; [eapply tab_frame_trans_same; eauto|eapply lists_frame_trans; eauto]).
Qed.

Lemma harness_rw_inv v s : VamInvU c v [] [] -> let '(v', r) := harness_rw c v s in slot_post v v' s r.
Proof.
  intros HI. unfold harness_rw. pose proof (allocation_map_inv v s HI) as M.
  destruct (allocation_map c v s) as (v1 & r). destruct r as [[]|code| |]; auto.
  destruct M as (A & B & C). pose proof (allocation_unmap_inv v1 s A) as U.
  destruct (allocation_unmap v1 s) as (v2 & ur).
  assert (P : slot_post v v2 s ur) by (eapply slot_post_trans; eauto).
  destruct ur as [[]|ucode| |]; auto.
Qed.

Lemma allocation_flush_inv v inval s off size :
  VamInvU c v [] [] -> let '(v', r) := allocation_flush c v inval s off size in slot_post v v' s r.
Proof.
  intros HI. unfold allocation_flush. destruct (negb _); [apply slot_post_refl; auto|].
  destruct (flush_range c v (get_alloc v s) off size) as [[(roff & rsize)|]|code| |]; try (apply slot_post_refl; auto); try exact I.
  pose proof (dev_flush_same (v_m v) inval (a_mem (get_alloc v s)) roff rsize) as Hm.
  destruct (dev_flush (v_m v) inval (a_mem (get_alloc v s)) roff rsize) as (m1 & code). cbn [fst] in Hm.
  apply slot_post_of. split; [apply VamInvU_mach_same; auto|]. split; [apply tab_frame_set_m|apply lists_frame_set_m].
Qed.

(* ---------------------------------------------------------------- pools *)

Lemma get_blist_pool v uid l : get_blist v (LPool uid) = Some l -> exists p, find_pool (v_pools v) uid = Some p /\ p_list p = l.
Proof. cbn. destruct (find_pool (v_pools v) uid) as [p|]; [|discriminate]. intros H; injection H as <-. eauto. Qed.

Lemma pool_destroy_inv v uid nextId :
  VamInvU c v [] [] ->
  Forall (fun q => p_id q < nextId) (remove_pool (v_pools v) uid) ->
  let '(v', r) := pool_destroy c v uid in
  match r with
  | OK _ => VamInvU c (mkVam (v_m v') (v_global v') (v_lists v') (v_ded v') (v_pools v') nextId (v_next_uid v') (v_tab v')) [] [] /\
            tab_frame v v' [] /\ find_pool (v_pools v') uid = None /\
            map p_id (v_pools v') = map p_id (remove_pool (v_pools v) uid)
  | ER _ => v' = v /\ exists p, find_pool (v_pools v) uid = Some p /\
              (p_ded p <> [] \/ exists b, In b (bl_blocks (p_list p)) /\ meta_is_empty (bk_meta b) = false)
  | _ => True
  end.
Proof.
  intros HI Hids. unfold pool_destroy. destruct (find_pool (v_pools v) uid) as [p|] eqn:Hf; [|exact I].
  destruct (p_ded p) as [|x tl] eqn:Hded; [|split; [reflexivity|]; exists p; split; [auto|]; left; rewrite Hded; discriminate].
  pose proof (bl_destroy_inv c v [] [] (LPool uid) HI) as BD.
  destruct (bl_destroy c v (LPool uid)) as (v1 & r). destruct r as [[]|code| |]; auto.
  2:{ destruct BD as (-> & l & b & G & B & E). split; [reflexivity|]. exists p. split; [auto|]. right. exists b.
      cbn in G. rewrite Hf in G. injection G as <-. auto. }
  destruct BD as ((I1 & T1 & L1) & (l' & G1 & E1)).
  destruct (get_blist_pool _ _ _ G1) as (p1 & Hf1 & Hl1).
  assert (Hd1 : p_ded p1 = []).
  { pose proof (lf_ded _ _ L1 (LPool uid)) as D. cbn in D. rewrite Hf, Hf1 in D. congruence. }
  assert (Hpid : map p_id (remove_pool (v_pools v1) uid) = map p_id (remove_pool (v_pools v) uid)).
  { pose proof (lf_uids _ _ L1) as Hu. pose proof (lf_pids _ _ L1) as Hp. revert Hu Hp. generalize (v_pools v) as ps. generalize (v_pools v1) as qs.
    induction qs as [|q qs IH]; intros [|p0 ps] Hu Hp; cbn in *; try discriminate; [reflexivity|].
    injection Hu as Hu0 Hu. injection Hp as Hp0 Hp. rewrite Hu0. destruct (p_uid p0 =? uid); [congruence|]. cbn. rewrite Hp0. f_equal. auto. }
  assert (Hids1 : Forall (fun q => p_id q < nextId) (remove_pool (v_pools v1) uid)).
  { apply Forall_forall. intros q Hq. assert (In (p_id q) (map p_id (remove_pool (v_pools v) uid))) by (rewrite <- Hpid; apply in_map; auto).
    apply in_map_iff in H. destruct H as (q0 & E0 & H0). rewrite Forall_forall in Hids. rewrite <- E0. auto. }
  pose proof (VamInvU_remove_pool c v1 [] uid p1 nextId I1 Hf1 ltac:(rewrite Hl1; auto) Hd1 Hids1) as IR.
  split; [exact IR|]. split; [exact T1|]. split; [|exact Hpid].
  cbn. apply find_remove_pool_same. eapply vi_pools_nodup; eauto.
Qed.

Lemma remove_pool_absent ps uid : find_pool ps uid = None -> remove_pool ps uid = ps.
Proof.
  induction ps as [|x ps IH]; cbn; [reflexivity|]. destruct (p_uid x =? uid); [discriminate|]. intros H. rewrite IH; auto.
Qed.

Lemma type_min_alignment_pow2 t : Bits.pow2 (type_min_alignment c t).
Proof.
  unfold type_min_alignment. destruct (non_coherent c t); [|apply Bits.pow2_1]. destruct (c_atom c <? 1) eqn:E; [apply Bits.pow2_1|].
  destruct (co_atom _ Hc) as [H|H]; [apply Z.ltb_ge in E; lia|auto].
Qed.

Lemma eff_granularity_pow2 : Bits.pow2 (eff_granularity c).
Proof.
  unfold eff_granularity. destruct (c_gran c <? 1) eqn:E; [apply Bits.pow2_1|].
  destruct (co_gran _ Hc) as [H|H]; [apply Z.ltb_ge in E; lia|auto].
Qed.

(* no Allocation object refers to list lr: all its blocks are empty *)
Lemma unreferenced_blocks_empty v lr l :
  VamInvU c v [] [] -> get_blist v lr = Some l -> (forall s a, slot_is v s a -> a_lref a <> lr) ->
  forall b, In b (bl_blocks l) -> meta_is_empty (bk_meta b) = true.
Proof.
  intros HI Hg Hno b Hb. pose proof (vi_lists _ _ _ _ HI _ _ Hg) as Hwf. pose proof (bw_meta _ _ Hwf) as Hm. rewrite Forall_forall in Hm.
  destruct (meta_bookkeeping _ (Hm _ Hb)) as (_ & _ & He). apply He.
  destruct (meta_live (bk_meta b)) as [|rg tl] eqn:El; [reflexivity|]. exfalso.
  destruct (vi_tags _ _ _ _ HI _ _ _ rg Hg Hb ltac:(rewrite El; left; reflexivity)) as (s & a & _ & S & _ & L & _).
  eapply Hno; eauto.
Qed.

Lemma vam_eta v : mkVam (v_m v) (v_global v) (v_lists v) (v_ded v) (v_pools v) (v_next_pool_id v) (v_next_uid v) (v_tab v) = v.
Proof. destruct v; reflexivity. Qed.

Lemma rmpool_inv v uid :
  VamInvU c v [] [] ->
  let '(v', r) := pool_destroy c v uid in
  match r with PANIC | STUCK => True | _ => VamInvU c v' [] [] /\ tab_frame v v' [] end.
Proof.
  intros HI.
  assert (Hids : Forall (fun q => p_id q < v_next_pool_id v) (remove_pool (v_pools v) uid)).
  { apply Forall_forall. intros q Hq. destruct (vi_pools_id _ _ _ _ HI) as (_ & Hf). rewrite Forall_forall in Hf. apply Hf.
    eapply in_remove_pool; eauto. }
  pose proof (pool_destroy_inv v uid (v_next_pool_id v) HI Hids) as P.
  destruct (pool_destroy c v uid) as (v' & r) eqn:E. destruct r as [[]|code| |]; auto.
  - destruct P as (I1 & T1 & _ & _).
    assert (En : v_next_pool_id v' = v_next_pool_id v).
    { unfold pool_destroy in E. destruct (find_pool (v_pools v) uid) as [p|]; [|discriminate]. destruct (p_ded p); [|discriminate].
      pose proof (bl_destroy_inv c v [] [] (LPool uid) HI) as BD. destruct (bl_destroy c v (LPool uid)) as (v1 & r1).
      destruct r1 as [[]|code| |]; try discriminate. injection E as <-. cbn. destruct BD as ((_ & _ & L) & _). apply (lf_next _ _ L). }
    rewrite <- En, vam_eta in I1. auto.
  - destruct P as (-> & _). split; [auto|apply tab_frame_refl].
Qed.

Lemma create_pool_inv v ty flags blockSize minB maxB0 minAlign :
  VamInvU c v [] [] ->
  let '(v', r) := create_pool c v ty flags blockSize minB maxB0 minAlign in
  match r with PANIC | STUCK => True | _ => VamInvU c v' [] [] /\ tab_frame v v' [] end.
Proof.
  intros HI. unfold create_pool.
  assert (Hrefl : VamInvU c v [] [] /\ tab_frame v v []) by (split; [auto|apply tab_frame_refl]).
  destruct (_ <? minB); [exact Hrefl|]. destruct ((ty <? 0) || (ntypes c <=? ty)) eqn:Ety; [exact Hrefl|].
  destruct (negb (N.testbit _ _)); [exact Hrefl|]. destruct ((0 <? minAlign) && negb (is_pow2_or_zero minAlign)) eqn:Eal; [exact Hrefl|].
  set (bs := if blockSize =? 0 then preferred_block_size c ty else blockSize).
  set (al := if type_min_alignment c ty <? minAlign then minAlign else type_min_alignment c ty).
  set (gr := if Z.testbit flags 0 then 1 else eff_granularity c).
  set (l := mkBlist ty bs minB (if maxB0 =? 0 then MAXINT else maxB0) gr (negb (blockSize =? 0)) (Z.land flags 2) al [] 0 true).
  set (uid := v_next_uid v).
  assert (Hwf : blist_wf c l).
  { constructor; cbn.
    9: (unfold gr, eff_granularity; destruct (Z.testbit flags 0); auto).
    all: try constructor; try lia.
    - unfold type_valid. apply orb_false_iff in Ety. destruct Ety as (E1 & E2). apply Z.ltb_ge in E1. apply Z.leb_gt in E2.
      apply andb_true_iff. split; [apply Z.leb_le; lia|apply Z.ltb_lt; lia].
    - unfold al. pose proof (type_min_alignment_pow2 ty) as Ht. destruct (type_min_alignment c ty <? minAlign) eqn:E; [|auto].
      apply Z.ltb_lt in E. pose proof (Bits.pow2_pos _ Ht). apply andb_false_iff in Eal. destruct Eal as [Eal|Eal].
      + apply Z.ltb_ge in Eal. lia.
      + apply negb_false_iff in Eal. destruct (pow2_or_zero_spec _ Eal); [lia|auto].
    - unfold gr. destruct (Z.testbit flags 0); [apply Bits.pow2_1|apply eff_granularity_pow2].
    - unfold al. destruct (type_min_alignment c ty <? minAlign) eqn:E; [apply Z.ltb_lt in E|]; unfold type_min_alignment in *; lia. }
  pose proof (VamInvU_add_pool c v [] [] l HI Hwf eq_refl) as I0. fold uid in I0.
  set (v0 := mkVam (v_m v) (v_global v) (v_lists v) (v_ded v) (mkPool uid (v_next_pool_id v) l [] :: v_pools v)
                   (v_next_pool_id v + 1) (uid + 1) (v_tab v)) in *.
  pose proof (create_min_blocks_inv c Hc (Z.to_nat minB) v0 [] [] (LPool uid) bs I0) as CM.
  destruct (create_min_blocks c (Z.to_nat minB) v0 (LPool uid) bs) as (v1 & r).
  destruct CM as (I1 & T1 & L1).
  assert (T01 : tab_frame v v1 []) by (destruct T1 as (A & B); split; auto).
  destruct r as [[]|code| |]; auto.
  (* creation failed: the blocks created so far are released, the pool unlinked, nextPoolId restored *)
  assert (Hfresh : find_pool (v_pools v) uid = None).
  { apply find_pool_none_fresh. eapply Forall_impl; [|exact (vi_pools_uid _ _ _ _ HI)]. cbn. intros; lia. }
  assert (Hu1 : map p_uid (v_pools v1) = uid :: map p_uid (v_pools v)) by (rewrite (lf_uids _ _ L1); reflexivity).
  assert (Hp1 : map p_id (v_pools v1) = v_next_pool_id v :: map p_id (v_pools v)) by (rewrite (lf_pids _ _ L1); reflexivity).
  assert (Hrem : map p_id (remove_pool (v_pools v1) uid) = map p_id (v_pools v)).
  { destruct (v_pools v1) as [|q qs]; cbn in *; [discriminate|]. injection Hu1 as Hq Hu. injection Hp1 as Hq' Hp.
    rewrite Hq, Z.eqb_refl. exact Hp. }
  assert (Hids : Forall (fun q => p_id q < v_next_pool_id v) (remove_pool (v_pools v1) uid)).
  { apply Forall_forall. intros q Hq. assert (In (p_id q) (map p_id (v_pools v))) by (rewrite <- Hrem; apply in_map; auto).
    apply in_map_iff in H. destruct H as (q0 & E0 & H0). destruct (vi_pools_id _ _ _ _ HI) as (_ & Hf). rewrite Forall_forall in Hf. rewrite <- E0. auto. }
  pose proof (pool_destroy_inv v1 uid (v_next_pool_id v) I1 Hids) as PD.
  (* the new pool is not referenced by any Allocation object, so its destruction cannot be refused *)
  assert (Hnoref : forall s a, slot_is v1 s a -> a_lref a <> LPool uid).
  { intros s a S E. assert (S0 : slot_is v s a) by (apply (slot_is_frame _ _ _ _ _ T01) in S; auto).
    destruct (vi_slots _ _ _ _ HI s a S0 (fun H => H)) as [(_ & l2 & _ & _ & G & _)|(_ & _ & (l2 & G & _) & _)];
      rewrite E in G; cbn in G; rewrite Hfresh in G; discriminate. }
  destruct (pool_destroy c v1 uid) as (v2 & dr). destruct dr as [[]|dcode| |]; auto.
  - destruct PD as (I2 & T2 & F2 & _). unfold unlink_pool. rewrite (remove_pool_absent _ _ F2).
    split; [exact I2|]. eapply tab_frame_trans_same; [exact T01|exact T2].
  - exfalso. destruct PD as (_ & p1 & Hf1 & [Hd|(b & Hb & He)]).
    + apply Hd. pose proof (lf_ded _ _ L1 (LPool uid)) as D. cbn in D. rewrite Hf1, Z.eqb_refl in D. exact D.
    + assert (Hg1 : get_blist v1 (LPool uid) = Some (p_list p1)) by (cbn; rewrite Hf1; reflexivity).
      rewrite (unreferenced_blocks_empty v1 (LPool uid) (p_list p1) I1 Hg1 Hnoref b Hb) in He. discriminate.
Qed.

(* ---------------------------------------------------------------- Allocator.Destroy, statistics *)

Definition inv_post (v v' : vam) (r : out unit) : Prop :=
  match r with PANIC | STUCK => True | _ => VamInvU c v' [] [] /\ tab_frame v v' [] end.

Lemma inv_post_refl v r : VamInvU c v [] [] -> inv_post v v r.
Proof. intros H. destruct r; cbn; auto; (split; [auto|apply tab_frame_refl]). Qed.

Lemma destroy_lists_inv n : forall v t, VamInvU c v [] [] -> let '(v', r) := destroy_lists c v n t in inv_post v v' r.
Proof.
  induction n as [|k IH]; intros v t HI; cbn [destroy_lists]; [apply inv_post_refl; auto|].
  destruct (get_blist v (LDef t)); [|apply IH; auto].
  pose proof (bl_destroy_inv c v [] [] (LDef t) HI) as BD.
  destruct (bl_destroy c v (LDef t)) as (v1 & r). destruct r as [[]|code| |]; auto.
  - destruct BD as ((I1 & T1 & L1) & _). specialize (IH v1 (t + 1) I1).
    destruct (destroy_lists c v1 k (t + 1)) as (v2 & r2). destruct r2 as [[]|code| |]; cbn in *; auto;
      destruct IH as (A & B); (split; [auto|eapply tab_frame_trans_same; eauto]).
  - destruct BD as (-> & _). cbn. split; [auto|apply tab_frame_refl].
Qed.

Lemma allocator_destroy_inv v : VamInvU c v [] [] -> let '(v', r) := allocator_destroy c v in inv_post v v' r.
Proof.
  intros HI. unfold allocator_destroy. destruct (existsb _ (v_ded v)); [apply inv_post_refl; auto|].
  destruct (v_pools v); [|apply inv_post_refl; auto]. destruct (existsb list_nonempty _); [apply inv_post_refl; auto|].
  apply destroy_lists_inv. auto.
Qed.

Lemma stats_budgets_same n : forall m h, mach_same m (stats_budgets c m n h).
Proof.
  induction n as [|k IH]; intros m h; cbn [stats_budgets]; [apply mach_same_refl|].
  pose proof (heap_budget_same c m h) as H. destruct (heap_budget c m h) as ((m1 & u) & b). cbn [fst] in H.
  eapply mach_same_trans; [exact H|apply IH].
Qed.

Lemma build_stats_string_inv v : VamInvU c v [] [] -> let '(v', r) := build_stats_string c v in inv_post v v' r.
Proof.
  intros HI. unfold build_stats_string. destruct (calculate_statistics c v); [|exact I].
  cbn. split; [apply VamInvU_mach_same; [auto|apply stats_budgets_same]|apply tab_frame_set_m].
Qed.

(* ---------------------------------------------------------------- resources *)

Definition res_post (v v' : vam) (s : Z) (r : out unit) : Prop :=
  match r with PANIC | STUCK => True | _ => VamInvU c v' [] [] /\ tab_frame v v' [s] end.

Lemma res_post_refl v s r : VamInvU c v [] [] -> res_post v v s r.
Proof. intros H. destruct r; cbn; auto; (split; [auto|apply tab_frame_refl]). Qed.

Lemma bind_memory_inv v s image res off : VamInvU c v [] [] -> let '(v', r) := bind_memory v s image res off in res_post v v' s r.
Proof.
  intros HI. unfold bind_memory. destruct (res =? 0); [apply res_post_refl; auto|]. destruct (negb _); [apply res_post_refl; auto|]. destruct (off <? 0); [apply res_post_refl; auto|].
  match goal with |- context [match ?t with OK _ => _ | ER _ => _ | PANIC => _ | STUCK => _ end] => destruct t as [o|code| |] end;
    try (apply res_post_refl; auto); try exact I.
  pose proof (dev_bind_same (v_m v) image res (a_mem (get_alloc v s)) o) as H.
  destruct (dev_bind (v_m v) image res (a_mem (get_alloc v s)) o) as (m1 & code). cbn [fst] in H.
  assert (P : VamInvU c (set_m v m1) [] [] /\ tab_frame v (set_m v m1) [s]) by (split; [apply VamInvU_mach_same; auto|apply tab_frame_set_m]).
  destruct (code =? 0); exact P.
Qed.

Lemma allocation_free_inv v s :
  VamInvU c v [] [] -> let '(v', r) := allocation_free c v s in res_post v v' s r.
Proof.
  intros HI. unfold allocation_free. destruct (a_allocated (get_alloc v s)) eqn:Ea; cbn [negb]; [|apply res_post_refl; auto].
  assert (Hnd : NoDup [s]) by (constructor; [intros []|constructor]).
  assert (Hlive : live_slots v [] [s]) by (intros x [<-|[]]; split; [intros []|exists (get_alloc v s); apply get_alloc_allocated; auto]).
  pose proof (multi_free_inv [s] v [] HI Hnd Hlive) as P. destruct (multi_free c v [s]) as (v' & r).
  destruct r as [[]|code| |]; auto; cbn; destruct P as (A & B & C); auto.
Qed.

Lemma get_requirements_spec m image id :
  exists m2 rq rd pd, get_requirements c m image id = (m2, rq, rd, pd) /\ mach_same m m2.
Proof.
  unfold get_requirements. pose proof (dev_requirements_same m image id) as H.
  destruct (dev_requirements m image id) as (m2 & rq). cbn [fst] in H. destruct (11 <=? c_api c); eauto 10.
Qed.

Lemma create_resource_inv v s image kind sub devreq resusage minAlign usage flags req pref ctb pool :
  VamInvU c v [] [] -> 0 <= s < zlen (v_tab v) -> a_allocated (get_alloc v s) = false ->
  let '(v', r) := create_resource c v s image kind sub devreq resusage minAlign usage flags req pref ctb pool in res_post v v' s r.
Proof.
  intros HI Hr Hd. unfold create_resource.
  pose proof (dev_create_res_same (v_m v) image kind devreq) as H1.
  destruct (dev_create_res (v_m v) image kind devreq) as ((m1 & code) & id). cbn [fst] in H1.
  destruct (negb (code =? 0)); [cbn; split; [apply VamInvU_mach_same; auto|apply tab_frame_set_m]|].
  destruct (get_requirements_spec m1 image id) as (m2 & rq & rd & pd & Egr & H2). rewrite Egr.
  pose proof (mach_same_trans _ _ _ H1 H2) as H12.
  assert (I2 : VamInvU c (set_m v m2) [] []) by (apply VamInvU_mach_same; auto).
  assert (Hnd : NoDup [s]) by (constructor; [intros []|constructor]).
  assert (Hdead : dead_slots (set_m v m2) [s]) by (intros x [<-|[]]; auto).
  match goal with |- context [multi_allocate c (set_m v m2) ?a1 ?a2 ?a3 ?a4 ?a5 ?a6 ?a7 usage flags req pref ctb pool sub [s]] =>
    pose proof (multi_allocate_inv (set_m v m2) [] a1 a2 a3 a4 a5 a6 a7 usage flags req pref ctb pool sub [s] I2 Hnd Hdead) as MA;
    destruct (multi_allocate c (set_m v m2) a1 a2 a3 a4 a5 a6 a7 usage flags req pref ctb pool sub [s]) as (v3 & r) end.
  destruct r as [[]|acode| |]; auto.
  - destruct MA as (I3 & T3 & L3 & D3).
    assert (T03 : tab_frame v v3 [s]) by (eapply tab_frame_trans_same; [apply tab_frame_set_m|exact T3]).
    destruct (fl flags F_DONTBIND); [cbn; auto|].
    pose proof (bind_memory_inv v3 s image id 0 I3) as B. destruct (bind_memory v3 s image id 0) as (v4 & br).
    destruct br as [[]|bcode| |]; auto.
    + cbn in *. destruct B as (A & B). split; [auto|eapply tab_frame_trans_same; eauto].
    + destruct B as (I4 & T4).
      assert (Hfree : let '(v5, fr) := (if a_allocated (get_alloc v4 s) then multi_free c v4 [s] else (v4, OK tt)) in
                      match fr with PANIC | STUCK => True | _ => VamInvU c v5 [] [] /\ tab_frame v4 v5 [s] end).
      { destruct (a_allocated (get_alloc v4 s)) eqn:Ea; [|split; [auto|apply tab_frame_refl]].
        assert (Hlive : live_slots v4 [] [s]) by (intros x [<-|[]]; split; [intros []|exists (get_alloc v4 s); apply get_alloc_allocated; auto]).
        pose proof (multi_free_inv [s] v4 [] I4 Hnd Hlive) as P. destruct (multi_free c v4 [s]) as (v5 & fr).
        destruct fr as [[]|code5| |]; auto; destruct P as (A & B & C); auto. }
      destruct (if a_allocated (get_alloc v4 s) then multi_free c v4 [s] else (v4, OK tt)) as (v5 & fr).
      destruct fr as [[]|code5| |]; auto; destruct Hfree as (I5 & T5); cbn;
        (split; [apply VamInvU_mach_same; [auto|apply dev_destroy_res_same]|];
         eapply tab_frame_trans_same; [exact T03|]; eapply tab_frame_trans_same; [exact T4|]; eapply tab_frame_trans_same; [exact T5|apply tab_frame_set_m]).
  - destruct MA as (I3 & T3 & L3 & D3). cbn. split; [apply VamInvU_mach_same; [auto|apply dev_destroy_res_same]|].
    eapply tab_frame_trans_same; [apply tab_frame_set_m|]. eapply tab_frame_trans_same; [exact T3|apply tab_frame_set_m].
Qed.

Lemma res_post_of_alloc v v' s r : alloc_post v v' [] [s] r -> res_post v v' s r.
Proof. destruct r as [[]|code| |]; cbn; auto; intros (A & B & _); auto. Qed.

Lemma allocate_for_resource_inv v s image res usage flags req pref ctb pool :
  VamInvU c v [] [] -> 0 <= s < zlen (v_tab v) ->
  let '(v', r) := allocate_for_resource c v s image res usage flags req pref ctb pool in res_post v v' s r.
Proof.
  intros HI Hr. unfold allocate_for_resource. destruct (res =? 0); [apply res_post_refl; auto|].
  destruct (a_allocated (get_alloc v s)) eqn:Ea; [apply res_post_refl; auto|].
  destruct (get_requirements_spec (v_m v) image res) as (m2 & rq & rd & pd & Egr & H2). rewrite Egr.
  assert (I2 : VamInvU c (set_m v m2) [] []) by (apply VamInvU_mach_same; auto).
  assert (Hnd : NoDup [s]) by (constructor; [intros []|constructor]).
  assert (Hdead : dead_slots (set_m v m2) [s]) by (intros x [<-|[]]; auto).
  match goal with |- context [multi_allocate c (set_m v m2) ?a1 ?a2 ?a3 ?a4 ?a5 ?a6 ?a7 usage flags req pref ctb pool ?sb [s]] =>
    pose proof (multi_allocate_inv (set_m v m2) [] a1 a2 a3 a4 a5 a6 a7 usage flags req pref ctb pool sb [s] I2 Hnd Hdead) as MA;
    destruct (multi_allocate c (set_m v m2) a1 a2 a3 a4 a5 a6 a7 usage flags req pref ctb pool sb [s]) as (v3 & r) end.
  apply res_post_of_alloc in MA. destruct r as [[]|code| |]; cbn in *; auto; destruct MA as (A & B);
    (split; [auto|eapply tab_frame_trans_same; [apply tab_frame_set_m|exact B]]).
Qed.

Lemma create_buffer_inv v s size devreq bufUsage minAlign usage flags req pref ctb pool :
  VamInvU c v [] [] -> 0 <= s < zlen (v_tab v) ->
  let '(v', r) := create_buffer c v s size devreq bufUsage minAlign usage flags req pref ctb pool in res_post v v' s r.
Proof.
  intros HI Hr. unfold create_buffer. destruct (a_allocated (get_alloc v s)) eqn:Ea; [apply res_post_refl; auto|].
  destruct (_ && _); [apply res_post_refl; auto|]. destruct (size =? 0); [apply res_post_refl; auto|].
  destruct (_ && _); [apply res_post_refl; auto|]. apply create_resource_inv; auto.
Qed.

Lemma create_image_inv v s tiling width devreq imgUsage usage flags req pref ctb pool :
  VamInvU c v [] [] -> 0 <= s < zlen (v_tab v) ->
  let '(v', r) := create_image c v s tiling width devreq imgUsage usage flags req pref ctb pool in res_post v v' s r.
Proof.
  intros HI Hr. unfold create_image. destruct (a_allocated (get_alloc v s)) eqn:Ea; [apply res_post_refl; auto|].
  destruct (width =? 0); [apply res_post_refl; auto|]. apply create_resource_inv; auto.
Qed.

Lemma destroy_with_resource_inv v s image res :
  VamInvU c v [] [] -> let '(v', r) := destroy_with_resource c v s image res in res_post v v' s r.
Proof.
  intros HI. unfold destroy_with_resource.
  set (v1 := if res =? 0 then v else set_m v (dev_destroy_res (v_m v) image res)).
  assert (I1 : VamInvU c v1 [] [] /\ tab_frame v v1 [s]).
  { unfold v1. destruct (res =? 0); [split; [auto|apply tab_frame_refl]|].
    split; [apply VamInvU_mach_same; [auto|apply dev_destroy_res_same]|apply tab_frame_set_m]. }
  pose proof (allocation_free_inv v1 s (proj1 I1)) as F. destruct (allocation_free c v1 s) as (v2 & r).
  destruct r as [[]|code| |]; cbn in *; auto; destruct F as (A & B); (split; [auto|eapply tab_frame_trans_same; [apply I1|exact B]]).
Qed.

(* ---------------------------------------------------------------- vam.New *)

Lemma init_lists_spec global n : forall i t l,
  nth_z (init_lists c global n i) t = Some (Some l) ->
  0 <= t < Z.of_nat n /\
  l = mkBlist (i + t) (preferred_block_size c (i + t)) 0 MAXINT (eff_granularity c) false 0 (type_min_alignment c (i + t)) [] 0 true.
Proof.
  induction n as [|k IH]; intros i t l; cbn [init_lists].
  - unfold nth_z. destruct (t <? 0); [discriminate|]. destruct (Z.to_nat t); discriminate.
  - unfold nth_z. destruct (t <? 0) eqn:Et; [discriminate|]. apply Z.ltb_ge in Et.
    destruct (Z.to_nat t) as [|m] eqn:Em.
    + assert (t = 0) by lia. subst t. cbn. destruct (N.testbit _ _); [|discriminate]. intros H. injection H as <-.
      rewrite Z.add_0_r. split; [lia|reflexivity].
    + cbn. intros H. assert (Hm : nth_z (init_lists c global k (i + 1)) (t - 1) = Some (Some l)).
      { unfold nth_z. destruct (t - 1 <? 0) eqn:E; [lia|]. replace (Z.to_nat (t - 1)) with m by lia. exact H. }
      destruct (IH _ _ _ Hm) as (Hr & ->). split; [lia|]. replace (i + 1 + (t - 1)) with (i + t) by lia. reflexivity.
Qed.

Lemma init_lists_length global n i : length (init_lists c global n i) = n.
Proof. revert i. induction n as [|k IH]; intros i; cbn; auto. Qed.

Lemma vam_new_inv nslots v : vam_new c nslots = OK v -> VamInvU c v [] [].
Proof.
  unfold vam_new. destruct (negb _); [discriminate|]. destruct (negb _); [discriminate|]. intros H. injection H as <-.
  assert (Hnoslot : forall s a, ~ slot_is (mkVam (set_bud (mkMach [] 0 no_fault 0 Budget.bzero [] [] 0) (Budget.binit (bcfg_of c) (dev_report c (mkMach [] 0 no_fault 0 Budget.bzero [] [] 0))))
                     (Select.global_bits false (types_n c)) (init_lists c (Select.global_bits false (types_n c)) (length (c_types c)) 0)
                     (repeat [] (length (c_types c))) [] 0 1 (repeat alloc_zero nslots)) s a).
  { intros s a (H & Ha). cbn in H. apply nth_z_in in H. apply repeat_spec in H. subst a. cbn in Ha. discriminate. }
  assert (Hlist : forall lr l, get_blist (mkVam (set_bud (mkMach [] 0 no_fault 0 Budget.bzero [] [] 0) (Budget.binit (bcfg_of c) (dev_report c (mkMach [] 0 no_fault 0 Budget.bzero [] [] 0))))
                     (Select.global_bits false (types_n c)) (init_lists c (Select.global_bits false (types_n c)) (length (c_types c)) 0)
                     (repeat [] (length (c_types c))) [] 0 1 (repeat alloc_zero nslots)) lr = Some l ->
                   exists t, lr = LDef t /\ 0 <= t < Z.of_nat (length (c_types c)) /\
                     l = mkBlist t (preferred_block_size c t) 0 MAXINT (eff_granularity c) false 0 (type_min_alignment c t) [] 0 true).
  { intros [t|u] l H; cbn in H; [|discriminate].
    destruct (nth_z _ t) as [[x|]|] eqn:E; try discriminate. injection H as <-.
    destruct (init_lists_spec _ _ _ _ _ E) as (Hr & ->). exists t. split; [auto|]. split; [auto|]. reflexivity. }
  assert (Hded : forall lr, get_dedlist (mkVam (set_bud (mkMach [] 0 no_fault 0 Budget.bzero [] [] 0) (Budget.binit (bcfg_of c) (dev_report c (mkMach [] 0 no_fault 0 Budget.bzero [] [] 0))))
                     (Select.global_bits false (types_n c)) (init_lists c (Select.global_bits false (types_n c)) (length (c_types c)) 0)
                     (repeat [] (length (c_types c))) [] 0 1 (repeat alloc_zero nslots)) lr = []).
  { intros [t|u]; cbn; [|reflexivity]. destruct (nth_z _ t) as [x|] eqn:E; [|reflexivity]. apply nth_z_in in E. apply repeat_spec in E. auto. }
  constructor; cbn [v_lists v_ded v_pools v_next_uid v_next_pool_id v_m v_tab m_mems set_bud m_next].
  - apply init_lists_length.
  - apply repeat_length.
  - intros t l H. destruct (Hlist _ _ H) as (t' & E & _ & ->). injection E as ->. reflexivity.
  - intros lr l H. destruct (Hlist _ _ H) as (t & _ & Hr & ->). constructor; cbn.
    9: (right; reflexivity).
    all: try constructor; try lia.
    + unfold type_valid, ntypes, zlen. apply andb_true_iff. split; [apply Z.leb_le; lia|apply Z.ltb_lt; lia].
    + apply type_min_alignment_pow2.
    + apply eff_granularity_pow2.
    + unfold type_min_alignment. lia.
  - constructor.
  - constructor.
  - split; constructor.
  - constructor.
  - constructor.
  - intros lr l b H Hb. destruct (Hlist _ _ H) as (t & _ & _ & ->). destruct Hb.
  - intros lr1 l1 b1 lr2 l2 b2 H1 B1. destruct (Hlist _ _ H1) as (t & _ & _ & ->). destruct B1.
  - intros s a lr l b S. exfalso. eapply Hnoslot; eauto.
  - intros s1 a1 s2 a2 S. exfalso. eapply Hnoslot; eauto.
  - intros d [].
  - intros s a S. exfalso. eapply Hnoslot; eauto.
  - intros lr l b rg H Hb. destruct (Hlist _ _ H) as (t & _ & _ & ->). destruct Hb.
  - intros lr s. rewrite Hded. intros [].
  - intros lr. rewrite Hded. constructor.
  - intros s [].
  - intros s [].
  - intros s lr l b rg [].
  - lia.
  - constructor.
  - intros s a S. exfalso. eapply Hnoslot; eauto.
  - intros s a l S. exfalso. eapply Hnoslot; eauto.
Qed.
End WithCfg.
