(* VamInvStep2.v — the invariant VamInvU is preserved by the allocator-level functions of Vam.v:
   dedicated allocations, allocateMemoryOfType, the memory-type loop, the free / map / unmap / flush calls,
   pools, Allocator.Destroy, resources; and finally by [step] for every operation and every fault oracle. *)
From Coq Require Import ZArith NArith List Bool Lia.
From Arsenal Require Util Bits SyncMem Budget Select.
From Arsenal Require Import VamDev VamBlockList VamDefrag Vam VamInvMeta VamInv VamInvUpd VamInvDev VamInvStep.
Import ListNotations.
Open Scope Z_scope.

(* ---------------------------------------------------------------- set_dedlist *)

Lemma get_blist_set_dedlist v lr d lr1 : get_blist (set_dedlist v lr d) lr1 = get_blist v lr1.
Proof.
  destruct lr as [t|uid]; cbn; [destruct lr1; reflexivity|].
  destruct (find_pool (v_pools v) uid) as [p|] eqn:E; [|reflexivity].
  destruct lr1 as [t1|uid1]; cbn; [reflexivity|]. destruct (find_pool_in _ _ _ E) as (_ & Hu). subst uid.
  destruct (Z.eq_dec uid1 (p_uid p)) as [->|Hne].
  - pose proof (find_replace_pool_same (v_pools v) (mkPool (p_uid p) (p_id p) (p_list p) d)) as H. cbn in H.
    rewrite H, E by congruence. reflexivity.
  - rewrite find_replace_pool_other by (cbn; congruence). reflexivity.
Qed.

Lemma get_dedlist_set_dedlist_same v lr l d : get_blist v lr = Some l -> length (v_ded v) = length (v_lists v) ->
  get_dedlist (set_dedlist v lr d) lr = d.
Proof.
  intros Hg Hlen. destruct lr as [t|uid]; cbn in *.
  - destruct (nth_z (v_lists v) t) as [x|] eqn:E; [|discriminate]. apply nth_z_some_range in E.
    rewrite nth_z_set_same; [reflexivity|]. unfold zlen in *. lia.
  - destruct (find_pool (v_pools v) uid) as [p|] eqn:E; [|discriminate]. cbn.
    destruct (find_pool_in _ _ _ E) as (_ & Hu). subst uid.
    pose proof (find_replace_pool_same (v_pools v) (mkPool (p_uid p) (p_id p) (p_list p) d)) as H. cbn in H.
    rewrite H by congruence. reflexivity.
Qed.

Lemma get_dedlist_set_dedlist_other v lr d lr1 : lr1 <> lr -> get_dedlist (set_dedlist v lr d) lr1 = get_dedlist v lr1.
Proof.
  intros Hne. destruct lr as [t|uid], lr1 as [t1|uid1]; cbn; try reflexivity.
  - rewrite nth_z_set_other; [reflexivity|congruence].
  - destruct (find_pool (v_pools v) uid); reflexivity.
  - destruct (find_pool (v_pools v) uid) as [p|] eqn:E; [|reflexivity]. cbn.
    destruct (find_pool_in _ _ _ E) as (_ & Hu). subst uid.
    rewrite find_replace_pool_other by (cbn; congruence). reflexivity.
Qed.

Lemma set_dedlist_tab v lr d : v_tab (set_dedlist v lr d) = v_tab v.
Proof. destruct lr; cbn; [reflexivity|]. destruct (find_pool _ _); reflexivity. Qed.
Lemma set_dedlist_m v lr d : v_m (set_dedlist v lr d) = v_m v.
Proof. destruct lr; cbn; [reflexivity|]. destruct (find_pool _ _); reflexivity. Qed.
Lemma set_dedlist_lists v lr d : v_lists (set_dedlist v lr d) = v_lists v.
Proof. destruct lr; cbn; [reflexivity|]. destruct (find_pool _ _); reflexivity. Qed.
Lemma set_dedlist_ded_len v lr d : length (v_ded (set_dedlist v lr d)) = length (v_ded v).
Proof. destruct lr; cbn; [apply set_nth_z_length|]. destruct (find_pool _ _); reflexivity. Qed.
Lemma set_dedlist_uids v lr d : map p_uid (v_pools (set_dedlist v lr d)) = map p_uid (v_pools v).
Proof. destruct lr; cbn; [reflexivity|]. destruct (find_pool _ _); cbn; [apply replace_pool_uids|reflexivity]. Qed.
Lemma set_dedlist_pids v lr d : map p_id (v_pools (set_dedlist v lr d)) = map p_id (v_pools v).
Proof.
  destruct lr as [t|uid]; cbn; [reflexivity|]. destruct (find_pool _ _) as [p|] eqn:E; cbn; [|reflexivity].
  destruct (find_pool_in _ _ _ E) as (_ & Hu). subst uid. eapply replace_pool_ids; cbn; eauto.
Qed.
Lemma set_dedlist_next_uid v lr d : v_next_uid (set_dedlist v lr d) = v_next_uid v.
Proof. destruct lr; cbn; [reflexivity|]. destruct (find_pool _ _); reflexivity. Qed.
Lemma set_dedlist_next_pid v lr d : v_next_pool_id (set_dedlist v lr d) = v_next_pool_id v.
Proof. destruct lr; cbn; [reflexivity|]. destruct (find_pool _ _); reflexivity. Qed.
Lemma set_dedlist_global v lr d : v_global (set_dedlist v lr d) = v_global v.
Proof. destruct lr; cbn; [reflexivity|]. destruct (find_pool _ _); reflexivity. Qed.

Lemma tab_frame_set_dedlist v lr d S : tab_frame v (set_dedlist v lr d) S.
Proof. split; rewrite set_dedlist_tab; auto. Qed.

(* frames without the dedicated lists (they change when dedicated allocations are registered or freed) *)
Record lists_frame' (v v' : vam) : Prop := mkListsFrame' {
  lf'_some : forall lr l, get_blist v lr = Some l -> exists l', get_blist v' lr = Some l' /\ blist_cfg_same l l';
  lf'_none : forall lr, get_blist v lr = None -> get_blist v' lr = None;
  lf'_global : v_global v' = v_global v
}.

Lemma lists_frame_weak v v' : lists_frame v v' -> lists_frame' v v'.
Proof. intros [A B C D]. constructor; auto. Qed.

Lemma lists_frame'_refl v : lists_frame' v v.
Proof. apply lists_frame_weak. apply lists_frame_refl. Qed.

Lemma lists_frame'_trans v1 v2 v3 : lists_frame' v1 v2 -> lists_frame' v2 v3 -> lists_frame' v1 v3.
Proof.
  intros [A1 A2 A3] [B1 B2 B3]. constructor.
  - intros lr l H. destruct (A1 _ _ H) as (l2 & H2 & C2). destruct (B1 _ _ H2) as (l3 & H3 & C3).
    exists l3. split; [auto|eapply blist_cfg_same_trans; eauto].
  - auto.
  - congruence.
Qed.

Lemma lists_frame'_set_dedlist v lr d : lists_frame' v (set_dedlist v lr d).
Proof.
  constructor.
  - intros lr1 l H. exists l. rewrite get_blist_set_dedlist. split; [auto|apply blist_cfg_same_refl].
  - intros lr1 H. rewrite get_blist_set_dedlist. auto.
  - apply set_dedlist_global.
Qed.

Section WithCfg.
Variable c : vcfg.
Hypothesis Hc : cfg_ok c.

(* ---------------------------------------------------------------- dedicated allocations *)

Lemma ded_page_inv v U X lr l ty size sub doMap allowed s ded :
  VamInvU c v U X -> get_blist v lr = Some l -> bl_type l = ty ->
  0 <= s < zlen (v_tab v) -> a_allocated (get_alloc v s) = false ->
  let '(v', r) := allocate_dedicated_page c v lr ty size sub doMap allowed s ded in
  match r with
  | OK _ => VamInvU c v' (s :: U) X /\ tab_frame v v' [s] /\ lists_frame v v' /\
            exists a, slot_is v' s a /\ a_kind a = 2 /\ a_lref a = lr
  | ER _ => VamInvU c v' U X /\ tab_frame v v' [s] /\ lists_frame v v' /\ a_allocated (get_alloc v' s) = false
  | _ => True
  end.
Proof.
  intros HI Hg Hty Hs Hdead. unfold allocate_dedicated_page.
  pose proof (alloc_vk_spec c (v_m v) ty size ded (vi_dev_pos _ _ _ _ HI)) as A.
  destruct (alloc_vk c (v_m v) ty size ded) as (m1 & r).
  assert (Hfail : forall m', mach_same (v_m v) m' ->
            VamInvU c (set_m v m') U X /\ tab_frame v (set_m v m') [s] /\ lists_frame v (set_m v m') /\
            a_allocated (get_alloc (set_m v m') s) = false).
  { intros m' H. split; [apply VamInvU_mach_same; auto|]. split; [apply tab_frame_set_m|]. split; [apply lists_frame_set_m|auto]. }
  destruct r as [mem|code| |]; auto.
  destruct A as (A1 & A2 & A3 & A4 & A5).
  set (d := mkDmem mem ty size false).
  assert (Hmap : forall m2 s2 (mr : out unit), (if doMap then sm_map c m1 mem SyncMem.sm_init else (m1, SyncMem.sm_init, OK tt)) = (m2, s2, mr) ->
            mach_same m1 m2 /\ m_next m2 = m_next m1).
  { intros m2 s2 mr E. destruct doMap.
    - pose proof (sm_map_same c m1 mem SyncMem.sm_init) as H. pose proof (sm_map_next c m1 mem SyncMem.sm_init) as H'.
      rewrite E in H, H'. auto.
    - injection E as <- _ _. split; [apply mach_same_refl|reflexivity]. }
  destruct (if doMap then sm_map c m1 mem SyncMem.sm_init else (m1, SyncMem.sm_init, OK tt)) as ((m2 & s2) & mr) eqn:Emap.
  destruct (Hmap _ _ _ eq_refl) as (Hm12 & Hn2).
  assert (Hms : mems_same (m_mems (v_m v) ++ [d]) (m_mems m2)) by (rewrite <- A3; apply Hm12).
  assert (Hfresh : forall x, In x (m_mems (v_m v)) -> dm_id x <> dm_id d).
  { intros x Hx. pose proof (vi_dev_next _ _ _ _ HI) as Hn. rewrite Forall_forall in Hn. specialize (Hn x Hx). cbn. lia. }
  destruct mr as [[]|code| |]; auto.
  - destruct (SyncMem.mapped s2 && negb allowed); [exact I|].
    set (a := mkAlloc true 2 size 0 ty sub (SyncMem.mapped s2) allowed lr (-1) 0 mem s2 false).
    assert (HI1 : VamInvU c (set_alloc (set_m v m2) s a) (s :: U) X).
    { eapply VamInvU_add_ded with (d := d) (l := l); eauto; cbn; auto; try lia. }
    split; [apply VamInvU_mach_same; [exact HI1|apply add_allocation_same]|].
    split; [eapply tab_frame_trans_same; [eapply tab_frame_trans_same; [apply tab_frame_set_m|apply tab_frame_set_alloc]|apply tab_frame_set_m]|].
    split; [eapply lists_frame_trans; [eapply lists_frame_trans; [apply lists_frame_set_m|apply lists_frame_set_alloc]|apply lists_frame_set_m]|].
    exists a. split; [|auto]. apply slot_is_set_m. apply slot_is_set_alloc_same; auto.
  - pose proof (free_vk_spec c m2 ty size mem) as (F1 & F2). pose proof (free_vk_no_error c m2 ty size mem) as NE.
    destruct (free_vk c m2 ty size mem) as (m3 & fr). cbn [fst snd] in *.
    assert (Hm3 : mach_same (v_m v) m3).
    { split; [rewrite F1; apply (mems_same_remove_added _ _ d); auto|]. rewrite F2, Hn2. lia. }
    destruct fr as [[]|code2| |]; auto. contradiction.
Qed.
End WithCfg.
