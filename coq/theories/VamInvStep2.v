(* VamInvStep2.v — the invariant VamInvU is preserved by the allocator-level functions of Vam.v:
   dedicated allocations, allocateMemoryOfType, the memory-type loop, the free / map / unmap / flush calls,
   pools, Allocator.Destroy, resources; and finally by [step] for every operation and every fault oracle. *)
From Coq Require Import ZArith NArith List Bool Lia.
From Arsenal Require Util Bits SyncMem Budget Select.
From Arsenal Require Import VamDev VamBlockList VamDefrag Vam VamInvMeta VamInv VamInvUpd VamInvDev VamInvStep.
Import ListNotations.
Open Scope Z_scope.

(* ---------------------------------------------------------------- set_dedlist *)

Lemma get_blist_set_dedlist v lr d lr1 : get_blist (set_dedlist v lr d) lr1 = get_blist v lr1.
Proof.
  destruct lr as [t|uid]; cbn; [destruct lr1; reflexivity|].
  destruct (find_pool (v_pools v) uid) as [p|] eqn:E; [|reflexivity].
  destruct lr1 as [t1|uid1]; cbn; [reflexivity|]. destruct (find_pool_in _ _ _ E) as (_ & Hu). subst uid.
  destruct (Z.eq_dec uid1 (p_uid p)) as [->|Hne].
  - pose proof (find_replace_pool_same (v_pools v) (mkPool (p_uid p) (p_id p) (p_list p) d)) as H. cbn in H.
    rewrite H, E by congruence. reflexivity.
  - rewrite find_replace_pool_other by (cbn; congruence). reflexivity.
Qed.

Lemma get_dedlist_set_dedlist_same v lr l d : get_blist v lr = Some l -> length (v_ded v) = length (v_lists v) ->
  get_dedlist (set_dedlist v lr d) lr = d.
Proof.
  intros Hg Hlen. destruct lr as [t|uid]; cbn in *.
  - destruct (nth_z (v_lists v) t) as [x|] eqn:E; [|discriminate]. apply nth_z_some_range in E.
    rewrite nth_z_set_same; [reflexivity|]. unfold zlen in *. lia.
  - destruct (find_pool (v_pools v) uid) as [p|] eqn:E; [|discriminate]. cbn.
    destruct (find_pool_in _ _ _ E) as (_ & Hu). subst uid.
    pose proof (find_replace_pool_same (v_pools v) (mkPool (p_uid p) (p_id p) (p_list p) d)) as H. cbn in H.
    rewrite H by congruence. reflexivity.
Qed.

Lemma get_dedlist_set_dedlist_other v lr d lr1 : lr1 <> lr -> get_dedlist (set_dedlist v lr d) lr1 = get_dedlist v lr1.
Proof.
  intros Hne. destruct lr as [t|uid], lr1 as [t1|uid1]; cbn; try reflexivity.
  - rewrite nth_z_set_other; [reflexivity|congruence].
  - destruct (find_pool (v_pools v) uid); reflexivity.
  - destruct (find_pool (v_pools v) uid) as [p|] eqn:E; [|reflexivity]. cbn.
    destruct (find_pool_in _ _ _ E) as (_ & Hu). subst uid.
    rewrite find_replace_pool_other by (cbn; congruence). reflexivity.
Qed.

Lemma set_dedlist_tab v lr d : v_tab (set_dedlist v lr d) = v_tab v.
Proof. destruct lr; cbn; [reflexivity|]. destruct (find_pool _ _); reflexivity. Qed.
Lemma set_dedlist_m v lr d : v_m (set_dedlist v lr d) = v_m v.
Proof. destruct lr; cbn; [reflexivity|]. destruct (find_pool _ _); reflexivity. Qed.
Lemma set_dedlist_lists v lr d : v_lists (set_dedlist v lr d) = v_lists v.
Proof. destruct lr; cbn; [reflexivity|]. destruct (find_pool _ _); reflexivity. Qed.
Lemma set_dedlist_ded_len v lr d : length (v_ded (set_dedlist v lr d)) = length (v_ded v).
Proof. destruct lr; cbn; [apply set_nth_z_length|]. destruct (find_pool _ _); reflexivity. Qed.
Lemma set_dedlist_uids v lr d : map p_uid (v_pools (set_dedlist v lr d)) = map p_uid (v_pools v).
Proof. destruct lr; cbn; [reflexivity|]. destruct (find_pool _ _); cbn; [apply replace_pool_uids|reflexivity]. Qed.
Lemma set_dedlist_pids v lr d : map p_id (v_pools (set_dedlist v lr d)) = map p_id (v_pools v).
Proof.
  destruct lr as [t|uid]; cbn; [reflexivity|]. destruct (find_pool _ _) as [p|] eqn:E; cbn; [|reflexivity].
  destruct (find_pool_in _ _ _ E) as (_ & Hu). subst uid. eapply replace_pool_ids; cbn; eauto.
Qed.
Lemma set_dedlist_next_uid v lr d : v_next_uid (set_dedlist v lr d) = v_next_uid v.
Proof. destruct lr; cbn; [reflexivity|]. destruct (find_pool _ _); reflexivity. Qed.
Lemma set_dedlist_next_pid v lr d : v_next_pool_id (set_dedlist v lr d) = v_next_pool_id v.
Proof. destruct lr; cbn; [reflexivity|]. destruct (find_pool _ _); reflexivity. Qed.
Lemma set_dedlist_global v lr d : v_global (set_dedlist v lr d) = v_global v.
Proof. destruct lr; cbn; [reflexivity|]. destruct (find_pool _ _); reflexivity. Qed.

Lemma tab_frame_set_dedlist v lr d S : tab_frame v (set_dedlist v lr d) S.
Proof. split; rewrite set_dedlist_tab; auto. Qed.

(* frames without the dedicated lists (they change when dedicated allocations are registered or freed) *)
Record lists_frame' (v v' : vam) : Prop := mkListsFrame' {
  lf'_some : forall lr l, get_blist v lr = Some l -> exists l', get_blist v' lr = Some l' /\ blist_cfg_same l l';
  lf'_none : forall lr, get_blist v lr = None -> get_blist v' lr = None;
  lf'_global : v_global v' = v_global v
}.

Lemma lists_frame_weak v v' : lists_frame v v' -> lists_frame' v v'.
Proof. intros [A B C D]. constructor; auto. Qed.

Lemma lists_frame'_refl v : lists_frame' v v.
Proof. apply lists_frame_weak. apply lists_frame_refl. Qed.

Lemma lists_frame'_trans v1 v2 v3 : lists_frame' v1 v2 -> lists_frame' v2 v3 -> lists_frame' v1 v3.
Proof.
  intros [A1 A2 A3] [B1 B2 B3]. constructor.
  - intros lr l H. destruct (A1 _ _ H) as (l2 & H2 & C2). destruct (B1 _ _ H2) as (l3 & H3 & C3).
    exists l3. split; [auto|eapply blist_cfg_same_trans; eauto].
  - auto.
  - congruence.
Qed.

Lemma lists_frame'_set_dedlist v lr d : lists_frame' v (set_dedlist v lr d).
Proof.
  constructor.
  - intros lr1 l H. exists l. rewrite get_blist_set_dedlist. split; [auto|apply blist_cfg_same_refl].
  - intros lr1 H. rewrite get_blist_set_dedlist. auto.
  - apply set_dedlist_global.
Qed.

Section WithCfg.
Variable c : vcfg.
Hypothesis Hc : cfg_ok c.

(* ---------------------------------------------------------------- dedicated allocations *)

Lemma ded_page_inv v U X lr l ty size sub doMap allowed s ded :
  VamInvU c v U X -> get_blist v lr = Some l -> bl_type l = ty ->
  0 <= s < zlen (v_tab v) -> a_allocated (get_alloc v s) = false ->
  let '(v', r) := allocate_dedicated_page c v lr ty size sub doMap allowed s ded in
  match r with
  | OK _ => VamInvU c v' (s :: U) X /\ tab_frame v v' [s] /\ lists_frame v v' /\
            exists a, slot_is v' s a /\ a_kind a = 2 /\ a_lref a = lr
  | ER _ => VamInvU c v' U X /\ tab_frame v v' [s] /\ lists_frame v v' /\ a_allocated (get_alloc v' s) = false
  | _ => True
  end.
Proof.
  intros HI Hg Hty Hs Hdead. unfold allocate_dedicated_page.
  pose proof (alloc_vk_spec c (v_m v) ty size ded (vi_dev_pos _ _ _ _ HI)) as A.
  destruct (alloc_vk c (v_m v) ty size ded) as (m1 & r).
  assert (Hfail : forall m', mach_same (v_m v) m' ->
            VamInvU c (set_m v m') U X /\ tab_frame v (set_m v m') [s] /\ lists_frame v (set_m v m') /\
            a_allocated (get_alloc (set_m v m') s) = false).
  { intros m' H. split; [apply VamInvU_mach_same; auto|]. split; [apply tab_frame_set_m|]. split; [apply lists_frame_set_m|auto]. }
  destruct r as [mem|code| |]; auto.
  destruct A as (A1 & A2 & A3 & A4 & A5).
  set (d := mkDmem mem ty size false).
  assert (Hmap : forall m2 s2 (mr : out unit), (if doMap then sm_map c m1 mem SyncMem.sm_init else (m1, SyncMem.sm_init, OK tt)) = (m2, s2, mr) ->
            mach_same m1 m2 /\ m_next m2 = m_next m1).
  { intros m2 s2 mr E. destruct doMap.
    - pose proof (sm_map_same c m1 mem SyncMem.sm_init) as H. pose proof (sm_map_next c m1 mem SyncMem.sm_init) as H'.
      rewrite E in H, H'. auto.
    - injection E as <- _ _. split; [apply mach_same_refl|reflexivity]. }
  destruct (if doMap then sm_map c m1 mem SyncMem.sm_init else (m1, SyncMem.sm_init, OK tt)) as ((m2 & s2) & mr) eqn:Emap.
  destruct (Hmap _ _ _ eq_refl) as (Hm12 & Hn2).
  assert (Hms : mems_same (m_mems (v_m v) ++ [d]) (m_mems m2)) by (unfold d; rewrite <- A3; apply Hm12).
  assert (Hfresh : forall x, In x (m_mems (v_m v)) -> dm_id x <> dm_id d).
  { intros x Hx. pose proof (vi_dev_next _ _ _ _ HI) as Hn. rewrite Forall_forall in Hn. specialize (Hn x Hx). cbn. lia. }
  destruct mr as [[]|code| |]; auto.
  - destruct (SyncMem.mapped s2 && negb allowed); [exact I|].
    set (a := mkAlloc true 2 size 0 ty sub (SyncMem.mapped s2) allowed lr (-1) 0 mem s2 false).
    assert (HI1 : VamInvU c (set_alloc (set_m v m2) s a) (s :: U) X).
    { eapply VamInvU_add_ded with (d := d) (l := l); eauto; cbn; auto; try lia. }
    split; [apply VamInvU_mach_same; [exact HI1|apply add_allocation_same]|].
    split; [eapply tab_frame_trans_same; [eapply tab_frame_trans_same; [apply tab_frame_set_m|apply tab_frame_set_alloc]|apply tab_frame_set_m]|].
    split; [eapply lists_frame_trans; [eapply lists_frame_trans; [apply lists_frame_set_m|apply lists_frame_set_alloc]|apply lists_frame_set_m]|].
    exists a. split; [|auto]. apply slot_is_set_m. apply slot_is_set_alloc_same; auto.
  - pose proof (free_vk_spec c m2 ty size mem) as (F1 & F2). pose proof (free_vk_no_error c m2 ty size mem) as NE.
    destruct (free_vk c m2 ty size mem) as (m3 & fr). cbn [fst snd] in *.
    assert (Hm3 : mach_same (v_m v) m3).
    { split; [rewrite F1; apply (mems_same_remove_added _ _ d); auto|]. rewrite F2, Hn2. lia. }
    destruct fr as [[]|code2| |]; [apply Hfail; exact Hm3|contradiction|exact I|exact I].
Qed.

Lemma NoDup_app_r {A} (a b : list A) : NoDup (a ++ b) -> NoDup b.
Proof. induction a as [|x a IH]; cbn; auto. intros H. inversion H; subst. auto. Qed.

(* dedicated allocations of list lr made by the running call: allocated, kind 2, not yet registered *)
Definition ded_slots (v : vam) (lr : lref) (slots : list Z) : Prop :=
  forall s, In s slots -> exists a, slot_is v s a /\ a_kind a = 2 /\ a_lref a = lr.

Lemma ded_slots_frame v v' lr S slots :
  ded_slots v lr slots -> tab_frame v v' S -> (forall s, In s slots -> ~ In s S) -> ded_slots v' lr slots.
Proof.
  intros H T Hd s Hs. destruct (H s Hs) as (a & Sa & R). exists a. split; [|auto]. apply (slot_is_frame _ _ _ _ _ T); auto.
Qed.

Lemma dedicated_loop_inv slots : forall v X lr l ty size sub doMap allowed done ded,
  VamInvU c v done X -> get_blist v lr = Some l -> bl_type l = ty -> NoDup (slots ++ done) ->
  dead_slots v slots -> ded_slots v lr done ->
  let '(v', r, done') := dedicated_loop c v lr ty size sub doMap allowed slots done ded in
  match r with
  | PANIC | STUCK => True
  | _ =>
    VamInvU c v' done' X /\ tab_frame v v' slots /\ lists_frame v v' /\ ded_slots v' lr done' /\ NoDup done' /\
    (forall s, In s done -> In s done') /\ (forall s, In s done' -> In s (slots ++ done)) /\
    match r with
    | OK _ => forall s, In s slots -> In s done'
    | _ => forall s, In s slots -> In s done' \/ (0 <= s < zlen (v_tab v') /\ a_allocated (get_alloc v' s) = false)
    end
  end.
Proof.
  induction slots as [|s tl IH]; intros v X lr l ty size sub doMap allowed done ded HI Hg Hty Hnd Hdead Hdone; cbn [dedicated_loop].
  - split; [auto|]. split; [apply tab_frame_refl|]. split; [apply lists_frame_refl|]. split; [auto|].
    split; [rewrite app_nil_l in Hnd; auto|]. split; [auto|]. split; [auto|]. intros ? [].
  - destruct (Hdead s (or_introl eq_refl)) as (Hr & Hd).
    pose proof (ded_page_inv v done X lr l ty size sub doMap allowed s ded HI Hg Hty Hr Hd) as P.
    destruct (allocate_dedicated_page c v lr ty size sub doMap allowed s ded) as (v1 & r).
    cbn [app] in Hnd. inversion Hnd as [|? ? Hns Hnd']; subst.
    assert (Hnd_done : NoDup done) by (apply NoDup_app_r in Hnd'; auto).
    assert (Hdone1 : tab_frame v v1 [s] -> ded_slots v1 lr done).
    { intros T. eapply ded_slots_frame; [exact Hdone|exact T|]. intros s1 H1 [<-|[]]. apply Hns. apply in_app_iff. auto. }
    assert (Hdead1 : tab_frame v v1 [s] -> dead_slots v1 tl).
    { intros T. eapply dead_slots_frame; [intros s1 H1; apply Hdead; right; exact H1|exact T|].
      intros s1 H1 [<-|[]]. apply Hns. apply in_app_iff. auto. }
    destruct r as [[]|code| |]; auto.
    + destruct P as (I1 & T1 & L1 & (a & Sa & Ka & La)).
      assert (Hnd1 : NoDup (tl ++ s :: done)).
      { eapply Permutation.Permutation_NoDup; [apply Permutation.Permutation_middle|exact Hnd]. }
      assert (Hds1 : ded_slots v1 lr (s :: done)).
      { intros x [<-|Hx]; [eauto|apply (Hdone1 T1); auto]. }
      destruct (lf_some _ _ L1 _ _ Hg) as (l1 & Hg1 & C1).
      assert (Hty1 : bl_type l1 = bl_type l) by (apply C1).
      specialize (IH v1 X lr l1 (bl_type l) size sub doMap allowed (s :: done) ded I1 Hg1 Hty1 Hnd1 (Hdead1 T1) Hds1).
      destruct (dedicated_loop c v1 lr (bl_type l) size sub doMap allowed tl (s :: done) ded) as ((v2 & r2) & done2).
      destruct r2 as [[]|code| |]; auto; destruct IH as (I2 & T2 & L2 & D2 & N2 & S2 & Q2 & O2);
        (split; [auto|]);
        (split; [eapply tab_frame_trans; [exact T1|exact T2|intros ? [<-|[]]; left; reflexivity|intros; right; auto]|]);
        (split; [eapply lists_frame_trans; eauto|]); (split; [auto|]); (split; [auto|]);
        (split; [intros x Hx; apply S2; right; auto|]);
        (split; [intros x Hx; specialize (Q2 x Hx); apply in_app_iff in Q2; destruct Q2 as [H|[<-|H]];
                 [right; apply in_app_iff; auto|left; reflexivity|right; apply in_app_iff; auto]|]).
      * intros x [<-|Hx]; [apply S2; left; reflexivity|auto].
      * intros x [<-|Hx]; [left; apply S2; left; reflexivity|auto].
    + destruct P as (I1 & T1 & L1 & D1). split; [auto|].
      split; [eapply tab_frame_weaken; [exact T1|intros ? [<-|[]]; left; reflexivity]|]. split; [auto|].
      split; [apply Hdone1; auto|]. split; [auto|]. split; [auto|].
      split; [intros x Hx; right; apply in_app_iff; auto|].
      intros x [<-|Hx]; right.
      * split; [destruct T1 as (E & _); lia|auto].
      * apply (Hdead1 T1). auto.
Qed.

Lemma dedicated_rollback_inv done : forall v X lr ty,
  VamInvU c v done X -> NoDup done -> ded_slots v lr done ->
  let '(v', r) := dedicated_rollback c v ty done in
  match r with
  | OK _ => VamInvU c v' [] X /\ tab_frame v v' done /\ lists_frame v v' /\ dead_slots v' done
  | ER _ => False
  | _ => True
  end.
Proof.
  induction done as [|s tl IH]; intros v X lr ty HI Hnd Hds; cbn [dedicated_rollback].
  - split; [auto|]. split; [apply tab_frame_refl|]. split; [apply lists_frame_refl|intros ? []].
  - inversion Hnd as [|? ? Hns Hnd']; subst.
    destruct (Hds s (or_introl eq_refl)) as (a & Sa & Ka & La). rewrite (get_alloc_slot _ _ _ Sa).
    pose proof (free_vk_spec c (v_m v) ty (a_size a) (a_mem a)) as (F1 & F2).
    pose proof (free_vk_no_error c (v_m v) ty (a_size a) (a_mem a)) as NE.
    destruct (free_vk c (v_m v) ty (a_size a) (a_mem a)) as (m1 & fr). cbn [fst snd] in *.
    destruct fr as [[]|code| |]; auto.
    pose proof (remove_allocation_no_error c m1 (type_heap c ty) (a_size a)) as NE2.
    unfold remove_allocation in *. destruct (Budget.remove_alloc _ _ _ _) as ((b2 & r2) & cs2). cbn [snd] in NE2.
    set (m2 := set_bud m1 b2) in *.
    set (v1 := set_alloc (set_m v m2) s (set_allocated a false)).
    assert (I1 : VamInvU c v1 tl X).
    { apply (VamInvU_remove_ded c v v1 (s :: tl) tl X s a HI Sa Ka); unfold v1.
      - intros lr1. rewrite get_blist_set_alloc. apply get_blist_set_m.
      - reflexivity.
      - cbn. exact F1.
      - cbn. exact F2.
      - reflexivity.
      - reflexivity.
      - reflexivity.
      - reflexivity.
      - reflexivity.
      - reflexivity.
      - intros lr1 x. rewrite get_dedlist_set_alloc, get_dedlist_set_m. split; [|tauto]. intros Hin. split; [auto|]. intros ->.
        destruct (vi_dedlists _ _ _ _ HI _ _ Hin) as (a2 & S2 & K2 & L2).
        assert (a2 = a) by (destruct S2, Sa; congruence). subst a2.
        destruct (vi_unreg _ _ _ _ HI s (or_introl eq_refl)) as (a3 & S3 & K3 & N3).
        assert (a3 = a) by (destruct S3, Sa; congruence). subst a3. apply N3. rewrite L2. exact Hin.
      - intros lr1. rewrite get_dedlist_set_alloc, get_dedlist_set_m. eapply vi_dedlists_nodup; eauto.
      - intros x. split; [intros Hx; split; [right; auto|intros ->; contradiction]|intros ([<-|Hx] & Hne); [contradiction|auto]]. }
    assert (T1 : tab_frame v v1 [s]) by (unfold v1; eapply tab_frame_trans_same; [apply tab_frame_set_m|apply tab_frame_set_alloc]).
    assert (L1 : lists_frame v v1) by (unfold v1; eapply lists_frame_trans; [apply lists_frame_set_m|apply lists_frame_set_alloc]).
    destruct r2; try exact I; try contradiction.
    assert (Hds1 : ded_slots v1 lr tl).
    { eapply ded_slots_frame; [intros x Hx; apply Hds; right; exact Hx|exact T1|]. intros x Hx [<-|[]]. contradiction. }
    specialize (IH v1 X lr ty I1 Hnd' Hds1). fold m2. fold v1.
    destruct (dedicated_rollback c v1 ty tl) as (v2 & r3). destruct r3 as [[]|code| |]; auto.
    destruct IH as (I2 & T2 & L2 & D2). split; [auto|].
    split; [eapply tab_frame_trans; [exact T1|exact T2|intros ? [<-|[]]; left; reflexivity|intros; right; auto]|].
    split; [eapply lists_frame_trans; eauto|].
    intros x [<-|Hx]; [|apply D2; auto].
    split; [destruct T2 as (E & _); destruct T1 as (E1 & _); rewrite E, E1; eapply slot_is_range; eauto|].
    rewrite (get_alloc_frame _ _ _ _ T2) by auto. unfold v1, get_alloc. cbn.
    rewrite nth_z_set_same by (eapply slot_is_range; eauto). reflexivity.
Qed.
End WithCfg.
