(* VamDev.v — lowest layer of the whole-allocator model (Vam.v): configuration, the simulated device
   (harness/internal/simvk/device.go: ground truth about VkDeviceMemory objects, natural refusals, fault
   injection, the call log), and the wrappers that run the validated component models
   Budget.v (vam/internal/vulkan/device_memory.go) and SyncMem.v (sync_memory.go) against that device.

   A "machine" [mach] is everything below the allocator: device + armed fault + budget counters + the log
   of driver calls of the current step (newest first).  Every function returns the new machine and an
   outcome; Go panics are PANIC, broken representation invariants of the model itself are STUCK. *)
From Coq Require Import ZArith NArith List Bool Lia.
From Arsenal Require Util SyncMem Budget.
Import ListNotations.
Open Scope Z_scope.

Definition MAXINT : Z := 9223372036854775807.

(* VkResult values *)
Definition VK_OOHM : Z := -1.        (* OutOfHostMemory *)
Definition VK_OODM : Z := -2.        (* OutOfDeviceMemory *)
Definition VK_MAPFAIL : Z := -5.     (* MemoryMapFailed *)
Definition VK_NOFEATURE : Z := -8.   (* FeatureNotPresent *)
Definition VK_TOOMANY : Z := -10.    (* TooManyObjects *)
Definition VK_UNKNOWN : Z := -13.

(* outcome of a modelled Go function: value | (VkResult, error) | panic | model stuck.
   ER 0 is an error that carries no VkResult (functions returning only `error`). *)
Inductive out (A : Type) := OK (a : A) | ER (code : Z) | PANIC | STUCK.
Arguments OK {A} a. Arguments ER {A} code. Arguments PANIC {A}. Arguments STUCK {A}.

(* ---------------------------------------------------------------- configuration (trace header) *)

Record heapcfg := mkHeap { h_size : Z; h_devlocal : bool; h_limit : Z; h_budget : Z; h_other : Z }.
Record typecfg := mkType { ty_heap : Z; ty_flags : Z }.
Record vcfg := mkVcfg {
  c_api : Z; c_integrated : bool; c_gran : Z; c_atom : Z; c_maxcount : Z; c_budgetext : bool;
  c_large : Z; c_extsync : bool; c_heaps : list heapcfg; c_types : list typecfg }.

Definition nth_z {A} (l : list A) (i : Z) : option A :=
  if i <? 0 then None else nth_error l (Z.to_nat i).

Definition set_nth_z {A} (l : list A) (i : Z) (x : A) : list A :=
  if i <? 0 then l else Util.update_nth (Z.to_nat i) (fun _ => x) l.

Definition zlen {A} (l : list A) : Z := Z.of_nat (length l).

Definition ntypes (c : vcfg) : Z := zlen (c_types c).
Definition nheaps (c : vcfg) : Z := zlen (c_heaps c).

Definition type_heap (c : vcfg) (t : Z) : Z :=
  match nth_z (c_types c) t with Some x => ty_heap x | None => 0 end.
Definition type_flags (c : vcfg) (t : Z) : Z :=
  match nth_z (c_types c) t with Some x => ty_flags x | None => 0 end.
Definition heap_size (c : vcfg) (h : Z) : Z :=
  match nth_z (c_heaps c) h with Some x => h_size x | None => 0 end.
Definition type_valid (c : vcfg) (t : Z) : bool := (0 <=? t) && (t <? ntypes c).

Definition host_visible (c : vcfg) (t : Z) : bool := Z.testbit (type_flags c t) 1.
(* IsMemoryTypeHostNonCoherent: flags & (HostVisible|HostCoherent) == HostVisible *)
Definition non_coherent (c : vcfg) (t : Z) : bool :=
  Z.testbit (type_flags c t) 1 && negb (Z.testbit (type_flags c t) 2).

(* extensions.go: UseMemoryBudget needs the 1.1 instance entry point and the device extension *)
Definition budget_active (c : vcfg) : bool := c_budgetext c && (11 <=? c_api c).

(* CreateOptions.HeapSizeLimits as vam.New sees it: -1 in the header = not passed = 0 *)
Definition eff_limit (h : heapcfg) : Z := if h_limit h <? 0 then 0 else h_limit h.

(* the configuration of the Budget model *)
Definition bcfg_of (c : vcfg) : Budget.bcfg :=
  Budget.cfg_of_lists (map h_size (c_heaps c)) (map eff_limit (c_heaps c)) (c_maxcount c) (budget_active c).

(* ---------------------------------------------------------------- the simulated device *)

(* a live VkDeviceMemory object; the id is the creation number *)
Record dmem := mkDmem { dm_id : Z; dm_type : Z; dm_size : Z; dm_mapped : bool }.

(* ArmFault(kind, k, result, sticky): kind -1 = any fallible call, else 0 alloc, 1 free, 2 map, ... *)
Record fault := mkFault { f_armed : bool; f_kind : Z; f_count : Z; f_result : Z; f_sticky : bool }.
Definition no_fault : fault := mkFault false 0 0 0 false.

(* CALL lines *)
Inductive call :=
| CAlloc (mem ty size ded result : Z)
| CFree (mem : Z)
| CMap (mem off size result : Z)
| CUnmap (mem : Z)
| CFlush (inval : bool) (mem off size result : Z)
| CCreate (image : bool) (res result : Z)
| CDestroy (image : bool) (res : Z)
| CReq (image : bool) (res : Z)
| CBind (image : bool) (res mem off result : Z).

(* the memory requirements the simulated device reports for a resource (simvk.ResReq) *)
Record resreq := mkResreq { rq_size : Z; rq_align : Z; rq_tb : Z; rq_reqded : bool; rq_prefded : bool }.

(* a live buffer or image; ids share one creation counter; kind 1 buffer, 2 linear image, 3 optimal image *)
Record dres := mkDres { rs_id : Z; rs_kind : Z; rs_req : resreq; rs_bound : bool; rs_bmem : Z; rs_boff : Z }.

Record mach := mkMach {
  m_mems : list dmem;          (* live objects, ascending id *)
  m_next : Z;                  (* objects ever created (nextMem) *)
  m_fault : fault;
  m_fired : Z;                 (* FaultsFired during this step *)
  m_bud : Budget.bstate;
  m_calls : list call;         (* newest first *)
  m_res : list dres;           (* live resources *)
  m_next_res : Z               (* resources ever created (nextRes) *)
}.

Definition set_mems (m : mach) (l : list dmem) : mach :=
  mkMach l (m_next m) (m_fault m) (m_fired m) (m_bud m) (m_calls m) (m_res m) (m_next_res m).
Definition set_next (m : mach) (n : Z) : mach :=
  mkMach (m_mems m) n (m_fault m) (m_fired m) (m_bud m) (m_calls m) (m_res m) (m_next_res m).
Definition set_fault (m : mach) (f : fault) (fired : Z) : mach :=
  mkMach (m_mems m) (m_next m) f fired (m_bud m) (m_calls m) (m_res m) (m_next_res m).
Definition set_bud (m : mach) (b : Budget.bstate) : mach :=
  mkMach (m_mems m) (m_next m) (m_fault m) (m_fired m) b (m_calls m) (m_res m) (m_next_res m).
Definition log_call (m : mach) (k : call) : mach :=
  mkMach (m_mems m) (m_next m) (m_fault m) (m_fired m) (m_bud m) (k :: m_calls m) (m_res m) (m_next_res m).
Definition clear_calls (m : mach) : mach :=
  mkMach (m_mems m) (m_next m) (m_fault m) (m_fired m) (m_bud m) [] (m_res m) (m_next_res m).
Definition set_res (m : mach) (l : list dres) (n : Z) : mach :=
  mkMach (m_mems m) (m_next m) (m_fault m) (m_fired m) (m_bud m) (m_calls m) l n.

Fixpoint find_mem (l : list dmem) (id : Z) : option dmem :=
  match l with
  | [] => None
  | d :: tl => if dm_id d =? id then Some d else find_mem tl id
  end.

Fixpoint remove_mem (l : list dmem) (id : Z) : list dmem :=
  match l with
  | [] => []
  | d :: tl => if dm_id d =? id then tl else d :: remove_mem tl id
  end.

Fixpoint set_mem_mapped (l : list dmem) (id : Z) (b : bool) : list dmem :=
  match l with
  | [] => []
  | d :: tl => if dm_id d =? id then mkDmem (dm_id d) (dm_type d) (dm_size d) b :: tl
               else d :: set_mem_mapped tl id b
  end.

(* heapBytes[h] *)
Fixpoint dev_heap_bytes (c : vcfg) (l : list dmem) (h : Z) : Z :=
  match l with
  | [] => 0
  | d :: tl => (if type_heap c (dm_type d) =? h then dm_size d else 0) + dev_heap_bytes c tl h
  end.

(* DefaultFaultResult; call kinds: 0 alloc, 2 map, 6 cbuf, 7 cimg, 10 flush, 11 inval *)
Definition default_fault_result (kind : Z) : Z :=
  if kind =? 2 then VK_MAPFAIL
  else if (kind =? 6) || (kind =? 7) || (kind =? 10) || (kind =? 11) then VK_OOHM
  else VK_OODM.

(* Device.fault(k) for a fallible call kind k: new fault state, faults fired, result code (0 = none) *)
Definition dev_fault (f : fault) (fired : Z) (kind : Z) : fault * Z * Z :=
  if negb (f_armed f) then (f, fired, 0)
  else if (0 <=? f_kind f) && negb (f_kind f =? kind) then (f, fired, 0)
  else
    let n := f_count f - 1 in
    let f1 := mkFault (f_armed f) (f_kind f) n (f_result f) (f_sticky f) in
    if (n =? 0) || ((n <? 0) && f_sticky f) then
      let r := if f_result f =? 0 then default_fault_result kind else f_result f in
      let f2 := if f_sticky f then f1 else mkFault false (f_kind f) n (f_result f) (f_sticky f) in
      (f2, fired + 1, r)
    else (f1, fired, 0).

Definition DEV_TABLE : Z := 16384.

(* Device.AllocateMemory: (machine, result code, new id) *)
Definition dev_alloc (c : vcfg) (m : mach) (ty size ded : Z) : mach * Z * Z :=
  if negb (type_valid c ty) then (log_call m (CAlloc 0 ty size ded VK_UNKNOWN), VK_UNKNOWN, 0)
  else if size <=? 0 then (log_call m (CAlloc 0 ty size ded VK_UNKNOWN), VK_UNKNOWN, 0)
  else
    let '(f1, fired1, r) := dev_fault (m_fault m) (m_fired m) 0 in
    let m1 := set_fault m f1 fired1 in
    if negb (r =? 0) then (log_call m1 (CAlloc 0 ty size ded r), r, 0)
    else
      let heap := type_heap c ty in
      if (0 <? c_maxcount c) && (c_maxcount c <? zlen (m_mems m1) + 1) then
        (log_call m1 (CAlloc 0 ty size ded VK_TOOMANY), VK_TOOMANY, 0)
      else if heap_size c heap <? dev_heap_bytes c (m_mems m1) heap + size then
        (log_call m1 (CAlloc 0 ty size ded VK_OODM), VK_OODM, 0)
      else
        let id := m_next m1 + 1 in
        let m2 := set_next m1 id in
        if DEV_TABLE <=? id then (log_call m2 (CAlloc 0 ty size ded VK_OOHM), VK_OOHM, 0)
        else
          (log_call (set_mems m2 (m_mems m2 ++ [mkDmem id ty size false])) (CAlloc id ty size ded 0), 0, id).

(* Device.FreeMemory (freeing a mapped object unmaps it implicitly; dead/unknown ids are violations) *)
Definition dev_free (m : mach) (id : Z) : mach :=
  log_call (set_mems m (remove_mem (m_mems m) id)) (CFree id).

(* Device.MapMemory(id, 0, WholeSize): (machine, result code) *)
Definition dev_map (c : vcfg) (m : mach) (id : Z) : mach * Z :=
  match find_mem (m_mems m) id with
  | None => (log_call m (CMap id 0 (-1) VK_MAPFAIL), VK_MAPFAIL)
  | Some d =>
    if negb (host_visible c (dm_type d)) then (log_call m (CMap id 0 (-1) VK_MAPFAIL), VK_MAPFAIL)
    else if dm_size d <=? 0 then (log_call m (CMap id 0 (-1) VK_MAPFAIL), VK_MAPFAIL)
    else
      let '(f1, fired1, r) := dev_fault (m_fault m) (m_fired m) 2 in
      let m1 := set_fault m f1 fired1 in
      if negb (r =? 0) then (log_call m1 (CMap id 0 (-1) r), r)
      else (log_call (set_mems m1 (set_mem_mapped (m_mems m1) id true)) (CMap id 0 (-1) 0), 0)
  end.

(* Device.UnmapMemory *)
Definition dev_unmap (m : mach) (id : Z) : mach :=
  log_call (set_mems m (set_mem_mapped (m_mems m) id false)) (CUnmap id).

(* Device.FlushOrInvalidate for one range: (machine, result code) *)
Definition dev_flush (m : mach) (inval : bool) (id off size : Z) : mach * Z :=
  match find_mem (m_mems m) id with
  | None => (log_call m (CFlush inval id off size VK_UNKNOWN), VK_UNKNOWN)
  | Some _ =>
    let '(f1, fired1, r) := dev_fault (m_fault m) (m_fired m) (if inval then 11 else 10) in
    let m1 := set_fault m f1 fired1 in
    (log_call m1 (CFlush inval id off size r), r)
  end.

(* ---- resources *)

Fixpoint find_res (l : list dres) (id : Z) : option dres :=
  match l with
  | [] => None
  | r :: tl => if rs_id r =? id then Some r else find_res tl id
  end.

Fixpoint remove_res (l : list dres) (id : Z) : list dres :=
  match l with
  | [] => []
  | r :: tl => if rs_id r =? id then tl else r :: remove_res tl id
  end.

Fixpoint replace_res (l : list dres) (nr : dres) : list dres :=
  match l with
  | [] => []
  | r :: tl => if rs_id r =? rs_id nr then nr :: tl else r :: replace_res tl nr
  end.

(* Device.CreateResource (vkCreateBuffer / vkCreateImage): (machine, result code, id) *)
Definition dev_create_res (m : mach) (image : bool) (kind : Z) (req : resreq) : mach * Z * Z :=
  let '(f1, fired1, r) := dev_fault (m_fault m) (m_fired m) (if image then 7 else 6) in
  let m1 := set_fault m f1 fired1 in
  if negb (r =? 0) then (log_call m1 (CCreate image 0 r), r, 0)
  else
    let id := m_next_res m1 + 1 in
    if DEV_TABLE <=? id then (log_call (set_res m1 (m_res m1) id) (CCreate image 0 VK_OOHM), VK_OOHM, 0)
    else (log_call (set_res m1 (m_res m1 ++ [mkDres id kind req false 0 0]) id) (CCreate image id 0), 0, id).

(* Device.DestroyResource *)
Definition dev_destroy_res (m : mach) (image : bool) (id : Z) : mach :=
  log_call (set_res m (remove_res (m_res m) id) (m_next_res m)) (CDestroy image id).

(* Device.Requirements *)
Definition dev_requirements (m : mach) (image : bool) (id : Z) : mach * resreq :=
  (log_call m (CReq image id),
   match find_res (m_res m) id with Some r => rs_req r | None => mkResreq 0 0 0 false false end).

(* Device.Bind: (machine, result code) *)
Definition dev_bind (m : mach) (image : bool) (res mem off : Z) : mach * Z :=
  match find_res (m_res m) res, find_mem (m_mems m) mem with
  | Some r, Some _ =>
    let '(f1, fired1, code) := dev_fault (m_fault m) (m_fired m) (if image then 5 else 4) in
    let m1 := set_fault m f1 fired1 in
    if negb (code =? 0) then (log_call m1 (CBind image res mem off code), code)
    else
      (log_call (set_res m1 (replace_res (m_res m1) (mkDres (rs_id r) (rs_kind r) (rs_req r) true mem off)) (m_next_res m1))
                (CBind image res mem off 0), 0)
  | _, _ => (log_call m (CBind image res mem off VK_UNKNOWN), VK_UNKNOWN)
  end.

(* Device.ForgetBinding (harness bookkeeping on the device) *)
Definition dev_forget_binding (m : mach) (res : Z) : mach :=
  match find_res (m_res m) res with
  | Some r => set_res m (replace_res (m_res m) (mkDres (rs_id r) (rs_kind r) (rs_req r) false (rs_bmem r) (rs_boff r))) (m_next_res m)
  | None => m
  end.

(* what vkGetPhysicalDeviceMemoryProperties2 reports for a heap: (usage, budget) *)
Definition dev_report (c : vcfg) (m : mach) (h : Z) : Z * Z :=
  match nth_z (c_heaps c) h with
  | Some hc => (h_other hc + dev_heap_bytes c (m_mems m) h, h_budget hc)
  | None => (0, 0)
  end.

(* ---------------------------------------------------------------- DeviceMemoryProperties over the device *)

(* HeapBudget(heap): (machine, usage, budget) *)
Definition heap_budget (c : vcfg) (m : mach) (h : Z) : mach * Z * Z :=
  let '(b', r, _) := Budget.heap_budget (bcfg_of c) (m_bud m) h (dev_report c m) in
  match r with
  | Budget.BBudget _ _ _ _ u b => (set_bud m b', u, b)
  | _ => (set_bud m b', 0, 0)
  end.

(* HeapBudget(heap) with the four counters: (machine, [blockCount; blockBytes; allocCount; allocBytes; usage; budget]) *)
Definition heap_budget_full (c : vcfg) (m : mach) (h : Z) : mach * list Z :=
  let '(b', r, _) := Budget.heap_budget (bcfg_of c) (m_bud m) h (dev_report c m) in
  match r with
  | Budget.BBudget bc ac bb ab u b => (set_bud m b', [bc; bb; ac; ab; u; b])
  | _ => (set_bud m b', [0; 0; 0; 0; 0; 0])
  end.

(* AllocateVulkanMemory: the device's answer is computed first and only committed when Budget's
   alloc_mem says the driver was really called (count and heap limit checks come first) *)
Definition alloc_vk (c : vcfg) (m : mach) (ty size ded : Z) : mach * out Z :=
  let h := type_heap c ty in
  let '(m1, code, id) := dev_alloc c m ty size ded in
  let '(b', r, cs) := Budget.alloc_mem (bcfg_of c) (m_bud m) h size (negb (code =? 0)) in
  match cs with
  | [] =>
    (set_bud m b',
     match r with
     | Budget.BErrTooManyObjects => ER VK_TOOMANY
     | Budget.BErrOutOfDeviceMemory => ER VK_OODM
     | Budget.BPanic => PANIC
     | _ => STUCK
     end)
  | _ =>
    (set_bud m1 b',
     match r with
     | Budget.BOk => OK id
     | Budget.BErrDriver => ER code
     | Budget.BPanic => PANIC
     | _ => STUCK
     end)
  end.

(* FreeVulkanMemory(driver, memoryType, size, memory) *)
Definition free_vk (c : vcfg) (m : mach) (ty size mem : Z) : mach * out unit :=
  let m1 := dev_free m mem in
  let '(b', r, _) := Budget.free_mem (m_bud m1) (type_heap c ty) size in
  (set_bud m1 b', match r with Budget.BOk => OK tt | Budget.BPanic => PANIC | _ => STUCK end).

(* AddAllocation / RemoveAllocation *)
Definition add_allocation (c : vcfg) (m : mach) (h size : Z) : mach :=
  let '(b', _, _) := Budget.add_alloc (bcfg_of c) (m_bud m) h size in set_bud m b'.

Definition remove_allocation (c : vcfg) (m : mach) (h size : Z) : mach * out unit :=
  let '(b', r, _) := Budget.remove_alloc (bcfg_of c) (m_bud m) h size in
  (set_bud m b', match r with Budget.BOk => OK tt | Budget.BPanic => PANIC | _ => STUCK end).

(* ---------------------------------------------------------------- SynchronizedMemory over the device *)

(* Map(driver, 1, 0, WholeSize, 0) of the memory object [mem] whose mapping state is [s] *)
Definition sm_map (c : vcfg) (m : mach) (mem : Z) (s : SyncMem.sm) : mach * SyncMem.sm * out unit :=
  let '(m1, code) := dev_map c m mem in
  let '(s', r, cs) := SyncMem.do_map s 1 (negb (code =? 0)) in
  let m' := match cs with [] => m | _ => m1 end in
  (m', s',
   match r with
   | SyncMem.ROk _ => OK tt
   | SyncMem.RErrMapFailed => ER code
   | SyncMem.RErrNoData => ER VK_UNKNOWN
   | _ => STUCK
   end).

(* Unmap(driver, 1) *)
Definition sm_unmap (m : mach) (mem : Z) (s : SyncMem.sm) : mach * SyncMem.sm * out unit :=
  let '(s', r, cs) := SyncMem.do_unmap s 1 in
  let m' := match cs with [] => m | _ => dev_unmap m mem end in
  (m', s',
   match r with
   | SyncMem.ROk _ => OK tt
   | SyncMem.RErrTooManyUnmaps => ER 0
   | _ => STUCK
   end).

(* RecordSuballocSubfree(driver) *)
Definition sm_sub (m : mach) (mem : Z) (s : SyncMem.sm) : mach * SyncMem.sm :=
  let '(s', _, cs) := SyncMem.do_sub s in
  (match cs with [] => m | _ => dev_unmap m mem end, s').
