(* TlsfProps2.v — reachable-state forms of the second-layer TLSF theorems (TLSF halves of C03, C06,
   C13, C18): for every block size 1 <= size < 2^39, every granularity that is a power of two,
   either handler, and every finite history with power-of-two alignments. *)
From Coq Require Import ZArith NArith Lia List Bool.
From Arsenal Require Import Util Bits Gran Tlsf TlsfGeom TlsfInv1 TlsfFree TlsfAlloc TlsfStep TlsfProps
     SizeClass TlsfInv2 TlsfInv2Free TlsfInv2Alloc TlsfSearch TlsfStep2 GranInv GranTlsf.
Import ListNotations.
Open Scope Z_scope.

Section Reach.
  Variables (h : handler) (gr size : Z) (ops : list op).
  Hypothesis Hcfg : cfg2_ok gr size.
  Hypothesis Hops : Forall op_ok ops.
  Let t := run (tlsf_init h gr size) ops.

  Lemma reach_both : TInv t /\ Inv2 t /\ t_size t = size.
  Proof.
    destruct (reach_Inv2 h gr size ops Hcfg Hops) as (HT & HI).
    destruct (reach_TInv h gr size ops (cfg2_cfg _ _ Hcfg) Hops) as (_ & Hs). auto.
  Qed.

  (* ---------------- C13 *)
  Theorem tlsf_reach_no_panic o : op_ok o -> o_kind (snd (step t o)) <> RPanic.
  Proof. destruct reach_both as (HT & HI & _). apply tlsf_no_panic; auto. Qed.

  Theorem tlsf_reach_alloc_no_error sz align atype strat upper mo tag t1 r :
    pow2 align -> create_request t sz align upper atype strat mo = QGranted t1 r ->
    exists t2 hd, step t (OAlloc sz align atype strat upper mo tag) = (t2, mkOut ROk hd (rq_size r)).
  Proof.
    destruct reach_both as (HT & HI & _). intros Ha Hcr.
    destruct (tlsf_alloc_no_error t sz align atype strat upper mo tag t1 r HT HI Ha Hcr) as (t2 & hd & _ & E).
    eauto.
  Qed.

  Theorem tlsf_reach_bad_handle hd :
    (forall a, In a (live t) -> b_off a <> hd) ->
    step t (OFree hd) = (t, out RError) /\ forall tag, step t (OSetUD hd tag) = (t, out RError).
  Proof. destruct reach_both as ((Hinv & _) & _ & _). intros Hn. apply tlsf_bad_handle; auto. Qed.

  (* ---------------- C06 *)
  Theorem tlsf_reach_free_live_succeeds a :
    In a (live t) -> exists t', step t (OFree (b_off a)) = (t', out ROk).
  Proof.
    destruct reach_both as (HT & HI & _). intros Ha.
    destruct (tlsf_free_live_succeeds t a HT HI Ha) as (t' & E & _). eauto.
  Qed.

  (* ---------------- C03 *)
  Theorem tlsf_reach_bookkeeping :
    allocation_count t = zlen (live t) /\
    sum_free_size t = size - sum_sizes (live t) /\
    (is_empty t = true <-> live t = []) /\
    free_regions_count t = zlen (free_regions_pos t) /\
    (tiles 0 (regions t) /\ chain_end 0 (regions t) = size /\ sum_sizes (regions t) = size) /\
    add_statistics t = mkStats 1 (zlen (taken_regions t)) size (sum_sizes (taken_regions t)) /\
    add_detailed_statistics t = dspec (taken_regions t) (free_regions_pos t) size.
  Proof.
    destruct reach_both as (HT & HI & Hs). rewrite <- Hs. apply tlsf_bookkeeping; auto.
  Qed.

  Theorem tlsf_reach_lists_exact :
    zlen (t_lists t) = list_count size /\ length (t_inner t) = 58%nat /\
    (forall idx o, In o (list_at t idx) <->
                   exists b, In b (t_chain t) /\ b_off b = o /\ b_free b = true /\ list_of_size (b_size b) = idx) /\
    (forall idx, NoDup (list_at t idx)) /\
    (forall mc sli, 0 <= mc -> 0 <= sli ->
       (N.testbit (nth (Z.to_nat mc) (t_inner t) 0%N) (Z.to_N sli) = true <->
        valid_pair mc sli /\ list_at t (list_index mc sli) <> [])) /\
    (forall mc, 0 <= mc -> (N.testbit (t_bitmap t) (Z.to_N mc) = true <-> nth (Z.to_nat mc) (t_inner t) 0%N <> 0%N)) /\
    t_free_count t = zlen (frees (t_chain t)) /\ t_free_size t = sum_sizes (frees (t_chain t)) /\
    (forall b, In b (t_chain t) -> b_free b = true -> b_tag b = None).
  Proof.
    destruct reach_both as (HT & [HFL _ _ _] & Hs).
    destruct HFL as [Hsz Hlen Hwf Hnd Hin Hlnd (Hil & Hib & Hob) Hfc Hfs]. rewrite Hs in *.
    split; [auto|]. split; [auto|]. split; [|split; [auto|split; [auto|split; [auto|split; [auto|split; [auto|]]]]]].
    - intros idx o. rewrite list_at_lat, Hin. split.
      + intros (b & Hb & Ho & Hi). apply frees_In in Hb. exists b. tauto.
      + intros (b & Hb & Ho & Hf & Hi). exists b. rewrite frees_In. tauto.
    - intros b Hb Hf. rewrite Forall_forall in Hwf. apply (Hwf b). apply frees_In. auto.
  Qed.

  Theorem tlsf_reach_validate :
    gran_validate (t_gran t) (map (fun b => (b_off b, b_size b)) (live t)) = Some true ->
    validate t = Some true.
  Proof. destruct reach_both as (HT & HI & _). apply tlsf_validate; auto. Qed.

  Theorem tlsf_reach_validate_disabled : enabled (t_gran t) = false -> validate t = Some true.
  Proof. destruct reach_both as (HT & HI & _). apply tlsf_validate_disabled; auto. Qed.

  (* ---------------- C18 *)
  Theorem tlsf_reach_empty_is_fresh : live t = [] -> t = fresh_with (t_gran t) size.
  Proof. destruct reach_both as (HT & HI & Hs). rewrite <- Hs. apply tlsf_empty_is_fresh; auto. Qed.

  Theorem tlsf_reach_clear_is_fresh : tlsf_clear t = fresh_with (gran_clear (t_gran t)) size.
  Proof. destruct reach_both as (HT & HI & Hs). rewrite <- Hs. apply tlsf_clear_is_fresh; auto. Qed.
End Reach.

(* ------------------------------------------------------------------ the granularity table of an empty block *)

Lemma all_zero_regions (l : list (Z * Z)) : Forall (fun r => r = (0, 0)) l -> l = repeat (0, 0) (length l).
Proof. induction 1 as [|x l Hx _ IH]; cbn; [reflexivity|]. subst x. f_equal. exact IH. Qed.

(* accept-all handler: the handler state never changes, an emptied block is the initial state *)
Lemma fake_gran_const t o : g_h (t_gran t) = HFake -> t_gran (fst (step t o)) = t_gran t \/ o = OClear.
Proof.
  intros Hh.
  assert (Hdis : enabled (t_gran t) = false) by (unfold enabled; rewrite Hh; reflexivity).
  destruct o as [sz align atype strat upper mo tag|sz align atype strat upper mo|hd|hd tag| |atype sz]; cbn [step]; auto.
  - destruct (create_request t sz align upper atype strat mo) as [t1 r| | |] eqn:Hcr; cbn [fst]; auto.
    apply create_request_granted in Hcr. destruct Hcr as (_ & _ & b & li & Hcb & _).
    apply check_block_spec in Hcb. destruct Hcb as (_ & _ & _ & _ & _ & _ & _ & _ & _ & Hg1 & _).
    destruct (alloc t1 r tag sz align) as [t2 hh| |] eqn:Hal; cbn [fst]; auto. left.
    rewrite <- Hg1.
    assert (Hdis1 : enabled (t_gran t1) = false) by (rewrite Hg1; auto).
    clear - Hal Hdis1. revert Hal. unfold alloc.
    assert (Hfin : forall (tx : tlsf) off szx,
               t_gran tx = t_gran t1 ->
               match alloc_regions (t_gran tx) (rq_type r) off szx with
               | None => APanic
               | Some g' => AOk (mkT (t_size tx) g' (t_chain tx) (t_null tx) (t_lists tx) (t_bitmap tx) (t_inner tx)
                                     (t_alloc_count tx + 1) (t_free_count tx) (t_free_size tx)) off
               end = AOk t2 hh -> t_gran t2 = t_gran t1).
    { intros tx off szx Hgx. unfold alloc_regions. rewrite Hgx, Hdis1. cbn [negb].
      intros H; injection H as <- _. reflexivity. }
    assert (Hrm : forall tx b ty, remove_free_block tx b = Some ty -> t_gran ty = t_gran tx).
    { intros ? ? ? H. apply remove_free_block_spec in H. tauto. }
    assert (Hin : forall tx b ty, insert_free_block tx b = Some ty -> t_gran ty = t_gran tx).
    { intros ? ? ? H. apply insert_free_block_spec in H. tauto. }
    assert (Hpad : forall tx p po co m n ty, pad_front tx p po co m n = Some (Some ty) -> t_gran ty = t_gran tx).
    { intros tx p po co m n ty. unfold pad_front. destruct p as [p|]; [|discriminate].
      destruct (_ && _).
      - destruct (negb _).
        + destruct (remove_free_block tx p) eqn:E; [|discriminate]. intros H; injection H as H.
          apply Hin in H. apply Hrm in E. cbn in H. congruence.
        + intros H; injection H as <-. reflexivity.
      - intros H; injection H as H. apply Hin in H. exact H. }
    destruct (rq_is_null r).
    + destruct (_ <? _); [discriminate|].
      destruct (if _ =? 0 then _ else _) as [[tx|]|] eqn:Ep; try discriminate.
      assert (Hgx : t_gran tx = t_gran t1).
      { destruct (_ =? 0); [injection Ep as <-; reflexivity|]. eapply Hpad; eauto. }
      destruct (_ =? rq_size r); [apply Hfin; cbn; auto|].
      destruct (_ <? rq_size r); [discriminate|]. apply Hfin; cbn; auto.
    + destruct (find_blk _ _) as [cur|]; [|discriminate].
      destruct (_ <? _); [discriminate|].
      destruct (remove_free_block t1 cur) as [t0|] eqn:Er; cbn [bind_t]; [|discriminate].
      apply Hrm in Er.
      destruct (if _ =? 0 then _ else _) as [[tx|]|] eqn:Ep; try discriminate.
      assert (Hgx : t_gran tx = t_gran t1).
      { destruct (_ =? 0); [injection Ep as <-; cbn; congruence|]. apply Hpad in Ep. cbn in Ep. congruence. }
      destruct (_ =? rq_size r); [apply Hfin; cbn; auto|].
      destruct (_ <? rq_size r); [discriminate|].
      destruct (insert_free_block _ _) as [t3|] eqn:Ei; cbn [bind_t]; [|discriminate].
      apply Hin in Ei. cbn in Ei. apply Hfin. congruence.
  - destruct (create_request t sz align upper atype strat mo) as [t1 r| | |] eqn:Hcr; cbn [fst]; auto.
    apply create_request_granted in Hcr. destruct Hcr as (_ & _ & b & li & Hcb & _).
    apply check_block_spec in Hcb. tauto.
  - destruct (tlsf_free t hd) as [t1| |] eqn:Hf; cbn [fst]; auto. left.
    unfold tlsf_free in Hf. destruct (find_blk hd (t_chain t)) as [b0|]; [|discriminate].
    destruct (b_free b0); [discriminate|].
    unfold free_regions in Hf. rewrite Hdis in Hf. cbn [negb] in Hf.
    destruct (free_merge_prev _ _) as [[tm m]|] eqn:Hp; [|discriminate].
    assert (Hg1 : t_gran tm = t_gran t).
    { unfold free_merge_prev in Hp. cbn [t_chain] in Hp.
      destruct (prev_blk _ _) as [p|]; [|injection Hp as <- _; reflexivity].
      destruct (_ && _); [|injection Hp as <- _; reflexivity].
      destruct (remove_free_block _ p) as [tr|] eqn:Er; [|discriminate].
      apply remove_free_block_spec in Er. injection Hp as <- _. cbn. destruct Er as (_ & _ & _ & _ & Hg & _). exact Hg. }
    rewrite <- Hg1. clear - Hf. unfold free_merge_next in Hf.
    destruct (next_blk _ _) as [nx|]; [|injection Hf as <-; reflexivity].
    destruct (negb (b_free nx)).
    + destruct (insert_free_block tm m) as [t3|] eqn:Ei; cbn [bind_f] in Hf; [|discriminate].
      injection Hf as <-. apply insert_free_block_spec in Ei. tauto.
    + destruct (remove_free_block tm nx) as [tr|] eqn:Er; cbn [bind_f] in Hf; [|discriminate].
      destruct (insert_free_block _ _) as [t3|] eqn:Ei; cbn [bind_f] in Hf; [|discriminate].
      injection Hf as <-. apply insert_free_block_spec in Ei. apply remove_free_block_spec in Er.
      destruct Ei as (_ & _ & _ & _ & Hg3 & _). destruct Er as (_ & _ & _ & _ & Hgr & _). cbn in Hg3. congruence.
  - destruct (set_user_data t hd tag) as [t1|] eqn:Hs; cbn [fst]; auto. left.
    eapply set_user_data_gran; eauto.
Qed.

Lemma fake_gran_run gr size ops :
  t_gran (run (tlsf_init HFake gr size) ops) = gran_init HFake gr size.
Proof.
  assert (Hgen : forall t, t_gran t = mkGran HFake gr [] -> t_gran (run t ops) = mkGran HFake gr []).
  { induction ops as [|o ops' IH]; intros t Ht; cbn; auto. apply IH.
    destruct (fake_gran_const t o ltac:(rewrite Ht; reflexivity)) as [E| ->]; [congruence|].
    cbn. rewrite Ht. reflexivity. }
  apply Hgen. reflexivity.
Qed.

Theorem tlsf_fake_empty_is_init gr size ops :
  cfg2_ok gr size -> Forall op_ok ops ->
  let t := run (tlsf_init HFake gr size) ops in
  live t = [] -> t = tlsf_init HFake gr size /\ forall ops', run t ops' = run (tlsf_init HFake gr size) ops'.
Proof.
  intros Hc Hok t Hl.
  destruct (reach_Inv2 HFake gr size ops Hc Hok) as (HT & HI).
  destruct (reach_TInv HFake gr size ops (cfg2_cfg _ _ Hc) Hok) as (_ & Hs). fold t in HT, HI, Hs.
  pose proof (tlsf_empty_is_init t HFake gr HT HI Hl) as H. rewrite Hs in H. apply H.
  apply fake_gran_run.
Qed.

(* vam's handler: needs the page-count invariant GranTlsf.GInv (allocation kinds 1..5,
   granularity <= 2^32) to know that the table of an emptied block is all zero again *)
Theorem tlsf_vam_empty_is_init gr size ops :
  cfg2_ok gr size -> 1 <= gr <= 65536 -> Forall op_ok ops -> Forall op_kind_ok ops ->
  let t := run (tlsf_init HVam gr size) ops in
  live t = [] -> t = tlsf_init HVam gr size /\ forall ops', run t ops' = run (tlsf_init HVam gr size) ops'.
Proof.
  intros Hc Hgr Hok Hk t Hl.
  destruct (reach_Inv2 HVam gr size ops Hc Hok) as (HT & HI).
  destruct (reach_TInv HVam gr size ops (cfg2_cfg _ _ Hc) Hok) as (_ & Hs). fold t in HT, HI, Hs.
  pose proof (reach_GInv gr size ops (cfg2_cfg _ _ Hc) Hgr Hok Hk) as HG. fold t in HG.
  pose proof (tlsf_empty_is_init t HVam gr HT HI Hl) as H. rewrite Hs in H. apply H. clear H.
  pose proof (regions_all_zero_when_empty gr t HG Hl) as Hz. apply all_zero_regions in Hz.
  destruct HG as [_ Hh Hg _ _ _ Hlen _].
  destruct (t_gran t) as [gh gg gregs] eqn:Eg. cbn [g_h g_g g_regions] in *. subst gh gg.
  unfold gran_init. rewrite Hs in *.
  assert (Hen : enabled (mkGran HVam gr gregs) = enabled (mkGran HVam gr [])) by reflexivity.
  rewrite Hen in Hlen. destruct (enabled (mkGran HVam gr [])).
  - rewrite Hz, Hlen. unfold npages. reflexivity.
  - destruct gregs; [reflexivity|discriminate].
Qed.

(* ------------------------------------------------------------------ C05: the search is complete *)

Section ReachSearch.
  Variables (h : handler) (gr size : Z) (ops : list op).
  Hypothesis Hcfg : cfg2_ok gr size.
  Hypothesis Hops : Forall op_ok ops.
  Let t := run (tlsf_init h gr size) ops.

  Let HT : TInv t := proj1 (reach_Inv2 h gr size ops Hcfg Hops).
  Let HI : Inv2 t := proj2 (reach_Inv2 h gr size ops Hcfg Hops).

  (* the bitmap scan returns the lowest non-empty list at or after the list of sz, and never panics *)
  Theorem tlsf_reach_find_free_block sz :
    1 <= sz < 2 ^ 41 ->
    match find_free_block t sz with
    | FFPanic => False
    | FFList idx => list_of_size sz <= idx /\ list_at t idx <> [] /\
                    (forall i, list_of_size sz <= i < idx -> list_at t i = [])
    | FFNone => forall i, list_of_size sz <= i -> list_at t i = []
    end.
  Proof. intros Hs. apply find_free_block_spec; [apply (i2_fl _ HI)|lia|apply class_lt_58; auto]. Qed.

  (* a refusal means that no free region passes the code's own fit test, whatever the strategy *)
  Theorem tlsf_reach_request_complete sz align ty strat mo :
    pow2 align -> create_request t sz align false ty strat mo = QRefused ->
    forall f li, free_region t f ->
      check_block t f li (fst (round_up (t_gran t) ty sz align)) (snd (round_up (t_gran t) ty sz align)) ty mo = CBFail.
  Proof. intros Ha Hq. eapply request_complete; eauto. Qed.

  Theorem tlsf_reach_check_block_semantic b li a al ty mo :
    enabled (t_gran t) = false -> pow2 al -> free_region t b ->
    (check_block t b li a al ty mo = CBFail <->
     ~ exists off, b_off b <= off /\ off mod al = 0 /\ off + a <= b_off b + b_size b /\ off < mo).
  Proof.
    intros Hd Hal Hf. apply check_block_semantic; auto.
    destruct Hf as [->|(_ & Hf)]; auto. apply (g_null_free _ (i_geom _ (proj1 HT))).
  Qed.

  Theorem tlsf_reach_may_have_sound ty sz align strat mo :
    pow2 align -> may_have_free t ty sz = false -> create_request t sz align false ty strat mo = QRefused.
  Proof. intros Ha Hm. apply may_have_sound; auto. Qed.

  Theorem tlsf_reach_min_offset_lowest sz align ty strat mo t' r :
    pow2 align -> Z.testbit strat 2 = true -> Z.testbit strat 1 = false -> Z.testbit strat 0 = false ->
    create_request t sz align false ty strat mo = QGranted t' r ->
    forall f li t'' r'', free_region t f ->
      check_block t f li (fst (round_up (t_gran t) ty sz align)) (snd (round_up (t_gran t) ty sz align)) ty mo
      = CBOk t'' r'' ->
      rq_offset r <= rq_offset r''.
  Proof. intros Ha B2 B1 B0 Hq. eapply min_offset_lowest; eauto. Qed.
End ReachSearch.

(* end to end for the accept-all handler (no rounding, no page conflicts): a refusal means that no
   free region of the block can hold sz bytes at a multiple of align below maxOffset *)
Theorem tlsf_fake_refusal_means_no_room gr size ops sz align ty strat mo :
  cfg2_ok gr size -> Forall op_ok ops -> pow2 align ->
  let t := run (tlsf_init HFake gr size) ops in
  create_request t sz align false ty strat mo = QRefused ->
  forall f, free_region t f ->
    ~ exists off, b_off f <= off /\ off mod align = 0 /\ off + sz <= b_off f + b_size f /\ off < mo.
Proof.
  intros Hc Hok Ha t Hq f Hf.
  pose proof (fake_gran_run gr size ops) as Hg. fold t in Hg.
  assert (Hgr : t_gran t = mkGran HFake gr []) by (rewrite Hg; reflexivity).
  assert (Hd : enabled (t_gran t) = false) by (rewrite Hgr; reflexivity).
  pose proof (tlsf_reach_request_complete HFake gr size ops Hc Hok sz align ty strat mo Ha Hq f None Hf) as Hcb.
  fold t in Hcb. rewrite Hgr in Hcb. cbn [round_up g_h fst snd] in Hcb.
  apply (tlsf_reach_check_block_semantic HFake gr size ops Hc Hok f None sz align ty mo Hd Ha Hf). exact Hcb.
Qed.

(* ------------------------------------------------------------------ C03: Validate with vam's handler enabled *)

Definition pairs (L : list span) : list (Z * Z) := map (fun s => (s_off s, s_size s)) L.

Lemma region_at_range g p r : region_at g p = Some r -> 0 <= p /\ (Z.to_nat p < length (g_regions g))%nat.
Proof.
  unfold region_at. destruct (Z.ltb_spec p 0) as [Hlt|Hge]; [discriminate|]. intros Hn. split; [auto|].
  apply nth_error_Some. congruence.
Qed.

Lemma vcount_fold g L :
  pow2 (g_g g) ->
  forall Ldone cnts,
  length cnts = length (g_regions g) ->
  (forall n, (n < length cnts)%nat -> nth n cnts 0 = tcount (g_g g) (Z.of_nat n) Ldone mod 4294967296) ->
  (forall s, In s L -> exists r1 r2,
       region_at g (start_slot g (s_off s)) = Some r1 /\ region_at g (end_slot g (s_off s) (s_size s)) = Some r2 /\
       1 <= snd r1 /\ 1 <= snd r2) ->
  exists cnts', fold_left (vcount_one g) (pairs L) (Some (cnts, true)) = Some (cnts', true) /\
                length cnts' = length cnts /\
                forall n, (n < length cnts')%nat -> nth n cnts' 0 = tcount (g_g g) (Z.of_nat n) (Ldone ++ L) mod 4294967296.
Proof.
  intros Hp. induction L as [|s L IH]; intros Ldone cnts Hlen Hinv Hall.
  - exists cnts. rewrite app_nil_r. cbn. auto.
  - destruct (Hall s (or_introl eq_refl)) as (r1 & r2 & Hr1 & Hr2 & H1 & H2).
    cbn [pairs map fold_left]. cbn [vcount_one]. rewrite Hr1.
    destruct (Z.leb_spec 1 (snd r1)); [|lia]. cbn [andb].
    destruct (region_at_range _ _ _ Hr1) as (Hs0 & Hsl). destruct (region_at_range _ _ _ Hr2) as (He0 & Hel).
    set (sl := start_slot g (s_off s)) in *. set (el := end_slot g (s_off s) (s_size s)) in *.
    set (inc := fun c : Z => (c + 1) mod 4294967296).
    assert (Hsd : sl = first_page (g_g g) s) by (unfold sl; rewrite start_slot_div by auto; reflexivity).
    assert (Hed : el = last_page (g_g g) s) by (unfold el; rewrite end_slot_div by auto; reflexivity).
    assert (Hstep : forall cnts2,
               length cnts2 = length cnts ->
               (forall n, (n < length cnts2)%nat ->
                          nth n cnts2 0 = tcount (g_g g) (Z.of_nat n) (Ldone ++ [s]) mod 4294967296) ->
               exists cnts', fold_left (vcount_one g) (pairs L) (Some (cnts2, true)) = Some (cnts', true) /\
                             length cnts' = length cnts /\
                             forall n, (n < length cnts')%nat ->
                                       nth n cnts' 0 = tcount (g_g g) (Z.of_nat n) (Ldone ++ s :: L) mod 4294967296).
    { intros cnts2 Hl2 Hi2.
      destruct (IH (Ldone ++ [s]) cnts2 ltac:(congruence) Hi2 ltac:(intros s' Hs'; apply Hall; right; auto))
        as (cnts' & E & Hl' & Hi').
      exists cnts'. split; [exact E|]. split; [congruence|]. intros n Hn. rewrite (Hi' n Hn).
      rewrite <- app_assoc. reflexivity. }
    assert (Hone : forall n, tcount (g_g g) (Z.of_nat n) (Ldone ++ [s])
                             = tcount (g_g g) (Z.of_nat n) Ldone + (if touchb (g_g g) (Z.of_nat n) s then 1 else 0)).
    { intros n. rewrite tcount_app, tcount_cons. change (tcount (g_g g) (Z.of_nat n) []) with 0. lia. }
    destruct (Z.eqb_spec sl el) as [Ese|Ese].
    + apply Hstep; [apply update_nth_length|].
      intros n Hn. rewrite update_nth_length in Hn. rewrite Hone. unfold touchb. rewrite <- Hsd, <- Hed, <- Ese.
      destruct (Z.eqb_spec (Z.of_nat n) sl) as [En|En]; cbn [orb].
      * replace n with (Z.to_nat sl) by lia. rewrite nth_update_nth_eq by lia.
        rewrite (Hinv (Z.to_nat sl)) by lia. rewrite Z2Nat.id by lia. unfold inc.
        rewrite Zplus_mod_idemp_l. reflexivity.
      * rewrite nth_update_nth_neq by lia. rewrite (Hinv n Hn). f_equal. lia.
    + rewrite Hr2. destruct (Z.leb_spec 1 (snd r2)); [|lia]. cbn [andb].
      apply Hstep; [rewrite !update_nth_length; reflexivity|].
      intros n Hn. rewrite !update_nth_length in Hn. rewrite Hone. unfold touchb. rewrite <- Hsd, <- Hed.
      destruct (Z.eqb_spec (Z.of_nat n) el) as [En|En].
      * replace n with (Z.to_nat el) by lia. rewrite nth_update_nth_eq by (rewrite update_nth_length; lia).
        rewrite nth_update_nth_neq by lia.
        rewrite (Hinv (Z.to_nat el)) by lia. rewrite Z2Nat.id by lia.
        rewrite orb_true_r. unfold inc. rewrite Zplus_mod_idemp_l. reflexivity.
      * rewrite nth_update_nth_neq by lia.
        destruct (Z.eqb_spec (Z.of_nat n) sl) as [En2|En2]; cbn [orb].
        -- replace n with (Z.to_nat sl) by lia. rewrite nth_update_nth_eq by lia.
           rewrite (Hinv (Z.to_nat sl)) by lia. rewrite Z2Nat.id by lia. unfold inc.
           rewrite Zplus_mod_idemp_l. reflexivity.
        -- rewrite nth_update_nth_neq by lia. rewrite (Hinv n Hn). f_equal. lia.
Qed.

Lemma list_eqb_z_refl l : list_eqb_z l l = true.
Proof. induction l as [|x l IH]; cbn; auto. rewrite Z.eqb_refl. auto. Qed.

Lemma nth_repeat_Z0 n k : nth k (repeat 0 n) 0 = 0.
Proof. revert k; induction n as [|n IH]; intros [|k]; cbn; auto. Qed.

Theorem gran_validate_ok gr t :
  GInv gr t -> Inv2 t -> gr < 4294967296 ->
  gran_validate (t_gran t) (map (fun b => (b_off b, b_size b)) (live t)) = Some true.
Proof.
  intros HG HI Hgr. pose proof HG as [HT Hh Hg Hrange _ _ _ Htab].
  unfold gran_validate. destruct (enabled (t_gran t)) eqn:Hen; cbn [negb]; [|reflexivity].
  specialize (Htab eq_refl). pose proof (proj2 HT) as Hp.
  assert (Hpairs : map (fun b => (b_off b, b_size b)) (live t) = pairs (spans t)).
  { unfold pairs, spans. rewrite map_map. reflexivity. }
  rewrite Hpairs.
  destruct (vcount_fold (t_gran t) (spans t) Hp [] (repeat 0 (length (g_regions (t_gran t)))))
    as (cnts' & E & Hl' & Hi').
  - apply repeat_length.
  - intros n Hn. rewrite nth_repeat_Z0. reflexivity.
  - intros s Hs. apply in_spans in Hs. destruct Hs as (a & Ha & <-).
    destruct (live_in_chain _ _ Ha) as (Hin & Hf).
    destruct (region_bounds t a (proj1 HT) (or_intror Hin)) as (B0 & _ & B2).
    pose proof (chain_in_bounds _ _ _ (g_chain _ (i_geom _ (proj1 HT))) Hin) as (_ & Bs & _).
    destruct (slot_in_table (t_gran t) (t_size t) (b_off a) Hp (i2_gran _ HI) Hen ltac:(lia)) as (r1 & Hr1).
    destruct (slot_in_table (t_gran t) (t_size t) (b_off a + b_size a - 1) Hp (i2_gran _ HI) Hen ltac:(lia)) as (r2 & Hr2).
    exists r1, r2. cbn [sig s_off s_size fst snd]. split; [exact Hr1|]. split; [exact Hr2|].
    assert (Hcnt : forall p r, region_at (t_gran t) p = Some r -> touchb gr p (sig a) = true -> 1 <= snd r).
    { intros p r Hr Ht. destruct (Htab p r Hr) as (Hc & _). rewrite Hg in Hc.
      pose proof (tcount_pos _ _ _ _ (live_span _ _ Ha) Ht) as Hpos.
      pose proof (tcount_spans_le t gr p HT ltac:(lia)) as Hle.
      rewrite Hc, Z.mod_small by lia. lia. }
    split.
    + apply (Hcnt _ _ Hr1). unfold touchb, first_page. cbn [sig s_off fst snd].
      fold (start_slot (t_gran t) (b_off a)). rewrite start_slot_div by auto. rewrite Hg, Z.eqb_refl. reflexivity.
    + apply (Hcnt _ _ Hr2). unfold touchb, last_page. cbn [sig s_off s_size fst snd].
      fold (end_slot (t_gran t) (b_off a) (b_size a)). rewrite end_slot_div by auto. rewrite Hg, Z.eqb_refl.
      apply orb_true_r.
  - rewrite E. f_equal. cbn [andb].
    replace cnts' with (map snd (g_regions (t_gran t))); [apply list_eqb_z_refl|].
    rewrite repeat_length in Hl'.
    apply nth_ext with (d := 0) (d' := 0); [rewrite map_length; congruence|].
    intros n Hn. rewrite map_length in Hn. rewrite (Hi' n ltac:(lia)). cbn [app].
    change 0 with (snd (0, 0)) at 1. rewrite map_nth.
    assert (Hr : region_at (t_gran t) (Z.of_nat n) = Some (nth n (g_regions (t_gran t)) (0, 0))).
    { unfold region_at. destruct (Z.ltb_spec (Z.of_nat n) 0); [lia|]. rewrite Nat2Z.id. apply nth_error_nth'. auto. }
    destruct (Htab _ _ Hr) as (Hc & _). rewrite Hc. reflexivity.
Qed.

(* the page counters are uint32: a page of g bytes has at most g allocations counted on it, so
   for g < 2^32 no counter wraps and the handler's own validation passes *)
Theorem tlsf_vam_validate_wide gr size ops :
  cfg2_ok gr size -> 1 <= gr < 4294967296 -> Forall op_ok ops -> Forall op_kind_ok ops ->
  validate (run (tlsf_init HVam gr size) ops) = Some true.
Proof.
  intros Hc Hgr Hok Hk.
  destruct (reach_Inv2 HVam gr size ops Hc Hok) as (HT & HI).
  pose proof (reach_GInv_wide gr size ops (cfg2_cfg _ _ Hc) ltac:(lia) Hok Hk) as HG.
  apply tlsf_validate; auto. apply (gran_validate_ok gr); auto. lia.
Qed.

(* the range of granularities of the properties: 1 .. 64 KiB, 64 KiB included *)
Theorem tlsf_vam_validate gr size ops :
  cfg2_ok gr size -> 1 <= gr <= 65536 -> Forall op_ok ops -> Forall op_kind_ok ops ->
  validate (run (tlsf_init HVam gr size) ops) = Some true.
Proof. intros Hc Hgr. apply tlsf_vam_validate_wide; auto. lia. Qed.

Theorem tlsf_fake_validate gr size ops :
  cfg2_ok gr size -> Forall op_ok ops -> validate (run (tlsf_init HFake gr size) ops) = Some true.
Proof.
  intros Hc Hok. destruct (reach_Inv2 HFake gr size ops Hc Hok) as (HT & HI).
  apply tlsf_validate_disabled; auto. rewrite fake_gran_run. reflexivity.
Qed.
