(* LinearSummary.v — the main theorems about the linear block metadata model, with their assumptions.
   Definitions: LInv/WInv/live (LinearInv.v), req_ok/new_item (LinearAlloc.v), retag_effect
   (LinearFree.v), op_ok/live_effect/cfg (LinearStep.v), flip/eqv (LinearSwap.v),
   tiles/allocs/live_ordered (LinearVisit.v). *)
From Arsenal Require Import Linear LinearInv LinearAlloc LinearFree LinearStep LinearSwap LinearVisit.

Print Assumptions init_LInv.
Print Assumptions live_sound.
Print Assumptions step_preserves.
Print Assumptions step_preserves_LInv.
Print Assumptions live_effect_step.
Print Assumptions no_panic.
Print Assumptions refused_is_noop.
Print Assumptions free_live_succeeds.
Print Assumptions free_live_spec.
Print Assumptions free_unknown_handle.
Print Assumptions free_on_empty_block_panics.
Print Assumptions lookup_own.
Print Assumptions set_own_succeeds.
Print Assumptions set_user_data_spec.
Print Assumptions sort_find_spec.
Print Assumptions sort_find_sorted.
Print Assumptions create_request_spec.
Print Assumptions alloc_spec.
Print Assumptions cleanup_spec.
Print Assumptions bookkeeping.
Print Assumptions empty_is_fresh.
Print Assumptions step_cfg.
Print Assumptions step_flip.
Print Assumptions step_respects_eqv.
Print Assumptions empty_swapped_congruence.
Print Assumptions visit_regions_spec.
Print Assumptions add_statistics_spec.
Print Assumptions add_detailed_statistics_spec.
Print Assumptions lrun_LInv.
Print Assumptions linear_history_sound.
