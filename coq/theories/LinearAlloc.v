(* LinearAlloc.v — CreateAllocationRequest never panics on a state satisfying LInv, a granted request
   lies in the free space the vectors leave, and Alloc of a granted request succeeds and
   re-establishes LInv (linear block metadata model). *)
From Coq Require Import ZArith List Bool Lia.
From Coq Require Import ZifyBool.
From Arsenal Require Import Util Bits Gran Linear LinearInv.
Import ListNotations.
Open Scope Z_scope.
Ltac Zify.zify_post_hook ::= Z.div_mod_to_equations.

(* ------------------------------------------------------------------ consequences of the invariant *)

Lemma end_of_chain0 v : chain_end 0 v = end_of v.
Proof.
  destruct v as [|a v]; [reflexivity|]. symmetry. apply end_of_chain_end. discriminate.
Qed.

Lemma end_of_app_nonempty a b : b <> [] -> end_of (a ++ b) = end_of b.
Proof.
  destruct (list_snoc_cases b) as [->|(b0 & z & ->)]; [congruence|]. intros _.
  rewrite app_assoc, !end_of_snoc. reflexivity.
Qed.

Definition below_all (e : Z) (v : list sub) : Prop :=
  Forall (fun s => s_off s + s_size s <= e /\ 1 <= s_size s) v.

Lemma chain_below lo v : pos_sizes v -> chain_from lo v -> below_all (chain_end lo v) v.
Proof.
  intros Hp Hc. apply Forall_forall. intros s Hs.
  pose proof (chain_in_bounds _ _ _ Hp Hc Hs). eapply Forall_forall in Hp; eauto. cbn in Hp. lia.
Qed.

Lemma below_all_weaken e e' v : e <= e' -> below_all e v -> below_all e' v.
Proof. intros He. apply Forall_impl. intros s. lia. Qed.

Lemma chain_above lo v : pos_sizes v -> chain_from lo v -> Forall (fun s => lo <= s_off s) v.
Proof.
  intros Hp Hc. apply Forall_forall. intros s Hs.
  pose proof (chain_in_bounds _ _ _ Hp Hc Hs). lia.
Qed.

Lemma first_facts l :
  WInv l -> below_all (end_of (first l)) (first l) /\ 0 <= end_of (first l) <= l_size l.
Proof.
  intros HI. destruct (WInv_elim _ HI) as (Hf & Hn & HW). destruct HW.
  rewrite <- Hf in *. destruct w_first as (Hc & He). pose proof (item_ok_pos _ w_ok1) as Hp.
  rewrite <- end_of_chain0. split; [apply chain_below; assumption|].
  pose proof (chain_end_ge _ _ Hp Hc). lia.
Qed.

(* the first vector is not empty: its live window starts with a live item, the lowest one *)
Lemma window_facts l :
  LInv l -> first l <> [] ->
  exists s r, window l = s :: r /\ nth_z (first l) (l_null_begin l) = Some s /\
              suffix_from (first l) (l_null_begin l) = Some (s :: r) /\
              Forall (fun x => s_off s <= s_off x) (s :: r) /\ is_free s = false /\
              0 <= l_null_begin l < zlen (first l).
Proof.
  intros (HI & HL) Hne. destruct (WInv_elim _ HI) as (Hf & Hn & HW).
  destruct (window l) as [|s r] eqn:Hw.
  { destruct HL. rewrite l_pre in Hf by reflexivity. cbn in Hf. congruence. }
  exists s, r. split; [reflexivity|]. rewrite Hf, <- Hn.
  split; [apply nth_z_mid|]. split; [apply suffix_from_app|]. split.
  - destruct HW. apply item_ok_pos in w_ok1. apply pos_sizes_app in w_ok1. destruct w_ok1 as (_ & Hp).
    destruct w_first as (Hc & _). apply chain_from_app in Hc. destruct Hc as (_ & Hc).
    apply pos_sizes_cons in Hp. destruct Hp as (Hs & Hp). cbn in Hc. destruct Hc as (_ & Hc).
    constructor; [lia|]. eapply Forall_impl; [|apply (chain_above _ _ Hp Hc)]. cbn. intros; lia.
  - split; [destruct HL; eauto|]. rewrite zlen_app, zlen_cons.
    pose proof (zlen_nonneg (prefix l)). pose proof (zlen_nonneg r). lia.
Qed.

(* double stack: the second vector is not empty, its last item is the lowest one and lies above the
   first vector *)
Lemma double_facts l :
  LInv l -> l_mode l = MDouble ->
  exists sv0 s, second l = sv0 ++ [s] /\ Forall (fun x => s_off s <= s_off x) (second l) /\
                end_of (first l) <= s_off s /\ s_off s <= l_size l.
Proof.
  intros (HI & HL) Hm. destruct (WInv_elim _ HI) as (Hf & Hn & HW).
  pose proof (order_pos _ _ _ _ _ _ _ _ _ HW) as Hpo.
  destruct HW, HL. rewrite Hm in *. cbn [order] in *.
  destruct (list_snoc_cases (second l)) as [He|(sv0 & s & Hsv)]; [apply l_sv in He; discriminate|].
  exists sv0, s. split; [exact Hsv|]. rewrite Hsv in *. rewrite rev_app_distr in *. cbn [rev app] in *.
  destruct w_order as (Hc & He). apply chain_from_app in Hc. destruct Hc as (Hcw & Hc).
  apply pos_sizes_app in Hpo. destruct Hpo as (Hpw & Hps).
  cbn in Hc. destruct Hc as (Hlo & Hc). apply pos_sizes_cons in Hps. destruct Hps as (Hs & Hps).
  split; [|split].
  - apply Forall_app. split; [|constructor; [lia|constructor]].
    apply Forall_forall. intros x Hx. apply in_rev in Hx.
    pose proof (chain_in_bounds _ _ x Hps Hc Hx) as Hb. lia.
  - destruct (window l) as [|w ws] eqn:Hw.
    + rewrite l_pre in Hf by reflexivity. rewrite Hf. cbn in *. lia.
    + rewrite Hf, end_of_app_nonempty by discriminate. rewrite <- end_of_chain0. exact Hlo.
  - rewrite chain_end_app in He. cbn in He. pose proof (chain_end_ge _ _ Hps Hc). lia.
Qed.

(* not a double stack: the second vector is an ascending chain from 0 that ends below the window *)
Lemma lower_second_facts l :
  WInv l -> l_mode l <> MDouble ->
  below_all (end_of (second l)) (second l) /\ 0 <= end_of (second l) <= l_size l /\
  (forall s r, window l = s :: r -> end_of (second l) <= s_off s).
Proof.
  intros HI Hm. destruct (WInv_elim _ HI) as (Hf & Hn & HW).
  pose proof (order_pos _ _ _ _ _ _ _ _ _ HW) as Hpo. destruct HW.
  assert (Ho : order (l_mode l) (window l) (second l) = second l ++ window l) by (unfold order; destruct (l_mode l) eqn:E; try reflexivity; congruence).
  rewrite Ho in *. apply pos_sizes_app in Hpo. destruct Hpo as (Hps & Hpw).
  apply chain_app in w_order. destruct w_order as (Hc & Hcw).
  rewrite <- end_of_chain0. split; [apply chain_below; assumption|].
  pose proof (chain_end_ge _ _ Hps Hc). pose proof (chain_le _ _ _ Hpw Hcw). split; [lia|].
  intros s r Hw. rewrite Hw in Hcw. apply chain_cons in Hcw. lia.
Qed.

(* ------------------------------------------------------------------ the page scans never panic *)

Lemma bosp_some o1 s1 o2 g :
  o1 + s1 <= o2 -> 1 <= s1 -> 1 <= g -> exists b, blocks_on_same_page o1 s1 o2 g = Some b.
Proof.
  intros H1 H2 H3. unfold blocks_on_same_page.
  destruct (o1 + s1 >? o2) eqn:E1; [lia|]. destruct (s1 <? 1) eqn:E2; [lia|].
  destruct (g <? 1) eqn:E3; [lia|]. eauto.
Qed.

Lemma scan_prev_some items ro g cf :
  1 <= g -> below_all ro items -> exists b, scan_prev items ro g cf = Some b.
Proof.
  intros Hg. induction 1 as [|s r (H1 & H2) _ IH]; cbn [scan_prev]; [eauto|].
  destruct (bosp_some (s_off s) (s_size s) ro g H1 H2 Hg) as (b & ->).
  destruct b; [|eauto]. destruct (cf (s_type s)); eauto.
Qed.

Lemma scan_next_some items ro sz g cf :
  1 <= g -> 1 <= sz -> Forall (fun s => ro + sz <= s_off s) items ->
  exists b, scan_next items ro sz g cf = Some b.
Proof.
  intros Hg Hsz. induction 1 as [|s r H1 _ IH]; cbn [scan_next]; [eauto|].
  destruct (bosp_some ro sz (s_off s) g H1 Hsz Hg) as (b & ->).
  destruct b; [|eauto]. destruct (cf (s_type s)); eauto.
Qed.

Lemma pow2_ge1 g : pow2 g -> 1 <= g.
Proof. intros H. apply pow2_pos in H. lia. Qed.

(* aligning a multiple of `align` up to the granularity keeps it a multiple of `align` *)
Lemma align_up_keeps_mod ro g align :
  pow2 g -> pow2 align -> ro mod align = 0 -> (align_up ro g) mod align = 0.
Proof.
  intros Hg Ha Hm. pose proof (align_up_bounds ro g Hg) as (_ & Hmod).
  destruct (Z_le_gt_dec align g).
  - eapply pow2_mod_mono; [exact Ha|exact Hg|lia|exact Hmod].
  - rewrite align_up_id; auto. eapply pow2_mod_mono; [exact Hg|exact Ha|lia|exact Hm].
Qed.

Lemma lower_align_for_prev_spec l v ro align atype :
  pow2 (l_gran l) -> pow2 align -> below_all ro v -> ro mod align = 0 ->
  exists ro', lower_align_for_prev l v ro align atype = Some ro' /\ ro <= ro' /\ ro' mod align = 0.
Proof.
  intros Hg Ha Hb Hm. unfold lower_align_for_prev.
  destruct ((l_gran l >? 1) && negb (l_gran l =? align) && (zlen v >? 0)); [|exists ro; auto with zarith].
  destruct (scan_prev_some (rev v) ro (l_gran l) (fun ty => allocations_conflict (l_h l) ty atype)
              (pow2_ge1 _ Hg) (Forall_rev Hb)) as (b & ->).
  destruct b; [|exists ro; auto with zarith].
  exists (align_up ro (l_gran l)). split; [reflexivity|].
  pose proof (align_up_bounds ro (l_gran l) Hg). split; [lia|]. apply align_up_keeps_mod; assumption.
Qed.

(* ------------------------------------------------------------------ what a granted request satisfies *)

(* the end of the space the first vector may grow into *)
Definition upper_limit (l : linear) : Z :=
  match l_mode l, last_z (second l) with
  | MDouble, Some s => s_off s
  | _, _ => l_size l
  end.

Definition req_ok (l : linear) (size align : Z) (r : request) : Prop :=
  rq_size r = size /\ 1 <= size /\ rq_offset r mod align = 0 /\
  match rq_type r with
  | RTEndOf1st | RTUpperAddress =>
    l_mode l <> MRing /\ end_of (first l) <= rq_offset r /\ rq_offset r + size <= upper_limit l
  | RTEndOf2nd =>
    l_mode l <> MDouble /\ first l <> [] /\ end_of (second l) <= rq_offset r /\
    (forall s, nth_z (first l) (l_null_begin l) = Some s -> rq_offset r + size <= s_off s)
  | RTTlsf => False
  end.

Lemma lower_end_of_first_spec l size align atype :
  LInv l -> pow2 align -> 1 <= size -> l_mode l <> MRing ->
  match lower_end_of_first l size align atype with
  | LGranted r => req_ok l size align r
  | LPanic => False
  | _ => True
  end.
Proof.
  intros HI Ha Hsz Hm. pose proof HI as (HWI & HL).
  destruct (WInv_elim _ HWI) as (Hf & Hn & HW). pose proof (w_gran _ _ _ _ _ _ _ _ _ HW) as Hg.
  destruct (first_facts _ HWI) as (Hbelow & He0 & He1).
  pose proof (align_up_bounds (end_of (first l)) align Ha) as ((Hlo & _) & Hmod).
  unfold lower_end_of_first.
  destruct (lower_align_for_prev_spec l (first l) (align_up (end_of (first l)) align) align atype Hg Ha
              ltac:(eapply below_all_weaken; [|exact Hbelow]; lia) Hmod) as (ro & -> & Hro & Hrm).
  fold (upper_limit l).
  destruct (ro + size <=? upper_limit l) eqn:Hfit; [|exact I].
  destruct (l_gran l =? 0) eqn:Hg0; [apply pow2_pos in Hg; lia|].
  assert (Hok : req_ok l size align (mkReq (ro + 1) size RTEndOf1st)).
  { unfold req_ok, rq_offset. cbn [rq_size rq_handle rq_type].
    replace (ro + 1 - 1) with ro by lia. repeat split; try assumption; lia. }
  destruct (((Z.rem size (l_gran l) >? 0) || (Z.rem ro (l_gran l) >? 0)) && mode_eqb (l_mode l) MDouble) eqn:Hchk;
    [|exact Hok].
  assert (Hmd : l_mode l = MDouble).
  { apply andb_true_iff in Hchk. destruct Hchk as (_ & Hchk). destruct (l_mode l); try discriminate; reflexivity. }
  destruct (double_facts _ HI Hmd) as (sv0 & s & Hsv & Hall & Hes & Hsl).
  assert (Hul : upper_limit l = s_off s).
  { unfold upper_limit. rewrite Hmd, Hsv, last_z_snoc. reflexivity. }
  destruct (scan_next_some (rev (second l)) ro size (l_gran l) (fun ty => allocations_conflict (l_h l) atype ty)
              (pow2_ge1 _ Hg) Hsz) as (b & ->).
  { apply Forall_rev. eapply Forall_impl; [|exact Hall]. cbn. intros x Hx. lia. }
  destruct b; [exact I|exact Hok].
Qed.

Lemma lower_end_of_second_spec l size align atype :
  LInv l -> pow2 align -> 1 <= size -> l_mode l <> MDouble ->
  match lower_end_of_second l size align atype with
  | QGranted r => req_ok l size align r
  | QPanic => False
  | _ => True
  end.
Proof.
  intros HI Ha Hsz Hm. pose proof HI as (HWI & HL).
  destruct (WInv_elim _ HWI) as (Hf & Hn & HW). pose proof (w_gran _ _ _ _ _ _ _ _ _ HW) as Hg.
  unfold lower_end_of_second.
  destruct (zlen (first l) =? 0) eqn:Hz; [exact I|].
  assert (Hne : first l <> []) by (intros E; rewrite E in Hz; discriminate).
  destruct (window_facts _ HI Hne) as (s & r & Hw & Hnth & Hsuf & Hall & Hlive & Hnb).
  destruct (lower_second_facts _ HWI Hm) as (Hbelow & He & Hbw). specialize (Hbw _ _ Hw).
  pose proof (align_up_bounds (end_of (second l)) align Ha) as ((Hlo & _) & Hmod).
  destruct (lower_align_for_prev_spec l (second l) (align_up (end_of (second l)) align) align atype Hg Ha
              ltac:(eapply below_all_weaken; [|exact Hbelow]; lia) Hmod) as (ro & -> & Hro & Hrm).
  destruct (l_null_begin l =? zlen (first l)) eqn:E1; [lia|].
  destruct (l_null_begin l <? zlen (first l)) eqn:E2; [|lia].
  rewrite Hnth. destruct (ro + size <=? s_off s) eqn:Hfit; [|exact I].
  rewrite Hsuf.
  destruct (scan_next_some (s :: r) ro size (l_gran l) (fun ty => allocations_conflict (l_h l) atype ty)
              (pow2_ge1 _ Hg) Hsz) as (b & ->).
  { eapply Forall_impl; [|exact Hall]. cbn. intros x Hx. lia. }
  destruct b; [exact I|].
  unfold req_ok, rq_offset. cbn [rq_size rq_handle rq_type]. replace (ro + 1 - 1) with ro by lia.
  repeat split; try assumption; try lia. intros s' Hs'. rewrite Hnth in Hs'. injection Hs' as <-. lia.
Qed.

Lemma populate_lower_spec l size align atype :
  LInv l -> pow2 align -> 1 <= size ->
  match populate_lower l size align atype with
  | QGranted r => req_ok l size align r
  | QPanic => False
  | _ => True
  end.
Proof.
  intros HI Ha Hsz. unfold populate_lower. destruct (l_mode l) eqn:Hm.
  - pose proof (lower_end_of_first_spec l size align atype HI Ha Hsz ltac:(congruence)) as H1.
    destruct (lower_end_of_first l size align atype); try exact H1; try exact I.
    apply lower_end_of_second_spec; auto. congruence.
  - apply lower_end_of_second_spec; auto. congruence.
  - pose proof (lower_end_of_first_spec l size align atype HI Ha Hsz ltac:(congruence)) as H1.
    destruct (lower_end_of_first l size align atype); try exact H1; exact I.
Qed.

Lemma upper_align_for_next_spec l ro size align atype :
  pow2 (l_gran l) -> pow2 align -> 1 <= size -> ro mod align = 0 ->
  Forall (fun s => ro + size <= s_off s) (second l) ->
  exists ro', upper_align_for_next l ro size align atype = Some ro' /\ ro' <= ro /\ ro' mod align = 0.
Proof.
  intros Hg Ha Hsz Hm Hall. unfold upper_align_for_next.
  destruct ((l_gran l >? 1) && (zlen (second l) >? 0)); [|exists ro; auto with zarith].
  destruct (scan_next_some (rev (second l)) ro size (l_gran l) (fun ty => allocations_conflict (l_h l) ty atype)
              (pow2_ge1 _ Hg) Hsz (Forall_rev Hall)) as (b & ->).
  destruct b; [|exists ro; auto with zarith].
  eexists. split; [reflexivity|].
  pose proof (align_down_bounds (ro + size - 1) (l_gran l) Hg) as ((_ & H1) & _).
  pose proof (align_down_bounds (align_down (ro + size - 1) (l_gran l) - size) (l_gran l) Hg) as ((_ & H2) & _).
  pose proof (align_down_bounds (align_down (align_down (ro + size - 1) (l_gran l) - size) (l_gran l)) align Ha)
    as ((_ & H3) & H4).
  split; [lia|exact H4].
Qed.

Lemma populate_upper_spec l size align atype :
  LInv l -> pow2 align -> 1 <= size ->
  match populate_upper l size align atype with
  | QGranted r => req_ok l size align r
  | QPanic => False
  | _ => True
  end.
Proof.
  intros HI Ha Hsz. pose proof HI as (HWI & HL).
  destruct (WInv_elim _ HWI) as (Hf & Hn & HW). pose proof (w_gran _ _ _ _ _ _ _ _ _ HW) as Hg.
  destruct (first_facts _ HWI) as (Hbelow & He0 & He1).
  unfold populate_upper.
  destruct (mode_eqb (l_mode l) MRing) eqn:Hmr; [exact I|].
  assert (Hm : l_mode l <> MRing) by (intros E; rewrite E in Hmr; discriminate).
  destruct (size >? l_size l) eqn:Hbig; [exact I|].
  (* the base offset *)
  assert (Hbase : match (match last_z (second l) with
                         | None => Some (l_size l - size)
                         | Some s => if size >? s_off s then None else Some (s_off s - size)
                         end) with
                  | None => True
                  | Some base => base + size = upper_limit l /\ Forall (fun s => base + size <= s_off s) (second l)
                  end).
  { destruct (last_z (second l)) as [s|] eqn:Hlast.
    - destruct (size >? s_off s) eqn:E; [exact I|].
      assert (Hmd : l_mode l = MDouble).
      { destruct (l_mode l) eqn:Hmm; try congruence. destruct HW. rewrite w_mode in Hlast by reflexivity. discriminate. }
      destruct (double_facts _ HI Hmd) as (sv0 & s' & Hsv & Hall & Hes & Hsl).
      rewrite Hsv, last_z_snoc in Hlast. injection Hlast as ->.
      split; [unfold upper_limit; rewrite Hmd, Hsv, last_z_snoc; lia|].
      eapply Forall_impl; [|exact Hall]. cbn. intros; lia.
    - apply last_z_none in Hlast. rewrite Hlast. split; [|constructor].
      unfold upper_limit. rewrite Hlast. destruct (l_mode l); cbn; lia. }
  destruct (match last_z (second l) with
            | None => Some (l_size l - size)
            | Some s => if size >? s_off s then None else Some (s_off s - size)
            end) as [base|]; [|exact I].
  destruct Hbase as (Hbl & Hall).
  pose proof (align_down_bounds base align Ha) as ((_ & Hdn) & Hdm).
  destruct (upper_align_for_next_spec l (align_down base align) size align atype Hg Ha Hsz Hdm) as (ro & -> & Hro & Hrm).
  { eapply Forall_impl; [|exact Hall]. cbn. intros; lia. }
  destruct (end_of (first l) >? ro) eqn:Hcol; [exact I|].
  assert (Hok : req_ok l size align (mkReq (ro + 1) size RTUpperAddress)).
  { unfold req_ok, rq_offset. cbn [rq_size rq_handle rq_type]. replace (ro + 1 - 1) with ro by lia.
    repeat split; try assumption; lia. }
  destruct (l_gran l >? 1); [|exact Hok].
  destruct (scan_prev_some (rev (first l)) ro (l_gran l) (fun ty => allocations_conflict (l_h l) atype ty)
              (pow2_ge1 _ Hg)) as (b & ->).
  { apply Forall_rev. eapply below_all_weaken; [|exact Hbelow]. lia. }
  destruct b; [exact I|exact Hok].
Qed.

Theorem create_request_spec l size align upper atype strategy maxOffset :
  LInv l -> pow2 align ->
  match create_request l size align upper atype strategy maxOffset with
  | QGranted r => req_ok l size align r /\ atype <> 0
  | QPanic => False
  | _ => True
  end.
Proof.
  intros HI Ha. unfold create_request.
  destruct (size <=? 0) eqn:Hs; [exact I|]. destruct (atype =? 0) eqn:Ht; [exact I|].
  destruct upper.
  - pose proof (populate_upper_spec l size align atype HI Ha ltac:(lia)) as H.
    destruct (populate_upper l size align atype); auto. split; [exact H|lia].
  - pose proof (populate_lower_spec l size align atype HI Ha ltac:(lia)) as H.
    destruct (populate_lower l size align atype); auto. split; [exact H|lia].
Qed.

(* ------------------------------------------------------------------ Alloc *)

Lemma upper_limit_le l : LInv l -> upper_limit l <= l_size l.
Proof.
  intros HI. unfold upper_limit. destruct (l_mode l) eqn:Hm; try lia.
  destruct (double_facts _ HI Hm) as (sv0 & s & Hsv & _ & _ & Hsl). rewrite Hsv, last_z_snoc. exact Hsl.
Qed.

Lemma lives_snoc_live v x : is_free x = false -> lives (v ++ [x]) = lives v ++ [x].
Proof. intros H. rewrite lives_app, lives_cons_live by assumption. reflexivity. Qed.

Lemma count_free_snoc_live v x : is_free x = false -> count_free (v ++ [x]) = count_free v.
Proof. intros H. rewrite count_free_app, count_free_cons, H, count_free_nil. lia. Qed.

Lemma chain_end_suffix pre win : pos_sizes pre -> chain_from 0 pre -> chain_end 0 win <= chain_end 0 (pre ++ win).
Proof.
  intros Hp Hc. rewrite chain_end_app. apply chain_end_mono. apply chain_end_ge; assumption.
Qed.

(* the address order after a live item x has been put between the window and the upper stack *)
Lemma order_insert pre win sv m sf nm ns size g x :
  W pre win sv m sf nm ns size g -> m <> MRing ->
  1 <= s_size x -> end_of (pre ++ win) <= s_off x -> s_off x + s_size x <= size ->
  (forall sv0 s, sv = sv0 ++ [s] -> m = MDouble -> s_off x + s_size x <= s_off s) ->
  chain 0 (win ++ x :: rev sv) size.
Proof.
  intros HW Hm Hsx Hlo Hhi Hlim. destruct HW.
  pose proof (item_ok_pos _ w_ok1) as Hp. apply pos_sizes_app in Hp. destruct Hp as (Hpp & Hpw).
  destruct w_first as (Hcf & _). pose proof Hcf as Hcf'. apply chain_from_app in Hcf'. destruct Hcf' as (Hcp & _).
  pose proof (chain_end_suffix pre win Hpp Hcp) as Hsuf. rewrite (end_of_chain0 (pre ++ win)) in Hsuf.
  destruct m; [|congruence|].
  - rewrite w_mode in * by reflexivity. cbn [order rev app] in *.
    destruct w_order as (Hcw & _).
    apply chain_app. split; [exact Hcw|]. apply chain_cons. split; [lia|]. apply chain_nil. lia.
  - cbn [order] in *. apply chain_app in w_order. destruct w_order as (Hcw & Hcs).
    apply chain_app. split; [exact Hcw|]. apply chain_cons. split; [lia|].
    destruct (list_snoc_cases sv) as [->|(sv0 & s & ->)].
    + cbn. apply chain_nil. lia.
    + specialize (Hlim _ _ eq_refl eq_refl). rewrite rev_app_distr in *. cbn [rev app] in *.
      apply chain_cons in Hcs. apply chain_cons. split; [lia|tauto].
Qed.

Lemma item_live_not_free x : s_type x <> 0 -> is_free x = false.
Proof. unfold is_free. lia. Qed.

Lemma W_snoc_first pre win sv m sf nm ns size g x :
  W pre win sv m sf nm ns size g -> m <> MRing ->
  item_ok x -> is_free x = false -> end_of (pre ++ win) <= s_off x -> s_off x + s_size x <= size ->
  (forall sv0 s, sv = sv0 ++ [s] -> m = MDouble -> s_off x + s_size x <= s_off s) ->
  W pre (win ++ [x]) sv m (sf - s_size x) nm ns size g.
Proof.
  intros HW Hm Hok Hlive Hlo Hhi Hlim.
  pose proof (order_insert _ _ _ _ _ _ _ _ _ x HW Hm ltac:(apply Hok) Hlo Hhi Hlim) as Hord.
  destruct HW. constructor; try assumption.
  - rewrite count_free_snoc_live; assumption.
  - rewrite app_assoc. apply Forall_app. split; [assumption|constructor; [assumption|constructor]].
  - rewrite app_assoc. destruct w_first as (Hcf & Hce). apply chain_app. split; [exact Hcf|].
    rewrite end_of_chain0. apply chain_cons. split; [lia|]. apply chain_nil. lia.
  - destruct m; [|congruence|].
    + rewrite w_mode in * by reflexivity. cbn [order rev app] in *. exact Hord.
    + cbn [order]. rewrite <- app_assoc. exact Hord.
  - rewrite lives_snoc_live by assumption. rewrite !sum_sizes_app in *. cbn [sum_sizes]. lia.
Qed.

Lemma L_snoc_first pre win sv m x :
  L pre win sv m -> is_free x = false -> L pre (win ++ [x]) sv m.
Proof.
  intros HL Hlive. destruct HL. constructor; try assumption.
  - intros H. destruct win; discriminate.
  - intros s r H. destruct win as [|w ws]; cbn in H; injection H as <- _; [assumption|]. eapply l_head. reflexivity.
  - intros v s H. apply app_inj_tail in H. destruct H as (_ & <-). assumption.
  - intros _ H. destruct win; discriminate.
Qed.

Lemma W_snoc_upper pre win sv m sf nm ns size g x :
  W pre win sv m sf nm ns size g -> m <> MRing ->
  item_ok x -> is_free x = false -> end_of (pre ++ win) <= s_off x -> s_off x + s_size x <= size ->
  (forall sv0 s, sv = sv0 ++ [s] -> m = MDouble -> s_off x + s_size x <= s_off s) ->
  W pre win (sv ++ [x]) MDouble (sf - s_size x) nm ns size g.
Proof.
  intros HW Hm Hok Hlive Hlo Hhi Hlim.
  pose proof (order_insert _ _ _ _ _ _ _ _ _ x HW Hm ltac:(apply Hok) Hlo Hhi Hlim) as Hord.
  destruct HW. constructor; try assumption.
  - rewrite count_free_snoc_live; assumption.
  - apply Forall_app. split; [assumption|constructor; [assumption|constructor]].
  - cbn [order]. rewrite rev_app_distr. exact Hord.
  - discriminate.
  - rewrite lives_snoc_live by assumption. rewrite !sum_sizes_app in *. cbn [sum_sizes]. lia.
Qed.

Lemma L_snoc_second pre win sv m m' x :
  L pre win sv m -> is_free x = false -> (m' = MRing -> win <> []) -> L pre win (sv ++ [x]) m'.
Proof.
  intros HL Hlive Hr. destruct HL. constructor; try assumption.
  - intros H. destruct sv; discriminate.
  - intros v s H. apply app_inj_tail in H. destruct H as (_ & <-). assumption.
Qed.

Lemma W_snoc_ring pre win sv m sf nm ns size g x w ws :
  W pre win sv m sf nm ns size g -> m <> MDouble -> win = w :: ws ->
  item_ok x -> is_free x = false -> end_of sv <= s_off x -> s_off x + s_size x <= s_off w ->
  W pre win (sv ++ [x]) MRing (sf - s_size x) nm ns size g.
Proof.
  intros HW Hm Hwin Hok Hlive Hlo Hhi. destruct HW. constructor; try assumption.
  - rewrite count_free_snoc_live; assumption.
  - apply Forall_app. split; [assumption|constructor; [assumption|constructor]].
  - assert (Ho : order m win sv = sv ++ win) by (unfold order; destruct m; try reflexivity; congruence).
    rewrite Ho in w_order. cbn [order]. rewrite <- app_assoc. subst win.
    apply chain_app in w_order. destruct w_order as (Hcs & Hcw). apply chain_cons in Hcw.
    apply chain_app. split; [exact Hcs|]. rewrite end_of_chain0. cbn [app].
    apply chain_cons. split; [lia|]. apply chain_cons. split; [lia|tauto].
  - discriminate.
  - rewrite lives_snoc_live by assumption. rewrite !sum_sizes_app in *. cbn [sum_sizes]. lia.
Qed.

Lemma live_of_split l pre win :
  first l = pre ++ win -> zlen pre = l_null_begin l -> live l = lives win ++ lives (second l).
Proof. intros Hf Hn. unfold live. destruct (split_first _ _ _ Hf Hn) as (_ & ->). reflexivity. Qed.

Definition new_item (off size : Z) (tag : option Z) (atype align : Z) : sub :=
  mkSub off size tag atype size align.

Theorem alloc_spec l size align r atype tag :
  LInv l -> req_ok l size align r -> atype <> 0 -> 0 < align ->
  exists l', alloc l r atype tag size align = AOk l' /\ LInv l' /\
             l_size l' = l_size l /\ l_gran l' = l_gran l /\ l_h l' = l_h l /\
             exists l1 l2, live l = l1 ++ l2 /\
                           live l' = l1 ++ new_item (rq_offset r) size tag atype align :: l2.
Proof.
  intros HI (Hrs & Hsz & Hmod & Hty) Hat Hal. pose proof HI as (HWI & HL).
  destruct (WInv_elim _ HWI) as (Hf & Hn & HW).
  set (x := new_item (rq_offset r) size tag atype align).
  assert (Hxok : item_ok x) by (unfold item_ok, x, new_item; cbn; repeat split; lia).
  assert (Hxl : is_free x = false) by (apply item_live_not_free; exact Hat).
  unfold alloc. fold (rq_offset r). rewrite Hrs. fold (new_item (rq_offset r) size tag atype align). fold x.
  pose proof (upper_limit_le _ HI) as Hul.
  assert (Hlim : l_mode l <> MRing -> rq_offset r + size <= upper_limit l ->
                 forall sv0 s, second l = sv0 ++ [s] -> l_mode l = MDouble -> s_off x + s_size x <= s_off s).
  { intros _ Hle sv0 s Hsv Hmd. unfold upper_limit in Hle. rewrite Hmd, Hsv, last_z_snoc in Hle. exact Hle. }
  destruct (rq_type r); [contradiction| | |].
  - (* upper address *)
    destruct Hty as (Hm & Hlo & Hhi). specialize (Hlim Hm Hhi).
    unfold alloc_upper. destruct (mode_eqb (l_mode l) MRing) eqn:Hmr; [destruct (l_mode l); try discriminate; congruence|].
    eexists. split; [reflexivity|]. rewrite Hf in Hlo.
    pose proof (W_snoc_upper _ _ _ _ _ _ _ _ _ x HW Hm Hxok Hxl Hlo ltac:(cbn; lia) Hlim) as HW'.
    pose proof (L_snoc_second _ _ _ _ MDouble x HL Hxl ltac:(discriminate)) as HL'.
    split; [|lsimp; repeat split; try reflexivity].
    + apply (LInv_intro _ (prefix l) (window l)); lsimp; auto.
    + exists (live l), []. rewrite app_nil_r. split; [reflexivity|].
      unfold live at 1. unfold window. lsimp. fold (window l). rewrite lives_snoc_live by assumption.
      unfold live. rewrite app_assoc. reflexivity.
  - (* end of first *)
    destruct Hty as (Hm & Hlo & Hhi). specialize (Hlim Hm Hhi).
    unfold alloc_end_of_first.
    assert (Hov : match last_z (first l) with Some s => s_off x <? s_off s + s_size s | None => false end = false).
    { unfold end_of in Hlo. destruct (last_z (first l)); [|reflexivity]. cbn. lia. }
    rewrite Hov. destruct (s_off x + s_size x >? l_size l) eqn:Hbig; [cbn in Hbig; lia|].
    eexists. split; [reflexivity|]. rewrite Hf in Hlo.
    pose proof (W_snoc_first _ _ _ _ _ _ _ _ _ x HW Hm Hxok Hxl Hlo ltac:(cbn; lia) Hlim) as HW'.
    pose proof (L_snoc_first _ _ _ _ x HL Hxl) as HL'.
    assert (Hf' : first l ++ [x] = prefix l ++ window l ++ [x]) by (rewrite Hf at 1; rewrite app_assoc; reflexivity).
    split; [|lsimp; repeat split; try reflexivity].
    + apply (LInv_intro _ (prefix l) (window l ++ [x])); lsimp; auto.
    + exists (lives (window l)), (lives (second l)). split; [reflexivity|].
      rewrite (live_of_split _ (prefix l) (window l ++ [x])) by (lsimp; auto).
      lsimp. rewrite lives_snoc_live by assumption. rewrite <- app_assoc. reflexivity.
  - (* end of second *)
    destruct Hty as (Hm & Hne & Hlo & Hhi).
    destruct (window_facts _ HI Hne) as (w & ws & Hw & Hnth & _ & _ & _ & Hnb).
    specialize (Hhi _ Hnth).
    unfold alloc_end_of_second. destruct (zlen (first l) =? 0) eqn:Hz; [lia|]. rewrite Hnth.
    destruct (s_off x + s_size x >? s_off w) eqn:Hbig; [cbn in Hbig; lia|].
    pose proof (W_snoc_ring _ _ _ _ _ _ _ _ _ x w ws HW Hm Hw Hxok Hxl Hlo ltac:(cbn; lia)) as HW'.
    pose proof (L_snoc_second _ _ _ _ MRing x HL Hxl ltac:(intros _; rewrite Hw; discriminate)) as HL'.
    assert (Hlv : lives (window l) ++ lives (second l ++ [x]) = live l ++ [x]).
    { rewrite lives_snoc_live by assumption. unfold live. rewrite app_assoc. reflexivity. }
    destruct (l_mode l) eqn:Hmm; [| |congruence].
    + assert (Hsv : second l = []) by (destruct HW; auto). rewrite Hsv. cbn [zlen length Z.of_nat Z.gtb Z.compare].
      eexists. split; [reflexivity|]. rewrite Hsv in *.
      split; [|lsimp; repeat split; try reflexivity].
      * apply (LInv_intro _ (prefix l) (window l)); lsimp; auto.
      * exists (live l), []. rewrite app_nil_r. split; [reflexivity|].
        unfold live at 1. unfold window. lsimp. fold (window l). rewrite Hlv. reflexivity.
    + destruct (zlen (second l) =? 0) eqn:Hz2.
      { apply Z.eqb_eq, zlen_zero in Hz2. destruct HL. apply l_sv in Hz2. discriminate. }
      eexists. split; [reflexivity|].
      split; [|lsimp; repeat split; try reflexivity].
      * apply (LInv_intro _ (prefix l) (window l)); lsimp; auto. rewrite Hmm. exact HW'. rewrite Hmm. exact HL'.
      * exists (live l), []. rewrite app_nil_r. split; [reflexivity|].
        unfold live at 1. unfold window. lsimp. fold (window l). rewrite Hlv. reflexivity.
Qed.
