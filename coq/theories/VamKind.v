(* VamKind.v — the block lists keep their algorithm, every block keeps the kind of its metadata, and a persistently
   mapped Allocation allows mapping: KInv, an invariant of every function of the model.  Needed for BeginDefragPass
   (VamDefragNp.dpass_inv): the block lists of a defragmentation context hold TLSF blocks only, also the blocks
   created after BeginDefragmentation checked it.
     k_kind   the metadata of a block is TLSF iff the list's algorithm is 0
     k_algo   the algorithm of a list is 0 (TLSF) or 2 (linear)
     k_def    the default lists use algorithm 0
     k_pa     a persistently mapped Allocation allows mapping (else initBlockAllocation panics)
   KR v v': KInv is kept and every list of v is still there in v' with the same algorithm. *)
From Coq Require Import ZArith List Bool Lia Permutation.
From Arsenal Require Import Util Budget VamDev VamBlockList VamDefrag Vam VamInvMeta VamInv VamInvUpd VamInvDev VamInvStep VamInvStep2.
From Arsenal Require Import VamDefragInv VamDefragStep VamDefragPass VamDefragNp.
From Arsenal Require VamShape VamShapeStep.
From Arsenal Require Pass Defrag SyncMem.
Import ListNotations.
Open Scope Z_scope.

Record KInv (v : vam) : Prop := mkK {
  k_kind : forall lr l b, get_blist v lr = Some l -> In b (bl_blocks l) -> is_tlsf (bk_meta b) = (bl_algo l =? 0);
  k_algo : forall lr l, get_blist v lr = Some l -> bl_algo l = 0 \/ bl_algo l = 2;
  k_def : forall t l, get_blist v (LDef t) = Some l -> bl_algo l = 0;
  k_pa : pa_ok v
}.

Definition akeep (v v' : vam) : Prop :=
  forall lr l, get_blist v lr = Some l -> exists l', get_blist v' lr = Some l' /\ bl_algo l' = bl_algo l.

Definition KR (v v' : vam) : Prop := KInv v -> KInv v' /\ akeep v v'.

Lemma akeep_refl v : akeep v v.
Proof. intros lr l H. eauto. Qed.
Lemma akeep_trans a b d : akeep a b -> akeep b d -> akeep a d.
Proof. intros H1 H2 lr l H. destruct (H1 _ _ H) as (l1 & G1 & E1). destruct (H2 _ _ G1) as (l2 & G2 & E2). exists l2. split; [auto|congruence]. Qed.

Lemma akeep_algo v v' lr l l' : akeep v v' -> get_blist v lr = Some l -> get_blist v' lr = Some l' -> bl_algo l' = bl_algo l.
Proof. intros A Hg Hg'. destruct (A _ _ Hg) as (l2 & G2 & E2). congruence. Qed.

Lemma KR_refl v : KR v v.
Proof. intros K. split; [auto|apply akeep_refl]. Qed.
Lemma KR_trans a b d : KR a b -> KR b d -> KR a d.
Proof. intros A B K. destruct (A K) as (K1 & A1). destruct (B K1) as (K2 & A2). split; [auto|eapply akeep_trans; eauto]. Qed.

(* states with the same lists and the same Allocation table *)
Lemma KR_same v v' : (forall lr, get_blist v' lr = get_blist v lr) -> v_tab v' = v_tab v -> KR v v'.
Proof.
  intros Hl Ht [A B C D]. split.
  - constructor.
    + intros lr l b Hg. rewrite Hl in Hg. eauto.
    + intros lr l Hg. rewrite Hl in Hg. eauto.
    + intros t l Hg. rewrite Hl in Hg. eauto.
    + intros s a Sa. apply (D s a). unfold slot_is in *. rewrite <- Ht. exact Sa.
  - intros lr l Hg. exists l. rewrite Hl. auto.
Qed.

Lemma KR_set_m v m : KR v (set_m v m).
Proof. apply KR_same; [intros; apply get_blist_set_m|reflexivity]. Qed.

Lemma KR_set_dedlist v lr d : KR v (set_dedlist v lr d).
Proof. apply KR_same; [intros; apply get_blist_set_dedlist|]. destruct lr as [t|u]; cbn; [reflexivity|]. destruct (find_pool (v_pools v) u); reflexivity. Qed.

(* one Allocation object is written *)
Lemma KR_set_alloc v s a' :
  (a_allocated a' = true -> a_persist a' = true -> a_mapallowed a' = true) -> KR v (set_alloc v s a').
Proof.
  intros Ha [A B C D]. split.
  - constructor.
    + intros lr l b Hg. rewrite get_blist_set_alloc in Hg. eauto.
    + intros lr l Hg. rewrite get_blist_set_alloc in Hg. eauto.
    + intros t l Hg. rewrite get_blist_set_alloc in Hg. eauto.
    + intros s1 a1 S1 P1. destruct (Z.eq_dec s1 s) as [->|Hne].
      * destruct S1 as (Sn & Sal). assert (Hr : 0 <= s < zlen (v_tab v)).
        { apply nth_z_some_range in Sn. unfold set_alloc in Sn. cbn in Sn. unfold zlen in *. rewrite set_nth_z_length in Sn. exact Sn. }
        unfold set_alloc in Sn. cbn in Sn. rewrite nth_z_set_same in Sn by exact Hr. injection Sn as <-. auto.
      * apply (slot_is_set_alloc_other v s a' s1 a1 Hne) in S1. eauto.
  - intros lr l Hg. exists l. rewrite get_blist_set_alloc. auto.
Qed.

(* an Allocation object is appended *)
Lemma KR_snoc v a' :
  (a_allocated a' = true -> a_persist a' = true -> a_mapallowed a' = true) -> KR v (set_tab v (v_tab v ++ [a'])).
Proof.
  intros Ha [A B C D]. split.
  - constructor.
    + intros lr l b Hg. rewrite get_blist_set_tab in Hg. eauto.
    + intros lr l Hg. rewrite get_blist_set_tab in Hg. eauto.
    + intros t l Hg. rewrite get_blist_set_tab in Hg. eauto.
    + intros s1 a1 (Sn & Sal) P1. cbn [v_tab set_tab] in Sn.
      destruct (Z_lt_dec s1 (zlen (v_tab v))) as [Hlt|Hge]; [rewrite nth_z_app_old in Sn by exact Hlt; apply (D s1 a1 (conj Sn Sal) P1)|].
      assert (Hr : 0 <= s1) by (apply nth_z_some_range in Sn; lia).
      replace s1 with (zlen (v_tab v) + Z.of_nat (Z.to_nat (s1 - zlen (v_tab v)))) in Sn by lia. rewrite nth_z_app_new in Sn.
      destruct (Z.to_nat (s1 - zlen (v_tab v))) as [|n]; cbn in Sn; [injection Sn as <-; auto|destruct n; discriminate].
  - intros lr l Hg. exists l. rewrite get_blist_set_tab. auto.
Qed.

(* a list is replaced: same algorithm, blocks of the right kind *)
Lemma KR_set_blist v lr l l' :
  get_blist v lr = Some l -> bl_algo l' = bl_algo l ->
  (KInv v -> forall b', In b' (bl_blocks l') -> is_tlsf (bk_meta b') = (bl_algo l =? 0)) -> KR v (set_blist v lr l').
Proof.
  intros Hg Ea Hk K. pose proof K as [A B C D]. split.
  - constructor.
    + intros lr1 l1 b1 Hg1 Hb1. destruct (lref_eq_dec lr1 lr) as [->|Hne].
      * rewrite (get_set_blist_same _ _ _ _ Hg) in Hg1. injection Hg1 as <-. rewrite Ea. apply Hk; auto.
      * rewrite get_set_blist_other in Hg1 by congruence. eauto.
    + intros lr1 l1 Hg1. destruct (lref_eq_dec lr1 lr) as [->|Hne].
      * rewrite (get_set_blist_same _ _ _ _ Hg) in Hg1. injection Hg1 as <-. rewrite Ea. eauto.
      * rewrite get_set_blist_other in Hg1 by congruence. eauto.
    + intros t l1 Hg1. destruct (lref_eq_dec (LDef t) lr) as [<-|Hne].
      * rewrite (get_set_blist_same _ _ _ _ Hg) in Hg1. injection Hg1 as <-. rewrite Ea. eauto.
      * rewrite get_set_blist_other in Hg1 by congruence. eauto.
    + intros s a Sa. apply (D s a). apply (proj1 (slot_is_set_blist _ _ _ _ _)) in Sa. exact Sa.
  - intros lr1 l1 Hg1. destruct (lref_eq_dec lr1 lr) as [->|Hne].
    + exists l'. rewrite (get_set_blist_same _ _ _ _ Hg). split; [reflexivity|congruence].
    + exists l1. rewrite get_set_blist_other by congruence. auto.
Qed.

Lemma rb_cases bs nb x : In x (replace_block bs nb) -> x = nb \/ In x bs.
Proof.
  induction bs as [|y bs IH]; cbn; [intros []|]. destruct (bk_id y =? bk_id nb); cbn.
  - intros [<-|H]; auto.
  - intros [<-|H]; [auto|]. destruct (IH H); auto.
Qed.

(* a block is replaced by one of the right kind *)
Lemma KR_put_block v lr nb :
  (KInv v -> forall l, get_blist v lr = Some l -> is_tlsf (bk_meta nb) = (bl_algo l =? 0)) -> KR v (put_block v lr nb).
Proof.
  intros Hs. unfold put_block. destruct (get_blist v lr) as [l|] eqn:Hg; [|apply KR_refl].
  apply (KR_set_blist v lr l _ Hg); [reflexivity|]. intros K b' Hb'. cbn [bl_blocks set_blocks] in Hb'.
  destruct (rb_cases _ _ _ Hb') as [->|Hin]; [apply (Hs K l eq_refl)|apply (k_kind _ K _ _ _ Hg Hin)].
Qed.

(* the block read with get_block has the kind of its list *)
Lemma get_block_kind v lr bid b l : KInv v -> get_block v lr bid = Some b -> get_blist v lr = Some l -> is_tlsf (bk_meta b) = (bl_algo l =? 0).
Proof.
  intros K Hgb Hg. destruct (get_block_in _ _ _ _ Hgb) as (l' & Hg' & Hb & _). assert (l' = l) by congruence. subst l'. apply (k_kind _ K _ _ _ Hg Hb).
Qed.

(* the SynchronizedMemory of a block is updated *)
Lemma KR_put_sm v lr bid b s' : get_block v lr bid = Some b -> KR v (put_block v lr (mkBlock (bk_id b) (bk_mem b) s' (bk_meta b))).
Proof. intros Hgb. apply KR_put_block. intros K l Hg. cbn [bk_meta]. eapply get_block_kind; eauto. Qed.

(* ---------------------------------------------------------------- the metadata operations keep the kind *)

Lemma meta_request_kind mt size align upper sub strat mt' rq :
  meta_create_request mt size align upper sub strat = MGranted mt' rq -> is_tlsf mt' = is_tlsf mt.
Proof.
  unfold meta_create_request. destruct mt as [t|l].
  - destruct (Tlsf.create_request _ _ _ _ _ _ _); try discriminate. intros H; injection H as <- _. reflexivity.
  - destruct (Linear.create_request _ _ _ _ _ _ _); try discriminate. intros H; injection H as <- _. reflexivity.
Qed.

Lemma meta_alloc_kind mt rq sub slot reqsize reqalign mt' h :
  meta_alloc mt rq sub slot reqsize reqalign = OK (mt', h) -> is_tlsf mt' = is_tlsf mt.
Proof.
  unfold meta_alloc. destruct mt as [t|l], rq as [r|r]; try discriminate.
  - destruct (Tlsf.alloc _ _ _ _ _); try discriminate. intros H; injection H as <- _. reflexivity.
  - destruct (Linear.alloc _ _ _ _ _ _); try discriminate. intros H; injection H as <- _. reflexivity.
Qed.

Lemma meta_free_kind mt h mt' : meta_free mt h = OK mt' -> is_tlsf mt' = is_tlsf mt.
Proof.
  unfold meta_free. destruct mt as [t|l].
  - destruct (Tlsf.tlsf_free t h); try discriminate. intros H; injection H as <-. reflexivity.
  - destruct (Linear.lin_free l h); try discriminate. intros H; injection H as <-. reflexivity.
Qed.

Lemma meta_set_ud_kind mt h tag mt' : meta_set_user_data mt h tag = Some mt' -> is_tlsf mt' = is_tlsf mt.
Proof.
  unfold meta_set_user_data. destruct mt as [t|l].
  - destruct (Tlsf.set_user_data t h (Some tag)); try discriminate. intros H; injection H as <-. reflexivity.
  - destruct (Linear.set_user_data l h (Some tag)); try discriminate. intros H; injection H as <-. reflexivity.
Qed.

Lemma meta_init_kind algo gr size : is_tlsf (meta_init algo gr size) = (algo =? 0).
Proof. unfold meta_init. destruct (algo =? 0); reflexivity. Qed.

(* ---------------------------------------------------------------- block_list.go *)

Section WithCfg.
Variable c : vcfg.

(* a list keeps some of its blocks *)
Lemma KR_sub_blocks v lr l bs : get_blist v lr = Some l -> (forall b, In b bs -> In b (bl_blocks l)) -> KR v (set_blist v lr (set_blocks l bs)).
Proof. intros Hg Hs. apply (KR_set_blist v lr l _ Hg); [reflexivity|]. intros K b' Hb'. apply (k_kind _ K _ _ _ Hg). apply Hs. exact Hb'. Qed.

Lemma sort_K (l : blist) b : In b (bl_blocks (incrementally_sort l)) -> In b (bl_blocks l).
Proof.
  unfold incrementally_sort. destruct (_ || _); [auto|]. cbn. intros H. eapply Permutation_in; [apply Permutation_sym; apply bubble_once_perm|exact H].
Qed.

Lemma sort_algo (l : blist) : bl_algo (incrementally_sort l) = bl_algo l.
Proof. unfold incrementally_sort. destruct (_ || _); reflexivity. Qed.

Lemma sort_list_K v lr : KR v (sort_list v lr).
Proof.
  unfold sort_list. destruct (get_blist v lr) as [l|] eqn:Hg; [|apply KR_refl].
  apply (KR_set_blist v lr l _ Hg); [apply sort_algo|]. intros K b' Hb'. apply (k_kind _ K _ _ _ Hg). apply sort_K. exact Hb'.
Qed.

Lemma create_block_K v lr size : KR v (fst (create_block c v lr size)).
Proof.
  unfold create_block. destruct (get_blist v lr) as [l|] eqn:Hg; [|apply KR_refl].
  destruct (alloc_vk c (v_m v) (bl_type l) size 0) as (m1 & r). destruct r as [mem|code| |]; cbn [fst]; try apply KR_set_m.
  eapply KR_trans; [apply KR_set_m|]. apply (KR_set_blist (set_m v m1) lr l); [rewrite get_blist_set_m; exact Hg|reflexivity|].
  intros K b' Hb'. cbn [bl_blocks set_blocks_next] in Hb'. apply in_app_iff in Hb'. destruct Hb' as [Hb'|[<-|[]]].
  - apply (k_kind _ K lr l); [rewrite get_blist_set_m; exact Hg|exact Hb'].
  - cbn [bk_meta]. apply meta_init_kind.
Qed.

Lemma destroy_block_K v ty b : KR v (fst (destroy_block c v ty b)).
Proof. unfold destroy_block. destruct (negb _); [apply KR_refl|]. destruct (free_vk c (v_m v) ty _ (bk_mem b)) as (m1 & r). apply KR_set_m. Qed.

Lemma destroy_blocks_K bs : forall v ty, KR v (fst (destroy_blocks c v ty bs)).
Proof.
  induction bs as [|b tl IH]; intros v ty; cbn [destroy_blocks]; [apply KR_refl|].
  pose proof (destroy_block_K v ty b) as H. destruct (destroy_block c v ty b) as (v1 & r). cbn [fst] in H.
  destruct r as [[]|code| |]; cbn [fst]; try exact H. eapply KR_trans; [exact H|apply IH].
Qed.

(* the block (bid) gets new metadata of the same kind *)
Lemma KR_put_meta v lr bid b s' mt' :
  get_block v lr bid = Some b -> is_tlsf mt' = is_tlsf (bk_meta b) -> KR v (put_block v lr (mkBlock (bk_id b) (bk_mem b) s' mt')).
Proof.
  intros Hgb Hk. apply KR_put_block. intros K l Hg. cbn [bk_meta]. rewrite Hk. eapply get_block_kind; eauto.
Qed.

Lemma commit_request_K v lr bid rq reqsize align flags sub slot : KR v (fst (commit_request c v lr bid rq reqsize align flags sub slot)).
Proof.
  unfold commit_request. destruct (get_blist v lr) as [l|] eqn:Hg; [|apply KR_refl].
  destruct (get_block v lr bid) as [b|] eqn:Hgb; [|apply KR_refl].
  destruct (sm_sub (v_m v) (bk_mem b) (bk_sm b)) as (m1 & s1).
  destruct (if fl flags F_MAPPED then sm_map c m1 (bk_mem b) s1 else (m1, s1, OK tt)) as ((m2 & s2) & mr).
  assert (H2 : KR v (put_block (set_m v m2) lr (mkBlock (bk_id b) (bk_mem b) s2 (bk_meta b)))).
  { eapply KR_trans; [apply KR_set_m|]. apply (KR_put_sm (set_m v m2) lr bid b s2). unfold get_block. rewrite get_blist_set_m. exact Hgb. }
  set (v2 := put_block (set_m v m2) lr (mkBlock (bk_id b) (bk_mem b) s2 (bk_meta b))) in *.
  destruct mr as [[]|code| |]; cbn [fst]; try exact H2.
  assert (H3 : KR v (set_alloc v2 slot (alloc_init (mapping_allowed flags)))).
  { eapply KR_trans; [exact H2|]. apply KR_set_alloc. cbn. discriminate. }
  set (v3 := set_alloc v2 slot (alloc_init (mapping_allowed flags))) in *.
  destruct (meta_alloc (bk_meta b) rq sub slot reqsize align) as [(mt' & handle)|code| |] eqn:Ema; cbn [fst]; try exact H3.
  assert (H4 : KR v (put_block v3 lr (mkBlock (bk_id b) (bk_mem b) s2 mt'))).
  { intros K. destruct (H3 K) as (K3 & A3). destruct (KR_put_block v3 lr (mkBlock (bk_id b) (bk_mem b) s2 mt')) with (1 := fun (_ : KInv v3) l3 (Hg3 : get_blist v3 lr = Some l3) =>
        eq_trans (eq_trans (meta_alloc_kind _ _ _ _ _ _ _ _ Ema) (get_block_kind v lr bid b l K Hgb Hg)) (f_equal (fun x => x =? 0) (eq_sym (akeep_algo v v3 lr l l3 A3 Hg Hg3)))) (2 := K3) as (K4 & A4).
    split; [exact K4|eapply akeep_trans; eauto]. }
  destruct (fl flags F_MAPPED && negb (mapping_allowed flags)) eqn:Epa; cbn [fst]; [exact H4|].
  eapply KR_trans; [exact H4|]. eapply KR_trans; [|apply KR_set_m]. apply KR_set_alloc. cbn [a_allocated a_persist a_mapallowed]. intros _ Hm.
  rewrite Hm in Epa. cbn in Epa. apply negb_false_iff in Epa. exact Epa.
Qed.


Lemma alloc_from_block_K v lr bid size align flags sub slot : KR v (fst (alloc_from_block c v lr bid size align flags sub slot)).
Proof.
  unfold alloc_from_block. destruct (get_block v lr bid) as [b|] eqn:Hgb; [|apply KR_refl].
  destruct (negb _); [apply KR_refl|].
  destruct (meta_create_request (bk_meta b) size align (fl flags F_UPPER) sub (strategy_of flags)) as [mt' rq| | |] eqn:Er; try apply KR_refl.
  eapply KR_trans; [apply (KR_put_meta v lr bid b (bk_sm b) mt' Hgb (meta_request_kind _ _ _ _ _ _ _ _ Er))|apply commit_request_K].
Qed.

Lemma try_blocks_K ids : forall v lr size align flags sub slot, KR v (fst (try_blocks c v lr ids size align flags sub slot)).
Proof.
  induction ids as [|bid tl IH]; intros v lr size align flags sub slot; cbn [try_blocks]; [apply KR_refl|].
  pose proof (alloc_from_block_K v lr bid size align flags sub slot) as H.
  destruct (alloc_from_block c v lr bid size align flags sub slot) as (v1 & r). cbn [fst] in H.
  destruct r; cbn [fst]; try exact H; [eapply KR_trans; [exact H|apply sort_list_K]|eapply KR_trans; [exact H|apply IH]].
Qed.

Lemma retry_create_K fuel : forall v lr nbs shift size freeMemory canFallback last,
  KR v (fst (retry_create c fuel v lr nbs shift size freeMemory canFallback last)).
Proof.
  induction fuel as [|f IH]; intros v lr nbs shift size freeMemory canFallback last; cbn [retry_create]; [apply KR_refl|].
  destruct last as [x|code| |]; try apply KR_refl. destruct (3 <=? shift); [apply KR_refl|]. destruct (size <=? _); [|apply KR_refl].
  destruct (_ || _); [|apply IH].
  pose proof (create_block_K v lr (Z.quot nbs 2)) as H. destruct (create_block c v lr (Z.quot nbs 2)) as (v1 & r). cbn [fst] in H.
  eapply KR_trans; [exact H|apply IH].
Qed.

Lemma alloc_page_K v lr size align flags sub slot : KR v (fst (alloc_page c v lr size align flags sub slot)).
Proof.
  unfold alloc_page. destruct (get_blist v lr) as [l|] eqn:Hg; [|apply KR_refl].
  destruct (heap_budget c (v_m v) (type_heap c (bl_type l))) as ((m1 & usage) & budget).
  destruct (_ && _); [apply KR_set_m|]. destruct (bl_pref l <? size); [apply KR_set_m|].
  pose proof (try_blocks_K (search_order c l flags) (set_m v m1) lr size align flags sub slot) as H2.
  destruct (try_blocks c (set_m v m1) lr (search_order c l flags) size align flags sub slot) as (v2 & r). cbn [fst] in H2.
  assert (K2 : KR v v2) by (eapply KR_trans; [apply KR_set_m|exact H2]).
  destruct r; cbn [fst]; try exact K2.
  destruct (negb _); [exact K2|].
  destruct (if bl_explicit l then (bl_pref l, 0) else shrink_new_block 3 (bl_pref l) 0 (calc_max_block_size l) size) as (nbs & shift).
  set (fm := if budget - usage <? 0 then 0 else budget - usage) in *.
  match goal with |- context [if ?cnd then create_block c v2 lr nbs else (v2, ER VK_OODM)] =>
    assert (H3 : KR v2 (fst (if cnd then create_block c v2 lr nbs else (v2, ER VK_OODM)))) by (destruct cnd; [apply create_block_K|apply KR_refl]);
    destruct (if cnd then create_block c v2 lr nbs else (v2, ER VK_OODM)) as (v3 & first) end.
  cbn [fst] in H3.
  match goal with |- context [if bl_explicit l then (v3, first) else ?e] =>
    assert (H4 : KR v3 (fst (if bl_explicit l then (v3, first) else e))) by (destruct (bl_explicit l); [apply KR_refl|apply retry_create_K]);
    destruct (if bl_explicit l then (v3, first) else e) as (v4 & created) end.
  cbn [fst] in H4. assert (K4 : KR v v4) by (eapply KR_trans; [exact K2|]; eapply KR_trans; [exact H3|exact H4]).
  destruct created as [bid|code| |]; cbn [fst]; try exact K4.
  destruct (get_block v4 lr bid) as [nb|]; [|exact K4]. destruct (meta_size (bk_meta nb) <? size); [exact K4|].
  pose proof (alloc_from_block_K v4 lr bid size align flags sub slot) as H5.
  destruct (alloc_from_block c v4 lr bid size align flags sub slot) as (v5 & r2). cbn [fst] in H5.
  assert (K5 : KR v v5) by (eapply KR_trans; [exact K4|exact H5]).
  assert (Hgive : KR v5 (fst (match get_blist v5 lr, get_block v5 lr bid with
                    | Some l5, Some b5 =>
                      if meta_is_empty (bk_meta b5) && (bl_min l5 <? zlen (bl_blocks l5)) then
                        match destroy_block c (set_blist v5 lr (set_blocks l5 (remove_block (bl_blocks l5) bid))) (bl_type l5) b5 with
                        | (v', OK _) => (v', OK tt)
                        | (v', STUCK) => (v', STUCK)
                        | (v', _) => (v', PANIC)
                        end
                      else (v5, OK tt)
                    | _, _ => (v5, STUCK)
                    end))).
  { destruct (get_blist v5 lr) as [l5|] eqn:Hg5; [|apply KR_refl]. destruct (get_block v5 lr bid) as [b5|]; [|apply KR_refl].
    destruct (_ && _); [|apply KR_refl].
    pose proof (destroy_block_K (set_blist v5 lr (set_blocks l5 (remove_block (bl_blocks l5) bid))) (bl_type l5) b5) as Hd.
    destruct (destroy_block c _ (bl_type l5) b5) as (v' & dr). cbn [fst] in Hd.
    assert (KR v5 v') by (eapply KR_trans; [apply (KR_sub_blocks v5 lr l5 (remove_block (bl_blocks l5) bid) Hg5); intros x; apply in_remove_block|exact Hd]).
    destruct dr as [[]|code| |]; exact H. }
  destruct r2 as [| |code2| |]; cbn [fst]; try exact K5; [eapply KR_trans; [exact K5|apply sort_list_K]| |];
    (match goal with |- context [match ?e with (a, b) => _ end] => destruct e as (v6 & dr) end; cbn [fst] in Hgive;
     assert (K6 : KR v v6) by (eapply KR_trans; [exact K5|exact Hgive]); destruct dr as [[]|code3| |]; exact K6).
Qed.

Lemma bl_free_K v lr slot keep : KR v (fst (bl_free c v lr slot keep)).
Proof.
  unfold bl_free. set (a := get_alloc v slot). destruct (get_blist v lr) as [l|] eqn:Hg; [|apply KR_refl].
  destruct (get_block v lr (a_blk a)) as [b|] eqn:Hgb; [|apply KR_refl].
  destruct (heap_budget c (v_m v) (type_heap c (bl_type l))) as ((m1 & usage) & budget).
  destruct (if a_persist a then sm_unmap m1 (bk_mem b) (bk_sm b) else (m1, bk_sm b, OK tt)) as ((m2 & s2) & ur).
  assert (H2 : KR v (put_block (set_m v m2) lr (mkBlock (bk_id b) (bk_mem b) s2 (bk_meta b)))).
  { eapply KR_trans; [apply KR_set_m|]. apply (KR_put_sm (set_m v m2) lr (a_blk a) b s2). unfold get_block. rewrite get_blist_set_m. exact Hgb. }
  set (v2 := put_block (set_m v m2) lr (mkBlock (bk_id b) (bk_mem b) s2 (bk_meta b))) in *.
  destruct ur as [[]|code| |]; cbn [fst]; try exact H2.
  destruct (meta_free (bk_meta b) (a_handle a)) as [mt'|code| |] eqn:Ef; cbn [fst]; try exact H2.
  destruct (sm_sub (v_m v2) (bk_mem b) s2) as (m3 & s3).
  set (b' := mkBlock (bk_id b) (bk_mem b) s3 mt').
  match goal with |- context [let '(bs4, toDelete) := ?e in _] => destruct e as (bs4 & toDelete) eqn:Ebs end.
  (* every block of bs4 is b' or a block of l *)
  assert (Hbs4 : forall x, In x bs4 -> x = b' \/ In x (bl_blocks l)).
  { intros x Hx. assert (Hrb : forall y, In y (replace_block (bl_blocks l) b') -> y = b' \/ In y (bl_blocks l)) by (intros y; apply rb_cases).
    destruct (_ && _ && _) in Ebs.
    - injection Ebs as <- _. apply Hrb. eapply in_remove_block; eauto.
    - destruct (_ && _ && _) in Ebs; [|injection Ebs as <- _; auto].
      destruct (rev (replace_block (bl_blocks l) b')) as [|lastb rest] eqn:Erev; [injection Ebs as <- _; auto|].
      destruct (meta_is_empty (bk_meta lastb)); injection Ebs as <- _; [|auto].
      apply Hrb. apply in_rev. rewrite Erev. right. rewrite <- in_rev in Hx. exact Hx. }
  assert (H3 : KR v (set_blist (set_m v2 m3) lr (incrementally_sort (set_blocks l bs4)))).
  { intros K. destruct (H2 K) as (K2 & A2). destruct (A2 _ _ Hg) as (l2 & Hg2 & Ea2).
    assert (R : KR v2 (set_blist (set_m v2 m3) lr (incrementally_sort (set_blocks l bs4)))).
    { eapply KR_trans; [apply KR_set_m|]. apply (KR_set_blist (set_m v2 m3) lr l2); [rewrite get_blist_set_m; exact Hg2|rewrite sort_algo; cbn; congruence|].
      intros _ x Hx. apply sort_K in Hx. cbn in Hx. rewrite Ea2. destruct (Hbs4 x Hx) as [->|Hin]; [|apply (k_kind _ K _ _ _ Hg Hin)].
      unfold b'. cbn [bk_meta]. rewrite (meta_free_kind _ _ _ Ef). exact (get_block_kind v lr _ b l K Hgb Hg). }
    destruct (R K2) as (K3 & A3). split; [exact K3|eapply akeep_trans; eauto]. }
  set (v3 := set_blist (set_m v2 m3) lr (incrementally_sort (set_blocks l bs4))) in *.
  assert (H4 : KR v3 (fst (match toDelete with
                           | None => (v3, OK tt)
                           | Some db => match destroy_block c v3 (bl_type l) db with (v', OK _) => (v', OK tt) | (v', STUCK) => (v', STUCK) | (v', _) => (v', PANIC) end
                           end))).
  { destruct toDelete as [db|]; [|apply KR_refl]. pose proof (destroy_block_K v3 (bl_type l) db) as Hd.
    destruct (destroy_block c v3 (bl_type l) db) as (v' & dr). cbn [fst] in Hd. destruct dr as [[]|code| |]; exact Hd. }
  match goal with |- context [let '(v4, dr) := ?e in _] => destruct e as (v4 & dr) end. cbn [fst] in H4.
  assert (K4 : KR v v4) by (eapply KR_trans; [exact H3|exact H4]).
  destruct dr as [[]|code| |]; cbn [fst]; try exact K4.
  destruct (remove_allocation c (v_m v4) (type_heap c (bl_type l)) (a_size a)) as (m5 & rr). cbn [fst]. eapply KR_trans; [exact K4|apply KR_set_m].
Qed.

Lemma release_loop_K ids : forall v lr firstId, KR v (fst (release_loop c v lr ids firstId)).
Proof.
  induction ids as [|bid tl IH]; intros v lr firstId; cbn [release_loop]; [apply KR_refl|].
  destruct (get_blist v lr) as [l|] eqn:Hg; [|apply KR_refl]. destruct (negb _); [apply KR_refl|].
  destruct (find_block (bl_blocks l) bid) as [b|]; [|apply KR_refl]. destruct (_ || _); [apply IH|].
  pose proof (destroy_block_K (set_blist v lr (set_blocks l (remove_block (bl_blocks l) bid))) (bl_type l) b) as Hd.
  destruct (destroy_block c _ (bl_type l) b) as (v2 & dr). cbn [fst] in Hd.
  assert (K2 : KR v v2) by (eapply KR_trans; [apply (KR_sub_blocks v lr l (remove_block (bl_blocks l) bid) Hg); intros x; apply in_remove_block|exact Hd]).
  destruct dr as [[]|code| |]; cbn [fst]; try exact K2. eapply KR_trans; [exact K2|apply IH].
Qed.

Lemma release_empty_since_K v lr firstId : KR v (fst (release_empty_since c v lr firstId)).
Proof. unfold release_empty_since. destruct (get_blist v lr); [apply release_loop_K|apply KR_refl]. Qed.

Lemma allocate_loop_K slots : forall v lr done size align flags sub, KR v (fst (fst (allocate_loop c v lr slots done size align flags sub))).
Proof.
  induction slots as [|s tl IH]; intros v lr done size align flags sub; cbn [allocate_loop]; [apply KR_refl|].
  pose proof (alloc_page_K v lr size align flags sub s) as H. destruct (alloc_page c v lr size align flags sub s) as (v1 & r). cbn [fst] in H.
  destruct r as [[]|code| |]; cbn [fst]; try exact H. eapply KR_trans; [exact H|apply IH].
Qed.

Lemma KR_unallocate v s : KR v (set_alloc v s (set_allocated (get_alloc v s) false)).
Proof. apply KR_set_alloc. cbn. discriminate. Qed.

Lemma unwind_loop_K done : forall v lr, KR v (fst (unwind_loop c v lr done)).
Proof.
  induction done as [|s tl IH]; intros v lr; cbn [unwind_loop]; [apply KR_refl|].
  pose proof (bl_free_K v lr s true) as H. destruct (bl_free c v lr s true) as (v1 & r). cbn [fst] in H.
  destruct r as [[]|code| |]; cbn [fst]; try exact H. eapply KR_trans; [exact H|]. eapply KR_trans; [apply KR_unallocate|apply IH].
Qed.

Lemma bl_allocate_K v lr slots size align0 flags sub : KR v (fst (bl_allocate c v lr slots size align0 flags sub)).
Proof.
  unfold bl_allocate. destruct (get_blist v lr) as [l|]; [|apply KR_refl].
  match goal with |- context [allocate_loop c v lr slots [] size ?al flags sub] =>
    pose proof (allocate_loop_K slots v lr [] size al flags sub) as H1; destruct (allocate_loop c v lr slots [] size al flags sub) as ((v1 & r) & done) end.
  cbn [fst] in H1. destruct r as [[]|code| |]; cbn [fst]; try exact H1.
  pose proof (unwind_loop_K done v1 lr) as H2. destruct (unwind_loop c v1 lr done) as (v2 & ur). cbn [fst] in H2.
  assert (K2 : KR v v2) by (eapply KR_trans; eauto). destruct ur as [[]|ucode| |]; cbn [fst]; try exact K2.
  pose proof (release_empty_since_K v2 lr (bl_next l)) as H3. destruct (release_empty_since c v2 lr (bl_next l)) as (v3 & rr). cbn [fst] in H3.
  assert (K3 : KR v v3) by (eapply KR_trans; eauto). destruct rr as [[]|rcode| |]; exact K3.
Qed.

Lemma bl_destroy_K v lr : KR v (fst (bl_destroy c v lr)).
Proof.
  unfold bl_destroy. destruct (get_blist v lr) as [l|]; [|apply KR_refl]. destruct (existsb _ _); [apply KR_refl|].
  pose proof (destroy_blocks_K (bl_blocks l) v (bl_type l)) as H. destruct (destroy_blocks c v (bl_type l) (bl_blocks l)) as (v1 & r). cbn [fst] in H.
  destruct r as [[]|code| |]; cbn [fst]; try exact H. destruct (get_blist v1 lr) as [l1|] eqn:Hg1; [|exact H].
  eapply KR_trans; [exact H|]. apply (KR_sub_blocks v1 lr l1 [] Hg1). intros x [].
Qed.

Lemma create_min_blocks_K n : forall v lr size, KR v (fst (create_min_blocks c n v lr size)).
Proof.
  induction n as [|k IH]; intros v lr size; cbn [create_min_blocks]; [apply KR_refl|].
  pose proof (create_block_K v lr size) as H. destruct (create_block c v lr size) as (v1 & r). cbn [fst] in H.
  destruct r as [bid|code| |]; cbn [fst]; try exact H. eapply KR_trans; [exact H|apply IH].
Qed.

End WithCfg.

(* ---------------------------------------------------------------- allocator.go, dedicated_list.go, pool.go, allocation.go *)

Section Alloc.
Variable c : vcfg.

Lemma ded_page_K v lr ty size sub doMap allowed slot ded : KR v (fst (allocate_dedicated_page c v lr ty size sub doMap allowed slot ded)).
Proof.
  unfold allocate_dedicated_page. destruct (alloc_vk c (v_m v) ty size ded) as (m1 & r). destruct r as [mem|code| |]; cbn [fst]; try apply KR_set_m.
  destruct (if doMap then sm_map c m1 mem SyncMem.sm_init else (m1, SyncMem.sm_init, OK tt)) as ((m2 & s) & mr).
  destruct mr as [[]|code| |]; cbn [fst]; try apply KR_set_m.
  - destruct (SyncMem.mapped s && negb allowed) eqn:Epa; cbn [fst]; [apply KR_set_m|].
    eapply KR_trans; [apply KR_set_m|]. eapply KR_trans; [|apply KR_set_m]. apply KR_set_alloc. cbn [a_allocated a_persist a_mapallowed].
    intros _ Hm. rewrite Hm in Epa. cbn in Epa. apply negb_false_iff in Epa. exact Epa.
  - destruct (free_vk c m2 ty size mem) as (m3 & fr). apply KR_set_m.
Qed.

Lemma dedicated_loop_K slots : forall v lr ty size sub doMap allowed done ded,
  KR v (fst (fst (dedicated_loop c v lr ty size sub doMap allowed slots done ded))).
Proof.
  induction slots as [|s tl IH]; intros v lr ty size sub doMap allowed done ded; cbn [dedicated_loop]; [apply KR_refl|].
  pose proof (ded_page_K v lr ty size sub doMap allowed s ded) as H.
  destruct (allocate_dedicated_page c v lr ty size sub doMap allowed s ded) as (v1 & r). cbn [fst] in H.
  destruct r as [[]|code| |]; cbn [fst]; try exact H. eapply KR_trans; [exact H|apply IH].
Qed.

Lemma dedicated_rollback_K done : forall v ty, KR v (fst (dedicated_rollback c v ty done)).
Proof.
  induction done as [|s tl IH]; intros v ty; cbn [dedicated_rollback]; [apply KR_refl|].
  destruct (free_vk c (v_m v) ty (a_size (get_alloc v s)) (a_mem (get_alloc v s))) as (m1 & fr).
  destruct fr as [[]|code| |]; cbn [fst]; try apply KR_set_m.
  destruct (remove_allocation c m1 (type_heap c ty) (a_size (get_alloc v s))) as (m2 & rr).
  destruct rr as [[]|code| |]; cbn [fst]; try apply KR_set_m.
  eapply KR_trans; [apply (KR_set_m v m2)|]. eapply KR_trans; [apply (KR_set_alloc (set_m v m2) s (set_allocated (get_alloc v s) false)); intros E; cbn in E; discriminate E|apply IH].
Qed.

Lemma allocate_dedicated_K v lr ty size sub doMap allowed slots ded : KR v (fst (allocate_dedicated c v lr ty size sub doMap allowed slots ded)).
Proof.
  unfold allocate_dedicated. destruct slots as [|s0 tl0] eqn:Es; [apply KR_refl|]. rewrite <- Es.
  pose proof (dedicated_loop_K slots v lr ty size sub doMap allowed [] ded) as H.
  destruct (dedicated_loop c v lr ty size sub doMap allowed slots [] ded) as ((v1 & r) & done). cbn [fst] in H.
  destruct r as [[]|code| |]; cbn [fst]; try exact H.
  - eapply KR_trans; [exact H|apply KR_set_dedlist].
  - pose proof (dedicated_rollback_K done v1 ty) as H2. destruct (dedicated_rollback c v1 ty done) as (v2 & rr). cbn [fst] in *.
    eapply KR_trans; eauto.
Qed.

Lemma calc_type_params_K v ty size count flags : KR v (fst (calc_type_params c v ty size count flags)).
Proof.
  unfold calc_type_params. destruct (_ && _); [|apply KR_refl]. destruct (heap_budget c (v_m v) (type_heap c ty)) as ((m1 & u) & b).
  destruct (_ <? _); apply KR_set_m.
Qed.

Lemma alloc_of_type_K v lr ty size align dedPref flags sub slots ded : KR v (fst (alloc_of_type c v lr ty size align dedPref flags sub slots ded)).
Proof.
  unfold alloc_of_type. destruct slots as [|s0 tl0] eqn:Es; [apply KR_refl|]. rewrite <- Es.
  destruct (get_blist v lr) as [l|]; [|apply KR_refl].
  pose proof (calc_type_params_K v ty size (zlen slots) flags) as H1.
  destruct (calc_type_params c v ty size (zlen slots) flags) as (v1 & fr). cbn [fst] in H1.
  destruct fr as [f1|code| |]; cbn [fst]; try exact H1.
  destruct (fl f1 F_DEDICATED); [eapply KR_trans; [exact H1|apply allocate_dedicated_K]|].
  match goal with |- context [let '(v2, early) := ?e in _] => assert (H2 : KR v1 (fst e)); [|destruct e as (v2 & early)] end.
  { match goal with |- context [if ?cnd then _ else (v1, None)] => destruct cnd end; [|apply KR_refl].
    match goal with |- context [allocate_dedicated c v1 lr ty size sub ?dm ?al slots ded] =>
      pose proof (allocate_dedicated_K v1 lr ty size sub dm al slots ded) as H;
      destruct (allocate_dedicated c v1 lr ty size sub dm al slots ded) as (v' & r) end. cbn [fst] in H.
    destruct r as [[]|code| |]; exact H. }
  cbn [fst] in H2.
  assert (K2 : KR v v2) by (eapply KR_trans; eauto).
  destruct early as [r|]; cbn [fst]; [exact K2|].
  pose proof (bl_allocate_K c v2 lr slots size align f1 sub) as H3. destruct (bl_allocate c v2 lr slots size align f1 sub) as (v3 & br). cbn [fst] in H3.
  assert (K3 : KR v v3) by (eapply KR_trans; eauto).
  destruct br as [[]|bcode| |]; cbn [fst]; try exact K3.
  match goal with |- context [if ?cnd then _ else (v3, ER bcode)] => destruct cnd end; [|exact K3].
  destruct (heap_budget c (v_m v3) (type_heap c ty)) as ((m4 & u) & b).
  destruct (_ <? _); cbn [fst]; [eapply KR_trans; [exact K3|apply KR_set_m]|].
  eapply KR_trans; [exact K3|]. eapply KR_trans; [apply KR_set_m|apply allocate_dedicated_K].
Qed.

Lemma type_loop_K fuel : forall v bits ty size align dedPref usage flags req pref ctb sub slots ded bufimg,
  KR v (fst (type_loop c fuel v bits ty size align dedPref usage flags req pref ctb sub slots ded bufimg)).
Proof.
  induction fuel as [|f IH]; intros; cbn [type_loop]; [apply KR_refl|].
  destruct (get_blist v (LDef ty)); [|apply KR_refl].
  pose proof (alloc_of_type_K v (LDef ty) ty size align dedPref flags sub slots ded) as H.
  destruct (alloc_of_type c v (LDef ty) ty size align dedPref flags sub slots ded) as (v1 & r). cbn [fst] in H.
  destruct r as [[]|code| |]; cbn [fst]; try exact H. destruct (code =? VK_UNKNOWN); [exact H|].
  destruct (find_type_index c (v_global v1) _ usage flags req pref ctb bufimg) as [ty'|]; [|exact H].
  eapply KR_trans; [exact H|apply IH].
Qed.

Lemma multi_allocate_K v size align typeBits reqDed prefDed ded bufimg usage flags0 req pref ctb pool sub slots :
  KR v (fst (multi_allocate c v size align typeBits reqDed prefDed ded bufimg usage flags0 req pref ctb pool sub slots)).
Proof.
  unfold multi_allocate. destruct (negb _); [apply KR_refl|]. destruct (size <? 1); [apply KR_refl|].
  destruct (calc_params usage flags0 reqDed _) as [flags|code| |]; try apply KR_refl.
  destruct pool as [uid|].
  - destruct (get_blist v (LPool uid)); [apply alloc_of_type_K|apply KR_refl].
  - destruct (find_type_index c (v_global v) typeBits usage flags req pref ctb bufimg); [apply type_loop_K|apply KR_refl].
Qed.

Lemma allocate_memory_K v slot size align typeBits usage flags req pref ctb pool :
  KR v (fst (allocate_memory c v slot size align typeBits usage flags req pref ctb pool)).
Proof. unfold allocate_memory. destruct (a_allocated _); [apply KR_refl|apply multi_allocate_K]. Qed.

Lemma allocate_memory_slice_K v slot n size align typeBits usage flags req pref ctb pool :
  KR v (fst (allocate_memory_slice c v slot n size align typeBits usage flags req pref ctb pool)).
Proof.
  unfold allocate_memory_slice. cbn zeta. destruct (slot_range slot (Z.to_nat n)) as [|s0 tl] eqn:Es; [apply KR_refl|]. rewrite <- Es.
  destruct (existsb _ _); [apply KR_refl|apply multi_allocate_K].
Qed.

Lemma free_dedicated_K v slot : KR v (fst (free_dedicated c v slot)).
Proof.
  unfold free_dedicated. destruct (negb _); [apply KR_refl|].
  set (v1 := set_dedlist v _ _).
  destruct (free_vk c (v_m v1) _ _ _) as (m1 & fr). destruct fr as [[]|code| |]; cbn [fst]; try (eapply KR_trans; [apply KR_set_dedlist|apply KR_set_m]).
  destruct (remove_allocation c m1 _ _) as (m2 & rr). cbn [fst]. eapply KR_trans; [apply KR_set_dedlist|apply KR_set_m].
Qed.

Lemma free_single_K v slot : KR v (fst (free_single c v slot)).
Proof. unfold free_single. destruct (_ =? 1); [apply bl_free_K|]. destruct (_ =? 2); [apply free_dedicated_K|apply KR_refl]. Qed.

Lemma multi_free_K slots : forall v, KR v (fst (multi_free c v slots)).
Proof.
  induction slots as [|s tl IH]; intros v; cbn [multi_free]; [apply KR_refl|].
  pose proof (free_single_K v s) as H. destruct (free_single c v s) as (v1 & r). cbn [fst] in H.
  destruct r as [[]|code| |]; cbn [fst]; try exact H. eapply KR_trans; [exact H|]. eapply KR_trans; [apply KR_unallocate|apply IH].
Qed.

End Alloc.

(* ---------------------------------------------------------------- the remaining API functions *)

(* every list of v except ex is still there with the same algorithm *)
Definition akeepx (ex : lref) (v v' : vam) : Prop :=
  forall lr l, lr <> ex -> get_blist v lr = Some l -> exists l', get_blist v' lr = Some l' /\ bl_algo l' = bl_algo l.

Lemma akeep_x ex v v' : akeep v v' -> akeepx ex v v'.
Proof. intros A lr l _ Hg. apply A. exact Hg. Qed.

Lemma akeepx_trans_l ex a b d : akeep a b -> akeepx ex b d -> akeepx ex a d.
Proof. intros H1 H2 lr l Hne H. destruct (H1 _ _ H) as (l1 & G1 & E1). destruct (H2 _ _ Hne G1) as (l2 & G2 & E2). exists l2. split; [auto|congruence]. Qed.

Lemma akeepx_trans_r ex a b d : akeepx ex a b -> akeep b d -> akeepx ex a d.
Proof. intros H1 H2 lr l Hne H. destruct (H1 _ _ Hne H) as (l1 & G1 & E1). destruct (H2 _ _ G1) as (l2 & G2 & E2). exists l2. split; [auto|congruence]. Qed.

(* the lists and Allocation objects of v' are lists and objects of v *)
Lemma KInv_sub v v' :
  KInv v -> (forall lr l', get_blist v' lr = Some l' -> get_blist v lr = Some l') -> (forall s a, slot_is v' s a -> slot_is v s a) -> KInv v'.
Proof. intros [A B C D] Hl Hs. constructor; eauto. intros s a Sa. apply (D s a). auto. Qed.

Lemma get_blist_remove_pool v uid lr :
  lr <> LPool uid -> get_blist (set_pools v (remove_pool (v_pools v) uid)) lr = get_blist v lr.
Proof.
  intros Hne. destruct lr as [t|u]; cbn; [reflexivity|]. rewrite find_remove_pool. destruct (u =? uid) eqn:E; [apply Z.eqb_eq in E; congruence|reflexivity].
Qed.

Lemma KInv_remove_pool v uid :
  NoDup (map p_uid (v_pools v)) -> KInv v ->
  KInv (set_pools v (remove_pool (v_pools v) uid)) /\ akeepx (LPool uid) v (set_pools v (remove_pool (v_pools v) uid)).
Proof.
  intros Hnd K. split.
  - apply (KInv_sub v); [exact K| |intros s a Sa; exact Sa].
    intros lr l' Hg. destruct (lref_eq_dec lr (LPool uid)) as [->|Hne]; [|rewrite get_blist_remove_pool in Hg by exact Hne; exact Hg].
    cbn in Hg. rewrite (find_remove_pool_same _ _ Hnd) in Hg. discriminate.
  - intros lr l Hne Hg. exists l. rewrite get_blist_remove_pool by exact Hne. auto.
Qed.

Section Api.
Variable c : vcfg.

Lemma bl_destroy_uids v lr : map p_uid (v_pools (fst (bl_destroy c v lr))) = map p_uid (v_pools v).
Proof.
  unfold bl_destroy. destruct (get_blist v lr) as [l|]; [|reflexivity]. destruct (existsb _ _); [reflexivity|].
  destruct (destroy_blocks_machine c (bl_blocks l) v (bl_type l)) as (m' & E).
  destruct (destroy_blocks c v (bl_type l) (bl_blocks l)) as (v1 & r). cbn [fst] in E. subst v1.
  destruct r as [[]|code| |]; cbn [fst]; try reflexivity. destruct (get_blist (set_m v m') lr); cbn [fst]; [rewrite set_blist_uids|]; reflexivity.
Qed.

Lemma pool_destroy_K v uid :
  NoDup (map p_uid (v_pools v)) -> KInv v ->
  KInv (fst (pool_destroy c v uid)) /\ akeepx (LPool uid) v (fst (pool_destroy c v uid)).
Proof.
  intros Hnd K. unfold pool_destroy. destruct (find_pool (v_pools v) uid) as [p|]; [|split; [exact K|apply akeep_x; apply akeep_refl]].
  destruct (p_ded p); [|split; [exact K|apply akeep_x; apply akeep_refl]].
  pose proof (bl_destroy_K c v (LPool uid) K) as (K1 & A1). pose proof (bl_destroy_uids v (LPool uid)) as U1.
  destruct (bl_destroy c v (LPool uid)) as (v1 & r). cbn [fst] in *.
  destruct r as [[]|code| |]; cbn [fst]; try (split; [exact K1|apply akeep_x; exact A1]).
  destruct (KInv_remove_pool v1 uid ltac:(rewrite U1; exact Hnd) K1) as (K2 & A2). split; [exact K2|eapply akeepx_trans_l; eauto].
Qed.

Lemma testbit_2_other n : 0 <= n -> n <> 1 -> Z.testbit 2 n = false.
Proof. intros H0 Hne. destruct n as [|p|p]; [reflexivity| |lia]. destruct p as [q|q|]; [reflexivity|destruct q; reflexivity|lia]. Qed.

Lemma land2_cases flags : Z.land flags 2 = 0 \/ Z.land flags 2 = 2.
Proof.
  destruct (Z.testbit flags 1) eqn:E; [right|left]; apply Z.bits_inj'; intros n Hn; rewrite Z.land_spec.
  - destruct (Z.eq_dec n 1) as [->|Hne]; [rewrite E; reflexivity|]. rewrite (testbit_2_other n Hn Hne). apply andb_false_r.
  - rewrite Z.bits_0. destruct (Z.eq_dec n 1) as [->|Hne]; [rewrite E; reflexivity|]. rewrite (testbit_2_other n Hn Hne). apply andb_false_r.
Qed.

Lemma create_pool_K v ty flags blockSize minB maxB0 minAlign :
  NoDup (map p_uid (v_pools v)) -> ~ In (v_next_uid v) (map p_uid (v_pools v)) -> KR v (fst (create_pool c v ty flags blockSize minB maxB0 minAlign)).
Proof.
  intros Hnd Hfresh K. unfold create_pool.
  assert (Hrefl : KInv v /\ akeep v v) by (split; [exact K|apply akeep_refl]).
  destruct (_ <? minB); [exact Hrefl|]. destruct (_ || _); [exact Hrefl|]. destruct (negb _); [exact Hrefl|]. destruct (_ && _); [exact Hrefl|].
  set (uid := v_next_uid v) in *.
  match goal with |- context [create_min_blocks c (Z.to_nat minB) ?w (LPool uid) ?bs] => set (v0 := w); set (bsz := bs) end.
  assert (Hnone : find_pool (v_pools v) uid = None).
  { destruct (find_pool (v_pools v) uid) as [p|] eqn:E; [|reflexivity]. exfalso. destruct (find_pool_in _ _ _ E) as (Hp & Hu). apply Hfresh. rewrite <- Hu. apply in_map. exact Hp. }
  assert (G0 : forall lr, lr <> LPool uid -> get_blist v0 lr = get_blist v lr).
  { intros lr Hne. destruct lr as [t|u]; [reflexivity|]. cbn. destruct (uid =? u) eqn:E; [apply Z.eqb_eq in E; congruence|reflexivity]. }
  assert (K0 : KInv v0 /\ akeep v v0).
  { destruct K as [A B C0 D]. split.
    - constructor.
      + intros lr l b Hg Hb. destruct (lref_eq_dec lr (LPool uid)) as [->|Hne]; [|rewrite G0 in Hg by exact Hne; eauto].
        cbn in Hg. rewrite Z.eqb_refl in Hg. injection Hg as <-. destruct Hb.
      + intros lr l Hg. destruct (lref_eq_dec lr (LPool uid)) as [->|Hne]; [|rewrite G0 in Hg by exact Hne; eauto].
        cbn in Hg. rewrite Z.eqb_refl in Hg. injection Hg as <-. cbn. apply land2_cases.
      + intros t l Hg. apply (C0 t l). exact Hg.
      + intros s a Sa. apply (D s a). exact Sa.
    - intros lr l Hg. exists l. split; [|reflexivity]. rewrite G0; [exact Hg|]. intros ->. cbn in Hg. rewrite Hnone in Hg. discriminate. }
  destruct K0 as (K0 & A0).
  pose proof (create_min_blocks_K c (Z.to_nat minB) v0 (LPool uid) bsz K0) as (K1 & A1).
  pose proof (VamShapeStep.create_min_blocks_uids c (Z.to_nat minB) v0 (LPool uid) bsz) as U1.
  destruct (create_min_blocks c (Z.to_nat minB) v0 (LPool uid) bsz) as (v1 & r). cbn [fst] in *.
  assert (A01 : akeep v v1) by (eapply akeep_trans; eauto).
  destruct r as [[]|code| |]; cbn [fst]; try (split; [exact K1|exact A01]).
  assert (Hnd1 : NoDup (map p_uid (v_pools v1))).
  { rewrite U1. cbn. constructor; [exact Hfresh|exact Hnd]. }
  destruct (pool_destroy_K v1 uid Hnd1 K1) as (K2 & A2). pose proof (bl_destroy_uids v1 (LPool uid)) as U2.
  assert (Hnd2 : NoDup (map p_uid (v_pools (fst (pool_destroy c v1 uid))))).
  { unfold pool_destroy. destruct (find_pool (v_pools v1) uid); [|exact Hnd1]. destruct (p_ded p); [|exact Hnd1].
    destruct (bl_destroy c v1 (LPool uid)) as (w & rw). cbn [fst] in *. destruct rw as [[]|cw| |]; cbn [fst]; try (rewrite U2; exact Hnd1).
    cbn. apply VamShapeStep.remove_pool_uids_nodup. rewrite U2. exact Hnd1. }
  destruct (pool_destroy c v1 uid) as (v2 & dr). cbn [fst] in *.
  (* unlink_pool: the pool is removed (again), nextPoolId restored *)
  assert (KU : KInv (unlink_pool v2 uid (v_next_pool_id v)) /\ akeepx (LPool uid) v2 (unlink_pool v2 uid (v_next_pool_id v))).
  { destruct (KInv_remove_pool v2 uid Hnd2 K2) as (K3 & A3). split.
    - apply (KInv_sub (set_pools v2 (remove_pool (v_pools v2) uid))); [exact K3|intros lr l' Hg; destruct lr; exact Hg|intros s a Sa; exact Sa].
    - intros lr l Hne Hg. destruct (A3 lr l Hne Hg) as (l' & Hg' & E). exists l'. split; [destruct lr; exact Hg'|exact E]. }
  destruct KU as (K3 & A3). split; [exact K3|].
  intros lr l Hg. assert (Hne : lr <> LPool uid) by (intros ->; cbn in Hg; rewrite Hnone in Hg; discriminate).
  destruct (A01 lr l Hg) as (l1 & G1 & E1). destruct (A2 lr l1 Hne G1) as (l2 & G2 & E2). destruct (A3 lr l2 Hne G2) as (l3 & G3 & E3).
  exists l3. split; [exact G3|congruence].
Qed.

End Api.

Lemma KR_set_alloc_K v s a' :
  (KInv v -> a_allocated a' = true -> a_persist a' = true -> a_mapallowed a' = true) -> KR v (set_alloc v s a').
Proof. intros H K. apply (KR_set_alloc v s a' (H K) K). Qed.

Section Api2.
Variable c : vcfg.

Lemma allocation_free_K v slot : KR v (fst (allocation_free c v slot)).
Proof. unfold allocation_free. destruct (negb _); [apply KR_refl|apply multi_free_K]. Qed.

Lemma free_slice_K v slot n : KR v (fst (free_allocation_slice c v slot n)).
Proof. apply multi_free_K. Qed.

(* the SynchronizedMemory inside a dedicated Allocation object is updated *)
Lemma KR_set_sm v m slot s1 : KR v (set_alloc (set_m v m) slot (set_a_sm (get_alloc v slot) s1)).
Proof.
  eapply KR_trans; [apply KR_set_m|]. apply KR_set_alloc_K. intros K Ha Hp. cbn in *.
  apply (k_pa _ K slot (get_alloc v slot)); [|exact Hp]. change (slot_is v slot (get_alloc v slot)). apply get_alloc_allocated. exact Ha.
Qed.

Lemma allocation_map_K v slot : KR v (fst (allocation_map c v slot)).
Proof.
  unfold allocation_map. destruct (negb _); [apply KR_refl|]. destruct (negb _); [apply KR_refl|]. destruct (_ =? 1).
  - destruct (get_block v _ _) as [b|] eqn:Hgb; [|apply KR_refl].
    destruct (sm_map c (v_m v) (bk_mem b) (bk_sm b)) as ((m1 & s1) & r).
    assert (H : KR v (put_block (set_m v m1) (a_lref (get_alloc v slot)) (mkBlock (bk_id b) (bk_mem b) s1 (bk_meta b)))).
    { eapply KR_trans; [apply KR_set_m|]. eapply KR_put_sm. unfold get_block. rewrite get_blist_set_m. exact Hgb. }
    destruct r as [[]|code| |]; cbn [fst]; try exact H. destruct (find_offset _ _); exact H.
  - destruct (_ =? 2); [|apply KR_refl]. destruct (sm_map c (v_m v) _ _) as ((m1 & s1) & r). apply KR_set_sm.
Qed.

Lemma allocation_unmap_K v slot : KR v (fst (allocation_unmap v slot)).
Proof.
  unfold allocation_unmap. destruct (negb _); [apply KR_refl|]. destruct (_ =? 1).
  - destruct (get_block v _ _) as [b|] eqn:Hgb; [|apply KR_refl].
    destruct (sm_unmap (v_m v) (bk_mem b) (bk_sm b)) as ((m1 & s1) & r). cbn [fst].
    eapply KR_trans; [apply KR_set_m|]. eapply KR_put_sm. unfold get_block. rewrite get_blist_set_m. exact Hgb.
  - destruct (_ =? 2); [|apply KR_refl]. destruct (sm_unmap (v_m v) _ _) as ((m1 & s1) & r). apply KR_set_sm.
Qed.

Lemma allocation_flush_K v inval slot off size : KR v (fst (allocation_flush c v inval slot off size)).
Proof.
  unfold allocation_flush. destruct (negb _); [apply KR_refl|]. destruct (flush_range c v _ off size) as [[(ro & rs)|]|code| |]; try apply KR_refl.
  destruct (dev_flush _ _ _ _ _) as (m1 & code). apply KR_set_m.
Qed.

Lemma harness_rw_K v slot : KR v (fst (harness_rw c v slot)).
Proof.
  unfold harness_rw. pose proof (allocation_map_K v slot) as H. destruct (allocation_map c v slot) as (v1 & r). cbn [fst] in H.
  destruct r as [[]|code| |]; cbn [fst]; try exact H.
  pose proof (allocation_unmap_K v1 slot) as H2. destruct (allocation_unmap v1 slot) as (v2 & ur). cbn [fst] in *. eapply KR_trans; eauto.
Qed.

Lemma bind_memory_K v slot image res off : KR v (fst (bind_memory v slot image res off)).
Proof.
  unfold bind_memory. destruct (res =? 0); [apply KR_refl|]. destruct (negb _); [apply KR_refl|]. destruct (off <? 0); [apply KR_refl|].
  match goal with |- context [match ?t with OK _ => _ | ER _ => _ | PANIC => _ | STUCK => _ end] => destruct t as [o|code| |] end; try apply KR_refl.
  destruct (dev_bind _ _ _ _ _) as (m1 & code). apply KR_set_m.
Qed.

Lemma create_resource_K v slot image kind sub devreq resusage minAlign usage flags req pref ctb pool :
  KR v (fst (create_resource c v slot image kind sub devreq resusage minAlign usage flags req pref ctb pool)).
Proof.
  unfold create_resource. destruct (dev_create_res (v_m v) image kind devreq) as ((m1 & code) & id).
  destruct (negb _); [apply KR_set_m|]. destruct (get_requirements c m1 image id) as (((m2 & rq) & rd) & pd).
  match goal with |- context [multi_allocate c (set_m v m2) ?a1 ?a2 ?a3 ?a4 ?a5 ?a6 ?a7 usage flags req pref ctb pool sub [slot]] =>
    pose proof (multi_allocate_K c (set_m v m2) a1 a2 a3 a4 a5 a6 a7 usage flags req pref ctb pool sub [slot]) as H;
    destruct (multi_allocate c (set_m v m2) a1 a2 a3 a4 a5 a6 a7 usage flags req pref ctb pool sub [slot]) as (v3 & r) end.
  cbn [fst] in H. assert (K3 : KR v v3) by (eapply KR_trans; [apply KR_set_m|exact H]).
  destruct r as [[]|acode| |]; cbn [fst]; try exact K3; [|eapply KR_trans; [exact K3|apply KR_set_m]].
  destruct (fl flags F_DONTBIND); [exact K3|].
  pose proof (bind_memory_K v3 slot image id 0) as H4. destruct (bind_memory v3 slot image id 0) as (v4 & br). cbn [fst] in H4.
  assert (K4 : KR v v4) by (eapply KR_trans; eauto).
  destruct br as [[]|bcode| |]; cbn [fst]; try exact K4.
  assert (H5 : KR v4 (fst (if a_allocated (get_alloc v4 slot) then multi_free c v4 [slot] else (v4, OK tt)))) by (destruct (a_allocated _); [apply multi_free_K|apply KR_refl]).
  destruct (if a_allocated (get_alloc v4 slot) then multi_free c v4 [slot] else (v4, OK tt)) as (v5 & fr). cbn [fst] in *.
  eapply KR_trans; [exact K4|]. eapply KR_trans; [exact H5|apply KR_set_m].
Qed.

Lemma create_buffer_K v slot size devreq bufUsage minAlign usage flags req pref ctb pool :
  KR v (fst (create_buffer c v slot size devreq bufUsage minAlign usage flags req pref ctb pool)).
Proof.
  unfold create_buffer. destruct (a_allocated _); [apply KR_refl|]. destruct (_ && _); [apply KR_refl|]. destruct (size =? 0); [apply KR_refl|].
  destruct (_ && _); [apply KR_refl|apply create_resource_K].
Qed.

Lemma create_image_K v slot tiling width devreq imgUsage usage flags req pref ctb pool :
  KR v (fst (create_image c v slot tiling width devreq imgUsage usage flags req pref ctb pool)).
Proof. unfold create_image. destruct (a_allocated _); [apply KR_refl|]. destruct (width =? 0); [apply KR_refl|apply create_resource_K]. Qed.

Lemma destroy_with_resource_K v slot image res : KR v (fst (destroy_with_resource c v slot image res)).
Proof. unfold destroy_with_resource. destruct (res =? 0); [apply allocation_free_K|]. eapply KR_trans; [apply KR_set_m|apply allocation_free_K]. Qed.

Lemma allocate_for_resource_K v slot image res usage flags req pref ctb pool :
  KR v (fst (allocate_for_resource c v slot image res usage flags req pref ctb pool)).
Proof.
  unfold allocate_for_resource. destruct (res =? 0); [apply KR_refl|]. destruct (a_allocated _); [apply KR_refl|].
  destruct (get_requirements c (v_m v) image res) as (((m1 & rq) & rd) & pd). eapply KR_trans; [apply KR_set_m|apply multi_allocate_K].
Qed.

Lemma destroy_lists_K n : forall v t, KR v (fst (destroy_lists c v n t)).
Proof.
  induction n as [|k IH]; intros v t; cbn [destroy_lists]; [apply KR_refl|]. destruct (get_blist v (LDef t)); [|apply IH].
  pose proof (bl_destroy_K c v (LDef t)) as H. destruct (bl_destroy c v (LDef t)) as (v1 & r). cbn [fst] in H.
  destruct r as [[]|code| |]; cbn [fst]; try exact H. eapply KR_trans; [exact H|apply IH].
Qed.

Lemma allocator_destroy_K v : KR v (fst (allocator_destroy c v)).
Proof.
  unfold allocator_destroy. destruct (existsb _ (v_ded v)); [apply KR_refl|]. destruct (v_pools v); [|apply KR_refl].
  destruct (existsb _ _); [apply KR_refl|apply destroy_lists_K].
Qed.

Lemma build_stats_string_K v : KR v (fst (build_stats_string c v)).
Proof. unfold build_stats_string. destruct (calculate_statistics c v); [apply KR_set_m|apply KR_refl]. Qed.

(* one API function; only Pool.Destroy takes a list away *)
Definition op_ex (o : op) : option lref := match o with ORmPool uid => Some (LPool uid) | _ => None end.

Definition akeepo (ex : option lref) (v v' : vam) : Prop := match ex with Some lr => akeepx lr v v' | None => akeep v v' end.

Lemma exec_K v o :
  NoDup (map p_uid (v_pools v)) -> ~ In (v_next_uid v) (map p_uid (v_pools v)) -> KInv v ->
  KInv (fst (exec c v o)) /\ akeepo (op_ex o) v (fst (exec c v o)).
Proof.
  intros Hnd Hfresh K. destruct o; cbn [exec op_ex akeepo].
  - apply allocate_memory_K; exact K.
  - apply allocate_memory_slice_K; exact K.
  - apply allocation_free_K; exact K.
  - apply free_slice_K; exact K.
  - apply allocation_map_K; exact K.
  - apply allocation_unmap_K; exact K.
  - apply allocation_flush_K; exact K.
  - apply harness_rw_K; exact K.
  - apply create_pool_K; auto.
  - apply pool_destroy_K; auto.
  - apply build_stats_string_K; exact K.
  - apply allocator_destroy_K; exact K.
  - apply create_buffer_K; exact K.
  - apply create_image_K; exact K.
  - apply destroy_with_resource_K; exact K.
  - apply allocate_for_resource_K; exact K.
  - apply bind_memory_K; exact K.
  - unfold raw_create. destruct (dev_create_res _ _ _ _) as ((m1 & code) & id). apply KR_set_m; exact K.
  - unfold raw_destroy. apply KR_set_m; exact K.
Qed.

End Api2.

(* ---------------------------------------------------------------- the defragmentation calls *)

Section Dfr.
Variable c : vcfg.

(* a list gets a permutation of its blocks (and another incrementalSort flag) *)
Lemma KR_perm v lr l bs flag : get_blist v lr = Some l -> Permutation (bl_blocks l) bs -> KR v (set_blist v lr (set_incsort (set_blocks l bs) flag)).
Proof.
  intros Hg P. apply (KR_set_blist v lr l _ Hg); [reflexivity|]. intros K b' Hb'. cbn in Hb'. apply (k_kind _ K _ _ _ Hg).
  eapply Permutation_in; [apply Permutation_sym; exact P|exact Hb'].
Qed.

Lemma prepare_list_K v lr : KR v (prepare_list v lr).
Proof. unfold prepare_list. destruct (get_blist v lr) as [l|] eqn:Hg; [|apply KR_refl]. apply (KR_perm v lr l _ false Hg). apply sort_by_free_size_perm. Qed.

Lemma prepare_lists_K lrs : forall v, KR v (fold_left prepare_list lrs v).
Proof. induction lrs as [|lr tl IH]; intros v; cbn [fold_left]; [apply KR_refl|]. eapply KR_trans; [apply prepare_list_K|apply IH]. Qed.

Lemma defrag_begin_K v flags pool mb ma : KR v (fst (defrag_begin c v flags pool mb ma)).
Proof.
  unfold defrag_begin. destruct (_ || _); [apply KR_refl|]. destruct (_ =? 3); [apply KR_refl|].
  destruct (match pool with Some uid => list_is_linear v (LPool uid) | None => false end); [apply KR_refl|].
  destruct (negb _); cbn [fst]; apply prepare_lists_K.
Qed.

Lemma commit_move_K w lr mv : KR w (fst (commit_move c w lr mv)).
Proof.
  unfold commit_move. destruct (get_blist w lr) as [l|] eqn:Hg; [|apply KR_refl].
  destruct (get_block w lr (Defrag.m_dstblk mv)) as [b|] eqn:Hgb; [|apply KR_refl]. destruct (negb _); [apply KR_refl|].
  destruct (sm_sub (v_m w) (bk_mem b) (bk_sm b)) as (m1 & s1).
  set (src := get_alloc w (Z.of_nat (Defrag.m_src mv))).
  destruct (if a_persist src then sm_map c m1 (bk_mem b) s1 else (m1, s1, OK tt)) as ((m2 & s2) & mr).
  assert (H2 : KR w (put_block (set_m w m2) lr (mkBlock (bk_id b) (bk_mem b) s2 (bk_meta b)))).
  { eapply KR_trans; [apply KR_set_m|]. eapply KR_put_sm. unfold get_block. rewrite get_blist_set_m. exact Hgb. }
  destruct mr as [[]|code| |]; cbn [fst]; try exact H2.
  destruct (a_persist src && negb (a_mapallowed src)) eqn:Epa; cbn [fst]; [exact H2|].
  eapply KR_trans; [exact H2|]. eapply KR_trans; [|apply KR_set_m]. apply KR_snoc. cbn [a_allocated a_persist a_mapallowed].
  intros _ Hp. rewrite Hp in Epa. cbn in Epa. apply negb_false_iff in Epa. exact Epa.
Qed.

Lemma commit_moves_K mvs : forall w lr, KR w (fst (commit_moves c w lr mvs)).
Proof.
  induction mvs as [|mv tl IH]; intros w lr; cbn [commit_moves]; [apply KR_refl|].
  pose proof (commit_move_K w lr mv) as H. destruct (commit_move c w lr mv) as (w1 & r). cbn [fst] in H.
  destruct r as [[]|code| |]; cbn [fst]; try exact H. eapply KR_trans; [exact H|apply IH].
Qed.

Lemma unproject_kind bs bl' b' : In b' (unproject_blocks bs bl') -> is_tlsf (bk_meta b') = true \/ In b' bs.
Proof.
  unfold unproject_blocks. intros H. apply in_map_iff in H. destruct H as (b & <- & Hb).
  destruct (Defrag.find_id (bk_id b) bl'); [left; reflexivity|right; exact Hb].
Qed.

Lemma commit_attempt_K w lr slot dst : KR w (fst (commit_attempt c w lr slot dst)).
Proof.
  unfold commit_attempt. destruct (get_block w lr dst) as [b|] eqn:Hgb; [|apply KR_refl].
  destruct (sm_sub (v_m w) (bk_mem b) (bk_sm b)) as (m1 & s1).
  destruct (if a_persist _ then sm_map c m1 (bk_mem b) s1 else (m1, s1, OK tt)) as ((m2 & s2) & mr). cbn [fst].
  eapply KR_trans; [apply KR_set_m|]. eapply KR_put_sm. unfold get_block. rewrite get_blist_set_m. exact Hgb.
Qed.

Lemma replay_K log : forall w lr, KR w (fst (replay_log c w lr log)).
Proof.
  induction log as [|[slot dst|mv] tl IH]; intros w lr; cbn [replay_log]; [apply KR_refl| |].
  - pose proof (commit_attempt_K w lr slot dst) as H. destruct (commit_attempt c w lr slot dst) as (w1 & r). cbn [fst] in H.
    destruct r as [[]|code| |]; cbn [fst]; try exact H. eapply KR_trans; [exact H|apply IH].
  - pose proof (commit_move_K w lr mv) as H. destruct (commit_move c w lr mv) as (w1 & r). cbn [fst] in H.
    destruct r as [[]|code| |]; cbn [fst]; try exact H. eapply KR_trans; [exact H|apply IH].
Qed.

Lemma collect_list_K v dc p : KR v (fst (collect_list c v dc p)).
Proof.
  unfold collect_list. destruct (project v (dc_lr dc)) as [st|] eqn:Ep; [|apply KR_refl].
  destruct (get_blist v (dc_lr dc)) as [l|] eqn:Hg; [|apply KR_refl].
  assert (Ht : forallb (fun b => is_tlsf (bk_meta b)) (bl_blocks l) = true).
  { unfold project in Ep. rewrite Hg in Ep. destruct (project_blocks (bl_blocks l)) as [bl|] eqn:E; [|discriminate]. eapply project_blocks_some_tlsf; eauto. }
  destruct (Defrag.collect_moves_f vam (att_commit c (dc_lr dc)) st (dc_ctx dc) p v) as (((cs & env) & log) & wr). destruct wr as [| |why]; [| |apply KR_refl].
  all: match goal with |- context [replay_log c ?w ?lr0 ?ms] =>
         assert (H1 : KR v w); [|pose proof (replay_K ms w lr0) as H2; destruct (replay_log c w lr0 ms) as (v2 & r); cbn [fst] in H2;
                                  assert (K2 : KR v v2) by (eapply KR_trans; eauto); destruct r as [[]|code| |]; exact K2] end.
  all: apply (KR_set_blist v (dc_lr dc) l _ Hg); [reflexivity|]; intros K b' Hb'; cbn in Hb';
       destruct (unproject_kind _ _ _ Hb') as [Hk|Hin]; [|apply (k_kind _ K _ _ _ Hg Hin)];
       rewrite Hk; symmetry; destruct (bl_blocks l) as [|b0 tl] eqn:Eb; [destruct Hb'|];
       rewrite <- (k_kind _ K _ _ b0 Hg ltac:(rewrite Eb; left; reflexivity)); cbn in Ht; apply andb_true_iff in Ht; apply Ht.
Qed.

Lemma pass_loop_K fuel : forall v run p, KR v (fst (fst (pass_loop c fuel v run p))).
Proof.
  induction fuel as [|f IH]; intros v run p; cbn [pass_loop]; [apply KR_refl|].
  destruct (nth_z (dr_ctxs run) (dr_progress run)) as [dc|]; [|apply KR_refl].
  pose proof (collect_list_K v dc p) as H. destruct (collect_list c v dc p) as (v1 & r). cbn [fst] in H.
  destruct r as [(dc' & p')|code| |]; cbn [fst]; try exact H. destruct (Defrag.c_moves (dc_ctx dc')); [|exact H]. eapply KR_trans; [exact H|apply IH].
Qed.

Lemma set_ud_K w lr bid h tag w' : set_block_user_data w lr bid h tag = Some w' -> KR w w'.
Proof.
  unfold set_block_user_data. destruct (get_block w lr bid) as [b|] eqn:Hgb; [|discriminate].
  destruct (meta_set_user_data (bk_meta b) h tag) as [mt'|] eqn:E; [|discriminate]. intros H; injection H as <-.
  apply (KR_put_meta w lr bid b (bk_sm b) mt' Hgb (meta_set_ud_kind _ _ _ _ E)).
Qed.

Lemma swap_K v s t : KR v (fst (swap_block_allocation v s t)).
Proof.
  unfold swap_block_allocation. destruct (_ || _); [apply KR_refl|].
  match goal with |- context [set_block_user_data v ?a1 ?a2 ?a3 t] => destruct (set_block_user_data v a1 a2 a3 t) as [v1|] eqn:E1 end; [|apply KR_refl].
  pose proof (set_ud_K _ _ _ _ _ _ E1) as H1.
  set (a := get_alloc v s) in *. set (b := get_alloc v t) in *.
  match goal with |- context [set_alloc (set_alloc v1 s ?a') t ?b'] =>
    assert (H2 : KR v (set_alloc (set_alloc v1 s a') t b')) end.
  { intros K. destruct (H1 K) as (K1 & A1).
    assert (Pa : a_allocated a = true -> a_persist a = true -> a_mapallowed a = true) by (intros Hal Hp; apply (k_pa _ K s a); [apply get_alloc_allocated; exact Hal|exact Hp]).
    assert (Pb : a_allocated b = true -> a_persist b = true -> a_mapallowed b = true) by (intros Hal Hp; apply (k_pa _ K t b); [apply get_alloc_allocated; exact Hal|exact Hp]).
    match goal with |- context [set_alloc (set_alloc v1 s ?a') t ?b'] =>
      destruct (KR_trans v1 _ _ (KR_set_alloc v1 s a' ltac:(cbn; auto)) (KR_set_alloc _ t b' ltac:(cbn; auto)) K1) as (K2 & A2) end.
    split; [exact K2|eapply akeep_trans; eauto]. }
  match goal with |- context [set_block_user_data ?w ?a1 ?a2 ?a3 s] => destruct (set_block_user_data w a1 a2 a3 s) as [v3|] eqn:E3 end; cbn [fst]; [|exact H2].
  eapply KR_trans; [exact H2|apply (set_ud_K _ _ _ _ _ _ E3)].
Qed.

Lemma free_or_panic_K v s : KR v (fst (free_or_panic c v s)).
Proof.
  unfold free_or_panic. destruct (negb _); [apply KR_refl|]. destruct (negb _); [apply KR_refl|].
  pose proof (bl_free_K c v (a_lref (get_alloc v s)) s false) as H. destruct (bl_free c v _ s false) as (v1 & r). cbn [fst] in H.
  destruct r as [[]|code| |]; cbn [fst]; try exact H. eapply KR_trans; [exact H|apply KR_unallocate].
Qed.


Lemma complete_move_K v mv d : KR v (fst (complete_move c v mv d)).
Proof.
  unfold complete_move.
  match goal with |- context [let '(v1, r1) := ?e in _] => assert (H1 : KR v (fst e)); [|destruct e as (v1 & r1)] end.
  { destruct (d =? 0); [apply swap_K|]. destruct (d =? 2); [apply free_or_panic_K|apply KR_refl]. }
  cbn [fst] in H1. destruct r1 as [[]|code| |]; cbn [fst]; try exact H1. eapply KR_trans; [exact H1|apply free_or_panic_K].
Qed.

Lemma complete_moves_K mvs : forall v lr p imm ds, KR v (fst (fst (fst (complete_moves c v lr p imm mvs ds)))).
Proof.
  induction mvs as [|mv rest IH]; intros v lr p imm ds; cbn [complete_moves]; [apply KR_refl|].
  destruct (list_alloc_stats v lr) as (pc & pb).
  pose proof (complete_move_K v mv (norm_decision (hd 0 ds))) as H. destruct (complete_move c v mv (norm_decision (hd 0 ds))) as (v1 & r). cbn [fst] in H.
  destruct r as [[]|code| |]; cbn [fst]; try exact H. destruct (list_alloc_stats v1 lr) as (ac & ab). eapply KR_trans; [exact H|apply IH].
Qed.

Lemma complete_pass_K v dc p ds : KR v (fst (fst (fst (complete_pass c v dc p ds)))).
Proof.
  unfold complete_pass.
  pose proof (complete_moves_K (Defrag.c_moves (dc_ctx dc)) v (dc_lr dc) p [] ds) as H.
  destruct (complete_moves c v (dc_lr dc) p [] (Defrag.c_moves (dc_ctx dc)) ds) as (((v1 & p1) & imm) & r). cbn [fst] in H.
  destruct r as [[]|code| |]; cbn [fst]; try exact H. destruct (get_blist v1 (dc_lr dc)) as [l|] eqn:Hg; cbn [fst]; [|exact H].
  pose proof (swap_immovable_fold imm (bl_blocks l) (Defrag.c_immovable (dc_ctx dc))) as Pm.
  destruct (fold_left _ imm (bl_blocks l, Defrag.c_immovable (dc_ctx dc))) as (bs & immc). cbn [fst] in *.
  eapply KR_trans; [exact H|]. apply (KR_set_blist v1 (dc_lr dc) l _ Hg); [reflexivity|]. intros K b' Hb'. cbn in Hb'.
  apply (k_kind _ K _ _ _ Hg). eapply Permutation_in; [exact Pm|exact Hb'].
Qed.

Lemma defrag_end_K v run ds : KR v (fst (fst (defrag_end c v run ds))).
Proof.
  unfold defrag_end. destruct (nth_z (dr_ctxs run) (dr_progress run)) as [dc|]; [|apply KR_refl].
  destruct (Defrag.c_moves (dc_ctx dc)); [apply KR_refl|].
  pose proof (complete_pass_K v dc (dr_pass run) ds) as H. destruct (complete_pass c v dc (dr_pass run) ds) as (((v1 & dc') & p') & r). cbn [fst] in H.
  destruct r as [[]|code| |]; exact H.
Qed.

Lemma defrag_finish_K v run : KR v (fst (defrag_finish v run)).
Proof.
  unfold defrag_finish. cbn [fst]. generalize (dr_ctxs run). intros ctxs. revert v. induction ctxs as [|dc tl IH]; intros v; cbn [fold_left]; [apply KR_refl|].
  eapply KR_trans; [|apply IH]. destruct (get_blist v (dc_lr dc)) as [l|] eqn:Hg; [|apply KR_refl].
  replace (set_incsort l true) with (set_incsort (set_blocks l (bl_blocks l)) true) by (destruct l; reflexivity).
  apply (KR_perm v (dc_lr dc) l _ true Hg). apply Permutation_refl.
Qed.

(* one defragmentation call *)
Lemma dexec_K v run o : KR v (fst (fst (fst (dexec c v run o)))).
Proof.
  destruct o as [flags pool mb ma| |ds|]; cbn [dexec].
  - pose proof (defrag_begin_K v flags pool mb ma) as H. destruct (defrag_begin c v flags pool mb ma) as (v1 & r). cbn [fst] in H. destruct r; exact H.
  - destruct run as [rn|]; [|apply KR_refl]. unfold defrag_pass.
    pose proof (pass_loop_K (S (length (dr_ctxs rn))) v rn (Pass.pass_init (dr_max_bytes rn) (dr_max_allocs rn))) as H.
    destruct (pass_loop c _ v rn _) as ((v1 & rn') & r). cbn [fst] in H. destruct r; exact H.
  - destruct run as [rn|]; [|apply KR_refl]. pose proof (defrag_end_K v rn ds) as H. destruct (defrag_end c v rn ds) as ((v1 & rn') & r). cbn [fst] in H. destruct r; exact H.
  - destruct run as [rn|]; [|apply KR_refl]. pose proof (defrag_finish_K v rn) as H. destruct (defrag_finish v rn) as (v1 & st). exact H.
Qed.

End Dfr.
