(* LinearProps.v — reachable-state forms of the linear-model theorems (LinearStep.v etc.), in the
   shape used by Props/C01, C03, C06, C13, C17, C18.  A history is admissible (ops_ok) when
   alignments are powers of two and every OFree names a live handle (stale handles are outside
   the domain of the properties; LinearStep.free_on_empty_block_panics and double_free_corrupts
   show what the code does with them). *)
From Coq Require Import ZArith List Bool Lia.
From Arsenal Require Import Util Bits Gran Linear LinearInv LinearAlloc LinearFree LinearStep LinearSwap LinearVisit.
Import ListNotations.
Open Scope Z_scope.

Definition lreach (h : handler) (gr size : Z) (l : linear) : Prop :=
  exists ops, ops_ok (linear_init h gr size) ops /\ l = lrun (linear_init h gr size) ops.

Definition lcfg_ok (gr size : Z) : Prop := 0 <= size /\ pow2 gr.

Lemma lreach_LInv h gr size l : lcfg_ok gr size -> lreach h gr size l -> LInv l /\ cfg l h gr size.
Proof.
  intros [Hs Hg] (ops & Hok & ->).
  apply (lrun_LInv _ ops h gr size (init_LInv h gr size Hs Hg) (cfg_init h gr size) Hok).
Qed.

(* C01 *)
Theorem linear_alloc_sound h gr size l :
  lcfg_ok gr size -> lreach h gr size l ->
  forall x, In x (live l) ->
    0 <= s_off x /\ s_off x + s_size x <= size /\ 0 < s_reqalign x /\ s_off x mod s_reqalign x = 0 /\
    s_reqsize x <= s_size x /\
    forall y, In y (live l) -> x <> y -> disjoint x y.
Proof.
  intros Hc Hr x Hx. destruct (lreach_LInv _ _ _ _ Hc Hr) as (HI & Hsz & _).
  destruct (live_sound l (proj1 HI)) as (Hb & _ & Hd).
  destruct (Hb x Hx) as (H1 & H2 & H3 & H4 & H5 & H6 & H7). rewrite <- Hsz. repeat split; auto.
Qed.

(* C06 / C17: exact effect of every admissible step; free of a live handle succeeds *)
Theorem linear_step_exact h gr size l o :
  lcfg_ok gr size -> lreach h gr size l -> op_ok l o ->
  live_effect l o (fst (step l o)) (snd (step l o)).
Proof. intros Hc Hr Ho. destruct (lreach_LInv _ _ _ _ Hc Hr) as (HI & _). apply live_effect_step; auto. Qed.

Theorem linear_free_live_succeeds h gr size l x :
  lcfg_ok gr size -> lreach h gr size l -> In x (live l) ->
  o_kind (snd (step l (OFree (s_off x + 1)))) = ROk.
Proof. intros Hc Hr Hx. destruct (lreach_LInv _ _ _ _ Hc Hr) as (HI & _). apply free_live_succeeds; auto. Qed.

Theorem linear_lookup_own h gr size l x :
  lcfg_ok gr size -> lreach h gr size l -> In x (live l) ->
  get_user_data l (s_off x + 1) = UDOk (s_tag x) /\ allocation_offset (s_off x + 1) = s_off x.
Proof.
  intros Hc Hr Hx. destruct (lreach_LInv _ _ _ _ Hc Hr) as (HI & _).
  split; [apply lookup_own; auto|unfold allocation_offset; lia].
Qed.

(* C13 *)
Theorem linear_no_panic h gr size l o :
  lcfg_ok gr size -> lreach h gr size l -> op_ok l o -> o_kind (snd (step l o)) <> RPanic.
Proof. intros Hc Hr Ho. destruct (lreach_LInv _ _ _ _ Hc Hr) as (HI & _). apply no_panic; auto. Qed.

Theorem linear_refused_noop (l : linear) (o : op) : o_kind (snd (step l o)) <> ROk -> fst (step l o) = l.
Proof. apply refused_is_noop. Qed.

(* C03 *)
Theorem linear_bookkeeping h gr size l :
  lcfg_ok gr size -> lreach h gr size l ->
  allocation_count l = zlen (live l) /\
  sum_free_size l = size - sum_sizes (live l) /\
  (is_empty l = true <-> live l = []) /\
  validate l = Some true /\
  (exists rs, visit_regions l = Some rs /\ tiles 0 rs size /\ allocs rs = map region_of (live_ordered l)) /\
  add_statistics l = Some (mkStats 1 (zlen (live l)) size (sum_sizes (live l))) /\
  (exists d, add_detailed_statistics l = Some d /\ d_stats d = mkStats 1 (zlen (live l)) size (sum_sizes (live l))).
Proof.
  intros Hc Hr. destruct (lreach_LInv _ _ _ _ Hc Hr) as (HI & Hsz & _).
  destruct (bookkeeping l HI) as (H1 & H2 & H3 & H4).
  pose proof (visit_regions_spec l HI) as H5. pose proof (add_statistics_spec l HI) as H6.
  pose proof (add_detailed_statistics_spec l HI) as H7. rewrite Hsz in *. repeat split; auto; tauto.
Qed.

(* C18 *)
Theorem linear_empty_is_fresh h gr size l :
  lcfg_ok gr size -> lreach h gr size l -> live l = [] ->
  l = set_swapped (linear_init h gr size) (l_swapped l) /\ lin_clear l = l.
Proof. intros Hc Hr He. destruct (lreach_LInv _ _ _ _ Hc Hr) as (HI & Hcfg). apply empty_is_fresh; auto. Qed.

(* two states that differ only in which physical vector is "first" answer every future
   operation sequence identically *)
Theorem linear_eqv_future l1 l2 ops :
  eqv l1 l2 ->
  eqv (lrun l1 ops) (lrun l2 ops) /\
  forall o, snd (step (lrun l1 ops) o) = snd (step (lrun l2 ops) o).
Proof.
  revert l1 l2; induction ops as [|o ops IH]; intros l1 l2 He; cbn [lrun].
  - split; auto. intros o. apply step_respects_eqv; auto.
  - apply IH. apply step_respects_eqv; auto.
Qed.
