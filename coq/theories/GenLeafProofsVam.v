(* GenLeafProofsVam.v — second tie (tools/go2coq), the leaves that the whole-allocator model
   (VamDev.v, Vam.v) uses:
     vam/internal/vulkan/device_memory.go  IsMemoryTypeHostNonCoherent, MemoryTypeMinimumAlignment
     vam/allocation.go                     flushOrInvalidateRange
   Kept apart from GenLeafProofs.v / GenLeafProofs2.v because it depends on Vam.v. *)
From Coq Require Import ZArith Lia Bool List.
From Coq Require Import ZifyBool.
From Arsenal Require Util Bits.
From Arsenal Require Import GoSem GenLeaf GenLeafProofs VamDev VamBlockList Vam.
From Arsenal Require GenLeafFlushCore.
Open Scope Z_scope.
Ltac Zify.zify_post_hook ::= Z.to_euclidean_division_equations.

(* ------------------------------------------------------------------ device_memory.go *)

(* flags & (HostVisible|HostCoherent) == HostVisible, bitwise *)
Lemma land6_eq2 f : (Z.land f 6 =? 2) = Z.testbit f 1 && negb (Z.testbit f 2).
Proof.
  assert (H : Z.land f 6 = (if Z.testbit f 1 then 2 else 0) + (if Z.testbit f 2 then 4 else 0)).
  { apply Z.bits_inj'. intros n Hn. rewrite Z.land_spec.
    destruct (Z.eq_dec n 1) as [->|N1]; [destruct (Z.testbit f 1), (Z.testbit f 2); reflexivity|].
    destruct (Z.eq_dec n 2) as [->|N2]; [destruct (Z.testbit f 1), (Z.testbit f 2); reflexivity|].
    replace (Z.testbit 6 n) with false.
    2:{ destruct (Z.eq_dec n 0) as [->|N0]; [reflexivity|]. symmetry. apply Z.bits_above_log2; [lia|]. cbn. lia. }
    rewrite andb_false_r. symmetry.
    destruct (Z.testbit f 1), (Z.testbit f 2); cbn [Z.add];
      (destruct (Z.eq_dec n 0) as [->|N0]; [reflexivity|]); apply Z.bits_above_log2; cbn; lia. }
  rewrite H. destruct (Z.testbit f 1), (Z.testbit f 2); reflexivity.
Qed.

(* IsMemoryTypeHostNonCoherent(memoryTypeIndex): parameters = the directive's value
   m.memoryProperties.MemoryTypes[i].PropertyFlags, then the (unused) index *)
Theorem gen_IsMemoryTypeHostNonCoherent_eq c t :
  GenLeaf.IsMemoryTypeHostNonCoherent (type_flags c t) t = non_coherent c t.
Proof. unfold GenLeaf.IsMemoryTypeHostNonCoherent, non_coherent, go_and. cbv zeta. apply land6_eq2. Qed.
Print Assumptions gen_IsMemoryTypeHostNonCoherent_eq.

(* MemoryTypeMinimumAlignment(memTypeIndex) uint: parameters = Limits.NonCoherentAtomSize (an int),
   the type's flags, the (unused) index.  A negative atom size would wrap to a huge uint. *)
Theorem gen_MemoryTypeMinimumAlignment_eq c t :
  0 <= c_atom c < 2 ^ 63 ->
  GenLeaf.MemoryTypeMinimumAlignment (c_atom c) (type_flags c t) t = type_min_alignment c t.
Proof.
  intros Ha. change (2 ^ 63) with 9223372036854775808 in Ha.
  unfold GenLeaf.MemoryTypeMinimumAlignment, type_min_alignment, non_coherent, go_and. cbv zeta.
  rewrite land6_eq2. rewrite wrap_u64_id by lia. reflexivity.
Qed.
Print Assumptions gen_MemoryTypeMinimumAlignment_eq.

(* ------------------------------------------------------------------ allocation.go *)

(* the Go results (success, err != nil, outRange.Offset, outRange.Size) as the model's result:
   success: the range for the driver; neither: nothing to do; error: VK_ERROR_UNKNOWN *)
Definition flush_view (g : outcome (bool * bool * Z * Z) (Z * Z)) : out (option (Z * Z)) :=
  match g with
  | Ret (_, true, _, _) => ER VK_UNKNOWN
  | Ret (true, false, off, sz) => OK (Some (off, sz))
  | Ret (false, false, _, _) => OK None
  | Panic _ => PANIC
  | Diverge => STUCK
  end.

(* flushOrInvalidateRange(offset, size, outRange): parameters = a.allocationType, the directives'
   values (IsMemoryTypeHostNonCoherent(a.memoryTypeIndex), NonCoherentAtomSize, a.Size(),
   a.FindOffset(), the block's metadata.Size()), the initial outRange.Offset / .Size, offset, size.
   Domain: atom size a power of two (>= 1: for 0 Go divides by zero, see README), all magnitudes
   below 2^60; for a block allocation the model's lookups of the offset and the block succeed. *)
Theorem gen_flushOrInvalidateRange_eq c v a offset size aoff bsize off0 sz0 :
  Bits.pow2 (c_atom c) -> c_atom c <= 2 ^ 60 ->
  0 <= a_size a <= 2 ^ 60 -> -2 ^ 60 <= offset <= 2 ^ 60 -> -2 ^ 60 <= size <= 2 ^ 60 ->
  0 <= aoff <= 2 ^ 60 -> -2 ^ 60 <= bsize <= 2 ^ 60 ->
  (a_kind a = 1 -> find_offset v a = Some aoff /\
                   exists b, get_block v (a_lref a) (a_blk a) = Some b /\ meta_size (bk_meta b) = bsize) ->
  flush_view (GenLeaf.flushOrInvalidateRange (a_kind a) (non_coherent c (a_type a)) (c_atom c) (a_size a)
                                              aoff bsize off0 sz0 offset size)
  = flush_range c v a offset size.
Proof.
  intros Hpow Hatom Hasize Hoff Hsize Haoff Hbsize Hblk.
  pose proof (Bits.pow2_pos _ Hpow) as Hapos.
  change (2 ^ 60) with 1152921504606846976 in *.
  unfold GenLeaf.flushOrInvalidateRange, flush_range. cbv zeta.
  destruct ((size =? 0) || (size <? -1) || negb (non_coherent c (a_type a))); [reflexivity|].
  destruct (Z.ltb_spec offset 0) as [Hneg|Hnn]; [reflexivity|].
  replace (offset >? a_size a) with (a_size a <? offset) by lia.
  destruct (Z.ltb_spec (a_size a) offset) as [Hpast|Hin]; [reflexivity|].
  destruct (Z.eqb_spec offset (a_size a)) as [Heq|Hne]; [reflexivity|].
  rewrite (wrap_i64_id (offset + size)) by lia.
  replace (size >? 0) with (0 <? size) by lia.
  replace (offset + size >? a_size a) with (a_size a <? offset + size) by lia.
  destruct ((0 <? size) && (a_size a <? offset + size)) eqn:Eend; [reflexivity|].
  rewrite (wrap_u64_id (c_atom c)) by lia.
  rewrite gen_AlignDown_eq by (change (2 ^ 63) with 9223372036854775808; lia).
  pose proof (Bits.align_down_bounds offset (c_atom c) Hpow) as [Hroff Hrmod].
  set (roff := Util.align_down offset (c_atom c)) in *.
  assert (Hroff0 : 0 <= roff).
  { destruct (Z_lt_ge_dec roff 0) as [Hlt|]; [|lia]. exfalso.
    apply Z.mod_divide in Hrmod; [|lia]. destruct Hrmod as [q Hq].
    assert (Hq0 : q < 0) by nia. assert (Hq1 : q * c_atom c <= -1 * c_atom c) by nia. lia. }
  (* AlignUp of the size expressions *)
  assert (HAU : forall x, -1152921504606846976 * 3 <= x <= 1152921504606846976 * 3 ->
                  GenLeaf.AlignUp x (c_atom c) = Util.align_up x (c_atom c)
                  /\ x <= Util.align_up x (c_atom c) < x + c_atom c).
  { intros x Hx. split; [apply gen_AlignUp_eq; change (2 ^ 63) with 9223372036854775808; lia|].
    apply (Bits.align_up_bounds x (c_atom c) Hpow). }
  destruct (Z.eqb_spec (a_kind a) 2) as [K2|NK2].
  - (* dedicated *)
    rewrite (wrap_i64_id (a_size a - roff)) by lia.
    rewrite (wrap_i64_id (offset - roff)) by lia.
    rewrite (wrap_i64_id (size + (offset - roff))) by lia.
    destruct (HAU (size + (offset - roff)) ltac:(lia)) as [-> Hb].
    destruct (0 <? size); [|reflexivity].
    destruct (Util.align_up (size + (offset - roff)) (c_atom c) <? a_size a - roff); reflexivity.
  - destruct (Z.eqb_spec (a_kind a) 1) as [K1|NK1]; [|reflexivity].
    destruct (Hblk K1) as (Hfo & b & Hgb & Hms). rewrite Hfo, Hgb, Hms.
    rewrite (wrap_i64_id (a_size a - roff)) by lia.
    rewrite (wrap_i64_id (offset - roff)) by lia.
    destruct (Z.eqb_spec (c_atom c) 0) as [Hz|_]; [lia|].
    assert (Hrem : wrap_i64 (go_rem aoff (c_atom c)) = Z.rem aoff (c_atom c)).
    { unfold go_rem. apply wrap_i64_id. pose proof (Z.rem_bound_pos aoff (c_atom c) ltac:(lia) ltac:(lia)). lia. }
    rewrite Hrem.
    destruct (Z.eqb_spec size (-1)) as [Hwhole|Hpart].
    + rewrite (wrap_i64_id (a_size a - roff + (offset - roff))) by lia.
      destruct (HAU (a_size a - roff + (offset - roff)) ltac:(lia)) as [-> Hb].
      destruct (Z.rem aoff (c_atom c) =? 0); cbn [negb]; [|reflexivity].
      rewrite (wrap_i64_id (roff + aoff)) by lia. rewrite (wrap_i64_id (bsize - (roff + aoff))) by lia.
      destruct (bsize - (roff + aoff) <? Util.align_up (a_size a - roff + (offset - roff)) (c_atom c)); reflexivity.
    + rewrite (wrap_i64_id (size + (offset - roff))) by lia.
      destruct (HAU (size + (offset - roff)) ltac:(lia)) as [-> Hb].
      destruct (Z.rem aoff (c_atom c) =? 0); cbn [negb]; [|reflexivity].
      rewrite (wrap_i64_id (roff + aoff)) by lia. rewrite (wrap_i64_id (bsize - (roff + aoff))) by lia.
      destruct (bsize - (roff + aoff) <? Util.align_up (size + (offset - roff)) (c_atom c)); reflexivity.
Qed.
Print Assumptions gen_flushOrInvalidateRange_eq.

(* FINDING (reported, not papered over): for nonCoherentAtomSize = 0 -- which VamInv.cfg_ok admits
   (co_atom : c_atom c < 1 \/ pow2 (c_atom c)), though not VamAcctThm (1 <= c_atom c) nor the Vulkan
   specification -- the Go code and the model differ on a block allocation at offset 0: Go
   evaluates allocationOffset % 0 and panics (integer divide by zero); the model's
   Z.rem 0 0 = 0 lets it return a range. *)
Lemma gen_flush_atom0_discrepancy c v a b :
  c_atom c = 0 -> non_coherent c (a_type a) = true -> a_kind a = 1 -> a_size a = 100 ->
  find_offset v a = Some 0 -> get_block v (a_lref a) (a_blk a) = Some b -> meta_size (bk_meta b) = 1000 ->
  flush_view (GenLeaf.flushOrInvalidateRange (a_kind a) (non_coherent c (a_type a)) (c_atom c) (a_size a)
                                              0 1000 0 0 0 1) = PANIC
  /\ flush_range c v a 0 1 = OK (Some (0, 0)).
Proof.
  intros Hatom Hnc Hk Hs Hfo Hgb Hms. split.
  - rewrite Hatom, Hnc, Hk, Hs. reflexivity.
  - unfold flush_range. rewrite Hatom, Hnc, Hk, Hs, Hfo, Hgb, Hms. reflexivity.
Qed.
Print Assumptions gen_flush_atom0_discrepancy.

(* the flattened re-statement that bin/leaf-search evaluates (GenLeafFlushCore.flush_core) is what
   the model computes *)
Lemma flush_range_core c v a offset size :
  flush_range c v a offset size
  = GenLeafFlushCore.flush_core (non_coherent c (a_type a)) (c_atom c) (a_size a) (a_kind a) (find_offset v a)
      (option_map (fun b => meta_size (bk_meta b)) (get_block v (a_lref a) (a_blk a))) offset size.
Proof.
  unfold flush_range, GenLeafFlushCore.flush_core. cbv zeta.
  repeat match goal with
         | |- (if ?x then _ else _) = (if ?x then _ else _) => destruct x
         end; try reflexivity.
  destruct (find_offset v a), (get_block v (a_lref a) (a_blk a)); reflexivity.
Qed.
Print Assumptions flush_range_core.
