(* VamInvUpd.v — the invariant VamInvU is preserved by the primitive state updates the model is composed of:
   machine changes that keep the set of memory objects, (un)allocated slot writes, adding / releasing a region
   of a block, adding / removing a block together with its memory object, dedicated allocations, pools. *)
From Coq Require Import ZArith NArith List Bool Lia.
From Arsenal Require Util Bits SyncMem Budget.
From Arsenal Require Import VamDev VamBlockList VamInvMeta VamInv.
Import ListNotations.
Open Scope Z_scope.

(* ---------------------------------------------------------------- lookups through set_m / set_alloc *)

Lemma get_blist_set_m v m lr : get_blist (set_m v m) lr = get_blist v lr.
Proof. destruct lr; reflexivity. Qed.
Lemma get_dedlist_set_m v m lr : get_dedlist (set_m v m) lr = get_dedlist v lr.
Proof. destruct lr; reflexivity. Qed.
Lemma get_blist_set_tab v t lr : get_blist (set_tab v t) lr = get_blist v lr.
Proof. destruct lr; reflexivity. Qed.
Lemma get_dedlist_set_tab v t lr : get_dedlist (set_tab v t) lr = get_dedlist v lr.
Proof. destruct lr; reflexivity. Qed.
Lemma get_blist_set_alloc v s a lr : get_blist (set_alloc v s a) lr = get_blist v lr.
Proof. apply get_blist_set_tab. Qed.
Lemma get_dedlist_set_alloc v s a lr : get_dedlist (set_alloc v s a) lr = get_dedlist v lr.
Proof. apply get_dedlist_set_tab. Qed.

Lemma slot_is_set_m v m s a : slot_is (set_m v m) s a <-> slot_is v s a.
Proof. unfold slot_is. cbn. tauto. Qed.

Lemma slot_is_set_alloc_other v s0 a0 s a : s <> s0 -> (slot_is (set_alloc v s0 a0) s a <-> slot_is v s a).
Proof. intros H. unfold slot_is, set_alloc. cbn. rewrite nth_z_set_other by congruence. tauto. Qed.

Lemma slot_is_set_alloc_same v s a0 a :
  0 <= s < zlen (v_tab v) -> (slot_is (set_alloc v s a0) s a <-> a = a0 /\ a_allocated a0 = true).
Proof.
  intros H. unfold slot_is, set_alloc. cbn. rewrite nth_z_set_same by auto. split.
  - intros (E & Ha). injection E as <-. auto.
  - intros (-> & Ha). auto.
Qed.

Lemma slot_is_range v s a : slot_is v s a -> 0 <= s < zlen (v_tab v).
Proof. intros (H & _). eapply nth_z_some_range; eauto. Qed.

Lemma get_alloc_slot v s a : slot_is v s a -> get_alloc v s = a.
Proof. intros (H & _). unfold get_alloc. rewrite H. reflexivity. Qed.

(* ---------------------------------------------------------------- machine changes that keep the objects *)

Definition mem_key (d : dmem) : Z * Z * Z := (dm_id d, dm_type d, dm_size d).
Definition mems_same (ms ms' : list dmem) : Prop := map mem_key ms = map mem_key ms'.

Lemma mems_same_refl ms : mems_same ms ms.
Proof. reflexivity. Qed.

Lemma mems_same_trans a b c : mems_same a b -> mems_same b c -> mems_same a c.
Proof. unfold mems_same. congruence. Qed.

Lemma mems_same_mapped ms id b : mems_same ms (set_mem_mapped ms id b).
Proof.
  unfold mems_same. induction ms as [|d ms IH]; cbn; [reflexivity|]. destruct (dm_id d =? id); cbn.
  - reflexivity.
  - rewrite IH. reflexivity.
Qed.

Lemma mems_same_ids ms ms' : mems_same ms ms' -> map dm_id ms = map dm_id ms'.
Proof.
  unfold mems_same. intros H. assert (E : map dm_id ms = map (fun k => fst (fst k)) (map mem_key ms))
    by (rewrite map_map; reflexivity).
  rewrite E, H, map_map. reflexivity.
Qed.

Lemma mems_same_find ms ms' id d :
  mems_same ms ms' -> find_mem ms id = Some d ->
  exists d', find_mem ms' id = Some d' /\ mem_key d' = mem_key d.
Proof.
  unfold mems_same. revert ms'. induction ms as [|x ms IH]; intros [|x' ms'] H; cbn [map find_mem] in *; try discriminate.
  injection H as H1 H2 H3 H4. rewrite <- H1.
  destruct (dm_id x =? id).
  - intros E; injection E as <-. exists x'. split; [reflexivity|unfold mem_key; congruence].
  - intros E. eapply IH; eauto.
Qed.

Lemma mems_same_in ms ms' d' :
  mems_same ms ms' -> In d' ms' -> exists d, In d ms /\ mem_key d = mem_key d'.
Proof.
  unfold mems_same. intros H Hin. assert (In (mem_key d') (map mem_key ms)) by (rewrite H; apply in_map; auto).
  apply in_map_iff in H0. destruct H0 as (d & Hk & Hd). eauto.
Qed.

Lemma VamInvU_set_m c v U X m' :
  VamInvU c v U X -> mems_same (m_mems (v_m v)) (m_mems m') -> m_next (v_m v) <= m_next m' ->
  VamInvU c (set_m v m') U X.
Proof.
  intros HI Hs Hn. inv_fields HI. clear HI. constructor; cbn [set_m v_lists v_ded v_pools v_next_uid v_next_pool_id v_m v_tab];
    try setoid_rewrite get_blist_set_m; try setoid_rewrite get_dedlist_set_m; auto.
  - rewrite <- (mems_same_ids _ _ Hs). auto.
  - apply Forall_forall. intros d' Hd'. destruct (mems_same_in _ _ _ Hs Hd') as (d & Hd & Hk).
    rewrite Forall_forall in I_dx. specialize (I_dx d Hd).
    assert (dm_id d' = dm_id d) by (unfold mem_key in Hk; congruence). lia.
  - intros lr l b Hg Hb. destruct (I_bm _ _ _ Hg Hb) as (d & Hf & Ht & Hz).
    destruct (mems_same_find _ _ _ _ Hs Hf) as (d' & Hf' & Hk). exists d'. unfold mem_key in Hk.
    split; [auto|]. split; congruence.
  - intros d' Hd'. destruct (mems_same_in _ _ _ Hs Hd') as (d & Hd & Hk).
    assert (E : dm_id d' = dm_id d) by (unfold mem_key in Hk; congruence). rewrite E. auto.
  - intros s a Hsl HX. destruct (I_sl s a Hsl HX) as [?|(Hk & Hd & Hl & d & Hf & Ht & Hz)]; [left; auto|].
    right. split; [auto|]. split; [auto|]. split; [auto|].
    destruct (mems_same_find _ _ _ _ Hs Hf) as (d' & Hf' & Hk'). exists d'. unfold mem_key in Hk'.
    split; [auto|]. split; congruence.
  - lia.
  - apply Forall_forall. intros d' Hd'. destruct (mems_same_in _ _ _ Hs Hd') as (d & Hd & Hk).
    rewrite Forall_forall in I_dp. specialize (I_dp d Hd). unfold mem_key in Hk. assert (dm_size d = dm_size d') by congruence. lia.
Qed.

(* ---------------------------------------------------------------- writing an unallocated slot *)

(* every fact of the invariant about a slot other than s, or about an allocated s, survives *)
Lemma VamInvU_set_alloc_dead c v U X s a' :
  VamInvU c v U X -> a_allocated (get_alloc v s) = false -> a_allocated a' = false ->
  VamInvU c (set_alloc v s a') U X.
Proof.
  intros HI Hold Hnew.
  assert (Hsl : forall s1 a1, slot_is (set_alloc v s a') s1 a1 <-> slot_is v s1 a1).
  { intros s1 a1. destruct (Z.eq_dec s1 s) as [->|Hne]; [|apply slot_is_set_alloc_other; auto].
    unfold slot_is, set_alloc, get_alloc in *. cbn. split.
    - intros (E & Ha). destruct (nth_z (v_tab v) s) as [x|] eqn:Ex.
      + rewrite nth_z_set_same in E by (eapply nth_z_some_range; eauto). congruence.
      + rewrite nth_z_set_none in E by auto. discriminate.
    - intros (E & Ha). rewrite E in Hold. congruence. }
  inv_fields HI. clear HI. constructor; cbn [set_alloc set_tab v_lists v_ded v_pools v_next_uid v_next_pool_id v_m];
    try setoid_rewrite get_blist_set_alloc; try setoid_rewrite get_dedlist_set_alloc; auto.
  - intros s1 a1 lr l b H1. apply Hsl in H1. eauto.
  - intros s1 a1 s2 a2 H1 K1 H2 K2. apply Hsl in H1. apply Hsl in H2. eauto.
  - intros d Hd. destruct (I_do d Hd) as [?|(s1 & a1 & H1 & R)]; [left; auto|].
    right. exists s1, a1. split; [apply Hsl; auto|auto].
  - intros s1 a1 H1 HX. apply Hsl in H1. destruct (I_sl s1 a1 H1 HX) as [(K & l & b & rg & R)|(K & R)].
    + left. split; [auto|]. exists l, b, rg. rewrite get_blist_set_alloc. exact R.
    + right. split; [auto|]. destruct R as (R1 & R2 & R3). split; [|split].
      * rewrite get_dedlist_set_alloc. auto.
      * destruct R2 as (l & R2). exists l. rewrite get_blist_set_alloc. auto.
      * exact R3.
  - intros lr l b rg Hg Hb Hrg. destruct (I_tg _ _ _ _ Hg Hb Hrg) as (s1 & a1 & R1 & R2 & R3).
    exists s1, a1. split; [auto|]. split; [apply Hsl; auto|auto].
  - intros lr s1 H1. destruct (I_dd _ _ H1) as (a1 & R1 & R). exists a1. split; [apply Hsl; auto|auto].
  - intros s1 H1. destruct (I_ur _ H1) as (a1 & R1 & R2 & R3). exists a1. split; [apply Hsl; auto|]. split; auto.
  - intros s1 H1. destruct (I_dg _ H1) as (a1 & R1 & R). exists a1. split; [apply Hsl; auto|auto].
  - intros s1 a1 H1 K1. apply Hsl in H1. eauto.
  - intros s1 a1 l1 H1 HX1 K1. apply Hsl in H1. eauto.
Qed.

(* ---------------------------------------------------------------- one list and one slot change together *)

Definition shape_same (b b' : block) : Prop :=
  bk_id b = bk_id b' /\ bk_mem b = bk_mem b' /\ meta_size (bk_meta b) = meta_size (bk_meta b').

(* The general form of "a region of a block of list lr appears / disappears / stays together with a write to
   slot s".  Blocks keep identity, memory and size; regions not tagged with s are kept; every region of the new
   list is an old one or belongs to the new contents of slot s. *)
Lemma VamInvU_region_update c v U X X' lr l0 l' s a' :
  VamInvU c v U X -> get_blist v lr = Some l0 ->
  blist_wf c l' -> bl_type l' = bl_type l0 ->
  (forall b0, In b0 (bl_blocks l0) -> exists b', In b' (bl_blocks l') /\ shape_same b0 b') ->
  (forall b', In b' (bl_blocks l') -> exists b0, In b0 (bl_blocks l0) /\ shape_same b0 b') ->
  0 <= s < zlen (v_tab v) ->
  ~ (a_allocated (get_alloc v s) = true /\ a_kind (get_alloc v s) = 2) ->
  (a_allocated a' = true -> a_kind a' = 1) ->
  (forall b0 b' rg, In b0 (bl_blocks l0) -> In b' (bl_blocks l') -> bk_id b0 = bk_id b' ->
       In rg (meta_live (bk_meta b0)) -> rg_tag rg <> Some s -> In rg (meta_live (bk_meta b'))) ->
  (forall b' rg, In b' (bl_blocks l') -> In rg (meta_live (bk_meta b')) ->
       (exists b0, In b0 (bl_blocks l0) /\ bk_id b0 = bk_id b' /\ In rg (meta_live (bk_meta b0)) /\ rg_tag rg <> Some s) \/
       (rg_tag rg = Some s /\ a_allocated a' = true /\ a_kind a' = 1 /\ a_lref a' = lr /\ a_blk a' = bk_id b' /\
        a_handle a' = rg_handle rg)) ->
  (a_allocated a' = true -> ~ In s X' -> block_alloc_ok (set_alloc (set_blist v lr l') s a') s a') ->
  (forall s1, In s1 X' -> s1 = s \/ In s1 X) ->
  (In s X' -> a_allocated a' = true) ->
  (forall s1, s1 <> s -> In s1 X -> In s1 X') ->
  (forall a1, slot_is v s a1 -> a_kind a1 = 1 -> a_lref a1 = lr) ->
  (In s X' -> forall b' rg, In b' (bl_blocks l') -> In rg (meta_live (bk_meta b')) -> rg_tag rg <> Some s) ->
  (a_allocated a' = true -> Bits.pow2 (a_align a')) ->
  bl_minalign l' = bl_minalign l0 ->
  (a_allocated a' = true -> forall l1, get_blist (set_alloc (set_blist v lr l') s a') (a_lref a') = Some l1 -> bl_minalign l1 <= a_align a') ->
  VamInvU c (set_alloc (set_blist v lr l') s a') U X'.
Proof.
  intros HI H0 Hwf Hty Hfw Hbw Hs Hold Hnew Hkeep Hreg Hself HX1 HX2 HX3 Hlr HX5 Hpow Hmal Hmas.
  inv_fields HI.
  set (v1 := set_blist v lr l'). set (v' := set_alloc v1 s a').
  assert (Hcases := get_set_blist_cases v lr l0 l').
  assert (Hg' : forall lr1, get_blist v' lr1 = get_blist v1 lr1) by (intros; apply get_blist_set_alloc).
  assert (Hd' : forall lr1, get_dedlist v' lr1 = get_dedlist v lr1).
  { intros. unfold v', v1. rewrite get_dedlist_set_alloc, set_blist_dedlist. reflexivity. }
  assert (Hm' : v_m v' = v_m v) by (unfold v', v1; cbn; apply set_blist_m).
  assert (Hs1 : 0 <= s < zlen (v_tab v1)) by (unfold v1; rewrite set_blist_tab; auto).
  (* slots other than s *)
  assert (Hoth : forall s1 a1, s1 <> s -> (slot_is v' s1 a1 <-> slot_is v s1 a1)).
  { intros s1 a1 Hne. unfold v'. rewrite slot_is_set_alloc_other by auto. apply slot_is_set_blist. }
  assert (Hsame : forall a1, slot_is v' s a1 <-> a1 = a' /\ a_allocated a' = true).
  { intros a1. unfold v'. apply slot_is_set_alloc_same. auto. }
  (* dedicated slots are the same before and after *)
  assert (Hded : forall s1 a1, a_kind a1 = 2 -> (slot_is v' s1 a1 <-> slot_is v s1 a1)).
  { intros s1 a1 Hk. destruct (Z.eq_dec s1 s) as [->|Hne]; [|apply Hoth; auto]. split.
    - intros H. apply Hsame in H. destruct H as (-> & Ha). specialize (Hnew Ha). congruence.
    - intros H. exfalso. apply Hold. rewrite (get_alloc_slot _ _ _ H). destruct H. auto. }
  (* block lookup in the new state *)
  assert (Hblk : forall lr1 l1 b1, get_blist v' lr1 = Some l1 -> In b1 (bl_blocks l1) ->
            exists l2 b2, get_blist v lr1 = Some l2 /\ In b2 (bl_blocks l2) /\ shape_same b2 b1 /\ bl_type l2 = bl_type l1 /\
                          (lr1 <> lr -> l2 = l1 /\ b2 = b1) /\ (lr1 = lr -> l2 = l0 /\ l1 = l')).
  { intros lr1 l1 b1 Hg Hb. rewrite Hg' in Hg. destruct (Hcases _ _ H0 Hg) as [(-> & ->)|(Hne & Hgo)].
    - destruct (Hbw _ Hb) as (b0 & Hb0 & Hsh). exists l0, b0.
      split; [auto|]. split; [auto|]. split; [exact Hsh|]. split; [congruence|]. split; [tauto|auto].
    - exists l1, b1. split; [auto|]. split; [auto|]. split; [unfold shape_same; auto|]. split; [auto|]. split; [auto|tauto]. }
  constructor.
  - unfold v', v1. cbn. rewrite set_blist_lists_len. auto.
  - unfold v', v1. cbn. rewrite set_blist_ded. auto.
  - intros t l H. rewrite Hg' in H. destruct (Hcases _ _ H0 H) as [(E & ->)|(Hne & Hg)]; [subst lr; rewrite Hty; eauto|eauto].
  - intros lr1 l1 H. rewrite Hg' in H. destruct (Hcases _ _ H0 H) as [(-> & ->)|(Hne & Hg)]; eauto.
  - unfold v', v1. cbn. rewrite set_blist_uids. auto.
  - unfold v', v1. cbn. rewrite set_blist_next_uid. eapply Forall_map_eq with (f := p_uid) (P := fun u => u < v_next_uid v);
      [symmetry; apply set_blist_uids|reflexivity|exact I_pu].
  - unfold v', v1. cbn. rewrite set_blist_pids, set_blist_next_pid. destruct I_pi as (Hn & Hf). split; [auto|].
    eapply Forall_map_eq with (f := p_id) (P := fun u => u < v_next_pool_id v);
      [symmetry; apply set_blist_pids|reflexivity|exact Hf].
  - rewrite Hm'. auto.
  - rewrite Hm'. auto.
  - rewrite Hm'. intros lr1 l1 b1 Hg Hb. destruct (Hblk _ _ _ Hg Hb) as (l2 & b2 & Hg2 & Hb2 & (Hi & Hmm & Hsz) & Ht & _).
    destruct (I_bm _ _ _ Hg2 Hb2) as (d & Hf & Hdt & Hds). exists d. split; [congruence|]. split; congruence.
  - intros lr1 l1 b1 lr2 l2 b2 Hg1 Hb1 Hg2 Hb2 Hmm.
    destruct (Hblk _ _ _ Hg1 Hb1) as (k1 & c1 & Hk1 & Hc1 & (Hi1 & Hm1 & _) & _).
    destruct (Hblk _ _ _ Hg2 Hb2) as (k2 & c2 & Hk2 & Hc2 & (Hi2 & Hm2 & _) & _).
    destruct (I_bi _ _ _ _ _ _ Hk1 Hc1 Hk2 Hc2 ltac:(congruence)). split; [auto|congruence].
  - intros s1 a1 lr1 l1 b1 Hsl Hk Hg Hb. apply Hded in Hsl; auto.
    destruct (Hblk _ _ _ Hg Hb) as (k1 & c1 & Hk1 & Hc1 & (Hi1 & Hm1 & _) & _). rewrite <- Hm1. eauto.
  - intros s1 a1 s2 a2 H1 K1 H2 K2. apply Hded in H1; auto. apply Hded in H2; auto. eauto.
  - rewrite Hm'. intros d Hd. destruct (I_do d Hd) as [(lr1 & l1 & b1 & Hg & Hb & Hmm)|(s1 & a1 & Hsl & Hk & Hmm)].
    + left. destruct (lref_eq_dec lr1 lr) as [->|Hne].
      * assert (l1 = l0) by congruence. subst l1. destruct (Hfw _ Hb) as (b' & Hb' & _ & Hm2 & _).
        exists lr, l', b'. rewrite Hg'. split; [eapply get_set_blist_same; eauto|]. split; [auto|congruence].
      * exists lr1, l1, b1. rewrite Hg'. unfold v1. rewrite get_set_blist_other by congruence. auto.
    + right. exists s1, a1. split; [apply Hded; auto|auto].
  - intros s1 a1 Hsl HX. destruct (Z.eq_dec s1 s) as [->|Hne].
    + apply Hsame in Hsl. destruct Hsl as (-> & Ha). left. split; [auto|]. apply Hself; auto.
    + apply Hoth in Hsl; auto. assert (HXo : ~ In s1 X) by (intros Hin; apply HX; apply HX3; auto).
      destruct (I_sl s1 a1 Hsl HXo) as [(Hk & l & b & rg & Hg & Hb & Hid & Hrg & Hh & Htag & R)|(Hk & R1 & R2 & R3)].
      * left. split; [auto|]. destruct (lref_eq_dec (a_lref a1) lr) as [E|Hne1].
        -- rewrite E in Hg. assert (l = l0) by congruence. subst l.
           destruct (Hfw _ Hb) as (b' & Hb' & Hi' & Hm2 & Hz2).
           exists l', b', rg. rewrite Hg', E. split; [eapply get_set_blist_same; eauto|].
           split; [auto|]. split; [congruence|].
           split; [eapply Hkeep; eauto; rewrite Htag; congruence|].
           destruct R as (R4 & R5 & R6 & R7). repeat split; auto; congruence.
        -- exists l, b, rg. rewrite Hg'. unfold v1. rewrite get_set_blist_other by congruence. repeat split; auto; apply R.
      * right. split; [auto|]. split; [rewrite Hd'; auto|]. split; [|rewrite Hm'; auto].
        destruct R2 as (l & Hg & Ht). destruct (lref_eq_dec (a_lref a1) lr) as [E|Hne1].
        -- exists l'. rewrite Hg', E. split; [eapply get_set_blist_same; eauto|]. rewrite E in Hg. congruence.
        -- exists l. rewrite Hg'. unfold v1. rewrite get_set_blist_other by congruence. auto.
  - intros lr1 l1 b1 rg Hg Hb Hrg. rewrite Hg' in Hg. destruct (Hcases _ _ H0 Hg) as [(-> & ->)|(Hne & Hgo)].
    + destruct (Hreg _ _ Hb Hrg) as [(b0 & Hb0 & Hi & Hr0 & Htag)|(Htag & Ha & Hk & R)].
      * destruct (I_tg _ _ _ _ H0 Hb0 Hr0) as (s1 & a1 & T1 & T2 & T3). exists s1, a1. split; [auto|].
        split; [apply Hoth; [congruence|auto]|]. rewrite <- Hi. auto.
      * exists s, a'. split; [auto|]. split; [apply Hsame; auto|auto].
    + destruct (I_tg _ _ _ _ Hgo Hb Hrg) as (s1 & a1 & T1 & T2 & T3 & T4 & T5). exists s1, a1. split; [auto|].
      split; [|auto]. destruct (Z.eq_dec s1 s) as [->|Hne1]; [|apply Hoth; auto].
      exfalso. apply Hne. rewrite <- T4. apply Hlr; auto.
  - intros lr1 s1 Hin. rewrite Hd' in Hin. destruct (I_dd _ _ Hin) as (a1 & R1 & R2 & R3). exists a1.
    split; [apply Hded; auto|auto].
  - intros lr1. rewrite Hd'. auto.
  - intros s1 Hin. destruct (I_ur _ Hin) as (a1 & R1 & R2 & R3). exists a1. split; [apply Hded; auto|]. split; [auto|]. rewrite Hd'. auto.
  - intros s1 Hin. destruct (HX1 _ Hin) as [->|Hin1].
    + exists a'. specialize (HX2 Hin). split; [apply Hsame; auto|auto].
    + destruct (Z.eq_dec s1 s) as [->|Hne]; [exists a'; specialize (HX2 Hin); split; [apply Hsame; auto|auto]|].
      destruct (I_dg _ Hin1) as (a1 & R1 & R2). exists a1. split; [apply Hoth; auto|auto].
  - intros s1 lr1 l1 b1 rg Hin Hg Hb Hrg. rewrite Hg' in Hg. destruct (Hcases _ _ H0 Hg) as [(-> & ->)|(Hne & Hgo)].
    + destruct (Z.eq_dec s1 s) as [->|Hne1]; [eapply HX5; eauto|].
      destruct (HX1 _ Hin) as [->|Hin1]; [congruence|].
      destruct (Hreg _ _ Hb Hrg) as [(b0 & Hb0 & Hi & Hr0 & Htag)|(Htag & Ha & Hk & R)].
      * eapply I_dt2; eauto.
      * rewrite Htag. congruence.
    + destruct (HX1 _ Hin) as [->|Hin1]; [|eapply I_dt2; eauto].
      intros Htag. destruct (I_tg _ _ _ _ Hgo Hb Hrg) as (s2 & a2 & T1 & T2 & T3 & T4 & _).
      rewrite Htag in T1. injection T1 as <-. apply Hne. rewrite <- T4. apply Hlr; auto.
  - rewrite Hm'. auto.
  - rewrite Hm'. auto.
  - intros s1 a1 H1 K1. destruct (Z.eq_dec s1 s) as [->|Hne]; [apply Hsame in H1; destruct H1 as (-> & Ha); auto|apply Hoth in H1; eauto].
  - intros s1 a1 l1 H1 HnX K1 G1. destruct (Z.eq_dec s1 s) as [->|Hne]; [apply Hsame in H1; destruct H1 as (-> & Ha); auto|].
    assert (HnX0 : ~ In s1 X) by (intros Hi; apply HnX; apply HX3; auto).
    apply Hoth in H1; [|exact Hne]. rewrite Hg' in G1. destruct (Hcases _ _ H0 G1) as [(E & ->)|(Hn & Hgo)].
    + rewrite Hmal. apply (I_ma s1 a1 l0 H1 HnX0 K1). rewrite E. exact H0.
    + eapply I_ma; eauto.
Qed.

Lemma put_block_eq v lr l b : get_blist v lr = Some l ->
  put_block v lr b = set_blist v lr (set_blocks l (replace_block (bl_blocks l) b)).
Proof. intros H. unfold put_block. rewrite H. reflexivity. Qed.

Lemma blist_wf_replace c l nb :
  blist_wf c l -> MInv (bk_meta nb) -> meta_g (bk_meta nb) = bl_gran l -> In (bk_id nb) (map bk_id (bl_blocks l)) ->
  blist_wf c (set_blocks l (replace_block (bl_blocks l) nb)).
Proof.
  intros [H1 H2 H3 H4 H5 H6 H7 H8] Hm Hgm Hin. constructor; cbn; auto.
  - rewrite replace_block_ids. auto.
  - apply Forall_forall. intros b Hb. destruct (in_replace_block _ _ _ H1 Hb) as [(-> & Hi)|(Hi & _)].
    + apply in_map_iff in Hi. destruct Hi as (x & Hx & Hix). rewrite Forall_forall in H2. rewrite <- Hx. auto.
    + rewrite Forall_forall in H2. auto.
  - apply Forall_forall. intros b Hb. destruct (in_replace_block _ _ _ H1 Hb) as [(-> & Hi)|(Hi & _)]; [auto|].
    rewrite Forall_forall in H3. auto.
  - apply Forall_forall. intros b Hb. destruct (in_replace_block _ _ _ H1 Hb) as [(-> & Hi)|(Hi & _)]; [auto|].
    rewrite Forall_forall in H8. auto.
Qed.

(* a block whose metadata / mapping state changes while identity, memory and size stay *)
Lemma replace_shape l b nb :
  NoDup (map bk_id (bl_blocks l)) -> In b (bl_blocks l) -> shape_same b nb ->
  (forall b0, In b0 (bl_blocks l) -> exists b', In b' (replace_block (bl_blocks l) nb) /\ shape_same b0 b') /\
  (forall b', In b' (replace_block (bl_blocks l) nb) -> exists b0, In b0 (bl_blocks l) /\ shape_same b0 b').
Proof.
  intros Hnd Hb Hsh. assert (Hin : In (bk_id nb) (map bk_id (bl_blocks l))).
  { destruct Hsh as (E & _). rewrite <- E. apply in_map. auto. }
  split.
  - intros b0 Hb0. destruct (Z.eq_dec (bk_id b0) (bk_id nb)) as [E|Hne].
    + exists nb. split; [apply replace_block_in; auto|]. assert (b0 = b).
      { destruct Hsh as (E1 & _).
        pose proof (in_find_block _ _ Hnd Hb) as F. rewrite E1, <- E in F.
        pose proof (in_find_block _ _ Hnd Hb0) as F0. congruence. }
      subst. auto.
    + exists b0. split; [apply replace_block_keeps; auto|]. unfold shape_same. auto.
  - intros b' Hb'. destruct (in_replace_block _ _ _ Hnd Hb') as [(-> & _)|(Hi & _)].
    + exists b. auto.
    + exists b'. unfold shape_same. auto.
Qed.

(* a successful block allocation: block b of list lr gets a region for slot s, which becomes allocated *)
Lemma VamInvU_alloc_region c v U X lr l b sm' mt' s a h off l1 l2 :
  VamInvU c v U X -> get_blist v lr = Some l -> In b (bl_blocks l) ->
  0 <= s < zlen (v_tab v) -> a_allocated (get_alloc v s) = false ->
  MInv mt' -> meta_size mt' = meta_size (bk_meta b) -> meta_g mt' = meta_g (bk_meta b) ->
  meta_live (bk_meta b) = l1 ++ l2 ->
  meta_live mt' = l1 ++ new_region h off (a_size a) s (a_align a) :: l2 ->
  a_allocated a = true -> a_kind a = 1 -> a_lref a = lr -> a_blk a = bk_id b -> a_handle a = h ->
  a_mem a = bk_mem b -> a_type a = bl_type l -> Bits.pow2 (a_align a) -> bl_minalign l <= a_align a ->
  VamInvU c (set_alloc (put_block v lr (mkBlock (bk_id b) (bk_mem b) sm' mt')) s a) U X.
Proof.
  intros HI Hg Hb Hs Hdead Hmi Hsz Hgm Hl Hl' Ha Hk Hlr Hblk Hh Hmem Hty Hpow Hmina.
  set (nb := mkBlock (bk_id b) (bk_mem b) sm' mt').
  rewrite (put_block_eq _ _ _ _ Hg).
  pose proof (vi_lists _ _ _ _ HI _ _ Hg) as Hwf. pose proof (bw_nodup _ _ Hwf) as Hnd.
  assert (Hsh : shape_same b nb) by (unfold shape_same, nb; cbn; auto).
  destruct (replace_shape l b nb Hnd Hb Hsh) as (Hfw & Hbw).
  assert (Hnotslot : forall a1, ~ slot_is v s a1).
  { intros a1 H. rewrite (get_alloc_slot _ _ _ H) in Hdead. destruct H. congruence. }
  assert (HnotX : ~ In s X).
  { intros Hin. destruct (vi_dang _ _ _ _ HI _ Hin) as (a1 & H1 & _). eapply Hnotslot; eauto. }
  assert (Hnotag : forall b0 rg, In b0 (bl_blocks l) -> In rg (meta_live (bk_meta b0)) -> rg_tag rg <> Some s).
  { intros b0 rg Hb0 Hrg Htag. destruct (vi_tags _ _ _ _ HI _ _ _ _ Hg Hb0 Hrg) as (s1 & a1 & T1 & T2 & _).
    rewrite Htag in T1. injection T1 as <-. eapply Hnotslot; eauto. }
  assert (Hnbin : In nb (replace_block (bl_blocks l) nb)).
  { apply replace_block_in. cbn. apply in_map. auto. }
  apply VamInvU_region_update with (X := X) (l0 := l); auto.
  - apply blist_wf_replace; auto; cbn; [|apply in_map; auto].
    rewrite Hgm. pose proof (bw_g _ _ Hwf) as Hbg. rewrite Forall_forall in Hbg. auto.
  - intros (H & _). congruence.
  - intros b0 b' rg Hb0 Hb' Hid Hrg Htag. cbn in Hb'.
    destruct (in_replace_block _ _ _ Hnd Hb') as [(-> & _)|(Hi & Hne)].
    + assert (b0 = b).
      { pose proof (in_find_block _ _ Hnd Hb0) as F0. pose proof (in_find_block _ _ Hnd Hb) as F.
        cbn in Hid. rewrite Hid in F0. congruence. }
      subst b0. cbn. rewrite Hl'. rewrite Hl in Hrg. apply in_app_iff in Hrg. apply in_app_iff.
      destruct Hrg; [left; auto|right; right; auto].
    + assert (b0 = b').
      { pose proof (in_find_block _ _ Hnd Hb0) as F0. pose proof (in_find_block _ _ Hnd Hi) as F. rewrite Hid in F0. congruence. }
      subst. auto.
  - intros b' rg Hb' Hrg. cbn in Hb'. destruct (in_replace_block _ _ _ Hnd Hb') as [(-> & _)|(Hi & Hne)].
    + cbn in Hrg. rewrite Hl' in Hrg. apply in_app_iff in Hrg.
      assert (Hold : In rg (meta_live (bk_meta b)) -> exists b0, In b0 (bl_blocks l) /\ bk_id b0 = bk_id nb /\
                       In rg (meta_live (bk_meta b0)) /\ rg_tag rg <> Some s).
      { intros H. exists b. split; [auto|]. split; [reflexivity|]. split; [auto|]. eapply Hnotag; eauto. }
      destruct Hrg as [H|[H|H]].
      * left. apply Hold. rewrite Hl. apply in_app_iff. auto.
      * right. subst rg. cbn. repeat split; auto.
      * left. apply Hold. rewrite Hl. apply in_app_iff. auto.
    + left. exists b'. split; [auto|]. split; [auto|]. split; [auto|]. eapply Hnotag; eauto.
  - intros _ _. exists (set_blocks l (replace_block (bl_blocks l) nb)), nb, (new_region h off (a_size a) s (a_align a)).
    rewrite get_blist_set_alloc, Hlr. split; [eapply get_set_blist_same; eauto|].
    split; [exact Hnbin|]. split; [cbn; auto|]. split; [cbn; rewrite Hl'; apply in_app_iff; right; left; reflexivity|].
    cbn. repeat split; auto.
  - intros a1 H. exfalso. eapply Hnotslot; eauto.
  - intros _ lx G1. rewrite get_blist_set_alloc, Hlr, (get_set_blist_same _ _ _ _ Hg) in G1. injection G1 as <-. exact Hmina.
Qed.

Lemma set_nth_z_same {A} (l : list A) i x : nth_z l i = Some x -> set_nth_z l i x = l.
Proof.
  unfold nth_z, set_nth_z. destruct (i <? 0); [discriminate|]. revert l.
  induction (Z.to_nat i) as [|n IH]; intros [|y l]; cbn; try discriminate.
  - intros H; injection H as ->. reflexivity.
  - intros H. rewrite IH; auto.
Qed.

Lemma set_alloc_same v s a : nth_z (v_tab v) s = Some a -> set_alloc v s a = v.
Proof. intros H. unfold set_alloc, set_tab. rewrite (set_nth_z_same _ _ _ H). destruct v; reflexivity. Qed.

Lemma NoDup_handles_mid (l1 l2 : list region) rg0 rg :
  NoDup (map rg_handle (l1 ++ rg0 :: l2)) -> In rg (l1 ++ l2) -> rg_handle rg <> rg_handle rg0.
Proof.
  rewrite map_app. cbn. intros Hnd Hin Heq. apply NoDup_remove_2 in Hnd. apply Hnd.
  rewrite <- map_app, <- Heq. apply in_map. exact Hin.
Qed.

(* Free: the region of slot s is released; the Allocation object is still marked allocated (dangling) *)
Lemma VamInvU_free_region c v U X lr l b sm' mt' s a l1 rg0 l2 :
  VamInvU c v U X -> slot_is v s a -> ~ In s X -> a_kind a = 1 -> a_lref a = lr ->
  get_blist v lr = Some l -> In b (bl_blocks l) -> bk_id b = a_blk a ->
  MInv mt' -> meta_size mt' = meta_size (bk_meta b) -> meta_g mt' = meta_g (bk_meta b) ->
  meta_live (bk_meta b) = l1 ++ rg0 :: l2 -> rg_handle rg0 = a_handle a ->
  meta_live mt' = l1 ++ l2 ->
  VamInvU c (put_block v lr (mkBlock (bk_id b) (bk_mem b) sm' mt')) U (s :: X).
Proof.
  intros HI Hsl HnX Hk Hlr Hg Hb Hid Hmi Hsz Hgm Hl Hh Hl'.
  set (nb := mkBlock (bk_id b) (bk_mem b) sm' mt').
  rewrite (put_block_eq _ _ _ _ Hg).
  pose proof (vi_lists _ _ _ _ HI _ _ Hg) as Hwf. pose proof (bw_nodup _ _ Hwf) as Hnd.
  assert (Hsh : shape_same b nb) by (unfold shape_same, nb; cbn; auto).
  destruct (replace_shape l b nb Hnd Hb Hsh) as (Hfw & Hbw).
  pose proof (bw_meta _ _ Hwf) as Hmeta. rewrite Forall_forall in Hmeta.
  destruct (meta_live_sound _ (Hmeta _ Hb)) as (_ & Hndh & _). rewrite Hl in Hndh.
  (* the region of slot s is rg0 *)
  assert (Htag0 : rg_tag rg0 = Some s).
  { destruct (vi_slots _ _ _ _ HI s a Hsl HnX) as [(_ & l' & b' & rg & Hg' & Hb' & Hid' & Hrg & Hh' & Htag & _)|(K & _)]; [|congruence].
    rewrite Hlr in Hg'. assert (l' = l) by congruence. subst l'.
    assert (b' = b).
    { pose proof (in_find_block _ _ Hnd Hb') as F'. pose proof (in_find_block _ _ Hnd Hb) as F. rewrite Hid', <- Hid in F'. congruence. }
    subst b'. rewrite Hl in Hrg. apply in_app_iff in Hrg. destruct Hrg as [H|[H|H]]; [| subst; auto |].
    - exfalso. eapply (NoDup_handles_mid l1 l2 rg0 rg); eauto; [apply in_app_iff; auto|congruence].
    - exfalso. eapply (NoDup_handles_mid l1 l2 rg0 rg); eauto; [apply in_app_iff; auto|congruence]. }
  (* no other region of the list carries the tag s *)
  assert (Honly : forall b0 rg, In b0 (bl_blocks l) -> In rg (meta_live (bk_meta b0)) -> rg_tag rg = Some s ->
                                b0 = b /\ rg_handle rg = rg_handle rg0).
  { intros b0 rg Hb0 Hrg Htag. destruct (vi_tags _ _ _ _ HI _ _ _ _ Hg Hb0 Hrg) as (s1 & a1 & T1 & T2 & T3 & T4 & T5 & T6).
    rewrite Htag in T1. injection T1 as <-. assert (a1 = a) by (destruct T2, Hsl; congruence). subst a1.
    split; [|congruence].
    pose proof (in_find_block _ _ Hnd Hb0) as F0. pose proof (in_find_block _ _ Hnd Hb) as F. rewrite <- T5, <- Hid in F0. congruence. }
  assert (E : set_blist v lr (set_blocks l (replace_block (bl_blocks l) nb)) =
              set_alloc (set_blist v lr (set_blocks l (replace_block (bl_blocks l) nb))) s a).
  { symmetry. apply set_alloc_same. rewrite set_blist_tab. destruct Hsl. auto. }
  rewrite E.
  assert (Hnotag : forall b' rg, In b' (replace_block (bl_blocks l) nb) -> In rg (meta_live (bk_meta b')) -> rg_tag rg <> Some s).
  { intros b' rg Hb' Hrg Htag. destruct (in_replace_block _ _ _ Hnd Hb') as [(-> & _)|(Hi & Hne)].
    - cbn in Hrg. rewrite Hl' in Hrg.
      assert (In rg (meta_live (bk_meta b))) by (rewrite Hl; apply in_app_iff; apply in_app_iff in Hrg; destruct Hrg; [left|right; right]; auto).
      destruct (Honly _ _ Hb H Htag) as (_ & Hh'). eapply (NoDup_handles_mid l1 l2 rg0 rg); eauto.
    - destruct (Honly _ _ Hi Hrg Htag) as (-> & _). apply Hne. reflexivity. }
  apply VamInvU_region_update with (X := X) (l0 := l); auto.
  - apply blist_wf_replace; auto; cbn; [|apply in_map; auto].
    rewrite Hgm. pose proof (bw_g _ _ Hwf) as Hbg. rewrite Forall_forall in Hbg. auto.
  - eapply slot_is_range; eauto.
  - rewrite (get_alloc_slot _ _ _ Hsl). intros (_ & K). congruence.
  - intros b0 b' rg Hb0 Hb' Hid' Hrg Htag. cbn in Hb'.
    destruct (in_replace_block _ _ _ Hnd Hb') as [(-> & _)|(Hi & Hne)].
    + assert (b0 = b).
      { pose proof (in_find_block _ _ Hnd Hb0) as F0. pose proof (in_find_block _ _ Hnd Hb) as F. cbn in Hid'. rewrite Hid' in F0. congruence. }
      subst b0. cbn. rewrite Hl'. rewrite Hl in Hrg. apply in_app_iff in Hrg. apply in_app_iff.
      destruct Hrg as [H|[H|H]]; [left; auto| subst; congruence |right; auto].
    + assert (b0 = b').
      { pose proof (in_find_block _ _ Hnd Hb0) as F0. pose proof (in_find_block _ _ Hnd Hi) as F. rewrite Hid' in F0. congruence. }
      subst. auto.
  - intros b' rg Hb' Hrg. left. cbn in Hb'. pose proof (Hnotag _ _ Hb' Hrg) as Hnt.
    destruct (in_replace_block _ _ _ Hnd Hb') as [(-> & _)|(Hi & Hne)].
    + exists b. split; [auto|]. split; [reflexivity|]. split; [|auto]. cbn in Hrg. rewrite Hl' in Hrg. rewrite Hl.
      apply in_app_iff in Hrg. apply in_app_iff. destruct Hrg; [left|right; right]; auto.
    + exists b'. auto.
  - intros _ Hn. exfalso. apply Hn. left. reflexivity.
  - intros s1 [<-|H]; auto.
  - intros _. destruct Hsl. auto.
  - intros s1 _ H. right. auto.
  - intros a1 H _. assert (a1 = a) by (destruct H, Hsl; congruence). subst. auto.
  - intros _. eapply vi_align; eauto.
  - intros _ lx G1. rewrite get_blist_set_alloc, Hlr in G1.
    destruct (get_set_blist_cases v lr l (set_blocks l (replace_block (bl_blocks l) nb)) _ _ Hg G1) as [(_ & ->)|(_ & G2)].
    + cbn. eapply (vi_minalign _ _ _ _ HI s a l); eauto. rewrite Hlr; auto.
    + eapply (vi_minalign _ _ _ _ HI s a lx); eauto. rewrite Hlr; auto.
Qed.

(* the dangling Allocation object is finally marked unallocated *)
Lemma VamInvU_unalloc_dang c v U X X' s :
  VamInvU c v U X' -> In s X' ->
  (forall s1, In s1 X -> In s1 X' /\ s1 <> s) -> (forall s1, In s1 X' -> s1 = s \/ In s1 X) ->
  VamInvU c (set_alloc v s (set_allocated (get_alloc v s) false)) U X.
Proof.
  intros HI Hin HX1 HX2. inv_fields HI.
  destruct (I_dg _ Hin) as (a & Hsl & Hk).
  rewrite (get_alloc_slot _ _ _ Hsl).
  pose proof (slot_is_range _ _ _ Hsl) as Hr.
  assert (Hoth : forall s1 a1, s1 <> s -> (slot_is (set_alloc v s (set_allocated a false)) s1 a1 <-> slot_is v s1 a1))
    by (intros; apply slot_is_set_alloc_other; auto).
  assert (Hnone : forall a1, ~ slot_is (set_alloc v s (set_allocated a false)) s a1).
  { intros a1 H. apply slot_is_set_alloc_same in H; auto. destruct H as (_ & H). cbn in H. discriminate. }
  assert (Hfw : forall s1 a1, slot_is (set_alloc v s (set_allocated a false)) s1 a1 -> slot_is v s1 a1 /\ s1 <> s).
  { intros s1 a1 H. destruct (Z.eq_dec s1 s) as [->|Hne]; [exfalso; eapply Hnone; eauto|]. split; [apply Hoth; auto|auto]. }
  assert (Hded : forall s1 a1, a_kind a1 = 2 -> slot_is v s1 a1 -> slot_is (set_alloc v s (set_allocated a false)) s1 a1).
  { intros s1 a1 K H. apply Hoth; auto. intros ->. assert (a1 = a) by (destruct H, Hsl; congruence). subst. congruence. }
  clear HI.
  constructor; cbn [set_alloc set_tab v_lists v_ded v_pools v_next_uid v_next_pool_id v_m];
    try setoid_rewrite get_blist_set_alloc; try setoid_rewrite get_dedlist_set_alloc; auto.
  - intros s1 a1 lr l b H1. apply Hfw in H1. destruct H1. eauto.
  - intros s1 a1 s2 a2 H1 K1 H2 K2. apply Hfw in H1. apply Hfw in H2. destruct H1, H2. eauto.
  - intros d Hd. destruct (I_do d Hd) as [?|(s1 & a1 & H1 & K & R)]; [left; auto|].
    right. exists s1, a1. split; [apply Hded; auto|auto].
  - intros s1 a1 H1 HX. apply Hfw in H1. destruct H1 as (H1 & Hne).
    assert (HnX' : ~ In s1 X') by (intros Hi; destruct (HX2 _ Hi); auto).
    destruct (I_sl s1 a1 H1 HnX') as [(K & l & b & rg & R)|(K & R)].
    + left. split; [auto|]. exists l, b, rg. rewrite get_blist_set_alloc. exact R.
    + right. split; [auto|]. destruct R as (R1 & R2 & R3). split; [|split].
      * rewrite get_dedlist_set_alloc. auto.
      * destruct R2 as (l & R2). exists l. rewrite get_blist_set_alloc. auto.
      * exact R3.
  - intros lr l b rg Hg Hb Hrg. destruct (I_tg _ _ _ _ Hg Hb Hrg) as (s1 & a1 & R1 & R2 & R3).
    exists s1, a1. split; [auto|]. split; [|auto]. apply Hoth; auto. intros ->.
    eapply (I_dt2 s); eauto.
  - intros lr s1 H1. destruct (I_dd _ _ H1) as (a1 & R1 & R2 & R3). exists a1. split; [apply Hded; auto|auto].
  - intros s1 H1. destruct (I_ur _ H1) as (a1 & R1 & R2 & R3). exists a1. split; [apply Hded; auto|]. split; auto.
  - intros s1 H1. destruct (HX1 _ H1) as (Hi & Hne). destruct (I_dg _ Hi) as (a1 & R1 & R2). exists a1.
    split; [apply Hoth; auto|auto].
  - intros s1 lr l b rg H1. destruct (HX1 _ H1) as (Hi & Hne). eapply I_dt2; eauto.
  - intros s1 a1 H1 K1. apply Hfw in H1. destruct H1. eauto.
  - intros s1 a1 l1 H1 HnX K1 G1. apply Hfw in H1. destruct H1 as (H1 & Hne1). eapply I_ma; eauto. intros Hi. destruct (HX2 _ Hi); auto.
Qed.

(* ---------------------------------------------------------------- memory objects come and go *)

Lemma find_mem_app ms d id :
  find_mem (ms ++ [d]) id = match find_mem ms id with Some x => Some x | None => if dm_id d =? id then Some d else None end.
Proof.
  induction ms as [|x ms IH]; cbn; [reflexivity|]. destruct (dm_id x =? id); [reflexivity|exact IH].
Qed.

Lemma find_mem_in ms id d : find_mem ms id = Some d -> In d ms /\ dm_id d = id.
Proof.
  induction ms as [|x ms IH]; cbn; [discriminate|]. destruct (dm_id x =? id) eqn:E.
  - intros H; injection H as <-. split; [left; reflexivity|lia].
  - intros H. destruct (IH H). auto.
Qed.

Lemma in_find_mem ms d : NoDup (map dm_id ms) -> In d ms -> find_mem ms (dm_id d) = Some d.
Proof.
  induction ms as [|x ms IH]; cbn; [tauto|]. intros Hnd [->|Hin].
  - rewrite Z.eqb_refl. reflexivity.
  - inversion Hnd as [|? ? Hx Hr]; subst. destruct (dm_id x =? dm_id d) eqn:E.
    + exfalso. apply Hx. apply Z.eqb_eq in E. rewrite E. apply in_map. exact Hin.
    + apply IH; auto.
Qed.

Lemma find_remove_mem_other ms id id' : id' <> id -> find_mem (remove_mem ms id) id' = find_mem ms id'.
Proof.
  intros Hne. induction ms as [|x ms IH]; cbn; [reflexivity|]. destruct (dm_id x =? id) eqn:E; cbn.
  - apply Z.eqb_eq in E. destruct (dm_id x =? id') eqn:E'; [lia|reflexivity].
  - destruct (dm_id x =? id'); [reflexivity|exact IH].
Qed.

Lemma in_remove_mem ms id d : In d (remove_mem ms id) -> In d ms.
Proof.
  induction ms as [|x ms IH]; cbn; [tauto|]. destruct (dm_id x =? id); [intros H; right; exact H|].
  intros [->|H]; [left; reflexivity|right; apply IH; exact H].
Qed.

Lemma in_remove_mem_ne ms id d : NoDup (map dm_id ms) -> In d (remove_mem ms id) -> dm_id d <> id.
Proof.
  induction ms as [|x ms IH]; cbn; [tauto|]. intros Hnd. inversion Hnd as [|? ? Hx Hr]; subst.
  destruct (dm_id x =? id) eqn:E.
  - apply Z.eqb_eq in E. intros Hin Heq. apply Hx. rewrite E, <- Heq. apply in_map. exact Hin.
  - apply Z.eqb_neq in E. intros [<-|H]; [exact E|apply IH; auto].
Qed.

Lemma remove_mem_nodup ms id : NoDup (map dm_id ms) -> NoDup (map dm_id (remove_mem ms id)).
Proof.
  induction ms as [|x ms IH]; cbn; [auto|]. intros Hnd. inversion Hnd as [|? ? Hx Hr]; subst.
  destruct (dm_id x =? id); [exact Hr|]. cbn. constructor; [|apply IH; exact Hr].
  intros Hin. apply Hx. apply in_map_iff in Hin. destruct Hin as (y & Hy & Hiy).
  rewrite <- Hy. apply in_map. eapply in_remove_mem; eauto.
Qed.

Lemma set_blist_set_m v m lr l : set_blist (set_m v m) lr l = set_m (set_blist v lr l) m.
Proof. destruct lr; cbn; [reflexivity|]. destruct (find_pool _ _); reflexivity. Qed.

(* a new block with a new memory object is appended to list lr *)
Lemma VamInvU_add_block c v U X lr l m1 d b :
  VamInvU c v U X -> get_blist v lr = Some l ->
  m_mems m1 = m_mems (v_m v) ++ [d] -> dm_id d = m_next (v_m v) + 1 -> m_next m1 = dm_id d ->
  dm_type d = bl_type l -> bk_id b = bl_next l -> bk_mem b = dm_id d ->
  MInv (bk_meta b) -> meta_live (bk_meta b) = [] -> meta_size (bk_meta b) = dm_size d -> 0 < dm_size d ->
  meta_g (bk_meta b) = bl_gran l ->
  VamInvU c (set_blist (set_m v m1) lr (set_blocks_next l (bl_blocks l ++ [b]) (bl_next l + 1))) U X.
Proof.
  intros HI H0 Hmems Hid Hnext Hty Hbid Hbmem Hmi Hlive Hsz Hpos Hbg. inv_fields HI.
  set (l' := set_blocks_next l (bl_blocks l ++ [b]) (bl_next l + 1)).
  rewrite set_blist_set_m. set (v1 := set_blist v lr l').
  assert (Hcases := get_set_blist_cases v lr l l').
  pose proof (I_wf _ _ H0) as [W1 W2 W3 W4 W5 W6 W7 W8].
  assert (Hfresh : forall x, In x (m_mems (v_m v)) -> dm_id x <> dm_id d).
  { intros x Hx. rewrite Forall_forall in I_dx. specialize (I_dx x Hx). lia. }
  assert (Hfind : forall id x, find_mem (m_mems (v_m v)) id = Some x -> find_mem (m_mems m1) id = Some x).
  { intros id x H. rewrite Hmems, find_mem_app, H. reflexivity. }
  assert (Hbfresh : forall lr1 l1 b1, get_blist v lr1 = Some l1 -> In b1 (bl_blocks l1) -> bk_mem b1 <> dm_id d).
  { intros lr1 l1 b1 Hg Hb1 E. destruct (I_bm _ _ _ Hg Hb1) as (x & Hf & _). destruct (find_mem_in _ _ _ Hf) as (Hx & Hxi).
    apply (Hfresh x Hx). congruence. }
  assert (Hg1 : forall lr1, get_blist (set_m v1 m1) lr1 = get_blist v1 lr1) by (intros; apply get_blist_set_m).
  assert (Hsl1 : forall s a, slot_is (set_m v1 m1) s a <-> slot_is v s a).
  { intros. rewrite slot_is_set_m. apply slot_is_set_blist. }
  assert (Hd1 : forall lr1, get_dedlist (set_m v1 m1) lr1 = get_dedlist v lr1).
  { intros. rewrite get_dedlist_set_m. apply set_blist_dedlist. }
  assert (Hinl' : forall b1, In b1 (bl_blocks l') <-> In b1 (bl_blocks l) \/ b1 = b).
  { intros. unfold l'. cbn. rewrite in_app_iff. cbn. split; [intros [H|[H|[]]]; auto|intros [H| ->]; auto]. }
  constructor.
  - cbn. unfold v1. rewrite set_blist_lists_len. auto.
  - cbn. unfold v1. rewrite set_blist_ded. auto.
  - intros t l1 H. rewrite Hg1 in H. destruct (Hcases _ _ H0 H) as [(E & ->)|(Hne & Hg)]; [subst lr; cbn; eauto|eauto].
  - intros lr1 l1 H. rewrite Hg1 in H. destruct (Hcases _ _ H0 H) as [(-> & ->)|(Hne & Hg)]; [|eauto].
    constructor; cbn; auto; try lia.
    + rewrite map_app. cbn. apply NoDup_app_intro_z; auto.
      * constructor; [tauto|constructor].
      * intros x Hx [E|[]]. apply in_map_iff in Hx. destruct Hx as (y & Hy & Hiy). rewrite Forall_forall in W2.
        specialize (W2 y Hiy). lia.
    + apply Forall_app. split; [eapply Forall_impl; [|exact W2]; cbn; intros; lia|]. constructor; [lia|constructor].
    + apply Forall_app. split; [auto|]. constructor; auto.
    + apply Forall_app. split; [auto|]. constructor; auto.
  - cbn. unfold v1. rewrite set_blist_uids. auto.
  - cbn. unfold v1. rewrite set_blist_next_uid. eapply Forall_map_eq with (f := p_uid) (P := fun u => u < v_next_uid v);
      [symmetry; apply set_blist_uids|reflexivity|exact I_pu].
  - cbn. unfold v1. rewrite set_blist_pids, set_blist_next_pid. destruct I_pi as (Hn & Hf). split; [auto|].
    eapply Forall_map_eq with (f := p_id) (P := fun u => u < v_next_pool_id v);
      [symmetry; apply set_blist_pids|reflexivity|exact Hf].
  - cbn. rewrite Hmems, map_app. cbn. apply NoDup_app_intro_z; auto.
    + constructor; [tauto|constructor].
    + intros x Hx [E|[]]. apply in_map_iff in Hx. destruct Hx as (y & Hy & Hiy). apply (Hfresh y Hiy). congruence.
  - cbn. rewrite Hmems, Hnext. apply Forall_app. split.
    + eapply Forall_impl; [|exact I_dx]. cbn. intros; lia.
    + constructor; [|constructor]. lia.
  - cbn [set_m v_m]. intros lr1 l1 b1 Hg Hb. rewrite Hg1 in Hg. destruct (Hcases _ _ H0 Hg) as [(-> & ->)|(Hne & Hgo)].
    + apply Hinl' in Hb. destruct Hb as [Hb| ->].
      * destruct (I_bm _ _ _ H0 Hb) as (x & Hf & R). exists x. split; [apply Hfind; auto|exact R].
      * exists d. split; [|cbn; split; congruence]. rewrite Hmems, find_mem_app, Hbmem.
        destruct (find_mem (m_mems (v_m v)) (dm_id d)) as [x|] eqn:E.
        -- destruct (find_mem_in _ _ _ E) as (Hx & Hxi). exfalso. apply (Hfresh x Hx). auto.
        -- rewrite Z.eqb_refl. reflexivity.
    + destruct (I_bm _ _ _ Hgo Hb) as (x & Hf & R). exists x. split; [apply Hfind; auto|exact R].
  - intros lr1 l1 b1 lr2 l2 b2 G1 B1 G2 B2 Hm. rewrite Hg1 in G1, G2.
    destruct (Hcases _ _ H0 G1) as [(-> & ->)|(Hne1 & Go1)]; destruct (Hcases _ _ H0 G2) as [(-> & ->)|(Hne2 & Go2)].
    + apply Hinl' in B1. apply Hinl' in B2. destruct B1 as [B1| ->]; destruct B2 as [B2| ->].
      * eapply I_bi; eauto.
      * exfalso. eapply Hbfresh; [exact H0|exact B1|congruence].
      * exfalso. eapply Hbfresh; [exact H0|exact B2|congruence].
      * auto.
    + apply Hinl' in B1. destruct B1 as [B1| ->]; [eapply I_bi; eauto|].
      exfalso. eapply Hbfresh; [exact Go2|exact B2|congruence].
    + apply Hinl' in B2. destruct B2 as [B2| ->]; [eapply I_bi; eauto|].
      exfalso. eapply Hbfresh; [exact Go1|exact B1|congruence].
    + eapply I_bi; eauto.
  - intros s a lr1 l1 b1 Hs Hk Hg Hb. apply Hsl1 in Hs. rewrite Hg1 in Hg.
    assert (Hdedfresh : a_mem a <> dm_id d).
    { intros E. assert (HnX : ~ In s X) by (intros Hi; destruct (I_dg _ Hi) as (a2 & S2 & K2); destruct S2, Hs; congruence).
      destruct (I_sl s a Hs HnX) as [(K & _)|(_ & _ & _ & x & Hf & _)]; [congruence|].
      destruct (find_mem_in _ _ _ Hf) as (Hx & Hxi). apply (Hfresh x Hx). congruence. }
    destruct (Hcases _ _ H0 Hg) as [(-> & ->)|(Hne & Hgo)].
    + apply Hinl' in Hb. destruct Hb as [Hb| ->]; [eauto|congruence].
    + eauto.
  - intros s1 a1 s2 a2 S1 K1 S2 K2. apply Hsl1 in S1. apply Hsl1 in S2. eauto.
  - cbn [set_m v_m]. intros x Hx. rewrite Hmems in Hx. apply in_app_iff in Hx. destruct Hx as [Hx|[<-|[]]].
    + destruct (I_do x Hx) as [(lr1 & l1 & b1 & Hg & Hb & Hm)|(s & a & Hs & R)].
      * left. destruct (lref_eq_dec lr1 lr) as [->|Hne].
        -- assert (l1 = l) by congruence. subst l1. exists lr, l', b1. rewrite Hg1. unfold v1.
           split; [eapply get_set_blist_same; eauto|]. split; [apply Hinl'; auto|auto].
        -- exists lr1, l1, b1. rewrite Hg1. unfold v1. rewrite get_set_blist_other by congruence. auto.
      * right. exists s, a. split; [apply Hsl1; auto|auto].
    + left. exists lr, l', b. rewrite Hg1. unfold v1. split; [eapply get_set_blist_same; eauto|]. split; [apply Hinl'; auto|auto].
  - intros s a Hs HX. apply Hsl1 in Hs. destruct (I_sl s a Hs HX) as [(K & l1 & b1 & rg & Hg & Hb & R)|(K & R1 & R2 & R3)].
    + left. split; [auto|]. destruct (lref_eq_dec (a_lref a) lr) as [E|Hne].
      * rewrite E in Hg. assert (l1 = l) by congruence. subst l1. exists l', b1, rg. rewrite Hg1, E. unfold v1.
        split; [eapply get_set_blist_same; eauto|]. split; [apply Hinl'; auto|]. exact R.
      * exists l1, b1, rg. rewrite Hg1. unfold v1. rewrite get_set_blist_other by congruence. auto.
    + right. split; [auto|]. split; [rewrite Hd1; auto|]. split.
      * destruct R2 as (l1 & Hg & Ht). destruct (lref_eq_dec (a_lref a) lr) as [E|Hne].
        -- exists l'. rewrite Hg1, E. unfold v1. split; [eapply get_set_blist_same; eauto|]. rewrite E in Hg. cbn. congruence.
        -- exists l1. rewrite Hg1. unfold v1. rewrite get_set_blist_other by congruence. auto.
      * destruct R3 as (x & Hf & R). exists x. split; [apply Hfind; auto|exact R].
  - intros lr1 l1 b1 rg Hg Hb Hrg. rewrite Hg1 in Hg.
    assert (Hres : forall lr2 l2, get_blist v lr2 = Some l2 -> In b1 (bl_blocks l2) ->
              exists s a, rg_tag rg = Some s /\ slot_is (set_m v1 m1) s a /\ a_kind a = 1 /\ a_lref a = lr2 /\
                          a_blk a = bk_id b1 /\ a_handle a = rg_handle rg).
    { intros lr2 l2 G B. destruct (I_tg _ _ _ _ G B Hrg) as (s & a & T1 & T2 & T3). exists s, a.
      split; [auto|]. split; [apply Hsl1; auto|auto]. }
    destruct (Hcases _ _ H0 Hg) as [(-> & ->)|(Hne & Hgo)].
    + apply Hinl' in Hb. destruct Hb as [Hb| ->]; [eauto|]. rewrite Hlive in Hrg. destruct Hrg.
    + eauto.
  - intros lr1 s Hin. rewrite Hd1 in Hin. destruct (I_dd _ _ Hin) as (a & R1 & R). exists a. split; [apply Hsl1; auto|auto].
  - intros lr1. rewrite Hd1. auto.
  - intros s Hin. destruct (I_ur _ Hin) as (a & R1 & R2 & R3). exists a. split; [apply Hsl1; auto|]. split; [auto|].
    rewrite Hd1. auto.
  - intros s Hin. destruct (I_dg _ Hin) as (a & R1 & R). exists a. split; [apply Hsl1; auto|auto].
  - intros s lr1 l1 b1 rg Hin Hg Hb Hrg. rewrite Hg1 in Hg. destruct (Hcases _ _ H0 Hg) as [(-> & ->)|(Hne & Hgo)].
    + apply Hinl' in Hb. destruct Hb as [Hb| ->]; [eapply I_dt2; eauto|]. rewrite Hlive in Hrg. destruct Hrg.
    + eapply I_dt2; eauto.
  - cbn. rewrite Hnext, Hid. lia.
  - cbn. rewrite Hmems. apply Forall_app. split; [auto|]. constructor; [|constructor].
    exact Hpos.
  - intros s a H K. apply Hsl1 in H. eauto.
  - intros s a l1 H HnX K G. apply Hsl1 in H. rewrite Hg1 in G.
    destruct (Hcases _ _ H0 G) as [(E & ->)|(Hne & Hgo)]; [cbn; apply (I_ma s a l H HnX K); rewrite E; exact H0|eauto].
Qed.

(* an empty block leaves list lr and its memory object is freed *)
Lemma VamInvU_remove_block c v U X lr l b m1 :
  VamInvU c v U X -> get_blist v lr = Some l -> In b (bl_blocks l) -> meta_live (bk_meta b) = [] ->
  m_mems m1 = remove_mem (m_mems (v_m v)) (bk_mem b) -> m_next m1 = m_next (v_m v) ->
  VamInvU c (set_m (set_blist v lr (set_blocks l (remove_block (bl_blocks l) (bk_id b)))) m1) U X.
Proof.
  intros HI H0 Hb Hlive Hmems Hnext. inv_fields HI.
  set (l' := set_blocks l (remove_block (bl_blocks l) (bk_id b))). set (v1 := set_blist v lr l').
  assert (Hcases := get_set_blist_cases v lr l l').
  pose proof (I_wf _ _ H0) as [W1 W2 W3 W4 W5 W6 W7 W8].
  assert (Hg1 : forall lr1, get_blist (set_m v1 m1) lr1 = get_blist v1 lr1) by (intros; apply get_blist_set_m).
  assert (Hsl1 : forall s a, slot_is (set_m v1 m1) s a <-> slot_is v s a).
  { intros. rewrite slot_is_set_m. apply slot_is_set_blist. }
  assert (Hd1 : forall lr1, get_dedlist (set_m v1 m1) lr1 = get_dedlist v lr1).
  { intros. rewrite get_dedlist_set_m. apply set_blist_dedlist. }
  assert (Hinl' : forall b1, In b1 (bl_blocks l') <-> In b1 (bl_blocks l) /\ bk_id b1 <> bk_id b).
  { intros. unfold l'. cbn. split.
    - intros H. split; [eapply in_remove_block; eauto|eapply in_remove_block_ne; eauto].
    - intros (H1 & H2). apply remove_block_keeps; auto. }
  (* blocks of the new state are blocks of the old state other than b *)
  assert (Hold : forall lr1 l1 b1, get_blist v1 lr1 = Some l1 -> In b1 (bl_blocks l1) ->
            exists l2, get_blist v lr1 = Some l2 /\ In b1 (bl_blocks l2) /\ bl_type l2 = bl_type l1 /\ bk_mem b1 <> bk_mem b).
  { intros lr1 l1 b1 Hg Hb1. destruct (Hcases _ _ H0 Hg) as [(-> & ->)|(Hne & Hgo)].
    - apply Hinl' in Hb1. destruct Hb1 as (Hb1 & Hne). exists l. split; [auto|]. split; [auto|]. split; [reflexivity|].
      intros E. destruct (I_bi _ _ _ _ _ _ H0 Hb1 H0 Hb E). congruence.
    - exists l1. split; [auto|]. split; [auto|]. split; [auto|]. intros E.
      destruct (I_bi _ _ _ _ _ _ Hgo Hb1 H0 Hb E). congruence. }
  assert (Hfind : forall id x, id <> bk_mem b -> find_mem (m_mems (v_m v)) id = Some x -> find_mem (m_mems m1) id = Some x).
  { intros id x Hne H. rewrite Hmems, find_remove_mem_other; auto. }
  constructor.
  - cbn. unfold v1. rewrite set_blist_lists_len. auto.
  - cbn. unfold v1. rewrite set_blist_ded. auto.
  - intros t l1 H. rewrite Hg1 in H. destruct (Hcases _ _ H0 H) as [(E & ->)|(Hne & Hg)]; [subst lr; cbn; eauto|eauto].
  - intros lr1 l1 H. rewrite Hg1 in H. destruct (Hcases _ _ H0 H) as [(-> & ->)|(Hne & Hg)]; [|eauto].
    constructor; cbn; auto.
    + apply remove_block_nodup. auto.
    + apply Forall_forall. intros x Hx. rewrite Forall_forall in W2. apply W2. eapply in_remove_block; eauto.
    + apply Forall_forall. intros x Hx. rewrite Forall_forall in W3. apply W3. eapply in_remove_block; eauto.
    + apply Forall_forall. intros x Hx. rewrite Forall_forall in W8. apply W8. eapply in_remove_block; eauto.
  - cbn. unfold v1. rewrite set_blist_uids. auto.
  - cbn. unfold v1. rewrite set_blist_next_uid. eapply Forall_map_eq with (f := p_uid) (P := fun u => u < v_next_uid v);
      [symmetry; apply set_blist_uids|reflexivity|exact I_pu].
  - cbn. unfold v1. rewrite set_blist_pids, set_blist_next_pid. destruct I_pi as (Hn & Hf). split; [auto|].
    eapply Forall_map_eq with (f := p_id) (P := fun u => u < v_next_pool_id v);
      [symmetry; apply set_blist_pids|reflexivity|exact Hf].
  - cbn. rewrite Hmems. apply remove_mem_nodup. auto.
  - cbn. rewrite Hmems, Hnext. apply Forall_forall. intros x Hx. rewrite Forall_forall in I_dx. apply I_dx.
    eapply in_remove_mem; eauto.
  - cbn [set_m v_m]. intros lr1 l1 b1 Hg Hb1. rewrite Hg1 in Hg. destruct (Hold _ _ _ Hg Hb1) as (l2 & G2 & B2 & T2 & Hne).
    destruct (I_bm _ _ _ G2 B2) as (x & Hf & R1 & R2). exists x. split; [apply Hfind; auto|]. split; congruence.
  - intros lr1 l1 b1 lr2 l2 b2 G1 B1 G2 B2 Hm. rewrite Hg1 in G1, G2.
    destruct (Hold _ _ _ G1 B1) as (k1 & K1 & C1 & _). destruct (Hold _ _ _ G2 B2) as (k2 & K2 & C2 & _).
    eapply I_bi; eauto.
  - intros s a lr1 l1 b1 Hs Hk Hg Hb1. apply Hsl1 in Hs. rewrite Hg1 in Hg.
    destruct (Hold _ _ _ Hg Hb1) as (k1 & K1 & C1 & _). eauto.
  - intros s1 a1 s2 a2 S1 K1 S2 K2. apply Hsl1 in S1. apply Hsl1 in S2. eauto.
  - cbn [set_m v_m]. intros x Hx. rewrite Hmems in Hx. pose proof (in_remove_mem_ne _ _ _ I_dn Hx) as Hne.
    apply in_remove_mem in Hx. destruct (I_do x Hx) as [(lr1 & l1 & b1 & Hg & Hb1 & Hm)|(s & a & Hs & R)].
    + left. destruct (lref_eq_dec lr1 lr) as [->|Hnl].
      * assert (l1 = l) by congruence. subst l1. exists lr, l', b1. rewrite Hg1. unfold v1.
        split; [eapply get_set_blist_same; eauto|]. split; [|auto]. apply Hinl'. split; [auto|]. intros E.
        assert (b1 = b).
        { pose proof (in_find_block _ _ W1 Hb1) as F1. pose proof (in_find_block _ _ W1 Hb) as F. rewrite E in F1. congruence. }
        subst. congruence.
      * exists lr1, l1, b1. rewrite Hg1. unfold v1. rewrite get_set_blist_other by congruence. auto.
    + right. exists s, a. split; [apply Hsl1; auto|auto].
  - intros s a Hs HX. apply Hsl1 in Hs. destruct (I_sl s a Hs HX) as [(K & l1 & b1 & rg & Hg & Hb1 & Hid & Hrg & R)|(K & R1 & R2 & R3)].
    + left. split; [auto|]. destruct (lref_eq_dec (a_lref a) lr) as [E|Hne].
      * rewrite E in Hg. assert (l1 = l) by congruence. subst l1. exists l', b1, rg. rewrite Hg1, E. unfold v1.
        split; [eapply get_set_blist_same; eauto|]. split; [|auto]. apply Hinl'. split; [auto|]. intros Eb.
        assert (b1 = b).
        { pose proof (in_find_block _ _ W1 Hb1) as F1. pose proof (in_find_block _ _ W1 Hb) as F. rewrite Eb in F1. congruence. }
        subst. rewrite Hlive in Hrg. destruct Hrg.
      * exists l1, b1, rg. rewrite Hg1. unfold v1. rewrite get_set_blist_other by congruence. auto.
    + right. split; [auto|]. split; [rewrite Hd1; auto|]. split.
      * destruct R2 as (l1 & Hg & Ht). destruct (lref_eq_dec (a_lref a) lr) as [E|Hne].
        -- exists l'. rewrite Hg1, E. unfold v1. split; [eapply get_set_blist_same; eauto|]. rewrite E in Hg. cbn. congruence.
        -- exists l1. rewrite Hg1. unfold v1. rewrite get_set_blist_other by congruence. auto.
      * destruct R3 as (x & Hf & R). exists x. split; [|exact R]. apply Hfind; auto. eapply I_db; eauto.
  - intros lr1 l1 b1 rg Hg Hb1 Hrg. rewrite Hg1 in Hg. destruct (Hold _ _ _ Hg Hb1) as (k1 & K1 & C1 & _).
    destruct (I_tg _ _ _ _ K1 C1 Hrg) as (s & a & T1 & T2 & T3). exists s, a. split; [auto|]. split; [apply Hsl1; auto|auto].
  - intros lr1 s Hin. rewrite Hd1 in Hin. destruct (I_dd _ _ Hin) as (a & R1 & R). exists a. split; [apply Hsl1; auto|auto].
  - intros lr1. rewrite Hd1. auto.
  - intros s Hin. destruct (I_ur _ Hin) as (a & R1 & R2 & R3). exists a. split; [apply Hsl1; auto|]. split; [auto|].
    rewrite Hd1. auto.
  - intros s Hin. destruct (I_dg _ Hin) as (a & R1 & R). exists a. split; [apply Hsl1; auto|auto].
  - intros s lr1 l1 b1 rg Hin Hg Hb1 Hrg. rewrite Hg1 in Hg. destruct (Hold _ _ _ Hg Hb1) as (k1 & K1 & C1 & _).
    eapply I_dt2; eauto.
  - cbn. lia.
  - cbn. rewrite Hmems. apply Forall_forall. intros x Hx. rewrite Forall_forall in I_dp. apply I_dp. eapply in_remove_mem; eauto.
  - intros s a H K. apply Hsl1 in H. eauto.
  - intros s a l1 H HnX K G. apply Hsl1 in H. rewrite Hg1 in G.
    destruct (Hcases _ _ H0 G) as [(E & ->)|(Hne & Hgo)]; [cbn; apply (I_ma s a l H HnX K); rewrite E; exact H0|eauto].
Qed.

(* ---------------------------------------------------------------- dedicated allocations *)

(* a new memory object owned by slot s, not yet registered in a dedicated list *)
Lemma VamInvU_add_ded c v U X s a m1 d l :
  VamInvU c v U X -> 0 <= s < zlen (v_tab v) -> a_allocated (get_alloc v s) = false ->
  mems_same (m_mems (v_m v) ++ [d]) (m_mems m1) -> dm_id d = m_next (v_m v) + 1 -> m_next m1 = dm_id d ->
  a_allocated a = true -> a_kind a = 2 -> a_mem a = dm_id d -> a_type a = dm_type d -> a_size a = dm_size d ->
  get_blist v (a_lref a) = Some l -> bl_type l = a_type a -> 0 < dm_size d ->
  VamInvU c (set_alloc (set_m v m1) s a) (s :: U) X.
Proof.
  intros HI Hs Hdead Hmems Hid Hnext Ha Hk Hmem Hty Hsz Hg Hlt Hpos. inv_fields HI.
  set (v' := set_alloc (set_m v m1) s a).
  assert (Hnotslot : forall a1, ~ slot_is v s a1).
  { intros a1 H. rewrite (get_alloc_slot _ _ _ H) in Hdead. destruct H. congruence. }
  assert (Hoth : forall s1 a1, s1 <> s -> (slot_is v' s1 a1 <-> slot_is v s1 a1)).
  { intros s1 a1 Hne. unfold v'. rewrite slot_is_set_alloc_other by auto. apply slot_is_set_m. }
  assert (Hsame : forall a1, slot_is v' s a1 <-> a1 = a).
  { intros a1. unfold v'. rewrite slot_is_set_alloc_same by (cbn; auto). tauto. }
  assert (Hold : forall s1 a1, slot_is v s1 a1 -> slot_is v' s1 a1).
  { intros s1 a1 H. apply Hoth; auto. intros ->. eapply Hnotslot; eauto. }
  assert (Hcase : forall s1 a1, slot_is v' s1 a1 -> (s1 = s /\ a1 = a) \/ (s1 <> s /\ slot_is v s1 a1)).
  { intros s1 a1 H. destruct (Z.eq_dec s1 s) as [->|Hne]; [left; split; [auto|apply Hsame; auto]|right; split; [auto|apply Hoth; auto]]. }
  assert (Hg' : forall lr, get_blist v' lr = get_blist v lr).
  { intros. unfold v'. rewrite get_blist_set_alloc. apply get_blist_set_m. }
  assert (Hd' : forall lr, get_dedlist v' lr = get_dedlist v lr).
  { intros. unfold v'. rewrite get_dedlist_set_alloc. apply get_dedlist_set_m. }
  assert (Hfresh : forall x, In x (m_mems (v_m v)) -> dm_id x <> dm_id d).
  { intros x Hx. rewrite Forall_forall in I_dx. specialize (I_dx x Hx). lia. }
  assert (Hfind : forall id x, find_mem (m_mems (v_m v)) id = Some x ->
            exists x', find_mem (m_mems m1) id = Some x' /\ mem_key x' = mem_key x).
  { intros id x H. eapply mems_same_find; eauto. rewrite find_mem_app, H. reflexivity. }
  assert (Hfindd : exists x', find_mem (m_mems m1) (dm_id d) = Some x' /\ mem_key x' = mem_key d).
  { eapply mems_same_find; eauto. rewrite find_mem_app. destruct (find_mem (m_mems (v_m v)) (dm_id d)) as [x|] eqn:E.
    - destruct (find_mem_in _ _ _ E) as (Hx & Hxi). exfalso. apply (Hfresh x Hx). auto.
    - rewrite Z.eqb_refl. reflexivity. }
  assert (Hbfresh : forall lr1 l1 b1, get_blist v lr1 = Some l1 -> In b1 (bl_blocks l1) -> bk_mem b1 <> dm_id d).
  { intros lr1 l1 b1 G B E. destruct (I_bm _ _ _ G B) as (x & Hf & _). destruct (find_mem_in _ _ _ Hf) as (Hx & Hxi).
    apply (Hfresh x Hx). congruence. }
  assert (Hdfresh : forall s1 a1, slot_is v s1 a1 -> a_kind a1 = 2 -> a_mem a1 <> dm_id d).
  { intros s1 a1 S K E. assert (HnX : ~ In s1 X) by (intros Hi; destruct (I_dg _ Hi) as (a2 & S2 & K2); destruct S2, S; congruence).
    destruct (I_sl s1 a1 S HnX) as [(K' & _)|(_ & _ & _ & x & Hf & _)]; [congruence|].
    destruct (find_mem_in _ _ _ Hf) as (Hx & Hxi). apply (Hfresh x Hx). congruence. }
  constructor.
  - unfold v'; cbn; auto.
  - unfold v'; cbn; auto.
  - intros t l1. rewrite Hg'. eauto.
  - intros lr l1. rewrite Hg'. eauto.
  - unfold v'; cbn; auto.
  - unfold v'; cbn; auto.
  - unfold v'; cbn; auto.
  - unfold v'. cbn. rewrite <- (mems_same_ids _ _ Hmems), map_app. cbn. apply NoDup_app_intro_z; auto.
    + constructor; [tauto|constructor].
    + intros x Hx [E|[]]. apply in_map_iff in Hx. destruct Hx as (y & Hy & Hiy). apply (Hfresh y Hiy). congruence.
  - unfold v'. cbn. apply Forall_forall. intros x' Hx'. destruct (mems_same_in _ _ _ Hmems Hx') as (x & Hx & Hkx).
    assert (E : dm_id x' = dm_id x) by (unfold mem_key in Hkx; congruence). rewrite E, Hnext.
    apply in_app_iff in Hx. destruct Hx as [Hx|[<-|[]]]; [|lia]. rewrite Forall_forall in I_dx. specialize (I_dx x Hx). lia.
  - unfold v' at 2. cbn [set_alloc set_tab set_m v_m]. intros lr l1 b1. rewrite Hg'. intros G B.
    destruct (I_bm _ _ _ G B) as (x & Hf & R1 & R2). destruct (Hfind _ _ Hf) as (x' & Hf' & Hkx). exists x'. unfold mem_key in Hkx.
    split; [auto|]. split; congruence.
  - intros lr1 l1 b1 lr2 l2 b2. rewrite !Hg'. apply I_bi.
  - intros s1 a1 lr l1 b1 S K. rewrite Hg'. intros G B. destruct (Hcase _ _ S) as [(-> & ->)|(Hne & So)].
    + rewrite Hmem. intros E. eapply Hbfresh; eauto.
    + eauto.
  - intros s1 a1 s2 a2 S1 K1 S2 K2 E. destruct (Hcase _ _ S1) as [(-> & ->)|(Hne1 & So1)]; destruct (Hcase _ _ S2) as [(-> & ->)|(Hne2 & So2)]; auto.
    + exfalso. eapply Hdfresh; eauto. congruence.
    + exfalso. eapply Hdfresh; eauto. congruence.
    + eauto.
  - unfold v' at 1. cbn [set_alloc set_tab set_m v_m]. intros x' Hx'. destruct (mems_same_in _ _ _ Hmems Hx') as (x & Hx & Hkx).
    assert (E : dm_id x' = dm_id x) by (unfold mem_key in Hkx; congruence). rewrite E.
    apply in_app_iff in Hx. destruct Hx as [Hx|[<-|[]]].
    + destruct (I_do x Hx) as [(lr1 & l1 & b1 & G & B & M)|(s1 & a1 & S & R)].
      * left. exists lr1, l1, b1. rewrite Hg'. auto.
      * right. exists s1, a1. split; [apply Hold; auto|auto].
    + right. exists s, a. split; [apply Hsame; auto|auto].
  - intros s1 a1 S HX. destruct (Hcase _ _ S) as [(-> & ->)|(Hne & So)].
    + right. split; [auto|]. split; [right; left; reflexivity|]. split; [exists l; rewrite Hg'; auto|].
      destruct Hfindd as (x' & Hf' & Hkx). exists x'. unfold v'. cbn [set_alloc set_tab set_m v_m]. unfold mem_key in Hkx.
      split; [congruence|]. split; congruence.
    + destruct (I_sl s1 a1 So HX) as [(K & l1 & b1 & rg & R)|(K & R1 & R2 & R3)].
      * left. split; [auto|]. exists l1, b1, rg. rewrite Hg'. exact R.
      * right. split; [auto|]. split; [rewrite Hd'; destruct R1; [left; auto|right; right; auto]|].
        split; [destruct R2 as (l1 & R2); exists l1; rewrite Hg'; auto|].
        destruct R3 as (x & Hf & R). destruct (Hfind _ _ Hf) as (x' & Hf' & Hkx). exists x'. unfold v'. cbn [set_alloc set_tab set_m v_m].
        unfold mem_key in Hkx. split; [auto|]. destruct R. split; congruence.
  - intros lr l1 b1 rg. rewrite Hg'. intros G B R. destruct (I_tg _ _ _ _ G B R) as (s1 & a1 & T1 & T2 & T3).
    exists s1, a1. split; [auto|]. split; [apply Hold; auto|auto].
  - intros lr s1. rewrite Hd'. intros Hin. destruct (I_dd _ _ Hin) as (a1 & R1 & R). exists a1. split; [apply Hold; auto|auto].
  - intros lr. rewrite Hd'. auto.
  - intros s1 [<-|Hin].
    + exists a. split; [apply Hsame; auto|]. split; [auto|]. rewrite Hd'. intros Hin. destruct (I_dd _ _ Hin) as (a1 & R1 & _).
      eapply Hnotslot; eauto.
    + destruct (I_ur _ Hin) as (a1 & R1 & R2 & R3). exists a1. split; [apply Hold; auto|]. split; [auto|]. rewrite Hd'. auto.
  - intros s1 Hin. destruct (I_dg _ Hin) as (a1 & R1 & R). exists a1. split; [apply Hold; auto|auto].
  - intros s1 lr l1 b1 rg Hin. rewrite Hg'. eauto.
  - unfold v'. cbn. lia.
  - unfold v'. cbn. apply Forall_forall. intros x' Hx'. destruct (mems_same_in _ _ _ Hmems Hx') as (x & Hx & Hkx).
    assert (E : dm_size x' = dm_size x) by (unfold mem_key in Hkx; congruence). rewrite E.
    apply in_app_iff in Hx. destruct Hx as [Hx|[<-|[]]]; [|exact Hpos]. rewrite Forall_forall in I_dp. auto.
  - intros s1 a1 H K. destruct (Hcase _ _ H) as [(-> & ->)|(_ & H1)]; [congruence|eauto].
  - intros s1 a1 l1 H HnX K G. rewrite Hg' in G. destruct (Hcase _ _ H) as [(-> & ->)|(_ & H1)]; [congruence|eauto].
Qed.

(* the dedicated allocation of slot s goes away: its memory object is freed and the slot becomes unallocated;
   stated over the observations of the new state (used for a registered and for an unregistered allocation) *)
Lemma VamInvU_remove_ded c v v' U U' X s a :
  VamInvU c v U X -> slot_is v s a -> a_kind a = 2 ->
  (forall lr, get_blist v' lr = get_blist v lr) ->
  v_tab v' = set_nth_z (v_tab v) s (set_allocated a false) ->
  m_mems (v_m v') = remove_mem (m_mems (v_m v)) (a_mem a) -> m_next (v_m v') = m_next (v_m v) ->
  length (v_lists v') = length (v_lists v) -> length (v_ded v') = length (v_ded v) ->
  map p_uid (v_pools v') = map p_uid (v_pools v) -> map p_id (v_pools v') = map p_id (v_pools v) ->
  v_next_uid v' = v_next_uid v -> v_next_pool_id v' = v_next_pool_id v ->
  (forall lr x, In x (get_dedlist v' lr) <-> In x (get_dedlist v lr) /\ x <> s) ->
  (forall lr, NoDup (get_dedlist v' lr)) ->
  (forall x, In x U' <-> In x U /\ x <> s) ->
  VamInvU c v' U' X.
Proof.
  intros HI Hsl Hk Hg' Htab Hmems Hnext Hll Hdl Hpu Hpi Hnu Hnp Hded Hdnd HU. inv_fields HI.
  pose proof (slot_is_range _ _ _ Hsl) as Hr.
  assert (Hoth : forall s1 a1, s1 <> s -> (slot_is v' s1 a1 <-> slot_is v s1 a1)).
  { intros s1 a1 Hne. unfold slot_is. rewrite Htab, nth_z_set_other by congruence. tauto. }
  assert (Hnone : forall a1, ~ slot_is v' s a1).
  { intros a1 (H & Ha). rewrite Htab, nth_z_set_same in H by auto. injection H as <-. cbn in Ha. discriminate. }
  assert (Hfw : forall s1 a1, slot_is v' s1 a1 -> slot_is v s1 a1 /\ s1 <> s).
  { intros s1 a1 H. destruct (Z.eq_dec s1 s) as [->|Hne]; [exfalso; eapply Hnone; eauto|]. split; [apply Hoth; auto|auto]. }
  assert (HnX : ~ In s X) by (intros Hi; destruct (I_dg _ Hi) as (a2 & S2 & K2); destruct S2, Hsl; congruence).
  assert (Hfind : forall id x, id <> a_mem a -> find_mem (m_mems (v_m v)) id = Some x -> find_mem (m_mems (v_m v')) id = Some x).
  { intros id x Hne H. rewrite Hmems, find_remove_mem_other; auto. }
  constructor.
  - congruence.
  - congruence.
  - intros t l. rewrite Hg'. eauto.
  - intros lr l. rewrite Hg'. eauto.
  - rewrite Hpu. auto.
  - rewrite Hnu. eapply Forall_map_eq with (f := p_uid) (P := fun u => u < v_next_uid v); [symmetry; exact Hpu|reflexivity|exact I_pu].
  - rewrite Hpi, Hnp. destruct I_pi as (Hn & Hf). split; [auto|].
    eapply Forall_map_eq with (f := p_id) (P := fun u => u < v_next_pool_id v); [symmetry; exact Hpi|reflexivity|exact Hf].
  - rewrite Hmems. apply remove_mem_nodup. auto.
  - rewrite Hmems, Hnext. apply Forall_forall. intros x Hx. rewrite Forall_forall in I_dx. apply I_dx. eapply in_remove_mem; eauto.
  - intros lr l b. rewrite Hg'. intros G B. destruct (I_bm _ _ _ G B) as (x & Hf & R). exists x. split; [|exact R].
    apply Hfind; auto. intros E. eapply (I_db s a); eauto.
  - intros lr1 l1 b1 lr2 l2 b2. rewrite !Hg'. apply I_bi.
  - intros s1 a1 lr l b S K. rewrite Hg'. apply Hfw in S. destruct S. eauto.
  - intros s1 a1 s2 a2 S1 K1 S2 K2. apply Hfw in S1. apply Hfw in S2. destruct S1, S2. eauto.
  - intros x Hx. rewrite Hmems in Hx. pose proof (in_remove_mem_ne _ _ _ I_dn Hx) as Hne. apply in_remove_mem in Hx.
    destruct (I_do x Hx) as [(lr1 & l1 & b1 & G & B & M)|(s1 & a1 & S & K & M)].
    + left. exists lr1, l1, b1. rewrite Hg'. auto.
    + right. exists s1, a1. split; [|auto]. apply Hoth; auto. intros ->.
      assert (a1 = a) by (destruct S, Hsl; congruence). subst. congruence.
  - intros s1 a1 S HX. apply Hfw in S. destruct S as (S & Hne). destruct (I_sl s1 a1 S HX) as [(K & l1 & b1 & rg & R)|(K & R1 & R2 & R3)].
    + left. split; [auto|]. exists l1, b1, rg. rewrite Hg'. exact R.
    + right. split; [auto|]. split; [|split].
      * destruct R1 as [R1|R1]; [left; apply Hded; auto|right; apply HU; auto].
      * destruct R2 as (l1 & R2). exists l1. rewrite Hg'. auto.
      * destruct R3 as (x & Hf & R). exists x. split; [|exact R]. apply Hfind; auto. intros E.
        apply Hne. eapply I_di; eauto.
  - intros lr l b rg. rewrite Hg'. intros G B R. destruct (I_tg _ _ _ _ G B R) as (s1 & a1 & T1 & T2 & T3 & T4).
    exists s1, a1. split; [auto|]. split; [|auto]. apply Hoth; auto. intros ->.
    assert (a1 = a) by (destruct T2, Hsl; congruence). subst. congruence.
  - intros lr s1 Hin. apply Hded in Hin. destruct Hin as (Hin & Hne). destruct (I_dd _ _ Hin) as (a1 & R1 & R).
    exists a1. split; [apply Hoth; auto|auto].
  - auto.
  - intros s1 Hin. apply HU in Hin. destruct Hin as (Hin & Hne). destruct (I_ur _ Hin) as (a1 & R1 & R2 & R3).
    exists a1. split; [apply Hoth; auto|]. split; [auto|]. intros H. apply Hded in H. tauto.
  - intros s1 Hin. destruct (I_dg _ Hin) as (a1 & R1 & R). exists a1. split; [|auto]. apply Hoth; auto. intros ->.
    assert (a1 = a) by (destruct R1, Hsl; congruence). subst. congruence.
  - intros s1 lr l b rg Hin. rewrite Hg'. eauto.
  - lia.
  - rewrite Hmems. apply Forall_forall. intros x Hx. rewrite Forall_forall in I_dp. apply I_dp. eapply in_remove_mem; eauto.
  - intros s1 a1 S K. apply Hfw in S. destruct S. eauto.
  - intros s1 a1 l1 S HnX1 K G. rewrite Hg' in G. apply Hfw in S. destruct S. eauto.
Qed.

(* Register: the unregistered dedicated allocations (all of list lr) are appended to the dedicated list *)
Lemma VamInvU_register c v v' U A X lr :
  VamInvU c v U X -> NoDup A -> (forall s, In s A <-> In s U) -> (forall s, In s U -> a_lref (get_alloc v s) = lr) ->
  (forall lr1, get_blist v' lr1 = get_blist v lr1) -> v_tab v' = v_tab v -> v_m v' = v_m v ->
  length (v_lists v') = length (v_lists v) -> length (v_ded v') = length (v_ded v) ->
  map p_uid (v_pools v') = map p_uid (v_pools v) -> map p_id (v_pools v') = map p_id (v_pools v) ->
  v_next_uid v' = v_next_uid v -> v_next_pool_id v' = v_next_pool_id v ->
  get_dedlist v' lr = get_dedlist v lr ++ A ->
  (forall lr1, lr1 <> lr -> get_dedlist v' lr1 = get_dedlist v lr1) ->
  VamInvU c v' [] X.
Proof.
  intros HI HndU HAU HUlr Hg' Htab Hm Hll Hdl Hpu Hpi Hnu Hnp Hd1 Hd2. inv_fields HI.
  assert (Hsl : forall s a, slot_is v' s a <-> slot_is v s a) by (intros; unfold slot_is; rewrite Htab; tauto).
  assert (Hdin : forall lr1 s, In s (get_dedlist v lr1) -> In s (get_dedlist v' lr1)).
  { intros lr1 s H. destruct (lref_eq_dec lr1 lr) as [->|Hne]; [rewrite Hd1; apply in_app_iff; auto|rewrite Hd2; auto]. }
  constructor.
  - congruence.
  - congruence.
  - intros t l. rewrite Hg'. eauto.
  - intros lr1 l. rewrite Hg'. eauto.
  - rewrite Hpu. auto.
  - rewrite Hnu. eapply Forall_map_eq with (f := p_uid) (P := fun u => u < v_next_uid v); [symmetry; exact Hpu|reflexivity|exact I_pu].
  - rewrite Hpi, Hnp. destruct I_pi as (Hn & Hf). split; [auto|].
    eapply Forall_map_eq with (f := p_id) (P := fun u => u < v_next_pool_id v); [symmetry; exact Hpi|reflexivity|exact Hf].
  - rewrite Hm. auto.
  - rewrite Hm. auto.
  - rewrite Hm. intros lr1 l b. rewrite Hg'. eauto.
  - intros lr1 l1 b1 lr2 l2 b2. rewrite !Hg'. apply I_bi.
  - intros s a lr1 l b S K. rewrite Hg'. apply Hsl in S. eauto.
  - intros s1 a1 s2 a2 S1 K1 S2 K2. apply Hsl in S1. apply Hsl in S2. eauto.
  - rewrite Hm. intros x Hx. destruct (I_do x Hx) as [(lr1 & l1 & b1 & G & B & M)|(s1 & a1 & S & R)].
    + left. exists lr1, l1, b1. rewrite Hg'. auto.
    + right. exists s1, a1. split; [apply Hsl; auto|auto].
  - intros s a S HX. apply Hsl in S. destruct (I_sl s a S HX) as [(K & l1 & b1 & rg & R)|(K & R1 & R2 & R3)].
    + left. split; [auto|]. exists l1, b1, rg. rewrite Hg'. exact R.
    + right. split; [auto|]. split; [|split].
      * left. destruct R1 as [R1|R1]; [apply Hdin; auto|].
        specialize (HUlr _ R1). rewrite (get_alloc_slot _ _ _ S) in HUlr. rewrite HUlr, Hd1. apply in_app_iff. right. apply HAU. auto.
      * destruct R2 as (l1 & R2). exists l1. rewrite Hg'. auto.
      * rewrite Hm. exact R3.
  - intros lr1 l b rg. rewrite Hg'. intros G B R. destruct (I_tg _ _ _ _ G B R) as (s1 & a1 & T1 & T2 & T3).
    exists s1, a1. split; [auto|]. split; [apply Hsl; auto|auto].
  - intros lr1 s Hin. destruct (lref_eq_dec lr1 lr) as [->|Hne].
    + rewrite Hd1 in Hin. apply in_app_iff in Hin. destruct Hin as [Hin|Hin].
      * destruct (I_dd _ _ Hin) as (a & R1 & R). exists a. split; [apply Hsl; auto|auto].
      * apply HAU in Hin. destruct (I_ur _ Hin) as (a & R1 & R2 & R3). exists a. split; [apply Hsl; auto|]. split; [auto|].
        specialize (HUlr _ Hin). rewrite (get_alloc_slot _ _ _ R1) in HUlr. auto.
    + rewrite Hd2 in Hin by auto. destruct (I_dd _ _ Hin) as (a & R1 & R). exists a. split; [apply Hsl; auto|auto].
  - intros lr1. destruct (lref_eq_dec lr1 lr) as [->|Hne]; [|rewrite Hd2; auto].
    rewrite Hd1. apply NoDup_app_intro_z; auto. intros s H1 H2. apply HAU in H2. destruct (I_ur _ H2) as (a & R1 & R2 & R3).
    specialize (HUlr _ H2). rewrite (get_alloc_slot _ _ _ R1) in HUlr. rewrite HUlr in R3. auto.
  - intros s [].
  - intros s Hin. destruct (I_dg _ Hin) as (a & R1 & R). exists a. split; [apply Hsl; auto|auto].
  - intros s lr1 l b rg Hin. rewrite Hg'. eauto.
  - rewrite Hm. auto.
  - rewrite Hm. auto.
  - intros s a H K. apply Hsl in H. eauto.
  - intros s a l1 H HnX K G. rewrite Hg' in G. apply Hsl in H. eauto.
Qed.

(* ---------------------------------------------------------------- observational equality *)

(* two states with the same observations (the invariant does not see how the state was assembled) *)
Record obs_eq (v v' : vam) : Prop := mkObsEq {
  oe_blist : forall lr, get_blist v' lr = get_blist v lr;
  oe_ded : forall lr, get_dedlist v' lr = get_dedlist v lr;
  oe_tab : v_tab v' = v_tab v;
  oe_m : v_m v' = v_m v;
  oe_ll : length (v_lists v') = length (v_lists v);
  oe_dl : length (v_ded v') = length (v_ded v);
  oe_pu : map p_uid (v_pools v') = map p_uid (v_pools v);
  oe_pi : map p_id (v_pools v') = map p_id (v_pools v);
  oe_nu : v_next_uid v' = v_next_uid v;
  oe_np : v_next_pool_id v' = v_next_pool_id v;
  oe_gl : v_global v' = v_global v
}.

Lemma obs_eq_refl v : obs_eq v v.
Proof. constructor; auto. Qed.

Lemma obs_eq_sym v v' : obs_eq v v' -> obs_eq v' v.
Proof. intros []. constructor; auto. Qed.

Lemma obs_eq_trans a b c : obs_eq a b -> obs_eq b c -> obs_eq a c.
Proof.
  intros [A1 A2 A3 A4 A5 A6 A7 A8 A9 A10 A11] [B1 B2 B3 B4 B5 B6 B7 B8 B9 B10 B11].
  constructor; intros; try congruence; try (rewrite B1; auto); try (rewrite B2; auto).
Qed.

Lemma VamInvU_obs_eq c v v' U X : obs_eq v v' -> VamInvU c v U X -> VamInvU c v' U X.
Proof.
  intros [E1 E2 E3 E4 E5 E6 E7 E8 E9 E10 E11] HI. inv_fields HI.
  assert (Hsl : forall s a, slot_is v' s a <-> slot_is v s a) by (intros; unfold slot_is; rewrite E3; tauto).
  constructor.
  - congruence.
  - congruence.
  - intros t l. rewrite E1. eauto.
  - intros lr l. rewrite E1. eauto.
  - rewrite E7. auto.
  - rewrite E9. eapply Forall_map_eq with (f := p_uid) (P := fun u => u < v_next_uid v); [symmetry; exact E7|reflexivity|exact I_pu].
  - rewrite E8, E10. destruct I_pi as (Hn & Hf). split; [auto|].
    eapply Forall_map_eq with (f := p_id) (P := fun u => u < v_next_pool_id v); [symmetry; exact E8|reflexivity|exact Hf].
  - rewrite E4. auto.
  - rewrite E4. auto.
  - rewrite E4. intros lr l b. rewrite E1. eauto.
  - intros lr1 l1 b1 lr2 l2 b2. rewrite !E1. apply I_bi.
  - intros s a lr l b S K. rewrite E1. apply Hsl in S. eauto.
  - intros s1 a1 s2 a2 S1 K1 S2 K2. apply Hsl in S1. apply Hsl in S2. eauto.
  - rewrite E4. intros d Hd. destruct (I_do d Hd) as [(lr1 & l1 & b1 & G & B & M)|(s1 & a1 & S & R)].
    + left. exists lr1, l1, b1. rewrite E1. auto.
    + right. exists s1, a1. split; [apply Hsl; auto|auto].
  - intros s a S HX. apply Hsl in S. destruct (I_sl s a S HX) as [(K & l1 & b1 & rg & R)|(K & R1 & R2 & R3)].
    + left. split; [auto|]. exists l1, b1, rg. rewrite E1. exact R.
    + right. split; [auto|]. split; [rewrite E2; auto|]. split; [destruct R2 as (l1 & R2); exists l1; rewrite E1; auto|].
      rewrite E4. exact R3.
  - intros lr l b rg. rewrite E1. intros G B R. destruct (I_tg _ _ _ _ G B R) as (s1 & a1 & T1 & T2 & T3).
    exists s1, a1. split; [auto|]. split; [apply Hsl; auto|auto].
  - intros lr s. rewrite E2. intros Hin. destruct (I_dd _ _ Hin) as (a & R1 & R). exists a. split; [apply Hsl; auto|auto].
  - intros lr. rewrite E2. auto.
  - intros s Hin. destruct (I_ur _ Hin) as (a & R1 & R2 & R3). exists a. split; [apply Hsl; auto|]. split; [auto|]. rewrite E2. auto.
  - intros s Hin. destruct (I_dg _ Hin) as (a & R1 & R). exists a. split; [apply Hsl; auto|auto].
  - intros s lr l b rg Hin. rewrite E1. eauto.
  - rewrite E4. auto.
  - rewrite E4. auto.
  - intros s a H K. apply Hsl in H. eauto.
  - intros s a l1 H HnX K G. rewrite E1 in G. apply Hsl in H. eauto.
Qed.

Lemma set_blist_global0 v lr l : v_global (set_blist v lr l) = v_global v.
Proof. destruct lr; cbn; [reflexivity|]. destruct (find_pool _ _); reflexivity. Qed.

(* set_blist twice on the same list *)
Lemma obs_eq_set_blist_twice v lr l0 l1 l2 :
  get_blist v lr = Some l0 -> obs_eq (set_blist v lr l2) (set_blist (set_blist v lr l1) lr l2).
Proof.
  intros H0. pose proof (get_set_blist_same v lr l0 l1 H0) as H1. constructor.
  - intros lr1. destruct (lref_eq_dec lr1 lr) as [->|Hne].
    + rewrite (get_set_blist_same _ _ _ l2 H1), (get_set_blist_same _ _ _ l2 H0). reflexivity.
    + rewrite !get_set_blist_other by congruence. reflexivity.
  - intros. rewrite !set_blist_dedlist. reflexivity.
  - rewrite !set_blist_tab. reflexivity.
  - rewrite !set_blist_m. reflexivity.
  - rewrite !set_blist_lists_len. reflexivity.
  - rewrite !set_blist_ded. reflexivity.
  - rewrite !set_blist_uids. reflexivity.
  - rewrite !set_blist_pids. reflexivity.
  - rewrite !set_blist_next_uid. reflexivity.
  - rewrite !set_blist_next_pid. reflexivity.
  - rewrite !set_blist_global0. reflexivity.
Qed.

(* ---------------------------------------------------------------- states derived from a base state *)

(* v' is the base state w with list lr replaced by L and machine m (however it was assembled) *)
Record derived (w : vam) (lr : lref) (L : blist) (m : mach) (v' : vam) : Prop := mkDerived {
  dv_same : get_blist v' lr = Some L;
  dv_other : forall lr1, lr1 <> lr -> get_blist v' lr1 = get_blist w lr1;
  dv_ded : forall lr1, get_dedlist v' lr1 = get_dedlist w lr1;
  dv_tab : v_tab v' = v_tab w;
  dv_m : v_m v' = m;
  dv_ll : length (v_lists v') = length (v_lists w);
  dv_dl : length (v_ded v') = length (v_ded w);
  dv_pu : map p_uid (v_pools v') = map p_uid (v_pools w);
  dv_pi : map p_id (v_pools v') = map p_id (v_pools w);
  dv_nu : v_next_uid v' = v_next_uid w;
  dv_np : v_next_pool_id v' = v_next_pool_id w;
  dv_gl : v_global v' = v_global w
}.

Lemma derived_set_blist w lr l0 L : get_blist w lr = Some l0 -> derived w lr L (v_m w) (set_blist w lr L).
Proof.
  intros H. constructor.
  - eapply get_set_blist_same; eauto.
  - intros. apply get_set_blist_other. congruence.
  - intros. apply set_blist_dedlist.
  - apply set_blist_tab.
  - apply set_blist_m.
  - apply set_blist_lists_len.
  - rewrite set_blist_ded. reflexivity.
  - apply set_blist_uids.
  - apply set_blist_pids.
  - apply set_blist_next_uid.
  - apply set_blist_next_pid.
  - apply set_blist_global0.
Qed.

Lemma derived_self w lr l0 : get_blist w lr = Some l0 -> derived w lr l0 (v_m w) w.
Proof. intros H. constructor; auto. Qed.

Lemma derived_set_m w lr L m v' m' : derived w lr L m v' -> derived w lr L m' (set_m v' m').
Proof.
  intros [D1 D2 D3 D4 D5 D6 D7 D8 D9 D10 D11 D12]. constructor; cbn; auto;
    intros; try rewrite get_blist_set_m; try rewrite get_dedlist_set_m; auto.
Qed.

Lemma derived_set_blist_again w lr L m v' L' : derived w lr L m v' -> derived w lr L' m (set_blist v' lr L').
Proof.
  intros [D1 D2 D3 D4 D5 D6 D7 D8 D9 D10 D11 D12]. constructor.
  - eapply get_set_blist_same; eauto.
  - intros. rewrite get_set_blist_other by congruence. auto.
  - intros. rewrite set_blist_dedlist. auto.
  - rewrite set_blist_tab. auto.
  - rewrite set_blist_m. auto.
  - rewrite set_blist_lists_len. auto.
  - rewrite set_blist_ded. auto.
  - rewrite set_blist_uids. auto.
  - rewrite set_blist_pids. auto.
  - rewrite set_blist_next_uid. auto.
  - rewrite set_blist_next_pid. auto.
  - rewrite set_blist_global0. auto.
Qed.

Lemma derived_obs_eq w lr L m v1 v2 : derived w lr L m v1 -> derived w lr L m v2 -> obs_eq v1 v2.
Proof.
  intros [A1 A2 A3 A4 A5 A6 A7 A8 A9 A10 A11 A12] [B1 B2 B3 B4 B5 B6 B7 B8 B9 B10 B11 B12]. constructor; try congruence.
  - intros lr1. destruct (lref_eq_dec lr1 lr) as [->|Hne]; [congruence|]. rewrite A2, B2; auto.
Qed.

(* blocks *)
Lemma replace_replace bs b1 b2 : bk_id b1 = bk_id b2 -> replace_block (replace_block bs b1) b2 = replace_block bs b2.
Proof.
  intros E. induction bs as [|x bs IH]; cbn; [reflexivity|]. destruct (bk_id x =? bk_id b1) eqn:E1; cbn.
  - rewrite E, Z.eqb_refl. rewrite <- E, E1. reflexivity.
  - rewrite <- E, E1, IH. reflexivity.
Qed.

Lemma remove_block_last bs b : NoDup (map bk_id (bs ++ [b])) -> remove_block (bs ++ [b]) (bk_id b) = bs.
Proof.
  induction bs as [|x bs IH]; cbn; intros Hnd.
  - rewrite Z.eqb_refl. reflexivity.
  - inversion Hnd as [|? ? Hx Hr]; subst. destruct (bk_id x =? bk_id b) eqn:E.
    + exfalso. apply Hx. apply Z.eqb_eq in E. rewrite E, map_app. apply in_app_iff. right. left. reflexivity.
    + rewrite IH; auto.
Qed.

Lemma mems_same_remove_added ms ms2 d :
  mems_same (ms ++ [d]) ms2 -> (forall x, In x ms -> dm_id x <> dm_id d) -> mems_same ms (remove_mem ms2 (dm_id d)).
Proof.
  unfold mems_same. revert ms2. induction ms as [|x ms IH]; intros ms2 H Hf; cbn [app map] in *.
  - destruct ms2 as [|y [|z t]]; cbn [map] in H; try discriminate. cbn [remove_mem].
    assert (E : mem_key d = mem_key y) by congruence.
    assert (dm_id y = dm_id d) by (unfold mem_key in E; congruence). rewrite H0, Z.eqb_refl. reflexivity.
  - destruct ms2 as [|y ms2]; cbn [map] in H; [discriminate|].
    assert (Hk : mem_key x = mem_key y) by congruence.
    assert (Hr : map mem_key (ms ++ [d]) = map mem_key ms2) by congruence.
    cbn [remove_mem].
    assert (E : dm_id y = dm_id x) by (unfold mem_key in Hk; congruence).
    destruct (dm_id y =? dm_id d) eqn:Ey; [apply Z.eqb_eq in Ey; exfalso; apply (Hf x); [left; reflexivity|congruence]|].
    cbn [map]. rewrite Hk. f_equal. apply IH; auto. intros z Hz. apply Hf. right. auto.
Qed.

(* the mapping state kept inside a dedicated Allocation changes *)
Lemma VamInvU_set_alloc_sm c v U X s a sm' :
  VamInvU c v U X -> slot_is v s a -> VamInvU c (set_alloc v s (set_a_sm a sm')) U X.
Proof.
  intros HI Sa. inv_fields HI. pose proof (slot_is_range _ _ _ Sa) as Hr.
  set (a' := set_a_sm a sm'). set (v' := set_alloc v s a').
  assert (Hoth : forall s1 a1, s1 <> s -> (slot_is v' s1 a1 <-> slot_is v s1 a1)) by (intros; apply slot_is_set_alloc_other; auto).
  assert (Hsame : forall a1, slot_is v' s a1 <-> a1 = a').
  { intros a1. unfold v'. rewrite slot_is_set_alloc_same by auto. destruct Sa as (_ & Ha). unfold a'. cbn. tauto. }
  (* every slot of the new state corresponds to a slot of the old state with the same visible fields *)
  assert (Hfw : forall s1 a1, slot_is v' s1 a1 -> exists a0, slot_is v s1 a0 /\ a_kind a0 = a_kind a1 /\ a_lref a0 = a_lref a1 /\
             a_blk a0 = a_blk a1 /\ a_handle a0 = a_handle a1 /\ a_mem a0 = a_mem a1 /\ a_type a0 = a_type a1 /\
             a_size a0 = a_size a1 /\ a_align a0 = a_align a1).
  { intros s1 a1 H. destruct (Z.eq_dec s1 s) as [->|Hne].
    - apply Hsame in H. subst a1. exists a. split; [exact Sa|]. unfold a'. cbn. repeat split; auto.
    - exists a1. apply Hoth in H; auto. split; [exact H|]. repeat split; auto. }
  assert (Hbw : forall s1 a0, slot_is v s1 a0 -> exists a1, slot_is v' s1 a1 /\ a_kind a0 = a_kind a1 /\ a_lref a0 = a_lref a1 /\
             a_blk a0 = a_blk a1 /\ a_handle a0 = a_handle a1 /\ a_mem a0 = a_mem a1).
  { intros s1 a0 H. destruct (Z.eq_dec s1 s) as [->|Hne].
    - assert (a0 = a) by (destruct H, Sa; congruence). subst a0. exists a'. split; [apply Hsame; auto|]. unfold a'. cbn. repeat split; auto.
    - exists a0. split; [apply Hoth; auto|]. repeat split; auto. }
  assert (Hg' : forall lr, get_blist v' lr = get_blist v lr) by (intros; apply get_blist_set_alloc).
  assert (Hd' : forall lr, get_dedlist v' lr = get_dedlist v lr) by (intros; apply get_dedlist_set_alloc).
  clear HI. constructor.
  - exact I_ll.
  - exact I_dl.
  - intros t l. rewrite Hg'. eauto.
  - intros lr l. rewrite Hg'. eauto.
  - exact I_pn.
  - exact I_pu.
  - exact I_pi.
  - exact I_dn.
  - exact I_dx.
  - intros lr l b. rewrite Hg'. apply I_bm.
  - intros lr1 l1 b1 lr2 l2 b2. rewrite !Hg'. apply I_bi.
  - intros s1 a1 lr l b S K. rewrite Hg'. destruct (Hfw _ _ S) as (a0 & S0 & K0 & _ & _ & _ & M0 & _). rewrite <- M0. eapply I_db; eauto. congruence.
  - intros s1 a1 s2 a2 S1 K1 S2 K2 M. destruct (Hfw _ _ S1) as (b1 & T1 & L1 & _ & _ & _ & M1 & _).
    destruct (Hfw _ _ S2) as (b2 & T2 & L2 & _ & _ & _ & M2 & _). eapply (I_di s1 b1 s2 b2); eauto; congruence.
  - intros d Hd. destruct (I_do d Hd) as [(lr & l & b & G & R)|(s1 & a0 & S0 & K0 & M0)].
    + left. exists lr, l, b. rewrite Hg'. auto.
    + destruct (Hbw _ _ S0) as (a1 & S1 & K1 & _ & _ & _ & M1). right. exists s1, a1. split; [auto|]. split; congruence.
  - intros s1 a1 S HX. destruct (Hfw _ _ S) as (a0 & S0 & K0 & L0 & B0 & H0 & M0 & T0 & Z0 & A0).
    destruct (I_sl s1 a0 S0 HX) as [(K & l & b & rg & R1 & R2 & R3 & R4 & R5 & R6 & R7 & R8 & R9 & R10)|(K & R1 & R2 & R3)].
    + left. split; [congruence|]. exists l, b, rg. rewrite Hg'. rewrite <- L0, <- B0, <- H0, <- M0, <- T0, <- Z0, <- A0.
      repeat split; auto.
    + right. split; [congruence|]. unfold ded_alloc_ok. rewrite <- L0, <- M0, <- T0, <- Z0. split; [|split].
      * rewrite Hd'. auto.
      * destruct R2 as (l & R2). exists l. rewrite Hg'. auto.
      * exact R3.
  - intros lr l b rg. rewrite Hg'. intros G B R. destruct (I_tg _ _ _ _ G B R) as (s1 & a0 & T1 & S0 & K0 & L0 & B0 & H0).
    destruct (Hbw _ _ S0) as (a1 & S1 & K1 & L1 & B1 & H1 & _). exists s1, a1. split; [auto|]. split; [auto|]. repeat split; congruence.
  - intros lr s1. rewrite Hd'. intros Hin. destruct (I_dd _ _ Hin) as (a0 & S0 & K0 & L0). destruct (Hbw _ _ S0) as (a1 & S1 & K1 & L1 & _).
    exists a1. split; [auto|]. split; congruence.
  - intros lr. rewrite Hd'. auto.
  - intros s1 Hin. destruct (I_ur _ Hin) as (a0 & S0 & K0 & N0). destruct (Hbw _ _ S0) as (a1 & S1 & K1 & L1 & _).
    exists a1. split; [auto|]. split; [congruence|]. rewrite Hd', <- L1. auto.
  - intros s1 Hin. destruct (I_dg _ Hin) as (a0 & S0 & K0). destruct (Hbw _ _ S0) as (a1 & S1 & K1 & _). exists a1. split; [auto|congruence].
  - intros s1 lr l b rg Hin. rewrite Hg'. eauto.
  - exact I_nn.
  - exact I_dp.
  - intros s1 a1 S K. destruct (Hfw _ _ S) as (a0 & S0 & K0 & _ & _ & _ & _ & _ & _ & A0). rewrite <- A0. eapply I_al; eauto. congruence.
  - intros s1 a1 l1 S HnX K G. rewrite Hg' in G. destruct (Hfw _ _ S) as (a0 & S0 & K0 & L0 & _ & _ & _ & _ & _ & A0). rewrite <- A0.
    eapply (I_ma s1 a0 l1); eauto; congruence.
Qed.

(* ---------------------------------------------------------------- pools *)

Lemma find_pool_none_fresh ps uid : Forall (fun p => p_uid p < uid) ps -> find_pool ps uid = None.
Proof.
  induction ps as [|x ps IH]; cbn; [reflexivity|]. intros H. inversion H; subst.
  destruct (p_uid x =? uid) eqn:E; [apply Z.eqb_eq in E; lia|auto].
Qed.

(* CreatePool links a new pool with an empty block list, the next uid and the next id *)
Lemma VamInvU_add_pool c v U X l0 :
  VamInvU c v U X -> blist_wf c l0 -> bl_blocks l0 = [] ->
  VamInvU c (mkVam (v_m v) (v_global v) (v_lists v) (v_ded v)
                   (mkPool (v_next_uid v) (v_next_pool_id v) l0 [] :: v_pools v)
                   (v_next_pool_id v + 1) (v_next_uid v + 1) (v_tab v)) U X.
Proof.
  intros HI Hwf Hemp. inv_fields HI. set (uid := v_next_uid v).
  set (v' := mkVam (v_m v) (v_global v) (v_lists v) (v_ded v) (mkPool uid (v_next_pool_id v) l0 [] :: v_pools v)
                   (v_next_pool_id v + 1) (uid + 1) (v_tab v)).
  assert (Hfresh : find_pool (v_pools v) uid = None).
  { apply find_pool_none_fresh. eapply Forall_impl; [|exact I_pu]. cbn. intros; lia. }
  assert (Hg' : forall lr, get_blist v' lr = match lr with LPool u => if u =? uid then Some l0 else get_blist v lr | _ => get_blist v lr end).
  { intros [t|u]; cbn; [reflexivity|]. destruct (uid =? u) eqn:E; rewrite Z.eqb_sym, E; reflexivity. }
  assert (Hgold : forall lr l, get_blist v' lr = Some l -> (lr = LPool uid /\ l = l0) \/ (lr <> LPool uid /\ get_blist v lr = Some l)).
  { intros lr l H. rewrite Hg' in H. destruct lr as [t|u]; [right; split; [discriminate|auto]|].
    destruct (u =? uid) eqn:E; [apply Z.eqb_eq in E; subst; injection H as <-; left; auto|].
    apply Z.eqb_neq in E. right. split; [congruence|auto]. }
  assert (Hgnew : forall lr l, get_blist v lr = Some l -> get_blist v' lr = Some l).
  { intros lr l H. rewrite Hg'. destruct lr as [t|u]; [auto|]. destruct (u =? uid) eqn:E; [|auto].
    apply Z.eqb_eq in E. subst u. cbn in H. rewrite Hfresh in H. discriminate. }
  assert (Hd' : forall lr, get_dedlist v' lr = get_dedlist v lr).
  { intros [t|u]; cbn; [reflexivity|]. destruct (uid =? u) eqn:E; [|reflexivity].
    apply Z.eqb_eq in E. subst u. rewrite Hfresh. reflexivity. }
  assert (Hsl : forall s a, slot_is v' s a <-> slot_is v s a) by (intros; unfold slot_is; cbn; tauto).
  constructor.
  - exact I_ll.
  - exact I_dl.
  - intros t l H. destruct (Hgold _ _ H) as [(E & _)|(_ & G)]; [discriminate|eauto].
  - intros lr l H. destruct (Hgold _ _ H) as [(_ & ->)|(_ & G)]; eauto.
  - cbn. constructor; [|auto]. intros Hin. apply in_map_iff in Hin. destruct Hin as (p & Hp & Hip).
    rewrite Forall_forall in I_pu. specialize (I_pu p Hip). fold uid in I_pu. lia.
  - cbn. constructor; [cbn; lia|]. eapply Forall_impl; [|exact I_pu]. cbn. unfold uid. intros; lia.
  - cbn. destruct I_pi as (Hn & Hf). split.
    + constructor; [|auto]. intros Hin. apply in_map_iff in Hin. destruct Hin as (p & Hp & Hip).
      rewrite Forall_forall in Hf. specialize (Hf p Hip). lia.
    + constructor; [cbn; lia|]. eapply Forall_impl; [|exact Hf]. cbn. intros; lia.
  - exact I_dn.
  - exact I_dx.
  - intros lr l b H Hb. destruct (Hgold _ _ H) as [(_ & ->)|(_ & G)]; [rewrite Hemp in Hb; destruct Hb|eauto].
  - intros lr1 l1 b1 lr2 l2 b2 H1 B1 H2 B2.
    destruct (Hgold _ _ H1) as [(_ & ->)|(_ & G1)]; [rewrite Hemp in B1; destruct B1|].
    destruct (Hgold _ _ H2) as [(_ & ->)|(_ & G2)]; [rewrite Hemp in B2; destruct B2|]. eauto.
  - intros s a lr l b S K H Hb. apply Hsl in S. destruct (Hgold _ _ H) as [(_ & ->)|(_ & G)]; [rewrite Hemp in Hb; destruct Hb|eauto].
  - intros s1 a1 s2 a2 S1 K1 S2 K2. apply Hsl in S1. apply Hsl in S2. eauto.
  - intros d Hd. destruct (I_do d Hd) as [(lr & l & b & G & R)|(s & a & S & R)].
    + left. exists lr, l, b. split; [apply Hgnew; auto|auto].
    + right. exists s, a. split; [apply Hsl; auto|auto].
  - intros s a S HX. apply Hsl in S. destruct (I_sl s a S HX) as [(K & l & b & rg & G & R)|(K & R1 & (l & G & T) & R3)].
    + left. split; [auto|]. exists l, b, rg. split; [apply Hgnew; auto|auto].
    + right. split; [auto|]. split; [rewrite Hd'; auto|]. split; [exists l; split; [apply Hgnew; auto|auto]|exact R3].
  - intros lr l b rg H Hb Hrg. destruct (Hgold _ _ H) as [(_ & ->)|(_ & G)]; [rewrite Hemp in Hb; destruct Hb|].
    destruct (I_tg _ _ _ _ G Hb Hrg) as (s & a & T1 & T2 & T3). exists s, a. split; [auto|]. split; [apply Hsl; auto|auto].
  - intros lr s. rewrite Hd'. intros Hin. destruct (I_dd _ _ Hin) as (a & R1 & R). exists a. split; [apply Hsl; auto|auto].
  - intros lr. rewrite Hd'. auto.
  - intros s Hin. destruct (I_ur _ Hin) as (a & R1 & R2 & R3). exists a. split; [apply Hsl; auto|]. split; [auto|]. rewrite Hd'. auto.
  - intros s Hin. destruct (I_dg _ Hin) as (a & R1 & R). exists a. split; [apply Hsl; auto|auto].
  - intros s lr l b rg Hin H Hb. destruct (Hgold _ _ H) as [(_ & ->)|(_ & G)]; [rewrite Hemp in Hb; destruct Hb|eauto].
  - exact I_nn.
  - exact I_dp.
  - intros s a S K. apply Hsl in S. eauto.
  - intros s a l S HnX K G. apply Hsl in S. destruct (Hgold _ _ G) as [(E & ->)|(_ & G0)]; [exfalso|eauto].
    destruct (I_sl s a S HnX) as [(_ & l1 & b1 & rg & G1 & _)|(K2 & _)]; [|congruence].
    rewrite E in G1. cbn in G1. rewrite Hfresh in G1. discriminate.
Qed.

Lemma find_remove_pool ps uid u : find_pool (remove_pool ps uid) u = if u =? uid then find_pool (remove_pool ps uid) u else find_pool ps u.
Proof.
  destruct (u =? uid) eqn:E; [reflexivity|]. apply Z.eqb_neq in E.
  induction ps as [|x ps IH]; cbn; [reflexivity|]. destruct (p_uid x =? uid) eqn:Ex; cbn.
  - apply Z.eqb_eq in Ex. destruct (p_uid x =? u) eqn:Eu; [lia|reflexivity].
  - destruct (p_uid x =? u); [reflexivity|exact IH].
Qed.

Lemma find_remove_pool_same ps uid : NoDup (map p_uid ps) -> find_pool (remove_pool ps uid) uid = None.
Proof.
  induction ps as [|x ps IH]; cbn; [reflexivity|]. intros Hnd. inversion Hnd as [|? ? Hx Hr]; subst.
  destruct (p_uid x =? uid) eqn:Ex.
  - apply Z.eqb_eq in Ex. destruct (find_pool ps uid) as [p|] eqn:E; [|reflexivity].
    exfalso. destruct (find_pool_in _ _ _ E) as (Hp & Hu). apply Hx. rewrite Ex, <- Hu. apply in_map. auto.
  - cbn. rewrite Ex. auto.
Qed.

Lemma in_remove_pool ps uid p : In p (remove_pool ps uid) -> In p ps.
Proof.
  induction ps as [|x ps IH]; cbn; [tauto|]. destruct (p_uid x =? uid); [intros H; right; exact H|].
  intros [->|H]; [left; reflexivity|right; auto].
Qed.

(* a pool without blocks and without dedicated allocations is unlinked; nextPoolId may be lowered to any
   value above the remaining ids *)
Lemma VamInvU_remove_pool c v X uid p nextId :
  VamInvU c v [] X -> find_pool (v_pools v) uid = Some p -> bl_blocks (p_list p) = [] -> p_ded p = [] ->
  Forall (fun q => p_id q < nextId) (remove_pool (v_pools v) uid) -> 
  VamInvU c (mkVam (v_m v) (v_global v) (v_lists v) (v_ded v) (remove_pool (v_pools v) uid) nextId (v_next_uid v) (v_tab v)) [] X.
Proof.
  intros HI Hf Hemp Hded Hids. inv_fields HI.
  set (v' := mkVam (v_m v) (v_global v) (v_lists v) (v_ded v) (remove_pool (v_pools v) uid) nextId (v_next_uid v) (v_tab v)).
  assert (Hgold : forall lr l, get_blist v' lr = Some l -> lr <> LPool uid /\ get_blist v lr = Some l).
  { intros [t|u] l H; cbn in H; [split; [discriminate|auto]|]. rewrite find_remove_pool in H. destruct (u =? uid) eqn:E.
    - apply Z.eqb_eq in E. subst u. rewrite find_remove_pool_same in H by auto. discriminate.
    - apply Z.eqb_neq in E. split; [congruence|auto]. }
  assert (Hgnew : forall lr l, lr <> LPool uid -> get_blist v lr = Some l -> get_blist v' lr = Some l).
  { intros [t|u] l Hne H; cbn; [auto|]. rewrite find_remove_pool. destruct (u =? uid) eqn:E; [apply Z.eqb_eq in E; congruence|auto]. }
  assert (Hd' : forall lr, lr <> LPool uid -> get_dedlist v' lr = get_dedlist v lr).
  { intros [t|u] Hne; cbn; [reflexivity|]. rewrite find_remove_pool. destruct (u =? uid) eqn:E; [apply Z.eqb_eq in E; congruence|reflexivity]. }
  assert (Hd0 : get_dedlist v' (LPool uid) = []) by (cbn; rewrite find_remove_pool_same by auto; reflexivity).
  assert (Hdold : get_dedlist v (LPool uid) = []) by (cbn; rewrite Hf; auto).
  assert (Hgu : get_blist v (LPool uid) = Some (p_list p)) by (cbn; rewrite Hf; auto).
  assert (Hsl : forall s a, slot_is v' s a <-> slot_is v s a) by (intros; unfold slot_is; cbn; tauto).
  assert (Hdl : forall lr, get_dedlist v' lr = get_dedlist v lr).
  { intros lr. destruct (lref_eq_dec lr (LPool uid)) as [->|Hne]; [congruence|auto]. }
  assert (Hnoref : forall s a, slot_is v s a -> ~ In s X -> a_lref a <> LPool uid).
  { intros s a S HX E. destruct (I_sl s a S HX) as [(K & l & b & rg & G & B & _)|(K & [R1|[]] & _)].
    - rewrite E, Hgu in G. injection G as <-. rewrite Hemp in B. destruct B.
    - rewrite E, Hdold in R1. destruct R1. }
  assert (Hblk : forall lr l b, get_blist v lr = Some l -> In b (bl_blocks l) -> lr <> LPool uid).
  { intros lr l b G B E. subst lr. rewrite Hgu in G. injection G as <-. rewrite Hemp in B. destruct B. }
  constructor.
  - exact I_ll.
  - exact I_dl.
  - intros t l H. destruct (Hgold _ _ H). eauto.
  - intros lr l H. destruct (Hgold _ _ H). eauto.
  - cbn. clear - I_pn. induction (v_pools v) as [|x ps IH]; cbn; [constructor|]. inversion I_pn as [|? ? Hx Hr]; subst.
    destruct (p_uid x =? uid); [auto|]. cbn. constructor; [|auto]. intros Hin. apply Hx. apply in_map_iff in Hin.
    destruct Hin as (y & Hy & Hiy). rewrite <- Hy. apply in_map. eapply in_remove_pool; eauto.
  - cbn. apply Forall_forall. intros q Hq. rewrite Forall_forall in I_pu. apply I_pu. eapply in_remove_pool; eauto.
  - cbn. split; [|exact Hids]. destruct I_pi as (Hn & _). clear - Hn. induction (v_pools v) as [|x ps IH]; cbn; [constructor|].
    inversion Hn as [|? ? Hx Hr]; subst. destruct (p_uid x =? uid); [auto|]. cbn. constructor; [|auto]. intros Hin. apply Hx.
    apply in_map_iff in Hin. destruct Hin as (y & Hy & Hiy). rewrite <- Hy. apply in_map. eapply in_remove_pool; eauto.
  - exact I_dn.
  - exact I_dx.
  - intros lr l b H. destruct (Hgold _ _ H). eauto.
  - intros lr1 l1 b1 lr2 l2 b2 H1 B1 H2 B2. destruct (Hgold _ _ H1). destruct (Hgold _ _ H2). eauto.
  - intros s a lr l b S K H. apply Hsl in S. destruct (Hgold _ _ H). eauto.
  - intros s1 a1 s2 a2 S1 K1 S2 K2. apply Hsl in S1. apply Hsl in S2. eauto.
  - intros d Hd. destruct (I_do d Hd) as [(lr & l & b & G & B & R)|(s & a & S & R)].
    + left. exists lr, l, b. split; [apply Hgnew; [eapply Hblk; eauto|auto]|auto].
    + right. exists s, a. split; [apply Hsl; auto|auto].
  - intros s a S HX. apply Hsl in S. pose proof (Hnoref s a S HX) as Hne.
    destruct (I_sl s a S HX) as [(K & l & b & rg & G & R)|(K & R1 & (l & G & T) & R3)].
    + left. split; [auto|]. exists l, b, rg. split; [apply Hgnew; auto|auto].
    + right. split; [auto|]. split; [rewrite Hdl; auto|]. split; [exists l; split; [apply Hgnew; auto|auto]|exact R3].
  - intros lr l b rg H Hb Hrg. destruct (Hgold _ _ H) as (_ & G).
    destruct (I_tg _ _ _ _ G Hb Hrg) as (s & a & T1 & T2 & T3). exists s, a. split; [auto|]. split; [apply Hsl; auto|auto].
  - intros lr s. rewrite Hdl. intros Hin. destruct (I_dd _ _ Hin) as (a & R1 & R). exists a. split; [apply Hsl; auto|auto].
  - intros lr. rewrite Hdl. auto.
  - intros s [].
  - intros s Hin. destruct (I_dg _ Hin) as (a & R1 & R). exists a. split; [apply Hsl; auto|auto].
  - intros s lr l b rg Hin H. destruct (Hgold _ _ H). eauto.
  - exact I_nn.
  - exact I_dp.
  - intros s a S K. apply Hsl in S. eauto.
  - intros s a l S HnX K G. apply Hsl in S. destruct (Hgold _ _ G). eauto.
Qed.
