(* VamFit.v — C08: what a successful allocation request leaves in the Allocation, measured against the request.
     fit v size ded slots:  every slot holds a live Allocation that is either
       a block allocation of at least the requested size, or
       a dedicated allocation of exactly the requested size whose memory object was made by a vkAllocateMemory of this
       API call, with the dedicated-allocation info the request came with (the call is in the log).
   multi_allocate_fit: every path through multiAllocateMemory that returns success establishes it.
   create_resource_fit: CreateBuffer / CreateImage: the resource the entry point creates (a fresh handle, never bound)
   is bound exactly once, to the memory of the new Allocation, at its offset; the requirement of the resource fits. *)
From Coq Require Import ZArith List Bool Lia.
From Arsenal Require Import Util VamDev VamBlockList Vam VamInvMeta VamInv VamInvUpd VamInvDev VamInvStep VamInvStep2 VamPropsOps.
From Arsenal Require Bits Tlsf TlsfStep GranTlsf Linear LinearAlloc LinearInv SyncMem VamAllocArgs VamMemStable VamTypeBits VamFlush.
Import ListNotations.
Open Scope Z_scope.

(* the size of a granted request is at least the size asked for (TLSF rounds it up to whole granularity pages) *)
Lemma meta_request_size mt size align upper sub strat mt' rq :
  MInv mt -> Bits.pow2 align -> meta_create_request mt size align upper sub strat = MGranted mt' rq -> size <= mreq_size rq.
Proof.
  intros HI Hal H. destruct mt as [t|l]; cbn in H.
  - destruct (Tlsf.create_request t size align upper sub strat MAXINT) as [t1 r| | |] eqn:E; try discriminate.
    injection H as <- <-. destruct HI as [[Hinv Hpg] _]. cbn [mreq_size].
    destruct (TlsfStep.create_request_granted _ _ _ _ _ _ _ _ _ E) as (Hs1 & _ & Hgr).
    pose proof (TlsfStep.round_up_spec (Tlsf.t_gran t) sub size align Hpg Hal) as Hru.
    destruct (Gran.round_up (Tlsf.t_gran t) sub size align) as (sz' & al') eqn:Er. cbn [fst snd] in Hgr. destruct Hru as (R1 & R2 & R3).
    destruct (GranTlsf.granted_placement _ _ _ _ _ _ _ Hpg R2 Hgr) as (_ & Es & _). lia.
  - destruct (Linear.create_request l size align upper sub strat MAXINT) as [r| | |] eqn:E; try discriminate.
    injection H as <- <-. cbn [mreq_size]. pose proof (LinearAlloc.create_request_spec l size align upper sub strat MAXINT HI Hal) as P.
    rewrite E in P. destruct P as ((Es & _) & _). lia.
Qed.

Section WithCfg.
Variable c : vcfg.
Hypothesis Hc : cfg_ok c.

(* ---------------------------------------------------------------- block allocations: at least the requested size *)

Definition sized (v : vam) (size : Z) (slots : list Z) : Prop :=
  forall s, In s slots -> a_allocated (get_alloc v s) = true /\ a_kind (get_alloc v s) = 1 /\ size <= a_size (get_alloc v s).

Lemma alloc_from_block_sized v U X lr bid size align flags sub s v' :
  VamInvU c v U X -> Bits.pow2 align ->
  alloc_from_block c v lr bid size align flags sub s = (v', AFOk) -> 0 <= s < zlen (v_tab v) ->
  a_allocated (get_alloc v' s) = true /\ a_kind (get_alloc v' s) = 1 /\ size <= a_size (get_alloc v' s).
Proof.
  intros HI Hal. unfold alloc_from_block. destruct (get_block v lr bid) as [b|] eqn:Hgb; [|discriminate]. destruct (negb _); [discriminate|].
  destruct (get_block_in _ _ _ _ Hgb) as (l & Hg & Hb & Hbid).
  pose proof (vi_lists _ _ _ _ HI _ _ Hg) as Hwf. pose proof (bw_meta _ _ Hwf) as Hmeta. rewrite Forall_forall in Hmeta. pose proof (Hmeta _ Hb) as Hmi.
  destruct (meta_create_request _ _ _ _ _ _) as [mt1 rq| | |] eqn:Hrq; try discriminate.
  pose proof (meta_request_size _ _ _ _ _ _ _ _ Hmi Hal Hrq) as Hsz.
  unfold commit_request. set (v1 := put_block v lr _).
  assert (Hp : forall w bb, v_tab (put_block w lr bb) = v_tab w) by (intros; unfold put_block; destruct (get_blist w lr); [apply set_blist_tab|reflexivity]).
  assert (Et1 : v_tab v1 = v_tab v) by apply Hp.
  destruct (get_blist v1 lr) as [l1|]; [|discriminate]. destruct (get_block v1 lr bid) as [b1|]; [|discriminate].
  destruct (sm_sub _ _ _) as (m1 & s1). destruct (if fl flags F_MAPPED then _ else _) as ((m2 & s2) & mr).
  destruct mr as [[]|code| |]; try discriminate.
  destruct (meta_alloc _ _ _ _ _ _) as [(mt2 & h)|code| |]; try discriminate.
  destruct (_ && _); [discriminate|]. intros E Hs. injection E as <-.
  unfold get_alloc. cbn [set_m v_tab set_alloc set_tab]. rewrite nth_z_set_same; [cbn; auto|].
  rewrite Hp. cbn [set_alloc set_tab v_tab]. unfold zlen. rewrite set_nth_z_length. rewrite Hp. cbn [set_m v_tab]. rewrite Et1. exact Hs.
Qed.

Lemma try_blocks_sized bids : forall v U X lr size align flags sub s v',
  VamInvU c v U X -> Bits.pow2 align -> min_ok v lr align -> 0 <= s < zlen (v_tab v) -> a_allocated (get_alloc v s) = false ->
  try_blocks c v lr bids size align flags sub s = (v', AFOk) -> sized v' size [s].
Proof.
  induction bids as [|bid tl IH]; intros v U X lr size align flags sub s v' HI Hal Hmin Hs Hd E; cbn [try_blocks] in E; [discriminate|].
  pose proof (alloc_from_block_inv c v U X lr bid size align flags sub s HI Hal Hmin Hs Hd) as P.
  destruct (alloc_from_block c v lr bid size align flags sub s) as (v1 & r) eqn:Ea. destruct r; try discriminate.
  - injection E as <-. destruct (alloc_from_block_sized _ _ _ _ _ _ _ _ _ _ _ HI Hal Ea Hs) as (A & B & C0).
    intros x [<-|[]]. unfold get_alloc in *. rewrite sort_list_tab'. auto.
  - cbn [af_post] in P. destruct P as (I1 & T1 & L1 & D1). eapply IH; eauto; [eapply min_ok_frame; eauto|]. destruct T1 as (Ez & _). lia.
Qed.

Lemma alloc_page_sized v U X lr size align flags sub s v' :
  VamInvU c v U X -> Bits.pow2 align -> min_ok v lr align -> 0 <= s < zlen (v_tab v) -> a_allocated (get_alloc v s) = false ->
  alloc_page c v lr size align flags sub s = (v', OK tt) -> sized v' size [s].
Proof.
  intros HI Hal Hmin Hs Hd. unfold alloc_page. destruct (get_blist v lr) as [l|] eqn:Hg; [|discriminate].
  pose proof (heap_budget_same c (v_m v) (type_heap c (bl_type l))) as Hb.
  destruct (heap_budget c (v_m v) (type_heap c (bl_type l))) as ((m1 & usage) & budget). cbn [fst] in Hb.
  destruct (_ && _); [discriminate|]. destruct (bl_pref l <? size); [discriminate|].
  assert (I1 : VamInvU c (set_m v m1) U X) by (apply VamInvU_mach_same; auto).
  assert (Hmin1 : min_ok (set_m v m1) lr align) by (eapply min_ok_frame; [apply lists_frame_set_m|exact Hmin]).
  pose proof (try_blocks_inv c (search_order c l flags) (set_m v m1) U X lr size align flags sub s I1 Hal Hmin1 Hs Hd) as TB.
  pose proof (try_blocks_sized (search_order c l flags) (set_m v m1) U X lr size align flags sub s) as TA.
  destruct (try_blocks c (set_m v m1) lr (search_order c l flags) size align flags sub s) as (v2 & r).
  destruct r; try discriminate.
  - intros E. injection E as <-. eapply TA; eauto.
  - pose proof (af_keeps c _ _ _ _ _ _ _ TB) as K2.
    destruct (negb _); [discriminate|].
    destruct (if bl_explicit l then (bl_pref l, 0) else shrink_new_block 3 (bl_pref l) 0 (calc_max_block_size l) size) as (nbs & shift).
    match goal with |- context [if ?cond then create_block c v2 lr nbs else (v2, ER VK_OODM)] =>
      assert (K3 : let '(v3, first) := (if cond then create_block c v2 lr nbs else (v2, ER VK_OODM)) in keeps c (set_m v m1) v3 U X s);
      [destruct cond; [apply (create_block_keeps c Hc); exact K2|exact K2]|
       destruct (if cond then create_block c v2 lr nbs else (v2, ER VK_OODM)) as (v3 & first)]
    end.
    match goal with |- context [if bl_explicit l then (v3, first) else ?rc] =>
      assert (K4 : let '(v4, created) := (if bl_explicit l then (v3, first) else rc) in keeps c (set_m v m1) v4 U X s);
      [destruct (bl_explicit l); [exact K3|apply (retry_create_inv c Hc); exact K3]|
       destruct (if bl_explicit l then (v3, first) else rc) as (v4 & created)]
    end.
    destruct created as [bid|code| |]; try discriminate.
    destruct (get_block v4 lr bid) as [nb|]; [|discriminate]. destruct (meta_size (bk_meta nb) <? size); [discriminate|].
    destruct K4 as (I4 & T4 & _ & D4).
    assert (Hs4 : 0 <= s < zlen (v_tab v4)) by (destruct T4 as (Ez & _); cbn in Ez; lia).
    destruct (alloc_from_block c v4 lr bid size align flags sub s) as (v5 & r2) eqn:Ea.
    destruct r2.
    + intros E. injection E as <-. destruct (alloc_from_block_sized _ _ _ _ _ _ _ _ _ _ _ I4 Hal Ea Hs4) as (A & B & C0).
      intros x [<-|[]]. unfold get_alloc in *. rewrite sort_list_tab'. auto.
    + destruct (match get_blist v5 lr with Some _ => _ | None => _ end) as (v6 & dr). destruct dr; discriminate.
    + destruct (match get_blist v5 lr with Some _ => _ | None => _ end) as (v6 & dr). destruct dr; discriminate.
    + discriminate.
    + discriminate.
Qed.

Lemma allocate_loop_sized slots : forall v U X lr done size align flags sub v' done',
  VamInvU c v U X -> Bits.pow2 align -> min_ok v lr align -> NoDup (slots ++ done) -> dead_slots v slots -> sized v size done ->
  allocate_loop c v lr slots done size align flags sub = (v', OK tt, done') -> sized v' size (slots ++ done).
Proof.
  induction slots as [|s tl IH]; intros v U X lr done size align flags sub v' done' HI Hal Hmin Hnd Hdead Hpl E; cbn [allocate_loop] in E.
  - injection E as <- _. exact Hpl.
  - destruct (Hdead s (or_introl eq_refl)) as (Hr & Hd). cbn [app] in Hnd. inversion Hnd as [|? ? Hns Hnd']; subst.
    pose proof (alloc_page_inv c Hc v U X lr size align flags sub s HI Hal Hmin Hr Hd) as AP.
    pose proof (alloc_page_sized v U X lr size align flags sub s) as AA.
    destruct (alloc_page c v lr size align flags sub s) as (v1 & r). destruct r as [[]|code| |]; try discriminate.
    cbn [ap_post] in AP. destruct AP as (I1 & T1 & L1 & _). specialize (AA v1 HI Hal Hmin Hr Hd eq_refl).
    assert (Hpl1 : sized v1 size (s :: done)).
    { intros x [<-|Hx]; [apply AA; left; reflexivity|]. rewrite (get_alloc_frame _ _ _ _ T1); [apply Hpl; exact Hx|].
      intros [<-|[]]. apply Hns. apply in_app_iff. auto. }
    assert (Hd1 : dead_slots v1 tl).
    { eapply dead_slots_frame; [intros s1 H1; apply Hdead; right; exact H1|exact T1|]. intros s1 H1 [<-|[]]. apply Hns. apply in_app_iff. auto. }
    assert (Hnd1 : NoDup (tl ++ s :: done)) by (eapply Permutation.Permutation_NoDup; [apply Permutation.Permutation_middle|constructor; auto]).
    specialize (IH v1 U X lr (s :: done) size align flags sub v' done' I1 Hal (min_ok_frame _ _ _ _ L1 Hmin) Hnd1 Hd1 Hpl1 E).
    intros x Hx. apply IH. cbn in Hx. apply in_app_iff. destruct Hx as [<-|Hx]; [right; left; reflexivity|].
    apply in_app_iff in Hx. destruct Hx; [left; auto|right; right; auto].
Qed.

Lemma bl_allocate_sized v U X lr l slots size align0 flags sub v' :
  VamInvU c v U X -> get_blist v lr = Some l -> align0 = 0 \/ Bits.pow2 align0 -> NoDup slots -> dead_slots v slots ->
  bl_allocate c v lr slots size align0 flags sub = (v', OK tt) -> sized v' size slots.
Proof.
  intros HI Hg Hal Hnd Hdead. unfold bl_allocate. rewrite Hg.
  pose proof (vi_lists _ _ _ _ HI _ _ Hg) as Hwf.
  assert (Ea : (if align0 <? bl_minalign l then bl_minalign l else align0) = Z.max align0 (bl_minalign l)).
  { destruct (align0 <? bl_minalign l) eqn:E; [apply Z.ltb_lt in E; lia|apply Z.ltb_ge in E; lia]. }
  rewrite Ea.
  assert (Hal' : Bits.pow2 (Z.max align0 (bl_minalign l))).
  { rewrite <- Ea. pose proof (bw_align _ _ Hwf) as Hm. pose proof (Bits.pow2_pos _ Hm). destruct (align0 <? bl_minalign l) eqn:E; [auto|].
    destruct Hal as [->|H']; [apply Z.ltb_ge in E; lia|auto]. }
  pose proof (allocate_loop_sized slots v U X lr [] size (Z.max align0 (bl_minalign l)) flags sub) as AL.
  destruct (allocate_loop c v lr slots [] size _ flags sub) as ((v1 & r) & done). destruct r as [[]|code| |]; try discriminate.
  - intros E. injection E as <-.
    assert (Hmin0 : min_ok v lr (Z.max align0 (bl_minalign l))) by (intros l' G'; rewrite Hg in G'; injection G' as <-; lia).
    specialize (AL v1 done HI Hal' Hmin0 ltac:(rewrite app_nil_r; exact Hnd) Hdead ltac:(intros ? []) eq_refl).
    rewrite app_nil_r in AL. exact AL.
  - destruct (unwind_loop c v1 lr done) as (v2 & ur). destruct ur as [[]|uc| |]; try discriminate.
    destruct (release_empty_since c v2 lr (bl_next l)) as (v3 & rr). destruct rr; discriminate.
Qed.

(* ---------------------------------------------------------------- dedicated allocations: the vkAllocateMemory is in the log *)

Definition ded_logged (v : vam) (ty size ded : Z) (slots : list Z) : Prop :=
  forall s, In s slots ->
    a_allocated (get_alloc v s) = true /\ a_kind (get_alloc v s) = 2 /\ a_size (get_alloc v s) = size /\ a_type (get_alloc v s) = ty /\
    In (CAlloc (a_mem (get_alloc v s)) ty size ded 0) (m_calls (v_m v)).

Definition grows (m m' : mach) : Prop := VamAllocArgs.NA (fun _ => True) m m'.

Lemma grows_in m m' k : grows m m' -> In k (m_calls m) -> In k (m_calls m').
Proof. intros (l & E & _) H. rewrite E. apply in_app_iff. auto. Qed.

Lemma grows_refl m : grows m m. Proof. apply VamAllocArgs.NA_refl. Qed.
Lemma grows_trans a b d : grows a b -> grows b d -> grows a d. Proof. apply VamAllocArgs.NA_trans. Qed.
Lemma grows_eq m m' : m_calls m' = m_calls m -> grows m m'. Proof. apply VamAllocArgs.NA_eq. Qed.

Lemma add_allocation_grows m h size : grows m (add_allocation c m h size).
Proof. unfold grows. apply VamAllocArgs.add_allocation_NA. Qed.
Lemma sm_map_grows m mem s : grows m (fst (fst (sm_map c m mem s))).
Proof. unfold grows. apply VamAllocArgs.sm_map_NA. auto. Qed.

Lemma dev_alloc_log m ty size ded m1 id : dev_alloc c m ty size ded = (m1, 0, id) -> m_calls m1 = CAlloc id ty size ded 0 :: m_calls m.
Proof.
  unfold dev_alloc. destruct (negb _); [intros E; injection E as _ E _; discriminate|]. destruct (size <=? 0); [intros E; injection E as _ E _; discriminate|].
  destruct (dev_fault (m_fault m) (m_fired m) 0) as ((f1 & fired1) & r).
  destruct (negb (r =? 0)) eqn:Er; [intros E; injection E as _ E _; subst r; discriminate|].
  destruct (_ && _); [intros E; injection E as _ E _; discriminate|].
  destruct (_ <? _); [intros E; injection E as _ E _; discriminate|].
  destruct (DEV_TABLE <=? _); [intros E; injection E as _ E _; discriminate|].
  intros E. injection E as <- <-. reflexivity.
Qed.

Lemma alloc_vk_log m ty size ded m1 mem : alloc_vk c m ty size ded = (m1, OK mem) -> m_calls m1 = CAlloc mem ty size ded 0 :: m_calls m.
Proof.
  unfold alloc_vk. destruct (dev_alloc c m ty size ded) as ((m0 & code) & id) eqn:Ed.
  unfold Budget.alloc_mem.
  destruct (Budget.maxCount _ <? _); [cbn; discriminate|].
  match goal with |- context [match ?x with Some _ => _ | None => _ end] => destruct x as [s2|] end; [|cbn; discriminate].
  destruct (negb (code =? 0)) eqn:Ec.
  - destruct (Budget.remove_block _ _ _) as (s3 & p). cbn. destruct p; discriminate.
  - cbn. apply negb_false_iff in Ec. apply Z.eqb_eq in Ec. subst code. intros E. injection E as <- <-. cbn. apply (dev_alloc_log _ _ _ _ _ _ Ed).
Qed.

Lemma ded_page_logged v lr ty size sub doMap allowed s ded v' :
  allocate_dedicated_page c v lr ty size sub doMap allowed s ded = (v', OK tt) -> 0 <= s < zlen (v_tab v) ->
  ded_logged v' ty size ded [s] /\ (forall s', s' <> s -> get_alloc v' s' = get_alloc v s') /\ zlen (v_tab v') = zlen (v_tab v) /\
  grows (v_m v) (v_m v').
Proof.
  unfold allocate_dedicated_page. destruct (alloc_vk c (v_m v) ty size ded) as (m1 & r) eqn:Ea. destruct r as [mem|code| |]; try discriminate.
  pose proof (alloc_vk_log _ _ _ _ _ _ Ea) as L1.
  assert (G2 : grows m1 (fst (fst (if doMap then sm_map c m1 mem SyncMem.sm_init else (m1, SyncMem.sm_init, OK tt))))).
  { destruct doMap; [apply sm_map_grows|apply grows_refl]. }
  destruct (if doMap then sm_map c m1 mem SyncMem.sm_init else (m1, SyncMem.sm_init, OK tt)) as ((m2 & s2) & mr). cbn [fst] in G2.
  destruct mr as [[]|code| |]; try discriminate.
  - destruct (SyncMem.mapped s2 && negb allowed); [discriminate|]. intros E Hs. injection E as <-.
    assert (G : grows (v_m v) (add_allocation c m2 (type_heap c ty) size)).
    { eapply grows_trans; [exists [CAlloc mem ty size ded 0]; split; [exact L1|repeat constructor]|]. eapply grows_trans; [exact G2|apply add_allocation_grows]. }
    split; [|split; [|split]].
    + intros x [<-|[]]. unfold get_alloc. cbn. rewrite nth_z_set_same by auto. cbn. repeat (split; [reflexivity|]).
      eapply grows_in; [exact G2|]. rewrite L1. left. reflexivity.
    + intros s' Hne. unfold get_alloc. cbn. rewrite nth_z_set_other by congruence. reflexivity.
    + cbn. unfold zlen. rewrite set_nth_z_length. reflexivity.
    + exact G.
  - destruct (free_vk c m2 ty size mem) as (m3 & fr). destruct fr; discriminate.
Qed.

Lemma dedicated_loop_logged slots : forall v lr ty size sub doMap allowed done ded v' done',
  dedicated_loop c v lr ty size sub doMap allowed slots done ded = (v', OK tt, done') ->
  NoDup (slots ++ done) -> (forall s, In s slots -> 0 <= s < zlen (v_tab v)) -> ded_logged v ty size ded done ->
  ded_logged v' ty size ded (slots ++ done).
Proof.
  induction slots as [|s tl IH]; intros v lr ty size sub doMap allowed done ded v' done' E Hnd Hr Hd; cbn [dedicated_loop] in E.
  - injection E as <- _. cbn. auto.
  - destruct (allocate_dedicated_page c v lr ty size sub doMap allowed s ded) as (v1 & r) eqn:Ep.
    destruct r as [[]|code| |]; try discriminate.
    destruct (ded_page_logged _ _ _ _ _ _ _ _ _ _ Ep (Hr s (or_introl eq_refl))) as (D1 & F1 & L1 & G1).
    cbn [app] in Hnd. inversion Hnd as [|? ? Hns Hnd']; subst.
    assert (Hd1 : ded_logged v1 ty size ded (s :: done)).
    { intros x [<-|Hx]; [apply D1; left; reflexivity|]. rewrite F1; [|intros ->; apply Hns; apply in_app_iff; auto].
      destruct (Hd x Hx) as (A1 & A2 & A3 & A4 & A5). repeat (split; [assumption|]). eapply grows_in; eauto. }
    specialize (IH v1 lr ty size sub doMap allowed (s :: done) ded v' done' E).
    assert (D2 : ded_logged v' ty size ded (tl ++ s :: done)).
    { apply IH; auto.
      - eapply Permutation.Permutation_NoDup; [apply Permutation.Permutation_middle|]. constructor; auto.
      - intros x Hx. rewrite L1. apply Hr. right. auto. }
    intros x Hx. apply D2. cbn in Hx. apply in_app_iff. destruct Hx as [<-|Hx]; [right; left; reflexivity|].
    apply in_app_iff in Hx. destruct Hx; [left; auto|right; right; auto].
Qed.

Lemma allocate_dedicated_logged v lr ty size sub doMap allowed slots ded v' :
  allocate_dedicated c v lr ty size sub doMap allowed slots ded = (v', OK tt) ->
  NoDup slots -> (forall s, In s slots -> 0 <= s < zlen (v_tab v)) -> ded_logged v' ty size ded slots.
Proof.
  unfold allocate_dedicated. destruct slots as [|s0 tl0] eqn:Es; [discriminate|]. rewrite <- Es.
  destruct (dedicated_loop c v lr ty size sub doMap allowed slots [] ded) as ((v1 & r) & done) eqn:El.
  destruct r as [[]|code| |]; try discriminate.
  - intros E Hnd Hr. injection E as <-.
    pose proof (dedicated_loop_logged slots _ _ _ _ _ _ _ _ _ _ _ El) as D. rewrite app_nil_r in D. specialize (D Hnd Hr ltac:(intros ? [])).
    intros s Hs. unfold get_alloc. rewrite set_dedlist_tab, set_dedlist_m. apply D. auto.
  - destruct (dedicated_rollback c v1 ty done) as (v2 & rr). destruct rr; discriminate.
Qed.

(* ---------------------------------------------------------------- every successful path *)

Definition fit (v : vam) (size ded : Z) (slots : list Z) : Prop :=
  forall s, In s slots ->
    a_allocated (get_alloc v s) = true /\
    ((a_kind (get_alloc v s) = 1 /\ size <= a_size (get_alloc v s)) \/
     (a_kind (get_alloc v s) = 2 /\ a_size (get_alloc v s) = size /\
      In (CAlloc (a_mem (get_alloc v s)) (a_type (get_alloc v s)) size ded 0) (m_calls (v_m v)))).

Lemma sized_fit v size ded slots : sized v size slots -> fit v size ded slots.
Proof. intros H s Hs. destruct (H s Hs) as (A & B & C0). auto. Qed.

Lemma ded_fit v ty size ded slots : ded_logged v ty size ded slots -> fit v size ded slots.
Proof. intros H s Hs. destruct (H s Hs) as (A & B & C0 & D & E). split; [exact A|]. right. rewrite D. auto. Qed.

Lemma alloc_of_type_fit v X lr l ty size align dedPref flags sub slots ded v' :
  VamInvU c v [] X -> get_blist v lr = Some l -> bl_type l = ty -> align = 0 \/ Bits.pow2 align ->
  NoDup slots -> dead_slots v slots ->
  alloc_of_type c v lr ty size align dedPref flags sub slots ded = (v', OK tt) -> fit v' size ded slots.
Proof.
  intros HI Hg Hty Hal Hnd Hdead. unfold alloc_of_type. destruct slots as [|s0 tl0] eqn:Eslots; [discriminate|]. rewrite <- Eslots in *.
  rewrite Hg.
  set (f1 := if fl flags F_MAPPED && negb (host_visible c ty) then fl_clear flags F_MAPPED else flags).
  pose proof (calc_type_params_spec c v ty size (zlen slots) flags) as Hctp. fold f1 in Hctp.
  destruct (calc_type_params c v ty size (zlen slots) flags) as (v1 & fr).
  destruct Hctp as (m1 & -> & Hm1 & Hfr).
  assert (I1 : VamInvU c (set_m v m1) [] X) by (apply VamInvU_mach_same; auto).
  assert (Hg1 : get_blist (set_m v m1) lr = Some l) by (rewrite get_blist_set_m; auto).
  assert (Hdead1 : dead_slots (set_m v m1) slots) by exact Hdead.
  destruct fr as [flags'|code| |]; try contradiction; [|discriminate]. subst flags'.
  assert (Hded : forall w, (forall s, In s slots -> 0 <= s < zlen (v_tab w)) ->
            allocate_dedicated c w lr ty size sub (fl f1 F_MAPPED) (mapping_allowed f1) slots ded = (v', OK tt) -> fit v' size ded slots).
  { intros w Hr E. eapply ded_fit. eapply allocate_dedicated_logged; eauto. }
  destruct (fl f1 F_DEDICATED); [apply Hded; intros s Hs; apply Hdead1; exact Hs|].
  set (canDed := negb (fl f1 F_NEVER) && (negb match lr with LPool _ => true | LDef _ => false end || negb (bl_explicit l))).
  match goal with |- context [if canDed then ?x else dedPref] => set (dp := if canDed then x else dedPref) end.
  destruct (canDed && dp) eqn:Ecd.
  - pose proof (allocate_dedicated_inv c (set_m v m1) X lr l ty size sub (fl f1 F_MAPPED) (mapping_allowed f1) slots ded I1 Hg1 Hty Hnd Hdead1) as P.
    destruct (allocate_dedicated c (set_m v m1) lr ty size sub (fl f1 F_MAPPED) (mapping_allowed f1) slots ded) as (v2 & r) eqn:Ead.
    destruct r as [[]|code| |]; try discriminate.
    + intros E. injection E as <-. eapply ded_fit. eapply allocate_dedicated_logged; eauto. intros s Hs. apply Hdead1. exact Hs.
    + cbn in P. destruct P as (I2 & T2 & L2 & D2). destruct (lf'_some _ _ L2 _ _ Hg1) as (l2 & G2 & C2).
      pose proof (bl_allocate_inv c Hc v2 [] X lr slots size align f1 sub I2 Hal Hnd D2) as BA.
      pose proof (bl_allocate_sized v2 [] X lr l2 slots size align f1 sub) as BL.
      destruct (bl_allocate c v2 lr slots size align f1 sub) as (v3 & br). destruct br as [[]|bcode| |]; try discriminate.
      * intros E. injection E as <-. apply sized_fit. apply (BL v3 I2 G2 Hal Hnd D2 eq_refl).
      * destruct (canDed && negb dp); [|discriminate].
        destruct (heap_budget c (v_m v3) (type_heap c ty)) as ((m4 & usage) & budget). destruct (budget <? _); [discriminate|].
        apply Hded. intros s Hs. destruct BA as ((_ & (Ez & _) & _) & Dd). cbn [set_m v_tab]. apply Dd. exact Hs.
  - pose proof (bl_allocate_inv c Hc (set_m v m1) [] X lr slots size align f1 sub I1 Hal Hnd Hdead1) as BA.
    pose proof (bl_allocate_sized (set_m v m1) [] X lr l slots size align f1 sub) as BL.
    destruct (bl_allocate c (set_m v m1) lr slots size align f1 sub) as (v3 & br). destruct br as [[]|bcode| |]; try discriminate.
    + intros E. injection E as <-. apply sized_fit. apply (BL v3 I1 Hg1 Hal Hnd Hdead1 eq_refl).
    + destruct (canDed && negb dp); [|discriminate].
      destruct (heap_budget c (v_m v3) (type_heap c ty)) as ((m4 & usage) & budget). destruct (budget <? _); [discriminate|].
      apply Hded. intros s Hs. destruct BA as (_ & Dd). cbn [set_m v_tab]. apply Dd. exact Hs.
Qed.

Lemma type_loop_fit fuel : forall v X bits ty size align dedPref usage flags req pref ctb sub slots ded bufimg v',
  VamInvU c v [] X -> align = 0 \/ Bits.pow2 align -> NoDup slots -> dead_slots v slots ->
  type_loop c fuel v bits ty size align dedPref usage flags req pref ctb sub slots ded bufimg = (v', OK tt) -> fit v' size ded slots.
Proof.
  induction fuel as [|f IH]; intros v X bits ty size align dedPref usage flags req pref ctb sub slots ded bufimg v' HI Hal Hnd Hdead E;
    cbn [type_loop] in E; [discriminate|].
  destruct (get_blist v (LDef ty)) as [l|] eqn:Hg; [|discriminate].
  pose proof (alloc_of_type_inv c Hc v X (LDef ty) l ty size align dedPref flags sub slots ded HI Hg (vi_def_type _ _ _ _ HI _ _ Hg) Hal Hnd Hdead) as P.
  pose proof (alloc_of_type_fit v X (LDef ty) l ty size align dedPref flags sub slots ded) as A.
  destruct (alloc_of_type c v (LDef ty) ty size align dedPref flags sub slots ded) as (v1 & r) eqn:Ea.
  destruct r as [[]|code| |]; try discriminate.
  - injection E as <-. eapply A; eauto. apply (vi_def_type _ _ _ _ HI _ _ Hg).
  - destruct (code =? VK_UNKNOWN); [discriminate|]. destruct P as (I1 & T1 & L1 & D1).
    destruct (find_type_index c (v_global v1) _ usage flags req pref ctb bufimg) as [ty'|]; [|discriminate].
    eapply IH; eauto.
Qed.

(* C08: a successful request leaves, in every slot, a block allocation of at least the requested size or a dedicated
   allocation of exactly that size whose vkAllocateMemory (in the log of this call) carried the request's dedicated info *)
Theorem multi_allocate_fit v size align typeBits reqDed prefDed ded bufimg usage flags0 req pref ctb pool sub slots v' :
  VamInv c v -> NoDup slots -> dead_slots v slots ->
  multi_allocate c v size align typeBits reqDed prefDed ded bufimg usage flags0 req pref ctb pool sub slots = (v', OK tt) ->
  fit v' size ded slots.
Proof.
  intros HI Hnd Hdead E. unfold multi_allocate in E.
  destruct (is_pow2_or_zero align) eqn:Ea; cbn [negb] in E; [|discriminate]. pose proof (pow2_or_zero_spec _ Ea) as Hal.
  destruct (size <? 1); [discriminate|].
  destruct (calc_params usage flags0 reqDed _) as [flags|code| |] eqn:Ecp; try discriminate.
  destruct pool as [uid|].
  - destruct (get_blist v (LPool uid)) as [l|] eqn:Hg; [|discriminate]. eapply alloc_of_type_fit; eauto.
  - destruct (find_type_index c (v_global v) typeBits usage flags req pref ctb bufimg) as [ty|]; [|discriminate].
    eapply type_loop_fit; eauto.
Qed.

(* ---------------------------------------------------------------- CreateBuffer / CreateImage *)

(* vkAllocateMemory, vkMapMemory, vkUnmapMemory, vkFreeMemory: the calls of the allocation itself *)
Definition alloc_or_mem (k : call) : Prop :=
  match k with CAlloc _ _ _ _ _ | CMap _ _ _ _ | CUnmap _ | CFree _ => True | _ => False end.

(* what a successful CreateBuffer / CreateImage (without AllocationCreateDontBind) has done on the device, R the handle
   of the new resource:
     the driver calls are: vkCreateBuffer/Image (returning R), vkGet*MemoryRequirements on R, the calls of the allocation
     (no call about a resource among them: R stays alive and unbound), and last the one vkBind*Memory of the API call:
     resource R (a fresh handle: nothing can have bound it before), the memory object of the new Allocation, the
     Allocation's offset in it; R is now bound as the call says;
     the offset is inside the object with the whole requirement, a multiple of the required alignment (a power of two,
     VkMemoryRequirements), the memory type is one the requirement permits (default pools; with a custom pool the pool's
     type is the caller's choice);
     a dedicated allocation is bound at offset 0, its memory object was made by this API call with the dedicated info of
     the request; a resource that requires a dedicated allocation (API >= 1.1) gets one *)
Definition create_post (v v' : vam) (slot : Z) (image : bool) (kind : Z) (devreq : resreq) (flags : Z) (pool : option Z) : Prop :=
  let R := m_next_res (v_m v) + 1 in
  exists a o d tl,
    slot_is v' slot a /\ find_offset v' a = Some o /\ find_mem (m_mems (v_m v')) (a_mem a) = Some d /\ dm_type d = a_type a /\
    m_calls (v_m v') = CBind image R (a_mem a) o 0 :: tl ++ [CReq image R; CCreate image R 0] /\ Forall alloc_or_mem tl /\
    find_res (m_res (v_m v')) R = Some (mkDres R kind devreq true (a_mem a) o) /\
    0 <= o /\ o + rq_size devreq <= dm_size d /\
    (Bits.pow2 (rq_align devreq) -> o mod rq_align devreq = 0) /\
    (pool = None -> VamTypeBits.type_bit (rq_tb devreq) (dm_type d)) /\
    (a_kind a = 2 -> o = 0 /\ In (CAlloc (a_mem a) (dm_type d) (rq_size devreq) (dedicated_info c flags R) 0) tl) /\
    (11 <= c_api c -> rq_reqded devreq = true -> a_kind a = 2).

Lemma dev_create_res_ok m image kind req m1 id :
  dev_create_res m image kind req = (m1, 0, id) ->
  id = m_next_res m + 1 /\ m_res m1 = m_res m ++ [mkDres id kind req false 0 0] /\ m_next_res m1 = id /\ m_calls m1 = CCreate image id 0 :: m_calls m.
Proof.
  unfold dev_create_res. destruct (dev_fault _ _ _) as ((f1 & fi) & code). destruct (negb (code =? 0)) eqn:Ec; [intros E; injection E as _ E0 _; subst code; discriminate|].
  cbn [m_next_res set_fault]. destruct (DEV_TABLE <=? _); [intros E; injection E as _ E0 _; unfold VK_OOHM in E0; discriminate|].
  apply negb_false_iff, Z.eqb_eq in Ec. subst code. intros E. injection E as <- <-. cbn. auto.
Qed.

Lemma find_res_id l id r : find_res l id = Some r -> rs_id r = id.
Proof. induction l as [|x l IH]; cbn; [discriminate|]. destruct (rs_id x =? id) eqn:E; [intros H; injection H as <-; apply Z.eqb_eq; exact E|auto]. Qed.

Lemma find_res_replace l id r nr : find_res l id = Some r -> rs_id nr = id -> find_res (replace_res l nr) id = Some nr.
Proof.
  intros H <-. induction l as [|x l IH]; cbn in *; [discriminate|]. destruct (rs_id x =? rs_id nr) eqn:E; cbn; [rewrite Z.eqb_refl; reflexivity|].
  rewrite E. auto.
Qed.

Lemma slot_mem_type v s a d : VamInvU c v [] [] -> slot_is v s a -> find_mem (m_mems (v_m v)) (a_mem a) = Some d -> dm_type d = a_type a.
Proof.
  intros HI Sa Hf.
  destruct (vi_slots _ _ _ _ HI s a Sa ltac:(intros [])) as [(K & l & b & rg & Hg & Hb & Hid & Hrg & Hh & Htag & Hsz & Hal & Hmem & Hty)|(K & _ & _ & d' & Hf' & Hdt & Hds)].
  - destruct (vi_block_mem _ _ _ _ HI _ _ _ Hg Hb) as (d' & Hf' & Hdt & Hds). rewrite <- Hmem in Hf'. congruence.
  - congruence.
Qed.

Lemma create_resource_fit v slot image kind sub devreq resusage minAlign usage flags req pref ctb pool v' :
  VamInv c v -> VamGran.GV c v -> VamMemStable.ResInv (v_m v) -> GranInv.kind_ok sub -> m_calls (v_m v) = [] ->
  0 <= slot < zlen (v_tab v) -> a_allocated (get_alloc v slot) = false ->
  create_resource c v slot image kind sub devreq resusage minAlign usage flags req pref ctb pool = (v', OK tt) ->
  fl flags F_DONTBIND = false ->
  create_post v v' slot image kind devreq flags pool.
Proof.
  intros HI HV HR Hk Hc0 Hs Hd E Hdb. unfold create_resource in E.
  pose proof (dev_create_res_same (v_m v) image kind devreq) as H1.
  destruct (dev_create_res (v_m v) image kind devreq) as ((m1 & code) & id) eqn:Ecr. cbn [fst] in H1.
  destruct (negb (code =? 0)) eqn:Ec; [discriminate|]. apply negb_false_iff in Ec. apply Z.eqb_eq in Ec. subst code.
  destruct (dev_create_res_ok _ _ _ _ _ _ Ecr) as (Eid & Eres1 & Enext1 & Ecalls1).
  destruct (VamMemStable.created_res_requirements (v_m v) image kind devreq m1 id HR Ecr) as (r & Hf & Hrq & _).
  set (m2 := log_call m1 (CReq image id)).
  assert (Egr : get_requirements c m1 image id = (m2, devreq, (if 11 <=? c_api c then rq_reqded devreq else false), (if 11 <=? c_api c then rq_prefded devreq else false))).
  { unfold get_requirements, dev_requirements. rewrite Hf, Hrq. destruct (11 <=? c_api c); reflexivity. }
  assert (H2 : mach_same m1 m2) by apply mach_same_log.
  rewrite Egr in E.
  assert (I2 : VamInv c (set_m v m2)) by (apply VamInvU_mach_same; [exact HI|eapply mach_same_trans; eauto]).
  assert (V2 : VamGran.GV c (set_m v m2)) by (apply (VamGran.GR_set_m c v m2 HV)).
  assert (Hnd : NoDup [slot]) by (constructor; [intros []|constructor]).
  assert (Hdead : dead_slots (set_m v m2) [slot]) by (intros x [<-|[]]; auto).
  set (align := if rq_align devreq <? minAlign then minAlign else rq_align devreq) in *.
  set (rd := if 11 <=? c_api c then rq_reqded devreq else false) in *. set (pd := if 11 <=? c_api c then rq_prefded devreq else false) in *.
  set (di := dedicated_info c flags id) in *.
  pose proof (multi_allocate_inv c Hc (set_m v m2) [] (rq_size devreq) align (rq_tb devreq) rd pd di (Some (Z.to_N resusage)) usage flags req pref ctb pool sub [slot] I2 Hnd Hdead) as MA.
  pose proof (multi_allocate_fit (set_m v m2) (rq_size devreq) align (rq_tb devreq) rd pd di (Some (Z.to_N resusage)) usage flags req pref ctb pool sub [slot]) as MF.
  pose proof (placed_alignment c (set_m v m2) (rq_size devreq) align (rq_tb devreq) rd pd di (Some (Z.to_N resusage)) usage flags req pref ctb pool sub [slot]) as MP.
  pose proof (dedicated_exact c (set_m v m2) (rq_size devreq) align (rq_tb devreq) rd pd di (Some (Z.to_N resusage)) usage flags req pref ctb pool sub [slot]) as MD.
  pose proof (VamMemStable.multi_allocate_M c (set_m v m2) (rq_size devreq) align (rq_tb devreq) rd pd di (Some (Z.to_N resusage)) usage flags req pref ctb pool sub [slot]) as MM.
  pose proof (VamAllocArgs.multi_allocate_A c alloc_or_mem (fun _ _ => True) (fun _ => I) ltac:(intros k Hk'; destruct k; try destruct Hk'; exact I) ltac:(intros; exact I)
                (set_m v m2) (rq_size devreq) align (rq_tb devreq) rd pd di (Some (Z.to_N resusage)) usage flags req pref ctb pool sub [slot] V2 Hk ltac:(intros; exact I)) as MN.
  assert (MT : pool = None -> forall v3, multi_allocate c (set_m v m2) (rq_size devreq) align (rq_tb devreq) rd pd di (Some (Z.to_N resusage)) usage flags req pref ctb pool sub [slot] = (v3, OK tt) ->
               VamTypeBits.slot_typed c v3 slot (rq_tb devreq)).
  { intros -> v3 E3. eapply (VamTypeBits.multi_allocate_slot_typed c Hc); eauto. }
  assert (Hal : align = 0 \/ Bits.pow2 align).
  { unfold multi_allocate in E. destruct (is_pow2_or_zero align) eqn:Ea; [apply pow2_or_zero_spec; exact Ea|]. cbn [negb] in E. discriminate. }
  destruct (multi_allocate c (set_m v m2) (rq_size devreq) align (rq_tb devreq) rd pd di (Some (Z.to_N resusage)) usage flags req pref ctb pool sub [slot]) as (v3 & r3).
  destruct r3 as [[]|acode| |]; try discriminate. cbn [fst] in MM, MN.
  destruct MA as (I3 & T3 & L3 & D3). destruct (D3 slot (or_introl eq_refl)) as (a & Sa).
  specialize (MF v3 I2 Hnd Hdead eq_refl slot (or_introl eq_refl)). specialize (MP v3 Hc I2 Hnd Hdead eq_refl slot (or_introl eq_refl)).
  specialize (MD v3 Hc I2 Hnd Hdead eq_refl).
  rewrite (get_alloc_slot _ _ _ Sa) in MF, MP.
  rewrite Hdb in E.
  (* the log and the resources before the bind *)
  destruct MN as (l3 & El3 & Fl3). cbn [v_m set_m] in El3. unfold m2 in El3. cbn [m_calls log_call] in El3. rewrite Ecalls1, Hc0 in El3.
  (* bindBufferMemory / bindImageMemory with localOffset 0 *)
  unfold bind_memory in E. rewrite (get_alloc_slot _ _ _ Sa) in E.
  destruct (id =? 0); [destruct (if a_allocated (get_alloc _ slot) then _ else _) as (v5 & fr); destruct fr; discriminate|].
  destruct Sa as (Sn & Sal). rewrite Sal in E. cbn [negb] in E. change (0 <? 0) with false in E. cbn iota in E.
  destruct (VamFlush.find_offset_valid c v3 slot a I3 (conj Sn Sal)) as (o & d & Ho & Hfm & O1 & O2 & O3 & O4).
  assert (Hkind : a_kind a = 1 \/ a_kind a = 2).
  { destruct (vi_slots _ _ _ _ I3 slot _ (conj Sn Sal) ltac:(intros [])) as [(K & _)|(K & _)]; auto. }
  assert (Et : (if a_kind a =? 2 then OK 0
                else if a_kind a =? 1 then match find_offset v3 a with Some o => OK (0 + o) | None => PANIC end
                else ER VK_UNKNOWN) = OK o).
  { destruct Hkind as [K|K]; rewrite K; cbn [Z.eqb Pos.eqb]; [rewrite Ho; reflexivity|rewrite (O4 K); reflexivity]. }
  rewrite Et in E.
  unfold dev_bind in E. destruct (find_res (m_res (v_m v3)) id) as [r3|] eqn:Hf3;
    [|cbn in E; destruct (if a_allocated (get_alloc _ slot) then _ else _) as (v5 & fr); destruct fr; discriminate].
  rewrite Hfm in E. destruct (dev_fault _ _ _) as ((f1 & fired1) & bcode).
  destruct (negb (bcode =? 0)) eqn:Eb.
  { apply negb_true_iff in Eb. cbn [fst snd set_m] in E. rewrite Eb in E. destruct (if a_allocated (get_alloc _ slot) then _ else _) as (v5 & fr); destruct fr; discriminate. }
  apply negb_false_iff, Z.eqb_eq in Eb. subst bcode. cbn [Z.eqb] in E. injection E as <-.
  (* the resource found is the one created *)
  assert (Er3 : rs_id r3 = id /\ rs_kind r3 = kind /\ rs_req r3 = devreq).
  { pose proof (find_res_id _ _ _ Hf3) as Hi3. pose proof (VamMemStable.find_res_in' _ _ _ Hf3) as Hin3.
    destruct MM as ((_ & (_ & MR)) & _). cbn [v_m set_m] in MR. destruct (MR r3 Hin3) as [(r0 & Hin0 & Ek)|Hnew].
    - unfold m2 in Hin0. cbn [m_res log_call] in Hin0. rewrite Eres1 in Hin0. apply in_app_iff in Hin0.
      unfold VamMemStable.res_key in Ek. destruct Hin0 as [Hold|[<-|[]]].
      + exfalso. unfold VamMemStable.ResInv in HR. rewrite Forall_forall in HR. specialize (HR r0 Hold). assert (rs_id r0 = rs_id r3) by congruence. lia.
      + cbn in Ek. injection Ek as E1 E2 E3. auto.
    - exfalso. unfold m2 in Hnew. cbn [m_next_res log_call] in Hnew. lia. }
  destruct Er3 as (Ei3 & Ek3 & Eq3).
  unfold create_post. rewrite <- Eid. exists a, o, d, l3. cbn [v_m set_m m_calls log_call m_mems set_res m_res set_fault].
  split; [apply slot_is_set_m; exact (conj Sn Sal)|]. split; [rewrite VamFlush.find_offset_set_m; exact Ho|].
  split; [exact Hfm|]. pose proof (slot_mem_type v3 slot a d I3 (conj Sn Sal) Hfm) as Hdt. split; [exact Hdt|].
  split; [rewrite El3; reflexivity|]. split; [exact Fl3|].
  split; [erewrite find_res_replace; [rewrite Ei3, Ek3, Eq3; reflexivity|exact Hf3|cbn; exact Ei3]|].
  split; [exact O1|].
  assert (Hsz : rq_size devreq <= a_size a) by (destruct MF as (_ & [(_ & H)|(_ & H & _)]); lia).
  split; [lia|].
  split.
  { intros Hp. destruct Hkind as [K|K]; [|rewrite (O4 K); apply Z.mod_0_l; pose proof (Bits.pow2_pos _ Hp); lia].
    destruct (MP K) as (l & Hgl & Eal). pose proof (vi_lists _ _ _ _ I3 _ _ Hgl) as Hwf. pose proof (bw_align _ _ Hwf) as Hm.
    assert (Hle : rq_align devreq <= align) by (unfold align; destruct (rq_align devreq <? minAlign) eqn:E; [apply Z.ltb_lt in E; lia|lia]).
    assert (Hpa : Bits.pow2 (a_align a)).
    { rewrite Eal. destruct (Z.max_spec align (bl_minalign l)) as [(_ & ->)|(_ & ->)]; [exact Hm|]. destruct Hal as [E0|Hp2]; [|exact Hp2]. pose proof (Bits.pow2_pos _ Hp). lia. }
    apply (Bits.pow2_mod_mono o (rq_align devreq) (a_align a) Hp Hpa); [rewrite Eal; lia|apply O3; exact K]. }
  split.
  { intros Hp. destruct (MT Hp v3 eq_refl) as (_ & _ & Tb). rewrite (get_alloc_slot _ _ _ (conj Sn Sal)) in Tb. rewrite Hdt. exact Tb. }
  split.
  { intros K. split; [apply O4; exact K|]. destruct MF as (_ & [(K1 & _)|(_ & _ & Hin)]); [congruence|]. rewrite Hdt. rewrite El3 in Hin. apply in_app_iff in Hin. destruct Hin as [Hin|[Hin|[Hin|[]]]]; [exact Hin|discriminate|discriminate]. }
  intros Hapi Hrd. assert (Erd : rd = true) by (unfold rd; destruct (11 <=? c_api c) eqn:E; [exact Hrd|apply Z.leb_gt in E; lia]).
  destruct (MD (or_intror (or_introl Erd)) slot (or_introl eq_refl)) as (a2 & Sa2 & K2 & _).
  assert (a2 = a) by (destruct Sa2 as (Sn2 & _); congruence). subst a2. exact K2.
Qed.

End WithCfg.

(* ---------------------------------------------------------------- AllocateMemoryForBuffer / AllocateMemoryForImage *)

Section AllocFor.
Variable c : vcfg.
Hypothesis Hc : cfg_ok c.

(* what a successful AllocateMemoryForBuffer / ForImage leaves for the later BindBufferMemory / BindImageMemory of the
   same (resource, Allocation) pair (VamFlush.bind_step_valid: the bind passes offset-of-the-Allocation + local offset,
   inside the object, a multiple of the Allocation's alignment): the Allocation is at least as large as the requirement,
   its alignment is a power of two not below the required one, its memory type is permitted (default pools), and the
   dedicated cases as for CreateBuffer *)
Definition allocfor_post (v v' : vam) (slot res flags : Z) (pool : option Z) : Prop :=
  forall r, find_res (m_res (v_m v)) res = Some r ->
  exists a,
    slot_is v' slot a /\ rq_size (rs_req r) <= a_size a /\
    (a_kind a = 1 -> Bits.pow2 (a_align a) /\ rq_align (rs_req r) <= a_align a) /\
    (pool = None -> VamTypeBits.type_bit (rq_tb (rs_req r)) (a_type a)) /\
    (a_kind a = 2 -> In (CAlloc (a_mem a) (a_type a) (rq_size (rs_req r)) (dedicated_info c flags res) 0) (m_calls (v_m v'))) /\
    (11 <= c_api c -> rq_reqded (rs_req r) = true -> a_kind a = 2).

Lemma allocate_for_resource_fit v slot image res usage flags req pref ctb pool v' :
  VamInv c v -> 0 <= slot < zlen (v_tab v) ->
  allocate_for_resource c v slot image res usage flags req pref ctb pool = (v', OK tt) ->
  allocfor_post v v' slot res flags pool.
Proof.
  intros HI Hs E r Hf. unfold allocate_for_resource in E. destruct (res =? 0); [discriminate|].
  destruct (a_allocated (get_alloc v slot)) eqn:Hd; [discriminate|].
  set (m2 := log_call (v_m v) (CReq image res)).
  assert (Egr : get_requirements c (v_m v) image res = (m2, rs_req r, (if 11 <=? c_api c then rq_reqded (rs_req r) else false), (if 11 <=? c_api c then rq_prefded (rs_req r) else false))).
  { unfold get_requirements, dev_requirements. rewrite Hf. destruct (11 <=? c_api c); reflexivity. }
  rewrite Egr in E.
  assert (I2 : VamInv c (set_m v m2)) by (apply VamInvU_mach_same; [exact HI|apply mach_same_log]).
  assert (Hnd : NoDup [slot]) by (constructor; [intros []|constructor]).
  assert (Hdead : dead_slots (set_m v m2) [slot]) by (intros x [<-|[]]; auto).
  set (rd := if 11 <=? c_api c then rq_reqded (rs_req r) else false) in *. set (pd := if 11 <=? c_api c then rq_prefded (rs_req r) else false) in *.
  set (sub := if image then 3 else 2) in *. set (di := dedicated_info c flags res) in *.
  pose proof (multi_allocate_inv c Hc (set_m v m2) [] (rq_size (rs_req r)) (rq_align (rs_req r)) (rq_tb (rs_req r)) rd pd di None usage flags req pref ctb pool sub [slot] I2 Hnd Hdead) as MA.
  pose proof (multi_allocate_fit c Hc (set_m v m2) (rq_size (rs_req r)) (rq_align (rs_req r)) (rq_tb (rs_req r)) rd pd di None usage flags req pref ctb pool sub [slot]) as MF.
  pose proof (placed_alignment c (set_m v m2) (rq_size (rs_req r)) (rq_align (rs_req r)) (rq_tb (rs_req r)) rd pd di None usage flags req pref ctb pool sub [slot]) as MP.
  pose proof (dedicated_exact c (set_m v m2) (rq_size (rs_req r)) (rq_align (rs_req r)) (rq_tb (rs_req r)) rd pd di None usage flags req pref ctb pool sub [slot]) as MD.
  assert (MT : pool = None -> VamTypeBits.slot_typed c v' slot (rq_tb (rs_req r))).
  { intros Hp. rewrite Hp in E. eapply (VamTypeBits.multi_allocate_slot_typed c Hc); eauto. }
  rewrite E in MA. cbn in MA. destruct MA as (I3 & T3 & L3 & D3). destruct (D3 slot (or_introl eq_refl)) as (a & Sa).
  specialize (MF v' I2 Hnd Hdead E slot (or_introl eq_refl)). specialize (MP v' Hc I2 Hnd Hdead E slot (or_introl eq_refl)).
  specialize (MD v' Hc I2 Hnd Hdead E).
  rewrite (get_alloc_slot _ _ _ Sa) in MF, MP.
  exists a. split; [exact Sa|]. split; [destruct MF as (_ & [(_ & H)|(_ & H & _)]); lia|].
  split.
  { intros K. split; [apply (vi_align _ _ _ _ I3 slot a Sa K)|]. destruct (MP K) as (l & _ & Eal). rewrite Eal. lia. }
  split.
  { intros Hp. destruct (MT Hp) as (_ & _ & Tb). rewrite (get_alloc_slot _ _ _ Sa) in Tb. exact Tb. }
  split.
  { intros K. destruct MF as (_ & [(K1 & _)|(_ & _ & Hin)]); [congruence|exact Hin]. }
  intros Hapi Hrd. assert (Erd : rd = true) by (unfold rd; destruct (11 <=? c_api c) eqn:E1; [exact Hrd|apply Z.leb_gt in E1; lia]).
  destruct (MD (or_intror (or_introl Erd)) slot (or_introl eq_refl)) as (a2 & Sa2 & K2 & _).
  assert (a2 = a) by (destruct Sa2 as (Sn2 & _); destruct Sa as (Sn & _); congruence). subst a2. exact K2.
Qed.

End AllocFor.
