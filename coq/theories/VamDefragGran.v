(* VamDefragGran.v — the defragmentation calls keep the granularity bookkeeping sound (VamGran.GV), for any granularity.
   BeginDefragPass: VamDefragPass.defrag_pass_G (the planner's postcondition DefragGranProofs.CInv gives GInv of the new TLSF
   states).  Here: BeginDefragmentation, EndDefragPass (SetAllocationUserData, swapBlockAllocation, Free), Finish, and one
   defragmentation call / one API call as a step. *)
From Coq Require Import ZArith List Bool Lia Permutation.
From Arsenal Require Import Util Budget VamDev VamBlockList VamDefrag Vam VamInvMeta VamInv VamInvUpd VamInvDev VamInvStep VamInvStep2 VamInvThm.
From Arsenal Require Import VamGran VamDefragInv VamDefragStep VamDefragPass.
From Arsenal Require GranInv Pass PassProofs Defrag SyncMem.
Import ListNotations.
Open Scope Z_scope.

Section Dfr.
Variable c : vcfg.
Hypothesis Hc : cfg_ok c.

Lemma cfg3_incsort l b : cfg3 l (set_incsort l b).
Proof. repeat split. Qed.

Lemma GR_perm v lr l bs flag : get_blist v lr = Some l -> Permutation (bl_blocks l) bs -> GR c v (set_blist v lr (set_incsort (set_blocks l bs) flag)).
Proof.
  intros Hg P. apply (GR_sub_blocks c v lr l _ Hg); [repeat split|]. intros b Hb. cbn in Hb. eapply Permutation_in; [apply Permutation_sym; exact P|exact Hb].
Qed.

Lemma prepare_list_G v lr : GR c v (prepare_list v lr).
Proof. unfold prepare_list. destruct (get_blist v lr) as [l|] eqn:Hg; [|apply GR_refl]. apply (GR_perm v lr l _ false Hg). apply sort_by_free_size_perm. Qed.

Lemma prepare_lists_G lrs : forall v, GR c v (fold_left prepare_list lrs v).
Proof. induction lrs as [|lr tl IH]; intros v; cbn [fold_left]; [apply GR_refl|]. eapply GR_trans; [apply prepare_list_G|apply IH]. Qed.

Lemma defrag_begin_G v flags pool mb ma : GR c v (fst (defrag_begin c v flags pool mb ma)).
Proof.
  unfold defrag_begin. destruct (_ || _); [apply GR_refl|]. destruct (_ =? 3); [apply GR_refl|].
  destruct (match pool with Some uid => list_is_linear v (LPool uid) | None => false end); [apply GR_refl|].
  destruct (negb _); cbn [fst]; apply prepare_lists_G.
Qed.

Lemma set_ud_G w lr bid h tag w' : set_block_user_data w lr bid h tag = Some w' -> GR c w w'.
Proof.
  unfold set_block_user_data. destruct (get_block w lr bid) as [b|] eqn:Hgb; [|discriminate].
  destruct (meta_set_user_data (bk_meta b) h tag) as [mt'|] eqn:E; [|discriminate]. intros H; injection H as <-.
  destruct (get_block_in _ _ _ _ Hgb) as (l & Hg & _). apply (GR_put_block c w lr l _ Hg). intros HV.
  eapply meta_set_ud_ok; eauto. eapply get_block_ok; eauto.
Qed.

(* swapBlockAllocation between two block Allocations of one list *)
Lemma swap_G v s t :
  a_lref (get_alloc v s) = a_lref (get_alloc v t) -> GR c v (fst (swap_block_allocation v s t)).
Proof.
  intros El. unfold swap_block_allocation. destruct (negb (a_kind (get_alloc v s) =? 1) || negb (a_kind (get_alloc v t) =? 1)) eqn:Ek; [apply GR_refl|].
  apply orb_false_iff in Ek. destruct Ek as (Ka & Kb). apply negb_false_iff in Ka, Kb. apply Z.eqb_eq in Ka, Kb.
  match goal with |- context [set_block_user_data v ?a1 ?a2 ?a3 t] => destruct (set_block_user_data v a1 a2 a3 t) as [v1|] eqn:E1 end; [|apply GR_refl].
  pose proof (set_ud_G _ _ _ _ _ _ E1) as H1.
  assert (Hl1 : forall lr l1, get_blist v1 lr = Some l1 -> exists l, get_blist v lr = Some l /\ cfg3 l l1).
  { intros lr l1 G1. unfold set_block_user_data in E1. destruct (get_block v _ _) as [b0|] eqn:Hgb; [|discriminate].
    destruct (meta_set_user_data _ _ _) as [mt'|]; [|discriminate]. injection E1 as <-.
    destruct (get_block_in _ _ _ _ Hgb) as (l0 & Hg0 & _). destruct (lref_eq_dec lr (a_lref (get_alloc v s))) as [->|Hne].
    - rewrite (put_block_get' _ _ _ _ Hg0) in G1. injection G1 as <-. exists l0. split; [exact Hg0|apply cfg3_set_blocks].
    - rewrite put_block_other in G1 by exact Hne. exists l1. split; [exact G1|apply cfg3_refl]. }
  set (a := get_alloc v s) in *. set (b := get_alloc v t) in *.
  match goal with |- context [set_alloc (set_alloc v1 s ?a') t ?b'] =>
    assert (H2 : GR c v (set_alloc (set_alloc v1 s a') t b')) end.
  { intros HV. pose proof (H1 HV) as V1.
    (* what GV says about a and b in v, carried to v1 *)
    assert (Pa : a_allocated a = true -> GranInv.kind_ok (a_sub a) /\ forall l1, get_blist v1 (a_lref a) = Some l1 -> bl_algo l1 = 0 -> rnd_ok (bl_gran l1) (a_sub a) (a_size a)).
    { intros Hal. destruct (gv_allocs _ _ HV s a (get_alloc_allocated v s Hal) Ka) as (X1 & X2). split; [exact X1|].
      intros l1 G1 A1. destruct (Hl1 _ _ G1) as (l & G0 & (_ & Eg & Ea & _)). rewrite Eg. apply X2; [exact G0|congruence]. }
    assert (Pb : a_allocated b = true -> GranInv.kind_ok (a_sub b) /\ forall l1, get_blist v1 (a_lref b) = Some l1 -> bl_algo l1 = 0 -> rnd_ok (bl_gran l1) (a_sub b) (a_size b)).
    { intros Hal. destruct (gv_allocs _ _ HV t b (get_alloc_allocated v t Hal) Kb) as (X1 & X2). split; [exact X1|].
      intros l1 G1 A1. destruct (Hl1 _ _ G1) as (l & G0 & (_ & Eg & Ea & _)). rewrite Eg. apply X2; [exact G0|congruence]. }
    apply GR_set_alloc; [|apply GR_set_alloc; [|exact V1]].
    - intros _ Hal _. cbn [a_allocated a_sub a_size a_lref] in *. destruct (Pb Hal) as (X1 & X2). split; [exact X1|].
      intros l1 G1 A1. rewrite get_blist_set_alloc in G1. rewrite <- El in X2. apply X2; auto.
    - intros _ Hal _. cbn [a_allocated a_sub a_size a_lref] in *. destruct (Pa Hal) as (X1 & X2). split; [exact X1|].
      intros l1 G1 A1. rewrite El in X2. apply X2; auto. }
  match goal with |- context [set_block_user_data ?w ?a1 ?a2 ?a3 s] => destruct (set_block_user_data w a1 a2 a3 s) as [v3|] eqn:E3 end; cbn [fst]; [|exact H2].
  eapply GR_trans; [exact H2|apply (set_ud_G _ _ _ _ _ _ E3)].
Qed.

Lemma free_or_panic_G v s : GR c v (fst (free_or_panic c v s)).
Proof.
  unfold free_or_panic. destruct (negb _); [apply GR_refl|]. destruct (negb _); [apply GR_refl|].
  pose proof (bl_free_G c v (a_lref (get_alloc v s)) s false) as H. destruct (bl_free c v _ s false) as (v1 & r). cbn [fst] in H.
  destruct r as [[]|code| |]; cbn [fst]; try exact H. eapply GR_trans; [exact H|apply GR_unallocate].
Qed.

Lemma complete_move_G v lr mv d : mv_ok v lr mv -> GR c v (fst (complete_move c v mv d)).
Proof.
  intros (a & b & Sa & Sb & Ka & Kb & La & Lb & _). unfold complete_move. fold (src_of mv). fold (tmp_of mv).
  match goal with |- context [let '(v1, r1) := ?e in _] => assert (H1 : GR c v (fst e)); [|destruct e as (v1 & r1)] end.
  { destruct (d =? 0); [|destruct (d =? 2); [apply free_or_panic_G|apply GR_refl]].
    apply swap_G. rewrite (get_alloc_slot _ _ _ Sa), (get_alloc_slot _ _ _ Sb). congruence. }
  cbn [fst] in H1. destruct r1 as [[]|code| |]; cbn [fst]; try exact H1. eapply GR_trans; [exact H1|apply free_or_panic_G].
Qed.

Lemma complete_moves_G mvs : forall v lr p imm ds,
  VamInv c v -> moves_ok v lr mvs -> GR c v (fst (fst (fst (complete_moves c v lr p imm mvs ds)))).
Proof.
  induction mvs as [|mv rest IH]; intros v lr p imm ds HI (Hnd & Hf); cbn [complete_moves]; [apply GR_refl|].
  destruct (list_alloc_stats v lr) as (pc & pb).
  inversion Hf as [|? ? Hmv Hrest]; subst.
  destruct (mv_slots_cons _ _ Hnd) as (Hne & Hs & Ht & Hnd').
  pose proof (complete_move_inv c v lr mv (norm_decision (hd 0 ds)) HI Hmv Hne) as P.
  pose proof (complete_move_G v lr mv (norm_decision (hd 0 ds)) Hmv) as PG.
  destruct (complete_move c v mv (norm_decision (hd 0 ds))) as (v1 & r). cbn [fst] in PG. destruct r as [[]|code| |]; cbn [fst]; try exact PG.
  destruct (list_alloc_stats v1 lr) as (ac & ab).
  assert (Hok1 : moves_ok v1 lr rest).
  { apply (moves_ok_frame v v1 lr [src_of mv; tmp_of mv] rest); [apply P| |split; auto].
    intros s [<-|[<-|[]]]; auto. }
  eapply GR_trans; [exact PG|]. apply IH; [apply P|exact Hok1].
Qed.

Lemma complete_pass_G v dc p ds :
  VamInv c v -> moves_ok v (dc_lr dc) (Defrag.c_moves (dc_ctx dc)) -> GR c v (fst (fst (fst (complete_pass c v dc p ds)))).
Proof.
  intros HI Hok. unfold complete_pass.
  pose proof (complete_moves_G (Defrag.c_moves (dc_ctx dc)) v (dc_lr dc) p [] ds HI Hok) as H.
  destruct (complete_moves c v (dc_lr dc) p [] (Defrag.c_moves (dc_ctx dc)) ds) as (((v1 & p1) & imm) & r). cbn [fst] in H.
  destruct r as [[]|code| |]; cbn [fst]; try exact H. destruct (get_blist v1 (dc_lr dc)) as [l|] eqn:Hg; cbn [fst]; [|exact H].
  pose proof (swap_immovable_fold imm (bl_blocks l) (Defrag.c_immovable (dc_ctx dc))) as Pm.
  destruct (fold_left _ imm (bl_blocks l, Defrag.c_immovable (dc_ctx dc))) as (bs & immc). cbn [fst] in *.
  eapply GR_trans; [exact H|]. apply (GR_sub_blocks c v1 (dc_lr dc) l _ Hg); [apply cfg3_set_blocks|]. intros b Hb. cbn in Hb.
  eapply Permutation_in; [exact Pm|exact Hb].
Qed.

Lemma defrag_end_G v run ds : VamInv c v -> run_ok v run -> GR c v (fst (fst (defrag_end c v run ds))).
Proof.
  intros HI (_ & _ & Hr). unfold defrag_end. destruct (nth_z (dr_ctxs run) (dr_progress run)) as [dc|] eqn:En; [|apply GR_refl].
  destruct (Defrag.c_moves (dc_ctx dc)) as [|m0 ms0] eqn:Em; [apply GR_refl|].
  destruct (Hr _ _ En) as (Hok & _). specialize (Hok eq_refl). rewrite Em in Hok.
  pose proof (complete_pass_G v dc (dr_pass run) ds HI ltac:(rewrite Em; exact Hok)) as H.
  destruct (complete_pass c v dc (dr_pass run) ds) as (((v1 & dc') & p') & r). cbn [fst] in H.
  destruct r as [[]|code| |]; exact H.
Qed.

Lemma defrag_finish_G v run : GR c v (fst (defrag_finish v run)).
Proof.
  unfold defrag_finish. cbn [fst]. generalize (dr_ctxs run). intros ctxs. revert v. induction ctxs as [|dc tl IH]; intros v; cbn [fold_left]; [apply GR_refl|].
  eapply GR_trans; [|apply IH]. destruct (get_blist v (dc_lr dc)) as [l|] eqn:Hg; [|apply GR_refl].
  apply (GR_sub_blocks c v (dc_lr dc) l _ Hg); [apply cfg3_incsort|]. intros b Hb. exact Hb.
Qed.

End Dfr.
