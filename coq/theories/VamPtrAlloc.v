(* VamPtrAlloc.v — C14 (pointer stability), the allocating API calls.  An allocation adds references (forward half:
   VamMonoRefs), unwinds what it added when it fails (no Map any more), and tries dedicated memory (fresh objects only).
   Each of these pieces begins and ends in a state with the full invariant VamInvB, so the boundary argument of
   VamPtrStable applies piece by piece: a memory object M that has a user the call does not touch sees no
   vkUnmapMemory, vkFreeMemory or vkMapMemory.  (Scripts of the composite functions follow VamBalStep2.v.) *)
From Coq Require Import ZArith List Bool Lia Permutation.
From Arsenal Require Import Util Budget BudgetProofs VamDev VamBlockList Vam VamInvMeta VamInv VamInvUpd VamInvDev.
From Arsenal Require Import VamInvStep VamInvStep2 VamAcct VamAcctStep VamAcctStep2 VamMap VamMapStep VamMapStep2 VamBal VamBalStep VamBalStep2.
From Arsenal Require Import VamCallPass VamMonoRefs VamPtrStable.
From Arsenal Require SyncMem SyncMemProofs VamMemStable VamAllocArgs.
Import ListNotations.
Open Scope Z_scope.

(* a call that says nothing about the mapping of M *)
Definition calm (M : Z) (k : call) : Prop :=
  k <> CUnmap M /\ k <> CFree M /\ forall off size r, k <> CMap M off size r.

Lemma calm_keeps M l : Forall (calm M) l <-> keeps_mapping M (rev l).
Proof.
  unfold keeps_mapping. rewrite Forall_forall. split.
  - intros H. split; [intros Hin; apply in_rev in Hin; apply (proj1 (H _ Hin)); reflexivity|].
    split; [intros Hin; apply in_rev in Hin; apply (proj1 (proj2 (H _ Hin))); reflexivity|].
    intros off size r Hin. apply in_rev in Hin. apply (proj2 (proj2 (H _ Hin)) off size r). reflexivity.
  - intros (A & B & C0) k Hk. apply in_rev in Hk. split; [intros ->; auto|]. split; [intros ->; auto|intros off size r ->; eapply C0; eauto].
Qed.

Lemma replay_app_inv ms a : forall b ms2, replay ms (a ++ b) ms2 -> exists ms1, replay ms a ms1 /\ replay ms1 b ms2.
Proof.
  intros b. induction b as [|k b IH] using rev_ind; intros ms2 H.
  - rewrite app_nil_r in H. exists ms2. split; [exact H|constructor].
  - rewrite app_assoc in H. remember ((a ++ b) ++ [k]) as L eqn:EL. destruct H as [ms|ms cs ms1 k' ms2 R Hok He].
    + symmetry in EL. apply app_eq_nil in EL. destruct EL as (_ & E). discriminate.
    + apply app_inj_tail in EL. destruct EL as (-> & ->). destruct (IH _ R) as (m1 & R1 & R2). exists m1. split; [exact R1|eapply rp_snoc; eauto].
Qed.

Lemma call_eff_fun ms k m1 m2 : call_eff ms k m1 -> call_eff ms k m2 -> m1 = m2.
Proof. destruct k; cbn; congruence. Qed.

Lemma replay_fun ms cs : forall m1 m2, replay ms cs m1 -> replay ms cs m2 -> m1 = m2.
Proof.
  induction cs as [|k cs IH] using rev_ind; intros m1 m2 H1 H2.
  - assert (Hn : forall m, replay ms [] m -> m = ms).
    { intros m H. remember (@nil call) as L eqn:EL. destruct H as [|? cs0 ? k0 ? ? ? ?]; [reflexivity|destruct cs0; discriminate]. }
    rewrite (Hn _ H1), (Hn _ H2). reflexivity.
  - assert (Hs : forall m, replay ms (cs ++ [k]) m -> exists x, replay ms cs x /\ call_eff x k m).
    { intros m H. remember (cs ++ [k]) as L eqn:EL. destruct H as [|? cs0 x k0 m' R O E]; [destruct cs; discriminate|].
      apply app_inj_tail in EL. destruct EL as (-> & ->). eauto. }
    destruct (Hs _ H1) as (x1 & R1 & E1). destruct (Hs _ H2) as (x2 & R2 & E2). rewrite (IH _ _ R1 R2) in E1. eapply call_eff_fun; eauto.
Qed.

Section WithCfg.
Variable c : vcfg.
Hypothesis Hc : cfg_ok c.
Hypothesis Hmax : 0 <= c_maxcount c < 2147483647.
Hypothesis Hlarge : 0 <= c_large c < 2 ^ 61.
Variable ms0 : list dmem.
Variable G : Z -> Z.
Variable M : Z.

Notation VamInvB := (VamBalStep.VamInvB c ms0 G).
Notation vb_b := (VamBalStep.vb_b c ms0 G).
Notation vb_s := (VamBalStep.vb_s c Hc Hmax Hlarge ms0 G).
Notation vb_mm := (VamBalStep.vb_mm c Hc Hmax Hlarge ms0 G).
Notation NAk := (NA (calm M)).
Notation NAvk := (NAv (calm M)).

(* the protector: an Allocation on M, outside the released set, that is in use *)
Definition prot (v : vam) (X : list Z) (p : Z) : Prop :=
  exists a, slot_is v p a /\ ~ In p X /\ a_mem a = M /\ 1 <= G p + pcount a.

Lemma prot_frame v v' X X' S p :
  prot v X p -> tab_frame v v' S -> ~ In p S -> ~ In p X' -> prot v' X' p.
Proof.
  intros (a & Sa & _ & Em & Hu) T Hp HX. exists a. split; [|auto]. destruct Sa as (Sn & Sal). split; [|exact Sal].
  pose proof (get_alloc_frame _ _ _ _ T Hp) as E. destruct T as (El & _).
  assert (Hr : 0 <= p < zlen (v_tab v)) by (eapply nth_z_some_range; eauto).
  unfold get_alloc in E. rewrite Sn in E. destruct (nth_z (v_tab v') p) as [a'|] eqn:En; [cbn in E; congruence|].
  exfalso. apply VamAllocArgs.nth_z_none_rng in En. lia.
Qed.

Lemma prot_facts v U X p : VamInvB v U X -> prot v X p ->
  mappedM M (m_mems (v_m v)) /\ RG M 1 v /\ M <= m_next (v_m v).
Proof.
  intros HI (a & Sa & HX & Em & Hu). pose proof (vb_s _ _ _ HI) as HU. pose proof (vb_b _ _ _ HI) as HB. destruct (vb_mm _ _ _ HI) as (HM & _).
  assert (Hm : mappedM M (m_mems (v_m v))).
  { destruct (vi_slots _ _ _ _ HU p a Sa HX) as [(K & l & b & rg & Hg & Hb & Hid & _ & _ & _ & _ & _ & Hmem & _)|(K & _)].
    - destruct (mi_blocks _ _ HM _ _ _ Hg Hb) as (d & F & (H0 & H1 & _) & Fr). destruct (H1 Fr) as (_ & E & Hiff). cbn in E.
      exists d. rewrite <- Em, Hmem. split; [exact F|]. rewrite E. apply Hiff. left. rewrite (bb_blocks _ _ _ HB _ _ _ Hg Hb).
      pose proof (refs_truth_ge v G X (bk_mem b) p (bb_G _ _ _ HB) (slot_is_range _ _ _ Sa)) as Hge.
      rewrite (users_live v G X (bk_mem b) p) in Hge; [|rewrite (get_alloc_slot _ _ _ Sa); apply Sa|exact HX|rewrite (get_alloc_slot _ _ _ Sa); exact K|rewrite (get_alloc_slot _ _ _ Sa); exact Hmem]. rewrite (get_alloc_slot _ _ _ Sa) in Hge. lia.
    - destruct (mi_ded _ _ HM p a Sa HX K) as (d & F & (H0 & H1 & _) & Fr). destruct (H1 Fr) as (_ & E & Hiff). cbn in E.
      exists d. rewrite <- Em. split; [exact F|]. rewrite E. apply Hiff. left. rewrite (bb_ded _ _ _ HB p a Sa K). lia. }
  split; [exact Hm|]. split.
  - intros b (lr & l & Hg & Hb) Eb. rewrite (bb_blocks _ _ _ HB _ _ _ Hg Hb), Eb.
    destruct (vi_slots _ _ _ _ HU p a Sa HX) as [(K & _)|(K & _)].
    + pose proof (refs_truth_ge v G X M p (bb_G _ _ _ HB) (slot_is_range _ _ _ Sa)) as Hge.
      rewrite (users_live v G X M p) in Hge; [|rewrite (get_alloc_slot _ _ _ Sa); apply Sa|exact HX|rewrite (get_alloc_slot _ _ _ Sa); exact K|rewrite (get_alloc_slot _ _ _ Sa); exact Em]. rewrite (get_alloc_slot _ _ _ Sa) in Hge. lia.
    + exfalso. apply (vi_ded_not_block _ _ _ _ HU p a lr l b Sa K Hg Hb). congruence.
  - destruct Hm as (d & Fd & _). destruct (find_mem_in _ _ _ Fd) as (Hin & Hid). pose proof (vi_dev_next _ _ _ _ HU) as Hn. rewrite Forall_forall in Hn. specialize (Hn d Hin). lia.
Qed.

(* the boundary argument for a piece of a call: both ends have the invariant and the protector *)
Lemma piece_keeps v U X p v' U' X' p' l :
  VamInvB v U X -> prot v X p -> VamInvB v' U' X' -> prot v' X' p' -> m_calls (v_m v') = l ++ m_calls (v_m v) ->
  succ_alloc_ne M (rev l) -> no_remap M (rev l) -> Forall (calm M) l.
Proof.
  intros HI Pp HI' Pp' El Hal Hnr. apply calm_keeps.
  destruct (vb_mm _ _ _ HI) as (_ & L1). destruct (vb_mm _ _ _ HI') as (_ & L2). unfold LogOk in L1, L2. rewrite El, rev_app_distr in L2.
  destruct (replay_app_inv _ _ _ _ L2) as (m1 & R1 & R2). rewrite (replay_fun _ _ _ _ R1 L1) in R2.
  apply (boundary_keeps_mapping M _ _ _ R2 (vi_dev_nodup _ _ _ _ (vb_s _ _ _ HI)) (proj1 (prot_facts v U X p HI Pp)) (proj1 (prot_facts v' U' X' p' HI' Pp')) Hal Hnr).
Qed.

(* ---------------------------------------------------------------- logs *)

Lemma NA_and (P1 P2 : call -> Prop) m m' : NA P1 m m' -> NA P2 m m' -> NA (fun k => P1 k /\ P2 k) m m'.
Proof.
  intros (l1 & E1 & F1) (l2 & E2 & F2). assert (l1 = l2) by (rewrite E1 in E2; apply app_inv_tail in E2; exact E2). subst l2.
  exists l1. split; [exact E1|]. rewrite Forall_forall in *. auto.
Qed.

Lemma NA_impl (P1 P2 : call -> Prop) m m' : (forall k, P1 k -> P2 k) -> NA P1 m m' -> NA P2 m m'.
Proof. intros H (l & E & F). exists l. split; [exact E|eapply Forall_impl; eauto]. Qed.

(* a log that first only adds references (no unmap of M, no allocation of M) and then never maps *)
Lemma fwd_quiet_log lF lU : Forall (P M) lF -> Forall quiet_call lU -> succ_alloc_ne M (rev (lU ++ lF)) /\ no_remap M (rev (lU ++ lF)).
Proof.
  intros FF FU. rewrite rev_app_distr. apply Forall_rev in FF. apply Forall_rev in FU. rewrite Forall_forall in FF, FU. split.
  - intros id ty size ded Hin Eid. subst id. apply in_app_iff in Hin. destruct Hin as [Hin|Hin]; [apply (proj2 (FF _ Hin) ty size ded); reflexivity|destruct (FU _ Hin)].
  - intros pre post E off size Hin. apply app_eq_app in E. destruct E as (l & [(E1 & E2)|(E1 & E2)]).
    + destruct l as [|x l]; [cbn in E2; apply (FU (CMap M off size 0)); rewrite <- E2; right; exact Hin|].
      injection E2 as <- E2. apply (proj1 (FF (CUnmap M) ltac:(rewrite E1; apply in_app_iff; right; left; reflexivity))). reflexivity.
    + apply (FU (CMap M off size 0)). rewrite E2. apply in_app_iff. right. right. exact Hin.
Qed.

Lemma quiet_log' l : Forall quiet_call l -> succ_alloc_ne M (rev l) /\ no_remap M (rev l).
Proof. intros F. apply quiet_log. apply Forall_rev. exact F. Qed.

Definition PD (k : call) : Prop := (forall off size, k <> CMap M off size 0) /\ (forall ty size ded, k <> CAlloc M ty size ded 0).

Lemma pd_log l : Forall PD l -> succ_alloc_ne M (rev l) /\ no_remap M (rev l).
Proof.
  intros F. apply Forall_rev in F. rewrite Forall_forall in F. split.
  - intros id ty size ded Hin ->. apply (proj2 (F _ Hin) ty size ded). reflexivity.
  - intros pre post E off size Hin. apply (proj1 (F (CMap M off size 0) ltac:(rewrite E; apply in_app_iff; right; right; exact Hin)) off size). reflexivity.
Qed.

Lemma quiet_PD k : quiet_call k -> PD k.
Proof. destruct k; cbn; try contradiction; intros _; split; intros; discriminate. Qed.

(* ---------------------------------------------------------------- memoryBlockList.Allocate *)

Lemma bl_allocate_log v lr slots size align0 flags sub :
  RG M 1 v -> M <= m_next (v_m v) ->
  exists lF lU, m_calls (v_m (fst (bl_allocate c v lr slots size align0 flags sub))) = lU ++ lF ++ m_calls (v_m v) /\ Forall (P M) lF /\ Forall quiet_call lU.
Proof.
  intros HR Hn. unfold bl_allocate. destruct (get_blist v lr) as [l|]; [|exists [], []; cbn; auto].
  match goal with |- context [allocate_loop c v lr slots [] size ?al flags sub] =>
    pose proof (allocate_loop_F c M slots v lr [] size al flags sub Hn) as (_ & _ & H1); destruct (allocate_loop c v lr slots [] size al flags sub) as ((v1 & r) & done) end.
  cbn [fst] in H1. destruct (H1 HR) as (lF & EF & FF).
  destruct r as [[]|code| |]; cbn [fst]; [exists lF, []; cbn; auto| |exists lF, []; cbn; auto|exists lF, []; cbn; auto].
  pose proof (unwind_loop_L c quiet_call ltac:(intros; exact I) ltac:(intros; exact I) done v1 lr) as (l2 & E2 & F2).
  destruct (unwind_loop c v1 lr done) as (v2 & ur). cbn [fst] in E2.
  destruct ur as [[]|ucode| |]; cbn [fst]; [|exists lF, l2; rewrite E2, EF; auto|exists lF, l2; rewrite E2, EF; auto|exists lF, l2; rewrite E2, EF; auto].
  pose proof (release_empty_since_L c quiet_call ltac:(intros; exact I) v2 lr (bl_next l)) as (l3 & E3 & F3).
  destruct (release_empty_since c v2 lr (bl_next l)) as (v3 & rr). cbn [fst] in E3.
  exists lF, (l3 ++ l2). split; [destruct rr as [[]|rcode| |]; cbn [fst]; rewrite E3, E2, EF, <- app_assoc; reflexivity|]. split; [exact FF|apply Forall_app; auto].
Qed.

Lemma bl_allocate_K v U X lr slots size align0 flags sub p :
  VamInvB v U X -> align0 = 0 \/ Bits.pow2 align0 -> NoDup slots -> dead_slots v slots -> prot v X p -> ~ In p slots ->
  match snd (bl_allocate c v lr slots size align0 flags sub) with
  | PANIC | STUCK => True
  | _ => NAvk v (fst (bl_allocate c v lr slots size align0 flags sub))
  end.
Proof.
  intros HI Hal Hnd Hdead Pp Hps. destruct (prot_facts v U X p HI Pp) as (_ & HR & Hn).
  destruct (bl_allocate_log v lr slots size align0 flags sub HR Hn) as (lF & lU & El & FF & FU).
  pose proof (VamBalStep.bl_allocate_inv c Hc Hmax Hlarge ms0 G v U X lr slots size align0 flags sub HI Hal Hnd Hdead) as BA.
  destruct (bl_allocate c v lr slots size align0 flags sub) as (v' & r). cbn [fst snd] in *.
  assert (HK : VamBalStep.keptS c ms0 G v v' U X slots -> NAvk v v').
  { intros (I' & T' & _). rewrite app_assoc in El. exists (lU ++ lF). split; [exact El|].
    destruct (fwd_quiet_log lF lU FF FU) as (A & B). apply (piece_keeps v U X p v' U X p (lU ++ lF) HI Pp I' (prot_frame _ _ _ _ _ _ Pp T' Hps ltac:(destruct Pp as (? & _ & H & _); exact H)) El A B). }
  destruct r as [[]|code| |]; auto; apply HK; apply BA.
Qed.

(* ---------------------------------------------------------------- dedicated memory: fresh objects only *)

Lemma sm_map_PD m mem s : mem <> M -> NA PD m (fst (fst (sm_map c m mem s))).
Proof.
  intros Hne. assert (Pm : forall off size r, PD (CMap mem off size r)) by (intros; split; [intros o s0 E; injection E as E _ _ _; contradiction|intros; discriminate]).
  unfold sm_map.
  assert (H : NA PD m (fst (dev_map c m mem))).
  { unfold dev_map. destruct (find_mem _ _); [|apply NA_log'; [reflexivity|apply Pm]]. destruct (negb _); [apply NA_log'; [reflexivity|apply Pm]|].
    destruct (_ <=? 0); [apply NA_log'; [reflexivity|apply Pm]|].
    destruct (dev_fault _ _ _) as ((f1 & fired1) & r). destruct (negb _); cbn [fst]; apply NA_log'; [reflexivity|apply Pm|reflexivity|apply Pm]. }
  destruct (dev_map c m mem) as (m1 & code). destruct (SyncMem.do_map _ _ _) as ((s' & r) & cs). cbn in *. destruct cs; [apply NA_refl|exact H].
Qed.

Lemma alloc_vk_PD m ty size ded : M <= m_next m -> NA PD m (fst (alloc_vk c m ty size ded)).
Proof.
  intros Hn. eapply NA_impl; [|apply (NA_and _ _ _ _ (alloc_vk_fresh c M m ty size ded Hn) (alloc_vk_NA c (fun k => forall off size, k <> CMap M off size 0) ltac:(intros; discriminate) m ty size ded))].
  intros k ((_ & A) & B). split; auto.
Qed.

Lemma ded_page_D v lr ty size sub doMap allowed slot ded :
  M <= m_next (v_m v) -> NA PD (v_m v) (v_m (fst (allocate_dedicated_page c v lr ty size sub doMap allowed slot ded))) /\
                         M <= m_next (v_m (fst (allocate_dedicated_page c v lr ty size sub doMap allowed slot ded))).
Proof.
  intros Hn. pose proof (VamMemStable.ded_page_M c v lr ty size sub doMap allowed slot ded) as ((Hmn & _) & _). split; [|lia].
  unfold allocate_dedicated_page. pose proof (alloc_vk_PD (v_m v) ty size ded Hn) as H1.
  destruct (alloc_vk c (v_m v) ty size ded) as (m1 & r) eqn:Ea. cbn [fst] in H1. destruct r as [mem|code| |]; try exact H1.
  pose proof (alloc_vk_id c _ _ _ _ _ _ Ea) as Eid.
  assert (H2 : NA PD m1 (fst (fst (if doMap then sm_map c m1 mem SyncMem.sm_init else (m1, SyncMem.sm_init, OK tt))))) by (destruct doMap; [apply sm_map_PD; lia|apply NA_refl]).
  destruct (if doMap then sm_map c m1 mem SyncMem.sm_init else (m1, SyncMem.sm_init, OK tt)) as ((m2 & s) & mr). cbn [fst] in H2.
  assert (K2 : NA PD (v_m v) m2) by (eapply NA_trans; eauto).
  destruct mr as [[]|code| |]; cbn [fst v_m set_m]; try exact K2.
  - destruct (_ && _); cbn [fst v_m set_m set_alloc set_tab]; [exact K2|]. eapply NA_trans; [exact K2|apply (add_allocation_NA c PD)].
  - pose proof (free_vk_NA c PD ltac:(intros; apply quiet_PD; exact I) m2 ty size mem) as H3. destruct (free_vk c m2 ty size mem) as (m3 & fr). cbn [fst] in *. eapply NA_trans; eauto.
Qed.

Lemma dedicated_loop_D slots : forall v lr ty size sub doMap allowed done ded,
  M <= m_next (v_m v) -> NA PD (v_m v) (v_m (fst (fst (dedicated_loop c v lr ty size sub doMap allowed slots done ded)))).
Proof.
  induction slots as [|s tl IH]; intros v lr ty size sub doMap allowed done ded Hn; cbn [dedicated_loop]; [apply NA_refl|].
  destruct (ded_page_D v lr ty size sub doMap allowed s ded Hn) as (H & Hn1).
  destruct (allocate_dedicated_page c v lr ty size sub doMap allowed s ded) as (v1 & r). cbn [fst] in H, Hn1.
  destruct r as [[]|code| |]; cbn [fst]; try exact H. eapply NA_trans; [exact H|apply IH; exact Hn1].
Qed.

Lemma allocate_dedicated_D v lr ty size sub doMap allowed slots ded :
  M <= m_next (v_m v) -> NA PD (v_m v) (v_m (fst (allocate_dedicated c v lr ty size sub doMap allowed slots ded))).
Proof.
  intros Hn. unfold allocate_dedicated. destruct slots as [|s0 tl0] eqn:Es; [apply NA_refl|]. rewrite <- Es.
  pose proof (dedicated_loop_D slots v lr ty size sub doMap allowed [] ded Hn) as H.
  destruct (dedicated_loop c v lr ty size sub doMap allowed slots [] ded) as ((v1 & r) & done). cbn [fst] in H.
  destruct r as [[]|code| |]; cbn [fst]; try exact H.
  - rewrite set_dedlist_m. exact H.
  - pose proof (dedicated_rollback_L c PD ltac:(intros; apply quiet_PD; exact I) done v1 ty) as H2. destruct (dedicated_rollback c v1 ty done) as (v2 & rr). cbn [fst] in *. eapply NA_trans; eauto.
Qed.

Lemma allocate_dedicated_K v X lr l ty size sub doMap allowed slots ded p :
  VamInvB v [] X -> get_blist v lr = Some l -> bl_type l = ty -> 0 <= size < 2 ^ 62 -> NoDup slots -> dead_slots v slots -> prot v X p -> ~ In p slots ->
  match snd (allocate_dedicated c v lr ty size sub doMap allowed slots ded) with
  | PANIC | STUCK => True
  | _ => NAvk v (fst (allocate_dedicated c v lr ty size sub doMap allowed slots ded))
  end.
Proof.
  intros HI Hg Hty Hsz Hnd Hdead Pp Hps. destruct (prot_facts v [] X p HI Pp) as (_ & _ & Hn).
  destruct (allocate_dedicated_D v lr ty size sub doMap allowed slots ded Hn) as (ld & El & Fl).
  pose proof (VamBalStep2.allocate_dedicated_inv c Hc Hmax Hlarge ms0 G v X lr l ty size sub doMap allowed slots ded HI Hg Hty Hsz Hnd Hdead) as AD.
  destruct (allocate_dedicated c v lr ty size sub doMap allowed slots ded) as (v' & r). cbn [fst snd] in *.
  assert (HK : VamInvB v' [] X -> tab_frame v v' slots -> NAvk v v').
  { intros I' T'. exists ld. split; [exact El|]. destruct (pd_log ld Fl) as (A & B).
    apply (piece_keeps v [] X p v' [] X p ld HI Pp I' (prot_frame _ _ _ _ _ _ Pp T' Hps ltac:(destruct Pp as (? & _ & H & _); exact H)) El A B). }
  destruct r as [[]|code| |]; auto; destruct AD as (A & B & _); auto.
Qed.

(* ---------------------------------------------------------------- allocateMemoryOfType and above *)

Notation RES v' r := (match r with PANIC | STUCK => True | _ => NAvk _ v' end) (only parsing).

Lemma prot_X v X p : prot v X p -> ~ In p X.
Proof. intros (a & _ & H & _). exact H. Qed.

Lemma alloc_of_type_K v X lr l ty size align dedPref flags sub slots ded p :
  VamInvB v [] X -> get_blist v lr = Some l -> bl_type l = ty -> 0 <= size < 2 ^ 62 -> align = 0 \/ Bits.pow2 align ->
  NoDup slots -> dead_slots v slots -> prot v X p -> ~ In p slots ->
  let '(v', r) := alloc_of_type c v lr ty size align dedPref flags sub slots ded in
  match r with PANIC | STUCK => True | _ => NAvk v v' end.
Proof.
  intros HI Hg Hty Hsz Hal Hnd Hdead Pp Hps. unfold alloc_of_type. destruct slots as [|s0 tl0] eqn:Eslots; [exact I|]. rewrite <- Eslots in *.
  rewrite Hg.
  set (f1 := if fl flags F_MAPPED && negb (host_visible c ty) then fl_clear flags F_MAPPED else flags).
  pose proof (VamMapStep2.calc_type_params_spec c Hc Hmax Hlarge v ty size (zlen slots) flags) as Hctp. fold f1 in Hctp.
  pose proof (calc_type_params_L c (calm M) v ty size (zlen slots) flags) as N1.
  destruct (calc_type_params c v ty size (zlen slots) flags) as (v1 & fr). cbn [fst] in N1.
  destruct Hctp as (m1 & -> & Hm1 & Hfr).
  assert (I1 : VamInvB (set_m v m1) [] X) by (apply (VamBalStep.VamInvB_mach_same c Hc Hmax Hlarge ms0 G); auto).
  assert (T1 : tab_frame v (set_m v m1) slots) by apply tab_frame_set_m.
  assert (Hg1 : get_blist (set_m v m1) lr = Some l) by (rewrite get_blist_set_m; auto).
  assert (Hdead1 : dead_slots (set_m v m1) slots) by exact Hdead.
  assert (P1 : prot (set_m v m1) X p) by (eapply prot_frame; [exact Pp|exact T1|exact Hps|apply (prot_X _ _ _ Pp)]).
  destruct fr as [flags'|code| |]; try contradiction; [|exact N1].
  subst flags'.
  (* a dedicated attempt from a state w reached so far *)
  assert (Hded : forall w, VamInvB w [] X -> NAvk v w -> prot w X p -> get_blist w lr = Some l -> dead_slots w slots ->
            let '(v', r) := allocate_dedicated c w lr ty size sub (fl f1 F_MAPPED) (mapping_allowed f1) slots ded in
            match r with PANIC | STUCK => True | _ => NAvk v v' end).
  { intros w Iw Nw Pw Hgw Hdw. pose proof (allocate_dedicated_K w X lr l ty size sub (fl f1 F_MAPPED) (mapping_allowed f1) slots ded p Iw Hgw Hty Hsz Hnd Hdw Pw Hps) as K.
    destruct (allocate_dedicated c w lr ty size sub (fl f1 F_MAPPED) (mapping_allowed f1) slots ded) as (v' & r). cbn [fst snd] in K.
    destruct r as [[]|code| |]; auto; eapply NAv_trans; eauto. }
  destruct (fl f1 F_DEDICATED); [apply Hded; auto|].
  set (canDed := negb (fl f1 F_NEVER) && (negb match lr with LPool _ => true | LDef _ => false end || negb (bl_explicit l))).
  match goal with |- context [if canDed then ?x else dedPref] => set (dp := if canDed then x else dedPref) end.
  (* the preferred dedicated attempt *)
  assert (Hearly : let '(v2, early) :=
            (if canDed && dp then
               let '(v', r) := allocate_dedicated c (set_m v m1) lr ty size sub (fl f1 F_MAPPED) (mapping_allowed f1) slots ded in
               match r with OK _ => (v', Some (OK tt)) | ER _ => (v', None) | other => (v', Some other) end
             else (set_m v m1, None)) in
          match early with
          | Some r => match r with PANIC | STUCK => True | _ => NAvk v v2 end
          | None => VamInvB v2 [] X /\ NAvk v v2 /\ prot v2 X p /\ dead_slots v2 slots /\ exists l2, get_blist v2 lr = Some l2 /\ bl_type l2 = ty
          end).
  { destruct (canDed && dp).
    - specialize (Hded (set_m v m1) I1 N1 P1 Hg1 Hdead1).
      pose proof (VamBalStep2.allocate_dedicated_inv c Hc Hmax Hlarge ms0 G (set_m v m1) X lr l ty size sub (fl f1 F_MAPPED) (mapping_allowed f1) slots ded I1 Hg1 Hty Hsz Hnd Hdead1) as AD.
      destruct (allocate_dedicated c (set_m v m1) lr ty size sub (fl f1 F_MAPPED) (mapping_allowed f1) slots ded) as (v' & r).
      destruct r as [[]|code| |]; auto. destruct AD as (A & B & C0 & D). split; [auto|]. split; [auto|].
      split; [eapply prot_frame; [exact P1|exact B|exact Hps|apply (prot_X _ _ _ Pp)]|]. split; [auto|].
      destruct (lf'_some _ _ C0 _ _ Hg1) as (l2 & G2 & C2). exists l2. split; [auto|]. destruct C2 as (C2 & _). congruence.
    - split; [auto|]. split; [auto|]. split; [auto|]. split; [auto|]. exists l. auto. }
  destruct (if canDed && dp then _ else _) as (v2 & early).
  destruct early as [r|]; [exact Hearly|].
  destruct Hearly as (I2 & N2 & P2 & D2 & l2 & G2 & Ty2).
  pose proof (VamBalStep.bl_allocate_inv c Hc Hmax Hlarge ms0 G v2 [] X lr slots size align f1 sub I2 Hal Hnd D2) as BA.
  pose proof (bl_allocate_K v2 [] X lr slots size align f1 sub p I2 Hal Hnd D2 P2 Hps) as BK.
  destruct (bl_allocate c v2 lr slots size align f1 sub) as (v3 & br). cbn [fst snd] in BK.
  destruct br as [[]|bcode| |]; auto.
  - eapply NAv_trans; eauto.
  - assert (N3 : NAvk v v3) by (eapply NAv_trans; eauto).
    destruct BA as ((A & B & C0) & D).
    destruct (canDed && negb dp); [|exact N3].
    pose proof ((VamMapStep.heap_budget_sameX c Hc Hmax Hlarge) (v_m v3) (type_heap c ty)) as H.
    pose proof (heap_budget_NA c (calm M) (v_m v3) (type_heap c ty)) as N4.
    destruct (heap_budget c (v_m v3) (type_heap c ty)) as ((m4 & usage) & budget). cbn [fst] in H, N4.
    assert (I4 : VamInvB (set_m v3 m4) [] X) by (apply (VamBalStep.VamInvB_mach_same c Hc Hmax Hlarge ms0 G); auto).
    assert (N4' : NAvk v (set_m v3 m4)) by (eapply NAv_trans; [exact N3|exact N4]).
    destruct (budget <? _); [exact N4'|].
    destruct (lf_some _ _ C0 _ _ G2) as (l3 & G3 & C3).
    assert (P4 : prot (set_m v3 m4) X p).
    { eapply prot_frame; [exact P2| |exact Hps|apply (prot_X _ _ _ Pp)]. eapply tab_frame_trans_same; [exact B|apply tab_frame_set_m]. }
    pose proof (allocate_dedicated_K (set_m v3 m4) X lr l3 ty size sub (fl f1 F_MAPPED) (mapping_allowed f1) slots ded p I4
                  ltac:(rewrite get_blist_set_m; exact G3) ltac:(destruct C3 as (C3 & _); congruence) Hsz Hnd D P4 Hps) as K5.
    destruct (allocate_dedicated c (set_m v3 m4) lr ty size sub (fl f1 F_MAPPED) (mapping_allowed f1) slots ded) as (v5 & r5). cbn [fst snd] in K5.
    destruct r5 as [[]|c5| |]; auto; eapply NAv_trans; eauto.
Qed.

Lemma type_loop_K fuel : forall v X bits ty size align dedPref usage flags req pref ctb sub slots ded bufimg p,
  VamInvB v [] X -> 0 <= size < 2 ^ 62 -> align = 0 \/ Bits.pow2 align -> NoDup slots -> dead_slots v slots -> prot v X p -> ~ In p slots ->
  let '(v', r) := type_loop c fuel v bits ty size align dedPref usage flags req pref ctb sub slots ded bufimg in
  match r with PANIC | STUCK => True | _ => NAvk v v' end.
Proof.
  induction fuel as [|f IH]; intros v X bits ty size align dedPref usage flags req pref ctb sub slots ded bufimg p HI Hsz Hal Hnd Hdead Pp Hps;
    cbn [type_loop]; [exact I|].
  destruct (get_blist v (LDef ty)) as [l|] eqn:Hg; [|apply NAv_refl].
  pose proof (VamBalStep2.alloc_of_type_inv c Hc Hmax Hlarge ms0 G v X (LDef ty) l ty size align dedPref flags sub slots ded HI Hg (vi_def_type _ _ _ _ (vb_s _ _ _ HI) _ _ Hg) Hsz Hal Hnd Hdead) as Q.
  pose proof (alloc_of_type_K v X (LDef ty) l ty size align dedPref flags sub slots ded p HI Hg (vi_def_type _ _ _ _ (vb_s _ _ _ HI) _ _ Hg) Hsz Hal Hnd Hdead Pp Hps) as K.
  destruct (alloc_of_type c v (LDef ty) ty size align dedPref flags sub slots ded) as (v1 & r).
  destruct r as [[]|code| |]; auto.
  destruct (code =? VK_UNKNOWN); [exact K|].
  destruct Q as (I1 & T1 & L1 & D1).
  destruct (find_type_index c (v_global v1) _ usage flags req pref ctb bufimg) as [ty'|]; [|exact K].
  assert (P1 : prot v1 X p) by (eapply prot_frame; [exact Pp|exact T1|exact Hps|apply (prot_X _ _ _ Pp)]).
  specialize (IH v1 X (Z.land bits (Z.lnot (Z.shiftl 1 ty))) ty' size align dedPref usage flags req pref ctb sub slots ded bufimg p I1 Hsz Hal Hnd D1 P1 Hps).
  destruct (type_loop c f v1 _ ty' size align dedPref usage flags req pref ctb sub slots ded bufimg) as (v2 & r2).
  destruct r2 as [[]|c2| |]; auto; eapply NAv_trans; eauto.
Qed.

Lemma multi_allocate_K v X size align typeBits reqDed prefDed ded bufimg usage flags0 req pref ctb pool sub slots p :
  VamInvB v [] X -> size < 2 ^ 62 -> NoDup slots -> dead_slots v slots -> prot v X p -> ~ In p slots ->
  let '(v', r) := multi_allocate c v size align typeBits reqDed prefDed ded bufimg usage flags0 req pref ctb pool sub slots in
  match r with PANIC | STUCK => True | _ => NAvk v v' end.
Proof.
  intros HI Hsz0 Hnd Hdead Pp Hps. unfold multi_allocate.
  destruct (is_pow2_or_zero align) eqn:Ea; cbn [negb]; [|apply NAv_refl].
  pose proof (pow2_or_zero_spec _ Ea) as Hal.
  destruct (size <? 1) eqn:Es1; [apply NAv_refl|]. assert (Hsz : 0 <= size < 2 ^ 62) by (apply Z.ltb_ge in Es1; lia).
  destruct (calc_params usage flags0 reqDed _) as [flags|code| |]; [|apply NAv_refl|exact I|exact I].
  destruct pool as [uid|].
  - destruct (get_blist v (LPool uid)) as [l|] eqn:Hg; [|exact I].
    apply (alloc_of_type_K v X (LPool uid) l (bl_type l) size align prefDed flags sub slots ded p); auto.
  - destruct (find_type_index c (v_global v) typeBits usage flags req pref ctb bufimg) as [ty|]; [|apply NAv_refl].
    apply (type_loop_K _ v X typeBits ty size align (reqDed || prefDed) usage flags req pref ctb sub slots ded bufimg p); auto.
Qed.

Lemma calm_other k : match k with CMap _ _ _ _ | CUnmap _ | CFree _ => False | _ => True end -> calm M k.
Proof. destruct k; try contradiction; intros _; (split; [discriminate|split; [discriminate|intros; discriminate]]). Qed.

Lemma get_requirements_NAk m image id : NAk m (fst (fst (fst (get_requirements c m image id)))).
Proof.
  unfold get_requirements. pose proof (dev_requirements_NA (calm M) ltac:(intros; apply calm_other; exact I) m image id) as Hq.
  destruct (dev_requirements m image id) as (mq & rq). destruct (11 <=? _); exact Hq.
Qed.

Lemma multi_free_K slots v X p :
  VamInvB v [] X -> NoDup slots -> live_slots v X slots -> (forall s, In s slots -> G s = 0) -> prot v X p -> ~ In p slots ->
  let '(v', r) := multi_free c v slots in match r with PANIC | STUCK => True | _ => NAvk v v' end.
Proof.
  intros HI Hnd Hlive HG0 Pp Hps.
  pose proof (VamBalStep2.multi_free_inv c Hc Hmax Hlarge ms0 G slots v X HI Hnd Hlive HG0) as MF.
  pose proof (multi_free_L c quiet_call ltac:(intros; exact I) ltac:(intros; exact I) slots v) as (l & El & Fl).
  destruct (multi_free c v slots) as (v' & r). cbn [fst] in El.
  assert (HK : VamInvB v' [] X -> tab_frame v v' slots -> NAvk v v').
  { intros I' T'. exists l. split; [exact El|]. destruct (quiet_log' l Fl) as (A & B).
    apply (piece_keeps v [] X p v' [] X p l HI Pp I' (prot_frame _ _ _ _ _ _ Pp T' Hps (prot_X _ _ _ Pp)) El A B). }
  destruct r as [[]|code| |]; auto; destruct MF as (A & B & _); auto.
Qed.

Lemma allocate_memory_K v X slot size align typeBits usage flags req pref ctb pool p :
  VamInvB v [] X -> size < 2 ^ 62 -> 0 <= slot < zlen (v_tab v) -> prot v X p -> p <> slot ->
  let '(v', r) := allocate_memory c v slot size align typeBits usage flags req pref ctb pool in
  match r with PANIC | STUCK => True | _ => NAvk v v' end.
Proof.
  intros HI Hsz Hr Pp Hne. unfold allocate_memory. destruct (a_allocated (get_alloc v slot)) eqn:Ea; [apply NAv_refl|].
  assert (Hnd : NoDup [slot]) by (constructor; [intros []|constructor]).
  assert (Hdead : dead_slots v [slot]) by (intros s [<-|[]]; auto).
  apply (multi_allocate_K v X size align typeBits false false 0 None usage flags req pref ctb pool 1 [slot] p); auto. intros [E|[]]. congruence.
Qed.

Lemma allocate_memory_slice_K v X slot n size align typeBits usage flags req pref ctb pool p :
  VamInvB v [] X -> size < 2 ^ 62 -> 0 <= slot -> slot + n <= zlen (v_tab v) -> prot v X p -> ~ In p (slot_range slot (Z.to_nat n)) ->
  let '(v', r) := allocate_memory_slice c v slot n size align typeBits usage flags req pref ctb pool in
  match r with PANIC | STUCK => True | _ => NAvk v v' end.
Proof.
  intros HI Hsz H0 Hn Pp Hps. unfold allocate_memory_slice. cbn zeta.
  destruct (slot_range_nodup (Z.to_nat n) slot) as (Hnd & Hrange).
  set (slots := slot_range slot (Z.to_nat n)) in *.
  destruct slots as [|s0 tl] eqn:Es; [apply NAv_refl|]. rewrite <- Es in *. destruct (existsb _ slots) eqn:Eex; [apply NAv_refl|].
  assert (Hdead : dead_slots v slots).
  { intros s Hs. split.
    - specialize (Hrange s Hs). destruct n as [|q|q]; [cbn in Hrange; lia|rewrite Z2Nat.id in Hrange by lia; lia|cbn in Hrange; lia].
    - destruct (a_allocated (get_alloc v s)) eqn:E; [|reflexivity]. exfalso.
      assert (existsb (fun s => a_allocated (get_alloc v s)) slots = true) by (apply existsb_exists; exists s; auto). congruence. }
  apply (multi_allocate_K v X size align typeBits false false 0 None usage flags req pref ctb pool 1 slots p); auto.
Qed.

Lemma allocate_for_resource_K v s image res usage flags req pref ctb pool p :
  VamInvB v [] [] -> 0 <= s < zlen (v_tab v) -> prot v [] p -> p <> s ->
  let '(v', r) := allocate_for_resource c v s image res usage flags req pref ctb pool in
  match r with PANIC | STUCK => True | _ => NAvk v v' end.
Proof.
  intros HI Hr Pp Hne. unfold allocate_for_resource. destruct (res =? 0); [apply NAv_refl|].
  destruct (a_allocated (get_alloc v s)) eqn:Ea; [apply NAv_refl|].
  pose proof (get_requirements_NAk (v_m v) image res) as N2.
  destruct (VamMapStep2.get_requirements_spec c Hc Hmax Hlarge (v_m v) image res) as (m2 & rq & rd & pd & Egr & H2 & Hrq). rewrite Egr in *. cbn [fst] in N2.
  assert (Hsz : rq_size rq < 2 ^ 62) by (apply Hrq; apply (ai_res _ _ _ (VamBalStep.vb_aa c Hc Hmax Hlarge ms0 G _ _ _ HI))).
  assert (I2 : VamInvB (set_m v m2) [] []) by (apply (VamBalStep.VamInvB_mach_same c Hc Hmax Hlarge ms0 G); auto).
  assert (Hnd : NoDup [s]) by (constructor; [intros []|constructor]).
  assert (Hdead : dead_slots (set_m v m2) [s]) by (intros x [<-|[]]; auto).
  assert (P2 : prot (set_m v m2) [] p) by (eapply prot_frame; [exact Pp|apply (tab_frame_set_m v m2 [])|intros []|intros []]).
  match goal with |- context [multi_allocate c (set_m v m2) ?a1 ?a2 ?a3 ?a4 ?a5 ?a6 ?a7 usage flags req pref ctb pool ?sb [s]] =>
    pose proof (multi_allocate_K (set_m v m2) [] a1 a2 a3 a4 a5 a6 a7 usage flags req pref ctb pool sb [s] p I2 Hsz Hnd Hdead P2 ltac:(intros [E|[]]; congruence)) as MA;
    destruct (multi_allocate c (set_m v m2) a1 a2 a3 a4 a5 a6 a7 usage flags req pref ctb pool sb [s]) as (v3 & r) end.
  destruct r as [[]|code| |]; auto; apply (NAv_trans (calm M) v (set_m v m2) v3 N2 MA).
Qed.

Lemma create_resource_K v s image kind sub devreq resusage minAlign usage flags req pref ctb pool p :
  VamInvB v [] [] -> rq_size devreq < 2 ^ 62 -> 0 <= s < zlen (v_tab v) -> a_allocated (get_alloc v s) = false -> prot v [] p -> p <> s ->
  let '(v', r) := create_resource c v s image kind sub devreq resusage minAlign usage flags req pref ctb pool in
  match r with PANIC | STUCK => True | _ => NAvk v v' end.
Proof.
  intros HI Hdq Hr Hd Pp Hne. unfold create_resource.
  assert (Hco : forall k, match k with CMap _ _ _ _ | CUnmap _ | CFree _ => False | _ => True end -> calm M k) by apply calm_other.
  pose proof (VamMapStep2.dev_create_res_sameX c Hc Hmax Hlarge (v_m v) image kind devreq Hdq) as H1.
  pose proof (dev_create_res_NA (calm M) ltac:(intros; apply Hco; exact I) (v_m v) image kind devreq) as N1.
  destruct (dev_create_res (v_m v) image kind devreq) as ((m1 & code) & id). cbn [fst] in H1, N1.
  destruct (negb (code =? 0)); [exact N1|].
  pose proof (get_requirements_NAk m1 image id) as N2.
  destruct (VamMapStep2.get_requirements_spec c Hc Hmax Hlarge m1 image id) as (m2 & rq & rd & pd & Egr & H2 & Hrq). rewrite Egr in *. cbn [fst] in N2.
  assert (Hsz : rq_size rq < 2 ^ 62) by (apply Hrq; apply (proj2 (proj2 (proj1 H1))); apply (ai_res _ _ _ (VamBalStep.vb_aa c Hc Hmax Hlarge ms0 G _ _ _ HI))).
  pose proof (VamMapStep.mach_sameX_trans c Hc Hmax Hlarge _ _ _ H1 H2) as H12.
  assert (I2 : VamInvB (set_m v m2) [] []) by (apply (VamBalStep.VamInvB_mach_same c Hc Hmax Hlarge ms0 G); auto).
  assert (N12 : NAvk v (set_m v m2)) by (eapply NA_trans; eauto).
  assert (Hnd : NoDup [s]) by (constructor; [intros []|constructor]).
  assert (Hdead : dead_slots (set_m v m2) [s]) by (intros x [<-|[]]; auto).
  assert (Hps : ~ In p [s]) by (intros [E|[]]; congruence).
  assert (P2 : prot (set_m v m2) [] p) by (eapply prot_frame; [exact Pp|apply (tab_frame_set_m v m2 [])|intros []|intros []]).
  match goal with |- context [multi_allocate c (set_m v m2) ?a1 ?a2 ?a3 ?a4 ?a5 ?a6 ?a7 usage flags req pref ctb pool sub [s]] =>
    pose proof (VamBalStep2.multi_allocate_inv c Hc Hmax Hlarge ms0 G (set_m v m2) [] a1 a2 a3 a4 a5 a6 a7 usage flags req pref ctb pool sub [s] I2 Hsz Hnd Hdead) as MA;
    pose proof (multi_allocate_K (set_m v m2) [] a1 a2 a3 a4 a5 a6 a7 usage flags req pref ctb pool sub [s] p I2 Hsz Hnd Hdead P2 Hps) as MK;
    destruct (multi_allocate c (set_m v m2) a1 a2 a3 a4 a5 a6 a7 usage flags req pref ctb pool sub [s]) as (v3 & r) end.
  destruct r as [[]|acode| |]; auto.
  - assert (N3 : NAvk v v3) by (apply (NAv_trans (calm M) v (set_m v m2) v3 N12 MK)).
    destruct MA as (I3 & T3 & L3 & D3).
    assert (P3 : prot v3 [] p) by (eapply prot_frame; [exact P2|exact T3|exact Hps|intros []]).
    destruct (fl flags F_DONTBIND); [exact N3|].
    pose proof (VamBalStep2.bind_memory_inv c Hc Hmax Hlarge ms0 G v3 s image id 0 I3) as B.
    pose proof (bind_memory_L (calm M) ltac:(intros; apply Hco; exact I) v3 s image id 0) as NB.
    destruct (bind_memory v3 s image id 0) as (v4 & br). cbn [fst] in NB.
    assert (N4 : NAvk v v4) by (eapply NAv_trans; eauto).
    destruct br as [[]|bcode| |]; auto.
    destruct B as (I4 & T4).
    assert (P4 : prot v4 [] p) by (eapply prot_frame; [exact P3|exact T4|exact Hps|intros []]).
    assert (Hfree : let '(v5, fr) := (if a_allocated (get_alloc v4 s) then multi_free c v4 [s] else (v4, OK tt)) in
                    match fr with PANIC | STUCK => True | _ => NAvk v4 v5 end).
    { destruct (a_allocated (get_alloc v4 s)) eqn:Ea; [|apply NAv_refl].
      assert (Hlive : live_slots v4 [] [s]) by (intros x [<-|[]]; split; [intros []|exists (get_alloc v4 s); apply get_alloc_allocated; auto]).
      apply (multi_free_K [s] v4 [] p I4 Hnd Hlive ltac:(intros x [<-|[]]; apply (bb_G0 _ _ _ (vb_b _ _ _ HI)); exact Hd) P4 Hps). }
    destruct (if a_allocated (get_alloc v4 s) then multi_free c v4 [s] else (v4, OK tt)) as (v5 & fr).
    pose proof (dev_destroy_res_NA (calm M) ltac:(intros; apply Hco; exact I) (v_m v5) image id) as N6.
    destruct fr as [[]|code5| |]; auto; (eapply NAv_trans; [exact N4|]; eapply NAv_trans; [exact Hfree|exact N6]).
  - pose proof (dev_destroy_res_NA (calm M) ltac:(intros; apply Hco; exact I) (v_m v3) image id) as N6.
    eapply NAv_trans; [apply (NAv_trans (calm M) v (set_m v m2) v3 N12 MK)|exact N6].
Qed.

Lemma create_buffer_K v s size devreq bufUsage minAlign usage flags req pref ctb pool p :
  VamInvB v [] [] -> rq_size devreq < 2 ^ 62 -> 0 <= s < zlen (v_tab v) -> prot v [] p -> p <> s ->
  let '(v', r) := create_buffer c v s size devreq bufUsage minAlign usage flags req pref ctb pool in
  match r with PANIC | STUCK => True | _ => NAvk v v' end.
Proof.
  intros HI Hdq Hr Pp Hne. unfold create_buffer. destruct (a_allocated (get_alloc v s)) eqn:Ea; [apply NAv_refl|].
  destruct (_ && _); [apply NAv_refl|]. destruct (size =? 0); [apply NAv_refl|].
  destruct (_ && _); [apply NAv_refl|]. apply (create_resource_K v s false 1 2 devreq bufUsage minAlign usage flags req pref ctb pool p); auto.
Qed.

Lemma create_image_K v s tiling width devreq imgUsage usage flags req pref ctb pool p :
  VamInvB v [] [] -> rq_size devreq < 2 ^ 62 -> 0 <= s < zlen (v_tab v) -> prot v [] p -> p <> s ->
  let '(v', r) := create_image c v s tiling width devreq imgUsage usage flags req pref ctb pool in
  match r with PANIC | STUCK => True | _ => NAvk v v' end.
Proof.
  intros HI Hdq Hr Pp Hne. unfold create_image. destruct (a_allocated (get_alloc v s)) eqn:Ea; [apply NAv_refl|].
  destruct (width =? 0); [apply NAv_refl|]. apply (create_resource_K v s true _ _ devreq imgUsage 0 usage flags req pref ctb pool p); auto.
Qed.

End WithCfg.
