(* TlsfInv2Alloc.v — Alloc on a request that fits never fails or panics and preserves the second
   invariant. *)
From Coq Require Import ZArith NArith Lia List Bool.
From Arsenal Require Import Util Bits Gran Tlsf TlsfGeom TlsfInv1 TlsfFree TlsfAlloc TlsfStep SizeClass TlsfInv2.
Import ListNotations.
Open Scope Z_scope.

Lemma chain_from_split o pre cur post mid :
  chain_from o (pre ++ cur :: post) -> chain_from (b_off cur) mid ->
  chain_end (b_off cur) mid = b_off cur + b_size cur ->
  chain_from o (pre ++ mid ++ post) /\ chain_end o (pre ++ mid ++ post) = chain_end o (pre ++ cur :: post).
Proof.
  intros H Hm He. apply chain_from_app in H. destruct H as (Hp & Hr). cbn [chain_from] in Hr.
  destruct Hr as (Ho & Hs & Hpost). split.
  - apply chain_from_app. split; auto. apply chain_from_app. rewrite <- Ho in *. split; auto.
    rewrite He. exact Hpost.
  - rewrite !chain_end_app. cbn [chain_end]. rewrite <- Ho in *. rewrite He. reflexivity.
Qed.

Lemma finish_ok (t1 : tlsf) (r : request) off sz :
  pow2 (g_g (t_gran t1)) -> gtab_ok (t_gran t1) (t_size t1) -> 0 <= off -> 1 <= sz -> off + sz <= t_size t1 ->
  FLt t1 -> t_null t1 = free_blk (b_off (t_null t1)) (b_size (t_null t1)) ->
  t_alloc_count t1 + 1 = zlen (live t1) ->
  exists t',
    match alloc_regions (t_gran t1) (rq_type r) off sz with
    | None => APanic
    | Some g' =>
      AOk (mkT (t_size t1) g' (t_chain t1) (t_null t1) (t_lists t1) (t_bitmap t1) (t_inner t1)
               (t_alloc_count t1 + 1) (t_free_count t1) (t_free_size t1)) off
    end = AOk t' off /\ Inv2 t'.
Proof.
  intros Hp Hg Ho Hs Hfit HFL Hn Ha.
  destruct (alloc_regions_ok (t_gran t1) (t_size t1) (rq_type r) off sz Hp Hg Ho Hs Hfit) as (g' & -> & Hh' & Hg' & Hl').
  eexists. split; [reflexivity|]. constructor.
  - eapply FLt_ext; [| | | | | | |exact HFL]; reflexivity.
  - exact Ha.
  - cbn [t_gran t_size]. eapply gtab_ok_same; eauto.
  - exact Hn.
Qed.

Lemma live_snoc_taken c (b : blk) : b_free b = false -> zlen (livef (c ++ [b])) = zlen (livef c) + 1.
Proof.
  intros H. rewrite livef_app. unfold livef at 2. cbn [filter]. rewrite H. cbn [negb].
  rewrite zlen_app, zlen_cons, zlen_nil. lia.
Qed.

(* ------------------------------------------------------------------ from the null block *)

Lemma alloc_null_ok t r tag rs ra :
  TInv t -> Inv2 t -> rq_is_null r = true -> fits r (t_null t) rs ra ->
  (b_off (t_null t) = 0 -> rq_offset r = 0) ->
  exists t' h, alloc t r tag rs ra = AOk t' h /\ Inv2 t'.
Proof.
  intros [Hinv Hpg] [HFL Hac Hgt Hnl] Hnull [Hlo Hhi Hpos Hra Hal Hrs] Hzero.
  destruct Hinv as [[Hch Hnoff Hnsz Htot Hnfree] Hgh Hnaf Hlast].
  unfold alloc. rewrite Hnull.
  pose proof (chain_end_ge _ _ Hch) as Hcge.
  set (cur := t_null t) in *.
  destruct (Z.ltb_spec (rq_offset r) (b_off cur)); [lia|].
  set (missing := rq_offset r - b_off cur).
  assert (Hmiss : 0 <= missing) by (unfold missing; lia).
  assert (Hom : b_off cur + missing = rq_offset r) by (unfold missing; lia).
  (* the padding step *)
  assert (Hpad : exists t1,
             (if missing =? 0 then Some (Some t)
              else pad_front t (last_blk (t_chain t)) (b_off cur) (b_off cur + missing) missing true) = Some (Some t1) /\
             FLt t1 /\ same_rest t t1 /\ t_chain t1 = t_chain t ++ pad_blks (b_off cur) missing).
  { unfold pad_blks. destruct (Z.eqb_spec missing 0) as [Em|Em].
    - exists t. rewrite app_nil_r. split; auto. split; auto. split; [apply same_rest_refl|auto].
    - unfold pad_front.
      destruct (list_last_split (t_chain t)) as [Hnil|(pre & p & Hp)].
      + exfalso. rewrite Hnil in Hnoff. cbn in Hnoff. specialize (Hzero Hnoff). lia.
      + rewrite Hp, last_blk_app.
        unfold last_taken in Hlast. rewrite Hp, last_free_app in Hlast. cbn in Hlast.
        rewrite Hlast. cbn [andb]. rewrite <- Hp.
        set (nb := mkBlk (b_off cur) missing false None 0 0 1).
        assert (Hchn : chain_from 0 (t_chain t ++ [nb])).
        { apply chain_from_app. split; auto. cbn. repeat split; auto; lia. }
        assert (Hendn : chain_end 0 (t_chain t ++ [nb]) <= t_size t).
        { rewrite chain_end_app. cbn. lia. }
        destruct (insert_side (t_size t) (t_chain t) nb [] Hchn Hendn) as (S1 & S2 & S3).
        assert (HFLc : FLt (with_chain t (t_chain t ++ [nb]))).
        { eapply FLt_ext; [| | | | | | |exact HFL]; try reflexivity.
          cbn [with_chain t_chain]. rewrite frees_app. cbn. rewrite app_nil_r. reflexivity. }
        destruct (insert_free_block_ok _ nb (t_chain t) [] HFLc eq_refl S1 eq_refl S2 S3) as (t1 & -> & HFL1 & Hc1 & Hsr1).
        exists t1. split; auto. }
  destruct Hpad as (t1 & -> & HFL1 & (Hn1 & Hs1 & Hg1 & Ha1) & Hc1).
  rewrite Hom.
  assert (Hlive1 : zlen (livef (t_chain t1)) = zlen (livef (t_chain t))).
  { rewrite Hc1, livef_app. unfold pad_blks. destruct (missing =? 0); cbn; rewrite app_nil_r; reflexivity. }
  assert (Hfin : forall nullsz,
             exists t' h,
               match alloc_regions (t_gran t1) (rq_type r) (rq_offset r) (rq_size r) with
               | None => APanic
               | Some g' =>
                 AOk (mkT (t_size t1) g' (t_chain t1 ++ [mkBlk (rq_offset r) (rq_size r) false tag (rq_type r) rs ra])
                          (free_blk (rq_offset r + rq_size r) nullsz) (t_lists t1) (t_bitmap t1) (t_inner t1)
                          (t_alloc_count t1 + 1) (t_free_count t1) (t_free_size t1)) (rq_offset r)
               end = AOk t' h /\ Inv2 t').
  { intros nullsz.
    set (t2 := mkT (t_size t1) (t_gran t1) (t_chain t1 ++ [mkBlk (rq_offset r) (rq_size r) false tag (rq_type r) rs ra])
                   (free_blk (rq_offset r + rq_size r) nullsz) (t_lists t1) (t_bitmap t1) (t_inner t1)
                   (t_alloc_count t1) (t_free_count t1) (t_free_size t1)).
    destruct (finish_ok t2 r (rq_offset r) (rq_size r)) as (t' & E & HI'); cbn [t2 t_gran t_size t_null t_alloc_count]; try lia.
    - rewrite Hg1. exact Hpg.
    - rewrite Hg1, Hs1. exact Hgt.
    - eapply FLt_ext; [| | | | | | |exact HFL1]; try reflexivity.
      cbn [t2 t_chain]. rewrite frees_app. cbn. rewrite app_nil_r. reflexivity.
    - reflexivity.
    - rewrite live_livef. cbn [t2 t_chain]. rewrite live_snoc_taken by reflexivity.
      rewrite Hlive1, Ha1, Hac. reflexivity.
    - exists t', (rq_offset r). split; [|exact HI']. exact E. }
  destruct (Z.eqb_spec (b_size cur - missing) (rq_size r)) as [Eeq|Eeq].
  - unfold with_null, with_chain. cbn [t_size t_gran t_chain t_null t_lists t_bitmap t_inner t_alloc_count t_free_count t_free_size].
    apply Hfin.
  - destruct (Z.ltb_spec (b_size cur - missing) (rq_size r)); [lia|].
    unfold with_null, with_chain. cbn [t_size t_gran t_chain t_null t_lists t_bitmap t_inner t_alloc_count t_free_count t_free_size].
    apply Hfin.
Qed.

(* ------------------------------------------------------------------ from a free chain block *)

Lemma livef_mid_free pre (b : blk) post : b_free b = true -> livef (pre ++ b :: post) = livef pre ++ livef post.
Proof. intros H. rewrite livef_app. unfold livef at 2. cbn [filter]. rewrite H. reflexivity. Qed.

Lemma alloc_blk_ok t r tag rs ra pre cur post :
  TInv t -> Inv2 t -> rq_is_null r = false -> t_chain t = pre ++ cur :: post ->
  rq_block r = b_off cur -> b_free cur = true -> fits r cur rs ra ->
  (b_off cur = 0 -> rq_offset r = 0) ->
  exists t' h, alloc t r tag rs ra = AOk t' h /\ Inv2 t'.
Proof.
  intros [Hinv Hpg] [HFL Hac Hgt Hnl] Hnull Hc Hblk Hcf [Hlo Hhi Hpos Hra Hal Hrs] Hzero.
  destruct Hinv as [[Hch Hnoff Hnsz Htot Hnfree] Hgh Hnaf Hlast].
  unfold alloc. rewrite Hnull, Hblk.
  rewrite Hc in Hch, Hnaf, Hlast, Hnoff.
  pose proof (chain_pre_lt _ _ _ _ Hch) as Hlt.
  pose proof (below_of_chain _ _ _ _ Hch) as Hbel.
  assert (Hfb : find_blk (b_off cur) (t_chain t) = Some cur) by (rewrite Hc; apply find_blk_app; auto).
  rewrite Hfb.
  destruct (Z.ltb_spec (rq_offset r) (b_off cur)); [lia|].
  destruct (remove_free_block_ok t cur pre post HFL Hc Hbel Hcf) as (t0 & -> & HFL0 & Hc0 & (Hn0 & Hs0 & Hg0 & Ha0)).
  cbn [bind_t].
  set (missing := rq_offset r - b_off cur).
  assert (Hmiss : 0 <= missing) by (unfold missing; lia).
  assert (Hom : b_off cur + missing = rq_offset r) by (unfold missing; lia).
  rewrite Hom.
  set (cur_size := b_size cur - missing).
  set (moved := mkBlk (rq_offset r) cur_size false None (b_kind cur) (b_reqsize cur) (b_reqalign cur)).
  pose proof Hch as Hch'. apply chain_from_app in Hch'. destruct Hch' as (Hcpre & Hcrest).
  cbn [chain_from] in Hcrest. destruct Hcrest as (Hco & Hcs & Hcpost).
  pose proof (chain_end_ge _ _ Hcpre) as Hpge.
  pose proof (chain_end_ge _ _ Hcpost) as Hpostge.
  assert (Hendle : chain_end 0 (pre ++ cur :: post) <= t_size t) by lia.
  assert (Hcurend : b_off cur + b_size cur <= t_size t).
  { rewrite chain_end_app in Hendle. cbn [chain_end] in Hendle. lia. }
  unfold no_adj_free in Hnaf. apply naf_app in Hnaf. destruct Hnaf as (Hnpre & Hnrest).
  cbn [naf] in Hnrest. destruct Hnrest as (Hprevfree & Hnpost).
  assert (Hlpre : last_free false pre = false).
  { destruct (last_free false pre) eqn:E; auto. specialize (Hprevfree eq_refl). congruence. }
  rewrite Hc0. rewrite (replace_blk_app (b_off cur) moved pre _ post) by auto.
  set (t0' := with_chain t0 (pre ++ moved :: post)).
  assert (HFL0' : FLt t0').
  { eapply FLt_ext; [| | | | | | |exact HFL0]; try reflexivity.
    cbn [t0' with_chain t_chain]. rewrite Hc0, !frees_app. reflexivity. }
  (* the padding step *)
  assert (Hpad : exists t1,
             (if missing =? 0 then Some (Some t0')
              else pad_front t0' (prev_blk (rq_offset r) (t_chain t0')) (b_off cur) (rq_offset r) missing false) = Some (Some t1) /\
             FLt t1 /\ same_rest t0' t1 /\ t_chain t1 = pre ++ pad_blks (b_off cur) missing ++ moved :: post).
  { unfold pad_blks. destruct (Z.eqb_spec missing 0) as [Em|Em].
    - exists t0'. split; auto. split; auto. split; [apply same_rest_refl|reflexivity].
    - assert (Hbel2 : below (rq_offset r) pre) by (eapply below_ge; eauto; lia).
      assert (Ht0c : t_chain t0' = pre ++ moved :: post) by reflexivity.
      rewrite Ht0c. unfold pad_front.
      destruct (list_last_split pre) as [->|(pre' & p & Hp)].
      + exfalso. cbn in Hco. specialize (Hzero Hco). lia.
      + rewrite Hp. rewrite prev_blk_app by (try rewrite <- Hp; auto).
        rewrite Hp, last_free_app in Hlpre. cbn in Hlpre. rewrite Hlpre. cbn [andb].
        rewrite Ht0c. rewrite <- Hp.
        rewrite insert_before_app by auto.
        set (nb := mkBlk (b_off cur) missing false None 0 0 1).
        destruct (chain_from_split 0 pre cur post [nb; moved] Hch) as (Hchn & Hendn).
        { cbn. unfold cur_size. repeat split; auto; lia. }
        { cbn. unfold cur_size. lia. }
        cbn [app] in Hchn, Hendn.
        destruct (insert_side (t_size t) pre nb (moved :: post) Hchn ltac:(lia)) as (S1 & S2 & S3).
        assert (HFLc : FLt (with_chain t0' (pre ++ nb :: moved :: post))).
        { eapply FLt_ext; [| | | | | | |exact HFL0']; try reflexivity.
          cbn [with_chain t_chain]. rewrite Ht0c, !frees_app. reflexivity. }
        destruct (insert_free_block_ok _ nb pre (moved :: post) HFLc eq_refl S1 eq_refl S2) as (t1 & -> & HFL1 & Hc1 & Hsr1).
        { cbn [with_chain t_size t0']. rewrite Hs0. exact S3. }
        exists t1. split; auto. }
  fold t0'.
  destruct Hpad as (t1 & -> & HFL1 & (Hn1 & Hs1 & Hg1 & Ha1) & Hc1).
  cbn [t0' with_chain t_null t_size t_gran t_alloc_count] in Hn1, Hs1, Hg1, Ha1.
  assert (Hbel3 : below (rq_offset r) (pre ++ pad_blks (b_off cur) missing)).
  { apply below_app. split; [eapply below_ge; eauto; lia|].
    unfold pad_blks. destruct (Z.eqb_spec missing 0); constructor; auto. cbn. lia. }
  assert (Hc1' : t_chain t1 = (pre ++ pad_blks (b_off cur) missing) ++ moved :: post).
  { rewrite Hc1, <- app_assoc. reflexivity. }
  set (tk := mkBlk (rq_offset r) (rq_size r) false tag (rq_type r) rs ra).
  assert (Hlivepad : livef (pad_blks (b_off cur) missing) = []).
  { unfold pad_blks. destruct (missing =? 0); reflexivity. }
  assert (Hfreespad : forall x y, frees (pre ++ pad_blks (b_off cur) missing) ++ x = y ->
                                  frees ((pre ++ pad_blks (b_off cur) missing) ++ moved :: post) ++ [] = frees pre ++ frees (pad_blks (b_off cur) missing) ++ frees post).
  { intros. rewrite !frees_app. cbn. rewrite app_nil_r. rewrite <- app_assoc. reflexivity. }
  clear Hfreespad.
  assert (Hlive_t : zlen (live t) = zlen (livef pre) + zlen (livef post)).
  { rewrite live_livef, Hc, livef_mid_free by auto. rewrite zlen_app. reflexivity. }
  destruct (Z.eqb_spec cur_size (rq_size r)) as [Eeq|Eeq].
  - (* exact fit *)
    set (t2 := with_chain t1 (replace_blk (rq_offset r) tk (t_chain t1))).
    assert (Hc2 : t_chain t2 = (pre ++ pad_blks (b_off cur) missing) ++ tk :: post).
    { cbn [t2 with_chain t_chain]. rewrite Hc1'. apply replace_blk_app; auto. }
    destruct (finish_ok t2 r (rq_offset r) (rq_size r)) as (t' & E & HI'); cbn [t2 with_chain t_gran t_size t_null t_alloc_count]; try lia.
    + rewrite Hg1, Hg0. exact Hpg.
    + rewrite Hg1, Hs1, Hg0, Hs0. exact Hgt.
    + eapply FLt_ext; [| | | | | | |exact HFL1]; try reflexivity.
      rewrite Hc2, Hc1'. rewrite !frees_app. reflexivity.
    + rewrite Hn1, Hn0. exact Hnl.
    + rewrite live_livef. fold t2. rewrite Hc2. rewrite !livef_app, Hlivepad. cbn [livef filter tk b_free negb].
      rewrite app_nil_r, zlen_app, zlen_cons. rewrite Ha1, Ha0, Hac, Hlive_t. unfold livef. lia.
    + exists t', (rq_offset r). split; [exact E|exact HI'].
  - destruct (Z.ltb_spec cur_size (rq_size r)); [unfold cur_size in *; lia|].
    set (nb := mkBlk (rq_offset r + rq_size r) (cur_size - rq_size r) false None 0 0 1).
    assert (Hcr : replace_blk (rq_offset r) tk (t_chain t1) = (pre ++ pad_blks (b_off cur) missing) ++ tk :: post).
    { rewrite Hc1'. apply replace_blk_app; auto. }
    rewrite Hcr.
    rewrite (insert_after_app (rq_offset r) nb _ tk post) by auto.
    set (pre2 := (pre ++ pad_blks (b_off cur) missing) ++ [tk]).
    assert (Hc2 : (pre ++ pad_blks (b_off cur) missing) ++ tk :: nb :: post = pre2 ++ nb :: post).
    { unfold pre2. rewrite <- !app_assoc. reflexivity. }
    rewrite Hc2.
    destruct (chain_from_split 0 pre cur post (pad_blks (b_off cur) missing ++ [tk; nb]) Hch) as (Hchn & Hendn).
    { unfold pad_blks. destruct (Z.eqb_spec missing 0); cbn; unfold cur_size in *; repeat split; auto; lia. }
    { unfold pad_blks. destruct (Z.eqb_spec missing 0); cbn; unfold cur_size in *; lia. }
    assert (Hsame : pre ++ (pad_blks (b_off cur) missing ++ [tk; nb]) ++ post = pre2 ++ nb :: post).
    { unfold pre2. rewrite <- !app_assoc. reflexivity. }
    rewrite Hsame in Hchn, Hendn.
    destruct (insert_side (t_size t) pre2 nb post Hchn ltac:(lia)) as (S1 & S2 & S3).
    assert (HFLc : FLt (with_chain t1 (pre2 ++ nb :: post))).
    { eapply FLt_ext; [| | | | | | |exact HFL1]; try reflexivity.
      cbn [with_chain t_chain]. rewrite Hc1'. unfold pre2. rewrite !frees_app. cbn. rewrite app_nil_r. reflexivity. }
    destruct (insert_free_block_ok _ nb pre2 post HFLc eq_refl S1 eq_refl S2) as (t3 & -> & HFL3 & Hc3 & (Hn3 & Hs3 & Hg3 & Ha3)).
    { cbn [with_chain t_size]. rewrite Hs1, Hs0. exact S3. }
    cbn [bind_t].
    cbn [with_chain t_null t_size t_gran t_alloc_count] in Hn3, Hs3, Hg3, Ha3.
    destruct (finish_ok t3 r (rq_offset r) (rq_size r)) as (t' & E & HI'); try lia.
    + rewrite Hg3, Hg1, Hg0. exact Hpg.
    + rewrite Hg3, Hs3, Hg1, Hs1, Hg0, Hs0. exact Hgt.
    + exact HFL3.
    + rewrite Hn3, Hn1, Hn0. exact Hnl.
    + rewrite live_livef, Hc3. unfold pre2. rewrite !livef_app, Hlivepad. cbn [livef filter tk b_free negb app].
      rewrite app_nil_r, !zlen_app, zlen_cons, zlen_nil. rewrite Ha3, Ha1, Ha0, Hac, Hlive_t. unfold livef. lia.
    + exists t', (rq_offset r). split; [exact E|exact HI'].
Qed.
