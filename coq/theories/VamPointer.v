(* C14, the pointer clause, as far as the model can say it.

   The Go Map returns  (mapped base pointer of the allocation's VkDeviceMemory) + FindOffset().  The model has no pointer
   values; what it has is the pair the pointer is computed from:  map_target v a = (a_mem a, find_offset v a).

   - pointer_target_valid: in every reachable state, for every live Allocation that has an outstanding user Map or is
     persistently mapped, that pair names a memory object that exists and IS MAPPED in the device, the byte range
     [offset, offset + size) lies inside the object, it is aligned for block allocations, and no other live Allocation of the
     same memory object overlaps it (the pointer addresses exactly the allocation's own bytes).
   - pointer_target_valid_defrag: the same on histories with defragmentation calls, i.e. also after EndDefragPass has
     relocated the Allocation to another block/offset: the statement is about the pair the Allocation reports NOW.
   - map_ok_target: a successful Map does not move the allocation (same memory object, same offset as before the call), the
     only driver call it can make is vkMapMemory(a_mem a, offset 0, WHOLE_SIZE), and afterwards the target is valid. *)
From Coq Require Import ZArith List Bool Lia.
From Arsenal Require Import Util Budget VamDev VamBlockList VamDefrag Vam VamInvMeta VamInv VamInvUpd VamInvDev.
From Arsenal Require Import VamInvStep VamInvStep2 VamInvThm VamProps VamAcct VamAcctStep VamAcctThm VamFlush VamBal VamBalThm VamDefragThm VamDefragAcct VamDefragBal.
From Arsenal Require SyncMem.
Import ListNotations.
Local Open Scope Z_scope.

(* what the pointer returned by Map is computed from *)
Definition map_target (v : vam) (a : alloc) : option (Z * Z) :=
  match find_offset v a with Some o => Some (a_mem a, o) | None => None end.

Definition target_ok (v : vam) (s : Z) (a : alloc) : Prop :=
  exists d o, map_target v a = Some (a_mem a, o) /\
    find_mem (m_mems (v_m v)) (a_mem a) = Some d /\ dm_mapped d = true /\ dm_type d = a_type a /\
    0 <= o /\ 0 < a_size a /\ o + a_size a <= dm_size d /\
    (a_kind a = 1 -> 0 < a_align a /\ o mod a_align a = 0) /\ (a_kind a = 2 -> o = 0 /\ a_size a = dm_size d) /\
    forall s2 a2 o2, slot_is v s2 a2 -> s2 <> s -> a_mem a2 = a_mem a -> find_offset v a2 = Some o2 ->
                     o + a_size a <= o2 \/ o2 + a_size a2 <= o.

Lemma target_ok_of c v s a d0 :
  VamInv c v -> slot_is v s a -> find_mem (m_mems (v_m v)) (a_mem a) = Some d0 -> dm_mapped d0 = true -> target_ok v s a.
Proof.
  intros HI Sa Hf0 Hm. destruct (alloc_denotes_valid_range c v HI s a Sa) as (d & o & Hf & Ht & Ho & O1 & O2 & O3 & O4 & O5).
  assert (d0 = d) by congruence. subst d0.
  exists d, o. unfold map_target. rewrite Ho. split; [reflexivity|]. split; [exact Hf|]. split; [exact Hm|]. split; [exact Ht|].
  split; [exact O1|]. split; [exact O2|]. split; [exact O3|]. split; [exact O4|]. split; [exact O5|].
  intros s2 a2 o2 S2 Hne Hmem Ho2. apply (alloc_no_overlap c v HI s a s2 a2 Sa S2 ltac:(congruence) ltac:(congruence) o o2 Ho Ho2).
Qed.

Section Thm.
Variable c : vcfg.
Hypothesis Ha : cfg_acct c.
Let Hc := ca_ok c Ha.

Theorem pointer_target_valid v G s a :
  reachB c v G -> slot_is v s a -> (1 <= G s \/ a_persist a = true) -> target_ok v s a.
Proof using Ha.
  intros R Sa Huse. destruct (mapped_while_in_use c Ha v G s a R Sa Huse) as (d & Hf & Hm).
  pose proof (va_s _ _ _ _ (reachA_inv c Ha v (reachB_reachA c _ _ R))) as HI. eapply target_ok_of; eauto.
Qed.

Theorem pointer_target_valid_defrag v run G s a :
  reachDB c v run G -> slot_is v s a -> (1 <= G s \/ a_persist a = true) -> target_ok v s a.
Proof using Ha.
  intros R Sa Huse. destruct (mapped_while_in_use_defrag c Ha v run G s a R Sa Huse) as (d & Hf & Hm).
  pose proof (va_s _ _ _ _ (proj1 (reachDA_inv c Ha v run (reachDB_reachDA c Ha v run G R)))) as HI. eapply target_ok_of; eauto.
Qed.

(* ---- Map itself *)

Lemma dev_map_log' m id : m_calls (fst (dev_map c m id)) = CMap id 0 (-1) (snd (dev_map c m id)) :: m_calls m.
Proof using.
  unfold dev_map. destruct (find_mem (m_mems m) id) as [d|]; [|reflexivity].
  destruct (negb (host_visible c (dm_type d))); [reflexivity|]. destruct (dm_size d <=? 0); [reflexivity|].
  destruct (dev_fault (m_fault m) (m_fired m) 2) as ((f1 & fired1) & r). destruct (negb (r =? 0)) eqn:E; cbn; [reflexivity|].
  apply negb_false_iff in E. apply Z.eqb_eq in E. subst r. reflexivity.
Qed.

Lemma sm_map_calls m mem s :
  m_calls (fst (fst (sm_map c m mem s))) = m_calls m \/ exists code, m_calls (fst (fst (sm_map c m mem s))) = CMap mem 0 (-1) code :: m_calls m.
Proof using.
  unfold sm_map. pose proof (dev_map_log' m mem) as L. destruct (dev_map c m mem) as (m1 & code). cbn [fst snd] in L.
  destruct (SyncMem.do_map s 1 (negb (code =? 0))) as ((s' & r) & cs). cbn [fst]. destruct cs; [left; reflexivity|right; exists code; exact L].
Qed.

Definition only_map_of (mem : Z) (old new : list call) : Prop :=
  new = old \/ exists code, new = CMap mem 0 (-1) code :: old.

Lemma allocation_map_target v s v' :
  VamInv c v -> allocation_map c v s = (v', OK tt) ->
  let a := get_alloc v s in
  slot_is v s a /\ a_mapallowed a = true /\
  (exists a', slot_is v' s a' /\ a_mem a' = a_mem a /\ a_size a' = a_size a /\ a_kind a' = a_kind a /\ a_persist a' = a_persist a /\
              map_target v' a' = map_target v a) /\
  only_map_of (a_mem a) (m_calls (v_m v)) (m_calls (v_m v')).
Proof using Hc.
  intros HI. unfold allocation_map. set (a := get_alloc v s). cbn zeta.
  destruct (a_mapallowed a) eqn:Ema; cbn [negb]; [|discriminate]. destruct (a_allocated a) eqn:Eal; cbn [negb]; [|discriminate].
  pose proof (get_alloc_allocated v s Eal) as Sa. fold a in Sa.
  destruct (a_kind a =? 1) eqn:K1.
  - apply Z.eqb_eq in K1.
    destruct (block_alloc_facts c v s a HI Sa K1) as (l & b & rg & Hg & Hb & Hgb & Hrg & Hh & Htag & Hsz & Hal & Hmem & Hty & Hmi & Hoff).
    rewrite Hgb. pose proof (sm_map_calls (v_m v) (bk_mem b) (bk_sm b)) as Hcalls.
    destruct (sm_map c (v_m v) (bk_mem b) (bk_sm b)) as ((m1 & s1) & r). cbn [fst] in Hcalls.
    set (nb := mkBlock (bk_id b) (bk_mem b) s1 (bk_meta b)). set (v1 := put_block (set_m v m1) (a_lref a) nb).
    destruct r as [[]|code| |]; try discriminate.
    assert (Hoff1 : find_offset v1 a = find_offset v a).
    { pose proof (vi_lists _ _ _ _ HI _ _ Hg) as Hwf.
      destruct (get_block_in _ _ _ _ Hgb) as (l0 & Hg0 & _ & Hid).
      destruct (put_block_lookup (set_m v m1) (a_lref a) l b nb ltac:(rewrite get_blist_set_m; exact Hg) (bw_nodup _ _ Hwf) Hb eq_refl) as (_ & _ & Hl).
      unfold find_offset. rewrite K1. cbn [Z.eqb Pos.eqb]. fold v1 in Hl. cbn [bk_id nb] in Hl. rewrite Hid in Hl. rewrite Hl, Hgb. reflexivity. }
    rewrite Hoff1, Hoff. intros E. injection E as <-.
    split; [exact Sa|]. split; [reflexivity|]. split.
    + exists a. split; [|split; [reflexivity|split; [reflexivity|split; [reflexivity|split; [reflexivity|]]]]].
      * unfold v1, slot_is. rewrite put_block_tab. cbn [v_tab set_m]. exact Sa.
      * unfold map_target. rewrite Hoff1. reflexivity.
    + unfold v1. rewrite put_block_m. cbn [v_m set_m]. rewrite Hmem. exact Hcalls.
  - destruct (a_kind a =? 2) eqn:K2; [|discriminate].
    pose proof (sm_map_calls (v_m v) (a_mem a) (a_sm a)) as Hcalls.
    destruct (sm_map c (v_m v) (a_mem a) (a_sm a)) as ((m1 & s1) & r). cbn [fst] in Hcalls.
    intros E. injection E as <- ->. split; [exact Sa|]. split; [reflexivity|]. split; [|cbn [v_m set_alloc set_tab set_m]; exact Hcalls].
    exists (set_a_sm a s1). split; [|split; [reflexivity|split; [reflexivity|split; [reflexivity|split; [reflexivity|]]]]].
    + apply slot_is_set_alloc_same; [cbn [v_tab set_m]; apply (slot_is_range _ _ _ Sa)|split; [reflexivity|exact Eal]].
    + unfold map_target, find_offset. cbn [set_a_sm a_kind a_mem]. rewrite K1. reflexivity.
Qed.

Lemma map_ok_core v s f v' calls :
  VamInv c v -> step c v (OMap s) f = (v', ROk, calls) ->
  let a := get_alloc v s in
  slot_is v s a /\ a_mapallowed a = true /\
  (calls = [] \/ exists code, calls = [CMap (a_mem a) 0 (-1) code]) /\
  exists a', slot_is v' s a' /\ a_mem a' = a_mem a /\ a_size a' = a_size a /\ map_target v' a' = map_target v a.
Proof using Hc.
  intros HI Hs.
  unfold step in Hs. cbn [exec] in Hs. set (v0 := set_m v (clear_calls (set_fault (v_m v) f 0))) in *.
  assert (I0 : VamInv c v0).
  { apply VamInvU_mach_same; [exact HI|]. eapply mach_same_trans; [apply mach_same_set_fault|apply mach_same_clear]. }
  destruct (allocation_map c v0 s) as (v1 & r) eqn:Em. destruct r as [[]|code| |]; cbn in Hs; try discriminate. injection Hs as <- <-.
  destruct (allocation_map_target v0 s v1 I0 Em) as (Sa & Hma & (a' & Sa' & E1 & E2 & E3 & E4 & E5) & Hcalls).
  assert (Eg : get_alloc v0 s = get_alloc v s) by reflexivity. rewrite Eg in *. cbn zeta.
  split; [apply (slot_is_set_m v (clear_calls (set_fault (v_m v) f 0)) s (get_alloc v s)); exact Sa|]. split; [exact Hma|]. split.
  - cbn in Hcalls. destruct Hcalls as [->|(code & ->)]; [left; reflexivity|right; exists code; reflexivity].
  - exists a'. split; [apply slot_is_set_m; exact Sa'|]. split; [exact E1|]. split; [exact E2|].
    unfold map_target in *; rewrite !find_offset_set_m in *; exact E5.
Qed.

Theorem map_ok_target v G s f v' calls :
  reachB c v G -> op_ok v (OMap s) -> step c v (OMap s) f = (v', ROk, calls) ->
  let a := get_alloc v s in
  slot_is v s a /\ a_mapallowed a = true /\
  (calls = [] \/ exists code, calls = [CMap (a_mem a) 0 (-1) code]) /\
  exists a', slot_is v' s a' /\ a_mem a' = a_mem a /\ a_size a' = a_size a /\ map_target v' a' = map_target v a /\ target_ok v' s a'.
Proof using Ha.
  intros R Hok Hs.
  pose proof (reachB_step c v G (OMap s) f v' ROk calls R Hok I I Hs ltac:(discriminate) ltac:(discriminate)) as R'.
  pose proof (va_s _ _ _ _ (reachA_inv c Ha v (reachB_reachA c _ _ R))) as HI.
  destruct (map_ok_core v s f v' calls HI Hs) as (Sa & Hma & Hcalls & a' & Sa' & E1 & E2 & E5). cbn zeta.
  split; [exact Sa|]. split; [exact Hma|]. split; [exact Hcalls|]. exists a'. repeat (split; [assumption|]).
  apply (pointer_target_valid _ _ s a' R' Sa'). left. cbn [gstep]. rewrite upd_same. pose proof (bb_G _ _ _ (reachB_bal c Ha v G R) s). lia.
Qed.

(* the same while a defragmentation run is open (the Allocation is not one the run works on: op_avoids) *)
Theorem map_ok_target_defrag v run G s f v' calls :
  reachDB c v run G -> op_avoids run (OMap s) -> op_ok v (OMap s) -> step c v (OMap s) f = (v', ROk, calls) ->
  let a := get_alloc v s in
  slot_is v s a /\ a_mapallowed a = true /\
  (calls = [] \/ exists code, calls = [CMap (a_mem a) 0 (-1) code]) /\
  exists a', slot_is v' s a' /\ a_mem a' = a_mem a /\ a_size a' = a_size a /\ map_target v' a' = map_target v a /\ target_ok v' s a'.
Proof using Ha.
  intros R Hav Hok Hs.
  pose proof (reachDB_step c v run G (OMap s) f v' ROk calls R Hav Hok I I Hs ltac:(discriminate) ltac:(discriminate)) as R'.
  pose proof (va_s _ _ _ _ (proj1 (reachDA_inv c Ha v run (reachDB_reachDA c Ha v run G R)))) as HI.
  destruct (map_ok_core v s f v' calls HI Hs) as (Sa & Hma & Hcalls & a' & Sa' & E1 & E2 & E5). cbn zeta.
  split; [exact Sa|]. split; [exact Hma|]. split; [exact Hcalls|]. exists a'. repeat (split; [assumption|]).
  apply (pointer_target_valid_defrag _ _ _ s a' R' Sa'). left. cbn [gstep]. rewrite upd_same. pose proof (bb_G _ _ _ (reachDB_bal c Ha v run G R) s). lia.
Qed.

End Thm.
