(* TlsfInv1.v — first invariant layer of the TLSF model: geometry of the chain, ghost request
   facts, and coalescing (no two adjacent free blocks, last chain block taken).  It does not
   mention free lists, bitmaps or counters; it is preserved by every operation whatever they do. *)
From Coq Require Import ZArith List Bool Lia.
From Arsenal Require Import Util Gran Tlsf TlsfGeom.
Import ListNotations.
Open Scope Z_scope.

Record geom (t : tlsf) : Prop := mkGeom {
  g_chain : chain_from 0 (t_chain t);
  g_null_off : b_off (t_null t) = chain_end 0 (t_chain t);
  g_null_size : 0 <= b_size (t_null t);
  g_total : b_off (t_null t) + b_size (t_null t) = t_size t;
  g_null_free : b_free (t_null t) = true
}.

Definition gh_ok (b : blk) : Prop :=
  0 < b_reqalign b /\ b_off b mod b_reqalign b = 0 /\ b_reqsize b <= b_size b /\
  (b_free b = true -> b_reqalign b = 1 /\ b_reqsize b = 0).

(* naf pf c: walking c with pf = "the previous block is free", no two neighbours are free *)
Fixpoint naf (pf : bool) (c : list blk) : Prop :=
  match c with
  | [] => True
  | b :: r => (pf = true -> b_free b = false) /\ naf (b_free b) r
  end.

Fixpoint last_free (pf : bool) (c : list blk) : bool :=
  match c with
  | [] => pf
  | b :: r => last_free (b_free b) r
  end.

Definition no_adj_free (c : list blk) : Prop := naf false c.
(* the null block is free, so the last chain block must be taken *)
Definition last_taken (c : list blk) : Prop := last_free false c = false.

Record Inv1 (t : tlsf) : Prop := mkInv1 {
  i_geom : geom t;
  i_ghost : Forall gh_ok (t_chain t);
  i_noadj : no_adj_free (t_chain t);
  i_last : last_taken (t_chain t)
}.

(* ------------------------------------------------------------------ no_adj_free algebra *)

Lemma naf_app pf a b : naf pf (a ++ b) <-> naf pf a /\ naf (last_free pf a) b.
Proof.
  revert pf; induction a as [|x a IH]; intros pf; cbn.
  - tauto.
  - rewrite IH. tauto.
Qed.

Lemma last_free_app pf a b : last_free pf (a ++ b) = last_free (last_free pf a) b.
Proof. revert pf; induction a as [|x a IH]; intros pf; cbn; auto. Qed.

Lemma naf_weaken pf c : naf pf c -> naf false c.
Proof. destruct c; cbn; [auto|]. intros [_ H]. split; [discriminate|auto]. Qed.

(* ------------------------------------------------------------------ specs of the list-level steps *)

Lemma remove_free_block_spec t b t' :
  remove_free_block t b = Some t' ->
  b_free b = true /\
  t_chain t' = replace_blk (b_off b) (set_blk b (b_off b) (b_size b) false None) (t_chain t) /\
  t_null t' = t_null t /\ t_size t' = t_size t /\ t_gran t' = t_gran t /\
  t_alloc_count t' = t_alloc_count t.
Proof.
  unfold remove_free_block. destruct (b_free b) eqn:Hf; cbn [negb]; [|discriminate].
  destruct (list_at t _) as [|h rest]; [discriminate|].
  destruct (h =? b_off b).
  - destruct (_ || _); [discriminate|].
    destruct rest.
    + destruct (_ || _); intros H; injection H as <-; cbn; auto 10.
    + intros H; injection H as <-; cbn; auto 10.
  - destruct (mem_z _ _); [|discriminate].
    intros H; injection H as <-; cbn; auto 10.
Qed.

Lemma insert_free_block_spec t b t' :
  insert_free_block t b = Some t' ->
  b_free b = false /\
  t_chain t' = replace_blk (b_off b) (mkBlk (b_off b) (b_size b) true None 0 0 1) (t_chain t) /\
  t_null t' = t_null t /\ t_size t' = t_size t /\ t_gran t' = t_gran t /\
  t_alloc_count t' = t_alloc_count t.
Proof.
  unfold insert_free_block. destruct (b_free b) eqn:Hf; [discriminate|].
  destruct (_ || _); [discriminate|].
  destruct (list_at t _).
  - destruct (_ || _); intros H; injection H as <-; cbn; auto 10.
  - intros H; injection H as <-; cbn; auto 10.
Qed.

(* ------------------------------------------------------------------ what check_block grants *)

Lemma check_block_spec t b li allocSize align atype maxOffset t' r :
  check_block t b li allocSize align atype maxOffset = CBOk t' r ->
  b_free b = true /\ rq_block r = b_off b /\ rq_size r = allocSize /\ rq_type r = atype /\
  rq_is_null r = (match li with None => true | Some _ => false end) /\
  rq_offset r < maxOffset /\
  t_chain t' = t_chain t /\ t_null t' = t_null t /\ t_size t' = t_size t /\ t_gran t' = t_gran t /\
  t_alloc_count t' = t_alloc_count t /\
  exists aligned', check_conflict (t_gran t) (align_up (b_off b) align) allocSize (b_off b) (b_size b) atype = Some (aligned', false)
                   /\ rq_offset r = aligned'
                   /\ allocSize + align_up (b_off b) align - b_off b <= b_size b.
Proof.
  unfold check_block. destruct (b_free b) eqn:Hf; cbn [negb]; [|discriminate].
  destruct (b_size b <? _) eqn:Hsz; [discriminate|].
  destruct (check_conflict _ _ _ _ _ _) as [[al [|]]|] eqn:Hc; try discriminate.
  destruct (maxOffset <=? al) eqn:Hm; [discriminate|].
  destruct li as [idx|].
  - destruct (_ || _); intros H; injection H as <- <-; cbn; repeat split; auto; try lia;
      exists al; repeat split; auto; lia.
  - intros H; injection H as <- <-; cbn; repeat split; auto; try lia;
      exists al; repeat split; auto; lia.
Qed.
